/-
Property C18 — "Bit arrays and streams are exact for every index, width, value and alignment".

Statement (properties.jsonl): bit arrays behave as sets of indices: setting, clearing or reading one
index never disturbs another, whole-array set/clear/empty/and/compare behave as the corresponding set
operations, and sub-range views address exactly their range and report emptiness of that range only.
Writing any sequence of values with widths 1..32 to a bit stream and reading them back with the same
widths returns the same values and cursor regardless of byte alignment, and buffer comparison is
equality of contents.

Model: `Hfsm.Model.Bits` (BitArrayT, Bits/CBits), `Hfsm.Model.Stream` (StreamBufferT, write<W>, read<W>).
Helper lemmas: `Hfsm.Proofs.Bits`, `Hfsm.Proofs.Stream`.

Status against the current /repo:
* (F9, repaired by "fix: Bits/CBits operator bool no longer reads the byte after a whole-byte view")
  `operator bool` reads no byte outside the view — now a full theorem (`toBoolReads_in_view`,
  `toBoolReads_in_array`).  Before the repair it was false for `width % 8 = 0` (witness then:
  `BitArrayT<8>`, `bits<0,8>()` read units `[0, 1]`).
* (pad, repaired by "fix: BitArrayT::set() leaves the padding bits of the last unit clear")
  whole-array `empty` / `!=` as set operations on `{i < CAPACITY | get i}` — now full theorems for every
  array reachable from the constructor by the public operations (`empty_iff`, `neq_iff`).  Before the
  repair `set()` on a capacity not divisible by 8 set the padding bits (witness then: `BitArrayT<5>`,
  `set()`, `clear(0…4)`, `empty() == false`).
* Still FALSE / open (known findings): `operator &` is not "the intersection is non-empty" but "every
  unit holds a common bit" (`andAny_iff_units`, `andAny_not_intersects`); `Bits::clear()` zeroes whole
  units, i.e. also bits after the view's width (`get_view_clearAll`; harmless under the library's unit
  layout, `view_clearAll_disjoint`, `layout_pairwise`).
-/
import Hfsm.Proofs.Bits
import Hfsm.Proofs.Stream

namespace Hfsm.Props.C18
open Hfsm.Model Hfsm.Model.Bits

/-! ## (a) bit array -/

/-- Well-formed storage of a `BitArrayT<cap>`. -/
def WF (cap : Nat) (s : Storage) : Prop := s.length = unitCount cap

instance (cap : Nat) (s : Storage) : Decidable (WF cap s) := by unfold WF; infer_instance

theorem wf_mk (cap : Nat) : WF cap (mk cap) := length_mk cap

theorem wf_set (cap : Nat) (s : Storage) (i : Nat) (h : WF cap s) : WF cap (set s i) := by
  unfold WF at *; rw [length_set]; exact h
theorem wf_clear (cap : Nat) (s : Storage) (i : Nat) (h : WF cap s) : WF cap (clear s i) := by
  unfold WF at *; rw [length_clear]; exact h
theorem wf_setAll (cap : Nat) (s : Storage) (h : WF cap s) : WF cap (setAll cap s) := by
  unfold WF at *; rw [length_setAll]; exact h
theorem wf_clearAll (cap : Nat) (s : Storage) (h : WF cap s) : WF cap (clearAll s) := by
  unfold WF at *; rw [length_clearAll]; exact h
theorem wf_andAssign (cap : Nat) (a b : Storage) (ha : WF cap a) (hb : WF cap b) :
    WF cap (andAssign a b) := by
  unfold WF at *; rw [andAssign_length a b (by omega)]; exact ha

/-- An index below the capacity lives in a unit of the array. -/
theorem unit_lt (cap i : Nat) (h : i < cap) : i / 8 < unitCount cap := by
  unfold unitCount contain; omega

/-- `get/set/clear(i)` with `i < CAPACITY` dereference only a unit of the array. -/
theorem index_touched_in_array (cap i : Nat) (h : i < cap) :
    ∀ k ∈ indexTouched i, k < unitCount cap := by
  intro k hk
  simp [indexTouched] at hk
  subst hk; exact unit_lt cap i h

example : (3 : Nat) < 5 := by decide

/-- A freshly constructed array has no index set. -/
theorem get_mk (cap i : Nat) : get (mk cap) i = false := by
  rw [get_eq_bitAt, bitAt_mk]

/-- Frame law: `set(i)` makes `get(i)` true … -/
theorem get_set_same (cap : Nat) (s : Storage) (i : Nat) (hwf : WF cap s) (hi : i < cap) :
    get (set s i) i = true := by
  rw [get_eq_bitAt, bitAt_set]
  have : i / 8 < s.length := by rw [hwf]; exact unit_lt cap i hi
  simp [this]

example : WF 13 (mk 13) ∧ (12 : Nat) < 13 := ⟨wf_mk 13, by decide⟩

/-- … and leaves every other index alone (any `i`, `j`; no hypothesis needed). -/
theorem get_set_other (s : Storage) (i j : Nat) (h : j ≠ i) : get (set s i) j = get s j := by
  rw [get_eq_bitAt, get_eq_bitAt, bitAt_set]
  simp [h]

/-- Frame law: `clear(i)` makes `get(i)` false … -/
theorem get_clear_same (s : Storage) (i : Nat) : get (clear s i) i = false := by
  rw [get_eq_bitAt, bitAt_clear]; simp

/-- … and leaves every other index alone. -/
theorem get_clear_other (s : Storage) (i j : Nat) (h : j ≠ i) : get (clear s i) j = get s j := by
  rw [get_eq_bitAt, get_eq_bitAt, bitAt_clear]; simp [h]

/-- `set(i)` / `clear(i)` as set operations, in one line each. -/
theorem get_set (cap : Nat) (s : Storage) (i j : Nat) (hwf : WF cap s) (hi : i < cap) :
    get (set s i) j = (decide (j = i) || get s j) := by
  rw [get_eq_bitAt, get_eq_bitAt, bitAt_set]
  have : i / 8 < s.length := by rw [hwf]; exact unit_lt cap i hi
  simp [this]

theorem get_clear (s : Storage) (i j : Nat) : get (clear s i) j = (!decide (j = i) && get s j) := by
  rw [get_eq_bitAt, get_eq_bitAt, bitAt_clear]

/-- The storage is determined by the set of indices in `[0, 8·UNIT_COUNT)`. -/
theorem ext_get (a b : Storage) (hl : a.length = b.length) (h : ∀ i, get a i = get b i) : a = b :=
  storage_ext a b hl (fun i => by rw [← get_eq_bitAt, ← get_eq_bitAt]; exact h i)

/-- No index at or beyond `8·UNIT_COUNT` is ever reported set. -/
theorem get_beyond (s : Storage) (i : Nat) (h : 8 * s.length ≤ i) : get s i = false := by
  rw [get_eq_bitAt]; exact bitAt_oob s i h

/-! ### whole-array operations as set operations on `[0, 8·UNIT_COUNT)` -/

/-- `set()`: exactly the indices below the capacity (the padding bits of the last unit stay clear). -/
theorem get_setAll (cap : Nat) (s : Storage) (hwf : WF cap s) (i : Nat) :
    get (setAll cap s) i = decide (i < cap) := by
  rw [get_eq_bitAt, bitAt_setAll cap s hwf]

example : WF 13 (mk 13) := wf_mk 13

/-- `clear()`: the empty set. -/
theorem get_clearAll (s : Storage) (i : Nat) : get (clearAll s) i = false := by
  rw [get_eq_bitAt, bitAt_clearAll]

/-- `empty()` ⇔ no index of `[0, 8·UNIT_COUNT)` is set. -/
theorem empty_iff_units (s : Storage) : empty s = true ↔ ∀ i, i < 8 * s.length → get s i = false := by
  rw [empty_iff]
  constructor
  · intro h i _; rw [get_eq_bitAt]; exact h i
  · intro h i
    by_cases hi : i < 8 * s.length
    · rw [← get_eq_bitAt]; exact h i hi
    · exact bitAt_oob s i (by omega)

/-- `operator !=` is inequality of contents … -/
theorem neq_iff_ne (a b : Storage) (hl : a.length = b.length) : neq a b = true ↔ a ≠ b := by
  rw [neq_eq_decide a b hl]; simp

/-- … i.e. the index sets over `[0, 8·UNIT_COUNT)` differ. -/
theorem neq_iff_units (a b : Storage) (hl : a.length = b.length) :
    neq a b = true ↔ ∃ i, i < 8 * a.length ∧ get a i ≠ get b i := by
  rw [neq_iff_ne a b hl]
  constructor
  · intro hne
    apply Classical.byContradiction
    intro hn
    apply hne
    apply ext_get a b hl
    intro i
    by_cases hi : i < 8 * a.length
    · apply Classical.byContradiction
      intro hd; exact hn ⟨i, hi, hd⟩
    · rw [get_beyond a i (by omega), get_beyond b i (by omega)]
  · rintro ⟨i, _, hd⟩ heq
    subst heq; exact hd rfl

example : ([1#8, 0#8] : Storage).length = ([1#8, 2#8] : Storage).length := rfl

/-- `operator &=` is intersection. -/
theorem get_andAssign (a b : Storage) (i : Nat) : get (andAssign a b) i = (get a i && get b i) := by
  rw [get_eq_bitAt, get_eq_bitAt, get_eq_bitAt, bitAt_andAssign]

/-- `operator &` exactly as coded: `true` iff **every unit** contains an index set in both operands.
It is neither "intersection non-empty" (that would be ∃ unit) nor "subset"; for `UNIT_COUNT = 1`
(CAPACITY ≤ 8) it coincides with "intersection non-empty".  No call site exists in the library
(grep over machine.hpp: only the definition), so nothing depends on either reading. -/
theorem andAny_iff_units (a b : Storage) (hl : a.length = b.length) :
    andAny a b = true ↔
      ∀ u, u < a.length → ∃ k, k < 8 ∧ get a (8 * u + k) = true ∧ get b (8 * u + k) = true := by
  rw [andAny_iff a b hl]
  constructor
  · intro h u hu
    obtain ⟨k, hk, h1, h2⟩ := h u hu
    exact ⟨k, hk, by rw [get_eq_bitAt]; exact h1, by rw [get_eq_bitAt]; exact h2⟩
  · intro h u hu
    obtain ⟨k, hk, h1, h2⟩ := h u hu
    exact ⟨k, hk, by rw [← get_eq_bitAt]; exact h1, by rw [← get_eq_bitAt]; exact h2⟩

/-- `operator &` is not "the intersection is non-empty": two 16-bit arrays sharing index 0 only. -/
theorem andAny_not_intersects :
    let a := set (mk 16) 0
    (get a 0 && get a 0) = true ∧ andAny a a = false := by decide

/-- For a single unit, `operator &` is "the intersection is non-empty". -/
theorem andAny_single_unit (a b : Storage) (ha : a.length = 1) (hb : b.length = 1) :
    andAny a b = true ↔ ∃ i, i < 8 ∧ get a i = true ∧ get b i = true := by
  rw [andAny_iff_units a b (by omega), ha]
  constructor
  · intro h
    obtain ⟨k, hk, h1, h2⟩ := h 0 (by omega)
    exact ⟨k, hk, by simpa using h1, by simpa using h2⟩
  · rintro ⟨i, hi, h1, h2⟩ u hu
    have : u = 0 := by omega
    subst this
    exact ⟨i, hi, by simpa using h1, by simpa using h2⟩

example : ([5#8] : Storage).length = 1 ∧ ([4#8] : Storage).length = 1 ∧ andAny [5#8] [4#8] = true := by decide

/-! ### … and on `[0, CAPACITY)`: the padding bits stay zero

`empty()`, `!=` and `&` inspect whole units, so they are set operations on `[0, CAPACITY)` exactly when the
padding bits `CAPACITY … 8·UNIT_COUNT-1` are zero (`PadClean`).  The constructor establishes that and
every public operation preserves it (`padClean_*`; `set()` since the padding repair), so the statements
hold for every reachable array (`Reachable`, `empty_iff`, `neq_iff`, after the views section). -/

/-- The padding bits `CAPACITY … 8·UNIT_COUNT-1` are zero. -/
def PadClean (cap : Nat) (s : Storage) : Prop := ∀ i, cap ≤ i → i < 8 * s.length → get s i = false

instance (cap : Nat) (s : Storage) : Decidable (PadClean cap s) := by
  unfold PadClean
  exact decidable_of_iff (∀ i, i < 8 * s.length → cap ≤ i → get s i = false)
    ⟨fun h i a b => h i b a, fun h i a b => h i b a⟩

theorem padClean_mk (cap : Nat) : PadClean cap (mk cap) := fun i _ _ => get_mk cap i

theorem padClean_set (cap : Nat) (s : Storage) (i : Nat) (hi : i < cap) (h : PadClean cap s) :
    PadClean cap (set s i) := by
  intro j hj hl
  rw [length_set] at hl
  rw [get_set_other s i j (by omega)]; exact h j hj hl

theorem padClean_clear (cap : Nat) (s : Storage) (i : Nat) (h : PadClean cap s) :
    PadClean cap (clear s i) := by
  intro j hj hl
  rw [length_clear] at hl
  rw [get_clear, h j hj hl]; simp

theorem padClean_clearAll (cap : Nat) (s : Storage) : PadClean cap (clearAll s) :=
  fun i _ _ => get_clearAll s i

theorem padClean_andAssign_left (cap : Nat) (a b : Storage) (hl : a.length = b.length)
    (h : PadClean cap a) : PadClean cap (andAssign a b) := by
  intro j hj hlen
  rw [andAssign_length a b hl] at hlen
  rw [get_andAssign, h j hj hlen]; simp

/-- `set()` keeps the padding clean, for every capacity. -/
theorem padClean_setAll (cap : Nat) (s : Storage) (hwf : WF cap s) : PadClean cap (setAll cap s) := by
  intro j hj _
  rw [get_setAll cap s hwf]
  have : ¬ j < cap := by omega
  simp [this]

example : WF 13 (mk 13) := wf_mk 13

theorem padClean_andAssign_right (cap : Nat) (a b : Storage) (hl : a.length = b.length)
    (h : PadClean cap b) : PadClean cap (andAssign a b) := by
  intro j hj hlen
  rw [andAssign_length a b hl] at hlen
  rw [get_andAssign, h j hj (by omega)]; simp

/-- `empty()` over `[0, CAPACITY)`, given clean padding. -/
theorem empty_iff_of_padClean (cap : Nat) (s : Storage) (hwf : WF cap s) (hp : PadClean cap s) :
    empty s = true ↔ ∀ i, i < cap → get s i = false := by
  rw [empty_iff_units]
  have hcap : cap ≤ 8 * s.length := by rw [hwf]; unfold unitCount contain; omega
  constructor
  · intro h i hi; exact h i (by omega)
  · intro h i hi
    by_cases hc : i < cap
    · exact h i hc
    · exact hp i (by omega) hi

/-- `operator !=` over `[0, CAPACITY)`, given clean padding on both sides. -/
theorem neq_iff_of_padClean (cap : Nat) (a b : Storage) (ha : WF cap a) (hb : WF cap b)
    (hpa : PadClean cap a) (hpb : PadClean cap b) :
    neq a b = true ↔ ∃ i, i < cap ∧ get a i ≠ get b i := by
  have hl : a.length = b.length := by rw [ha, hb]
  rw [neq_iff_units a b hl]
  have hcap : cap ≤ 8 * a.length := by rw [ha]; unfold unitCount contain; omega
  constructor
  · rintro ⟨i, hi, hd⟩
    by_cases hc : i < cap
    · exact ⟨i, hc, hd⟩
    · exfalso; apply hd
      rw [hpa i (by omega) hi, hpb i (by omega) (by omega)]
  · rintro ⟨i, hi, hd⟩; exact ⟨i, by omega, hd⟩

example : WF 13 (set (mk 13) 12) ∧ PadClean 13 (set (mk 13) 12) :=
  ⟨wf_set 13 _ 12 (wf_mk 13), padClean_set 13 _ 12 (by decide) (padClean_mk 13)⟩

/-- Regression example for the padding repair: `BitArrayT<5>`, `set()`, then `clear(0) … clear(4)` is empty
and equal to a fresh array (before the repair `empty()` answered `false` here). -/
theorem pad_fixed_example :
    let s := clear (clear (clear (clear (clear (setAll 5 (mk 5)) 0) 1) 2) 3) 4
    setAll 5 (mk 5) = [0x1F#8] ∧ empty s = true ∧ neq s (mk 5) = false := by decide

/-! ### views `bits<UNIT, WIDTH>()`, `bits(Units{unit, width})` -/

/-- A view index below the width lives in a unit of the view (hence of the array, by `fits`). -/
theorem view_index_touched (s : Storage) (unit width i : Nat) (hfit : View.fits s unit width)
    (hi : i < width) :
    ∀ k ∈ View.indexTouched unit i, unit ≤ k ∧ k < unit + contain width 8 ∧ k < s.length := by
  intro k hk
  simp [View.indexTouched] at hk
  subst hk
  unfold View.fits at hfit
  have : i / 8 < contain width 8 := by unfold contain; omega
  omega

example : View.fits (mk 32) 3 7 ∧ (4 : Nat) < 7 := by decide

/-- Views address exactly `[8·unit, 8·unit + width)`: view index `i` is array index `8·unit + i`. -/
theorem view_get (s : Storage) (unit i : Nat) : View.get s unit i = get s (8 * unit + i) :=
  view_get_eq s unit i
theorem view_set (s : Storage) (unit i : Nat) : View.set s unit i = set s (8 * unit + i) :=
  view_set_eq s unit i
theorem view_clear (s : Storage) (unit i : Nat) : View.clear s unit i = clear s (8 * unit + i) :=
  view_clear_eq s unit i

/-- Frame: `view.set(i)` changes array index `8·unit+i` and nothing else. -/
theorem view_set_frame (s : Storage) (unit i j : Nat) (h : j ≠ 8 * unit + i) :
    get (View.set s unit i) j = get s j := by
  rw [view_set]; exact get_set_other s _ j h

theorem view_get_set_same (s : Storage) (unit width i : Nat) (hfit : View.fits s unit width)
    (hi : i < width) : View.get (View.set s unit i) unit i = true := by
  rw [view_get, view_set, get_eq_bitAt, bitAt_set]
  have := (view_index_touched s unit width i hfit hi) (unit + i / 8) (by simp [View.indexTouched])
  have : (8 * unit + i) / 8 < s.length := by omega
  simp [this]

/-- Frame: `view.clear(i)` changes array index `8·unit+i` and nothing else. -/
theorem view_clear_frame (s : Storage) (unit i j : Nat) (h : j ≠ 8 * unit + i) :
    get (View.clear s unit i) j = get s j := by
  rw [view_clear]; exact get_clear_other s _ j h

theorem view_get_clear_same (s : Storage) (unit i : Nat) :
    View.get (View.clear s unit i) unit i = false := by
  rw [view_get, view_clear]; exact get_clear_same s _

theorem length_view_clearAll (s : Storage) (unit width : Nat) :
    (View.clearAll s unit width).length = s.length := length_clearUnits _ _ _

/-- `Bits::clear()` exactly: it clears the array indices `[8·unit, 8·(unit + ⌈width/8⌉))` — whole units,
so also the `8·⌈width/8⌉ - width` bits after the view — and nothing else. -/
theorem get_view_clearAll (s : Storage) (unit width j : Nat) :
    get (View.clearAll s unit width) j
      = (get s j && !(decide (8 * unit ≤ j) && decide (j < 8 * (unit + contain width 8)))) := by
  rw [get_eq_bitAt, get_eq_bitAt]
  unfold View.clearAll
  rw [bitAt_clearUnits]
  congr 2
  by_cases h1 : 8 * unit ≤ j <;> by_cases h2 : j < 8 * (unit + contain width 8) <;>
    simp [h1, h2] <;> omega

/-- Every bit of the view is cleared. -/
theorem view_get_clearAll (s : Storage) (unit width i : Nat) (hi : i < width) :
    View.get (View.clearAll s unit width) unit i = false := by
  rw [view_get, get_view_clearAll]
  have h1 : 8 * unit ≤ 8 * unit + i := by omega
  have h2 : 8 * unit + i < 8 * (unit + contain width 8) := by unfold contain; omega
  simp [h1, h2]

example : (6 : Nat) < 7 := by decide

/-- `Bits::clear()` touches only the units of the view. -/
theorem view_clearAll_touched (s : Storage) (unit width : Nat) (hfit : View.fits s unit width) :
    ∀ k ∈ View.clearAllTouched unit width, unit ≤ k ∧ k < unit + contain width 8 ∧ k < s.length := by
  intro k hk
  unfold View.fits at hfit
  simp [View.clearAllTouched] at hk
  obtain ⟨a, ha, rfl⟩ := hk
  omega

/-- Views whose unit ranges are disjoint do not disturb each other, not even through the whole-unit
`clear()`.  This is the library's situation: every orthogonal region gets
`unit = Σ contain(WIDTH', 8)` over the regions before it (`ORTHO_UNITS = SubStates::ORTHO_UNITS +
contain(WIDTH, 8)`, `ORTHO_UNIT + contain(WIDTH, 8)` in forward.hpp / orthogonal_sub), see `layout`. -/
theorem view_clearAll_disjoint (s : Storage) (u1 w1 u2 w2 i : Nat)
    (hdis : u1 + contain w1 8 ≤ u2 ∨ u2 + contain w2 8 ≤ u1) (hi : i < w2) :
    View.get (View.clearAll s u1 w1) u2 i = View.get s u2 i := by
  rw [view_get, view_get, get_view_clearAll]
  have : i / 8 < contain w2 8 := by unfold contain; omega
  have : ¬ (8 * u1 ≤ 8 * u2 + i ∧ 8 * u2 + i < 8 * (u1 + contain w1 8)) := by omega
  by_cases h1 : 8 * u1 ≤ 8 * u2 + i <;> by_cases h2 : 8 * u2 + i < 8 * (u1 + contain w1 8) <;>
    simp [h1, h2] <;> omega

example : (3 : Nat) + contain 7 8 ≤ 4 ∨ 4 + contain 13 8 ≤ 3 := by decide

/-- The padding bits `Bits::clear()` clears beyond the view belong to no index of the view. -/
theorem view_clearAll_extra (s : Storage) (unit width j : Nat)
    (h1 : 8 * unit + width ≤ j) (h2 : j < 8 * (unit + contain width 8)) :
    get (View.clearAll s unit width) j = false := by
  rw [get_view_clearAll]
  have : 8 * unit ≤ j := by omega
  simp [this, h2]

/-- Unit assignment used by the library for consecutive orthogonal regions of the given widths. -/
def layout (start : Nat) : List Nat → List (Nat × Nat)
  | [] => []
  | w :: ws => (start, w) :: layout (start + contain w 8) ws

theorem layout_ge (ws : List Nat) : ∀ (start : Nat), ∀ p ∈ layout start ws, start ≤ p.1 := by
  induction ws with
  | nil => intro start p hp; simp [layout] at hp
  | cons w ws ih =>
    intro start p hp
    simp only [layout, List.mem_cons] at hp
    rcases hp with hp | hp
    · subst hp; exact Nat.le_refl _
    · have := ih _ p hp; omega

/-- In a `layout` the unit ranges of different views are pairwise disjoint (each starts where the
previous one ends), so `view_clearAll_disjoint` applies to any two of them. -/
theorem layout_pairwise (ws : List Nat) : ∀ (start : Nat),
    (layout start ws).Pairwise (fun a b => a.1 + contain a.2 8 ≤ b.1) := by
  induction ws with
  | nil => intro start; simp [layout]
  | cons w ws ih =>
    intro start
    simp only [layout, List.pairwise_cons]
    exact ⟨fun p hp => layout_ge ws _ p hp, ih _⟩

/-- `operator bool` ⇔ some index of the view is set — emptiness of `[8·unit, 8·unit+width)` only.
(The value is computed with out-of-array reads yielding 0; `toBool_oob_irrelevant` shows the choice is
immaterial under the `bits()` precondition.) -/
theorem toBool_iff_exists (s : Storage) (unit width : Nat) :
    View.toBool s unit width = true ↔ ∃ i, i < width ∧ View.get s unit i = true := by
  rw [toBool_iff]
  constructor
  · rintro ⟨i, hi, h⟩; exact ⟨i, hi, by rw [view_get, get_eq_bitAt]; exact h⟩
  · rintro ⟨i, hi, h⟩; exact ⟨i, hi, by rw [view_get, get_eq_bitAt] at h; exact h⟩

/-- Whatever an out-of-array read would return, `operator bool` gives the same answer and reads the
same bytes (under the `bits()` precondition it never performs such a read, `toBoolReads_in_array`). -/
theorem toBool_oob_irrelevant (oob : Byte) (s : Storage) (unit width : Nat)
    (hfit : View.fits s unit width) :
    View.toBoolRun oob s unit width = (View.toBool s unit width, View.toBoolReads s unit width) := by
  unfold View.toBool View.toBoolReads
  rw [toBoolRun_oob_irrel oob 0#8 s unit width hfit]

example : View.fits (mk 16) 1 8 := by decide

/-- **`operator bool` reads no byte outside the view** — for every width (full statement; before the
F9 repair this held only for `width % 8 ≠ 0`). -/
theorem toBoolReads_in_view (s : Storage) (unit width : Nat) :
    ∀ k ∈ View.toBoolReads s unit width, unit ≤ k ∧ k < unit + contain width 8 := by
  unfold View.toBoolReads View.toBoolRun
  simp only
  intro k
  have hr := scanFull_reads (width / 8) 0#8 s unit
  unfold contain
  cases hsc : (View.scanFull 0#8 s unit (width / 8)).1
  · simp only [Bool.false_eq_true, if_false]
    by_cases hb : width % 8 = 0
    · rw [if_pos hb]
      intro hk; have := hr k hk; omega
    · rw [if_neg hb]
      simp only [List.mem_append, List.mem_singleton]
      rintro (hk | hk)
      · have := hr k hk; omega
      · omega
  · simp only [if_true]
    intro hk; have := hr k hk; omega

/-- … hence, under the `bits()` precondition, no byte outside the array. -/
theorem toBoolReads_in_array (s : Storage) (unit width : Nat) (hfit : View.fits s unit width) :
    ∀ k ∈ View.toBoolReads s unit width, k < s.length := by
  intro k hk
  have := toBoolReads_in_view s unit width k hk
  unfold View.fits at hfit
  omega

example : View.fits (mk 8) 0 8 ∧ View.fits (mk 24) 1 16 := by decide

/-- Regression example for F9: `BitArrayT<8>`, freshly constructed, `bits<0, 8>()`: `operator bool` reads
unit 0 only (before the repair it read `[0, 1]`, unit 1 being one past the array). -/
theorem F9_fixed_example :
    View.toBoolReads (mk 8) 0 8 = [0] ∧ View.toBoolReads (mk 24) 1 16 = [1, 2] ∧
    View.toBoolReads (mk 13) 0 13 = [0, 1] := by decide

/-! ### reachable arrays: the whole-array predicates on `[0, CAPACITY)` -/

/-- Arrays reachable from the constructor by the public operations, each within its contract.
(`copy` = assignment is the identity on storages.)  A view may be declared wider than the capacity
(`bits()` only checks the unit range); writing through it at `8·unit + i ≥ CAPACITY` would set a padding
bit, so `viewSet` carries the index condition explicitly (`view_set_beyond_capacity`). -/
inductive Reachable (cap : Nat) : Storage → Prop
  | mk : Reachable cap (Bits.mk cap)
  | set (s : Storage) (i : Nat) : Reachable cap s → i < cap → Reachable cap (Bits.set s i)
  | clear (s : Storage) (i : Nat) : Reachable cap s → i < cap → Reachable cap (Bits.clear s i)
  | setAll (s : Storage) : Reachable cap s → Reachable cap (Bits.setAll cap s)
  | clearAll (s : Storage) : Reachable cap s → Reachable cap (Bits.clearAll s)
  | andAssign (a b : Storage) : Reachable cap a → Reachable cap b → Reachable cap (Bits.andAssign a b)
  | viewSet (s : Storage) (unit width i : Nat) : Reachable cap s → View.fits s unit width → i < width →
      8 * unit + i < cap → Reachable cap (View.set s unit i)
  | viewClear (s : Storage) (unit width i : Nat) : Reachable cap s → View.fits s unit width → i < width →
      Reachable cap (View.clear s unit i)
  | viewClearAll (s : Storage) (unit width : Nat) : Reachable cap s → View.fits s unit width →
      Reachable cap (View.clearAll s unit width)

/-- Invariant of reachable arrays: right size, padding bits zero. -/
theorem reachable_inv (cap : Nat) (s : Storage) (h : Reachable cap s) : WF cap s ∧ PadClean cap s := by
  induction h with
  | mk => exact ⟨wf_mk cap, padClean_mk cap⟩
  | set s i _ hi ih => exact ⟨wf_set cap s i ih.1, padClean_set cap s i hi ih.2⟩
  | clear s i _ _ ih => exact ⟨wf_clear cap s i ih.1, padClean_clear cap s i ih.2⟩
  | setAll s _ ih => exact ⟨wf_setAll cap s ih.1, padClean_setAll cap s ih.1⟩
  | clearAll s _ ih => exact ⟨wf_clearAll cap s ih.1, padClean_clearAll cap s⟩
  | andAssign a b _ _ iha ihb =>
    exact ⟨wf_andAssign cap a b iha.1 ihb.1,
      padClean_andAssign_left cap a b (by rw [iha.1, ihb.1]) iha.2⟩
  | viewSet s unit width i _ _ _ hc ih =>
    rw [view_set]
    exact ⟨wf_set cap s _ ih.1, padClean_set cap s _ hc ih.2⟩
  | viewClear s unit width i _ _ _ ih =>
    rw [view_clear]
    exact ⟨wf_clear cap s _ ih.1, padClean_clear cap s _ ih.2⟩
  | viewClearAll s unit width _ _ ih =>
    refine ⟨by unfold WF; rw [length_view_clearAll]; exact ih.1, ?_⟩
    intro j hj hl
    rw [length_view_clearAll] at hl
    rw [get_view_clearAll, ih.2 j hj hl]; simp

/-- **`empty()` ⇔ no index below the capacity is set**, for every reachable array. -/
theorem empty_iff (cap : Nat) (s : Storage) (h : Reachable cap s) :
    empty s = true ↔ ∀ i, i < cap → get s i = false :=
  empty_iff_of_padClean cap s (reachable_inv cap s h).1 (reachable_inv cap s h).2

/-- **`a != b` ⇔ the index sets below the capacity differ**, for reachable arrays. -/
theorem neq_iff (cap : Nat) (a b : Storage) (ha : Reachable cap a) (hb : Reachable cap b) :
    neq a b = true ↔ ∃ i, i < cap ∧ get a i ≠ get b i :=
  neq_iff_of_padClean cap a b (reachable_inv cap a ha).1 (reachable_inv cap b hb).1
    (reachable_inv cap a ha).2 (reachable_inv cap b hb).2

example : Reachable 13 (clear (setAll 13 (set (Bits.mk 13) 12)) 3) :=
  .clear _ 3 (.setAll _ (.set _ 12 .mk (by decide))) (by decide)

/-- Remark: the asserts of `bits()` accept a view wider than the capacity (`BitArrayT<5>`,
`bits(Units{0, 8})`); setting its index 7 sets a padding bit, after which `empty()` is `false` although no
index below the capacity is set.  Such a write is outside `Reachable` (the library's `OrthoForks` has
`CAPACITY = 8·ORTHO_UNITS`, so it cannot occur there). -/
theorem view_set_beyond_capacity :
    let s := View.set (Bits.mk 5) 0 7
    View.fits (Bits.mk 5) 0 8 ∧ (∀ i, i < 5 → get s i = false) ∧ empty s = false := by decide

/-! ## (b) bit stream -/

open Hfsm.Model.Stream

/-- Well-formed buffer of a `StreamBufferT<cap>`. -/
def BufWF (cap : Nat) (buf : Storage) : Prop := buf.length = byteCount cap

theorem bufWF_cleared (cap : Nat) : BufWF cap (cleared cap) := by simp [BufWF, cleared]

theorem cap_le (cap : Nat) (buf : Storage) (h : BufWF cap buf) : cap ≤ 8 * buf.length := by
  rw [h]; unfold byteCount contain; omega

/-- `operator ==` is equality of contents, `operator !=` its negation. -/
theorem bufEq_iff (a b : Storage) (hl : a.length = b.length) : bufEq a b = true ↔ a = b := by
  rw [bufEq_eq_decide a b hl]; simp

theorem bufNe_iff (a b : Storage) (hl : a.length = b.length) : bufNe a b = true ↔ a ≠ b := by
  rw [bufNe_eq_not_bufEq, bufEq_eq_decide a b hl]; simp

/-- Equal contents ⇔ equal little-endian numbers. -/
theorem bufEq_iff_toNat (a b : Storage) (hl : a.length = b.length) :
    bufEq a b = true ↔ toNat a = toNat b := by
  rw [bufEq_iff a b hl]
  exact ⟨fun h => by rw [h], toNat_inj a b hl⟩

example : ([1#8, 2#8] : Storage).length = ([1#8, 3#8] : Storage).length := rfl

/-- The write loop terminates within its fuel: the cursor advances by exactly `w`, the buffer keeps
its size. -/
theorem write_cursor (w v : Nat) (buf : Storage) (c : Nat) : (write w v buf c).cursor = c + w :=
  writeLoop_cursor _ w _ w buf c (Nat.le_refl _)

theorem write_length (w v : Nat) (buf : Storage) (c : Nat) : (write w v buf c).buf.length = buf.length :=
  writeLoop_length _ w _ w buf c

theorem read_cursor (w : Nat) (buf : Storage) (c : Nat) : (Stream.read w buf c).cursor = c + w :=
  readLoop_cursor _ buf w 0 0 w c (Nat.le_refl _)

/-- `write<w>` touches no byte index ≥ BYTE_COUNT when `cursor + w ≤ BIT_CAPACITY`. -/
theorem write_touched_in_buffer (cap w v : Nat) (buf : Storage) (c : Nat) (_hwf : BufWF cap buf)
    (hfit : c + w ≤ cap) : ∀ k ∈ (write w v buf c).touched, k < byteCount cap := by
  intro k hk
  have := writeLoop_touched _ w _ w buf c (Nat.le_refl _) k hk
  unfold byteCount contain; omega

/-- `read<w>` touches no byte index ≥ BYTE_COUNT when `cursor + w ≤ BIT_CAPACITY`. -/
theorem read_touched_in_buffer (cap w : Nat) (buf : Storage) (c : Nat) (_hwf : BufWF cap buf)
    (hfit : c + w ≤ cap) : ∀ k ∈ (Stream.read w buf c).touched, k < byteCount cap := by
  intro k hk
  have := readLoop_touched _ buf w 0 0 w c (Nat.le_refl _) k hk
  unfold byteCount contain; omega

example : BufWF 45 (cleared 45) ∧ 13 + 32 ≤ 45 := ⟨bufWF_cleared 45, by decide⟩

/-- Bits of the buffer after `write<w>(v)` for ANY `v` representable in `UBitWidth<w>` (also
`v ≥ 2^w`, out of contract): bit `i` is OR-ed with bit `i - c` of `v` for every `i` from the cursor to
the end of the last byte touched (`lim c w = 8·⌈(c+w)/8⌉`).  So surplus bits of `v` *spill* into the
buffer up to the next byte boundary, and are dropped beyond it. -/
theorem write_bits_general (w v : Nat) (buf : Storage) (c : Nat) (hfit : c + w ≤ 8 * buf.length) (i : Nat) :
    bitAt (write w v buf c).buf i
      = (bitAt buf i ||
          (decide (c ≤ i) && decide (i < lim c w) && (v % 2 ^ itemTypeBits w).testBit (i - c))) :=
  writeLoop_bits _ (itemTypeBits_ge8 w) w _ w buf c (Nat.le_refl _) hfit i

/-- Remark made concrete: `write<3>(0xFF)` at cursor 0 of a cleared 16-bit buffer stores `0xFF` in
byte 0 (bits 3…7 spilled), byte 1 untouched; `write<3>(0xFF)` at cursor 6 spills into bits 9…13 (the
`uint8_t` item has no more bits); `write<12>(0xFFFF)` at cursor 6 spills into bits 18…21. -/
theorem spill_example :
    (write 3 0xFF (cleared 16) 0).buf = [0xFF#8, 0x00#8] ∧
    (write 3 0xFF (cleared 16) 6).buf = [0xC0#8, 0x3F#8] ∧
    (write 3 0x07 (cleared 16) 6).buf = [0xC0#8, 0x01#8] ∧
    (write 12 0xFFFF (cleared 24) 6).buf = [0xC0#8, 0xFF#8, 0x3F#8] ∧
    (write 12 0x0FFF (cleared 24) 6).buf = [0xC0#8, 0xFF#8, 0x03#8] := by decide

/-- The same as arithmetic, for ANY value (the remark on out-of-contract values as a lemma):
`N' = N ||| (((v mod 2^T) <<< c) mod 2^(8·⌈(c+w)/8⌉))`, `T` = bits of `UBitWidth<w>`. -/
theorem write_toNat_general (w v : Nat) (buf : Storage) (c : Nat) (hfit : c + w ≤ 8 * buf.length) :
    toNat (write w v buf c).buf
      = toNat buf ||| (((v % 2 ^ itemTypeBits w) <<< c) % 2 ^ lim c w) := by
  apply Nat.eq_of_testBit_eq
  intro i
  rw [testBit_toNat, write_bits_general w v buf c hfit i, Nat.testBit_or, testBit_toNat,
    Nat.testBit_mod_two_pow ((v % 2 ^ itemTypeBits w) <<< c), Nat.testBit_shiftLeft]
  congr 1
  by_cases h1 : c ≤ i <;> by_cases h2 : i < lim c w <;> simp [h1, h2]

example : 6 + 3 ≤ 8 * (cleared 16).length := by decide

/-- In contract (`v < 2^w`, `1 ≤ w ≤ 32`): bit `i` is OR-ed with bit `i - c` of `v`. -/
theorem write_bits (w v : Nat) (buf : Storage) (c : Nat) (hw : w ≤ 32) (hv : v < 2 ^ w)
    (hfit : c + w ≤ 8 * buf.length) (i : Nat) :
    bitAt (write w v buf c).buf i = (bitAt buf i || (decide (c ≤ i) && v.testBit (i - c))) := by
  rw [write_bits_general w v buf c hfit i]
  have hT := itemTypeBits_ge w hw
  have hvT : v % 2 ^ itemTypeBits w = v :=
    Nat.mod_eq_of_lt (Nat.lt_of_lt_of_le hv (Nat.pow_le_pow_right (by decide) hT))
  rw [hvT]
  by_cases hl : i < lim c w
  · simp [hl]
  · have : v.testBit (i - c) = false := by
      by_cases hc : c ≤ i
      · apply Nat.testBit_lt_two_pow
        apply Nat.lt_of_lt_of_le hv
        apply Nat.pow_le_pow_right (by decide)
        unfold lim at hl
        split at hl <;> omega
      · -- then the conjunction is false anyway; any value works
        cases hb : v.testBit (i - c)
        · rfl
        · exfalso
          have h0 : i - c = 0 := by omega
          unfold lim at hl
          split at hl <;> omega
    simp [this]

/-- **Write, as arithmetic.**  With the buffer read as one little-endian number `N`, `write<w>(v)` at
cursor `c` yields `N ||| (v <<< c)` (whatever the buffer held) and cursor `c + w`. -/
theorem write_toNat (w v : Nat) (buf : Storage) (c : Nat) (hw : w ≤ 32) (hv : v < 2 ^ w)
    (hfit : c + w ≤ 8 * buf.length) :
    toNat (write w v buf c).buf = toNat buf ||| (v <<< c) := by
  apply Nat.eq_of_testBit_eq
  intro i
  rw [testBit_toNat, write_bits w v buf c hw hv hfit i, Nat.testBit_or, testBit_toNat,
    Nat.testBit_shiftLeft]

example : (13 : Nat) ≤ 32 ∧ 0x1ABC < 2 ^ 13 ∧ 5 + 13 ≤ 8 * (cleared 45).length := by decide

/-- Bits of the item returned by `read<w>`. -/
theorem read_bits (w : Nat) (buf : Storage) (c : Nat) (hw : w ≤ 32) (j : Nat) :
    (Stream.read w buf c).item.testBit j = (decide (j < w) && bitAt buf (c + j)) := by
  unfold Stream.read
  rw [readLoop_bits _ buf w 0 0 w c (Nat.le_refl _) (by have := itemTypeBits_ge w hw; omega) j]
  simp

/-- **Read, as arithmetic.**  `read<w>` at cursor `c` returns `(N >>> c) % 2^w` and cursor `c + w`.
(`_hfit` is the contract; the model reads zero bytes beyond the buffer, the code reads out of bounds.) -/
theorem read_toNat (w : Nat) (buf : Storage) (c : Nat) (hw : w ≤ 32) (_hfit : c + w ≤ 8 * buf.length) :
    (Stream.read w buf c).item = (toNat buf >>> c) % 2 ^ w := by
  apply Nat.eq_of_testBit_eq
  intro j
  rw [read_bits w buf c hw j, Nat.testBit_mod_two_pow, Nat.testBit_shiftRight, testBit_toNat]

example : (32 : Nat) ≤ 32 ∧ 13 + 32 ≤ 8 * (cleared 45).length := by decide

/-- With all bits from the cursor on zero, what was written is what is read back. -/
theorem read_after_write (w v : Nat) (buf : Storage) (c : Nat) (hw : w ≤ 32) (hv : v < 2 ^ w)
    (hfit : c + w ≤ 8 * buf.length) (hz : ∀ i, c ≤ i → bitAt buf i = false) :
    (Stream.read w (write w v buf c).buf c).item = v := by
  apply Nat.eq_of_testBit_eq
  intro j
  rw [read_bits _ _ _ hw, write_bits w v buf c hw hv hfit, hz _ (by omega)]
  have h1 : c ≤ c + j := by omega
  have h2 : c + j - c = j := by omega
  simp only [h1, h2, decide_true, Bool.true_and, Bool.false_or]
  by_cases hj : j < w
  · simp [hj]
  · have : v.testBit j = false :=
      Nat.testBit_lt_two_pow (Nat.lt_of_lt_of_le hv (Nat.pow_le_pow_right (by decide) (by omega)))
    simp [hj, this]

example : (13 : Nat) ≤ 32 ∧ 0x1ABC < 2 ^ 13 ∧ 5 + 13 ≤ 8 * (cleared 45).length ∧
    (∀ i, 5 ≤ i → bitAt (cleared 45) i = false) :=
  ⟨by decide, by decide, by decide, fun i _ => bitAt_clearAll (cleared 45) i⟩

/-- Bit order laid down by `write` (what `Model/Serial.lean` relies on): on a buffer whose bits from the
cursor on are zero, bit `c + j` of the buffer becomes bit `j` of the value (least significant first),
bits before the cursor are kept, bits from `c + w` on stay zero. -/
theorem write_bit_order (w v : Nat) (buf : Storage) (c : Nat) (hw : w ≤ 32) (hv : v < 2 ^ w)
    (hfit : c + w ≤ 8 * buf.length) (hz : ∀ i, c ≤ i → bitAt buf i = false) :
    (∀ j, j < w → bitAt (write w v buf c).buf (c + j) = v.testBit j) ∧
    (∀ i, i < c → bitAt (write w v buf c).buf i = bitAt buf i) ∧
    (∀ i, c + w ≤ i → bitAt (write w v buf c).buf i = false) := by
  refine ⟨?_, ?_, ?_⟩
  · intro j _
    rw [write_bits w v buf c hw hv hfit, hz _ (by omega)]
    have h1 : c ≤ c + j := by omega
    have h2 : c + j - c = j := by omega
    simp [h1, h2]
  · intro i hi
    rw [write_bits w v buf c hw hv hfit]
    have : ¬ c ≤ i := by omega
    simp [this]
  · intro i hi
    rw [write_bits w v buf c hw hv hfit, hz i (by omega)]
    have : v.testBit (i - c) = false :=
      Nat.testBit_lt_two_pow (Nat.lt_of_lt_of_le hv (Nat.pow_le_pow_right (by decide) (by omega)))
    simp [this]

/-- A sequence of `(width, value)` pairs that is in contract. -/
def InContract (xs : List (Nat × Nat)) : Prop := ∀ x ∈ xs, 1 ≤ x.1 ∧ x.1 ≤ 32 ∧ x.2 < 2 ^ x.1

def widths (xs : List (Nat × Nat)) : List Nat := xs.map Prod.fst
def values (xs : List (Nat × Nat)) : List Nat := xs.map Prod.snd
def totalWidth (xs : List (Nat × Nat)) : Nat := (widths xs).sum

theorem writeAll_spec : ∀ (xs : List (Nat × Nat)) (buf : Storage) (c : Nat),
    InContract xs → c + totalWidth xs ≤ 8 * buf.length →
    (writeAll xs buf c).2 = c + totalWidth xs ∧
    (writeAll xs buf c).1.length = buf.length ∧
    (∀ i, i < c → bitAt (writeAll xs buf c).1 i = bitAt buf i)
  | [], buf, c, _, _ => by simp [writeAll, totalWidth, widths]
  | (w, v) :: xs, buf, c, hc, hfit => by
    have hx := hc (w, v) (by simp)
    have hc' : InContract xs := fun x hx => hc x (by simp [hx])
    have htw : totalWidth ((w, v) :: xs) = w + totalWidth xs := by simp [totalWidth, widths]
    rw [htw] at hfit ⊢
    unfold writeAll
    simp only
    have ih := writeAll_spec xs (write w v buf c).buf (write w v buf c).cursor hc'
      (by rw [write_cursor, write_length]; omega)
    rw [write_cursor, write_length] at ih
    refine ⟨by rw [write_cursor]; omega, by rw [write_cursor]; exact ih.2.1, ?_⟩
    intro i hi
    rw [write_cursor, ih.2.2 i (by omega), write_bits w v buf c hx.2.1 hx.2.2 (by omega) i]
    have : ¬ c ≤ i := by omega
    simp [this]

/-- Reading depends only on the bits `[c, c + w)`. -/
theorem read_congr (w : Nat) (a b : Storage) (c : Nat) (hw : w ≤ 32)
    (h : ∀ i, c ≤ i → i < c + w → bitAt a i = bitAt b i) : (Stream.read w a c).item = (Stream.read w b c).item := by
  apply Nat.eq_of_testBit_eq
  intro j
  rw [read_bits _ _ _ hw, read_bits _ _ _ hw]
  by_cases hj : j < w
  · rw [h (c + j) (by omega) (by omega)]
  · simp [hj]

theorem roundtrip_general : ∀ (xs : List (Nat × Nat)) (buf : Storage) (c : Nat),
    InContract xs → c + totalWidth xs ≤ 8 * buf.length → (∀ i, c ≤ i → bitAt buf i = false) →
    readAll (writeAll xs buf c).1 (widths xs) c = (values xs, c + totalWidth xs)
  | [], buf, c, _, _, _ => by simp [writeAll, readAll, widths, values, totalWidth]
  | (w, v) :: xs, buf, c, hc, hfit, hz => by
    have hx := hc (w, v) (by simp)
    have hc' : InContract xs := fun x hx => hc x (by simp [hx])
    have htw : totalWidth ((w, v) :: xs) = w + totalWidth xs := by simp [totalWidth, widths]
    rw [htw] at hfit ⊢
    have hfit1 : (write w v buf c).cursor + totalWidth xs ≤ 8 * (write w v buf c).buf.length := by
      rw [write_cursor, write_length]; omega
    have hz1 : ∀ i, (write w v buf c).cursor ≤ i → bitAt (write w v buf c).buf i = false := by
      intro i hi
      rw [write_cursor] at hi
      rw [write_bits w v buf c hx.2.1 hx.2.2 (by omega) i, hz i (by omega)]
      have : v.testBit (i - c) = false :=
        Nat.testBit_lt_two_pow (Nat.lt_of_lt_of_le hx.2.2 (Nat.pow_le_pow_right (by decide) (by omega)))
      simp [this]
    have ih := roundtrip_general xs (write w v buf c).buf (write w v buf c).cursor hc' hfit1 hz1
    have hsp := writeAll_spec xs (write w v buf c).buf (write w v buf c).cursor hc' hfit1
    have hw1 : widths ((w, v) :: xs) = w :: widths xs := by simp [widths]
    have hv1 : values ((w, v) :: xs) = v :: values xs := by simp [values]
    rw [hw1, hv1]
    unfold writeAll readAll
    simp only
    rw [read_cursor, ← write_cursor w v buf c, ih]
    have hitem : (Stream.read w (writeAll xs (write w v buf c).buf (write w v buf c).cursor).1 c).item = v := by
      rw [read_congr w _ (write w v buf c).buf c hx.2.1
        (fun i _ h2 => hsp.2.2 i (by rw [write_cursor]; exact h2))]
      exact read_after_write w v buf c hx.2.1 hx.2.2 (by omega) hz
    rw [hitem]
    rw [write_cursor]
    simp only [Prod.mk.injEq, true_and]
    omega

/-- **Round trip.**  For every capacity, every start cursor `c0` (any byte alignment), every in-contract
sequence of `(width, value)` pairs with `1 ≤ width ≤ 32`, `value < 2^width` that fits: constructing a
`BitWriteStreamT` at `c0` (which clears the buffer, whatever it held), writing the sequence, then
reading with the same widths from `c0` returns the same values and the same final cursor. -/
theorem roundtrip (cap c0 : Nat) (xs : List (Nat × Nat)) (old : Storage) (hwf : BufWF cap old)
    (hc : InContract xs) (hfit : c0 + totalWidth xs ≤ cap) :
    let start := openWrite old c0
    let written := writeAll xs start.1 start.2
    written.2 = c0 + totalWidth xs ∧
    readAll written.1 (widths xs) c0 = (values xs, written.2) := by
  simp only [openWrite]
  have hlen : (old.map (fun _ => 0#8)).length = old.length := by simp
  have hcap := cap_le cap old hwf
  have hz : ∀ i, c0 ≤ i → bitAt (old.map (fun _ => 0#8)) i = false :=
    fun i _ => bitAt_clearAll old i
  have h1 := writeAll_spec xs (old.map (fun _ => 0#8)) c0 hc (by rw [hlen]; omega)
  have h2 := roundtrip_general xs (old.map (fun _ => 0#8)) c0 hc (by rw [hlen]; omega) hz
  exact ⟨h1.1, by rw [h2, h1.1]⟩

example : BufWF 45 (cleared 45) ∧ InContract [(5, 27), (4, 11), (3, 5), (12, 1472), (21, 1000000)] ∧
    0 + totalWidth [(5, 27), (4, 11), (3, 5), (12, 1472), (21, 1000000)] ≤ 45 := by
  refine ⟨bufWF_cleared 45, ?_, by decide⟩
  intro x hx
  simp at hx
  rcases hx with h | h | h | h | h <;> subst h <;> decide

/-- No byte outside the buffer is touched by any write of an in-contract sequence that fits
(every intermediate cursor stays within capacity). -/
theorem writeAll_cursor_le (xs : List (Nat × Nat)) (buf : Storage) (c : Nat)
    (hc : InContract xs) (hfit : c + totalWidth xs ≤ 8 * buf.length) :
    (writeAll xs buf c).2 ≤ 8 * buf.length := by
  rw [(writeAll_spec xs buf c hc hfit).1]; exact hfit

/-
Theorems constituting property C18
----------------------------------
bit array, per index      : get_mk, get_set_same, get_set_other, get_clear_same, get_clear_other,
                            get_set, get_clear, index_touched_in_array, ext_get, get_beyond,
                            wf_mk, wf_set, wf_clear, wf_setAll, wf_clearAll, wf_andAssign
whole array (unit domain) : get_setAll, get_clearAll, empty_iff_units, neq_iff_ne, neq_iff_units,
                            get_andAssign, andAny_iff_units, andAny_single_unit, andAny_not_intersects
whole array (capacity)    : padClean_mk, padClean_set, padClean_clear, padClean_clearAll,
                            padClean_andAssign_left, padClean_andAssign_right, padClean_setAll,
                            empty_iff_of_padClean, neq_iff_of_padClean, reachable_inv, empty_iff, neq_iff,
                            pad_fixed_example, view_set_beyond_capacity
views                     : view_get, view_set, view_clear, view_set_frame, view_get_set_same,
                            view_clear_frame, view_get_clear_same, view_index_touched,
                            get_view_clearAll, view_get_clearAll, view_clearAll_touched,
                            view_clearAll_disjoint, view_clearAll_extra, layout_pairwise,
                            length_view_clearAll, toBool_iff_exists, toBool_oob_irrelevant,
                            toBoolReads_in_view, toBoolReads_in_array, F9_fixed_example
stream                    : bufEq_iff, bufNe_iff, bufEq_iff_toNat, write_cursor, write_length,
                            read_cursor, write_touched_in_buffer, read_touched_in_buffer,
                            write_bits_general, write_toNat_general, spill_example, write_bits, write_toNat, read_bits,
                            read_toNat, read_after_write, write_bit_order, read_congr, writeAll_spec,
                            writeAll_cursor_le, roundtrip_general, roundtrip
-/

end Hfsm.Props.C18
