/-
C11 — no API sequence corrupts memory, triggers undefined behaviour or allocates.

Property text: no sequence of public API calls with valid ids — including queuing more transitions than
the machine can hold, appending tasks beyond capacity, replaying over-long histories, using a copy after
its original is gone — makes the library read or write outside the instance, execute UB, or trip its own
assertions; excess requests are rejected without corrupting state; the library never allocates and an
instance's size is fixed by its type.

What a theorem about the model can carry — the *index logic*:
 * `bounded_*`: the request queue never exceeds `COMPO_COUNT` (`queueCap`) and the task pool never exceeds
   `TASK_CAPACITY`, for a fresh instance and across every operation, whatever the callbacks do (they may
   issue any number of requests and plan edits: the excess is rejected, `request_beyond_capacity_rejected`,
   `append_beyond_capacity_rejected`);
 * `current_transitions_bounded`: `currentTransitions` (and hence `previousTransitions`) holds at most
   `COMPO_COUNT × SUBSTITUTION_LIMIT` entries;
 * `replay_history_bounded`, `replay_beyond_capacity_dropped` (end of the file): replaying an over-long history
   writes at most `COMPO_COUNT × SUBSTITUTION_LIMIT` (`Config.historyCap`) entries into `previousTransitions` —
   the copy goes through the bounded `DynamicArrayT::emplace`, the excess is dropped silently (every transition
   of the list is still APPLIED);
 * `replay_pins_in_range`, `replay_pins_in_range_history`, `replay_last_transition_is_recorded` (end of the file):
   whatever list is replayed, every index the replay leaves in `transitionTargets` is below `historyCap` (and below
   the length of the list), i.e. addresses an entry that WAS recorded — `lastTransitionTo()` never indexes
   `previousTransitions` beyond what the replay wrote.  (`R_::applyRequests` passes `INVALID_SHORT` for the entries
   beyond the capacity, /repo fix 6770c20; before it the pin of a dropped entry made `lastTransitionTo()` read an
   unwritten slot of the array);
 * `err_sticky*` + `dispatch_in_range`: the model's contract-violation flag `err` is set at every
   sub-state dispatch with an index outside the region and is never cleared, so an operation that ends
   with `err = none` performed only in-range dispatches (all `…At` functions of Model/*.lean);
 * `cfg_invariant*`: the compile-time configuration (capacities, counts) never changes at run time.
What it cannot: undefined behaviour, out-of-bounds reads the type system hides, heap allocation are
properties of the compiled C++ — monitored on every correspondence run (ASan+UBSan in the thorough tier,
the HFSM2_VERIF assertion hook, the allocation interposer harness/proposed/mach_alloc.diff), not proved.
`sizeof(Instance)` is a constant expression by the language (`static_assert` in the generated TU).
-/
import Hfsm.Proofs.Bounds
import Hfsm.Proofs.DemoMach
import Hfsm.Proofs.Replay

set_option linter.unusedVariables false
set_option linter.unusedSectionVars false

namespace Hfsm.Props.C11
open Hfsm
variable {U : Type} [UtilArith U]

/-! ## capacities -/

omit [UtilArith U] in
theorem bounded_fresh (shape : Shape) (cfg : Config) : (Mach.create shape cfg : Mach U).Bounded :=
  bounded_create shape cfg

/-- Every operation keeps the queue within `COMPO_COUNT` and the pool within `TASK_CAPACITY`. -/
theorem bounded_step (m : Mach U) (o : Api.Op) (hb : m.Bounded) : (Api.step m o).Bounded :=
  (safeRel.step m o).bounded hb

theorem bounded_run (m : Mach U) (ops : List Api.Op) (hb : m.Bounded) : (Api.run m ops).Bounded :=
  (safeRel.run ops m).bounded hb

/-- From construction on, for every program, all callback behaviours and generator outputs. -/
theorem bounded_always (shape : Shape) (cfg : Config) (ds : List (Decision U)) (rng : List U) (ops : List Api.Op) :
    (Api.run (Api.boot shape cfg ds rng) ops).Bounded := by
  apply bounded_run
  unfold Api.boot
  have h0 : ({ (Mach.create shape cfg : Mach U) with
      w := { (Mach.create shape cfg : Mach U).w with ds := ds, rng := rng } } : Mach U).Bounded :=
    bounded_create shape cfg
  simp only []
  split
  · exact h0
  · exact (safeRel.mach_initialEnter _).bounded h0

/-- The same inside the traversals, e.g. while guards and `enter` callbacks run: a `WRel` instance
(`safeRel`) holds across every traversal of Model/*.lean; two samples. -/
theorem bounded_during_commit (n : Node) (w : World U) (hq : w.requests.length ≤ w.cfg.queueCap) :
    (n.commit w).2.requests.length ≤ w.cfg.queueCap :=
  (safeRel.commit n w).2.1 hq

theorem bounded_during_update (ph : Method) (n : Node) (w : World U) (hq : w.requests.length ≤ w.cfg.queueCap)
    (ht : w.taskCount ≤ w.cfg.taskCap) :
    (n.tick ph w).1.requests.length ≤ w.cfg.queueCap ∧ (n.tick ph w).1.taskCount ≤ w.cfg.taskCap :=
  ⟨(safeRel.tick ph n w).2.1 hq, (safeRel.tick ph n w).2.2.1 ht⟩

example : Demo.mach.Bounded := by unfold Mach.Bounded; decide +kernel

omit [UtilArith U] in
/-- A request into a full queue is rejected: the queue is unchanged (the logger still hears of it). -/
theorem request_beyond_capacity_rejected (m : Mach U) (k : Kind) (d : Nat) (p : Option Nat)
    (hfull : m.w.cfg.queueCap ≤ m.w.requests.length) :
    (m.request k d p).w.requests = m.w.requests := by
  have : ¬ m.w.requests.length < m.w.cfg.queueCap := Nat.not_lt.mpr hfull
  simp only [Mach.request, this, if_false, World.logRec, World.emit]
  split <;> rfl

omit [UtilArith U] in
/-- the same from a callback -/
theorem callback_request_beyond_capacity_rejected (w : World U) (k : Kind) (d : Nat) (p : Option Nat)
    (hfull : w.cfg.queueCap ≤ w.requests.length) :
    (w.ctlRequest k d p).requests = w.requests := by
  have : ¬ w.requests.length < w.cfg.queueCap := Nat.not_lt.mpr hfull
  simp only [World.ctlRequest, this, if_false, World.logRec, World.emit]
  split <;> split <;> rfl

omit [UtilArith U] in
/-- Appending a task to a full pool is rejected: nothing changes. -/
theorem append_beyond_capacity_rejected (w : World U) (r : Nat) (t : Task) (hfull : w.cfg.taskCap ≤ w.taskCount) :
    w.planAppend r t = w := by
  have : ¬ w.taskCount < w.cfg.taskCap := Nat.not_lt.mpr hfull
  simp only [World.planAppend, this, if_false]

-- a full queue is reachable: after one deferred request the 1-slot queue of the demonstration machine is full
example : (Demo.mach.request .change 2 none).w.cfg.queueCap ≤ (Demo.mach.request .change 2 none).w.requests.length := by
  decide +kernel

/-- `currentTransitions` gains at most `COMPO_COUNT` entries per round of the substitution loop. -/
theorem current_transitions_bounded (initial : Bool) (fuel : Nat) (m : Mach U) (backup : Node)
    (cur : List Transition) (hq : m.w.requests.length ≤ m.w.cfg.queueCap) :
    (Mach.rounds initial fuel m backup cur).2.length ≤ cur.length + fuel * m.w.cfg.queueCap :=
  rounds_current_le initial fuel m backup cur hq

/-! ## the configuration is constant; contract violations are sticky -/

theorem cfg_invariant (m : Mach U) (ops : List Api.Op) : (Api.run m ops).w.cfg = m.w.cfg :=
  (safeRel.run ops m).1

theorem err_sticky (m : Mach U) (o : Api.Op) (h : (Api.step m o).w.err = none) : m.w.err = none :=
  (safeRel.step m o).2.2.2 h

theorem err_sticky_run (m : Mach U) (ops : List Api.Op) (h : (Api.run m ops).w.err = none) : m.w.err = none :=
  (safeRel.run ops m).2.2.2 h

/-- … also inside a traversal (sample: the commit pass): the flag at the end vouches for every point before. -/
theorem err_sticky_commit (n : Node) (w : World U) (h : (n.commit w).2.err = none) : w.err = none :=
  (safeRel.commit n w).2.2.2 h

example : (Api.run Demo.mach Demo.prog).w.err = none := by decide +kernel

/-- Every dispatch to a sub-state by prong index that ends without a contract violation addressed an
existing sub-state — for each of the sixteen dispatchers of the model. -/
theorem dispatch_in_range (s : Subs) (i : Nat) (w : World U) (rq : Req) (ph : Method) (hf po : Bool) :
    ((s.enterAt i w).2.err = none → i < s.len) ∧
    ((s.exitAt i w).2.err = none → i < s.len) ∧
    ((s.reenterAt i w).2.err = none → i < s.len) ∧
    ((s.commitAt i w).2.err = none → i < s.len) ∧
    ((s.entryGuardAt i w).1.err = none → i < s.len) ∧
    ((s.exitGuardAt i w).1.err = none → i < s.len) ∧
    ((s.fwdEntryGuardAt i w).1.err = none → i < s.len) ∧
    ((s.fwdExitGuardAt i w).1.err = none → i < s.len) ∧
    ((s.tickAt ph i w).1.err = none → i < s.len) ∧
    ((s.reactAt ph hf po i w).1.err = none → i < s.len) ∧
    ((s.queryAt hf i w).err = none → i < s.len) ∧
    ((s.updatePlansAt i w).1.err = none → i < s.len) ∧
    ((s.requestAt i rq w).2.err = none → i < s.len) ∧
    ((s.fwdRequestAt i rq w).2.err = none → i < s.len) ∧
    ((s.fwdActiveAt i rq w).2.err = none → i < s.len) ∧
    ((s.reportChangeAt i w).2.1.err = none → i < s.len) :=
  ⟨enterAt_inRange s i w, exitAt_inRange s i w, reenterAt_inRange s i w, commitAt_inRange s i w,
   entryGuardAt_inRange s i w, exitGuardAt_inRange s i w, fwdEntryGuardAt_inRange s i w,
   fwdExitGuardAt_inRange s i w, tickAt_inRange ph s i w, reactAt_inRange ph hf po s i w,
   queryAt_inRange hf s i w, updatePlansAt_inRange s i w, requestAt_inRange rq s i w,
   fwdRequestAt_inRange rq s i w, fwdActiveAt_inRange rq s i w, reportChangeAt_inRange s i w⟩

/-! ## replaying over-long histories

`replayTransitions(ts)` / `replayEnter(ts)` copy `ts` into `previousTransitions` entry by entry with
`DynamicArrayT::emplace`, which ignores what does not fit: the copy is `ts.take historyCap`,
`historyCap = COMPO_COUNT × SUBSTITUTION_LIMIT` (the capacity of `TransitionSets`). -/

/-- Whatever list is replayed, `previousTransitions` afterwards holds at most `COMPO_COUNT × SUBSTITUTION_LIMIT`
entries (of the instance's constant configuration: `cfg_invariant`).  `replayTransitions` clears or overwrites the
field; `replayEnter` overwrites it when it answers `true` and leaves it alone when it answers `false`, hence the
alternative hypothesis that it was within bounds before. -/
theorem replay_history_bounded (m : Mach U) (ts : List Transition) :
    (m.replayTransitions ts).1.w.previous.length ≤ m.w.cfg.historyCap ∧
    ((m.replayEnter ts).2 = true ∨ m.w.previous.length ≤ m.w.cfg.historyCap →
      (m.replayEnter ts).1.w.previous.length ≤ m.w.cfg.historyCap) := by
  refine ⟨?_, fun h => ?_⟩
  · rw [Mach.replayTransitions_previous]
    split
    · rw [List.length_take]; exact Nat.min_le_left _ _
    · exact Nat.zero_le _
  · rw [Mach.replayEnter_previous]
    split
    · rw [List.length_take]; exact Nat.min_le_left _ _
    · next hf =>
      rcases h with h | h
      · exact absurd h hf
      · exact h

/-- … the configuration the bound refers to is also the one of the instance after the replay -/
theorem replay_cfg_invariant (m : Mach U) (ts : List Transition) :
    (m.replayTransitions ts).1.w.cfg = m.w.cfg ∧ (m.replayEnter ts).1.w.cfg = m.w.cfg :=
  ⟨Mach.replayTransitions_cfg m ts, Mach.replayEnter_cfg m ts⟩

/-- **An over-long history is truncated, not rejected.**  A replay that answers `true` stores the first
`historyCap` entries of the list; when the list is longer than that, `previousTransitions` is full and is a
proper prefix of what was replayed: the tail is applied to the registry but not recorded. -/
theorem replay_beyond_capacity_dropped (m : Mach U) (ts : List Transition) (hlong : m.w.cfg.historyCap < ts.length) :
    ((m.replayTransitions ts).2 = true →
      (m.replayTransitions ts).1.w.previous = ts.take m.w.cfg.historyCap ∧
      (m.replayTransitions ts).1.w.previous.length = m.w.cfg.historyCap ∧
      (m.replayTransitions ts).1.w.previous ≠ ts) ∧
    ((m.replayEnter ts).2 = true →
      (m.replayEnter ts).1.w.previous = ts.take m.w.cfg.historyCap ∧
      (m.replayEnter ts).1.w.previous.length = m.w.cfg.historyCap ∧
      (m.replayEnter ts).1.w.previous ≠ ts) := by
  have key : ∀ p : List Transition, p = ts.take m.w.cfg.historyCap →
      p = ts.take m.w.cfg.historyCap ∧ p.length = m.w.cfg.historyCap ∧ p ≠ ts := by
    intro p hp
    have hl : p.length = m.w.cfg.historyCap := by
      rw [hp, List.length_take]; exact Nat.min_eq_left (Nat.le_of_lt hlong)
    refine ⟨hp, hl, fun he => ?_⟩
    rw [he] at hl
    exact absurd hl (Nat.ne_of_gt hlong)
  refine ⟨fun h => key _ ?_, fun h => key _ ?_⟩
  · rw [Mach.replayTransitions_previous, h, if_pos rfl]
  · rw [Mach.replayEnter_previous, h, if_pos rfl]

namespace W
/-- the demonstration machine `C(0)[1 2]` (`COMPO_COUNT = 1`, `SUBSTITUTION_LIMIT = 4`: `historyCap = 4`) with idle
callbacks, activated in state 1 -/
def auto : Mach Demo.DU := Api.boot Demo.shape Demo.cfg (List.replicate 40 []) []
/-- the same machine with manual activation, not entered yet -/
def manual : Mach Demo.DU := Api.boot Demo.shape { Demo.cfg with manual := true } (List.replicate 40 []) []
/-- a history of five transitions, one more than fits -/
def five : List Transition :=
  [⟨none, 2, .change, none⟩, ⟨none, 1, .change, none⟩, ⟨none, 2, .change, none⟩, ⟨none, 1, .change, none⟩,
   ⟨none, 2, .change, none⟩]
end W

/-- the hypotheses are met, on both entry points, without a contract violation: five transitions replayed on a
machine whose `previousTransitions` holds four — all five are applied (state 2 ends active), four are recorded -/
example : W.auto.w.cfg.historyCap = 4 ∧ W.auto.w.cfg.historyCap < W.five.length ∧
    (W.auto.replayTransitions W.five).2 = true ∧ (W.auto.replayTransitions W.five).1.w.err = none ∧
    (W.auto.replayTransitions W.five).1.w.previous = W.five.take 4 ∧
    (W.auto.replayTransitions W.five).1.root.isActive 2 = true := by decide +kernel

example : W.manual.w.cfg.historyCap < W.five.length ∧ W.manual.root.isActive 0 = false ∧
    (W.manual.replayEnter W.five).2 = true ∧ (W.manual.replayEnter W.five).1.w.err = none ∧
    (W.manual.replayEnter W.five).1.w.previous = W.five.take 4 ∧
    (W.manual.replayEnter W.five).1.root.isActive 2 = true := by decide +kernel

/-! ## the pins of a replay address recorded entries

`R_::applyRequests` applies entry `i` of the replayed list with its index (`pinLastTransition` stores it in
`transitionTargets`) only while `i < historyCap`; the entries that `previousTransitions` cannot hold are applied with
`INVALID_SHORT`, which pins nothing (/repo fix 6770c20, `Mach.applyRequestNoPin`). -/

/-- **Whatever list is replayed, every pin the replay makes is in range.**  After `replayTransitions ts` /
`replayEnter ts` an entry of `transitionTargets` is either what the `clearTargets()` at the start of the replay left
there, or an index `i < historyCap`, `i < ts.length`: one of the entries the replay records. -/
theorem replay_pins_in_range (m : Mach U) (ts : List Transition) (s : Nat) :
    ((m.replayTransitions ts).1.w.targets.getD s none = m.w.clearTargets.targets.getD s none ∨
      ∃ i, i < m.w.cfg.historyCap ∧ i < ts.length ∧ (m.replayTransitions ts).1.w.targets.getD s none = some i) ∧
    ((m.replayEnter ts).1.w.targets.getD s none = m.w.clearTargets.targets.getD s none ∨
      ∃ i, i < m.w.cfg.historyCap ∧ i < ts.length ∧ (m.replayEnter ts).1.w.targets.getD s none = some i) :=
  ⟨Mach.replayTransitions_targets m ts s, Mach.replayEnter_targets m ts s⟩

/-- With the transition history compiled in (`clearTargets()` empties every entry) EVERY index found in
`transitionTargets` after a replay is below `historyCap` and below the length of the replayed list. -/
theorem replay_pins_in_range_history (m : Mach U) (ts : List Transition) (hh : m.w.cfg.history = true) (s i : Nat) :
    ((m.replayTransitions ts).1.w.targets.getD s none = some i → i < m.w.cfg.historyCap ∧ i < ts.length) ∧
    ((m.replayEnter ts).1.w.targets.getD s none = some i → i < m.w.cfg.historyCap ∧ i < ts.length) := by
  have hc := Mach.clearTargets_getD m.w hh s
  obtain ⟨h1, h2⟩ := replay_pins_in_range m ts s
  rw [hc] at h1 h2
  refine ⟨fun h => ?_, fun h => ?_⟩
  · rcases h1 with h1 | ⟨j, hj1, hj2, h1⟩
    · rw [h1] at h; cases h
    · rw [h1] at h; cases h; exact ⟨hj1, hj2⟩
  · rcases h2 with h2 | ⟨j, hj1, hj2, h2⟩
    · rw [h2] at h; cases h
    · rw [h2] at h; cases h; exact ⟨hj1, hj2⟩

/-- … hence after a replay that answered `true`, `lastTransitionTo(s)` of a pinned state reads a WRITTEN slot of
`previousTransitions`, and what it finds there is the entry of the replayed list that pinned the state. -/
theorem replay_last_transition_is_recorded (m : Mach U) (ts : List Transition) (hh : m.w.cfg.history = true) (s i : Nat) :
    ((m.replayTransitions ts).2 = true → (m.replayTransitions ts).1.w.targets.getD s none = some i →
      i < (m.replayTransitions ts).1.w.previous.length ∧ (m.replayTransitions ts).1.lastTransitionTo s = ts[i]?) ∧
    ((m.replayEnter ts).2 = true → (m.replayEnter ts).1.w.targets.getD s none = some i →
      i < (m.replayEnter ts).1.w.previous.length ∧ (m.replayEnter ts).1.lastTransitionTo s = ts[i]?) := by
  obtain ⟨h1, h2⟩ := replay_pins_in_range_history m ts hh s i
  have key : ∀ p : List Transition, p = ts.take m.w.cfg.historyCap → i < m.w.cfg.historyCap ∧ i < ts.length →
      i < p.length ∧ p[i]? = ts[i]? := by
    intro p hp hi
    subst hp
    rw [List.length_take, List.getElem?_take, if_pos hi.1]
    exact ⟨by omega, rfl⟩
  refine ⟨fun ha ht => ?_, fun ha ht => ?_⟩
  · have := key (m.replayTransitions ts).1.w.previous (by rw [Mach.replayTransitions_previous, ha, if_pos rfl]) (h1 ht)
    refine ⟨this.1, ?_⟩
    unfold Mach.lastTransitionTo
    rw [ht]
    exact this.2
  · have := key (m.replayEnter ts).1.w.previous (by rw [Mach.replayEnter_previous, ha, if_pos rfl]) (h2 ht)
    refine ⟨this.1, ?_⟩
    unfold Mach.lastTransitionTo
    rw [ht]
    exact this.2

/-- on the witness of `replay_beyond_capacity_dropped` (five transitions, `historyCap = 4`): state 2, activated by the
replay, is requested by entries 0, 2 and 4 of the list; entry 4 is not recorded and does not pin — `lastTransitionTo(2)`
points at entry 2, a recorded one (before the fix 6770c20 it was index 4, beyond the four recorded entries) -/
example : W.auto.w.cfg.history = true ∧ (W.auto.replayTransitions W.five).2 = true ∧
    (W.auto.replayTransitions W.five).1.root.isActive 2 = true ∧
    (W.auto.replayTransitions W.five).1.w.targets.getD 2 none = some 2 ∧
    2 < (W.auto.replayTransitions W.five).1.w.previous.length ∧
    (W.auto.replayTransitions W.five).1.lastTransitionTo 2 = some ⟨none, 2, .change, none⟩ := by decide +kernel

example : W.manual.w.cfg.history = true ∧ (W.manual.replayEnter W.five).2 = true ∧
    (W.manual.replayEnter W.five).1.root.isActive 2 = true ∧
    (∀ s < 3, ∀ i, (W.manual.replayEnter W.five).1.w.targets.getD s none = some i → i < 4) ∧
    (W.manual.replayEnter W.five).1.lastTransitionTo 2 ≠ none := by decide +kernel

end Hfsm.Props.C11

/-
Property theorems (for Props/INDEX.json):
  bounded_fresh, bounded_step, bounded_run, bounded_always, bounded_during_commit, bounded_during_update,
  request_beyond_capacity_rejected, callback_request_beyond_capacity_rejected,
  append_beyond_capacity_rejected, current_transitions_bounded,
  cfg_invariant, err_sticky, err_sticky_run, err_sticky_commit, dispatch_in_range,
  replay_history_bounded, replay_cfg_invariant, replay_beyond_capacity_dropped,
  replay_pins_in_range, replay_pins_in_range_history, replay_last_transition_is_recorded
-/
