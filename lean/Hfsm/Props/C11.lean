/-
C11 — no API sequence corrupts memory, triggers undefined behaviour or allocates.

Property text: no sequence of public API calls with valid ids — including queuing more transitions than
the machine can hold, appending tasks beyond capacity, replaying over-long histories, using a copy after
its original is gone — makes the library read or write outside the instance, execute UB, or trip its own
assertions; excess requests are rejected without corrupting state; the library never allocates and an
instance's size is fixed by its type.

What a theorem about the model can carry — the *index logic*:
 * `bounded_*`: the request queue never exceeds `COMPO_COUNT` (`queueCap`) and the task pool never exceeds
   `TASK_CAPACITY`, for a fresh instance and across every operation, whatever the callbacks do (they may
   issue any number of requests and plan edits: the excess is rejected, `request_beyond_capacity_rejected`,
   `append_beyond_capacity_rejected`);
 * `current_transitions_bounded`: `currentTransitions` (and hence `previousTransitions`) holds at most
   `COMPO_COUNT × SUBSTITUTION_LIMIT` entries;
 * `err_sticky*` + `dispatch_in_range`: the model's contract-violation flag `err` is set at every
   sub-state dispatch with an index outside the region and is never cleared, so an operation that ends
   with `err = none` performed only in-range dispatches (all `…At` functions of Model/*.lean);
 * `cfg_invariant*`: the compile-time configuration (capacities, counts) never changes at run time.
What it cannot: undefined behaviour, out-of-bounds reads the type system hides, heap allocation are
properties of the compiled C++ — monitored on every correspondence run (ASan+UBSan in the thorough tier,
the HFSM2_VERIF assertion hook, the allocation interposer harness/proposed/mach_alloc.diff), not proved.
`sizeof(Instance)` is a constant expression by the language (`static_assert` in the generated TU).
-/
import Hfsm.Proofs.Bounds
import Hfsm.Proofs.DemoMach

set_option linter.unusedVariables false
set_option linter.unusedSectionVars false

namespace Hfsm.Props.C11
open Hfsm
variable {U : Type} [UtilArith U]

/-! ## capacities -/

omit [UtilArith U] in
theorem bounded_fresh (shape : Shape) (cfg : Config) : (Mach.create shape cfg : Mach U).Bounded :=
  bounded_create shape cfg

/-- Every operation keeps the queue within `COMPO_COUNT` and the pool within `TASK_CAPACITY`. -/
theorem bounded_step (m : Mach U) (o : Api.Op) (hb : m.Bounded) : (Api.step m o).Bounded :=
  (safeRel.step m o).bounded hb

theorem bounded_run (m : Mach U) (ops : List Api.Op) (hb : m.Bounded) : (Api.run m ops).Bounded :=
  (safeRel.run ops m).bounded hb

/-- From construction on, for every program, all callback behaviours and generator outputs. -/
theorem bounded_always (shape : Shape) (cfg : Config) (ds : List (Decision U)) (rng : List U) (ops : List Api.Op) :
    (Api.run (Api.boot shape cfg ds rng) ops).Bounded := by
  apply bounded_run
  unfold Api.boot
  have h0 : ({ (Mach.create shape cfg : Mach U) with
      w := { (Mach.create shape cfg : Mach U).w with ds := ds, rng := rng } } : Mach U).Bounded :=
    bounded_create shape cfg
  simp only []
  split
  · exact h0
  · exact (safeRel.mach_initialEnter _).bounded h0

/-- The same inside the traversals, e.g. while guards and `enter` callbacks run: a `WRel` instance
(`safeRel`) holds across every traversal of Model/*.lean; two samples. -/
theorem bounded_during_commit (n : Node) (w : World U) (hq : w.requests.length ≤ w.cfg.queueCap) :
    (n.commit w).2.requests.length ≤ w.cfg.queueCap :=
  (safeRel.commit n w).2.1 hq

theorem bounded_during_update (ph : Method) (n : Node) (w : World U) (hq : w.requests.length ≤ w.cfg.queueCap)
    (ht : w.taskCount ≤ w.cfg.taskCap) :
    (n.tick ph w).1.requests.length ≤ w.cfg.queueCap ∧ (n.tick ph w).1.taskCount ≤ w.cfg.taskCap :=
  ⟨(safeRel.tick ph n w).2.1 hq, (safeRel.tick ph n w).2.2.1 ht⟩

example : Demo.mach.Bounded := by unfold Mach.Bounded; decide +kernel

omit [UtilArith U] in
/-- A request into a full queue is rejected: the queue is unchanged (the logger still hears of it). -/
theorem request_beyond_capacity_rejected (m : Mach U) (k : Kind) (d : Nat) (p : Option Nat)
    (hfull : m.w.cfg.queueCap ≤ m.w.requests.length) :
    (m.request k d p).w.requests = m.w.requests := by
  have : ¬ m.w.requests.length < m.w.cfg.queueCap := Nat.not_lt.mpr hfull
  simp only [Mach.request, this, if_false, World.logRec, World.emit]
  split <;> rfl

omit [UtilArith U] in
/-- the same from a callback -/
theorem callback_request_beyond_capacity_rejected (w : World U) (k : Kind) (d : Nat) (p : Option Nat)
    (hfull : w.cfg.queueCap ≤ w.requests.length) :
    (w.ctlRequest k d p).requests = w.requests := by
  have : ¬ w.requests.length < w.cfg.queueCap := Nat.not_lt.mpr hfull
  simp only [World.ctlRequest, this, if_false, World.logRec, World.emit]
  split <;> split <;> rfl

omit [UtilArith U] in
/-- Appending a task to a full pool is rejected: nothing changes. -/
theorem append_beyond_capacity_rejected (w : World U) (r : Nat) (t : Task) (hfull : w.cfg.taskCap ≤ w.taskCount) :
    w.planAppend r t = w := by
  have : ¬ w.taskCount < w.cfg.taskCap := Nat.not_lt.mpr hfull
  simp only [World.planAppend, this, if_false]

-- a full queue is reachable: after one deferred request the 1-slot queue of the demonstration machine is full
example : (Demo.mach.request .change 2 none).w.cfg.queueCap ≤ (Demo.mach.request .change 2 none).w.requests.length := by
  decide +kernel

/-- `currentTransitions` gains at most `COMPO_COUNT` entries per round of the substitution loop. -/
theorem current_transitions_bounded (initial : Bool) (fuel : Nat) (m : Mach U) (backup : Node)
    (cur : List Transition) (hq : m.w.requests.length ≤ m.w.cfg.queueCap) :
    (Mach.rounds initial fuel m backup cur).2.length ≤ cur.length + fuel * m.w.cfg.queueCap :=
  rounds_current_le initial fuel m backup cur hq

/-! ## the configuration is constant; contract violations are sticky -/

theorem cfg_invariant (m : Mach U) (ops : List Api.Op) : (Api.run m ops).w.cfg = m.w.cfg :=
  (safeRel.run ops m).1

theorem err_sticky (m : Mach U) (o : Api.Op) (h : (Api.step m o).w.err = none) : m.w.err = none :=
  (safeRel.step m o).2.2.2 h

theorem err_sticky_run (m : Mach U) (ops : List Api.Op) (h : (Api.run m ops).w.err = none) : m.w.err = none :=
  (safeRel.run ops m).2.2.2 h

/-- … also inside a traversal (sample: the commit pass): the flag at the end vouches for every point before. -/
theorem err_sticky_commit (n : Node) (w : World U) (h : (n.commit w).2.err = none) : w.err = none :=
  (safeRel.commit n w).2.2.2 h

example : (Api.run Demo.mach Demo.prog).w.err = none := by decide +kernel

/-- Every dispatch to a sub-state by prong index that ends without a contract violation addressed an
existing sub-state — for each of the sixteen dispatchers of the model. -/
theorem dispatch_in_range (s : Subs) (i : Nat) (w : World U) (rq : Req) (ph : Method) (hf po : Bool) :
    ((s.enterAt i w).2.err = none → i < s.len) ∧
    ((s.exitAt i w).2.err = none → i < s.len) ∧
    ((s.reenterAt i w).2.err = none → i < s.len) ∧
    ((s.commitAt i w).2.err = none → i < s.len) ∧
    ((s.entryGuardAt i w).1.err = none → i < s.len) ∧
    ((s.exitGuardAt i w).1.err = none → i < s.len) ∧
    ((s.fwdEntryGuardAt i w).1.err = none → i < s.len) ∧
    ((s.fwdExitGuardAt i w).1.err = none → i < s.len) ∧
    ((s.tickAt ph i w).1.err = none → i < s.len) ∧
    ((s.reactAt ph hf po i w).1.err = none → i < s.len) ∧
    ((s.queryAt hf i w).err = none → i < s.len) ∧
    ((s.updatePlansAt i w).1.err = none → i < s.len) ∧
    ((s.requestAt i rq w).2.err = none → i < s.len) ∧
    ((s.fwdRequestAt i rq w).2.err = none → i < s.len) ∧
    ((s.fwdActiveAt i rq w).2.err = none → i < s.len) ∧
    ((s.reportChangeAt i w).2.1.err = none → i < s.len) :=
  ⟨enterAt_inRange s i w, exitAt_inRange s i w, reenterAt_inRange s i w, commitAt_inRange s i w,
   entryGuardAt_inRange s i w, exitGuardAt_inRange s i w, fwdEntryGuardAt_inRange s i w,
   fwdExitGuardAt_inRange s i w, tickAt_inRange ph s i w, reactAt_inRange ph hf po s i w,
   queryAt_inRange hf s i w, updatePlansAt_inRange s i w, requestAt_inRange rq s i w,
   fwdRequestAt_inRange rq s i w, fwdActiveAt_inRange rq s i w, reportChangeAt_inRange s i w⟩

end Hfsm.Props.C11

/-
Property theorems (for Props/INDEX.json):
  bounded_fresh, bounded_step, bounded_run, bounded_always, bounded_during_commit, bounded_during_update,
  request_beyond_capacity_rejected, callback_request_beyond_capacity_rejected,
  append_beyond_capacity_rejected, current_transitions_bounded,
  cfg_invariant, err_sticky, err_sticky_run, err_sticky_commit, dispatch_in_range
-/
