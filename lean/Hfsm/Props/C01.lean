/-
C01 — Active states always form a well-formed configuration of the hierarchy.

Stated on what the registry REPORTS: `Node.isActive` / `Node.activeSubState` / `Node.machineActive`
are the path functions of Model/Tree.lean that model `RegistryT::isActive(StateID)`,
`activeSubState(StateID)`, `isActive()` (upward walks to the nearest composite ancestor only).

  WF root :=  the root state is reported active exactly when the machine is
            ∧ a state is reported active only if its parent is
            ∧ every active composite region has exactly one active sub-state, and `activeSubState`
              names it
            ∧ every active orthogonal region has all its sub-states active

  C01            after ANY sequence of API calls (`Mach.run`, Proofs/MachOps.lean) on a machine of ANY
                 structure, with ANY decisions of the user callbacks and ANY generator outputs,
                 `WF` holds of the tree — provided the model met no contract violation
  C01_inactive   … and nothing at all is reported active while the machine is not activated
  C01_callbacks  … and every observation handed to a user callback during any of these calls (the
                 `obs` of a trace event: update/react/query/guard/select/rank/utility/plan
                 callbacks; enter/exit/reenter run in the middle of the commit pass and carry none)
                 was computed by `Node.observe` from a tree satisfying `WF`

Hypothesis `err = none` ("no contract violation met") covers exactly: every callback has a decision
in the stream and performs only actions its control class offers; `select()` answers a prong
< width; `rank()`/`utility()` return a value; the generator stream is not exhausted and the
weighted draw selects something (positive top-rank sum); requests/`schedule` name states of the
machine; sub-state prongs are in range; `load` gets a stream the model can parse (long enough,
prongs < width); and API calls respect the activation state (`enter`/`replayEnter` on an instance
that is not activated; `exit`, `update`, `react`, `query`, `reset`, immediate transitions,
`replayTransitions` on an activated one).  `no_ask_request_err` shows that resolution by the
strategies that ask the user nothing (composite, resumable) can never be the source of `err`, and the
`example`s at the end run a concrete two-level machine into non-trivial states with `err = none`.

Not part of the statement: request marks.  The property text never mentions them, and "no marks
between calls" (`NoMarks`, part of `Settled` of Proofs/Wf.lean) is FALSE of the model and the code in
exactly one documented-as-asserting corner: `replayEnter` of a NON-EMPTY history that changes nothing
returns `false` with the marks of its initial resolution left behind on an instance that stays inactive
(`stale_marks_witness`).  A `load` into that still inactive instance (`loadEnter`, which does not clear
requests first) keeps the stale marks outside the loaded configuration, and a later transition into such
a region follows them instead of resolving it (`stale_marks_survive_loadEnter`).
EVERY OTHER call, made on an instance without marks, leaves none (`Mach.step_noMarks`,
`C01_noMarks` below): in particular `load` in all four activation combinations (neither `R_::load` nor
`RV_::loadEnter` ends with `clearRequests()`; the commit / enter pass consumes every mark
`deepLoadRequested` laid down — Proofs/LoadMarks.lean, `Mach.load_noMarks`) and `replayTransitions`
with either answer (`Mach.replayTransitions_noMarks`).  Stale marks are washed off by `enter / exit /
reset`, by a `load` into an ACTIVATED instance (`Mach.load_active_noMarks`: `R_::load` starts with
`clearRequests()`), and by a `replayTransitions` / `replayEnter` that answers `true`
(`QuietOf` of Proofs/Reach.lean is the resulting class of histories).
`Mach.Inv` (Proofs/MachOps.lean) itself only requires `COK`, which tolerates marks in inactive
sub-trees; where no marks remain is recorded by the `…_inv` / `…_noMarks` lemmas of Proofs/MachApi.lean.
-/
import Hfsm.Proofs.MachOps
import Hfsm.Proofs.RegistryNoAsk

set_option linter.unusedSimpArgs false
set_option linter.unusedVariables false
set_option linter.unusedSectionVars false

namespace Hfsm.Props.C01
open Hfsm
variable {U : Type} [UtilArith U]

/-- The property, in the words of its statement, over the registry's own queries.  Every state of the
hierarchy is `root.follow p` for its path `p`; its id is `.id`. -/
structure WF (root : Node) : Prop where
  /-- the root is active exactly when the machine is activated -/
  root_iff : root.isActive root.id = root.machineActive
  /-- a state is active only if its parent is -/
  parent_active : ∀ (p : List Nat) (par c : Node) (i : Nat),
    root.follow p = some par → par.subs.get? i = some c → root.isActive c.id = true → root.isActive par.id = true
  /-- every active composite-style region has exactly one active sub-state and `activeSubState` names it -/
  compo_one : ∀ (p : List Nat) (id rid inj : Nat) (hd : Bool) (st : Strategy) (a r q : Option Nat) (m : Bool) (s : Subs),
    root.follow p = some (.compo id rid inj hd st a r q m s) → root.isActive id = true →
    ∃ i c, root.activeSubState id = some i ∧ s.get? i = some c ∧ root.isActive c.id = true ∧
      ∀ j c', s.get? j = some c' → root.isActive c'.id = true → j = i
  /-- every active orthogonal region has all of its sub-states active -/
  ortho_all : ∀ (p : List Nat) (id rid inj : Nat) (hd : Bool) (s : Subs),
    root.follow p = some (.ortho id rid inj hd s) → root.isActive id = true →
    ∀ j c', s.get? j = some c' → root.isActive c'.id = true

theorem isActive_at {root : Node} {k : Nat} (hI : root.IdsFrom k) (ha : root.Act) {p : List Nat} {c : Node}
    (hf : root.follow p = some c) : root.isActive c.id = (root.anyCompo && root.onActive p) :=
  Node.isActive_act ha (Node.pathTo_of_follow p root k c hI hf)

theorem actAt_get : (s : Subs) → (i : Nat) → s.ActAt i → ∃ c, s.get? i = some c
  | .nil, _, h => by simp [Subs.ActAt] at h
  | .cons _ n _, 0, _ => ⟨n, rfl⟩
  | .cons _ _ r, i+1, h => by
      simp only [Subs.ActAt] at h
      obtain ⟨c, hc⟩ := actAt_get r i h.2
      exact ⟨c, by simpa [Subs.get?] using hc⟩

/-- `Act` (the recursive predicate the invariant maintains) implies the property as reported by the queries. -/
theorem WF_of_act {root : Node} {k : Nat} (hI : root.IdsFrom k) (ha : root.Act) : WF root := by
  refine ⟨Node.isActive_root root, ?_, ?_, ?_⟩
  · intro p par c i hf hg hc
    have hfc : root.follow (p ++ [i]) = some c := by rw [Node.follow_append p root par i hf]; exact hg
    rw [isActive_at hI ha hfc, Node.onActive_append p root par i hf] at hc
    rw [isActive_at hI ha hf]
    simp only [Bool.and_eq_true] at hc ⊢
    exact ⟨hc.1, hc.2.1⟩
  · intro p id rid inj hd st a r q m s hf hact
    have hid : root.isActive (Node.compo id rid inj hd st a r q m s).id = true := hact
    rw [isActive_at hI ha hf] at hid
    simp only [Bool.and_eq_true] at hid
    have hpar := Node.act_of_onActive p root _ ha hf hid.2
    cases a with
    | none => simp [Node.Act] at hpar
    | some ai =>
      simp only [Node.Act] at hpar
      obtain ⟨c, hc⟩ := actAt_get s ai hpar
      have hlen : 0 < s.len := by have := Subs.actAt_lt s ai hpar; omega
      refine ⟨ai, c, Node.activeSubState_compo hI hf hlen, hc, ?_, ?_⟩
      · have hfc : root.follow (p ++ [ai]) = some c := by
          rw [Node.follow_append p root _ ai hf]; simpa [Node.subs] using hc
        rw [isActive_at hI ha hfc, Node.onActive_append p root _ ai hf, hid.1, hid.2]
        simp [Node.stepActive, Node.subs, hc]
      · intro j c' hc' hact'
        have hfc : root.follow (p ++ [j]) = some c' := by
          rw [Node.follow_append p root _ j hf]; simpa [Node.subs] using hc'
        rw [isActive_at hI ha hfc, Node.onActive_append p root _ j hf, hid.1, hid.2] at hact'
        simp only [Node.stepActive, Node.subs, hc', Bool.true_and, beq_iff_eq, Option.some.injEq] at hact'
        exact hact'.symm
  · intro p id rid inj hd s hf hact j c' hc'
    have hid : root.isActive (Node.ortho id rid inj hd s).id = true := hact
    rw [isActive_at hI ha hf] at hid
    simp only [Bool.and_eq_true] at hid
    have hfc : root.follow (p ++ [j]) = some c' := by
      rw [Node.follow_append p root _ j hf]; simpa [Node.subs] using hc'
    rw [isActive_at hI ha hfc, Node.onActive_append p root _ j hf, hid.1, hid.2]
    simp [Node.stepActive, Node.subs, hc']

/-- An inactive tree reports nothing active, which is (vacuously) well formed. -/
theorem WF_of_clean {root : Node} (hc : root.Clean) : WF root := by
  refine ⟨Node.isActive_root root, ?_, ?_, ?_⟩
  · intro p par c i _ _ h; rw [Node.isActive_clean _ hc] at h; cases h
  · intro p id rid inj hd st a r q m s _ h; rw [Node.isActive_clean _ hc] at h; cases h
  · intro p id rid inj hd s _ h; rw [Node.isActive_clean _ hc] at h; cases h

theorem idsFrom_of_sameShape {root : Node} (shape : Shape) (hs : root.SameShape (shape.toNode 0 0)) : root.IdsFrom 0 :=
  (Node.idsFrom_congr hs 0).mpr (Node.idsFrom_toNode shape 0 0)

theorem WF_of_inv {shape : Shape} {m : Mach U} (hi : Mach.Inv (shape.toNode 0 0) m) : WF m.root := by
  rcases hi.act_or_clean with ha | hc
  · exact WF_of_act (idsFrom_of_sameShape shape hi.shape) ha
  · exact WF_of_clean hc

/-- **C01.** For every machine structure, configuration, sequence of API calls, decisions of the user
callbacks and generator outputs: if the model met no contract violation, the states reported active
form a well-formed configuration of the hierarchy. -/
theorem C01 (shape : Shape) (cfg : Config) (steps : List (ApiStep U))
    (he : ((Mach.create shape cfg : Mach U).run steps).w.err = none) :
    WF ((Mach.create shape cfg : Mach U).run steps).root :=
  WF_of_inv (Mach.run_inv steps _ (Mach.create_inv shape cfg) he)

/-- … and while the machine is not activated no state at all is reported active. -/
theorem C01_inactive (shape : Shape) (cfg : Config) (steps : List (ApiStep U))
    (he : ((Mach.create shape cfg : Mach U).run steps).w.err = none)
    (hm : ((Mach.create shape cfg : Mach U).run steps).root.machineActive = false) (id : Nat) :
    ((Mach.create shape cfg : Mach U).run steps).root.isActive id = false :=
  Node.isActive_clean id ((Mach.run_inv steps _ (Mach.create_inv shape cfg) he).dorm hm).dorm.clean

/-- **C01, inside callbacks.** Every observation a user callback received during the run (every trace
event that carries one) is `Node.observe` of a tree of the machine's structure that satisfies `WF`. -/
theorem C01_callbacks (shape : Shape) (cfg : Config) (steps : List (ApiStep U))
    (he : ((Mach.create shape cfg : Mach U).run steps).w.err = none)
    (sid : Nat) (m : Method) (slot : Nat) (o : Obs) (p c : List Transition)
    (hev : Event.cb sid m slot (some o) p c ∈ ((Mach.create shape cfg : Mach U).run steps).w.trace) :
    ∃ (root : Node) (g : Bool),
      o = root.observe ((Mach.create shape cfg : Mach U).run steps).w.cfg.stateCount g ∧
      root.SameShape (shape.toNode 0 0) ∧ WF root := by
  have hi := Mach.run_inv steps _ (Mach.create_inv shape cfg) he
  obtain ⟨root, g, ho, hs, hr⟩ := hi.good.trace sid m slot o p c hev
  refine ⟨root, g, ho, hs, ?_⟩
  rcases hr with ha | hc
  · exact WF_of_act (idsFrom_of_sameShape shape hs) ha
  · exact WF_of_clean hc

/-! ### the hypothesis `err = none` is not vacuous -/

/-- Resolution by the strategies that ask the user nothing cannot be the source of a contract
violation: in a tree whose composite regions are all `composite` / `resumable`, `deepRequest` of a
change / restart / resume request leaves `err` exactly as it found it, for every world. -/
theorem no_ask_request_err (n : Node) (k : Kind) (idx : Option Nat) (w : World U)
    (hn : n.NoAsk) (hok : n.OK) (hr : n.ResumableOK) (hk : k.Plain) :
    (n.request ⟨k, idx⟩ w).2.err = w.err :=
  Node.request_err_noAsk n k idx w hn hok hr hk

/-- utilities as natural numbers, for the closed examples below -/
@[reducible] def exArith : UtilArith Nat :=
  ⟨0, 1, (· + ·), (· - ·), (· * ·), (· / ·), fun a b => decide (a ≤ b)⟩
attribute [local instance] exArith

def quiet (n : Nat) : List (Decision Nat) := List.replicate n []

/-- root composite [ A = resumable region [A1, A2],
                     B = orthogonal region [B1, C = composite region [C1, C2]] ]
ids: 0 root, 1 A, 2 A1, 3 A2, 4 B, 5 B1, 6 C, 7 C1, 8 C2 -/
def exShape : Shape :=
  .compo true 0 .composite
    (.cons (.compo true 0 .resumable (.cons (.leaf 0) (.cons (.leaf 0) .nil)))
    (.cons (.ortho true 0 (.cons (.leaf 0)
        (.cons (.compo true 0 .composite (.cons (.leaf 0) (.cons (.leaf 0) .nil))) .nil)))
     .nil))

def exSteps : List (ApiStep Nat) :=
  [ ⟨quiet 80, [], .enter⟩,                       -- enters root, A, A1
    ⟨quiet 80, [], .immediate .change 8 none⟩,    -- to C2: exits A1, A; enters B, B1, C, C2
    ⟨quiet 80, [], .update⟩,
    ⟨quiet 80, [], .request .change 3 none⟩,
    ⟨quiet 80, [], .request .change 7 none⟩,      -- a batch of two conflicting requests …
    ⟨quiet 80, [], .update⟩,                      -- … applied by this update
    ⟨quiet 80, [], .reset⟩ ]

def exCfg : Config := { queueCap := 3 }

/-- the run meets no contract violation … -/
theorem ex_err : ((Mach.create exShape exCfg : Mach Nat).run exSteps).w.err = none := by decide +kernel
/-- … reaches non-trivial configurations (after the second update: root, B, B1, C, C1 are active) … -/
theorem ex_active : (List.range 9).map ((Mach.create exShape exCfg : Mach Nat).run (exSteps.take 6)).root.isActive =
    [true, false, false, false, true, true, true, true, false] := by decide +kernel
/-- … so `C01` applies to it. -/
example : WF ((Mach.create exShape exCfg : Mach Nat).run exSteps).root := C01 exShape exCfg exSteps ex_err

/-- root composite [ S = selectable [S1, S2], R = random [R1, R2] ]; ids 0 root, 1 S, 2 S1, 3 S2, 4 R, 5 R1, 6 R2 -/
def exShape2 : Shape :=
  .compo true 0 .composite
    (.cons (.compo true 0 .selectable (.cons (.leaf 0) (.cons (.leaf 0) .nil)))
    (.cons (.compo true 0 .random (.cons (.leaf 0) (.cons (.leaf 0) .nil))) .nil))

/-- `select()` answers, ranks and utilities, a generator output, and a vetoing exit guard -/
def exSteps2 : List (ApiStep Nat) :=
  [ ⟨[.retSelect 1] :: quiet 10, [], .enter⟩,
    ⟨[[.retRank 0], [.retRank 0], [.retUtil 1], [.retUtil 3]] ++ quiet 20, [0], .immediate .randomize 4 none⟩,
    ⟨[[.retSelect 0], [.cancel]] ++ quiet 20, [], .immediate .change 1 none⟩ ]

theorem ex2_err : ((Mach.create exShape2 {} : Mach Nat).run exSteps2).w.err = none := by decide +kernel
theorem ex2_active : (List.range 7).map ((Mach.create exShape2 {} : Mach Nat).run exSteps2).root.isActive =
    [true, false, false, false, true, true, false] := by decide +kernel
example : WF ((Mach.create exShape2 {} : Mach Nat).run exSteps2).root := C01 exShape2 {} exSteps2 ex2_err

/-! ### request marks are NOT part of the invariant -/

/-- the `requested` field of a composite root -/
def rootRequested : Node → Option Nat
  | .compo _ _ _ _ _ _ _ q _ _ => q
  | _ => none

/-- `replayEnter` of a non-empty history that changes nothing (here: one `schedule`) on a manual
instance that is not activated: returns `false`, the instance stays inactive, no contract violation
is recorded by the model (the C++ trips `HFSM2_CHECKED(applyRequests(…))`, an assertion) — and the
request marks of the initial `deepRequestChange` stay behind.  So "no marks between API calls" is
false of the model; `WF` is unaffected (`C01` covers this run). -/
theorem stale_marks_witness :
    let m := (Mach.create exShape { manual := true } : Mach Nat).run
      [⟨[], [], .replayEnter [{ origin := none, dest := 3, kind := .schedule, payload := none }]⟩]
    m.w.err = none ∧ m.root.machineActive = false ∧ rootRequested m.root = some 0 := by
  decide +kernel

/-! ### … but every call other than that `replayEnter` keeps "no marks" -/

/-- a run of calls none of which is a `replayEnter` of a non-empty history, from an instance without
request marks, ends without request marks -/
theorem run_noMarks {base : Node} : (steps : List (ApiStep U)) → (m : Mach U) → Mach.Inv base m → m.root.NoMarks →
    (∀ s ∈ steps, s.op.marksSafe = true) → (m.run steps).w.err = none → (m.run steps).root.NoMarks
  | [], _, _, hn, _, _ => hn
  | s :: rest, m, hi, hn, hall, he =>
    have he1 := Mach.run_errLe rest (m.step s) he
    run_noMarks rest (m.step s) (Mach.step_inv s hi he1)
      (Mach.step_noMarks s hi hn (hall s List.mem_cons_self) he1)
      (fun x hx => hall x (List.mem_cons_of_mem _ hx)) he

/-- **No request mark between API calls**, for every machine structure, configuration, decisions and
generator outputs, after ANY sequence of API calls that contains no `replayEnter` of a non-empty history —
`load` (into an activated or a not activated instance, any buffer the model accepts) and
`replayTransitions` (answering `true` or `false`) included — provided the model met no contract violation.
(The full class of histories, with `replayEnter`s that answer `true` and washing calls after those that
answer `false`, is `QuietOf` of Proofs/Reach.lean.) -/
theorem C01_noMarks (shape : Shape) (cfg : Config) (steps : List (ApiStep U))
    (hall : ∀ s ∈ steps, s.op.marksSafe = true)
    (he : ((Mach.create shape cfg : Mach U).run steps).w.err = none) :
    ((Mach.create shape cfg : Mach U).run steps).root.NoMarks :=
  run_noMarks steps _ (Mach.create_inv shape cfg) (Node.toNode_idle shape 0 0).2.1 hall he

/-- the image of `exShape` with C2 active and region A remembering A2 (`enter; changeTo(A2); changeTo(C2)`) -/
def exImage : List Bool :=
  ((Mach.create exShape { manual := true } : Mach Nat).run
    [⟨quiet 80, [], .enter⟩, ⟨quiet 80, [], .immediate .change 3 none⟩, ⟨quiet 80, [], .immediate .change 8 none⟩]).save

/-- `load` into a not activated instance does not wash stale marks off: after the `replayEnter` of
`stale_marks_witness`, loading `exImage` activates the instance (root, B, B1, C, C2; no contract violation; its
own image is `exImage` again, like that of a fresh instance loaded with it) but region A — outside the loaded
configuration — still carries `requested = A1` from the abandoned initial resolution, where the fresh instance
carries nothing.  Observable: `immediateChangeTo(A)` then FOLLOWS the stale mark into A1, although A is a
resumable region that remembers A2 (which is where the fresh instance goes).
(Like the `replayEnter` before it, this `load` is an assertion in the C++: `RV_::loadEnter` starts with
`HFSM2_ASSERT(_core.registry.empty())`; without assertions the code does what the model does.) -/
theorem stale_marks_survive_loadEnter :
    let stale := (Mach.create exShape { manual := true } : Mach Nat).run
      [⟨[], [], .replayEnter [{ origin := none, dest := 3, kind := .schedule, payload := none }]⟩,
       ⟨quiet 80, [], .load exImage⟩]
    let fresh := (Mach.create exShape { manual := true } : Mach Nat).run [⟨quiet 80, [], .load exImage⟩]
    stale.w.err = none ∧ fresh.w.err = none ∧ stale.save = exImage ∧ fresh.save = exImage ∧
    (List.range 9).map stale.root.isActive = (List.range 9).map fresh.root.isActive ∧
    (stale.root.follow [0]).map rootRequested = some (some 0) ∧
    (fresh.root.follow [0]).map rootRequested = some none ∧
    (List.range 9).map (stale.step ⟨quiet 80, [], .immediate .change 1 none⟩).root.isActive =
      [true, true, true, false, false, false, false, false, false] ∧
    (List.range 9).map (fresh.step ⟨quiet 80, [], .immediate .change 1 none⟩).root.isActive =
      [true, true, false, true, false, false, false, false, false] := by
  decide +kernel

/-- the hypotheses of `C01_noMarks` are satisfiable by a run with a `load` that does something: the fresh
instance of the witness above (a `load` is `marksSafe`; no contract violation; activated by the load) -/
example : (∀ s ∈ [(⟨quiet 80, [], .load exImage⟩ : ApiStep Nat)], s.op.marksSafe = true) ∧
    ((Mach.create exShape { manual := true } : Mach Nat).run [⟨quiet 80, [], .load exImage⟩]).w.err = none ∧
    ((Mach.create exShape { manual := true } : Mach Nat).run [⟨quiet 80, [], .load exImage⟩]).root.machineActive = true :=
  ⟨by intro s hs; simp only [List.mem_singleton] at hs; subst hs; rfl, by decide +kernel, by decide +kernel⟩

end Hfsm.Props.C01

/-
Theorems that constitute the property (for Props/INDEX.json):
  Hfsm.Props.C01.C01             — WF after every run with err = none
  Hfsm.Props.C01.C01_inactive    — nothing reported active while not activated
  Hfsm.Props.C01.C01_callbacks   — every observation handed to a callback comes from a WF tree
  Hfsm.Props.C01.WF_of_act       — Act (+ DFS ids) ⇒ WF as reported by isActive / activeSubState
  Hfsm.Props.C01.WF_of_clean     — Clean ⇒ WF (nothing active)
  Hfsm.Props.C01.no_ask_request_err, ex_err, ex_active, ex2_err, ex2_active — non-vacuity
  Hfsm.Props.C01.stale_marks_witness — why NoMarks is not in the invariant
  Hfsm.Props.C01.C01_noMarks, run_noMarks — NoMarks after every run without `replayEnter` of a non-empty history
                                   (`load`, `replayTransitions` included)
  Hfsm.Props.C01.stale_marks_survive_loadEnter — `load` into a not activated instance keeps stale marks (observable)
-/
