/-
Property C12 — "Utility and weighted-random selection pick the right sub-state for all inputs".

Model: `Hfsm.Model.Forward` — `treeFold`, `argMax`, `treeSum`, `chainSum`, `topRank`,
`World.resolveRandom`, `Node.reportChange / reportUtilize / reportRandomize`, `Node.request`.

How the statements are organised
--------------------------------
The report passes thread the whole `World`.  `Proofs/UtilitySpec.lean` defines *pure* functions of the
two input streams only (`Sig U` = decisions still to come, random numbers still to come, a counter of
`resolveRandom` calls): `Node.utilizeSpec`, `Node.changeSpec`, `Node.randomizeSpec`, `Node.requestSpec`,
`requestChoice`.  Section 2 proves that the model's traversals compute exactly these functions (value
reported, streams left, prong written to `compoRequested`), for every tree, every world, every
arithmetic.  Because the specs consume the streams by structural recursion — head, then sub-states left
to right; for a random region: head, `rank()` of all sub-states left to right, `utility()` of the
top-rank sub-states left to right, one random number — this *is* the statement about the order in
which the callbacks' answers are consumed.  Sections 1, 3, 4 are then statements about the specs /
about `argMax` / `resolveRandom` themselves.

Arithmetic.  `U` is abstract (`class UtilArith`).  The laws a theorem needs are named in its
signature: `UtilOrder U` (`≤` is a total preorder) for the leftmost maximum, `UtilNonneg U` (five sign
laws) for weighted-random soundness; "never none" needs no law at all.  `Rat` (exact) and `Int`
satisfy both classes (instances in Proofs/UtilityExact.lean).
(iv) IEEE note.  For `U := Float32` (the type the driver and the real code use) `UtilOrder` and
`UtilNonneg` hold for finite non-negative values under round-to-nearest — totality and transitivity
of `<=` away from NaN, and the facts that rounding is monotone and preserves the sign of exact
non-negative results.  Lean's `Float32` is opaque, so these are facts of the TRUSTED BASE (DESIGN §11),
not theorems; the harness smoke-tests them and the oracle `tools/oracle_c12.py` checks the
consequences (top rank, positive utility, one number per resolution) on every transcript.
NaN / negative / infinite utilities and generator outputs outside [0,1) are outside the contract.

What is FALSE of the code as written / observations (witnesses in section 5)
---------------------------------------------------------------------------
* N5  (HISTORY — repaired in /repo by `fix: an anonymous region head reports the default utility, not zero`
      and its completion for `deepReportChange / deepReportUtilize / deepReportRandomize` of the anonymous head)
      a headless nested region used to report utility `Utility{} * sub = 0` while a headed state's default
      `utility()` is 1; under `randomize` this made a Random region whose only top-rank candidates were
      headless nested regions select nothing although every `utility()` answer was positive
      (`INVALID_PRONG`, `HFSM2_BREAK`, and an out-of-bounds read `utilities[255]` in the nested case; found
      by this proof effort, confirmed with UBSan).  Now the anonymous head answers `Utility{1}` in all passes
      (model: `World.headUtility / headUtilityWrap … false = one`):
      `headless_region_reports_default`, `witness_N5_repaired`, `witness_headless_random_repaired`.
* O1  `deepReportChange` of a SELECTABLE region resolves by resumable-or-0 and never calls `select()`,
      while `deepRequestChange` of the same region calls `select()` (`reportChange_selectable_ignores_select`).
* O2  a utilitarian/random `change` (and `utilize`, `randomize`) marks ALL candidates' nested regions
      (`compoRequested` of the losers keeps the resolution until `clearRequests`): `witness_losers_keep_marks`.
      Not harmless inside one batch: a later request of the same batch that targets a losing candidate
      follows the stale marks (`deepForwardRequest`) instead of resolving afresh — `witness_stale_mark_used`
      (there: `select()` is never called and sub-state 0 is entered where a lone `changeTo` enters the
      selected one).  It also makes `isPendingEnter` true for states that are not entered (C13).
* all-zero (or no positive top-rank) utilities: `resolveRandom` returns `INVALID_PRONG` (`HFSM2_BREAK`);
      out of contract, the theorems carry the hypothesis; `witness_all_zero_selects_nothing`.
* rank ties are not a problem: every sub-state of maximal rank takes part (`resolveRandom_sound` has no
      uniqueness hypothesis).
The full statement (ii) — never none, never zero utility, never lower rank, for every rounding — is
TRUE of the repaired code (F5 fix: fallback to the last positive top-rank sub-state) and proved below.
-/
import Hfsm.Model.Commit
import Hfsm.Proofs.UtilityCalls
import Hfsm.Proofs.UtilityExact

namespace Hfsm.Props.C12
open Hfsm UtilArith
variable {U : Type} [UtilArith U]

/-! ## 1. `utilize`: leftmost maximum through the balanced split -/

/-- The balanced `LHalf/RHalf` recursion of `CS_::wideReportUtilize` (`l.utility >= r.utility ? l : r`) is
the sequential left-to-right scan that replaces the incumbent only by a strictly greater utility — for
every total preorder, every width. -/
theorem argMax_sequential [UtilOrder U] (u : U) (us : List U) :
    argMax (u :: us) = some (((us.zipIdx 1).map (fun x => (x.2, x.1))).foldl pick (0, u)) :=
  argMax_eq_foldl u us

/-- `argMax` returns the LEFTMOST index of maximal value: `u = us[i]`, nothing exceeds `u`, everything
before `i` is strictly smaller.  (Empty regions do not exist: `argMax [] = none`.) -/
theorem argMax_leftmost [UtilOrder U] (us : List U) (hne : us ≠ []) :
    ∃ i u, argMax us = some (i, u) ∧ us[i]? = some u ∧
      (∀ (j : Nat) (v : U), us[j]? = some v → le v u = true) ∧
      (∀ (j : Nat) (v : U), us[j]? = some v → j < i → le u v = false) :=
  argMax_spec us hne

example : argMax ([3, 7, 7, 2] : List Int) = some (1, 7) := by decide

/-- Computed utility of a nested composite region under `utilize`: head × chosen sub, the head's answer
being consumed first, then the sub-states' left to right. -/
theorem utilize_value_compo (id rid inj : Nat) (h : Bool) (st : Strategy) (a r q : Option Nat) (m : Bool)
    (s : Subs) (σ : Sig U) :
    (Node.compo id rid inj h st a r q m s).utilizeSpec σ =
      (match argMax (s.utilizeSpecAll (σ.headVal h).2).1 with
        | some (_, u) => mul (σ.headVal h).1 u
        | none => zero,
       (s.utilizeSpecAll (σ.headVal h).2).2) := by
  simp only [Node.utilizeSpec]
  cases argMax (s.utilizeSpecAll (σ.headVal h).2).1 with
  | none => rfl
  | some iu => rfl

/-- Computed utility of an orthogonal region: head × (chain sum of the sub-states) / width. -/
theorem utilize_value_ortho (id rid inj : Nat) (h : Bool) (s : Subs) (σ : Sig U) :
    (Node.ortho id rid inj h s).utilizeSpec σ =
      (mul (σ.headVal h).1 (divNat (chainSum (s.utilizeSpecAll (σ.headVal h).2).1) s.len),
       (s.utilizeSpecAll (σ.headVal h).2).2) := rfl

/-- A plain state's utility is its `utility()` answer: the next decision. -/
theorem utilize_value_leaf (id inj : Nat) (σ : Sig U) :
    (Node.leaf id inj).utilizeSpec σ = (utilAnswer (σ.ds.headD []), { σ with ds := σ.ds.tail }) := rfl

/-- Sub-states report left to right. -/
theorem utilize_value_subs (b : Bool) (n : Node) (r : Subs) (σ : Sig U) :
    (Subs.cons b n r).utilizeSpecAll σ =
      ((n.utilizeSpec σ).1 :: (r.utilizeSpecAll (n.utilizeSpec σ).2).1, (r.utilizeSpecAll (n.utilizeSpec σ).2).2) := rfl

/-- Same formulas for `change` into nested regions (`deepReportChange`): the sub-state that counts is
sub-state 0 (Composite), the resumable one or 0 (Resumable AND Selectable — no `select()` call, see O1),
the leftmost maximum (Utilitarian), the randomly resolved one (Random). -/
theorem change_value_composite (id rid inj : Nat) (h : Bool) (a r q : Option Nat) (m : Bool) (s : Subs) (σ : Sig U) :
    (Node.compo id rid inj h .composite a r q m s).changeSpec σ =
      (mul (σ.headVal h).1 (s.changeSpecAt 0 (σ.headVal h).2).1, (s.changeSpecAt 0 (σ.headVal h).2).2) := rfl

theorem change_value_resumable (id rid inj : Nat) (h : Bool) (a r q : Option Nat) (m : Bool) (s : Subs) (σ : Sig U) :
    (Node.compo id rid inj h .resumable a r q m s).changeSpec σ =
      (mul (σ.headVal h).1 (s.changeSpecAt (r.getD 0) (σ.headVal h).2).1,
       (s.changeSpecAt (r.getD 0) (σ.headVal h).2).2) := rfl

theorem change_value_ortho (id rid inj : Nat) (h : Bool) (s : Subs) (σ : Sig U) :
    (Node.ortho id rid inj h s).changeSpec σ =
      (mul (σ.headVal h).1 (divNat (chainSum (s.changeSpecAll (σ.headVal h).2).1) s.len),
       (s.changeSpecAll (σ.headVal h).2).2) := rfl

/-! ## 2. the model's traversals compute the specs (value, streams, mark) -/

/-- `deepReportUtilize`: reported utility and streams left, for every tree and world. -/
theorem reportUtilize_spec (n : Node) (w : World U) (c : Nat) :
    (n.reportUtilize w).2.2 = (n.utilizeSpec ⟨w.ds, w.rng, c⟩).1 ∧
    (n.reportUtilize w).2.1.ds = (n.utilizeSpec ⟨w.ds, w.rng, c⟩).2.ds ∧
    (n.reportUtilize w).2.1.rng = (n.utilizeSpec ⟨w.ds, w.rng, c⟩).2.rng :=
  let h := Node.reportUtilize_corr n w ⟨w.ds, w.rng, c⟩ ⟨rfl, rfl⟩
  ⟨h.1, h.2.1, h.2.2⟩

/-- `deepReportChange`. -/
theorem reportChange_spec (n : Node) (w : World U) (c : Nat) :
    (n.reportChange w).2.2 = (n.changeSpec ⟨w.ds, w.rng, c⟩).1 ∧
    (n.reportChange w).2.1.ds = (n.changeSpec ⟨w.ds, w.rng, c⟩).2.ds ∧
    (n.reportChange w).2.1.rng = (n.changeSpec ⟨w.ds, w.rng, c⟩).2.rng :=
  let h := Node.reportChange_corr n w ⟨w.ds, w.rng, c⟩ ⟨rfl, rfl⟩
  ⟨h.1, h.2.1, h.2.2⟩

/-- `deepReportRandomize`. -/
theorem reportRandomize_spec (n : Node) (w : World U) (c : Nat) :
    (n.reportRandomize w).2.2 = (n.randomizeSpec ⟨w.ds, w.rng, c⟩).1 ∧
    (n.reportRandomize w).2.1.ds = (n.randomizeSpec ⟨w.ds, w.rng, c⟩).2.ds ∧
    (n.reportRandomize w).2.1.rng = (n.randomizeSpec ⟨w.ds, w.rng, c⟩).2.rng :=
  let h := Node.reportRandomize_corr n w ⟨w.ds, w.rng, c⟩ ⟨rfl, rfl⟩
  ⟨h.1, h.2.1, h.2.2⟩

/-- `deepRequest…`: streams left and the prong written to `compoRequested` of the region. -/
theorem request_spec (id rid inj : Nat) (h : Bool) (st : Strategy) (a r q : Option Nat) (m : Bool) (s : Subs)
    (rq : Req) (w : World U) (c : Nat) :
    ((Node.compo id rid inj h st a r q m s).request rq w).1.requested =
      requestChoice h st r q s rq.kind ⟨w.ds, w.rng, c⟩ ∧
    ((Node.compo id rid inj h st a r q m s).request rq w).2.ds =
      ((Node.compo id rid inj h st a r q m s).requestSpec rq.kind ⟨w.ds, w.rng, c⟩).ds ∧
    ((Node.compo id rid inj h st a r q m s).request rq w).2.rng =
      ((Node.compo id rid inj h st a r q m s).requestSpec rq.kind ⟨w.ds, w.rng, c⟩).rng :=
  let hc := Node.request_corr (.compo id rid inj h st a r q m s) rq w ⟨w.ds, w.rng, c⟩ ⟨rfl, rfl⟩
  ⟨Node.request_requested id rid inj h st a r q m s rq w _ ⟨rfl, rfl⟩, hc.1, hc.2⟩

/-- **utilize picks the leftmost maximum.**  A request resolved as `utilize` (kind `utilize`, or `change`
on a Utilitarian region) marks the sub-state `i` whose computed utility `us[i]` is maximal, leftmost on
ties, where `us` are the utilities computed by section 1's formulas from the decisions consumed in
order. -/
theorem request_utilize_leftmost_max [UtilOrder U] (id rid inj : Nat) (h : Bool) (st : Strategy)
    (a r q : Option Nat) (m : Bool) (s : Subs) (rq : Req) (w : World U)
    (hk : effectiveKind st rq.kind = .utilize) (hs : 0 < s.len) :
    let us := (if rq.kind = .change then s.changeSpecAll ⟨w.ds, w.rng, 0⟩ else s.utilizeSpecAll ⟨w.ds, w.rng, 0⟩).1
    ∃ i u, ((Node.compo id rid inj h st a r q m s).request rq w).1.requested = some i ∧ us[i]? = some u ∧
      (∀ (j : Nat) (v : U), us[j]? = some v → le v u = true) ∧
      (∀ (j : Nat) (v : U), us[j]? = some v → j < i → le u v = false) := by
  intro us
  have hne : us ≠ [] := by
    cases s with
    | nil => simp [Subs.len] at hs
    | cons b n r' =>
      simp only [us]
      split <;> simp [Subs.changeSpecAll, Subs.utilizeSpecAll]
  obtain ⟨i, u, h1, h2, h3, h4⟩ := argMax_spec us hne
  refine ⟨i, u, ?_, h2, h3, h4⟩
  rw [(request_spec id rid inj h st a r q m s rq w 0).1]
  simp only [requestChoice, hk]
  show (match argMax us with | some (i, _) => some i | none => q) = some i
  rw [h1]

-- the hypotheses are satisfiable: a Utilitarian region of three plain states, `change` request
example : effectiveKind .utilitarian .change = .utilize ∧
    0 < (Subs.cons false (.leaf 1 0) (.cons false (.leaf 2 0) (.cons false (.leaf 3 0) .nil))).len := by decide

omit [UtilArith U] in
/-- What is marked gets activated: `deepEnter` of a region makes the requested sub-state the active one … -/
theorem enter_activates_requested (id rid inj : Nat) (h : Bool) (st : Strategy) (a r : Option Nat) (qi : Nat)
    (m : Bool) (s : Subs) (w : World U) :
    ∃ r' s', ((Node.compo id rid inj h st a r (some qi) m s).enter w).1 =
      .compo id rid inj h st (some qi) r' none m s' := by
  simp only [Node.enter]; exact ⟨_, _, rfl⟩

omit [UtilArith U] in
/-- … and so does `deepChangeToRequested` of an active region (switch, restart in place, or reenter). -/
theorem commit_activates_requested (id rid inj : Nat) (h : Bool) (st : Strategy) (ai : Nat) (r : Option Nat)
    (qi : Nat) (m : Bool) (s : Subs) (w : World U) :
    ∃ r' s', ((Node.compo id rid inj h st (some ai) r (some qi) m s).commit w).1 =
      .compo id rid inj h st (some qi) r' none m s' := by
  simp only [Node.commit]
  by_cases hq : qi = ai
  · subst hq
    cases m <;> simp <;> exact ⟨_, _, rfl⟩
  · simp [hq]

/-! ## 3. `randomize` -/

/-- **Never none** — no assumption on the arithmetic at all: whenever some top-rank sub-state has positive
utility (`!(u <= 0)`), the cumulative walk of `C_::resolveRandom` returns a prong.  (This is the F5
repair: before it, a cursor that rounding kept `>=` every utility fell off the end.) -/
theorem resolveRandom_never_none (w : World U) (hid : Nat) (us : List U) (sum : U) (rks : List Int) (top : Int)
    (rnd : U) (rest : List U) (hr : w.rng = rnd :: rest)
    (hex : ∃ (j : Nat) (u : U), us[j]? = some u ∧ rks[j]? = some top ∧ le u zero = false) :
    (w.resolveRandom hid us sum rks top).2.isSome = true := by
  have hg := go_isSome top us rks 0 (mul rnd sum) none (Or.inr hex)
  unfold World.resolveRandom
  simp only [hr]
  split
  · rfl
  · next heq => rw [heq] at hg; simp at hg

/-- **Never zero utility, never lower rank, exactly one random number** — for every arithmetic satisfying
the five sign laws of `UtilNonneg` (whatever the rounding), every generator output `rnd ≥ 0`, all
utilities non-negative and at least one top-rank utility positive.  No contract violation is recorded. -/
theorem resolveRandom_sound [UtilNonneg U] (w : World U) (hid : Nat) (us : List U) (rks : List Int)
    (top : Int) (rnd : U) (rest : List U) (hr : w.rng = rnd :: rest)
    (h0 : le zero rnd = true) (hnn : ∀ u ∈ us, le zero u = true)
    (hex : ∃ (j : Nat) (u : U), us[j]? = some u ∧ rks[j]? = some top ∧ le u zero = false) :
    ∃ (i : Nat) (u : U), (w.resolveRandom hid us (treeSum us) rks top).2 = some i ∧ rks[i]? = some top ∧
      us[i]? = some u ∧ le u zero = false ∧
      (w.resolveRandom hid us (treeSum us) rks top).1.rng = rest ∧
      (w.resolveRandom hid us (treeSum us) rks top).1.err = w.err :=
  World.resolveRandom_sound w hid us rks top rnd rest hr h0 hnn hex

-- the hypotheses are satisfiable (exact arithmetic; ranks tie at the top, one top-rank utility is zero)
example : (le (zero : Rat) (1/3) = true) ∧ (∀ u ∈ ([1/2, 0, 3, 5] : List Rat), le zero u = true) ∧
    (∃ (j : Nat) (u : Rat), ([1/2, 0, 3, 5] : List Rat)[j]? = some u ∧ ([1, 1, 1, 0] : List Int)[j]? = some 1 ∧
      le u zero = false) := by
  refine ⟨by simp; grind, ?_, 2, 3, by simp, by simp, by simp; grind⟩
  simp; grind

/-- `resolveRandom` consumes exactly one element of the generator stream per call. -/
theorem resolveRandom_one_number (w : World U) (hid : Nat) (us : List U) (sum : U) (rks : List Int) (top : Int) :
    (w.resolveRandom hid us sum rks top).1.rng = w.rng.tail :=
  World.resolveRandom_rng_u w hid us sum rks top

/-- **One random number per random region resolved.**  `calls` counts the `resolveRandom` calls along the
recursion of a request (`Sig.resolve` is the only place that increments it: once per region resolved as
Random, including Random regions nested in candidates that report for an enclosing Utilitarian/Random
`change`); the generator stream shrinks by exactly that many numbers. -/
theorem request_rng_count (n : Node) (rq : Req) (w : World U) :
    (n.request rq w).2.rng = w.rng.drop (n.requestSpec rq.kind ⟨w.ds, w.rng, 0⟩).calls := by
  have hc := Node.request_corr n rq w ⟨w.ds, w.rng, 0⟩ ⟨rfl, rfl⟩
  have ha := Node.requestSpec_adv n rq.kind (⟨w.ds, w.rng, 0⟩ : Sig U)
  rw [hc.2, ha.2]; simp

/-- The same for the report passes on their own. -/
theorem reportChange_rng_count (n : Node) (w : World U) :
    (n.reportChange w).2.1.rng = w.rng.drop (n.changeSpec ⟨w.ds, w.rng, 0⟩).2.calls := by
  have hc := Node.reportChange_corr n w ⟨w.ds, w.rng, 0⟩ ⟨rfl, rfl⟩
  have ha := Node.changeSpec_adv n (⟨w.ds, w.rng, 0⟩ : Sig U)
  rw [hc.2.2, ha.2]; simp

theorem reportRandomize_rng_count (n : Node) (w : World U) :
    (n.reportRandomize w).2.1.rng = w.rng.drop (n.randomizeSpec ⟨w.ds, w.rng, 0⟩).2.calls := by
  have hc := Node.reportRandomize_corr n w ⟨w.ds, w.rng, 0⟩ ⟨rfl, rfl⟩
  have ha := Node.randomizeSpec_adv n (⟨w.ds, w.rng, 0⟩ : Sig U)
  rw [hc.2.2, ha.2]; simp

/-- `utilize` never draws a random number — not even below nested Random regions, which
`deepReportUtilize` resolves by maximum like any other. -/
theorem reportUtilize_draws_nothing (n : Node) (w : World U) : (n.reportUtilize w).2.1.rng = w.rng := by
  have hc := Node.reportUtilize_corr n w ⟨w.ds, w.rng, 0⟩ ⟨rfl, rfl⟩
  rw [hc.2.2, (Node.utilizeSpec_same n _).1]

/-- A request resolved as `randomize` on a region whose candidates are plain states makes exactly one call. -/
example : ((Node.compo 0 0 0 true .random none none none false
      (.cons false (.leaf 1 0) (.cons false (.leaf 2 0) .nil))).requestSpec .randomize
        (⟨[], [], 0⟩ : Sig Int)).calls = 1 := by decide

/-- **randomize picks a top-rank sub-state of positive utility.**  End to end for a request resolved as
`randomize` (kind `randomize`, or `change` on a Random region): with `ranks` the `rank()` answers of all
sub-states (consumed first, left to right), `top` their maximum, `us` the utilities of the top-rank
sub-states (consumed next; 0 for the others) and `rnd` the next generator output. -/
theorem request_randomize_sound [UtilNonneg U] (id rid inj : Nat) (h : Bool) (st : Strategy)
    (a r q : Option Nat) (m : Bool) (s : Subs) (rq : Req) (w : World U)
    (hk : effectiveKind st rq.kind = .randomize) :
    let σ1 := s.rankSpecAll ⟨w.ds, w.rng, 0⟩
    let ranks := σ1.1
    let top := topRank ranks
    let σ2 := if rq.kind = .change then s.changeSpecTop ranks top σ1.2 else s.randomizeSpecTop ranks top σ1.2
    let us := σ2.1
    ∀ (rnd : U) (rest : List U), σ2.2.rng = rnd :: rest → le zero rnd = true →
      (∀ u ∈ us, le zero u = true) →
      (∃ (j : Nat) (u : U), us[j]? = some u ∧ ranks[j]? = some top ∧ le u zero = false) →
      ∃ (i : Nat) (u : U), ((Node.compo id rid inj h st a r q m s).request rq w).1.requested = some i ∧
        ranks[i]? = some top ∧ us[i]? = some u ∧ le u zero = false := by
  intro σ1 ranks top σ2 us rnd rest hr h0 hnn hex
  rw [(request_spec id rid inj h st a r q m s rq w 0).1]
  have hg := go_isSome top us ranks 0 (mul rnd (treeSum us)) none (Or.inr hex)
  have hc0 : le zero (mul rnd (treeSum us)) = true := UtilNonneg.mul_nonneg _ _ h0 (treeSum_nonneg us hnn)
  cases hgo : World.resolveRandom.go top us ranks 0 (mul rnd (treeSum us)) none with
  | none => rw [hgo] at hg; simp at hg
  | some i =>
    rcases go_sound top us ranks 0 _ none i hc0 hnn hgo with hl | ⟨_, h2, u, h3, h4⟩
    · simp at hl
    · refine ⟨i, u, ?_, by simpa using h2, by simpa using h3, h4⟩
      simp only [requestChoice, hk]
      show (σ2.2.resolve us (treeSum us) ranks top).1 = some i
      unfold Sig.resolve
      simp only [hr, hgo]

/-! ## 4. exact arithmetic: the cumulative-interval property -/

/-- **C12 (iii).**  `U := Rat`.  For every generator output `rnd ∈ [0,1)`, non-negative utilities (zero off
the top rank, as the report passes deliver them) with positive sum, `resolveRandom` returns the top-rank
sub-state `i` with `prefix i ≤ rnd * sum < prefix i + us[i]`, the prefix sums running over the top-rank
sub-states only; one number consumed, no violation recorded. -/
theorem resolveRandom_interval_exact (w : World Rat) (hid : Nat) (us : List Rat) (rks : List Int) (top : Int)
    (rnd : Rat) (rest : List Rat) (hr : w.rng = rnd :: rest) (h0 : 0 ≤ rnd) (h1 : rnd < 1)
    (hnn : ∀ u ∈ us, 0 ≤ u) (hlen : us.length = rks.length)
    (hz : ∀ (j : Nat) (u : Rat), us[j]? = some u → rks[j]? ≠ some top → u = 0) (hpos : 0 < treeSum us) :
    ∃ (i : Nat) (u : Rat), (w.resolveRandom hid us (treeSum us) rks top).2 = some i ∧ rks[i]? = some top ∧
      us[i]? = some u ∧ 0 < u ∧
      topPrefix top us rks i ≤ rnd * treeSum us ∧ rnd * treeSum us < topPrefix top us rks i + u ∧
      (w.resolveRandom hid us (treeSum us) rks top).1.rng = rest ∧
      (w.resolveRandom hid us (treeSum us) rks top).1.err = w.err :=
  resolveRandom_interval w hid us rks top rnd rest hr h0 h1 hnn hlen hz hpos

-- satisfiable hypotheses: utilities 1/2, (rank 0:) 0, 3 ; rnd = 1/3 ; cursor 7/6 lies in [1/2, 7/2): index 2
example : ∃ w : World Rat, w.rng = [1/3] ∧ (0:Rat) ≤ 1/3 ∧ (1/3 : Rat) < 1 ∧
    (∀ u ∈ ([1/2, 0, 3] : List Rat), 0 ≤ u) ∧ ([1/2, 0, 3] : List Rat).length = ([1, 0, 1] : List Int).length ∧
    (∀ (j : Nat) (u : Rat), ([1/2, 0, 3] : List Rat)[j]? = some u → ([1, 0, 1] : List Int)[j]? ≠ some 1 → u = 0) ∧
    0 < treeSum ([1/2, 0, 3] : List Rat) := by
  refine ⟨{ cfg := {}, rng := [1/3] }, rfl, by grind, by grind, by simp; grind, rfl, ?_, ?_⟩
  · intro j u h1 h2
    match j with
    | 0 => simp at h2
    | 1 => simp at h1; exact h1.symm
    | 2 => simp at h2
    | j+3 => simp at h1
  · rw [treeSum_eq_sum]; simp; grind

/-- The report passes do deliver such vectors: one utility per sub-state, zero off the top rank. -/
theorem top_utilities_shape (s : Subs) (rks : List Int) (top : Int) (σ : Sig U) :
    ((s.changeSpecTop rks top σ).1.length = s.len ∧
      ∀ (j : Nat) (u : U) (rk : Int), (s.changeSpecTop rks top σ).1[j]? = some u → rks[j]? = some rk → rk ≠ top → u = zero) ∧
    ((s.randomizeSpecTop rks top σ).1.length = s.len ∧
      ∀ (j : Nat) (u : U) (rk : Int), (s.randomizeSpecTop rks top σ).1[j]? = some u → rks[j]? = some rk → rk ≠ top → u = zero) ∧
    (s.rankSpecAll σ).1.length = s.len :=
  ⟨changeSpecTop_shape s rks top σ, randomizeSpecTop_shape s rks top σ, rankSpecAll_length s σ⟩

/-- With exact arithmetic `treeSum` is the plain sum and equals the sum over the top-rank sub-states. -/
theorem treeSum_exact (top : Int) (us : List Rat) (rks : List Int) (hlen : us.length = rks.length)
    (hz : ∀ (j : Nat) (u : Rat), us[j]? = some u → rks[j]? ≠ some top → u = 0) :
    treeSum us = us.sum ∧ treeSum us = topTotal top us rks :=
  ⟨treeSum_eq_sum us, by rw [treeSum_eq_sum, sum_eq_topTotal top us rks hlen hz]⟩

/-! ## 5. observations and witnesses (closed terms over `Int` utilities, checked by `decide`) -/

/-- An anonymous head counts as the default utility 1 (N5 repaired): a headless nested region's reported
utility is `Utility{1} × (best sub)`; no decision is consumed for the anonymous head. -/
theorem headless_region_reports_default (id rid inj : Nat) (st : Strategy) (a r q : Option Nat) (m : Bool)
    (s : Subs) (σ : Sig U) :
    (Node.compo id rid inj false st a r q m s).utilizeSpec σ =
      (match argMax (s.utilizeSpecAll σ).1 with
        | some (_, u) => mul one u
        | none => zero,
       (s.utilizeSpecAll σ).2) := by
  rw [utilize_value_compo]; rfl

/-- A world with the given decision and generator streams (no logging). -/
def world (ds : List (Decision Int)) (rng : List Int) : World Int :=
  { cfg := { logging := false, history := false }, ds := ds, rng := rng }

/-- N5 repaired, witness: Utilitarian region `[headless {x}, y]`; `x` answers 1000, `y` answers 1; `utilize`
marks the headless candidate (prong 0): 1 × 1000 > 1.  (Before the repair it marked `y`.) -/
theorem witness_N5_repaired :
    ((Node.compo 0 0 0 true .utilitarian none none none false
        (.cons false (.compo 1 1 0 false .composite none none none false (.cons false (.leaf 2 0) .nil))
        (.cons false (.leaf 3 0) .nil))).request ⟨.utilize, none⟩
      (world [[.retUtil 1000], [.retUtil 1]] [])).1.requested = some 0 := by decide +kernel

/-- N5b repaired (regression witness).  Random region `R {x, headless-random {y, z}}`: `x` answers rank −1,
the anonymous head's rank is `Rank{}` = 0, so the only top-rank candidate is the headless region.  Before the
repair its computed utility was 0 × … = 0 although every `utility()` answer is positive, `resolveRandom`
selected nothing (`INVALID_PRONG`, `HFSM2_BREAK`) and `deepReportChangeRandom` then read `utilities[255]`
(UBSan: "index 255 out of bounds for type 'float [2]'").  Now it is 1 × 2 and prong 1 is selected.
Harness replay of the old failure: shape `(C h1 i0 random (C h1 i0 random (L i0) (C h0 i0 random (L i0) (L i0))) (L i0))`,
`op 0 new` with `cb 2 rank … RR:-1`. -/
theorem witness_headless_random_repaired :
    let r := (Node.compo 1 1 0 true .random none none none false
        (.cons false (.leaf 2 0)
        (.cons false (.compo 3 2 0 false .random none none none false
            (.cons false (.leaf 4 0) (.cons false (.leaf 5 0) .nil))) .nil))).request ⟨.randomize, none⟩
      (world [[.retRank (-1)], [.retRank 0], [.retRank 0], [.retUtil 2], [.retUtil 3]] [0, 0])
    r.1.requested = some 1 ∧ r.2.err = none ∧ r.2.rng = [] := by decide +kernel

/-- O1: `deepReportChange` of a Selectable region is literally that of a Resumable one: it marks the
resumable sub-state (or 0) and consumes no `select()` decision … -/
theorem reportChange_selectable_ignores_select (id rid inj : Nat) (h : Bool) (a r q : Option Nat) (m : Bool)
    (s : Subs) (σ : Sig U) (w : World U) :
    (Node.compo id rid inj h .selectable a r q m s).changeSpec σ =
      (Node.compo id rid inj h .resumable a r q m s).changeSpec σ ∧
    ((Node.compo id rid inj h .selectable a r q m s).reportChange w).1.requested = some (r.getD 0) := by
  refine ⟨rfl, ?_⟩
  simp only [Node.reportChange, Node.requested]

/-- … whereas `deepRequestChange` of the same region asks `select()`. -/
theorem request_selectable_calls_select (h : Bool) (r q : Option Nat) (s : Subs) (σ : Sig U) :
    requestChoice h .selectable r q s .change σ =
      (match (σ.headSel h).1 with
       | some i => if i < s.len then some i else q
       | none => q) := rfl

/-- The requested prong of the composite region at a path. -/
def requestedAt (n : Node) (p : List Nat) : Option (Option Nat) := (n.follow p).map Node.requested

/-- O2 witness: Utilitarian `[X {a b}, Y {c d}]`, `change`: the winner is `X` (5 > 3), and the LOSER `Y`
keeps the mark `requested = 0` its report wrote. -/
theorem witness_losers_keep_marks :
    let r := (Node.compo 0 0 0 true .utilitarian none none none false
        (.cons false (.compo 1 1 0 true .composite none none none false
            (.cons false (.leaf 2 0) (.cons false (.leaf 3 0) .nil)))
        (.cons false (.compo 4 2 0 true .composite none none none false
            (.cons false (.leaf 5 0) (.cons false (.leaf 6 0) .nil))) .nil))).request ⟨.change, none⟩
      (world [[.retUtil 1], [.retUtil 5], [.retUtil 1], [.retUtil 3]] [])
    r.1.requested = some 0 ∧ requestedAt r.1 [0] = some (some 0) ∧ requestedAt r.1 [1] = some (some 0) ∧
    r.2.err = none := by decide +kernel

/-- The machine of `witness_stale_mark_used`, activated: root `{A, U⟨utilitarian⟩{S⟨selectable⟩{S0 S1}, L}}`,
`A` active.  State ids: root 0, A 1, U 2, S 3, S0 4, S1 5, L 6. -/
def staleTree : Node :=
  .compo 0 0 0 true .composite (some 0) none none false
    (.cons false (.leaf 1 0)
    (.cons false (.compo 2 1 0 true .utilitarian none none none false
      (.cons false (.compo 3 2 0 true .selectable none none none false
        (.cons false (.leaf 4 0) (.cons false (.leaf 5 0) .nil)))
      (.cons false (.leaf 6 0) .nil))) .nil))

/-- `applyRequest` of `changeTo(dest)` at path `p`. -/
def applyChange (n : Node) (p : List Nat) (w : World Int) : Node × World Int :=
  (n.mark p).1.fwdActive ⟨.change, none⟩ w

/-- O2 is not harmless.  Batch `[changeTo U, changeTo S]`: the first request lets `S` report
(`S.utility`, `S0.utility`, `L.utility`; `S` marked `requested = 0` without `select()`); the second
request, aimed at `S` itself, FOLLOWS that stale mark: the decision `select() = 1` is still unconsumed
and `S0` will be entered.  A lone `changeTo S` consumes it and marks `S1`.
Harness replay (shape `(C h1 i0 composite (L i0) (C h1 i0 utilitarian (C h1 i0 selectable (L i0) (L i0)) (L i0)))`):
`op 0 new`, `op 0 req C 2 -`, `op 0 req C 3 -`, `op 0 update`  — no `cb 3 select` line, `enter 4`;
versus `op 0 new`, `op 0 req C 3 -`, `op 0 update` — `cb 3 select … RS:1`, `enter 5`.
Confirmed on the real library (probe, 2026-09-26). -/
theorem witness_stale_mark_used :
    let w0 := world [[.retUtil 1], [.retUtil 5], [.retUtil 1], [.retSelect 1]] []
    let r1 := applyChange staleTree [1] w0
    let r2 := applyChange r1.1 [1, 0] r1.2
    let alone := applyChange staleTree [1, 0] (world [[.retSelect 1]] [])
    requestedAt r2.1 [1, 0] = some (some 0) ∧ r2.2.ds.length = 1 ∧ r2.2.err = none ∧
    requestedAt alone.1 [1, 0] = some (some 1) ∧ alone.2.ds.length = 0 ∧ alone.2.err = none := by decide +kernel

/-- Out of contract: with no positive top-rank utility `resolveRandom` selects nothing (the C++ hits
`HFSM2_BREAK()` and returns `INVALID_PRONG`); the number is consumed all the same. -/
theorem witness_all_zero_selects_nothing :
    let r := (world [] [0]).resolveRandom 0 [0, 0] 0 [0, 0] 0
    r.2 = none ∧ r.1.rng = [] ∧ r.1.err = some "resolveRandom selected nothing" := by decide +kernel

/-- Rank ties and lower ranks: utilities `[4, 9, 6]`, ranks `[1, 0, 1]` (sub-state 1 has the largest
utility but a lower rank: it reports 0), cursor `rnd * sum` with `sum = 10`: `rnd = 0` picks prong 0,
a cursor of 4 (boundary, half-open intervals) picks prong 2. -/
theorem witness_rank_filter :
    World.resolveRandom.go (1 : Int) ([4, 0, 6] : List Int) [1, 0, 1] 0 0 none = some 0 ∧
    World.resolveRandom.go (1 : Int) ([4, 0, 6] : List Int) [1, 0, 1] 0 3 none = some 0 ∧
    World.resolveRandom.go (1 : Int) ([4, 0, 6] : List Int) [1, 0, 1] 0 4 none = some 2 ∧
    World.resolveRandom.go (1 : Int) ([4, 0, 6] : List Int) [1, 0, 1] 0 9 none = some 2 := by decide

/-
Theorems that constitute property C12 (for `Props/INDEX.json`):

  (i)   argMax_sequential            balanced `treeFold` of the left-biased pick = sequential scan (UtilOrder)
        argMax_leftmost              leftmost index of maximal value (UtilOrder)
        utilize_value_compo / _ortho / _leaf / _subs
                                     computed utility: head × chosen sub; head × chainSum/width; order of consumption
        change_value_composite / _resumable / _ortho      same for `deepReportChange`
        reportUtilize_spec / reportChange_spec / reportRandomize_spec / request_spec
                                     the model traversals compute the pure specs (value, streams, mark)
        request_utilize_leftmost_max `utilize` / Utilitarian `change` marks the leftmost maximum
        enter_activates_requested / commit_activates_requested   the marked sub-state becomes the active one
  (ii)  resolveRandom_never_none     some prong whenever a top-rank utility is positive (no law needed)
        resolveRandom_sound          top rank ∧ positive utility ∧ one number ∧ no violation (UtilNonneg)
        request_randomize_sound      the same end to end for `randomize` / Random `change`
        resolveRandom_one_number     one stream element per call
        request_rng_count / reportChange_rng_count / reportRandomize_rng_count
                                     stream shrinks by the number of Random regions resolved
        reportUtilize_draws_nothing  `utilize` draws none
  (iii) resolveRandom_interval_exact prefix i ≤ rnd·sum < prefix i + u i over `Rat`
        top_utilities_shape / treeSum_exact               the vectors the passes hand to resolveRandom
  (iv)  IEEE laws for Float32: trusted base (header comment)
  observations / witnesses:
        headless_region_reports_default, witness_N5_repaired, witness_headless_random_repaired
                                                                          N5 / N5b (repaired; regression witnesses)
        reportChange_selectable_ignores_select, request_selectable_calls_select    O1
        witness_losers_keep_marks, witness_stale_mark_used                O2 (new finding; replay in the doc comment)
        witness_all_zero_selects_nothing, witness_rank_filter             out-of-contract / ties
-/

end Hfsm.Props.C12
