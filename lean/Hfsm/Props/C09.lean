/-
Property C09 — "History records what was applied; replaying it reproduces the state".

About `Mach.processRequest` (history bookkeeping of `R_::processRequest / processTransitions`),
`Mach.lastTransitionTo`, `Mach.replayTransitions`, `Mach.replayEnter` (root_0.inl, root_1.inl) and
`World.pin` (= `ControlT::pinLastTransition`, root/control_1.inl).  `m.stepLog` is the ghost log of the
substitution loop (requests and outcome of every round, Proofs/Rounds.lean); `approvedOf` concatenates the
request lists of its approved rounds.

  history        history_is_approved_rounds, history_empty_when_nothing_approved, history_empty_on_idle_step,
                 history_fits_capacity (at most `COMPO_COUNT × SUBSTITUTION_LIMIT` entries: the history of a step
                 is never truncated by the step itself)
                 (after the fix of N2/F13 `compoRemains` takes part in `registry != backup`, so a round that only
                 changes restart-in-place bits counts as changed and is recorded: `Node.marksDiffer`)
  lastTransition last_transition_is_null_or_recorded, targets_index_some_round,
                 single_request_last_transition_partial (+ entered_states_are_touched)
                 FALSE in general, three independent witnesses, all reproduced on the real library:
                   foreign_index_witness      index of a later round used on the concatenated history
                   later_round_clears_witness a vetoed later round clears the targets of the approved one
                   utility_unpinned_witness   sub-states chosen by utility / rank are never pinned
  replay         replay_reproduces_single_round_step_partial, replay_consults_no_guard,
                 replay_empty_history (N4: `replayEnter []` answers false), replayTransitions_empty
                 The replica COPIES the replayed list into `previousTransitions` with the bounded
                 `DynamicArrayT::emplace`: only the first `historyCap = COMPO_COUNT × SUBSTITUTION_LIMIT` entries
                 are kept (`List.take`; Props/C11 `replay_beyond_capacity_dropped`), and only those are PINNED: the
                 entries beyond the capacity are applied with `INVALID_SHORT` (`Mach.applyRequestNoPin`, /repo fix
                 6770c20; same request marks — `Mach.applyRequests_root_plain` — so every theorem below stands as it
                 was; Props/C11 `replay_pins_in_range`, `replay_last_transition_is_recorded`).  Every `replay_reproduces_…`
                 theorem therefore concludes `previous = ts.take historyCap`; its `…_fits` corollary restores
                 `previous = ts` when the list fits the replica's capacity — which the history of a step of an
                 authority with the same (or a smaller) capacity always does (`history_fits_capacity`).
  replay, steps of several rounds (end of the file)
                 replay_reproduces_multi_round_step_partial   any number of approved / vetoed / dropped rounds, no
                                                              `schedule` request in a round that is not recorded: the
                                                              replica ends with the authority's whole registry
                 replay_reproduces_multi_round_active         only approved (substituted) rounds: same active set
                 replay_reproduces_multi_round_step_reachable the same between two reachable instances
                 FALSE in general (reproduced on the real library, harness/c09_witness_multiround_replay.cpp):
                   multi_round_replay_witness  a vetoed round's `schedule` survives `registry.restore`; the
                                               approved `resume` of the next round lands elsewhere on the replica
-/
import Hfsm.Proofs.Pins
import Hfsm.Proofs.Witness
import Hfsm.Proofs.Reach
import Hfsm.Proofs.ReplayMulti

set_option linter.unusedSectionVars false

namespace Hfsm.Props.C09
open Hfsm Hfsm.Mach
variable {U : Type} [UtilArith U]

/-! ## `previousTransitions` -/

/-- After a processing step `previousTransitions` is the concatenation, in order, of the request lists of
the rounds that changed the pending configuration and were approved by their guards; a step with an
empty queue clears it. -/
theorem history_is_approved_rounds (m : Mach U) (hh : m.w.cfg.history = true) :
    m.processRequest.w.previous = if m.w.requests.isEmpty then [] else approvedOf m.stepLog :=
  processRequest_previous m hh

example : ∃ m : Mach Nat, m.w.cfg.history = true ∧ m.w.requests.isEmpty = false :=
  ⟨(Witness.start Witness.shapeC).request .change 2 none, by decide +kernel, by decide +kernel⟩

/-- … nothing else: when no round was approved the history is empty. -/
theorem history_empty_when_nothing_approved (m : Mach U) (hh : m.w.cfg.history = true)
    (hnone : ∀ r ∈ m.stepLog, r.2 ≠ .approved) : m.processRequest.w.previous = [] := by
  rw [processRequest_previous m hh]
  split
  · rfl
  · have : ∀ l : List (List Transition × Outcome), (∀ r ∈ l, r.2 ≠ .approved) → approvedOf l = [] := by
      intro l
      induction l with
      | nil => intro _; rfl
      | cons r rest ih =>
        intro h
        obtain ⟨reqs, o⟩ := r
        simp only [approvedOf]
        rw [if_neg (h (reqs, o) List.mem_cons_self), ih (fun r' hr' => h r' (List.mem_cons_of_mem _ hr'))]
        rfl
    exact this _ hnone

/-- A step that finds the queue empty records nothing. -/
theorem history_empty_on_idle_step (m : Mach U) (hh : m.w.cfg.history = true) (he : m.w.requests.isEmpty = true) :
    m.processRequest.w.previous = [] := by
  rw [processRequest_previous m hh, if_pos he]

/-- The history of a step fits `previousTransitions`: with the queue within `COMPO_COUNT` (C11 `bounded_always`)
the approved rounds of one substitution loop carry at most `COMPO_COUNT × SUBSTITUTION_LIMIT` requests. -/
theorem history_fits_capacity (m : Mach U) (hq : m.w.requests.length ≤ m.w.cfg.queueCap) :
    (approvedOf m.stepLog).length ≤ m.w.cfg.historyCap :=
  approvedOf_stepLog_length_le m hq

example : ∃ m : Mach Nat, m.w.requests.length ≤ m.w.cfg.queueCap ∧ approvedOf m.stepLog ≠ [] :=
  ⟨(Witness.start Witness.shapeC).request .change 2 none, by decide +kernel, by decide +kernel⟩

/-! ## `lastTransitionTo` -/

/-- `lastTransitionTo(s)` is null or one of the recorded transitions. -/
theorem last_transition_is_null_or_recorded (m : Mach U) (s : Nat) :
    m.lastTransitionTo s = none ∨ ∃ t ∈ m.w.previous, m.lastTransitionTo s = some t := by
  unfold lastTransitionTo
  split
  · next i _ =>
    cases h : m.w.previous[i]? with
    | none => exact .inl rfl
    | some t => exact .inr ⟨t, List.mem_of_getElem? h, rfl⟩
  · exact .inl rfl

/-- After a step every entry of `transitionTargets` is empty or an index into the request list of one of
the rounds of that step — the round that pinned it last, approved or not. (It is used as an index into
the *concatenated* history: see `foreign_index_witness`.) -/
theorem targets_index_some_round (m : Mach U) (hne : m.w.requests.isEmpty = false)
    (hh : m.w.cfg.history = true) (s : Nat) :
    m.processRequest.w.targets.getD s none = none ∨
    ∃ i, m.processRequest.w.targets.getD s none = some i ∧ ∃ r ∈ m.stepLog, i < r.1.length :=
  processRequest_targets_bound m hne hh s

/-
FULL STATEMENT (false of the code): "after a single approved request `t`, `lastTransitionTo(s) = t` for
every state `s` the step activated".  It fails
  (1) when the step has further rounds: a later *vetoed* round clears all targets, a later *unchanged* or
      *approved* round re-pins with indices of its own queue (`later_round_clears_witness`,
      `foreign_index_witness`);
  (2) when a sub-state is chosen by utility or rank: `deepReportChange/Utilize/Randomize` record the choice in
      `compoRequested` without calling `pinLastTransition` (`utility_unpinned_witness`).
-/

/-- **Partial:** one round, one request `t` (`change / restart / resume` to a state other than the root),
approved; machine without selectable / utilitarian / random regions; history on; tree well numbered
(`IdsBelow`) and without leftover marks.  Then the history is `[t]` and `lastTransitionTo(s) = t` for every
state below the re-targeted fork that was not active before — in particular for every state the commit
pass enters (`entered_states_are_touched`). -/
theorem single_request_last_transition_partial (m : Mach U) (t : Transition) (N : Nat)
    (hlog : m.stepLog = [([t], .approved)]) (hh : m.w.cfg.history = true)
    (hplain : m.root.Plain = true) (hids : m.root.IdsBelow N) (hN : N ≤ m.w.cfg.stateCount)
    (hnm : m.root.NoMarks) (hk : t.kind.plain = true) (hns : t.kind ≠ .schedule) (hd0 : t.dest ≠ 0) :
    m.processRequest.w.previous = [t] ∧
    ∀ id ∈ (m.stepStart.applyAll [t] 0).root.touched, id < m.w.cfg.stateCount → m.root.isActive id = false →
      m.processRequest.lastTransitionTo id = some t :=
  single_request_lastTransition m t N hlog hh hplain hids hN hnm hk hns hd0

/-- every state the commit pass enters or re-enters is `touched` -/
theorem entered_states_are_touched (n : Node) :
    ∀ p ∈ n.commitActs, (p.2 = .enter ∨ p.2 = .reenter) → p.1 ∈ n.touched :=
  Node.commit_enters_touched n

namespace W
open Hfsm.Witness
/-- `C(0)[1 2 3]`, state 1 active, `changeTo(2)` queued, idle guards -/
def one : Mach Nat := (fresh (start shapeC) (idle 20)).request .change 2 none
/-- the same, but the entry guard of 2 (second guard callback) substitutes `changeTo(3)` -/
def subst : Mach Nat := (fresh (start shapeC) ([] :: [.request .change 3 none] :: idle 20)).request .change 2 none
/-- … and the first guard of the second round cancels -/
def substVeto : Mach Nat :=
  (fresh (start shapeC) ([] :: [.request .change 3 none] :: [.cancel] :: idle 20)).request .change 2 none
/-- `C(0)[1 U(2)[3 4]]`, `changeTo(2)`: the utilitarian region picks 4 (utilities 1 and 2) -/
def util : Mach Nat := (fresh (start shapeU) ([.retUtil 1] :: [.retUtil 2] :: idle 20)).request .change 2 none
end W

/-- the hypotheses of the partial theorem hold of `W.one`, and its conclusion is not vacuous -/
example : W.one.stepLog = [([⟨none, 2, .change, none⟩], .approved)] ∧ W.one.w.cfg.history = true ∧
    W.one.root.Plain = true ∧ 4 ≤ W.one.w.cfg.stateCount ∧
    (W.one.stepStart.applyAll [⟨none, 2, .change, none⟩] 0).root.touched = [2] ∧
    W.one.processRequest.lastTransitionTo 2 = some ⟨none, 2, .change, none⟩ := by decide +kernel

example : W.one.root.IdsBelow 4 ∧ W.one.root.NoMarks := by
  have : W.one.root = .compo 0 0 0 true .composite (some 0) none none false
      (.cons false (.leaf 1 0) (.cons false (.leaf 2 0) (.cons false (.leaf 3 0) .nil))) :=
    Node.eq_of_beqW _ _ (by decide +kernel)
  rw [this]
  simp [Node.IdsBelow, Subs.IdsBelowAll, Node.NoMarks, Subs.NoMarksAll]

/-- **Witness 1 — round-local index on the concatenated history.** Round 1 `[changeTo 2]` approved; the entry
guard of 2 substitutes `changeTo 3`; round 2 `[2→3]` approved and pins state 3 with its own index 0.  The
history is `[→2, 2→3]`, state 3 is the one activated, and `lastTransitionTo(3)` answers `→2`. -/
theorem foreign_index_witness :
    W.subst.stepLog = [([⟨none, 2, .change, none⟩], .approved), ([⟨some 2, 3, .change, none⟩], .approved)] ∧
    W.subst.processRequest.w.previous = [⟨none, 2, .change, none⟩, ⟨some 2, 3, .change, none⟩] ∧
    W.subst.root.isActive 3 = false ∧ W.subst.processRequest.root.isActive 3 = true ∧
    W.subst.processRequest.lastTransitionTo 3 = some ⟨none, 2, .change, none⟩ := by decide +kernel

/-- **Witness 2 — a later vetoed round clears the targets.** As above, but a guard of round 2 cancels: the
step approves the single request `changeTo 2`, activates state 2, and `lastTransitionTo(2)` is null. -/
theorem later_round_clears_witness :
    W.substVeto.stepLog = [([⟨none, 2, .change, none⟩], .approved), ([⟨some 2, 3, .change, none⟩], .vetoed)] ∧
    W.substVeto.processRequest.w.previous = [⟨none, 2, .change, none⟩] ∧
    W.substVeto.root.isActive 2 = false ∧ W.substVeto.processRequest.root.isActive 2 = true ∧
    W.substVeto.processRequest.lastTransitionTo 2 = none := by decide +kernel

/-- **Witness 3 — sub-states chosen by utility are never pinned.** One round, one approved request
`changeTo 2` into a utilitarian region; states 2 and 4 are activated; `lastTransitionTo(2)` is the request,
`lastTransitionTo(4)` is null. -/
theorem utility_unpinned_witness :
    W.util.stepLog = [([⟨none, 2, .change, none⟩], .approved)] ∧
    W.util.root.isActive 4 = false ∧ W.util.processRequest.root.isActive 4 = true ∧
    W.util.processRequest.lastTransitionTo 2 = some ⟨none, 2, .change, none⟩ ∧
    W.util.processRequest.lastTransitionTo 4 = none ∧ W.util.processRequest.w.err = none := by decide +kernel

/-! ## replay -/

/-- **Replay reproduces a single-round step (partial).** Authority `a` processes its queue `ts` in one approved
round; a replica `r` holding the same tree replays `ts`: it answers `true` and ends with exactly the
authority's tree (active configuration *and* resumable marks) and with `previousTransitions` = the first
`historyCap` entries of `ts` (all of `ts` when it fits: `…_fits`).
Hypotheses: `Plain` machine (the apply phase asks no callback and draws no random number, so both sides
resolve alike without further assumptions), destinations in range, kinds `change / restart / resume /
schedule`.  For steps with several rounds the statement is false already because vetoed rounds'
`schedule` requests and unchanged rounds are applied but not recorded. -/
theorem replay_reproduces_single_round_step_partial (a r : Mach U) (ts : List Transition)
    (hlog : a.stepLog = [(ts, .approved)]) (hroot : r.root = a.root)
    (hcfg : r.w.cfg.stateCount = a.w.cfg.stateCount) (hplain : a.root.Plain = true)
    (hk : ∀ t ∈ ts, t.kind.plain = true) (hd : ∀ t ∈ ts, t.dest < a.w.cfg.stateCount) :
    (r.replayTransitions ts).2 = true ∧ (r.replayTransitions ts).1.root = a.processRequest.root ∧
    (r.replayTransitions ts).1.w.previous = ts.take r.w.cfg.historyCap :=
  replay_reproduces_single_round_step a r ts hlog hroot hcfg hplain hk hd

/-- … and when the replayed list fits the replica's `previousTransitions` it is stored whole. -/
theorem replay_reproduces_single_round_step_partial_fits (a r : Mach U) (ts : List Transition)
    (hlog : a.stepLog = [(ts, .approved)]) (hroot : r.root = a.root)
    (hcfg : r.w.cfg.stateCount = a.w.cfg.stateCount) (hplain : a.root.Plain = true)
    (hk : ∀ t ∈ ts, t.kind.plain = true) (hd : ∀ t ∈ ts, t.dest < a.w.cfg.stateCount)
    (hfit : ts.length ≤ r.w.cfg.historyCap) :
    (r.replayTransitions ts).2 = true ∧ (r.replayTransitions ts).1.root = a.processRequest.root ∧
    (r.replayTransitions ts).1.w.previous = ts := by
  obtain ⟨h1, h2, h3⟩ := replay_reproduces_single_round_step_partial a r ts hlog hroot hcfg hplain hk hd
  exact ⟨h1, h2, h3.trans (List.take_of_length_le hfit)⟩

/-- the hypotheses are satisfiable: authority `W.one`, replica a second instance in the same state -/
example : W.one.stepLog = [([⟨none, 2, .change, none⟩], .approved)] ∧
    (Witness.fresh (Witness.start Witness.shapeC) (Witness.idle 20)).root = W.one.root ∧ W.one.root.Plain = true ∧
    ((Witness.fresh (Witness.start Witness.shapeC) (Witness.idle 20)).replayTransitions [⟨none, 2, .change, none⟩]).1.root.isActive 2 = true ∧
    [(⟨none, 2, .change, none⟩ : Transition)].length ≤
      (Witness.fresh (Witness.start Witness.shapeC) (Witness.idle 20)).w.cfg.historyCap :=
  ⟨by decide +kernel, Node.eq_of_beqW _ _ (by decide +kernel), by decide +kernel, by decide +kernel, by decide +kernel⟩

/-- Replay consults no guard: the events of `replayTransitions` are forward-pass callbacks
(`select / rank / utility`) and lifecycle callbacks only. -/
theorem replay_consults_no_guard (m : Mach U) (ts : List Transition) :
    ∃ evs, (m.replayTransitions ts).1.w.trace = evs ++ m.w.trace ∧ ∀ e ∈ evs, NoGuardEv e :=
  replay_trace m ts

/-- N4: the history of a plain first activation is empty, and `replayEnter` with an empty history answers
`false` and leaves the replica inactive (only `transitionTargets` is cleared). -/
theorem replay_empty_history (m : Mach U) : m.replayEnter [] = ({ m with w := m.w.clearTargets }, false) :=
  replayEnter_nil m

theorem replayTransitions_empty (m : Mach U) :
    m.replayTransitions [] = ({ m with w := { m.w.clearTargets with previous := [] } }, false) :=
  replayTransitions_nil m

/-
Theorems that constitute property C09 (for `Props/INDEX.json`):

    history_is_approved_rounds, history_empty_when_nothing_approved, history_empty_on_idle_step
    last_transition_is_null_or_recorded, targets_index_some_round
    single_request_last_transition_partial, entered_states_are_touched
    foreign_index_witness, later_round_clears_witness, utility_unpinned_witness      (full statement false)
    history_fits_capacity
    replay_reproduces_single_round_step_partial, replay_reproduces_single_round_step_partial_fits,
    replay_consults_no_guard, replay_empty_history (N4), replayTransitions_empty
-/

end Hfsm.Props.C09

/-! ## end-to-end (composition with C01)

`m.atProcess o = some m'` (Proofs/Reach.lean): the API call `o` (`update`, `react`, an immediate transition) on
`m` hands `m'` to `processRequest` (`Api.step m o = m'.processRequest`, `m'.root = m.root`).  For REACHABLE
instances (`ReachableOf shape cfg m`: `Mach.create shape cfg` followed by any history of API calls) the
configuration switches are those of the construction, the numbering hypothesis `IdsBelow` of the partial theorem
follows from C01's invariant, and `NoMarks` holds on the histories `QuietOf` describes: every reachable history except one with a
`replayEnter` of a non-empty history that answered `false` (GAP 2 of Proofs/Reach.lean; `load` and
`replayTransitions` are covered by Proofs/LoadMarks.lean). -/
namespace Hfsm.Props.C09
open Hfsm Hfsm.Mach
variable {U : Type} [UtilArith U] {shape : Shape} {cfg : Config} {m m' : Mach U} {o : Api.Op}

/-- After `update()`, `react()` or an immediate transition on a reachable instance constructed with the history
feature, `previousTransitions` is exactly the concatenation of the request lists of the approved rounds of that
call (empty when the call found the queue empty). -/
theorem history_is_approved_rounds_reachable (h : ReachableOf shape cfg m) (hh : cfg.history = true)
    (hp : m.atProcess o = some m') :
    (Api.step m o).w.previous = if m'.w.requests.isEmpty then [] else approvedOf m'.stepLog := by
  rw [Mach.atProcess_step hp]
  exact history_is_approved_rounds m' (by rw [Mach.atProcess_cfg hp, h.cfg_history]; exact hh)

/-- … nothing else: when no round of the call was approved the history is empty. -/
theorem history_empty_when_nothing_approved_reachable (h : ReachableOf shape cfg m) (hh : cfg.history = true)
    (hp : m.atProcess o = some m') (hnone : ∀ r ∈ m'.stepLog, r.2 ≠ .approved) :
    (Api.step m o).w.previous = [] := by
  rw [Mach.atProcess_step hp]
  exact history_empty_when_nothing_approved m' (by rw [Mach.atProcess_cfg hp, h.cfg_history]; exact hh) hnone

/-- **`lastTransitionTo` after a single approved immediate transition** on a quiet reachable instance: the
hypotheses `IdsBelow`, `N ≤ stateCount`, `NoMarks`, `history` of the partial theorem are discharged; what is left
is what makes the statement true at all (one round, plain machine, plain kind, destination not the root). -/
theorem single_request_last_transition_reachable (hq : QuietOf shape cfg m) (he : m.w.err = none)
    (hh : cfg.history = true) (k : Kind) (d : Nat) (p : Option Nat)
    (hlog : (m.request k d p).stepLog = [([⟨none, d, k, p⟩], .approved)])
    (hplain : m.root.Plain = true) (hk : k.plain = true) (hns : k ≠ .schedule) (hd0 : d ≠ 0) :
    (m.immediate k d p).w.previous = [⟨none, d, k, p⟩] ∧
    ∀ id ∈ ((m.request k d p).stepStart.applyAll [⟨none, d, k, p⟩] 0).root.touched, id < shape.stateCount →
      m.root.isActive id = false → (m.immediate k d p).lastTransitionTo id = some ⟨none, d, k, p⟩ := by
  have h := hq.reachable
  have hp : m.atProcess (.immediate k d p) = some (m.request k d p) := rfl
  have hc : (m.request k d p).w.cfg = m.w.cfg := Mach.atProcess_cfg hp
  have := single_request_last_transition_partial (m.request k d p) ⟨none, d, k, p⟩ m.w.cfg.stateCount hlog
    (by rw [hc, h.cfg_history]; exact hh) hplain (h.idsBelow he) (by rw [hc]; exact Nat.le_refl _)
    (hq.noMarks he) hk hns hd0
  rw [hc, h.stateCount] at this
  exact this

/-- **Replay between two reachable instances of the same machine.**  The authority `a` processes a call in one
approved round with requests `ts`; a replica `r` of the same `shape` (any configuration, any history) holding the
same registry replays `ts`: it answers `true` and ends with the authority's registry, keeping the first
`cfgR.historyCap` entries of `ts` as its `previousTransitions`.  (`hcfg` of the partial theorem is discharged: both
have `shape.stateCount` states.) -/
theorem replay_reproduces_single_round_step_reachable {cfgA cfgR : Config} {a a' r : Mach U} {ts : List Transition}
    (ha : ReachableOf shape cfgA a) (hr : ReachableOf shape cfgR r) (hp : a.atProcess o = some a')
    (hlog : a'.stepLog = [(ts, .approved)]) (hroot : r.root = a.root) (hplain : a.root.Plain = true)
    (hk : ∀ t ∈ ts, t.kind.plain = true) (hd : ∀ t ∈ ts, t.dest < shape.stateCount) :
    (r.replayTransitions ts).2 = true ∧ (r.replayTransitions ts).1.root = (Api.step a o).root ∧
    (r.replayTransitions ts).1.w.previous = ts.take cfgR.historyCap := by
  have hc : a'.w.cfg = a.w.cfg := Mach.atProcess_cfg hp
  have hra : a'.root = a.root := Mach.atProcess_root hp
  rw [Mach.atProcess_step hp, ← hr.cfg_historyCap]
  exact replay_reproduces_single_round_step_partial a' r ts hlog (hroot.trans hra.symm)
    (by rw [hc, ha.stateCount, hr.stateCount]) (by rw [hra]; exact hplain) hk
    (by rw [hc, ha.stateCount]; exact hd)

/-- … and a replica whose history capacity is not smaller than the authority's stores `ts` whole: the requests of
one call of a reachable authority always fit its own capacity (`history_fits_capacity`, C11). -/
theorem replay_reproduces_single_round_step_reachable_fits {cfgA cfgR : Config} {a a' r : Mach U} {ts : List Transition}
    (ha : ReachableOf shape cfgA a) (hr : ReachableOf shape cfgR r) (hp : a.atProcess o = some a')
    (hlog : a'.stepLog = [(ts, .approved)]) (hroot : r.root = a.root) (hplain : a.root.Plain = true)
    (hk : ∀ t ∈ ts, t.kind.plain = true) (hd : ∀ t ∈ ts, t.dest < shape.stateCount)
    (hcap : cfgA.historyCap ≤ cfgR.historyCap) :
    (r.replayTransitions ts).2 = true ∧ (r.replayTransitions ts).1.root = (Api.step a o).root ∧
    (r.replayTransitions ts).1.w.previous = ts := by
  obtain ⟨h1, h2, h3⟩ := replay_reproduces_single_round_step_reachable ha hr hp hlog hroot hplain hk hd
  refine ⟨h1, h2, h3.trans (List.take_of_length_le (Nat.le_trans ?_ hcap))⟩
  have hfit := history_fits_capacity a' (Mach.atProcess_bounded hp ha.bounded).1
  rw [hlog, Mach.atProcess_cfg hp, ha.cfg_historyCap] at hfit
  simpa [approvedOf] using hfit

/-- `hcap` holds e.g. between two instances of the same machine type -/
example : Demo.cfg.historyCap ≤ Demo.cfg.historyCap ∧ Demo.cfg.historyCap = 4 := ⟨Nat.le_refl _, by decide⟩

/-- a concrete non-trivial reachable instance exists; it is quiet, and its last call recorded a history -/
example : Reachable (Api.run Demo.mach Demo.prog) := Demo.reachable.reachable
example : ∃ m : Mach Demo.DU, QuietOf Demo.shape Demo.cfg m ∧ m.w.err = none ∧ Demo.cfg.history = true ∧
    m.root.Plain = true ∧ m.w.previous = [⟨none, 1, .change, none⟩] :=
  ⟨_, Demo.quiet, Demo.err_none, by decide, by decide +kernel, by decide +kernel⟩

end Hfsm.Props.C09

/-! ## replay of a step with several rounds

QUESTION.  After a step with substituted rounds (round 1 `ts1` approved, a guard issued `ts2`, round 2 approved, …)
`previousTransitions = ts1 ++ ts2`, and `replayTransitions` applies it as ONE batch.  In a batch an earlier
conflicting request can win (N1, KF-C02-batch-earlier-wins) — does the replica end elsewhere than the authority?

ANSWER.  No.  `R_::processTransitions` does not commit between rounds: an approved round only moves the backup
(`registry.backup`), its request marks stay in the registry, round 2 is applied on top of them, and the single
commit pass (`deepChangeToRequested`) runs after the loop.  The authority therefore makes exactly the
`applyRequest` calls of the batch, in the same order, on the same registry (N1 acts in the two rounds as it does
in the batch); the queue indices differ, but they only feed `pinLastTransition`; the guard passes in between never
write the registry.  A vetoed round is undone by `registry.restore`, a round that left the marks unchanged did
nothing — EXCEPT for `schedule` requests, which write `compoResumable`, are neither compared by
`registry != backup` nor restored, and are not recorded.  That exception is the only way a multi-round step
escapes replay on a plain machine (`multi_round_replay_witness`).

FULL STATEMENT (false of the code):
    ∀ a r, r.root = a.root → a.root.NoMarks → approvedOf a.stepLog ≠ [] →
      ∀ id, (r.replayTransitions a.processRequest.w.previous).1.root.isActive id = a.processRequest.root.isActive id
-/
namespace Hfsm.Props.C09
open Hfsm Hfsm.Mach
variable {U : Type} [UtilArith U]

/-- **Replay reproduces a step of any number of rounds (partial).**  The authority `a` (no request marks pending)
runs its substitution loop, log `a.stepLog`; something was approved, so `previousTransitions = approvedOf
a.stepLog` (`history_is_approved_rounds`).  A replica `r` holding the same registry replays that list: it answers
`true` and ends with exactly the authority's registry — the same ACTIVE configuration and the same RESUMABLE
sub-states — and with the first `historyCap` entries of it as `previousTransitions` (all of it when the replica's
capacity is not smaller than the authority's: `…_fits`).  Hypotheses: `Plain` machine (no `select` / utility /
random region: the apply phase asks nothing); every record of the log is `RoundOK`: the requests of an approved
round have kinds `change / restart / resume / schedule` and name states of the machine, a round that is NOT
recorded (vetoed, or dropped because it left the marks unchanged) carries no `schedule` request. -/
theorem replay_reproduces_multi_round_step_partial (a r : Mach U) (hroot : r.root = a.root)
    (hcfg : r.w.cfg.stateCount = a.w.cfg.stateCount) (hplain : a.root.Plain = true) (hnm : a.root.NoMarks)
    (hlog : ∀ rd ∈ a.stepLog, RoundOK a.w.cfg.stateCount rd) (happ : approvedOf a.stepLog ≠ []) :
    (r.replayTransitions (approvedOf a.stepLog)).2 = true ∧
    (r.replayTransitions (approvedOf a.stepLog)).1.root = a.processRequest.root ∧
    (r.replayTransitions (approvedOf a.stepLog)).1.w.previous =
      (approvedOf a.stepLog).take r.w.cfg.historyCap :=
  replay_reproduces_multi_round_step a r hroot hcfg hplain hnm hlog happ

/-- … and the replica ends with the authority's `previousTransitions` when its capacity is not smaller than the
authority's: the history of a step of an authority whose queue is within `COMPO_COUNT` fits that capacity
(`history_fits_capacity`). -/
theorem replay_reproduces_multi_round_step_partial_fits (a r : Mach U) (hroot : r.root = a.root)
    (hcfg : r.w.cfg.stateCount = a.w.cfg.stateCount) (hplain : a.root.Plain = true) (hnm : a.root.NoMarks)
    (hlog : ∀ rd ∈ a.stepLog, RoundOK a.w.cfg.stateCount rd) (happ : approvedOf a.stepLog ≠ [])
    (hq : a.w.requests.length ≤ a.w.cfg.queueCap) (hcap : a.w.cfg.historyCap ≤ r.w.cfg.historyCap) :
    (r.replayTransitions (approvedOf a.stepLog)).2 = true ∧
    (r.replayTransitions (approvedOf a.stepLog)).1.root = a.processRequest.root ∧
    (r.replayTransitions (approvedOf a.stepLog)).1.w.previous = approvedOf a.stepLog := by
  obtain ⟨h1, h2, h3⟩ := replay_reproduces_multi_round_step_partial a r hroot hcfg hplain hnm hlog happ
  exact ⟨h1, h2, h3.trans (List.take_of_length_le (Nat.le_trans (history_fits_capacity a hq) hcap))⟩

/-- **Substituted rounds.**  All rounds of the step were approved (round `k+1` consists of the requests the guards
of round `k` issued): the replica that replays the concatenated history has, state by state, the authority's
active configuration (`Node.isActive`), and the authority's resumable sub-states (`Node.isResumable`). -/
theorem replay_reproduces_multi_round_active (a r : Mach U) (hroot : r.root = a.root)
    (hcfg : r.w.cfg.stateCount = a.w.cfg.stateCount) (hplain : a.root.Plain = true) (hnm : a.root.NoMarks)
    (hall : ∀ rd ∈ a.stepLog, rd.2 = .approved ∧ ∀ t ∈ rd.1, t.kind.plain = true ∧ t.dest < a.w.cfg.stateCount)
    (hne : a.stepLog ≠ []) :
    (r.replayTransitions (approvedOf a.stepLog)).2 = true ∧
    ∀ id, (r.replayTransitions (approvedOf a.stepLog)).1.root.isActive id = a.processRequest.root.isActive id ∧
      (r.replayTransitions (approvedOf a.stepLog)).1.root.isResumable id = a.processRequest.root.isResumable id := by
  have happ : approvedOf a.stepLog ≠ [] := by
    -- the first round is approved and its queue is not empty
    unfold stepLog at hne hall ⊢
    generalize a.stepStart.w.cfg.substitutionLimit = fuel at hne hall ⊢
    cases fuel with
    | zero => simp only [roundsLog] at hne; exact absurd rfl hne
    | succ k =>
      simp only [roundsLog] at hne hall ⊢
      split at hne
      · exact absurd rfl hne
      · next he =>
        rw [if_neg he] at hall ⊢
        have h1 := (hall _ List.mem_cons_self).1
        dsimp only at h1
        simp only [approvedOf, h1, if_true]
        intro h
        have : a.stepStart.w.requests = [] := (List.append_eq_nil_iff.mp h).1
        rw [this] at he; exact he rfl
  obtain ⟨h1, h2, _⟩ := replay_reproduces_multi_round_step_partial a r hroot hcfg hplain hnm
    (fun rd h => ⟨fun _ => (hall rd h).2, fun hn => absurd (hall rd h).1 hn⟩) happ
  exact ⟨h1, fun id => by rw [h2]; exact ⟨rfl, rfl⟩⟩

namespace W
open Hfsm.Witness
/-- `C(0)[1 C(2)[3 4]]` -/
def shapeCC : Shape :=
  .compo true 0 .composite (.cons (.leaf 0) (.cons (.compo true 0 .composite (.cons (.leaf 0) (.cons (.leaf 0) .nil))) .nil))
/-- state 1 active, nothing resumable; `schedule(4)` and `changeTo(2)` queued; the exit guard of 1 (first guard
callback of the step) substitutes `resume(2)` and cancels the pending transitions -/
def sched : Mach Nat :=
  ((fresh (start shapeCC) ([.request .resume 2 none, .cancel] :: idle 20)).request .schedule 4 none).request .change 2 none
/-- a second instance in the same state -/
def schedReplica : Mach Nat := fresh (start shapeCC) (idle 20)
end W

/-- the hypotheses of the partial theorem hold of `W.subst` (two approved rounds, `[→2]` then `[2→3]`) with a
second instance as replica, and the conclusion is not vacuous: the replica ends in state 3 -/
example :
    let r : Mach Nat := Witness.fresh (Witness.start Witness.shapeC) (Witness.idle 20)
    W.subst.stepLog = [([⟨none, 2, .change, none⟩], .approved), ([⟨some 2, 3, .change, none⟩], .approved)] ∧
    (r.replayTransitions (approvedOf W.subst.stepLog)).2 = true ∧
    (r.replayTransitions (approvedOf W.subst.stepLog)).1.root = W.subst.processRequest.root ∧
    W.subst.processRequest.root.isActive 3 = true := by
  intro r
  have hroot : r.root = W.subst.root := Node.eq_of_beqW _ _ (by decide +kernel)
  obtain ⟨h1, h2, _⟩ := replay_reproduces_multi_round_step_partial W.subst r hroot (by decide +kernel)
    (by decide +kernel) (Node.noMarks_of_hasMark _ (by decide +kernel)) (by decide +kernel) (by decide +kernel)
  exact ⟨by decide +kernel, h1, h2, by decide +kernel⟩

/-- … and, the capacities being equal (`4 × 4`) and the queue within bounds, the replica of `W.subst` ends with the
whole history `[→2, 2→3]` as its `previousTransitions` -/
example :
    let r : Mach Nat := Witness.fresh (Witness.start Witness.shapeC) (Witness.idle 20)
    W.subst.w.cfg.historyCap = 16 ∧ r.w.cfg.historyCap = 16 ∧
    (r.replayTransitions (approvedOf W.subst.stepLog)).1.w.previous =
      [⟨none, 2, .change, none⟩, ⟨some 2, 3, .change, none⟩] := by
  intro r
  have hroot : r.root = W.subst.root := Node.eq_of_beqW _ _ (by decide +kernel)
  obtain ⟨_, _, h3⟩ := replay_reproduces_multi_round_step_partial_fits W.subst r hroot (by decide +kernel)
    (by decide +kernel) (Node.noMarks_of_hasMark _ (by decide +kernel)) (by decide +kernel) (by decide +kernel)
    (by decide +kernel) (by decide +kernel)
  exact ⟨by decide +kernel, by decide +kernel, h3.trans (by decide +kernel)⟩

/-- … and of `W.substVeto` (round 1 approved, round 2 vetoed, no `schedule`): the vetoed round leaves no trace -/
example :
    let r : Mach Nat := Witness.fresh (Witness.start Witness.shapeC) (Witness.idle 20)
    W.substVeto.stepLog = [([⟨none, 2, .change, none⟩], .approved), ([⟨some 2, 3, .change, none⟩], .vetoed)] ∧
    (r.replayTransitions [⟨none, 2, .change, none⟩]).1.root = W.substVeto.processRequest.root := by
  intro r
  have hroot : r.root = W.substVeto.root := Node.eq_of_beqW _ _ (by decide +kernel)
  obtain ⟨_, h2, _⟩ := replay_reproduces_multi_round_step_partial W.substVeto r hroot (by decide +kernel)
    (by decide +kernel) (Node.noMarks_of_hasMark _ (by decide +kernel)) (by decide +kernel) (by decide +kernel)
  have hp : approvedOf W.substVeto.stepLog = [⟨none, 2, .change, none⟩] := by decide +kernel
  rw [hp] at h2
  exact ⟨by decide +kernel, h2⟩

/-- **Witness — a `schedule` request of a vetoed round is applied, kept and not recorded.**  `C(0)[1 C(2)[3 4]]`,
state 1 active, nothing resumable, on authority and replica alike.  Queue `[schedule 4, changeTo 2]`.  Round 1 is
applied (`compoResumable(2) := 4`), the exit guard of 1 substitutes `resume 2` and cancels: vetoed, the request
marks are restored, the resumable mark is not.  Round 2 `[1: resume 2]` is approved and resumes 4.  The history is
`[1: resume 2]`; the replica replays it (answer `true`, no contract violation on either side) and enters 3:
authority active `{0, 2, 4}`, replica active `{0, 2, 3}`.  Every hypothesis of the partial theorem holds except
`RoundOK` of the vetoed round. -/
theorem multi_round_replay_witness :
    W.schedReplica.root.beqW W.sched.root = true ∧ W.sched.root.Plain = true ∧ W.sched.root.hasMark = false ∧
    W.sched.stepLog = [([⟨none, 4, .schedule, none⟩, ⟨none, 2, .change, none⟩], .vetoed),
                       ([⟨some 1, 2, .resume, none⟩], .approved)] ∧
    W.sched.processRequest.w.previous = [⟨some 1, 2, .resume, none⟩] ∧
    (W.schedReplica.replayTransitions W.sched.processRequest.w.previous).2 = true ∧
    (List.range 5).map W.sched.processRequest.root.isActive = [true, false, true, false, true] ∧
    (List.range 5).map (W.schedReplica.replayTransitions W.sched.processRequest.w.previous).1.root.isActive =
      [true, false, true, true, false] ∧
    W.sched.processRequest.w.err = none ∧
    (W.schedReplica.replayTransitions W.sched.processRequest.w.previous).1.w.err = none := by decide +kernel

/-- the full statement fails on the witness: same registry before, different active configuration after -/
theorem multi_round_replay_full_statement_false :
    ¬ ∀ (a r : Mach Nat), r.root = a.root → a.root.NoMarks → approvedOf a.stepLog ≠ [] →
      ∀ id, (r.replayTransitions a.processRequest.w.previous).1.root.isActive id = a.processRequest.root.isActive id := by
  intro h
  have := h W.sched W.schedReplica (Node.eq_of_beqW _ _ (by decide +kernel))
    (Node.noMarks_of_hasMark _ (by decide +kernel)) (by decide +kernel) 3
  revert this
  decide +kernel

end Hfsm.Props.C09

/-! ### end-to-end -/
namespace Hfsm.Props.C09
open Hfsm Hfsm.Mach
variable {U : Type} [UtilArith U] {shape : Shape} {o : Api.Op}

/-- **Replay of a multi-round step between two reachable instances of the same machine.**  The authority `a` is
quiet (`QuietOf`: no `replayEnter` of a non-empty history answering `false` since the marks were last washed) and met no contract violation;
its call `o` hands `a'` to `processRequest`; the replica `r` of the same `shape` holds the same registry.  `IdsBelow`,
`NoMarks` and the state counts are discharged; what is left is what makes the statement true: plain machine, every
round `RoundOK`, something approved. -/
theorem replay_reproduces_multi_round_step_reachable {cfgA cfgR : Config} {a a' r : Mach U}
    (hq : QuietOf shape cfgA a) (he : a.w.err = none) (hr : ReachableOf shape cfgR r) (hp : a.atProcess o = some a')
    (hroot : r.root = a.root) (hplain : a.root.Plain = true)
    (hlog : ∀ rd ∈ a'.stepLog, RoundOK shape.stateCount rd) (happ : approvedOf a'.stepLog ≠ []) :
    (r.replayTransitions (approvedOf a'.stepLog)).2 = true ∧
    (r.replayTransitions (approvedOf a'.stepLog)).1.root = (Api.step a o).root ∧
    (r.replayTransitions (approvedOf a'.stepLog)).1.w.previous = (approvedOf a'.stepLog).take cfgR.historyCap := by
  have ha := hq.reachable
  have hc : a'.w.cfg = a.w.cfg := Mach.atProcess_cfg hp
  have hra : a'.root = a.root := Mach.atProcess_root hp
  rw [Mach.atProcess_step hp, ← hr.cfg_historyCap]
  exact replay_reproduces_multi_round_step_partial a' r (hroot.trans hra.symm)
    (by rw [hc, ha.stateCount, hr.stateCount]) (by rw [hra]; exact hplain) (by rw [hra]; exact hq.noMarks he)
    (by rw [hc, ha.stateCount]; exact hlog) happ

/-- … and a replica whose history capacity is not smaller than the authority's (e.g. a second instance of the same
machine type) ends with the authority's `previousTransitions`: nothing is dropped. -/
theorem replay_reproduces_multi_round_step_reachable_fits {cfgA cfgR : Config} {a a' r : Mach U}
    (hq : QuietOf shape cfgA a) (he : a.w.err = none) (hr : ReachableOf shape cfgR r) (hp : a.atProcess o = some a')
    (hroot : r.root = a.root) (hplain : a.root.Plain = true)
    (hlog : ∀ rd ∈ a'.stepLog, RoundOK shape.stateCount rd) (happ : approvedOf a'.stepLog ≠ [])
    (hcap : cfgA.historyCap ≤ cfgR.historyCap) :
    (r.replayTransitions (approvedOf a'.stepLog)).2 = true ∧
    (r.replayTransitions (approvedOf a'.stepLog)).1.root = (Api.step a o).root ∧
    (r.replayTransitions (approvedOf a'.stepLog)).1.w.previous = approvedOf a'.stepLog := by
  obtain ⟨h1, h2, h3⟩ := replay_reproduces_multi_round_step_reachable hq he hr hp hroot hplain hlog happ
  refine ⟨h1, h2, h3.trans (List.take_of_length_le (Nat.le_trans ?_ hcap))⟩
  have hfit := history_fits_capacity a' (Mach.atProcess_bounded hp hq.reachable.bounded).1
  rw [Mach.atProcess_cfg hp, hq.reachable.cfg_historyCap] at hfit
  exact hfit

/-
Theorems added to property C09 (for `Props/INDEX.json`):

    replay_reproduces_multi_round_step_partial, replay_reproduces_multi_round_step_partial_fits,
    replay_reproduces_multi_round_active,
    replay_reproduces_multi_round_step_reachable, replay_reproduces_multi_round_step_reachable_fits
    (and, in the single-round end-to-end section: replay_reproduces_single_round_step_reachable_fits)
    multi_round_replay_witness, multi_round_replay_full_statement_false                  (full statement false)
-/

end Hfsm.Props.C09
