/-
Property C08 — "Save then load into any instance reproduces active and resumable state".

For any two instances of the same machine type in any states (including not activated), loading into
one the buffer saved from the other makes its active and resumable configuration identical to the
saved one, with exit delivered to every state that stops being active and enter to every state that
becomes active, and saving the loaded instance again yields a bit-identical buffer.  Saving leaves the
instance untouched, and all reads and writes stay inside the fixed-size buffer whose size follows
from the structure.

Model: `Model/Serial.lean`, `Mach.save/load/loadActive/loadEnter/finalExit` (Model/Machine.lean),
`Node.commit/enter/exit` (Model/Commit.lean).  C++: `RV_::save/load/loadEnter` (root_1.inl),
`R_::save/load` (root_0.inl), `C_/CS_/O_/OS_::deepSave…/deepLoad…` (structure/*.inl),
`BitWriteStreamT::write / BitReadStreamT::read` (shared/bit_stream.inl, property C18).

The theorems are about the code AFTER repair F1 (`/repo` commit "load() keeps the loaded resumable
marks across the commit pass"): `load` snapshots the loaded `compoResumable` before the commit pass and
restores it afterwards (`withResumableOf` in the model).  Without that, `deepExit` overwrites and
`deepEnter` clears freshly loaded marks and (4) below is false.

Result in one sentence: for every tree structure, every source state `src` (activated and settled, or
not activated) and EVERY destination `dst` of the same structure — whatever it has active, resumable,
requested or `remain`-marked — `(dst.load src.save).root = src.root`: the whole registry, not only the
observable part, becomes the source's.

Hypotheses are those of Proofs/Wf.lean: `Act` (well-formed active configuration), `NoMarks`,
`ResumableOK`, plus `WidthOK` (every composite region has ≤ 256 sub-states: prongs are `Short`s) and
`sameShape` (same machine type).  Nothing is assumed about the decision stream, the callbacks, the
plans or the request queue of either instance.

NOT expressible in the library at all (compile-time, so not a run-time defect): a composite region with
ONE sub-state makes `WIDTH_BITS = bitContain(1) = 0` and `stream.write<0>` trips
`static_assert(BIT_WIDTH > 0)` — such machines do not compile with serialization enabled.  The model
(and the theorems) cover them anyway (a 0-bit field).
-/
import Hfsm.Proofs.SerialMach
import Hfsm.Proofs.SerialBounds
import Hfsm.Proofs.SerialStream
import Hfsm.Proofs.LoadCallsExact
import Hfsm.Proofs.Reach

namespace Hfsm.Props.C08
open Hfsm Hfsm.Model.Bits Hfsm.Model.Stream Hfsm.Props.C18
variable {U : Type}

/-! ## 1. fields: `read<w>` inverts `write<w>`, prongs fit their field -/

/-- `read<w>` after `write<w>(v)`: the `w` low bits of `v` and the untouched rest of the stream. -/
theorem read_write_field (w v : Nat) (rest : List Bool) :
    readBits w (bitsOf w v ++ rest) = some (v % 2 ^ w, rest) := readBits_bitsOf w v rest

/-- a prong of a region of width `w ≤ 256` fits the `bitContain w` bits reserved for it -/
theorem field_fits (w i : Nat) (hw : w ≤ 256) (hi : i < w) : i < 2 ^ bitContain w :=
  lt_two_pow_bitContain w i hw hi

example : (200 : Nat) ≤ 256 ∧ 199 < 200 := by decide

/-- …and the bound is sharp: prong 256 of a 257-wide region would not fit 8 bits (`Short` prongs make
such a region inexpressible). -/
theorem field_fits_sharp : ¬ (256 < 2 ^ bitContain 257) := not_fit_257

/-! ## 2. tree level: what `loadRequested` makes of the image of another tree

`d.mergeReq s` (Proofs/SerialTree.lean) is `d` with `resumable := s.resumable` in EVERY composite region
and `requested := s.active` in the regions that are active in `s`; `d.withResumableOf s` (model) is `d`
with `resumable := s.resumable` in every region.  Both leave everything else alone
(`only_marks_changed`). -/

/-- **Round trip of the active part.**  `src` active and well formed, `dst` ANY tree of the same structure
(active, clean, marked, …; `load` first clears its marks and resumables, `loadEnter` does not): reading
the image of `src` consumes exactly that image and yields `dst` carrying `src`'s configuration as
request marks and `src`'s resumable marks. -/
theorem tree_roundtrip_requested (dst src : Node) (rest : List Bool) (hs : dst.sameShape src)
    (ha : src.Act) (hr : src.ResumableOK) (hw : src.WidthOK) :
    dst.loadRequested (src.saveActive ++ rest) = some (dst.mergeReq src, rest) :=
  Node.loadRequested_save dst src rest hs ha hr hw

/-- the same for the tree `R_::load` reads into (`clearRequests`, `compoResumable.clear()` first) -/
theorem tree_roundtrip_load (dst src : Node) (rest : List Bool) (hs : dst.sameShape src)
    (ha : src.Act) (hr : src.ResumableOK) (hw : src.WidthOK) :
    (dst.clearMarks.noResumable).loadRequested (src.saveActive ++ rest)
      = some (dst.loadBase.mergeReq src, rest) :=
  Node.loadRequested_save dst.loadBase src rest ((Node.loadBase_sameShape dst).trans hs) ha hr hw

/-- **Round trip of the inactive parts** (`deepSaveResumable` / `deepLoadResumable`): no activity
hypothesis at all. -/
theorem tree_roundtrip_resumable (dst src : Node) (rest : List Bool) (hs : dst.sameShape src)
    (hr : src.ResumableOK) (hw : src.WidthOK) :
    dst.loadResumable (src.saveResumable ++ rest) = some (dst.withResumableOf src, rest) :=
  Node.loadResumable_save dst src rest hs hr hw

/-- nothing but request and resumable marks differs between `dst` and the loaded tree -/
theorem only_marks_changed (dst src : Node) :
    (dst.mergeReq src).clearMarks.noResumable = dst.clearMarks.noResumable :=
  Node.loadBase_mergeReq dst src

/-- the loaded resumable marks are the saved ones in every region -/
theorem loaded_resumables (dst src : Node) (hs : dst.sameShape src) :
    (dst.mergeReq src).resOnly = src.resOnly := Node.resOnly_mergeReq dst src hs

/-- the loaded request marks make the tree enterable / committable in the sense of Proofs/Wf.lean
(`Res`, `COK` — the hypotheses of C01's commit lemma) -/
theorem loaded_marks_wf (dst src : Node) (hs : dst.sameShape src) (ha : src.Act) :
    (dst.mergeReq src).Res ∧ (dst.mergeReq src).COK :=
  ⟨Node.res_mergeReq dst src hs ha, Node.cok_mergeReq dst src hs ha⟩

/-! ## 3. the commit pass drives the marked tree into the saved configuration

"commit drives an `Act` tree with `Res`-marks equal to X into active configuration X" — here in its
computational form: the result IS `src`, field by field. -/

/-- active destination: `deepChangeToRequested`, then the loaded resumable marks are restored -/
theorem commit_reaches_saved (dst src : Node) (w : World U) (hs : dst.sameShape src)
    (hda : dst.Act) (hdm : dst.NoMarks) (hsa : src.Act) (hsm : src.NoMarks) :
    ((dst.mergeReq src).commit w).1.withResumableOf (dst.mergeReq src) = src := by
  rw [Node.commit_fst]; exact Node.load_commit_eq dst src hs hda hdm hsa hsm

/-- inactive destination (manual activation): `deepEnter`.  `Node.enter` clears a resumable mark equal to
the entered prong and `exit` overwrites marks — the restoration step is what makes this an equality. -/
theorem enter_reaches_saved (dst src : Node) (w : World U) (hs : dst.sameShape src)
    (hdc : dst.Clean) (hdm : dst.NoMarks) (hsa : src.Act) (hsm : src.NoMarks) :
    ((dst.mergeReq src).enter w).1.withResumableOf (dst.mergeReq src) = src := by
  rw [Node.enter_fst]; exact Node.load_enter_eq dst src hs hdc hdm hsa hsm

/-- hence equal active and resumable configuration region by region -/
theorem commit_sameDynamic (dst src : Node) (w : World U) (hs : dst.sameShape src)
    (hda : dst.Act) (hdm : dst.NoMarks) (hsa : src.Act) (hsm : src.NoMarks) :
    (((dst.mergeReq src).commit w).1.withResumableOf (dst.mergeReq src)).sameDynamic src := by
  rw [commit_reaches_saved dst src w hs hda hdm hsa hsm]; rfl

/-! ## 4./6. instances: `load ∘ save`, all four activation combinations -/

/-- **active → active.**  The destination may carry any request marks, `remain` bits and resumable marks:
`load` clears them first. -/
theorem load_active_into_active (src dst : Mach U) (hs : src.ActiveOK) (hsh : dst.root.sameShape src.root)
    (hda : dst.root.Act) (hdf : dst.root.machineActive = true) :
    (dst.load src.save).root = src.root := by
  rw [Mach.save_active src hs.flag]
  simp only [Mach.load, hdf, if_true]
  exact Mach.loadActive_root dst src.root hsh hda hs.act hs.noMarks hs.resOK hs.widthOK

/-- **active → inactive** (manual activation): `loadEnter`. -/
theorem load_active_into_inactive (src dst : Mach U) (hs : src.ActiveOK) (hsh : dst.root.sameShape src.root)
    (hd : dst.InactiveOK) :
    (dst.load src.save).root = src.root := by
  rw [Mach.save_active src hs.flag]
  simp only [Mach.load, hd.flag, hd.manual, Bool.false_eq_true, if_false, if_true]
  exact Mach.loadEnter_root dst src.root hsh hd.clean hd.noMarks hs.act hs.noMarks hs.resOK hs.widthOK

/-- **inactive → active** (manual): the image is the single bit `0` and the destination is exited. -/
theorem load_inactive_into_active (src dst : Mach U) (hs : src.InactiveOK) (hdman : dst.w.cfg.manual = true)
    (hdf : dst.root.machineActive = true) :
    src.save = [false] ∧ (dst.load src.save).root = dst.root.cleared := by
  refine ⟨Mach.save_inactive src hs, ?_⟩
  rw [Mach.save_inactive src hs]
  simp only [Mach.load, hdman, hdf, if_true]
  exact Mach.finalExit_root dst

/-- **inactive → inactive** (manual): nothing happens. -/
theorem load_inactive_into_inactive (src dst : Mach U) (hs : src.InactiveOK) (hd : dst.InactiveOK) :
    dst.load src.save = dst := by
  rw [Mach.save_inactive src hs]
  simp only [Mach.load, hd.manual, hd.flag, Bool.false_eq_true, if_false, if_true]

/-- An inactive instance is *blank* (`RegistryT::clear()` ran in `finalExit`, or nothing ever ran): its
tree is its own skeleton.  Then the two inactive cases also end in the source's tree. -/
theorem load_inactive_root (src dst : Mach U) (hs : src.InactiveOK) (hblank : src.root.cleared = src.root)
    (hsh : dst.root.sameShape src.root) (hdman : dst.w.cfg.manual = true)
    (hd : dst.root.machineActive = true ∨ (dst.InactiveOK ∧ dst.root.cleared = dst.root)) :
    (dst.load src.save).root = src.root := by
  rcases hd with hdf | ⟨hdi, hdb⟩
  · rw [(load_inactive_into_active src dst hs hdman hdf).2]
    exact hsh.trans hblank
  · rw [load_inactive_into_inactive src dst hs hdi, ← hdb]
    exact hsh.trans hblank

/-- `sameDynamic` form of the two active-source cases (what the property text asks for) -/
theorem load_sameDynamic (src dst : Mach U) (hs : src.ActiveOK) (hsh : dst.root.sameShape src.root)
    (hd : (dst.root.Act ∧ dst.root.machineActive = true) ∨ dst.InactiveOK) :
    (dst.load src.save).root.sameDynamic src.root := by
  rcases hd with ⟨hda, hdf⟩ | hdi
  · rw [load_active_into_active src dst hs hsh hda hdf]; rfl
  · rw [load_active_into_inactive src dst hs hsh hdi]; rfl

/-- **Saving the loaded instance again is bit-identical** (active source). -/
theorem resave_identical (src dst : Mach U) (hs : src.ActiveOK) (hsh : dst.root.sameShape src.root)
    (hd : (dst.root.Act ∧ dst.root.machineActive = true) ∨ dst.InactiveOK) :
    (dst.load src.save).save = src.save := by
  have hroot : (dst.load src.save).root = src.root := by
    rcases hd with ⟨hda, hdf⟩ | hdi
    · exact load_active_into_active src dst hs hsh hda hdf
    · exact load_active_into_inactive src dst hs hsh hdi
  have hflag : (dst.load src.save).root.machineActive = true := by rw [hroot]; exact hs.flag
  rw [Mach.save_active _ hflag, hroot, Mach.save_active src hs.flag]

/-- …and for an inactive source into an active destination: the destination now saves `[false]` too. -/
theorem resave_identical_inactive (src dst : Mach U) (hs : src.InactiveOK) (hdman : dst.w.cfg.manual = true)
    (hdf : dst.root.machineActive = true) :
    (dst.load src.save).save = src.save := by
  rw [Mach.save_inactive src hs]
  simp only [Mach.load, hdman, hdf, if_true]
  obtain ⟨w', hstep, _, hcfg, _, _⟩ := Mach.finalExit_step dst
  have hman : dst.finalExit.w.cfg.manual = true := by
    rw [hcfg, hstep.cfg]; exact hdman
  have hflag : dst.finalExit.root.machineActive = false := by
    rw [Mach.finalExit_root]; exact Node.machineActive_clean _ (Node.clean_cleared _)
  simp [Mach.save, hman, hflag]

/-- **`save` leaves the instance untouched**: in the model it is a function `Mach U → List Bool` (the C++
`save` is `const`); what the theorem can add is that it does not depend on anything but the registry
and the activation mode. -/
theorem save_reads_registry_only (a b : Mach U) (hr : a.root = b.root) (hm : a.w.cfg.manual = b.w.cfg.manual) :
    a.save = b.save := by simp [Mach.save, hr, hm]

/-! ### what `load` does to the rest of the instance -/

/-- Loading into an active instance empties the request queue and the transition history; the plans
and task statuses are cleared BEFORE the pass (callbacks of the pass may add plan tasks again:
`enter/exit/reenter` receive a `PlanControl`). -/
theorem load_clears_queue_and_history (src dst : Mach U) (hs : src.ActiveOK) (hsh : dst.root.sameShape src.root)
    (hdf : dst.root.machineActive = true) :
    (dst.load src.save).w.requests = [] ∧ (dst.load src.save).w.previous = [] ∧
    (dst.load src.save).w.cfg = dst.w.cfg := by
  rw [Mach.save_active src hs.flag]
  simp only [Mach.load, hdf, if_true]
  have h := Mach.loadActive_step dst src.root hsh hs.act hs.resOK hs.widthOK
  exact ⟨by rw [h.requests, Mach.loadWorld_requests], by rw [h.previous, Mach.loadWorld_previous],
    by rw [h.cfg, Mach.loadWorld_cfg]⟩

/-- `loadEnter` touches neither queue nor history (the C++ asserts they are empty). -/
theorem loadEnter_keeps_queue_and_history (src dst : Mach U) (hs : src.ActiveOK)
    (hsh : dst.root.sameShape src.root) (hd : dst.InactiveOK) :
    (dst.load src.save).w.requests = dst.w.requests ∧ (dst.load src.save).w.previous = dst.w.previous := by
  rw [Mach.save_active src hs.flag]
  simp only [Mach.load, hd.flag, hd.manual, Bool.false_eq_true, if_false, if_true]
  have h := Mach.loadEnter_step dst src.root hsh hs.act hs.resOK hs.widthOK
  exact ⟨h.requests, h.previous⟩

/-! ### the callbacks `load` delivers (logger view)

`World.lifeLog` is the list of `method` records the logger received, newest first; a state's method is
recorded when the state has a head with user code or verbose logging is on (`Config.vis`).  The lists
`commitCalls / enterCalls / exitCalls` (Proofs/LifeLog.lean) are computed from the tree alone, in
chronological order: see `Props/C08` section 4b for who is in them. -/

theorem load_log_active (src dst : Mach U) (hs : src.ActiveOK) (hsh : dst.root.sameShape src.root)
    (hdf : dst.root.machineActive = true) :
    (dst.load src.save).w.lifeLog
      = ((dst.root.loadBase.mergeReq src.root).commitCalls dst.w.cfg.vis).reverse ++ dst.w.lifeLog := by
  rw [Mach.save_active src hs.flag]
  simp only [Mach.load, hdf, if_true]
  have h := Mach.loadActive_step dst src.root hsh hs.act hs.resOK hs.widthOK
  rw [h.log]
  simp [World.lifeLog, Mach.loadWorld_trace]

theorem load_log_inactive (src dst : Mach U) (hs : src.ActiveOK) (hsh : dst.root.sameShape src.root)
    (hd : dst.InactiveOK) :
    (dst.load src.save).w.lifeLog
      = ((dst.root.mergeReq src.root).enterCalls dst.w.cfg.vis).reverse ++ dst.w.lifeLog := by
  rw [Mach.save_active src hs.flag]
  simp only [Mach.load, hd.flag, hd.manual, Bool.false_eq_true, if_false, if_true]
  have h := Mach.loadEnter_step dst src.root hsh hs.act hs.resOK hs.widthOK
  rw [h.log]
  simp [World.lifeLog, Mach.enterWorld_trace]

theorem load_log_exit (src dst : Mach U) (hs : src.InactiveOK) (hdman : dst.w.cfg.manual = true)
    (hdf : dst.root.machineActive = true) :
    (dst.load src.save).w.lifeLog = (dst.root.exitCalls dst.w.cfg.vis).reverse ++ dst.w.lifeLog := by
  rw [Mach.save_inactive src hs]
  simp only [Mach.load, hdman, hdf, if_true]
  obtain ⟨w', hstep, htr, _, _, _⟩ := Mach.finalExit_step dst
  have : dst.finalExit.w.lifeLog = w'.lifeLog := by simp [World.lifeLog, htr]
  rw [this, hstep.log]
  rfl

/-! ### 4b. who is in these call lists

READ `Node.commit` FIRST: a region whose loaded prong equals its active prong is *re-entered in place*
(`deepReenter`): every state that is active before and after the load, except the states the pass merely
walks through (the root region and what hangs below it through orthogonal regions only), receives
`reenter`; a region whose loaded prong differs is switched: `exit` for everything below the old prong
(sub-states first), `enter` for everything below the new one (head first).  Guards are not consulted.
A state keeps silent only if it has no user code (headless region head) — `v headed = false`.

`CallsSpec cs vd ad vs az` (Proofs/LoadCalls.lean), with `vd/ad` the visible/all states of the
destination's active configuration and `vs/az` those of the source's:
  `sound`   every call is an `exit` of a state active before, an `enter` of a state active afterwards or a
            `reenter` of a state active before and afterwards — nothing else is invoked;
  `exits`   every visible state active before and not afterwards is exited;
  `enters`  every visible state active afterwards and not before is entered.
`exits`/`enters` are the property's demand; it does not demand the absence of `reenter`.
The converse — an exited state is NOT active afterwards, an entered one was NOT active before, so the
exits are exactly `active dst \ active src` and the enters exactly `active src \ active dst` — needs the
state ids of the tree to be pairwise distinct (`ids_distinct`: true of every instance) and is
`load_exits_exactly / load_enters_exactly`.  NOT proved: that each call occurs exactly once in the list
(the oracle checks it on the implementation, per handler slot). -/

theorem load_calls_active (src dst : Mach U) (hs : src.ActiveOK) (hsh : dst.root.sameShape src.root)
    (hda : dst.root.Act) (v : Bool → Bool) :
    CallsSpec ((dst.root.loadBase.mergeReq src.root).commitCalls v)
      (dst.root.activeVis v) dst.root.activeIds (src.root.activeVis v) src.root.activeIds := by
  have h := Node.commit_spec v dst.root.loadBase src.root ((Node.loadBase_sameShape dst.root).trans hsh)
    (Node.loadBase_act dst.root hda) (Node.loadBase_noMarks dst.root) hs.act
  simp only [Node.activeIds] at h ⊢
  rwa [Node.activeVis_loadBase, Node.activeVis_loadBase] at h

/-- every instance of a declared machine has pairwise distinct state ids -/
theorem ids_distinct (shape : Shape) (cfg : Config) (m : Mach U)
    (h : m.root.sameShape (Mach.create shape cfg : Mach U).root) : m.root.allIds.Nodup := by
  rw [Node.allIds_sameShape h]; exact Shape.toNode_nodup shape 0 0

theorem load_calls_exact (src dst : Mach U) (hs : src.ActiveOK) (hsh : dst.root.sameShape src.root)
    (hda : dst.root.Act) (hnd : dst.root.allIds.Nodup) (v : Bool → Bool) :
    ∀ c ∈ (dst.root.loadBase.mergeReq src.root).commitCalls v,
      (c.2 = .exit → c.1 ∉ src.root.activeIds) ∧ (c.2 = .enter → c.1 ∉ dst.root.activeIds) := by
  have hb := Node.loadBase_sameShape dst.root
  have h := Node.commit_exact v dst.root.loadBase src.root (hb.trans hsh)
    (Node.loadBase_act dst.root hda) (Node.loadBase_noMarks dst.root) hs.act
    (by rw [Node.allIds_sameShape hb]; exact hnd)
  intro c hc
  have := (h c hc).2
  simp only [Node.activeIds] at this ⊢
  rwa [Node.activeVis_loadBase] at this

/-- **exits = (visible) states active in the destination and not in the source — exactly** -/
theorem load_exits_exactly (src dst : Mach U) (hs : src.ActiveOK) (hsh : dst.root.sameShape src.root)
    (hda : dst.root.Act) (hnd : dst.root.allIds.Nodup) (v : Bool → Bool) (x : Nat) :
    (x, Method.exit) ∈ (dst.root.loadBase.mergeReq src.root).commitCalls v ↔
      x ∈ dst.root.activeVis v ∧ x ∉ src.root.activeIds := by
  have hspec := load_calls_active src dst hs hsh hda v
  constructor
  · intro hc
    refine ⟨?_, (load_calls_exact src dst hs hsh hda hnd v _ hc).1 rfl⟩
    rcases hspec.sound _ hc with ⟨_, h⟩ | ⟨e, _⟩ | ⟨e, _⟩
    · exact h
    · cases e
    · cases e
  · rintro ⟨h1, h2⟩; exact hspec.exits x h1 h2

/-- **enters = (visible) states active in the source and not in the destination — exactly** -/
theorem load_enters_exactly (src dst : Mach U) (hs : src.ActiveOK) (hsh : dst.root.sameShape src.root)
    (hda : dst.root.Act) (hnd : dst.root.allIds.Nodup) (v : Bool → Bool) (x : Nat) :
    (x, Method.enter) ∈ (dst.root.loadBase.mergeReq src.root).commitCalls v ↔
      x ∈ src.root.activeVis v ∧ x ∉ dst.root.activeIds := by
  have hspec := load_calls_active src dst hs hsh hda v
  constructor
  · intro hc
    refine ⟨?_, (load_calls_exact src dst hs hsh hda hnd v _ hc).2 rfl⟩
    rcases hspec.sound _ hc with ⟨e, _⟩ | ⟨_, h⟩ | ⟨e, _⟩
    · cases e
    · exact h
    · cases e
  · rintro ⟨h1, h2⟩; exact hspec.enters x h1 h2

/-- inactive destination: exactly the visible states of the saved configuration are entered, nothing else -/
theorem load_calls_inactive (src dst : Mach U) (hs : src.ActiveOK) (hsh : dst.root.sameShape src.root)
    (v : Bool → Bool) (c : LifeCall) :
    c ∈ (dst.root.mergeReq src.root).enterCalls v ↔ c.2 = .enter ∧ c.1 ∈ src.root.activeVis v :=
  Node.mem_enterCalls_mergeReq v dst.root src.root hsh hs.act c

/-- inactive source: exactly the visible states of the destination's configuration are exited -/
theorem load_calls_exit (dst : Mach U) (v : Bool → Bool) (c : LifeCall) :
    c ∈ dst.root.exitCalls v ↔ c.2 = .exit ∧ c.1 ∈ dst.root.activeVis v :=
  Node.mem_exitCalls v dst.root c

/-- The three together, on the logger's records: after `load` of an active image into an active
instance, every visible state that stopped being active has an `exit` record and every visible state that
became active an `enter` record among the records `load` appended. -/
theorem load_delivers_exits_and_enters (src dst : Mach U) (hs : src.ActiveOK) (hsh : dst.root.sameShape src.root)
    (hda : dst.root.Act) (hdf : dst.root.machineActive = true) :
    ∃ new : List LifeCall, (dst.load src.save).w.lifeLog = new.reverse ++ dst.w.lifeLog ∧
      (∀ x ∈ dst.root.activeVis dst.w.cfg.vis, x ∉ src.root.activeIds → (x, Method.exit) ∈ new) ∧
      (∀ x ∈ src.root.activeVis dst.w.cfg.vis, x ∉ dst.root.activeIds → (x, Method.enter) ∈ new) ∧
      (∀ c ∈ new, c.2 = .exit ∨ c.2 = .enter ∨ c.2 = .reenter) := by
  have hspec := load_calls_active src dst hs hsh hda dst.w.cfg.vis
  refine ⟨_, load_log_active src dst hs hsh hdf, hspec.exits, hspec.enters, ?_⟩
  intro c hc
  rcases hspec.sound c hc with ⟨h, _⟩ | ⟨h, _⟩ | ⟨h, _⟩
  · exact Or.inl h
  · exact Or.inr (Or.inl h)
  · exact Or.inr (Or.inr h)

/-! ## 5. bounds: the image fits `SERIAL_BITS`, inactive image -/

/-- the image never exceeds `SERIAL_BITS = 1 + ACTIVE_BITS + RESUMABLE_BITS` of the structure — for EVERY
tree, well formed or not -/
theorem save_length_le (m : Mach U) : m.save.length ≤ m.root.info.serialBits := by
  have h := Node.saveActive_length m.root
  unfold Mach.save Info.serialBits
  split
  · simp only [List.length_cons, List.length_nil]; omega
  · simp only [List.length_cons]; omega

/-- `Node.info` of an instance is the `Shape.info` of its declaration (closed forms: Props/C17), in every
state of the instance -/
theorem info_of_created (shape : Shape) (cfg : Config) :
    (Mach.create shape cfg : Mach U).root.info = shape.info := Shape.toNode_info shape 0 0

theorem info_structure_only (a b : Node) (h : a.sameShape b) : a.info = b.info := Node.info_sameShape h

/-- so every instance of a machine declared by `shape` saves at most `shape.info.serialBits` bits -/
theorem save_fits_buffer (shape : Shape) (cfg : Config) (m : Mach U)
    (h : m.root.sameShape (Mach.create shape cfg : Mach U).root) :
    m.save.length ≤ shape.info.serialBits := by
  have := save_length_le m
  rwa [info_structure_only _ _ h, info_of_created] at this

/-- reading consumes exactly what was written (`rest` comes back untouched), so a `load` of a saved image
reads `save.length ≤ SERIAL_BITS` bits: `tree_roundtrip_requested` with `rest := []`. -/
theorem load_reads_exactly_the_image (dst src : Node) (hs : dst.sameShape src)
    (ha : src.Act) (hr : src.ResumableOK) (hw : src.WidthOK) (tail : List Bool) :
    (dst.loadRequested (src.saveActive ++ tail)).map Prod.snd = some tail := by
  rw [tree_roundtrip_requested dst src tail hs ha hr hw]; rfl

/-! ## bridge to the byte buffer (C18)

`BitWriteStreamT::write<w>(v)` calls made by `RV_::save`: `write<1>(1)` then the items of
`deepSaveActive`.  On a freshly constructed stream (the constructor clears the buffer) the buffer's
bits, read least significant first from bit 0, are exactly `Mach.save`, the cursor ends at its length
and every bit beyond is zero.  With `save_fits_buffer` the hypothesis `hfit` holds for the library's
`SerialBuffer` (`cap = SERIAL_BITS`). -/
theorem save_bits_in_buffer (m : Mach U) (hs : m.ActiveOK) (cap : Nat) (old : Storage) (hwf : BufWF cap old)
    (hfit : m.save.length ≤ cap) :
    let out := writeAll ((1, 1) :: m.root.saveItems) (openWrite old 0).1 (openWrite old 0).2
    out.2 = m.save.length ∧ out.1.length = old.length ∧
    (∀ j, j < m.save.length → m.save[j]? = some (bitAt out.1 j)) ∧
    (∀ i, m.save.length ≤ i → bitAt out.1 i = false) := by
  have hsave : m.save = flatBits ((1, 1) :: m.root.saveItems) := by
    rw [Mach.save_active m hs.flag, Node.saveActive_eq_items]
    simp [flatBits, bitsOf]
  have hok : ItemsOK ((1, 1) :: m.root.saveItems) := by
    have h1 : ItemsOK [((1 : Nat), (1 : Nat))] := by
      intro x hx; simp at hx; subst hx; simp
    exact h1.append (Node.saveItems_ok m.root hs.act hs.resOK hs.widthOK)
  have hlen : (old.map (fun _ => 0#8)).length = old.length := by simp
  have hcap := cap_le cap old hwf
  rw [hsave] at hfit ⊢
  have h := writeAll_flatBits ((1, 1) :: m.root.saveItems) (old.map (fun _ => 0#8)) 0 hok
    (by rw [hlen]; omega) (fun i _ => bitAt_clearAll old i)
  simp only [openWrite]
  obtain ⟨h1, h2, h3, _, h5⟩ := h
  refine ⟨by simpa using h1, by rw [h2, hlen], ?_, ?_⟩
  · intro j hj; simpa using h3 j hj
  · intro i hi; exact h5 i (by simpa using hi)

/-! ## examples: non-trivial reachable values satisfying the hypotheses; witness for repair F1

`exShape`: a composite root with a plain state, a resumable composite region and an orthogonal region
that holds a headless composite region and a plain state (10 states, 4 regions).  `exDst` is the state
after `enter()`, `exSrc` the state after `enter(); changeTo(3); changeTo(5)`, `exIdle` the not yet
activated instance — checked against the executable model by the `#guard` tests below (tests, not
proofs; the hypotheses themselves are proved about the literal trees). -/
section Examples

def exShape : Shape :=
  .compo true 0 .composite (.cons (.leaf 0) (.cons (.compo true 0 .resumable (.cons (.leaf 0) (.cons (.leaf 1) .nil)))
    (.cons (.ortho true 0 (.cons (.compo false 0 .composite (.cons (.leaf 0) (.cons (.leaf 0) .nil)))
      (.cons (.leaf 0) .nil))) .nil)))

/-- root active in the orthogonal region 5 (states 0 5 6 7 9), region 0 remembers prong 1, region 2 prong 0 -/
def exSrc : Node :=
  .compo 0 0 0 true .composite (some 2) (some 1) none false
    (.cons false (.leaf 1 0)
    (.cons false (.compo 2 1 0 true .resumable none (some 0) none false (.cons false (.leaf 3 0) (.cons false (.leaf 4 1) .nil)))
    (.cons false (.ortho 5 2 0 true
        (.cons false (.compo 6 3 0 false .composite (some 0) none none false (.cons false (.leaf 7 0) (.cons false (.leaf 8 0) .nil)))
        (.cons false (.leaf 9 0) .nil))) .nil)))

/-- root active in the plain state 1 (states 0 1), nothing resumable -/
def exDst : Node :=
  .compo 0 0 0 true .composite (some 0) none none false
    (.cons false (.leaf 1 0)
    (.cons false (.compo 2 1 0 true .resumable none none none false (.cons false (.leaf 3 0) (.cons false (.leaf 4 1) .nil)))
    (.cons false (.ortho 5 2 0 true
        (.cons false (.compo 6 3 0 false .composite none none none false (.cons false (.leaf 7 0) (.cons false (.leaf 8 0) .nil)))
        (.cons false (.leaf 9 0) .nil))) .nil)))

def exIdle : Node := exShape.toNode 0 0

def exMach (root : Node) : Mach Nat :=
  { root := root, w := { cfg := { manual := true, stateCount := 10, regionCount := 4 } } }

example : exDst.sameShape exSrc ∧ exIdle.sameShape exSrc := ⟨rfl, rfl⟩

example : (exMach exSrc).ActiveOK :=
  ⟨by simp [exMach, exSrc, Node.Act, Subs.ActAt, Subs.ActAll, Node.Clean, Subs.CleanAll],
   by simp [exMach, exSrc, Node.NoMarks, Subs.NoMarksAll],
   by simp [exMach, exSrc, Node.ResumableOK, Subs.ResumableOKAll, Subs.len],
   by simp [exMach, exSrc, Node.WidthOK, Subs.WidthOKAll, Subs.len],
   rfl⟩

example : (exMach exDst).ActiveOK :=
  ⟨by simp [exMach, exDst, Node.Act, Subs.ActAt, Node.Clean, Subs.CleanAll],
   by simp [exMach, exDst, Node.NoMarks, Subs.NoMarksAll],
   by simp [exMach, exDst, Node.ResumableOK, Subs.ResumableOKAll],
   by simp [exMach, exDst, Node.WidthOK, Subs.WidthOKAll, Subs.len],
   rfl⟩

example : (exMach exIdle).InactiveOK ∧ exIdle.cleared = exIdle :=
  ⟨⟨rfl,
    by simp [exMach, exIdle, exShape, Shape.toNode, Shapes.toSubs, Node.Clean, Subs.CleanAll],
    by simp [exMach, exIdle, exShape, Shape.toNode, Shapes.toSubs, Node.NoMarks, Subs.NoMarksAll],
    rfl⟩, rfl⟩

example : (exMach exSrc).root.allIds.Nodup := by decide

/-- the buffer of this machine: `SERIAL_BITS = 11`, two bytes; the image fits -/
example : exShape.info.serialBits = 11 ∧ exSrc.info = exShape.info ∧ BufWF 11 (cleared 11) ∧
    (exMach exSrc).save.length ≤ 11 := by
  refine ⟨by decide, ?_, bufWF_cleared 11, by decide⟩
  exact (info_structure_only exSrc exIdle (by rfl)).trans (Shape.toNode_info exShape 0 0)

/-- the round trip on the example, computed: image of `exSrc`, loaded into `exDst` -/
example : (exMach exSrc).save = [true, false, true, true, true, false, true, false, false, false] := by decide

example : ((exMach exDst).load (exMach exSrc).save).root = exSrc :=
  load_active_into_active _ _ ⟨by simp [exMach, exSrc, Node.Act, Subs.ActAt, Subs.ActAll, Node.Clean, Subs.CleanAll],
   by simp [exMach, exSrc, Node.NoMarks, Subs.NoMarksAll],
   by simp [exMach, exSrc, Node.ResumableOK, Subs.ResumableOKAll, Subs.len],
   by simp [exMach, exSrc, Node.WidthOK, Subs.WidthOKAll, Subs.len], rfl⟩ rfl
   (by simp [exMach, exDst, Node.Act, Subs.ActAt, Node.Clean, Subs.CleanAll]) rfl

/-- the calls of that load, headless head 6 silent: `exit 1`, `enter 5 7 9` -/
example : (exDst.loadBase.mergeReq exSrc).commitCalls (fun h => h)
    = [(1, .exit), (5, .enter), (7, .enter), (9, .enter)] := by decide

/-- **Why repair F1 is needed** (the statement is FALSE of the library before commit "load() keeps the
loaded resumable marks across the commit pass"): without the restoration step the commit pass alone
leaves region 0 remembering prong 0 (the state just exited) instead of the saved prong 1, and re-saving
gives a different image.  Harness-replayable history (unrepaired header): instance A `changeTo(3)`,
`changeTo(5)`; `A.save(buf)`; fresh instance B; `B.load(buf)`; `B.isResumable(1)` is true, `A`'s is
false, `B.save` ≠ `buf`. -/
theorem F1_without_restore_differs :
    (exDst.loadBase.mergeReq exSrc).commitT.saveActive ≠ exSrc.saveActive := by decide

example : (exDst.loadBase.mergeReq exSrc).commitT.saveActive
    = [false, true, true, false, false, true, false, false, false] := by decide

end Examples

/-! ### tests against the executable model (evaluation, not proof) -/
section Tests
local instance : UtilArith Nat := ⟨0, 1, (· + ·), (· - ·), (· * ·), (· / ·), (fun a b => decide (a ≤ b))⟩
deriving instance BEq for Node, Subs

private def t0 : Mach Nat := Mach.create exShape { manual := true }
private def t1 : Mach Nat := ({ t0 with w := { t0.w with ds := List.replicate 60 [] } }).initialEnter
private def t3 : Mach Nat := (t1.immediate .change 3 none).immediate .change 5 none

#guard t0.root == exIdle
#guard t1.root == exDst
#guard t3.root == exSrc
#guard t3.w.err.isNone
#guard (t1.load t3.save).root == exSrc
#guard (t0.load t3.save).root == exSrc
#guard (t1.load t3.save).save == t3.save
#guard (t3.load t0.save).root == exIdle
#guard (t1.load t3.save).w.err.isNone
end Tests

/-
Theorems constituting property C08
----------------------------------
fields                 : read_write_field, field_fits, field_fits_sharp
tree round trip        : tree_roundtrip_requested, tree_roundtrip_load, tree_roundtrip_resumable,
                         only_marks_changed, loaded_resumables, loaded_marks_wf
commit                 : commit_reaches_saved, enter_reaches_saved, commit_sameDynamic
instances (4 cases)    : load_active_into_active, load_active_into_inactive, load_inactive_into_active,
                         load_inactive_into_inactive, load_inactive_root, load_sameDynamic,
                         resave_identical, resave_identical_inactive, save_reads_registry_only,
                         load_clears_queue_and_history, loadEnter_keeps_queue_and_history
callbacks              : load_log_active, load_log_inactive, load_log_exit, load_calls_active,
                         load_calls_inactive, load_calls_exit, load_delivers_exits_and_enters,
                         ids_distinct, load_calls_exact, load_exits_exactly, load_enters_exactly
bounds / buffer        : save_length_le, info_of_created, info_structure_only, save_fits_buffer,
                         load_reads_exactly_the_image, save_bits_in_buffer
witness (pre-repair)   : F1_without_restore_differs
-/

end Hfsm.Props.C08

/-! ## end-to-end (composition with C01)

The instance theorems above assume `Mach.ActiveOK` (= `Act ∧ NoMarks ∧ ResumableOK ∧ WidthOK ∧ activated`) of
the source, `Act` or `Mach.InactiveOK` (= manual ∧ `Clean` ∧ `NoMarks` ∧ not activated) of the destination and
`sameShape`.  For REACHABLE instances (`ReachableOf shape cfg m`, Proofs/Reach.lean: `Mach.create shape cfg`
followed by any history of API calls) without contract violation, C01's invariant gives `Act` / `Clean`,
`ResumableOK` and `sameShape`; what is left:
  * `NoMarks` — holds on `QuietOf` histories (Proofs/Reach.lean, GAP 2): ALL reachable histories except those
    with a `replayEnter` of a non-empty history that answered `false` (`Props.C01.stale_marks_witness`) and no
    washing call (`enter / exit / reset`, `load` into an activated instance, a replay that answered `true`)
    after it.  `load` itself — all four activation combinations, any buffer the model accepts — and
    `replayTransitions` keep an instance quiet (`Mach.load_noMarks`, `Mach.replayTransitions_noMarks`), so a
    freshly loaded instance IS an admissible source (`activeOK_loaded_reachable`, `load_then_save_reachable`:
    chains of replicas).  The SOURCE of a round trip, and a destination that is NOT activated, must be quiet
    (`loadEnter` does not clear requests first: `Props.C01.stale_marks_survive_loadEnter`); an ACTIVATED
    destination may be any reachable instance (`R_::load` clears its marks first).
  * `WidthOK` — a property of the declaration (every composite region has ≤ 256 sub-states): hypothesis
    `(shape.toNode 0 0).WidthOK`. -/
namespace Hfsm.Props.C08
open Hfsm
variable {U : Type} [UtilArith U] {shape : Shape} {cfg cs cd : Config} {m src dst : Mach U}

/-- an activated quiet reachable instance satisfies the source hypothesis of every theorem above -/
theorem activeOK_reachable (hq : QuietOf shape cfg m) (he : m.w.err = none) (hm : m.root.machineActive = true)
    (hw : (shape.toNode 0 0).WidthOK) : m.ActiveOK :=
  ⟨hq.reachable.act he hm, hq.noMarks he, hq.reachable.resumableOK he, (hq.reachable.widthOK_iff he).mpr hw, hm⟩

/-- a quiet reachable instance under manual activation that is not activated -/
theorem inactiveOK_reachable (hq : QuietOf shape cfg m) (he : m.w.err = none) (hman : cfg.manual = true)
    (hm : m.root.machineActive = false) : m.InactiveOK :=
  ⟨by rw [hq.reachable.cfg_manual]; exact hman, hq.reachable.clean he hm, hq.noMarks he, hm⟩

/-- two reachable instances of the same declaration have the same structure, whatever their configurations
and histories -/
theorem sameShape_reachable (hs : ReachableOf shape cs src) (hd : ReachableOf shape cd dst)
    (hes : src.w.err = none) (hed : dst.w.err = none) : dst.root.sameShape src.root :=
  (hd.sameShape' hed).trans (hs.sameShape' hes).symm

/-- **Round trip, activated → activated.**  `src` quiet (e.g. itself freshly loaded: `quiet_loaded`), `dst` ANY
reachable instance of the same machine that is activated: after `dst.load src.save` the registry of `dst` IS the registry of `src`, and saving it again is
bit-identical. -/
theorem load_roundtrip_active_reachable (hs : QuietOf shape cs src) (hd : ReachableOf shape cd dst)
    (hes : src.w.err = none) (hed : dst.w.err = none)
    (hsm : src.root.machineActive = true) (hdm : dst.root.machineActive = true)
    (hw : (shape.toNode 0 0).WidthOK) :
    (dst.load src.save).root = src.root ∧ (dst.load src.save).save = src.save :=
  have hso := activeOK_reachable hs hes hsm hw
  have hsh := sameShape_reachable hs.reachable hd hes hed
  ⟨load_active_into_active src dst hso hsh (hd.act hed hdm) hdm,
   resave_identical src dst hso hsh (.inl ⟨hd.act hed hdm, hdm⟩)⟩

/-- **Round trip, activated → not activated** (manual activation, `loadEnter`): both quiet. -/
theorem load_roundtrip_inactive_reachable (hs : QuietOf shape cs src) (hd : QuietOf shape cd dst)
    (hes : src.w.err = none) (hed : dst.w.err = none)
    (hsm : src.root.machineActive = true) (hdm : dst.root.machineActive = false) (hman : cd.manual = true)
    (hw : (shape.toNode 0 0).WidthOK) :
    (dst.load src.save).root = src.root ∧ (dst.load src.save).save = src.save :=
  have hso := activeOK_reachable hs hes hsm hw
  have hdo := inactiveOK_reachable hd hed hman hdm
  have hsh := sameShape_reachable hs.reachable hd.reachable hes hed
  ⟨load_active_into_inactive src dst hso hsh hdo, resave_identical src dst hso hsh (.inr hdo)⟩

/-- **Round trip, not activated → activated** (manual): the image is the single bit `0`, the destination is
exited and saves the same image. -/
theorem load_roundtrip_from_inactive_reachable (hs : QuietOf shape cs src) (hd : ReachableOf shape cd dst)
    (hes : src.w.err = none) (hsm : src.root.machineActive = false) (hdm : dst.root.machineActive = true)
    (hsman : cs.manual = true) (hdman : cd.manual = true) :
    src.save = [false] ∧ (dst.load src.save).root = dst.root.cleared ∧ (dst.load src.save).save = src.save :=
  have hso := inactiveOK_reachable hs hes hsman hsm
  have hdm' : dst.w.cfg.manual = true := by rw [hd.cfg_manual]; exact hdman
  ⟨(load_inactive_into_active src dst hso hdm' hdm).1, (load_inactive_into_active src dst hso hdm' hdm).2,
   resave_identical_inactive src dst hso hdm' hdm⟩

/-- **Round trip, not activated → not activated** (manual): nothing happens. -/
theorem load_roundtrip_both_inactive_reachable (hs : QuietOf shape cs src) (hd : QuietOf shape cd dst)
    (hes : src.w.err = none) (hed : dst.w.err = none)
    (hsm : src.root.machineActive = false) (hdm : dst.root.machineActive = false)
    (hsman : cs.manual = true) (hdman : cd.manual = true) : dst.load src.save = dst :=
  load_inactive_into_inactive src dst (inactiveOK_reachable hs hes hsman hsm) (inactiveOK_reachable hd hed hdman hdm)

/-- loading ANY buffer into an activated reachable instance, or into a quiet one, gives a quiet instance -/
theorem quiet_loaded (hd : ReachableOf shape cfg m) (hq : m.root.machineActive = true ∨ QuietOf shape cfg m)
    (bits : List Bool) : QuietOf shape cfg (m.load bits) :=
  hq.elim (fun hm => QuietOf.load_active hd hm bits) (fun h => h.load bits)

/-- **A freshly loaded instance is an admissible source**: whatever buffer was loaded (the model accepted it:
`err = none`), if the instance is activated afterwards it satisfies `ActiveOK` — in particular it carries no
request mark, although neither `R_::load` nor `RV_::loadEnter` ends with `clearRequests()`. -/
theorem activeOK_loaded_reachable (hd : ReachableOf shape cfg m)
    (hq : m.root.machineActive = true ∨ QuietOf shape cfg m) (bits : List Bool)
    (he : (m.load bits).w.err = none) (ha : (m.load bits).root.machineActive = true)
    (hw : (shape.toNode 0 0).WidthOK) : (m.load bits).ActiveOK :=
  activeOK_reachable (quiet_loaded hd hq bits) he ha hw

/-- **Load, then save: chain of replicas.**  `src` quiet and activated, `dst` any reachable instance of the same
machine that is activated, or a quiet one under manual activation (activated or not): the loaded instance has
the registry of `src`, saves the image of `src` bit for bit, and is itself quiet — so it can serve as the
source of the next replica. -/
theorem load_then_save_reachable (hs : QuietOf shape cs src) (hd : ReachableOf shape cd dst)
    (hes : src.w.err = none) (hed : dst.w.err = none) (hsm : src.root.machineActive = true)
    (hdq : dst.root.machineActive = true ∨ (QuietOf shape cd dst ∧ cd.manual = true))
    (hw : (shape.toNode 0 0).WidthOK) :
    (dst.load src.save).root = src.root ∧ (dst.load src.save).save = src.save ∧
      QuietOf shape cd (dst.load src.save) := by
  rcases hdq with hdm | ⟨hq, hman⟩
  · have h := load_roundtrip_active_reachable hs hd hes hed hsm hdm hw
    exact ⟨h.1, h.2, QuietOf.load_active hd hdm _⟩
  · cases hdm : dst.root.machineActive
    · have h := load_roundtrip_inactive_reachable hs hq hes hed hsm hdm hman hw
      exact ⟨h.1, h.2, hq.load _⟩
    · have h := load_roundtrip_active_reachable hs hd hes hed hsm hdm hw
      exact ⟨h.1, h.2, hq.load _⟩

/-- the same for a source that is NOT activated (manual activation on both sides): the image is the single bit
`0`; an activated destination is exited, one that is not is left alone; it saves `[false]` and is quiet -/
theorem load_then_save_from_inactive_reachable (hs : QuietOf shape cs src) (hd : ReachableOf shape cd dst)
    (hes : src.w.err = none) (hed : dst.w.err = none) (hsm : src.root.machineActive = false)
    (hsman : cs.manual = true) (hdman : cd.manual = true)
    (hdq : dst.root.machineActive = true ∨ QuietOf shape cd dst) :
    (dst.load src.save).save = src.save ∧ QuietOf shape cd (dst.load src.save) := by
  refine ⟨?_, quiet_loaded hd hdq _⟩
  cases hdm : dst.root.machineActive
  · rcases hdq with h | hq
    · rw [hdm] at h; cases h
    · have hdo := inactiveOK_reachable hq hed hdman hdm
      have hso := inactiveOK_reachable hs hes hsman hsm
      rw [load_inactive_into_inactive src dst hso hdo, Mach.save_inactive dst hdo, Mach.save_inactive src hso]
  · exact (load_roundtrip_from_inactive_reachable hs hd hes hsm hdm hsman hdman).2.2

/-- two replicas in a row: `d2` loaded with the image saved from `d1` loaded with the image of `src` has the
registry of `src` and saves its image; the intermediate instance needs no hypothesis of its own beyond having
met no contract violation (its quietness and `ActiveOK` are DERIVED, `load_then_save_reachable`) -/
theorem load_chain_reachable {c1 c2 : Config} {d1 d2 : Mach U}
    (hs : QuietOf shape cs src) (h1 : ReachableOf shape c1 d1) (h2 : ReachableOf shape c2 d2)
    (hes : src.w.err = none) (he1 : d1.w.err = none) (he2 : d2.w.err = none)
    (he1' : (d1.load src.save).w.err = none)
    (hsm : src.root.machineActive = true)
    (hq1 : d1.root.machineActive = true ∨ (QuietOf shape c1 d1 ∧ c1.manual = true))
    (hq2 : d2.root.machineActive = true ∨ (QuietOf shape c2 d2 ∧ c2.manual = true))
    (hw : (shape.toNode 0 0).WidthOK) :
    (d2.load (d1.load src.save).save).root = src.root ∧ (d2.load (d1.load src.save).save).save = src.save ∧
      QuietOf shape c2 (d2.load (d1.load src.save).save) := by
  obtain ⟨hr1, hsv1, hquiet1⟩ := load_then_save_reachable hs h1 hes he1 hsm hq1 hw
  have hm1 : (d1.load src.save).root.machineActive = true := by rw [hr1]; exact hsm
  obtain ⟨hr2, hsv2, hquiet2⟩ := load_then_save_reachable hquiet1 h2 he1' he2 hm1 hq2 hw
  exact ⟨hr2.trans hr1, hsv2.trans hsv1, hquiet2⟩

/-- the callbacks of the activated → activated load: every visible state that stopped being active is exited,
every one that became active is entered, nothing but `exit / enter / reenter` is delivered -/
theorem load_delivers_exits_and_enters_reachable (hs : QuietOf shape cs src) (hd : ReachableOf shape cd dst)
    (hes : src.w.err = none) (hed : dst.w.err = none)
    (hsm : src.root.machineActive = true) (hdm : dst.root.machineActive = true)
    (hw : (shape.toNode 0 0).WidthOK) :
    ∃ new : List LifeCall, (dst.load src.save).w.lifeLog = new.reverse ++ dst.w.lifeLog ∧
      (∀ x ∈ dst.root.activeVis dst.w.cfg.vis, x ∉ src.root.activeIds → (x, Method.exit) ∈ new) ∧
      (∀ x ∈ src.root.activeVis dst.w.cfg.vis, x ∉ dst.root.activeIds → (x, Method.enter) ∈ new) ∧
      (∀ c ∈ new, c.2 = .exit ∨ c.2 = .enter ∨ c.2 = .reenter) :=
  load_delivers_exits_and_enters src dst (activeOK_reachable hs hes hsm hw)
    (sameShape_reachable hs.reachable hd hes hed) (hd.act hed hdm) hdm

/-- the state ids of every reachable instance are pairwise distinct (hypothesis `hnd` of `load_exits_exactly` /
`load_enters_exactly`) -/
theorem ids_distinct_reachable (h : ReachableOf shape cfg m) (he : m.w.err = none) : m.root.allIds.Nodup :=
  ids_distinct shape cfg m (h.sameShape' he)

/-- the image of every reachable instance fits the buffer the structure prescribes — no hypothesis but
reachability and `err = none` -/
theorem save_fits_buffer_reachable (h : ReachableOf shape cfg m) (he : m.w.err = none) :
    m.save.length ≤ shape.info.serialBits :=
  save_fits_buffer shape cfg m (h.sameShape' he)

/-- a concrete non-trivial reachable instance exists; it satisfies the source hypotheses (`WidthOK` of its
declaration included) -/
example : Reachable (Api.run Demo.mach Demo.prog) := Demo.reachable.reachable
example : ∃ m : Mach Demo.DU, QuietOf Demo.shape Demo.cfg m ∧ m.w.err = none ∧ m.root.machineActive = true ∧
    (Demo.shape.toNode 0 0).WidthOK :=
  ⟨_, Demo.quiet, Demo.err_none, Demo.active,
    by simp [Demo.shape, Shape.toNode, Shapes.toSubs, Node.WidthOK, Subs.WidthOKAll, Subs.len]⟩

/-- the hypotheses of `load_then_save_reachable` are satisfiable together: the demonstration instance after its
program (quiet, state 1 active again after a round trip through state 2) as source, the freshly booted one
(activated) as destination -/
example : ∃ src dst : Mach Demo.DU, QuietOf Demo.shape Demo.cfg src ∧ ReachableOf Demo.shape Demo.cfg dst ∧
    src.w.err = none ∧ dst.w.err = none ∧ src.root.machineActive = true ∧ dst.root.machineActive = true ∧
    (Demo.shape.toNode 0 0).WidthOK :=
  ⟨_, _, Demo.quiet, Api.reachable_boot Demo.shape Demo.cfg Demo.ds [], Demo.err_none,
    (by decide +kernel : Demo.mach.w.err = none), Demo.active,
    (by decide +kernel : Demo.mach.root.machineActive = true),
    by simp [Demo.shape, Shape.toNode, Shapes.toSubs, Node.WidthOK, Subs.WidthOKAll, Subs.len]⟩

/-- … and the loaded instance of that example really went through `load` without contract violation -/
example : (Demo.mach.load (Api.run Demo.mach Demo.prog).save).w.err = none ∧
    (Demo.mach.load (Api.run Demo.mach Demo.prog).save).save = (Api.run Demo.mach Demo.prog).save := by
  decide +kernel

end Hfsm.Props.C08
