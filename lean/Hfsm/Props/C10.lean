/-
C10 — behaviour is a function of inputs, callbacks and random numbers only.

Property text: what an instance does is determined solely by its machine type, the sequence of API
calls, the values user callbacks return and the numbers its generator yields; two instances driven
identically behave identically whatever their storage previously contained, wherever they live and
whatever other instances do — including the first activation inside the constructor — and a copy of an
instance continues exactly as the original would.

HONEST SCOPE.  In the model this is true *by construction*: `Api.run` is a Lean function of
(shape, configuration, decision stream, generator stream, operations); there is no memory, no address, no
other instance it could depend on, and a copy of a value is that value.  The theorems below only make
this explicit; they carry no proof effort.  The content of C10 is entirely in the tie to the C++:
 * every correspondence run replays transcripts of instances constructed by placement-new into storage
   pre-filled with 0x00 / 0xFF / 0xAA / 0x3C through this very function — agreement means the
   implementation's behaviour did not depend on the fill;
 * tools/engine_c10.py runs the same generated binary with different storage fills and offsets
   (environment knobs, no script randomness consumed) and with the built-in generator, and compares whole
   transcripts byte for byte; it drives a mid-scenario copy and its original identically and compares;
 * uninitialised reads, layout and lifetime (F3 fixed, F4 known finding: a copy keeps a reference to the
   original's built-in generator) are C++ notions with no counterpart here.
-/
import Hfsm.Proofs.Api
import Hfsm.Proofs.DemoMach

namespace Hfsm.Props.C10
open Hfsm
variable {U : Type} [UtilArith U]

/-- Behaviour (the whole instance: tree, world with its trace, report) is a function of the machine
structure, the configuration, what the callbacks decide, what the generator yields and the API calls. -/
theorem behaviour_is_a_function (shape : Shape) (cfg : Config) (ds : List (Decision U)) (rng : List U)
    (ops : List Api.Op) (m₁ m₂ : Mach U)
    (h₁ : m₁ = Api.boot shape cfg ds rng) (h₂ : m₂ = Api.boot shape cfg ds rng) :
    Api.run m₁ ops = Api.run m₂ ops := by
  subst h₁; subst h₂; rfl

/-- a copy of an instance (`InstanceT(const InstanceT&)`): every member is copied -/
def copy (m : Mach U) : Mach U := { root := m.root, w := m.w, structActive := m.structActive, activity := m.activity }

/-- A copy continues exactly as the original would. -/
theorem copy_continues (m : Mach U) (ops : List Api.Op) : Api.run (copy m) ops = Api.run m ops := rfl

/-- … also when taken mid-scenario. -/
theorem copy_mid_scenario (m : Mach U) (before after : List Api.Op) :
    Api.run (copy (Api.run m before)) after = Api.run m (before ++ after) := by
  rw [Api.run_append]; rfl

/-- Operation sequences compose: there is no hidden state besides the instance value. -/
theorem run_composes (m : Mach U) (a b : List Api.Op) : Api.run m (a ++ b) = Api.run (Api.run m a) b :=
  Api.run_append m a b

/-! ### "whatever other instances do": any interleaving with the operations of other instances -/

/-- one step of a process holding several instances: operation `o` on instance `k` -/
def stepMany (ms : List (Mach U)) (x : Nat × Api.Op) : List (Mach U) :=
  ms.modify x.1 (fun m => Api.step m x.2)

/-- the operations addressed to instance `k`, in order -/
def opsOf (k : Nat) (l : List (Nat × Api.Op)) : List Api.Op :=
  (l.filter (fun x => x.1 == k)).map Prod.snd

theorem stepMany_length (ms : List (Mach U)) (x : Nat × Api.Op) : (stepMany ms x).length = ms.length := by
  simp [stepMany]

theorem stepMany_get (ms : List (Mach U)) (x : Nat × Api.Op) (k : Nat) :
    (stepMany ms x)[k]? = if x.1 = k then ms[k]?.map (fun m => Api.step m x.2) else ms[k]? := by
  unfold stepMany
  rw [List.getElem?_modify]
  by_cases h : x.1 = k
  · simp [h]
  · simp [h]

/-- Instances of one process, driven in ANY interleaving (operation granularity), each end up exactly where they
would have ended up alone: instance `k` sees only the operations addressed to it. -/
theorem interleaving_independent (l : List (Nat × Api.Op)) : ∀ (ms : List (Mach U)) (k : Nat),
    (l.foldl stepMany ms)[k]? = ms[k]?.map (fun m => Api.run m (opsOf k l)) := by
  induction l with
  | nil => intro ms k; simp [opsOf, Api.run_nil]
  | cons x r ih =>
    intro ms k
    rw [List.foldl_cons, ih, stepMany_get]
    by_cases h : x.1 = k
    · have hb : (x.1 == k) = true := by simp [h]
      simp only [h, if_true, opsOf, List.filter_cons, hb]
      cases ms[k]? with
      | none => rfl
      | some m => simp [Api.run_cons, h]
    · have hb : (x.1 == k) = false := by simp [h]
      simp only [h, if_false, opsOf, List.filter_cons, hb]
      rfl

/-- … in particular two interleavings that agree on the operations of instance `k` leave it in the same state. -/
theorem other_instances_irrelevant (l₁ l₂ : List (Nat × Api.Op)) (ms₁ ms₂ : List (Mach U)) (k : Nat)
    (hm : ms₁[k]? = ms₂[k]?) (ho : opsOf k l₁ = opsOf k l₂) :
    (l₁.foldl stepMany ms₁)[k]? = (l₂.foldl stepMany ms₂)[k]? := by
  rw [interleaving_independent, interleaving_independent, hm, ho]

-- non-vacuity: two demonstration instances, the second driven between the first one's operations
example : ((([(0, Api.Op.update), (1, .update), (1, .react), (0, .update)] : List (Nat × Api.Op)).foldl stepMany
      [Demo.mach, Demo.mach])[0]?).map (fun m => m.w.trace.length) =
    some (Api.run Demo.mach [.update, .update]).w.trace.length := by
  decide +kernel

-- the statements are about something: the demonstration machine does run
example : (Api.run Demo.mach Demo.prog).w.trace.length = 72 := by decide +kernel

end Hfsm.Props.C10

/-
Property theorems (for Props/INDEX.json):
  behaviour_is_a_function, copy_continues, copy_mid_scenario, run_composes,
  interleaving_independent, other_instances_irrelevant (stepMany_length, stepMany_get: helpers)
-/
