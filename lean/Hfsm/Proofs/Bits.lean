/-
Helper lemmas for `Props.C18` (bit array part): the storage seen as a function `bitAt : Nat → Bool`
(bit `i` = bit `i % 8` of unit `i / 8`), and what every model operation does to it.
-/
import Hfsm.Model.Bits
namespace Hfsm.Model.Bits

/-- Bit `i` of the storage: bit `i % 8` of unit `i / 8` (`false` beyond the last unit). -/
def bitAt (s : Storage) (i : Nat) : Bool := (s.getD (i / 8) 0#8).getLsbD (i % 8)

/-! ### bytes -/

theorem getD_set (s : Storage) (k j : Nat) (b d : Byte) :
    (s.set k b).getD j d = if k = j ∧ k < s.length then b else s.getD j d := by
  simp only [List.getD_eq_getElem?_getD, List.getElem?_set]
  by_cases h : k = j
  · subst h
    by_cases hl : k < s.length
    · simp [hl]
    · simp [hl]
  · simp [h]

theorem getD_oob (s : Storage) (k : Nat) (d : Byte) (h : s.length ≤ k) : s.getD k d = d := by
  simp [List.getD_eq_getElem?_getD, List.getElem?_eq_none h]

theorem getD_inb (s : Storage) (k : Nat) (d d' : Byte) (h : k < s.length) : s.getD k d = s.getD k d' := by
  simp [List.getD_eq_getElem?_getD, List.getElem?_eq_getElem h]

theorem getLsbD_mask (k i : Nat) (hk : k < 8) : (mask k).getLsbD i = decide (i = k) := by
  unfold mask
  simp only [BitVec.getLsbD_shiftLeft, BitVec.getLsbD_one]
  by_cases h : i = k
  · subst h; simp [hk]
  · simp [h]; omega

theorem byte_ne_zero_iff (b : Byte) : b ≠ 0#8 ↔ ∃ k, k < 8 ∧ b.getLsbD k = true := by
  constructor
  · intro h
    apply Classical.byContradiction
    intro hn
    apply h
    apply BitVec.eq_of_getLsbD_eq
    intro i hi
    simp
    cases hb : b.getLsbD i
    · rfl
    · exact absurd ⟨i, hi, hb⟩ hn
  · rintro ⟨k, hk, hb⟩ h0
    subst h0
    simp at hb

theorem byte_eq_zero_iff (b : Byte) : b = 0#8 ↔ ∀ k, k < 8 → b.getLsbD k = false := by
  constructor
  · intro h k _; subst h; simp
  · intro h
    apply Classical.byContradiction
    intro hn
    obtain ⟨k, hk, hb⟩ := (byte_ne_zero_iff b).1 hn
    rw [h k hk] at hb; cases hb

theorem byte_ext (a b : Byte) (h : ∀ k, k < 8 → a.getLsbD k = b.getLsbD k) : a = b :=
  BitVec.eq_of_getLsbD_eq (fun i hi => h i hi)

theorem and_mask_ne_zero (b : Byte) (k : Nat) (hk : k < 8) :
    ((b &&& mask k) != 0) = b.getLsbD k := by
  cases h : b.getLsbD k
  · have : b &&& mask k = 0 := by
      apply BitVec.eq_of_getLsbD_eq
      intro i hi
      simp [getLsbD_mask k i hk]
      intro hb hik; subst hik; simp [h] at hb
    simp [this]
  · have : b &&& mask k ≠ 0 := by
      intro h0
      have := congrArg (fun x => x.getLsbD k) h0
      simp [getLsbD_mask k k hk, h] at this
    simpa using this

theorem tailMask_fin : ∀ bit : Fin 8, ∀ t : Fin 8,
    ((1#8 <<< bit.val) - 1#8).getLsbD t.val = decide (t.val < bit.val) := by decide

theorem getLsbD_tailMask (bit t : Nat) (hb : bit < 8) (ht : t < 8) :
    ((1#8 <<< bit) - 1#8).getLsbD t = decide (t < bit) :=
  tailMask_fin ⟨bit, hb⟩ ⟨t, ht⟩

/-! ### `bitAt` -/

theorem bitAt_oob (s : Storage) (i : Nat) (h : 8 * s.length ≤ i) : bitAt s i = false := by
  unfold bitAt
  rw [getD_oob s (i / 8) 0#8 (by omega)]
  simp

theorem bitAt_true_lt (s : Storage) (i : Nat) (h : bitAt s i = true) : i < 8 * s.length := by
  apply Classical.byContradiction
  intro hn
  rw [bitAt_oob s i (by omega)] at h
  cases h

theorem bitAt_unit (s : Storage) (u k : Nat) (hk : k < 8) :
    bitAt s (8 * u + k) = (s.getD u 0#8).getLsbD k := by
  unfold bitAt
  have h1 : (8 * u + k) / 8 = u := by omega
  have h2 : (8 * u + k) % 8 = k := by omega
  rw [h1, h2]

theorem bitAt_setByte (s : Storage) (k : Nat) (b : Byte) (i : Nat) :
    bitAt (s.set k b) i = if i / 8 = k ∧ k < s.length then b.getLsbD (i % 8) else bitAt s i := by
  unfold bitAt
  rw [getD_set]
  by_cases h : k = i / 8 ∧ k < s.length
  · obtain ⟨h1, h2⟩ := h
    subst h1
    simp [h2]
  · have h' : ¬ (i / 8 = k ∧ k < s.length) := fun ⟨a, b⟩ => h ⟨a.symm, b⟩
    simp [h, h']

theorem get_eq_bitAt (s : Storage) (i : Nat) : get s i = bitAt s i := by
  unfold get bitAt
  exact and_mask_ne_zero _ _ (Nat.mod_lt _ (by decide))

theorem length_set (s : Storage) (i : Nat) : (set s i).length = s.length := by simp [set]
theorem length_clear (s : Storage) (i : Nat) : (clear s i).length = s.length := by simp [clear]
theorem length_setAll (cap : Nat) (s : Storage) : (setAll cap s).length = s.length := by
  unfold setAll
  simp only
  split <;> simp
theorem length_clearAll (s : Storage) : (clearAll s).length = s.length := by simp [clearAll]
theorem length_mk (cap : Nat) : (mk cap).length = unitCount cap := by simp [mk]

theorem bitAt_set (s : Storage) (i j : Nat) :
    bitAt (set s i) j = (decide (j = i ∧ i / 8 < s.length) || bitAt s j) := by
  unfold set
  rw [bitAt_setByte]
  by_cases h : j / 8 = i / 8 ∧ i / 8 < s.length
  · obtain ⟨h1, h2⟩ := h
    simp only [h1, h2, and_self, if_true, and_true]
    rw [BitVec.getLsbD_or, getLsbD_mask _ _ (Nat.mod_lt _ (by decide))]
    unfold bitAt
    rw [h1]
    have : (j % 8 = i % 8) ↔ j = i := by omega
    simp only [this]
    rw [Bool.or_comm]
  · rw [if_neg h]
    have : ¬ (j = i ∧ i / 8 < s.length) := by
      rintro ⟨a, b⟩; subst a; exact h ⟨rfl, b⟩
    simp [this]

theorem bitAt_clear (s : Storage) (i j : Nat) :
    bitAt (clear s i) j = (!decide (j = i) && bitAt s j) := by
  unfold clear
  rw [bitAt_setByte]
  by_cases h : j / 8 = i / 8 ∧ i / 8 < s.length
  · obtain ⟨h1, h2⟩ := h
    simp only [h1, h2, and_self, if_true]
    rw [BitVec.getLsbD_and, BitVec.getLsbD_not, getLsbD_mask _ _ (Nat.mod_lt _ (by decide))]
    unfold bitAt
    rw [h1]
    have hlt : j % 8 < 8 := Nat.mod_lt _ (by decide)
    have : (j % 8 = i % 8) ↔ j = i := by omega
    simp only [this, hlt, decide_true, Bool.true_and]
    rw [Bool.and_comm]
  · rw [if_neg h]
    by_cases hji : j = i
    · subst hji
      have hl : s.length ≤ j / 8 := by
        apply Classical.byContradiction; intro hn; exact h ⟨rfl, by omega⟩
      rw [bitAt_oob s j (by omega)]
      simp
    · simp [hji]

theorem bitAt_allOnes (s : Storage) (i : Nat) :
    bitAt (s.map (fun _ => 255#8)) i = decide (i < 8 * s.length) := by
  unfold bitAt
  by_cases h : i / 8 < s.length
  · have hlt : i % 8 < 8 := Nat.mod_lt _ (by decide)
    have : i < 8 * s.length := by omega
    simp [List.getD_eq_getElem?_getD, h, this]
    have : ∀ t : Fin 8, (255#8).getLsbD t.val = true := by decide
    exact this ⟨i % 8, hlt⟩
  · have : ¬ i < 8 * s.length := by omega
    rw [getD_oob _ _ _ (by simp; omega)]
    simp [this]

/-- `set()` (after the padding repair) sets exactly the indices below the capacity. -/
theorem bitAt_setAll (cap : Nat) (s : Storage) (hwf : s.length = unitCount cap) (i : Nat) :
    bitAt (setAll cap s) i = decide (i < cap) := by
  unfold setAll
  simp only
  unfold unitCount contain at hwf
  by_cases ht : cap % 8 = 0
  · have : ¬ cap % 8 ≠ 0 := by omega
    rw [if_neg this, bitAt_allOnes]
    congr 1
    apply propext
    omega
  · rw [if_pos ht, bitAt_setByte, bitAt_allOnes]
    simp only [List.length_map]
    unfold unitCount contain
    by_cases h : i / 8 = (cap + (8 - 1)) / 8 - 1 ∧ (cap + (8 - 1)) / 8 - 1 < s.length
    · rw [if_pos h, getLsbD_tailMask _ _ (Nat.mod_lt _ (by decide)) (Nat.mod_lt _ (by decide))]
      congr 1
      apply propext
      omega
    · rw [if_neg h]
      congr 1
      apply propext
      omega

theorem bitAt_clearAll (s : Storage) (i : Nat) : bitAt (clearAll s) i = false := by
  unfold bitAt clearAll
  by_cases h : i / 8 < s.length
  · simp [List.getD_eq_getElem?_getD, h]
  · rw [getD_oob _ _ _ (by simp; omega)]
    simp

theorem bitAt_mk (cap i : Nat) : bitAt (mk cap) i = false := by
  unfold bitAt mk
  by_cases h : i / 8 < unitCount cap
  · simp [List.getD_eq_getElem?_getD, h]
  · rw [getD_oob _ _ _ (by simp; omega)]
    simp

/-- Two storages of the same length are equal iff they agree on every bit. -/
theorem storage_ext : ∀ (a b : Storage), a.length = b.length → (∀ i, bitAt a i = bitAt b i) → a = b
  | [], [], _, _ => rfl
  | [], _ :: _, h, _ => by simp at h
  | _ :: _, [], h, _ => by simp at h
  | x :: xs, y :: ys, hl, h => by
    have hxy : x = y := by
      apply byte_ext
      intro k hk
      have := h k
      unfold bitAt at this
      have h1 : k / 8 = 0 := by omega
      have h2 : k % 8 = k := by omega
      simpa [h1, h2] using this
    have : xs = ys := by
      apply storage_ext xs ys (by simpa using hl)
      intro i
      have := h (i + 8)
      unfold bitAt at this ⊢
      have h1 : (i + 8) / 8 = i / 8 + 1 := by omega
      have h2 : (i + 8) % 8 = i % 8 := by omega
      simpa [h1, h2] using this
    rw [hxy, this]

theorem bitAt_cons_lt (x : Byte) (xs : Storage) (i : Nat) (h : i < 8) :
    bitAt (x :: xs) i = x.getLsbD i := by
  unfold bitAt
  have h1 : i / 8 = 0 := by omega
  have h2 : i % 8 = i := by omega
  simp [h1, h2]

theorem bitAt_cons_add (x : Byte) (xs : Storage) (i : Nat) :
    bitAt (x :: xs) (i + 8) = bitAt xs i := by
  unfold bitAt
  have h1 : (i + 8) / 8 = i / 8 + 1 := by omega
  have h2 : (i + 8) % 8 = i % 8 := by omega
  simp [h1, h2]

theorem bitAt_cons_ge (x : Byte) (xs : Storage) (i : Nat) (h : 8 ≤ i) :
    bitAt (x :: xs) i = bitAt xs (i - 8) := by
  have : i = (i - 8) + 8 := by omega
  rw [this, bitAt_cons_add]
  simp

/-! ### whole-array predicates -/

theorem empty_iff : ∀ (s : Storage), empty s = true ↔ ∀ i, bitAt s i = false
  | [] => by simp [empty, bitAt]
  | x :: xs => by
    have ih := empty_iff xs
    unfold empty at ih ⊢
    simp only [List.all_cons, Bool.and_eq_true, beq_iff_eq]
    rw [ih, byte_eq_zero_iff]
    constructor
    · rintro ⟨hx, hxs⟩ i
      by_cases hi : i < 8
      · rw [bitAt_cons_lt _ _ _ hi]; exact hx i hi
      · rw [bitAt_cons_ge _ _ _ (by omega)]; exact hxs _
    · intro h
      constructor
      · intro k hk; rw [← bitAt_cons_lt x xs k hk]; exact h k
      · intro i; rw [← bitAt_cons_add x xs i]; exact h _

theorem neq_eq_decide : ∀ (a b : Storage), a.length = b.length → neq a b = decide (a ≠ b)
  | [], [], _ => by simp [neq]
  | [], _ :: _, h => by simp at h
  | _ :: _, [], h => by simp at h
  | x :: xs, y :: ys, hl => by
    have ih := neq_eq_decide xs ys (by simpa using hl)
    unfold neq
    by_cases hxy : x = y
    · subst hxy; simp [ih]
    · simp [hxy]

theorem andAssign_length (a b : Storage) (h : a.length = b.length) :
    (andAssign a b).length = a.length := by
  simp [andAssign, h]

theorem bitAt_andAssign : ∀ (a b : Storage) (i : Nat),
    bitAt (andAssign a b) i = (bitAt a i && bitAt b i)
  | [], b, i => by simp [andAssign, bitAt]
  | x :: xs, [], i => by simp [andAssign, bitAt]
  | x :: xs, y :: ys, i => by
    have ih := bitAt_andAssign xs ys
    unfold andAssign at ih ⊢
    simp only [List.zipWith_cons_cons]
    by_cases hi : i < 8
    · rw [bitAt_cons_lt _ _ _ hi, bitAt_cons_lt _ _ _ hi, bitAt_cons_lt _ _ _ hi, BitVec.getLsbD_and]
    · rw [bitAt_cons_ge _ _ _ (by omega), bitAt_cons_ge _ _ _ (by omega),
        bitAt_cons_ge _ _ _ (by omega), ih]

/-- `operator &` as coded: every unit has a bit set in both operands. -/
theorem andAny_iff : ∀ (a b : Storage), a.length = b.length →
    (andAny a b = true ↔
      ∀ u, u < a.length → ∃ k, k < 8 ∧ bitAt a (8 * u + k) = true ∧ bitAt b (8 * u + k) = true)
  | [], [], _ => by simp [andAny]
  | [], _ :: _, h => by simp at h
  | _ :: _, [], h => by simp at h
  | x :: xs, y :: ys, hl => by
    have ih := andAny_iff xs ys (by simpa using hl)
    unfold andAny
    by_cases hz : (x &&& y) = 0#8
    · simp only [hz, beq_self_eq_true, if_true]
      constructor
      · intro h; cases h
      · intro h
        obtain ⟨k, hk, h1, h2⟩ := h 0 (by simp)
        rw [bitAt_unit _ _ _ hk] at h1 h2
        simp at h1 h2
        have := (byte_eq_zero_iff _).1 hz k hk
        rw [BitVec.getLsbD_and, h1, h2] at this
        cases this
    · have hz' : ((x &&& y) == 0#8) = false := by simpa using hz
      simp only [hz', Bool.false_eq_true, if_false]
      rw [ih]
      obtain ⟨k0, hk0, hb0⟩ := (byte_ne_zero_iff _).1 hz
      rw [BitVec.getLsbD_and] at hb0
      simp at hb0
      constructor
      · intro h u hu
        cases u with
        | zero =>
          refine ⟨k0, hk0, ?_, ?_⟩
          · rw [bitAt_unit _ _ _ hk0]; simpa using hb0.1
          · rw [bitAt_unit _ _ _ hk0]; simpa using hb0.2
        | succ u =>
          obtain ⟨k, hk, h1, h2⟩ := h u (by simpa using hu)
          refine ⟨k, hk, ?_, ?_⟩
          · have : 8 * (u + 1) + k = (8 * u + k) + 8 := by omega
            rw [this, bitAt_cons_add]; exact h1
          · have : 8 * (u + 1) + k = (8 * u + k) + 8 := by omega
            rw [this, bitAt_cons_add]; exact h2
      · intro h u hu
        obtain ⟨k, hk, h1, h2⟩ := h (u + 1) (by simpa using hu)
        refine ⟨k, hk, ?_, ?_⟩
        · have : 8 * (u + 1) + k = (8 * u + k) + 8 := by omega
          rw [this, bitAt_cons_add] at h1; exact h1
        · have : 8 * (u + 1) + k = (8 * u + k) + 8 := by omega
          rw [this, bitAt_cons_add] at h2; exact h2

/-! ### views -/

theorem view_get_eq (s : Storage) (unit i : Nat) : View.get s unit i = get s (8 * unit + i) := by
  unfold View.get get
  have h1 : (8 * unit + i) / 8 = unit + i / 8 := by omega
  have h2 : (8 * unit + i) % 8 = i % 8 := by omega
  rw [h1, h2]

theorem view_set_eq (s : Storage) (unit i : Nat) : View.set s unit i = set s (8 * unit + i) := by
  unfold View.set set
  have h1 : (8 * unit + i) / 8 = unit + i / 8 := by omega
  have h2 : (8 * unit + i) % 8 = i % 8 := by omega
  rw [h1, h2]

theorem view_clear_eq (s : Storage) (unit i : Nat) : View.clear s unit i = clear s (8 * unit + i) := by
  unfold View.clear clear
  have h1 : (8 * unit + i) / 8 = unit + i / 8 := by omega
  have h2 : (8 * unit + i) % 8 = i % 8 := by omega
  rw [h1, h2]

theorem length_clearUnits : ∀ (k : Nat) (s : Storage) (a : Nat), (View.clearUnits s a k).length = s.length
  | 0, s, a => rfl
  | k + 1, s, a => by
    unfold View.clearUnits
    rw [length_clearUnits k]; simp

theorem bitAt_clearUnits : ∀ (k : Nat) (s : Storage) (a i : Nat),
    bitAt (View.clearUnits s a k) i = (bitAt s i && !(decide (a ≤ i / 8) && decide (i / 8 < a + k)))
  | 0, s, a, i => by
    unfold View.clearUnits
    have : ¬ (a ≤ i / 8 ∧ i / 8 < a + 0) := by omega
    cases h : bitAt s i <;> simp <;> omega
  | k + 1, s, a, i => by
    unfold View.clearUnits
    rw [bitAt_clearUnits k, bitAt_setByte]
    by_cases h : i / 8 = a ∧ a < s.length
    · obtain ⟨h1, h2⟩ := h
      rw [if_pos ⟨h1, h2⟩]
      have h3 : a ≤ i / 8 := by omega
      have h4 : i / 8 < a + (k + 1) := by omega
      simp [h3, h4]
    · rw [if_neg h]
      by_cases ha : i / 8 = a
      · have hl : s.length ≤ a := by
          apply Classical.byContradiction; intro hn; exact h ⟨ha, by omega⟩
        rw [bitAt_oob s i (by omega)]
        simp
      · have e : (decide (a + 1 ≤ i / 8) && decide (i / 8 < a + 1 + k))
               = (decide (a ≤ i / 8) && decide (i / 8 < a + (k + 1))) := by
          by_cases h1 : a + 1 ≤ i / 8 <;> by_cases h2 : i / 8 < a + 1 + k <;>
            simp [h1, h2] <;> omega
        rw [e]

/-- `scanFull` finds a non-zero unit iff one of the `k` units from `a` on is non-zero. -/
theorem scanFull_fst : ∀ (k : Nat) (oob : Byte) (s : Storage) (a : Nat),
    ((View.scanFull oob s a k).1 = true ↔ ∃ j, j < k ∧ s.getD (a + j) oob ≠ 0#8)
  | 0, oob, s, a => by simp [View.scanFull]
  | k + 1, oob, s, a => by
    unfold View.scanFull
    by_cases h : s.getD a oob = 0#8
    · simp only [h, bne_self_eq_false, Bool.false_eq_true, if_false]
      rw [scanFull_fst k]
      constructor
      · rintro ⟨j, hj, hne⟩
        exact ⟨j + 1, by omega, by rw [show a + (j + 1) = a + 1 + j by omega]; exact hne⟩
      · rintro ⟨j, hj, hne⟩
        cases j with
        | zero => exact absurd h hne
        | succ j => exact ⟨j, by omega, by rw [show a + 1 + j = a + (j + 1) by omega]; exact hne⟩
    · have : (s.getD a oob != 0#8) = true := by simpa using h
      simp only [this, if_true, true_iff]
      exact ⟨0, by omega, h⟩

/-- `scanFull` reads only units `a … a+k-1`. -/
theorem scanFull_reads : ∀ (k : Nat) (oob : Byte) (s : Storage) (a : Nat),
    ∀ x ∈ (View.scanFull oob s a k).2, a ≤ x ∧ x < a + k
  | 0, oob, s, a => by simp [View.scanFull]
  | k + 1, oob, s, a => by
    unfold View.scanFull
    cases h : (s.getD a oob != 0#8)
    · simp only [Bool.false_eq_true, if_false]
      intro x hx
      simp only [List.mem_cons] at hx
      rcases hx with hx | hx
      · omega
      · have := scanFull_reads k oob s (a + 1) x hx
        omega
    · simp only [if_true]
      intro x hx; simp at hx; omega

/-- When no full unit is non-zero, `scanFull` has read all of them. -/
theorem scanFull_reads_all : ∀ (k : Nat) (oob : Byte) (s : Storage) (a : Nat),
    (View.scanFull oob s a k).1 = false → (View.scanFull oob s a k).2 = (List.range k).map (a + ·)
  | 0, oob, s, a => by simp [View.scanFull]
  | k + 1, oob, s, a => by
    unfold View.scanFull
    cases h : (s.getD a oob != 0#8)
    · simp only [Bool.false_eq_true, if_false]
      intro hf
      rw [scanFull_reads_all k oob s (a + 1) hf, List.range_succ_eq_map]
      simp only [List.map_cons, List.map_map, Nat.add_zero]
      congr 1
      apply List.map_congr_left
      intro x _
      simp only [Function.comp]
      omega
    · simp

/-- The default value is irrelevant for `scanFull` when all `k` units are inside the array. -/
theorem scanFull_oob_irrel : ∀ (k : Nat) (o1 o2 : Byte) (s : Storage) (a : Nat),
    a + k ≤ s.length → View.scanFull o1 s a k = View.scanFull o2 s a k
  | 0, _, _, _, _, _ => rfl
  | k + 1, o1, o2, s, a, h => by
    unfold View.scanFull
    rw [getD_inb s a o1 o2 (by omega), scanFull_oob_irrel k o1 o2 s (a + 1) (by omega)]

/-- Value of `operator bool` (out-of-array reads yielding 0): some bit of `[8·unit, 8·unit+width)` is set. -/
theorem toBool_iff (s : Storage) (unit width : Nat) :
    View.toBool s unit width = true ↔ ∃ i, i < width ∧ bitAt s (8 * unit + i) = true := by
  unfold View.toBool View.toBoolRun
  simp only
  cases hsc : (View.scanFull 0#8 s unit (width / 8)).1
  · -- no full unit is non-zero
    simp only [Bool.false_eq_true, if_false]
    have hz : ∀ j, j < width / 8 → s.getD (unit + j) 0#8 = 0#8 := by
      intro j hj
      apply Classical.byContradiction
      intro hne
      have := (scanFull_fst (width / 8) 0#8 s unit).2 ⟨j, hj, hne⟩
      rw [hsc] at this; cases this
    by_cases hb0 : width % 8 = 0
    · rw [if_pos hb0]
      simp only [Bool.false_eq_true, false_iff]
      rintro ⟨i, hi, hb⟩
      have hi8 : i % 8 < 8 := Nat.mod_lt _ (by decide)
      have e : 8 * unit + i = 8 * (unit + i / 8) + i % 8 := by omega
      rw [e, bitAt_unit _ _ _ hi8, hz _ (by omega)] at hb
      simp at hb
    rw [if_neg hb0]
    have hbit : width % 8 < 8 := Nat.mod_lt _ (by decide)
    constructor
    · intro h
      have hne : s.getD (unit + width / 8) 0#8 &&& ((1#8 <<< (width % 8)) - 1#8) ≠ 0#8 := by
        simpa using h
      obtain ⟨t, ht, hb⟩ := (byte_ne_zero_iff _).1 hne
      rw [BitVec.getLsbD_and, getLsbD_tailMask _ _ hbit ht] at hb
      simp only [Bool.and_eq_true, decide_eq_true_eq] at hb
      refine ⟨8 * (width / 8) + t, by omega, ?_⟩
      have : 8 * unit + (8 * (width / 8) + t) = 8 * (unit + width / 8) + t := by omega
      rw [this, bitAt_unit _ _ _ ht]
      exact hb.1
    · rintro ⟨i, hi, hb⟩
      have hi8 : i % 8 < 8 := Nat.mod_lt _ (by decide)
      have e : 8 * unit + i = 8 * (unit + i / 8) + i % 8 := by omega
      rw [e, bitAt_unit _ _ _ hi8] at hb
      by_cases hfull : i / 8 < width / 8
      · rw [hz _ hfull] at hb; simp at hb
      · have h1 : i / 8 = width / 8 := by omega
        have h2 : i % 8 < width % 8 := by omega
        rw [h1] at hb
        have hne : s.getD (unit + width / 8) 0#8 &&& ((1#8 <<< (width % 8)) - 1#8) ≠ 0#8 := by
          apply (byte_ne_zero_iff _).2
          refine ⟨i % 8, hi8, ?_⟩
          rw [BitVec.getLsbD_and, getLsbD_tailMask _ _ hbit hi8, hb]
          simp [h2]
        simpa using hne
  · simp only [if_true, true_iff]
    obtain ⟨j, hj, hne⟩ := (scanFull_fst (width / 8) 0#8 s unit).1 hsc
    obtain ⟨t, ht, hb⟩ := (byte_ne_zero_iff _).1 hne
    refine ⟨8 * j + t, by omega, ?_⟩
    have : 8 * unit + (8 * j + t) = 8 * (unit + j) + t := by omega
    rw [this, bitAt_unit _ _ _ ht]
    exact hb

/-- Under the `bits()` precondition the value an out-of-array read would yield does not influence
`operator bool`: neither its result nor the bytes it reads. -/
theorem toBoolRun_oob_irrel (o1 o2 : Byte) (s : Storage) (unit width : Nat)
    (hfit : View.fits s unit width) :
    View.toBoolRun o1 s unit width = View.toBoolRun o2 s unit width := by
  unfold View.fits contain at hfit
  unfold View.toBoolRun
  simp only
  rw [scanFull_oob_irrel (width / 8) o1 o2 s unit (by omega)]
  cases (View.scanFull o2 s unit (width / 8)).1
  · simp only [Bool.false_eq_true, if_false]
    by_cases hb : width % 8 = 0
    · rw [if_pos hb, if_pos hb]
    · rw [if_neg hb, if_neg hb, getD_inb s (unit + width / 8) o1 o2 (by omega)]
  · simp

end Hfsm.Model.Bits
