/-
Which fields of the tree the request passes touch: `mark`, `request`, `fwdRequest`, `fwdActive` and the
report passes change request marks only (`requested`, `remain`, orthogonal bits); `schedule` changes
`resumable` only; `restoreMarks` puts the marks of the backup back.
-/
import Hfsm.Model.Machine

set_option linter.unusedSectionVars false

namespace Hfsm
variable {U : Type} [UtilArith U]

/-! ### `mark` -/

theorem Subs.setBit_clearMarks : (s : Subs) → (i : Nat) → (s.setBit i).clearMarks = s.clearMarks
  | .nil, _ => rfl
  | .cons _ n r, 0 => by simp only [Subs.setBit, Subs.clearMarks]
  | .cons b n r, i+1 => by simp only [Subs.setBit, Subs.clearMarks, Subs.setBit_clearMarks r i]

mutual
theorem Node.mark_clearMarks : (n : Node) → (p : List Nat) → (n.mark p).1.clearMarks = n.clearMarks
  | .leaf id inj, [] => by simp only [Node.mark]
  | .leaf id inj, _ :: _ => by simp only [Node.mark]
  | .compo id rid inj h st a r q m s, [] => by simp only [Node.mark]
  | .ortho id rid inj h s, [] => by simp only [Node.mark]
  | .compo id rid inj h st a r q m s, i :: rest => by
    simp only [Node.mark]
    have ih := Subs.markAt_clearMarks s i rest
    split <;> (try split) <;> simp only [Node.clearMarks, ih]
  | .ortho id rid inj h s, i :: rest => by
    simp only [Node.mark, Node.clearMarks, Subs.setBit_clearMarks, Subs.markAt_clearMarks s i rest]
theorem Subs.markAt_clearMarks : (s : Subs) → (i : Nat) → (p : List Nat) → (s.markAt i p).1.clearMarks = s.clearMarks
  | .nil, _, _ => by simp only [Subs.markAt]
  | .cons b n r, 0, p => by simp only [Subs.markAt, Subs.clearMarks, Node.mark_clearMarks n p]
  | .cons b n r, i+1, p => by simp only [Subs.markAt, Subs.clearMarks, Subs.markAt_clearMarks r i p]
end

/-! ### report passes -/

mutual
theorem Node.reportChange_clearMarks : (n : Node) → (w : World U) → (n.reportChange w).1.clearMarks = n.clearMarks
  | .leaf id inj, w => by simp only [Node.reportChange, Node.clearMarks]
  | .compo id rid inj h st a r q m s, w => by
    have i1 := Subs.reportChangeAt_clearMarks s
    have i2 := Subs.reportChangeAll_clearMarks s
    have i3 := Subs.reportChangeTop_clearMarks s
    cases st <;> simp only [Node.reportChange] <;> (repeat' split) <;> simp only [Node.clearMarks, i1, i2, i3]
  | .ortho id rid inj h s, w => by
    simp only [Node.reportChange, Node.clearMarks, Subs.reportChangeAll_clearMarks s]
theorem Subs.reportChangeAt_clearMarks : (s : Subs) → (i : Nat) → (w : World U) →
    (s.reportChangeAt i w).1.clearMarks = s.clearMarks
  | .nil, _, w => by simp only [Subs.reportChangeAt]
  | .cons b n r, 0, w => by simp only [Subs.reportChangeAt, Subs.clearMarks, Node.reportChange_clearMarks n]
  | .cons b n r, i+1, w => by simp only [Subs.reportChangeAt, Subs.clearMarks, Subs.reportChangeAt_clearMarks r i]
theorem Subs.reportChangeAll_clearMarks : (s : Subs) → (w : World U) → (s.reportChangeAll w).1.clearMarks = s.clearMarks
  | .nil, w => by simp only [Subs.reportChangeAll]
  | .cons b n r, w => by
    simp only [Subs.reportChangeAll, Subs.clearMarks, Node.reportChange_clearMarks n, Subs.reportChangeAll_clearMarks r]
theorem Subs.reportChangeTop_clearMarks : (s : Subs) → (rks : List Int) → (top : Int) → (w : World U) →
    (s.reportChangeTop rks top w).1.clearMarks = s.clearMarks
  | .nil, _, _, w => by simp only [Subs.reportChangeTop]
  | .cons b n r, rks, top, w => by
    simp only [Subs.reportChangeTop]
    split <;> simp only [Subs.clearMarks, Node.reportChange_clearMarks n, Subs.reportChangeTop_clearMarks r]
end

mutual
theorem Node.reportUtilize_clearMarks : (n : Node) → (w : World U) → (n.reportUtilize w).1.clearMarks = n.clearMarks
  | .leaf id inj, w => by simp only [Node.reportUtilize, Node.clearMarks]
  | .compo id rid inj h st a r q m s, w => by
    have i2 := Subs.reportUtilizeAll_clearMarks s
    simp only [Node.reportUtilize]; (repeat' split) <;> simp only [Node.clearMarks, i2]
  | .ortho id rid inj h s, w => by
    simp only [Node.reportUtilize, Node.clearMarks, Subs.reportUtilizeAll_clearMarks s]
theorem Subs.reportUtilizeAll_clearMarks : (s : Subs) → (w : World U) → (s.reportUtilizeAll w).1.clearMarks = s.clearMarks
  | .nil, w => by simp only [Subs.reportUtilizeAll]
  | .cons b n r, w => by
    simp only [Subs.reportUtilizeAll, Subs.clearMarks, Node.reportUtilize_clearMarks n, Subs.reportUtilizeAll_clearMarks r]
end

mutual
theorem Node.reportRandomize_clearMarks : (n : Node) → (w : World U) → (n.reportRandomize w).1.clearMarks = n.clearMarks
  | .leaf id inj, w => by simp only [Node.reportRandomize, Node.clearMarks]
  | .compo id rid inj h st a r q m s, w => by
    have i3 := Subs.reportRandomizeTop_clearMarks s
    simp only [Node.reportRandomize, Node.clearMarks, i3]
  | .ortho id rid inj h s, w => by
    simp only [Node.reportRandomize, Node.clearMarks, Subs.reportRandomizeAll_clearMarks s]
theorem Subs.reportRandomizeAll_clearMarks : (s : Subs) → (w : World U) →
    (s.reportRandomizeAll w).1.clearMarks = s.clearMarks
  | .nil, w => by simp only [Subs.reportRandomizeAll]
  | .cons b n r, w => by
    simp only [Subs.reportRandomizeAll, Subs.clearMarks, Node.reportRandomize_clearMarks n,
      Subs.reportRandomizeAll_clearMarks r]
theorem Subs.reportRandomizeTop_clearMarks : (s : Subs) → (rks : List Int) → (top : Int) → (w : World U) →
    (s.reportRandomizeTop rks top w).1.clearMarks = s.clearMarks
  | .nil, _, _, w => by simp only [Subs.reportRandomizeTop]
  | .cons b n r, rks, top, w => by
    simp only [Subs.reportRandomizeTop]
    split <;> simp only [Subs.clearMarks, Node.reportRandomize_clearMarks n, Subs.reportRandomizeTop_clearMarks r]
end

/-! ### request passes -/

mutual
theorem Node.request_clearMarks : (n : Node) → (rq : Req) → (w : World U) → (n.request rq w).1.clearMarks = n.clearMarks
  | .leaf id inj, rq, w => by simp only [Node.request, Node.clearMarks]
  | .ortho id rid inj h s, rq, w => by simp only [Node.request, Node.clearMarks, Subs.requestAll_clearMarks s]
  | .compo id rid inj h st a r q m s, rq, w => by
    have i1 := Subs.requestAt_clearMarks s
    simp only [Node.request]
    (repeat' split) <;>
      simp only [Node.clearMarks, i1, Subs.reportChangeAll_clearMarks, Subs.reportUtilizeAll_clearMarks,
        Subs.reportChangeTop_clearMarks, Subs.reportRandomizeTop_clearMarks]
theorem Subs.requestAt_clearMarks : (s : Subs) → (i : Nat) → (rq : Req) → (w : World U) →
    (s.requestAt i rq w).1.clearMarks = s.clearMarks
  | .nil, _, _, w => by simp only [Subs.requestAt]
  | .cons b n r, 0, rq, w => by simp only [Subs.requestAt, Subs.clearMarks, Node.request_clearMarks n]
  | .cons b n r, i+1, rq, w => by simp only [Subs.requestAt, Subs.clearMarks, Subs.requestAt_clearMarks r i]
theorem Subs.requestAll_clearMarks : (s : Subs) → (rq : Req) → (w : World U) →
    (s.requestAll rq w).1.clearMarks = s.clearMarks
  | .nil, _, w => by simp only [Subs.requestAll]
  | .cons b n r, rq, w => by
    simp only [Subs.requestAll, Subs.clearMarks, Node.request_clearMarks n, Subs.requestAll_clearMarks r]
end

mutual
theorem Node.fwdRequest_clearMarks : (n : Node) → (rq : Req) → (w : World U) →
    (n.fwdRequest rq w).1.clearMarks = n.clearMarks
  | .leaf id inj, rq, w => by simp only [Node.fwdRequest, Node.clearMarks]
  | .compo id rid inj h st a r q m s, rq, w => by
    simp only [Node.fwdRequest]
    split
    · simp only [Node.clearMarks, Subs.fwdRequestAt_clearMarks s]
    · exact Node.request_clearMarks _ _ _
  | .ortho id rid inj h s, rq, w => by
    simp only [Node.fwdRequest]
    split
    · simp only [Node.clearMarks, Subs.fwdRequestAll_clearMarks s]
    · exact Node.request_clearMarks _ _ _
theorem Subs.fwdRequestAt_clearMarks : (s : Subs) → (i : Nat) → (rq : Req) → (w : World U) →
    (s.fwdRequestAt i rq w).1.clearMarks = s.clearMarks
  | .nil, _, _, w => by simp only [Subs.fwdRequestAt]
  | .cons b n r, 0, rq, w => by simp only [Subs.fwdRequestAt, Subs.clearMarks, Node.fwdRequest_clearMarks n]
  | .cons b n r, i+1, rq, w => by simp only [Subs.fwdRequestAt, Subs.clearMarks, Subs.fwdRequestAt_clearMarks r i]
theorem Subs.fwdRequestAll_clearMarks : (s : Subs) → (rq : Req) → (w : World U) →
    (s.fwdRequestAll rq w).1.clearMarks = s.clearMarks
  | .nil, _, w => by simp only [Subs.fwdRequestAll]
  | .cons b n r, rq, w => by
    simp only [Subs.fwdRequestAll, Subs.clearMarks, Node.fwdRequest_clearMarks n, Subs.fwdRequestAll_clearMarks r]
end

mutual
theorem Node.fwdActive_clearMarks : (n : Node) → (rq : Req) → (w : World U) →
    (n.fwdActive rq w).1.clearMarks = n.clearMarks
  | .leaf id inj, rq, w => by simp only [Node.fwdActive, Node.clearMarks]
  | .compo id rid inj h st a r q m s, rq, w => by
    simp only [Node.fwdActive]
    (repeat' split) <;> simp only [Node.clearMarks, Subs.fwdActiveAt_clearMarks s, Subs.fwdRequestAt_clearMarks s]
  | .ortho id rid inj h s, rq, w => by
    simp only [Node.fwdActive, Node.clearMarks, Subs.fwdActiveBits_clearMarks s]
theorem Subs.fwdActiveAt_clearMarks : (s : Subs) → (i : Nat) → (rq : Req) → (w : World U) →
    (s.fwdActiveAt i rq w).1.clearMarks = s.clearMarks
  | .nil, _, _, w => by simp only [Subs.fwdActiveAt]
  | .cons b n r, 0, rq, w => by simp only [Subs.fwdActiveAt, Subs.clearMarks, Node.fwdActive_clearMarks n]
  | .cons b n r, i+1, rq, w => by simp only [Subs.fwdActiveAt, Subs.clearMarks, Subs.fwdActiveAt_clearMarks r i]
theorem Subs.fwdActiveBits_clearMarks : (s : Subs) → (rq : Req) → (w : World U) →
    (s.fwdActiveBits rq w).1.clearMarks = s.clearMarks
  | .nil, _, w => by simp only [Subs.fwdActiveBits]
  | .cons b n r, rq, w => by
    simp only [Subs.fwdActiveBits]
    split <;> simp only [Subs.clearMarks, Node.fwdActive_clearMarks n, Subs.fwdActiveBits_clearMarks r]
end

/-! ### `schedule` -/

mutual
theorem Node.schedule_noRes : (n : Node) → (p : List Nat) → (n.schedule p).noResumable = n.noResumable
  | .leaf id inj, [] => by simp only [Node.schedule]
  | .leaf id inj, _ :: _ => by simp only [Node.schedule]
  | .compo id rid inj h st a r q m s, [] => by simp only [Node.schedule]
  | .ortho id rid inj h s, [] => by simp only [Node.schedule]
  | .compo id rid inj h st a r q m s, [i] => by simp only [Node.schedule, Node.noResumable]
  | .compo id rid inj h st a r q m s, i :: j :: rest => by
    simp only [Node.schedule, Node.noResumable, Subs.scheduleAt_noRes s i (j :: rest)]
  | .ortho id rid inj h s, [_] => by simp only [Node.schedule]
  | .ortho id rid inj h s, i :: j :: rest => by
    simp only [Node.schedule, Node.noResumable, Subs.scheduleAt_noRes s i (j :: rest)]
theorem Subs.scheduleAt_noRes : (s : Subs) → (i : Nat) → (p : List Nat) → (s.scheduleAt i p).noResumable = s.noResumable
  | .nil, _, _ => by simp only [Subs.scheduleAt]
  | .cons b n r, 0, p => by simp only [Subs.scheduleAt, Subs.noResumable, Node.schedule_noRes n p]
  | .cons b n r, i+1, p => by simp only [Subs.scheduleAt, Subs.noResumable, Subs.scheduleAt_noRes r i p]
end

/-! ### the part of the tree a round never changes -/

mutual
/-- The tree without request marks and without resumable marks: structure and active prongs. -/
def Node.frozen : Node → Node
  | .leaf id inj => .leaf id inj
  | .compo id rid inj h st a _ _ _ s => .compo id rid inj h st a none none false s.frozen
  | .ortho id rid inj h s => .ortho id rid inj h s.frozen
def Subs.frozen : Subs → Subs
  | .nil => .nil
  | .cons _ n r => .cons false n.frozen r.frozen
end

mutual
theorem Node.clearMarks_frozen : (n : Node) → n.clearMarks.frozen = n.frozen
  | .leaf .. => rfl
  | .compo id rid inj h st a r q m s => by simp only [Node.clearMarks, Node.frozen, Subs.clearMarks_frozen s]
  | .ortho id rid inj h s => by simp only [Node.clearMarks, Node.frozen, Subs.clearMarks_frozen s]
theorem Subs.clearMarks_frozen : (s : Subs) → s.clearMarks.frozen = s.frozen
  | .nil => rfl
  | .cons b n r => by simp only [Subs.clearMarks, Subs.frozen, Node.clearMarks_frozen n, Subs.clearMarks_frozen r]
end

mutual
theorem Node.noResumable_frozen : (n : Node) → n.noResumable.frozen = n.frozen
  | .leaf .. => rfl
  | .compo id rid inj h st a r q m s => by simp only [Node.noResumable, Node.frozen, Subs.noResumable_frozen s]
  | .ortho id rid inj h s => by simp only [Node.noResumable, Node.frozen, Subs.noResumable_frozen s]
theorem Subs.noResumable_frozen : (s : Subs) → s.noResumable.frozen = s.frozen
  | .nil => rfl
  | .cons b n r => by simp only [Subs.noResumable, Subs.frozen, Node.noResumable_frozen n, Subs.noResumable_frozen r]
end

theorem Node.frozen_of_clearMarks {a b : Node} (h : a.clearMarks = b.clearMarks) : a.frozen = b.frozen := by
  rw [← Node.clearMarks_frozen a, h, Node.clearMarks_frozen]

theorem Node.frozen_of_noResumable {a b : Node} (h : a.noResumable = b.noResumable) : a.frozen = b.frozen := by
  rw [← Node.noResumable_frozen a, h, Node.noResumable_frozen]

mutual
/-- `restore(backup)` on a tree that differs from the backup in marks and resumable marks only yields
the backup with the current resumable marks. -/
theorem Node.restoreMarks_eq : (cur bak : Node) → cur.frozen = bak.frozen →
    cur.restoreMarks bak = bak.withResumableOf cur
  | .leaf id inj, .leaf id' inj', h => by
    simp only [Node.frozen, Node.leaf.injEq] at h
    simp only [Node.restoreMarks, Node.withResumableOf, h.1, h.2]
  | .leaf .., .compo .., h => by simp only [Node.frozen] at h; cases h
  | .leaf .., .ortho .., h => by simp only [Node.frozen] at h; cases h
  | .compo .., .leaf .., h => by simp only [Node.frozen] at h; cases h
  | .compo .., .ortho .., h => by simp only [Node.frozen] at h; cases h
  | .ortho .., .leaf .., h => by simp only [Node.frozen] at h; cases h
  | .ortho .., .compo .., h => by simp only [Node.frozen] at h; cases h
  | .compo id rid inj hd st a r q m s, .compo id' rid' inj' hd' st' a' r' q' m' s', h => by
    simp only [Node.frozen, Node.compo.injEq] at h
    obtain ⟨h1, h2, h3, h4, h5, h6, _, _, _, h7⟩ := h
    simp only [Node.restoreMarks, Node.withResumableOf, h1, h2, h3, h4, h5, h6, Subs.restoreMarks_eq s s' h7]
  | .ortho id rid inj hd s, .ortho id' rid' inj' hd' s', h => by
    simp only [Node.frozen, Node.ortho.injEq] at h
    obtain ⟨h1, h2, h3, h4, h7⟩ := h
    simp only [Node.restoreMarks, Node.withResumableOf, h1, h2, h3, h4, Subs.restoreMarks_eq s s' h7]
theorem Subs.restoreMarks_eq : (cur bak : Subs) → cur.frozen = bak.frozen →
    cur.restoreMarks bak = bak.withResumableOf cur
  | .nil, .nil, _ => by simp only [Subs.restoreMarks, Subs.withResumableOf]
  | .nil, .cons .., h => by simp only [Subs.frozen] at h; cases h
  | .cons .., .nil, h => by simp only [Subs.frozen] at h; cases h
  | .cons b n r, .cons b' n' r', h => by
    simp only [Subs.frozen, Subs.cons.injEq, true_and] at h
    simp only [Subs.restoreMarks, Subs.withResumableOf, Node.restoreMarks_eq n n' h.1, Subs.restoreMarks_eq r r' h.2]
end

mutual
theorem Node.withResumableOf_frozen : (a b : Node) → (a.withResumableOf b).frozen = a.frozen
  | .leaf .., _ => by simp only [Node.withResumableOf]
  | .compo .., .leaf .. => by simp only [Node.withResumableOf]
  | .compo .., .ortho .. => by simp only [Node.withResumableOf]
  | .ortho .., .leaf .. => by simp only [Node.withResumableOf]
  | .ortho .., .compo .. => by simp only [Node.withResumableOf]
  | .compo id rid inj hd st a r q m s, .compo id' rid' inj' hd' st' a' r' q' m' s' => by
    simp only [Node.withResumableOf, Node.frozen, Subs.withResumableOf_frozen s s']
  | .ortho id rid inj hd s, .ortho id' rid' inj' hd' s' => by
    simp only [Node.withResumableOf, Node.frozen, Subs.withResumableOf_frozen s s']
theorem Subs.withResumableOf_frozen : (a b : Subs) → (a.withResumableOf b).frozen = a.frozen
  | .nil, _ => by simp only [Subs.withResumableOf]
  | .cons .., .nil => by simp only [Subs.withResumableOf]
  | .cons b n r, .cons b' n' r' => by
    simp only [Subs.withResumableOf, Subs.frozen, Node.withResumableOf_frozen n n', Subs.withResumableOf_frozen r r']
end

mutual
/-- taking another tree's resumable marks does not touch the request marks -/
theorem Node.withResumableOf_marksDiffer : (a b : Node) → (a.withResumableOf b).marksDiffer a = false
  | .leaf .., _ => by simp only [Node.withResumableOf, Node.marksDiffer]
  | .compo id rid inj hd st a r q m s, .leaf .. => by
    simp only [Node.withResumableOf, Node.marksDiffer, bne_self_eq_false, Bool.false_or, Subs.marksDiffer_self s]
  | .compo id rid inj hd st a r q m s, .ortho .. => by
    simp only [Node.withResumableOf, Node.marksDiffer, bne_self_eq_false, Bool.false_or, Subs.marksDiffer_self s]
  | .ortho id rid inj hd s, .leaf .. => by simp only [Node.withResumableOf, Node.marksDiffer, Subs.marksDiffer_self s]
  | .ortho id rid inj hd s, .compo .. => by simp only [Node.withResumableOf, Node.marksDiffer, Subs.marksDiffer_self s]
  | .compo id rid inj hd st a r q m s, .compo id' rid' inj' hd' st' a' r' q' m' s' => by
    simp only [Node.withResumableOf, Node.marksDiffer, bne_self_eq_false, Bool.false_or,
      Subs.withResumableOf_marksDiffer s s']
  | .ortho id rid inj hd s, .ortho id' rid' inj' hd' s' => by
    simp only [Node.withResumableOf, Node.marksDiffer, Subs.withResumableOf_marksDiffer s s']
theorem Subs.withResumableOf_marksDiffer : (a b : Subs) → (a.withResumableOf b).marksDiffer a = false
  | .nil, _ => by simp only [Subs.withResumableOf, Subs.marksDiffer]
  | .cons b n r, .nil => by
    simp only [Subs.withResumableOf, Subs.marksDiffer, bne_self_eq_false, Bool.false_or, Node.marksDiffer_self n,
      Subs.marksDiffer_self r]
  | .cons b n r, .cons b' n' r' => by
    simp only [Subs.withResumableOf, Subs.marksDiffer, bne_self_eq_false, Bool.false_or,
      Node.withResumableOf_marksDiffer n n', Subs.withResumableOf_marksDiffer r r']
theorem Node.marksDiffer_self : (n : Node) → n.marksDiffer n = false
  | .leaf .. => by simp only [Node.marksDiffer]
  | .compo id rid inj hd st a r q m s => by
    simp only [Node.marksDiffer, bne_self_eq_false, Bool.false_or, Subs.marksDiffer_self s]
  | .ortho id rid inj hd s => by simp only [Node.marksDiffer, Subs.marksDiffer_self s]
theorem Subs.marksDiffer_self : (s : Subs) → s.marksDiffer s = false
  | .nil => by simp only [Subs.marksDiffer]
  | .cons b n r => by
    simp only [Subs.marksDiffer, bne_self_eq_false, Bool.false_or, Node.marksDiffer_self n, Subs.marksDiffer_self r]
end

mutual
theorem Node.clearMarks_noMarks_frozen : (n : Node) → n.clearMarks.noResumable = n.frozen
  | .leaf .. => rfl
  | .compo id rid inj h st a r q m s => by
    simp only [Node.clearMarks, Node.noResumable, Node.frozen, Subs.clearMarks_noMarks_frozen s]
  | .ortho id rid inj h s => by simp only [Node.clearMarks, Node.noResumable, Node.frozen, Subs.clearMarks_noMarks_frozen s]
theorem Subs.clearMarks_noMarks_frozen : (s : Subs) → s.clearMarks.noResumable = s.frozen
  | .nil => rfl
  | .cons b n r => by
    simp only [Subs.clearMarks, Subs.noResumable, Subs.frozen, Node.clearMarks_noMarks_frozen n,
      Subs.clearMarks_noMarks_frozen r]
end

end Hfsm
