/-
What the lifecycle passes (`enter / exit / reenter / commit` of `Model/Commit.lean`) do to the world,
as far as `load` is concerned: the configuration, the request queue and the transition history are
not touched (the callbacks run under a `PlanControl`, which offers no request API), and the logger's
`method` records appended to the trace are exactly the call list computed by the pure functions
`enterCalls / exitCalls / reenterCalls / commitCalls` below.

`World.lifeLog` is the projection of the trace on `LogRec.method` records, newest first.  A state's
method is recorded when the state has user code (`headed`) or verbose logging is on, and a logger is
attached (`Config.vis`).  The user callbacks themselves (`Event.cb`) follow each record one per
handler slot as long as the decision stream lasts; they are not part of the projection.
-/
import Hfsm.Proofs.CommitTree

namespace Hfsm
variable {U : Type}

abbrev LifeCall := Nat × Method

def lifeOf : Event U → Option LifeCall
  | .log (.method sid m) => some (sid, m)
  | _ => none

/-- the `method` log records of the trace, newest first -/
def World.lifeLog (w : World U) : List LifeCall := w.trace.filterMap lifeOf

/-- is a method of a state with the given `headed` flag recorded by the logger? -/
def Config.vis (c : Config) (headed : Bool) : Bool := (headed || c.verbose) && c.logging

/-- `w'` is `w` after a lifecycle pass that made the calls `cs` (chronological order) -/
structure Step (w w' : World U) (cs : List LifeCall) : Prop where
  cfg : w'.cfg = w.cfg
  requests : w'.requests = w.requests
  previous : w'.previous = w.previous
  targets : w'.targets = w.targets
  log : w'.lifeLog = cs.reverse ++ w.lifeLog

theorem Step.rfl' (w : World U) : Step w w [] := ⟨rfl, rfl, rfl, rfl, by simp⟩

theorem Step.trans {w w' w'' : World U} {c c' : List LifeCall} (h : Step w w' c) (h' : Step w' w'' c') :
    Step w w'' (c ++ c') :=
  ⟨h'.cfg.trans h.cfg, h'.requests.trans h.requests, h'.previous.trans h.previous, h'.targets.trans h.targets,
   by rw [h'.log, h.log]; simp⟩

theorem Step.then {w w' w'' : World U} {c : List LifeCall} (h : Step w w' c) (h' : Step w' w'' []) : Step w w'' c := by
  simpa using h.trans h'

theorem Step.after {w w' w'' : World U} {c : List LifeCall} (h : Step w w' []) (h' : Step w' w'' c) : Step w w'' c := by
  simpa using h.trans h'

theorem Step.of_eq {w w' : World U} (h1 : w'.cfg = w.cfg) (h2 : w'.requests = w.requests)
    (h3 : w'.previous = w.previous) (h4 : w'.targets = w.targets) (h5 : w'.trace = w.trace) : Step w w' [] :=
  ⟨h1, h2, h3, h4, by simp [World.lifeLog, h5]⟩

namespace World

theorem step_fail' (w : World U) (msg : String) : Step w (w.fail' msg) [] := by
  unfold fail'
  split <;> exact Step.of_eq rfl rfl rfl rfl rfl

theorem step_emit_cb (w : World U) (sid : Nat) (m : Method) (slot : Nat) (o : Option Obs) (p c : List Transition) :
    Step w (w.emit (.cb sid m slot o p c)) [] :=
  ⟨rfl, rfl, rfl, rfl, by
    have e : lifeOf (Event.cb sid m slot o p c : Event U) = none := rfl
    simp [World.lifeLog, emit, e]⟩

theorem step_planAppend (w : World U) (r : Nat) (t : Task) : Step w (w.planAppend r t) [] := by
  unfold planAppend
  split
  · exact Step.of_eq rfl rfl rfl rfl rfl
  · exact Step.rfl' w

theorem step_planClear (w : World U) (r h s : Nat) : Step w (w.planClear r h s) [] :=
  Step.of_eq rfl rfl rfl rfl rfl

/-- an action performed through a `PlanControl` (enter / reenter / exit) -/
theorem step_act_plan (w : World U) (a : Action U) : Step w (act .plan w a) [] := by
  cases a with
  | request k d p => exact step_fail' w _
  | succeed s => exact step_fail' w _
  | fail s => exact step_fail' w _
  | cancel => exact step_fail' w _
  | consume => exact step_fail' w _
  | planAppend o d k p =>
    simp only [act]
    split
    · exact step_planAppend w _ _
    · exact step_fail' w _
  | planClear =>
    simp only [act]
    split
    · exact step_planClear w _ _ _
    · exact step_fail' w _
  | retSelect _ => exact Step.rfl' w
  | retRank _ => exact Step.rfl' w
  | retUtil _ => exact Step.rfl' w

theorem step_foldl_act_plan : (d : Decision U) → (w : World U) → Step w (d.foldl (act .plan) w) []
  | [], w => Step.rfl' w
  | a :: d, w => by
    simpa using (step_act_plan w a).trans (step_foldl_act_plan d (act .plan w a))

theorem step_invoke_plan (w : World U) (sid : Nat) (m : Method) (slot : Nat) (hm : m.cls = .plan) :
    Step w (w.invoke sid m slot).1 [] := by
  unfold invoke
  cases hds : w.ds with
  | nil => exact step_fail' w _
  | cons d rest =>
    simp only [hm]
    have h0 : Step w ({ w with ds := rest } : World U) [] := Step.of_eq rfl rfl rfl rfl rfl
    have h1 := step_foldl_act_plan d ({ w with ds := rest } : World U)
    have h2 := step_emit_cb (d.foldl (act .plan) ({ w with ds := rest } : World U)) sid m slot w.obs
      (if CtlClass.plan = CtlClass.guard then w.pending else []) (if (CtlClass.plan = CtlClass.guard ∨ True) then w.current else [])
    simpa using (h0.trans h1).trans h2

theorem step_invokeSlots_plan (sid : Nat) (m : Method) (hm : m.cls = .plan) :
    (l : List Nat) → (w : World U) → Step w (w.invokeSlots sid m l) []
  | [], w => Step.rfl' w
  | s :: l, w => by
    simpa [invokeSlots] using (step_invoke_plan w sid m s hm).trans (step_invokeSlots_plan sid m hm l _)

theorem step_logRec_method (w : World U) (sid : Nat) (m : Method) :
    Step w (w.logRec (.method sid m)) (if w.cfg.logging then [(sid, m)] else []) := by
  unfold logRec
  cases hl : w.cfg.logging with
  | true =>
    have e : lifeOf (Event.log (.method sid m) : Event U) = some (sid, m) := rfl
    exact ⟨rfl, rfl, rfl, rfl, by simp [World.lifeLog, emit, e]⟩
  | false => exact Step.rfl' w

theorem step_logIf (w : World U) (sid : Nat) (h : Bool) (m : Method) :
    Step w (if h || w.cfg.verbose then w.logRec (.method sid m) else w)
      (if w.cfg.vis h then [(sid, m)] else []) := by
  have hl := step_logRec_method w sid m
  unfold Config.vis
  cases hb : (h || w.cfg.verbose) with
  | true => simpa using hl
  | false => simpa using Step.rfl' w

/-- `stateMethod` of a lifecycle method: one log record when visible, the handlers, nothing else -/
theorem step_stateMethod (w : World U) (sid inj : Nat) (h : Bool) (m : Method) (hm : m.cls = .plan) :
    Step w (w.stateMethod sid inj h m) (if w.cfg.vis h then [(sid, m)] else []) := by
  have hlog := step_logIf w sid h m
  cases h with
  | false => exact hlog
  | true =>
    let w1 : World U := if true || w.cfg.verbose then w.logRec (.method sid m) else w
    have h0 : Step w1 ({ w1 with origin := some sid } : World U) [] := Step.of_eq rfl rfl rfl rfl rfl
    have h1 := step_invokeSlots_plan sid m hm (slotOrder inj m) ({ w1 with origin := some sid } : World U)
    let w2 : World U := ({ w1 with origin := some sid } : World U).invokeSlots sid m (slotOrder inj m)
    have h2 : Step w2 ({ w2 with origin := w1.origin } : World U) [] := Step.of_eq rfl rfl rfl rfl rfl
    exact ((hlog.then h0).then h1).then h2

theorem step_exitState (w : World U) (sid inj : Nat) (h : Bool) :
    Step w (w.exitState sid inj h) (if w.cfg.vis h then [(sid, .exit)] else []) := by
  have h1 := step_stateMethod w sid inj h .exit rfl
  let w1 : World U := w.stateMethod sid inj h .exit
  have h2 : Step w1 (if h && w1.cfg.plans then
      ({ w1 with succ := clearBit w1.succ sid, fail := clearBit w1.fail sid } : World U) else w1) [] := by
    cases (h && w1.cfg.plans) with
    | true => exact Step.of_eq rfl rfl rfl rfl rfl
    | false => exact Step.rfl' w1
  exact h1.then h2

theorem step_pushRegion (w : World U) (a b c : Nat) : Step w (w.pushRegion a b c).1 [] :=
  Step.of_eq rfl rfl rfl rfl rfl

theorem step_popRegion (w : World U) (sv : Nat × Nat × Nat) : Step w (w.popRegion sv) [] :=
  Step.of_eq rfl rfl rfl rfl rfl

end World

/-! ### the call lists -/

def callIf (b : Bool) (c : LifeCall) : List LifeCall := if b then [c] else []

mutual
def Node.enterCalls (v : Bool → Bool) : Node → List LifeCall
  | .leaf id _ => callIf (v true) (id, .enter)
  | .compo id _ _ h _ _ _ q _ s =>
    match q with
    | none => []
    | some qi => callIf (v h) (id, .enter) ++ s.enterCallsAt v qi
  | .ortho id _ _ h s => callIf (v h) (id, .enter) ++ s.enterCallsAll v
def Subs.enterCallsAt (v : Bool → Bool) : Subs → Nat → List LifeCall
  | .nil, _ => []
  | .cons _ n _, 0 => n.enterCalls v
  | .cons _ _ r, i+1 => r.enterCallsAt v i
def Subs.enterCallsAll (v : Bool → Bool) : Subs → List LifeCall
  | .nil => []
  | .cons _ n r => n.enterCalls v ++ r.enterCallsAll v
end

mutual
def Node.exitCalls (v : Bool → Bool) : Node → List LifeCall
  | .leaf id _ => callIf (v true) (id, .exit)
  | .compo id _ _ h _ a _ _ _ s =>
    match a with
    | none => []
    | some ai => s.exitCallsAt v ai ++ callIf (v h) (id, .exit)
  | .ortho id _ _ h s => s.exitCallsAll v ++ callIf (v h) (id, .exit)
def Subs.exitCallsAt (v : Bool → Bool) : Subs → Nat → List LifeCall
  | .nil, _ => []
  | .cons _ n _, 0 => n.exitCalls v
  | .cons _ _ r, i+1 => r.exitCallsAt v i
def Subs.exitCallsAll (v : Bool → Bool) : Subs → List LifeCall
  | .nil => []
  | .cons _ n r => n.exitCalls v ++ r.exitCallsAll v
end

mutual
def Node.reenterCalls (v : Bool → Bool) : Node → List LifeCall
  | .leaf id _ => callIf (v true) (id, .reenter)
  | .compo id _ _ h _ a _ q _ s =>
    match a, q with
    | some ai, some qi =>
      callIf (v h) (id, .reenter) ++
        (if ai = qi then s.reenterCallsAt v ai else s.exitCallsAt v ai ++ (s.exitAtT ai).enterCallsAt v qi)
    | _, _ => []
  | .ortho id _ _ h s => callIf (v h) (id, .reenter) ++ s.reenterCallsAll v
def Subs.reenterCallsAt (v : Bool → Bool) : Subs → Nat → List LifeCall
  | .nil, _ => []
  | .cons _ n _, 0 => n.reenterCalls v
  | .cons _ _ r, i+1 => r.reenterCallsAt v i
def Subs.reenterCallsAll (v : Bool → Bool) : Subs → List LifeCall
  | .nil => []
  | .cons _ n r => n.reenterCalls v ++ r.reenterCallsAll v
end

mutual
def Node.commitCalls (v : Bool → Bool) : Node → List LifeCall
  | .leaf .. => []
  | .compo _ _ _ _ _ a _ q m s =>
    match a with
    | none => []
    | some ai =>
      match q with
      | none => s.commitCallsAt v ai
      | some qi =>
        if qi ≠ ai then s.exitCallsAt v ai ++ (s.exitAtT ai).enterCallsAt v qi
        else if m then s.exitCallsAt v ai ++ (s.exitAtT ai).enterCallsAt v ai
        else s.reenterCallsAt v ai
  | .ortho _ _ _ _ s => s.commitCallsAll v
def Subs.commitCallsAt (v : Bool → Bool) : Subs → Nat → List LifeCall
  | .nil, _ => []
  | .cons _ n _, 0 => n.commitCalls v
  | .cons _ _ r, i+1 => r.commitCallsAt v i
def Subs.commitCallsAll (v : Bool → Bool) : Subs → List LifeCall
  | .nil => []
  | .cons _ n r => n.commitCalls v ++ r.commitCallsAll v
end

/-! ### the passes make exactly these calls -/

mutual
theorem Node.step_enter : (n : Node) → (w : World U) → (v : Bool → Bool) → v = w.cfg.vis →
    Step w (n.enter w).2 (n.enterCalls v)
  | .leaf id inj, w, v, hv => by
    subst hv
    exact World.step_stateMethod w id inj true .enter rfl
  | .compo id rid inj h st a r q m s, w, v, hv => by
    cases q with
    | none => exact World.step_fail' w _
    | some qi =>
      subst hv
      let w1 : World U := (w.pushRegion rid id (1 + s.size)).1
      have h1 : Step w w1 [] := World.step_pushRegion w rid id (1 + s.size)
      have h2 := World.step_stateMethod w1 id inj h .enter rfl
      let w2 : World U := w1.stateMethod id inj h .enter
      have h3 := Subs.step_enterAt s qi w2 w.cfg.vis (by rw [(h1.after h2).cfg])
      have h4 := World.step_popRegion (s.enterAt qi w2).2 (w.pushRegion rid id (1 + s.size)).2
      simp only [Node.enter, Node.enterCalls]
      exact ((h1.after h2).trans h3).then h4
  | .ortho id rid inj h s, w, v, hv => by
    subst hv
    let w1 : World U := (w.pushRegion rid id (1 + s.size)).1
    have h1 : Step w w1 [] := World.step_pushRegion w rid id (1 + s.size)
    have h2 := World.step_stateMethod w1 id inj h .enter rfl
    let w2 : World U := w1.stateMethod id inj h .enter
    have h3 := Subs.step_enterAll s w2 w.cfg.vis (by rw [(h1.after h2).cfg])
    have h4 := World.step_popRegion (s.enterAll w2).2 (w.pushRegion rid id (1 + s.size)).2
    simp only [Node.enter, Node.enterCalls]
    exact ((h1.after h2).trans h3).then h4
theorem Subs.step_enterAt : (s : Subs) → (i : Nat) → (w : World U) → (v : Bool → Bool) → v = w.cfg.vis →
    Step w (s.enterAt i w).2 (s.enterCallsAt v i)
  | .nil, _, w, _, _ => World.step_fail' w _
  | .cons b n r, 0, w, v, hv => by
    simp only [Subs.enterAt, Subs.enterCallsAt]
    exact Node.step_enter n w v hv
  | .cons b n r, i+1, w, v, hv => by
    simp only [Subs.enterAt, Subs.enterCallsAt]
    exact Subs.step_enterAt r i w v hv
theorem Subs.step_enterAll : (s : Subs) → (w : World U) → (v : Bool → Bool) → v = w.cfg.vis →
    Step w (s.enterAll w).2 (s.enterCallsAll v)
  | .nil, w, _, _ => Step.rfl' w
  | .cons b n r, w, v, hv => by
    have h1 := Node.step_enter n w v hv
    have h2 := Subs.step_enterAll r (n.enter w).2 v (by rw [hv, h1.cfg])
    simp only [Subs.enterAll, Subs.enterCallsAll]
    exact h1.trans h2
end

mutual
theorem Node.step_exit : (n : Node) → (w : World U) → (v : Bool → Bool) → v = w.cfg.vis →
    Step w (n.exit w).2 (n.exitCalls v)
  | .leaf id inj, w, v, hv => by
    subst hv
    exact World.step_exitState w id inj true
  | .compo id rid inj h st a r q m s, w, v, hv => by
    cases a with
    | none => exact World.step_fail' w _
    | some ai =>
      have h1 := Subs.step_exitAt s ai w v hv
      have h2 := World.step_exitState (s.exitAt ai w).2 id inj h
      rw [h1.cfg, ← hv] at h2
      simp only [Node.exit, Node.exitCalls]
      exact h1.trans h2
  | .ortho id rid inj h s, w, v, hv => by
    have h1 := Subs.step_exitAll s w v hv
    have h2 := World.step_exitState (s.exitAll w).2 id inj h
    rw [h1.cfg, ← hv] at h2
    simp only [Node.exit, Node.exitCalls]
    exact h1.trans h2
theorem Subs.step_exitAt : (s : Subs) → (i : Nat) → (w : World U) → (v : Bool → Bool) → v = w.cfg.vis →
    Step w (s.exitAt i w).2 (s.exitCallsAt v i)
  | .nil, _, w, _, _ => World.step_fail' w _
  | .cons b n r, 0, w, v, hv => by
    simp only [Subs.exitAt, Subs.exitCallsAt]
    exact Node.step_exit n w v hv
  | .cons b n r, i+1, w, v, hv => by
    simp only [Subs.exitAt, Subs.exitCallsAt]
    exact Subs.step_exitAt r i w v hv
theorem Subs.step_exitAll : (s : Subs) → (w : World U) → (v : Bool → Bool) → v = w.cfg.vis →
    Step w (s.exitAll w).2 (s.exitCallsAll v)
  | .nil, w, _, _ => Step.rfl' w
  | .cons b n r, w, v, hv => by
    have h1 := Node.step_exit n w v hv
    have h2 := Subs.step_exitAll r (n.exit w).2 v (by rw [hv, h1.cfg])
    simp only [Subs.exitAll, Subs.exitCallsAll]
    exact h1.trans h2
end

/-- exit then enter inside one region (the switch of `deepChangeToRequested` / `deepReenter`) -/
theorem Subs.step_switch (s : Subs) (ai qi : Nat) (w : World U) (v : Bool → Bool) (hv : v = w.cfg.vis) :
    Step w ((s.exitAt ai w).1.enterAt qi (s.exitAt ai w).2).2
      (s.exitCallsAt v ai ++ (s.exitAtT ai).enterCallsAt v qi) := by
  have h1 := Subs.step_exitAt s ai w v hv
  have h2 := Subs.step_enterAt (s.exitAt ai w).1 qi (s.exitAt ai w).2 v (by rw [hv, h1.cfg])
  rw [Subs.exitAt_fst] at h2
  rw [Subs.exitAt_fst]
  exact h1.trans h2

mutual
theorem Node.step_reenter : (n : Node) → (w : World U) → (v : Bool → Bool) → v = w.cfg.vis →
    Step w (n.reenter w).2 (n.reenterCalls v)
  | .leaf id inj, w, v, hv => by
    subst hv
    exact World.step_stateMethod w id inj true .reenter rfl
  | .compo id rid inj h st a r q m s, w, v, hv => by
    cases a with
    | none => exact World.step_fail' w _
    | some ai =>
      cases q with
      | none => exact World.step_fail' w _
      | some qi =>
        subst hv
        let w1 : World U := (w.pushRegion rid id (1 + s.size)).1
        have h1 : Step w w1 [] := World.step_pushRegion w rid id (1 + s.size)
        have h2 := World.step_stateMethod w1 id inj h .reenter rfl
        let w2 : World U := w1.stateMethod id inj h .reenter
        have hv2 : w.cfg.vis = w2.cfg.vis := by rw [(h1.after h2).cfg]
        by_cases e : ai = qi
        · have h3 := Subs.step_reenterAt s ai w2 w.cfg.vis hv2
          have h4 := World.step_popRegion (s.reenterAt ai w2).2 (w.pushRegion rid id (1 + s.size)).2
          simp only [Node.reenter, Node.reenterCalls, e, if_true]
          rw [e] at h3 h4
          exact ((h1.after h2).trans h3).then h4
        · have h3 := Subs.step_switch s ai qi w2 w.cfg.vis hv2
          have h4 := World.step_popRegion ((s.exitAt ai w2).1.enterAt qi (s.exitAt ai w2).2).2
            (w.pushRegion rid id (1 + s.size)).2
          simp only [Node.reenter, Node.reenterCalls, e, if_false]
          exact ((h1.after h2).trans h3).then h4
  | .ortho id rid inj h s, w, v, hv => by
    subst hv
    let w1 : World U := (w.pushRegion rid id (1 + s.size)).1
    have h1 : Step w w1 [] := World.step_pushRegion w rid id (1 + s.size)
    have h2 := World.step_stateMethod w1 id inj h .reenter rfl
    let w2 : World U := w1.stateMethod id inj h .reenter
    have h3 := Subs.step_reenterAll s w2 w.cfg.vis (by rw [(h1.after h2).cfg])
    have h4 := World.step_popRegion (s.reenterAll w2).2 (w.pushRegion rid id (1 + s.size)).2
    simp only [Node.reenter, Node.reenterCalls]
    exact ((h1.after h2).trans h3).then h4
theorem Subs.step_reenterAt : (s : Subs) → (i : Nat) → (w : World U) → (v : Bool → Bool) → v = w.cfg.vis →
    Step w (s.reenterAt i w).2 (s.reenterCallsAt v i)
  | .nil, _, w, _, _ => World.step_fail' w _
  | .cons b n r, 0, w, v, hv => by
    simp only [Subs.reenterAt, Subs.reenterCallsAt]
    exact Node.step_reenter n w v hv
  | .cons b n r, i+1, w, v, hv => by
    simp only [Subs.reenterAt, Subs.reenterCallsAt]
    exact Subs.step_reenterAt r i w v hv
theorem Subs.step_reenterAll : (s : Subs) → (w : World U) → (v : Bool → Bool) → v = w.cfg.vis →
    Step w (s.reenterAll w).2 (s.reenterCallsAll v)
  | .nil, w, _, _ => Step.rfl' w
  | .cons b n r, w, v, hv => by
    have h1 := Node.step_reenter n w v hv
    have h2 := Subs.step_reenterAll r (n.reenter w).2 v (by rw [hv, h1.cfg])
    simp only [Subs.reenterAll, Subs.reenterCallsAll]
    exact h1.trans h2
end

mutual
theorem Node.step_commit : (n : Node) → (w : World U) → (v : Bool → Bool) → v = w.cfg.vis →
    Step w (n.commit w).2 (n.commitCalls v)
  | .leaf id inj, w, v, hv => Step.rfl' w
  | .compo id rid inj h st a r q m s, w, v, hv => by
    cases a with
    | none => exact World.step_fail' w _
    | some ai =>
      let w1 : World U := (w.pushRegion rid id (1 + s.size)).1
      have h1 : Step w w1 [] := World.step_pushRegion w rid id (1 + s.size)
      have hv1 : v = w1.cfg.vis := hv
      cases q with
      | none =>
        have h3 := Subs.step_commitAt s ai w1 v hv1
        have h4 := World.step_popRegion (s.commitAt ai w1).2 (w.pushRegion rid id (1 + s.size)).2
        simp only [Node.commit, Node.commitCalls]
        exact (h1.after h3).then h4
      | some qi =>
        by_cases e : qi = ai
        · cases m with
          | true =>
            have h3 := Subs.step_switch s ai ai w1 v hv1
            have h4 := World.step_popRegion ((s.exitAt ai w1).1.enterAt ai (s.exitAt ai w1).2).2
              (w.pushRegion rid id (1 + s.size)).2
            simp only [Node.commit, Node.commitCalls, e, ne_eq, not_true_eq_false, if_false, if_true]
            exact (h1.after h3).then h4
          | false =>
            have h3 := Subs.step_reenterAt s ai w1 v hv1
            have h4 := World.step_popRegion (s.reenterAt ai w1).2 (w.pushRegion rid id (1 + s.size)).2
            simp only [Node.commit, Node.commitCalls, e, ne_eq, not_true_eq_false, if_false, Bool.false_eq_true]
            exact (h1.after h3).then h4
        · have h3 := Subs.step_switch s ai qi w1 v hv1
          have h4 := World.step_popRegion ((s.exitAt ai w1).1.enterAt qi (s.exitAt ai w1).2).2
            (w.pushRegion rid id (1 + s.size)).2
          simp only [Node.commit, Node.commitCalls, e, ne_eq, not_false_eq_true, if_true]
          exact (h1.after h3).then h4
  | .ortho id rid inj h s, w, v, hv => by
    simp only [Node.commit, Node.commitCalls]
    exact Subs.step_commitAll s w v hv
theorem Subs.step_commitAt : (s : Subs) → (i : Nat) → (w : World U) → (v : Bool → Bool) → v = w.cfg.vis →
    Step w (s.commitAt i w).2 (s.commitCallsAt v i)
  | .nil, _, w, _, _ => World.step_fail' w _
  | .cons b n r, 0, w, v, hv => by
    simp only [Subs.commitAt, Subs.commitCallsAt]
    exact Node.step_commit n w v hv
  | .cons b n r, i+1, w, v, hv => by
    simp only [Subs.commitAt, Subs.commitCallsAt]
    exact Subs.step_commitAt r i w v hv
theorem Subs.step_commitAll : (s : Subs) → (w : World U) → (v : Bool → Bool) → v = w.cfg.vis →
    Step w (s.commitAll w).2 (s.commitCallsAll v)
  | .nil, w, _, _ => Step.rfl' w
  | .cons b n r, w, v, hv => by
    have h1 := Node.step_commit n w v hv
    have h2 := Subs.step_commitAll r (n.commit w).2 v (by rw [hv, h1.cfg])
    simp only [Subs.commitAll, Subs.commitCallsAll]
    exact h1.trans h2
end

end Hfsm
