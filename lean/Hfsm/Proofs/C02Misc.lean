/-
C02 — `schedule`, `reset`, the empty queue.
-/
import Hfsm.Proofs.C02Mach

namespace Hfsm
variable {U : Type}

/-! ### `schedule` -/

/-- the resumable mark of a composite region -/
def Node.resumableOf : Node → Option (Option Nat)
  | .compo _ _ _ _ _ _ r _ _ _ => some r
  | _ => none

/-- the resumable mark of the composite region at path `q` (`none`: no composite region there) -/
def Node.resumableAt (n : Node) (q : List Nat) : Option (Option Nat) :=
  (n.follow q).bind Node.resumableOf

theorem C02.Subs.get?_scheduleAt : (s : Subs) → (i j : Nat) → (p : List Nat) →
    (s.scheduleAt i p).get? j = if j = i then (s.get? i).map (·.schedule p) else s.get? j
  | .nil, _, _, _ => by simp [Subs.scheduleAt, Subs.get?]
  | .cons b n r, 0, 0, p => by simp [Subs.scheduleAt, Subs.get?]
  | .cons b n r, 0, j+1, p => by simp [Subs.scheduleAt, Subs.get?]
  | .cons b n r, i+1, 0, p => by simp [Subs.scheduleAt, Subs.get?]
  | .cons b n r, i+1, j+1, p => by
    simp only [Subs.scheduleAt, Subs.get?, C02.Subs.get?_scheduleAt r i j p, Nat.add_right_cancel_iff]

theorem C02.Node.follow_cons_bind (n : Node) (i : Nat) (rest : List Nat) :
    n.follow (i :: rest) = (n.subs.get? i).bind (·.follow rest) := by
  simp only [Node.follow]
  cases n.subs.get? i <;> rfl

/-- `schedule` changes no resumable mark except that of the direct parent of the destination. -/
theorem C02.Node.schedule_frame : (p : List Nat) → (n : Node) → (q : List Nat) → q ≠ p.dropLast →
    (n.schedule p).resumableAt q = n.resumableAt q
  | [], n, q, _ => by cases n <;> simp only [Node.schedule]
  | [i], n, q, hq => by
    cases n with
    | leaf id inj => simp only [Node.schedule]
    | ortho id rid inj h s => simp only [Node.schedule]
    | compo id rid inj h st a r qq m s =>
      cases q with
      | nil => simp at hq
      | cons j rest =>
        simp only [Node.schedule, Node.resumableAt, C02.Node.follow_cons_bind, Node.subs]
  | i :: j :: rest, n, q, hq => by
    cases n with
    | leaf id inj => simp only [Node.schedule]
    | ortho id rid inj h s =>
      cases q with
      | nil => simp only [Node.schedule, Node.resumableAt, Node.follow, Node.resumableOf, Option.bind]
      | cons j' qrest =>
        simp only [Node.schedule, Node.resumableAt, C02.Node.follow_cons_bind, Node.subs, C02.Subs.get?_scheduleAt]
        by_cases hj : j' = i
        · subst hj
          simp only [↓reduceIte]
          cases hc : s.get? j' with
          | none => rfl
          | some c =>
            have := C02.Node.schedule_frame (j :: rest) c qrest (by
              intro e; apply hq; simp [List.dropLast, e])
            simpa only [Option.map, Option.bind, Node.resumableAt] using this
        · simp only [hj, ↓reduceIte]
    | compo id rid inj h st a r qq m s =>
      cases q with
      | nil => simp only [Node.schedule, Node.resumableAt, Node.follow, Node.resumableOf, Option.bind]
      | cons j' qrest =>
        simp only [Node.schedule, Node.resumableAt, C02.Node.follow_cons_bind, Node.subs, C02.Subs.get?_scheduleAt]
        by_cases hj : j' = i
        · subst hj
          simp only [↓reduceIte]
          cases hc : s.get? j' with
          | none => rfl
          | some c =>
            have := C02.Node.schedule_frame (j :: rest) c qrest (by
              intro e; apply hq; simp [List.dropLast, e])
            simpa only [Option.map, Option.bind, Node.resumableAt] using this
        · simp only [hj, ↓reduceIte]


theorem C02.Subs.scheduleAt_eq : (s : Subs) → (j : Nat) → (pp : List Nat) →
    (∀ c, s.get? j = some c → c.schedule pp = c) → s.scheduleAt j pp = s
  | .nil, _, _, _ => by simp only [Subs.scheduleAt]
  | .cons b n r, 0, pp, h => by simp only [Subs.scheduleAt, h n (by simp only [Subs.get?])]
  | .cons b n r, j+1, pp, h => by
    simp only [Subs.scheduleAt, C02.Subs.scheduleAt_eq r j pp (fun c hc => h c (by simpa only [Subs.get?] using hc))]

/-- `schedule x` where the direct parent of `x` is the composite region at path `p`: that region
remembers `x`'s prong `i`. -/
theorem C02.Node.schedule_parent {id rid inj : Nat} {h : Bool} {st : Strategy} {a r q : Option Nat} {m : Bool}
    {s : Subs} : (p : List Nat) → (i : Nat) → (n : Node) →
    n.follow p = some (.compo id rid inj h st a r q m s) → i < s.len →
    (n.schedule (p ++ [i])).follow p = some (.compo id rid inj h st a (some i) q m s)
  | [], i, n, hpar, hi => by
    simp only [Node.follow, Option.some.injEq] at hpar
    subst hpar
    simp only [List.nil_append, Node.schedule, hi, ↓reduceIte, Node.follow]
  | j :: rest, i, n, hpar, hi => by
    rw [C02.Node.follow_cons_bind] at hpar
    cases hc : n.subs.get? j with
    | none => rw [hc] at hpar; cases hpar
    | some c =>
      rw [hc] at hpar
      simp only [Option.bind] at hpar
      have ih := C02.Node.schedule_parent rest i c hpar hi
      obtain ⟨x, xs, hx⟩ := List.exists_cons_of_ne_nil (l := rest ++ [i]) (by simp)
      rw [List.cons_append, hx, C02.Node.follow_cons_bind]
      rw [hx] at ih
      cases n with
      | leaf id' inj' => simp only [Node.subs, Subs.get?] at hc; cases hc
      | compo id' rid' inj' h' st' a' r' q' m' s' =>
        simp only [Node.subs] at hc
        simp only [Node.schedule, Node.subs, C02.Subs.get?_scheduleAt, ↓reduceIte, hc, Option.map,
          Option.bind, ih]
      | ortho id' rid' inj' h' s' =>
        simp only [Node.subs] at hc
        simp only [Node.schedule, Node.subs, C02.Subs.get?_scheduleAt, ↓reduceIte, hc, Option.map,
          Option.bind, ih]

/-- `schedule x` where the direct parent of `x` is an orthogonal region: nothing changes. -/
theorem C02.Node.schedule_orthoParent {id rid inj : Nat} {h : Bool} {s : Subs} :
    (p : List Nat) → (i : Nat) → (n : Node) →
    n.follow p = some (.ortho id rid inj h s) → n.schedule (p ++ [i]) = n
  | [], i, n, hpar => by
    simp only [Node.follow, Option.some.injEq] at hpar
    subst hpar
    simp only [List.nil_append, Node.schedule]
  | j :: rest, i, n, hpar => by
    rw [C02.Node.follow_cons_bind] at hpar
    obtain ⟨x, xs, hx⟩ := List.exists_cons_of_ne_nil (l := rest ++ [i]) (by simp)
    rw [List.cons_append, hx]
    have key : ∀ c, n.subs.get? j = some c → c.schedule (x :: xs) = c := by
      intro c hc
      rw [hc] at hpar
      simp only [Option.bind] at hpar
      rw [← hx]
      exact C02.Node.schedule_orthoParent rest i c hpar
    cases n with
    | leaf id' inj' => simp only [Node.schedule]
    | compo id' rid' inj' h' st' a' r' q' m' s' =>
      simp only [Node.subs] at key
      simp only [Node.schedule, C02.Subs.scheduleAt_eq s' j (x :: xs) key]
    | ortho id' rid' inj' h' s' =>
      simp only [Node.subs] at key
      simp only [Node.schedule, C02.Subs.scheduleAt_eq s' j (x :: xs) key]

-- nothing but resumable marks changes
mutual
theorem C02.Node.schedule_noResumable : (n : Node) → (p : List Nat) →
    (n.schedule p).noResumable = n.noResumable
  | .leaf .., [] => by simp only [Node.schedule]
  | .compo .., [] => by simp only [Node.schedule]
  | .ortho .., [] => by simp only [Node.schedule]
  | .leaf .., _ :: _ => by simp only [Node.schedule]
  | .compo id rid inj h st a r q m s, [i] => by simp only [Node.schedule, Node.noResumable]
  | .compo id rid inj h st a r q m s, i :: j :: rest => by
    simp only [Node.schedule, Node.noResumable, C02.Subs.scheduleAt_noResumable s i (j :: rest)]
  | .ortho id rid inj h s, [_] => by simp only [Node.schedule]
  | .ortho id rid inj h s, i :: j :: rest => by
    simp only [Node.schedule, Node.noResumable, C02.Subs.scheduleAt_noResumable s i (j :: rest)]
theorem C02.Subs.scheduleAt_noResumable : (s : Subs) → (i : Nat) → (p : List Nat) →
    (s.scheduleAt i p).noResumable = s.noResumable
  | .nil, _, _ => by simp only [Subs.scheduleAt]
  | .cons b n r, 0, p => by simp only [Subs.scheduleAt, Subs.noResumable, C02.Node.schedule_noResumable n p]
  | .cons b n r, i+1, p => by
    simp only [Subs.scheduleAt, Subs.noResumable, C02.Subs.scheduleAt_noResumable r i p]
end

mutual
theorem C02.Node.marksDiffer_self : (n : Node) → n.marksDiffer n = false
  | .leaf .. => by simp only [Node.marksDiffer]
  | .compo id rid inj h st a r q m s => by
    simp only [Node.marksDiffer, bne_self_eq_false, C02.Subs.marksDiffer_self s, Bool.or_self]
  | .ortho id rid inj h s => by simp only [Node.marksDiffer, C02.Subs.marksDiffer_self s]
theorem C02.Subs.marksDiffer_self : (s : Subs) → s.marksDiffer s = false
  | .nil => by simp only [Subs.marksDiffer]
  | .cons b n r => by
    simp only [Subs.marksDiffer, bne_self_eq_false, C02.Node.marksDiffer_self n, C02.Subs.marksDiffer_self r,
      Bool.or_self]
end

mutual
theorem C02.Node.schedule_marksDiffer : (n : Node) → (p : List Nat) → (n.schedule p).marksDiffer n = false
  | .leaf .., [] => by simp only [Node.schedule, Node.marksDiffer]
  | .compo .., [] => by simp only [Node.schedule, C02.Node.marksDiffer_self]
  | .ortho .., [] => by simp only [Node.schedule, C02.Node.marksDiffer_self]
  | .leaf .., _ :: _ => by simp only [Node.schedule, Node.marksDiffer]
  | .compo id rid inj h st a r q m s, [i] => by
    simp only [Node.schedule, Node.marksDiffer, bne_self_eq_false, C02.Subs.marksDiffer_self s, Bool.or_self]
  | .compo id rid inj h st a r q m s, i :: j :: rest => by
    simp only [Node.schedule, Node.marksDiffer, bne_self_eq_false,
      C02.Subs.scheduleAt_marksDiffer s i (j :: rest), Bool.or_self]
  | .ortho id rid inj h s, [_] => by simp only [Node.schedule, C02.Node.marksDiffer_self]
  | .ortho id rid inj h s, i :: j :: rest => by
    simp only [Node.schedule, Node.marksDiffer, C02.Subs.scheduleAt_marksDiffer s i (j :: rest)]
theorem C02.Subs.scheduleAt_marksDiffer : (s : Subs) → (i : Nat) → (p : List Nat) →
    (s.scheduleAt i p).marksDiffer s = false
  | .nil, _, _ => by simp only [Subs.scheduleAt, Subs.marksDiffer]
  | .cons b n r, 0, p => by
    simp only [Subs.scheduleAt, Subs.marksDiffer, bne_self_eq_false, C02.Node.schedule_marksDiffer n p,
      C02.Subs.marksDiffer_self r, Bool.or_self]
  | .cons b n r, i+1, p => by
    simp only [Subs.scheduleAt, Subs.marksDiffer, bne_self_eq_false, C02.Node.marksDiffer_self n,
      C02.Subs.scheduleAt_marksDiffer r i p, Bool.or_self]
end

mutual
theorem C02.Node.schedule_noMarks : (n : Node) → (p : List Nat) → n.NoMarks → (n.schedule p).NoMarks
  | .leaf .., [], h => by simpa only [Node.schedule] using h
  | .compo .., [], h => by simpa only [Node.schedule] using h
  | .ortho .., [], h => by simpa only [Node.schedule] using h
  | .leaf .., _ :: _, h => by simpa only [Node.schedule] using h
  | .compo id rid inj h st a r q m s, [i], hn => by
    simpa only [Node.schedule, Node.NoMarks] using hn
  | .compo id rid inj h st a r q m s, i :: j :: rest, hn => by
    simp only [Node.NoMarks] at hn
    simp only [Node.schedule, Node.NoMarks]
    exact ⟨hn.1, hn.2.1, C02.Subs.scheduleAt_noMarks s i (j :: rest) hn.2.2⟩
  | .ortho id rid inj h s, [_], hn => by simpa only [Node.schedule] using hn
  | .ortho id rid inj h s, i :: j :: rest, hn => by
    simp only [Node.NoMarks] at hn
    simp only [Node.schedule, Node.NoMarks]
    exact C02.Subs.scheduleAt_noMarks s i (j :: rest) hn
theorem C02.Subs.scheduleAt_noMarks : (s : Subs) → (i : Nat) → (p : List Nat) → s.NoMarksAll →
    (s.scheduleAt i p).NoMarksAll
  | .nil, _, _, h => by simpa only [Subs.scheduleAt] using h
  | .cons b n r, 0, p, hs => by
    simp only [Subs.NoMarksAll] at hs
    simp only [Subs.scheduleAt, Subs.NoMarksAll]
    exact ⟨hs.1, C02.Node.schedule_noMarks n p hs.2.1, hs.2.2⟩
  | .cons b n r, i+1, p, hs => by
    simp only [Subs.NoMarksAll] at hs
    simp only [Subs.scheduleAt, Subs.NoMarksAll]
    exact ⟨hs.1, hs.2.1, C02.Subs.scheduleAt_noMarks r i p hs.2.2⟩
end


/-! ### `reset` and the first activation -/

mutual
theorem C02.Node.cleared_exited : (n : Node) → n.exited.cleared = n.cleared
  | .leaf .. => by simp only [Node.exited]
  | .compo id rid inj h st a r q m s => by
    cases a with
    | none => simp only [Node.exited]
    | some ai => simp only [Node.exited, Node.cleared, C02.Subs.cleared_exitedAt s ai]
  | .ortho id rid inj h s => by simp only [Node.exited, Node.cleared, C02.Subs.cleared_exitedAll s]
theorem C02.Subs.cleared_exitedAt : (s : Subs) → (i : Nat) → (s.exitedAt i).cleared = s.cleared
  | .nil, _ => by simp only [Subs.exitedAt]
  | .cons b n r, 0 => by simp only [Subs.exitedAt, Subs.cleared, C02.Node.cleared_exited n]
  | .cons b n r, i+1 => by simp only [Subs.exitedAt, Subs.cleared, C02.Subs.cleared_exitedAt r i]
theorem C02.Subs.cleared_exitedAll : (s : Subs) → s.exitedAll.cleared = s.cleared
  | .nil => by simp only [Subs.exitedAll]
  | .cons b n r => by
    simp only [Subs.exitedAll, Subs.cleared, C02.Node.cleared_exited n, C02.Subs.cleared_exitedAll r]
end

mutual
theorem C02.Node.cleared_noMarks : (n : Node) → n.cleared.NoMarks
  | .leaf .. => by simp only [Node.cleared, Node.NoMarks]
  | .compo id rid inj h st a r q m s => by
    simp only [Node.cleared, Node.NoMarks, C02.Subs.cleared_noMarks s, and_self]
  | .ortho id rid inj h s => by simp only [Node.cleared, Node.NoMarks, C02.Subs.cleared_noMarks s]
theorem C02.Subs.cleared_noMarks : (s : Subs) → s.cleared.NoMarksAll
  | .nil => by simp only [Subs.cleared, Subs.NoMarksAll]
  | .cons b n r => by
    simp only [Subs.cleared, Subs.NoMarksAll, C02.Node.cleared_noMarks n, C02.Subs.cleared_noMarks r, and_self]
end

mutual
theorem C02.Node.cleared_noRes : (n : Node) → n.cleared.noResumable = n.cleared
  | .leaf .. => by simp only [Node.cleared, Node.noResumable]
  | .compo id rid inj h st a r q m s => by
    simp only [Node.cleared, Node.noResumable, C02.Subs.cleared_noRes s]
  | .ortho id rid inj h s => by simp only [Node.cleared, Node.noResumable, C02.Subs.cleared_noRes s]
theorem C02.Subs.cleared_noRes : (s : Subs) → s.cleared.noResumable = s.cleared
  | .nil => by simp only [Subs.cleared, Subs.noResumable]
  | .cons b n r => by
    simp only [Subs.cleared, Subs.noResumable, C02.Node.cleared_noRes n, C02.Subs.cleared_noRes r]
end

mutual
theorem C02.Shape.toNode_cleared : (sh : Shape) → (id rid : Nat) → (sh.toNode id rid).cleared = sh.toNode id rid
  | .leaf inj, _, _ => by simp only [Shape.toNode, Node.cleared]
  | .compo h inj st ss, id, rid => by
    simp only [Shape.toNode, Node.cleared, C02.Shapes.toSubs_cleared ss]
  | .ortho h inj ss, id, rid => by
    simp only [Shape.toNode, Node.cleared, C02.Shapes.toSubs_cleared ss]
theorem C02.Shapes.toSubs_cleared : (ss : Shapes) → (id rid : Nat) → (ss.toSubs id rid).cleared = ss.toSubs id rid
  | .nil, _, _ => by simp only [Shapes.toSubs, Subs.cleared]
  | .cons sh r, id, rid => by
    simp only [Shapes.toSubs, Subs.cleared, C02.Shape.toNode_cleared sh, C02.Shapes.toSubs_cleared r]
end

section
variable (ans : Nat → Nat) (k : Kind)

-- a tree with nothing resumable entered fresh has nothing resumable
mutual
theorem C02.Node.choose_noResumable : (n : Node) → n.noResumable = n →
    (n.choose ans k).noResumable = n.choose ans k
  | .leaf .., _ => by simp only [Node.choose, Node.noResumable]
  | .compo id rid inj h st a r q m s, hn => by
    simp only [Node.noResumable, Node.compo.injEq, true_and] at hn
    obtain ⟨hr, hs⟩ := hn
    subst hr
    simp only [Node.choose, Node.noResumable, reduceCtorEq, ↓reduceIte,
      C02.Subs.chooseAt_noResumable s _ hs]
  | .ortho id rid inj h s, hn => by
    simp only [Node.noResumable, Node.ortho.injEq, true_and] at hn
    simp only [Node.choose, Node.noResumable, C02.Subs.chooseAll_noResumable s hn]
theorem C02.Subs.chooseAt_noResumable : (s : Subs) → (i : Nat) → s.noResumable = s →
    (s.chooseAt ans k i).noResumable = s.chooseAt ans k i
  | .nil, _, _ => by simp only [Subs.chooseAt, Subs.noResumable]
  | .cons b n r, 0, hs => by
    simp only [Subs.noResumable, Subs.cons.injEq, true_and] at hs
    simp only [Subs.chooseAt, Subs.noResumable, C02.Node.choose_noResumable n hs.1, hs.2]
  | .cons b n r, i+1, hs => by
    simp only [Subs.noResumable, Subs.cons.injEq, true_and] at hs
    simp only [Subs.chooseAt, Subs.noResumable, C02.Subs.chooseAt_noResumable r i hs.2, hs.1]
theorem C02.Subs.chooseAll_noResumable : (s : Subs) → s.noResumable = s →
    (s.chooseAll ans k).noResumable = s.chooseAll ans k
  | .nil, _ => by simp only [Subs.chooseAll, Subs.noResumable]
  | .cons b n r, hs => by
    simp only [Subs.noResumable, Subs.cons.injEq, true_and] at hs
    simp only [Subs.chooseAll, Subs.noResumable, C02.Node.choose_noResumable n hs.1,
      C02.Subs.chooseAll_noResumable r hs.2]
end

end

namespace Mach
variable [UtilArith U]

/-- The resolution pass of `reset`: the tree (nothing active, nothing resumable, no marks) resolved by
a `change` request, and the world it runs in. -/
def resetResolve (m : Mach U) : Node × World U :=
  let w := (m.w.freshControl).snapshot m.root false false
  let (root, w) := m.root.exit w
  let w := { w.clearTargets with previous := [] }
  let root := root.cleared
  root.request { kind := .change, index := none } (w.snapshot root true false)

theorem C02.reset_root (m : Mach U) : m.reset.root = (m.resetResolve.1.enterR).clearMarks := by
  unfold reset resetResolve
  simp only [updateActivity, C02.Node.enter_root]

theorem C02.resetResolve_eq (m : Mach U) : ∃ w : World U,
    m.resetResolve = m.root.cleared.request { kind := .change, index := none } w := by
  unfold resetResolve
  simp only [C02.Node.exit_root, C02.Node.cleared_exited]
  exact ⟨_, rfl⟩

/-- The resolution pass of `initialEnter`. -/
def initialResolve (m : Mach U) : Node × World U :=
  m.root.request { kind := .change, index := none }
    ((m.w.clearTargets.freshControl).snapshot m.root true false)

/-- The machine after the entry guards of the first activation have run. -/
def initialStage (m : Mach U) : Mach U :=
  (Mach.approvedByEntryGuards { m with root := m.initialResolve.1, w := m.initialResolve.2 } [] []).1

theorem C02.initialStage_root (m : Mach U) : m.initialStage.root = m.initialResolve.1 := rfl

theorem C02.initialEnter_root (m : Mach U) (h : m.initialStage.w.requests = []) :
    m.initialEnter.root = (m.initialResolve.1.enterR).clearMarks := by
  unfold initialEnter
  have hr := C02.rounds_nil true m.initialStage.w.cfg.substitutionLimit m.initialStage m.initialStage.root [] h
  simp only [initialStage, initialResolve] at hr
  simp only [hr, updateActivity, C02.Node.enter_root]
  rfl

theorem C02.processRequest_nil (m : Mach U) (h : m.w.requests = []) :
    m.processRequest =
      { m with w := { m.w.clearTargets with
                        previous := if m.w.cfg.history then [] else m.w.previous } } := by
  unfold processRequest
  simp only [C02.World.clearTargets_requests, h, List.isEmpty_nil, ↓reduceIte, C02.World.clearTargets_cfg]
  congr 2
  unfold World.clearTargets
  split <;> rfl

end Mach
end Hfsm
