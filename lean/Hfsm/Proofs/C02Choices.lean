/-
C02 — the answers a request consumes, as a function of the decision and generator streams.

`Node.requestCh / fwdRequestCh / fwdActiveCh` list, in the order of consumption, the pairs
`(head id of a composite region, prong its resolution chooses)` for every region whose resolution
consults user code or the generator — exactly the regions for which `pickProng` (Proofs/C02Spec.lean)
consults its oracle `ans`.  The prongs are computed by the pure stream functions of C12
(`Proofs/UtilitySpec.lean`: `Sig.headSel`, `argMax ∘ utilizeSpecAll / changeSpecAll`,
`rankSpecAll`, `randomizeSpecTop / changeSpecTop`, `Sig.resolve`); the stream position at which a
region is reached is threaded by `requestSpec`, `utilizeSpec`, `randomizeSpec`, `changeSpec`.  A
resolution that fails (`select()` out of range, generator exhausted, no positive top-rank utility,
empty region) is recorded as `(id, none)`.

`Agrees ans l`: the oracle `ans` gives every listed region the listed prong (so no listed resolution
failed).  Main results (`… _sim`): if `ans` agrees with the list, the tree the model's traversal
returns is `Node.Sim` the tree the pure `…R` function of `Proofs/C02Reg.lean` returns for `ans`
(equal where the commit pass looks; the report passes' marks below losing candidates are the
difference).
-/
import Hfsm.Proofs.C02Sim
import Hfsm.Proofs.UtilitySpec
import Hfsm.Proofs.RegistryResolve

set_option linter.unusedSimpArgs false
set_option linter.unusedVariables false
set_option linter.unusedSectionVars false

namespace Hfsm
open UtilArith
variable {U : Type} [UtilArith U]

/-- `(region head id, chosen prong or none = resolution failed)` in order of consumption -/
abbrev Choices := List (Nat × Option Nat)

/-- the oracle gives every listed region the listed prong -/
def Agrees (ans : Nat → Nat) (l : Choices) : Prop := ∀ p ∈ l, p.2 = some (ans p.1)

theorem agrees_nil (ans : Nat → Nat) : Agrees ans [] := fun _ h => absurd h List.not_mem_nil

theorem agrees_cons {ans : Nat → Nat} {x : Nat × Option Nat} {l : Choices} :
    Agrees ans (x :: l) ↔ x.2 = some (ans x.1) ∧ Agrees ans l := by
  simp [Agrees]

theorem agrees_append {ans : Nat → Nat} {l1 l2 : Choices} :
    Agrees ans (l1 ++ l2) ↔ Agrees ans l1 ∧ Agrees ans l2 := by
  simp [Agrees, or_imp, forall_and]

/-! ### the draws of a random region -/

/-- `randomize` on a random region reached at stream position `σ` (after its head's `utility()`, if
the pass asks it): every sub-state's `rank()`, the utilities of the top-rank sub-states
(`deepReportRandomize`), one number of the generator. -/
def Subs.drawRandomize (s : Subs) (σ : Sig U) : Option Nat :=
  let rk := s.rankSpecAll σ
  let top := topRank rk.1
  let us := s.randomizeSpecTop rk.1 top rk.2
  (us.2.resolve us.1 (treeSum us.1) rk.1 top).1

/-- the same under `change` (the top-rank sub-states report by `deepReportChange`) -/
def Subs.drawChange (s : Subs) (σ : Sig U) : Option Nat :=
  let rk := s.rankSpecAll σ
  let top := topRank rk.1
  let us := s.changeSpecTop rk.1 top rk.2
  (us.2.resolve us.1 (treeSum us.1) rk.1 top).1

/-! ### choices of the report passes -/

mutual
/-- `deepReportUtilize`: every composite region picks the leftmost maximum of its sub-states' utilities -/
def Node.utilizeCh : Node → Sig U → Choices
  | .leaf .., _ => []
  | .compo id _ _ h _ _ _ _ _ s, σ =>
    (id, (argMax (s.utilizeSpecAll (σ.headVal h).2).1).map (·.1)) :: s.utilizeChAll (σ.headVal h).2
  | .ortho _ _ _ h s, σ => s.utilizeChAll (σ.headVal h).2
def Subs.utilizeChAll : Subs → Sig U → Choices
  | .nil, _ => []
  | .cons _ n r, σ => n.utilizeCh σ ++ r.utilizeChAll (n.utilizeSpec σ).2
end

mutual
/-- `deepReportRandomize`: every composite region draws among its top-rank sub-states -/
def Node.randomizeCh : Node → Sig U → Choices
  | .leaf .., _ => []
  | .compo id _ _ h _ _ _ _ _ s, σ =>
    (id, s.drawRandomize (σ.headVal h).2) ::
      s.randomizeChTop (s.rankSpecAll (σ.headVal h).2).1 (topRank (s.rankSpecAll (σ.headVal h).2).1)
        (s.rankSpecAll (σ.headVal h).2).2
  | .ortho _ _ _ h s, σ => s.randomizeChAll (σ.headVal h).2
def Subs.randomizeChAll : Subs → Sig U → Choices
  | .nil, _ => []
  | .cons _ n r, σ => n.randomizeCh σ ++ r.randomizeChAll (n.randomizeSpec σ).2
def Subs.randomizeChTop : Subs → List Int → Int → Sig U → Choices
  | .nil, _, _, _ => []
  | .cons _ n r, rks, top, σ =>
    if rks.headD 0 = top then n.randomizeCh σ ++ r.randomizeChTop rks.tail top (n.randomizeSpec σ).2
    else r.randomizeChTop rks.tail top σ
end

mutual
/-- `deepReportChange`: by declared strategy.  A `composite` / `resumable` region consults nothing and
is not listed; a `selectable` region takes its resumable sub-state (or 0) WITHOUT calling `select()`
(finding O1 of C12) and is listed with that prong; `utilitarian`: leftmost maximum; `random`: draw. -/
def Node.changeCh : Node → Sig U → Choices
  | .leaf .., _ => []
  | .compo id _ _ h .composite _ _ _ _ s, σ => s.changeChAt 0 (σ.headVal h).2
  | .compo id _ _ h .resumable _ r _ _ s, σ => s.changeChAt (r.getD 0) (σ.headVal h).2
  | .compo id _ _ h .selectable _ r _ _ s, σ => (id, some (r.getD 0)) :: s.changeChAt (r.getD 0) (σ.headVal h).2
  | .compo id _ _ h .utilitarian _ _ _ _ s, σ =>
    (id, (argMax (s.changeSpecAll (σ.headVal h).2).1).map (·.1)) :: s.changeChAll (σ.headVal h).2
  | .compo id _ _ h .random _ _ _ _ s, σ =>
    (id, s.drawChange (σ.headVal h).2) ::
      s.changeChTop (s.rankSpecAll (σ.headVal h).2).1 (topRank (s.rankSpecAll (σ.headVal h).2).1)
        (s.rankSpecAll (σ.headVal h).2).2
  | .ortho _ _ _ h s, σ => s.changeChAll (σ.headVal h).2
def Subs.changeChAt : Subs → Nat → Sig U → Choices
  | .nil, _, _ => []
  | .cons _ n _, 0, σ => n.changeCh σ
  | .cons _ _ r, i+1, σ => r.changeChAt i σ
def Subs.changeChAll : Subs → Sig U → Choices
  | .nil, _ => []
  | .cons _ n r, σ => n.changeCh σ ++ r.changeChAll (n.changeSpec σ).2
def Subs.changeChTop : Subs → List Int → Int → Sig U → Choices
  | .nil, _, _, _ => []
  | .cons _ n r, rks, top, σ =>
    if rks.headD 0 = top then n.changeCh σ ++ r.changeChTop rks.tail top (n.changeSpec σ).2
    else r.changeChTop rks.tail top σ
end

/-! ### choices of `deepRequest…` (mirrors `Node.requestSpec`) -/

mutual
/-- The answers `deepRequest` of kind `k` consumes below a node reached at stream position `σ`.
`restart` / `resume` (and `change` of a `composite` / `resumable` region) consult nothing. -/
def Node.requestCh : Node → Kind → Sig U → Choices
  | .leaf .., _, _ => []
  | .ortho _ _ _ _ s, k, σ => s.requestChAll k σ
  | .compo id _ _ h st _ r _ _ s, k, σ =>
    match effectiveKind st k with
    | .restart => s.requestChAt 0 k σ
    | .resume => s.requestChAt (r.getD 0) k σ
    | .select =>
      match (σ.headSel h).1 with
      | some i => if i < s.len then (id, some i) :: s.requestChAt i k (σ.headSel h).2 else [(id, none)]
      | none => [(id, none)]
    | .utilize =>
      if k = .change then (id, (argMax (s.changeSpecAll σ).1).map (·.1)) :: s.changeChAll σ
      else (id, (argMax (s.utilizeSpecAll σ).1).map (·.1)) :: s.utilizeChAll σ
    | .randomize =>
      if k = .change then
        (id, s.drawChange σ) :: s.changeChTop (s.rankSpecAll σ).1 (topRank (s.rankSpecAll σ).1) (s.rankSpecAll σ).2
      else
        (id, s.drawRandomize σ) ::
          s.randomizeChTop (s.rankSpecAll σ).1 (topRank (s.rankSpecAll σ).1) (s.rankSpecAll σ).2
    | .change | .schedule => [(id, none)]
def Subs.requestChAt : Subs → Nat → Kind → Sig U → Choices
  | .nil, _, _, _ => []
  | .cons _ n _, 0, k, σ => n.requestCh k σ
  | .cons _ _ r, i+1, k, σ => r.requestChAt i k σ
def Subs.requestChAll : Subs → Kind → Sig U → Choices
  | .nil, _, _ => []
  | .cons _ n r, k, σ => n.requestCh k σ ++ r.requestChAll k (n.requestSpec k σ)
end

/-- The entry of an answer-dependent region is C12's `requestChoice` (with nothing requested before). -/
theorem Node.requestCh_head (id rid inj : Nat) (h : Bool) (st : Strategy) (a r q : Option Nat) (m : Bool)
    (s : Subs) (k : Kind) (σ : Sig U)
    (hk : effectiveKind st k = .select ∨ effectiveKind st k = .utilize ∨ effectiveKind st k = .randomize) :
    ((Node.compo id rid inj h st a r q m s).requestCh k σ).head? = some (id, requestChoice h st r none s k σ) := by
  rcases hk with hk | hk | hk
  · simp only [Node.requestCh, requestChoice, hk]
    cases (σ.headSel h).1 with
    | none => rfl
    | some i => by_cases hi : i < s.len <;> simp [hi]
  · simp only [Node.requestCh, requestChoice, hk]
    by_cases hc : k = .change
    · simp only [hc, ↓reduceIte, List.head?_cons]
      cases argMax (s.changeSpecAll σ).1 with
      | none => rfl
      | some iu => rfl
    · simp only [hc, ↓reduceIte, List.head?_cons]
      cases argMax (s.utilizeSpecAll σ).1 with
      | none => rfl
      | some iu => rfl
  · simp only [Node.requestCh, requestChoice, hk, Subs.drawChange, Subs.drawRandomize]
    by_cases hc : k = .change
    · simp only [hc, ↓reduceIte, List.head?_cons]
    · simp only [hc, ↓reduceIte, List.head?_cons]

/-! ### streams and choices of the forward passes over a marked tree -/

mutual
/-- streams left by `deepForwardRequest` -/
def Node.fwdRequestSpec : Node → Kind → Sig U → Sig U
  | .leaf .., _, σ => σ
  | .compo id rid inj h st a r (some qi) m s, k, σ => s.fwdRequestSpecAt qi k σ
  | .compo id rid inj h st a r none m s, k, σ => Node.requestSpec (.compo id rid inj h st a r none m s) k σ
  | .ortho id rid inj h s, k, σ =>
    if s.anyBit then s.fwdRequestSpecAll k σ else Node.requestSpec (.ortho id rid inj h s) k σ
def Subs.fwdRequestSpecAt : Subs → Nat → Kind → Sig U → Sig U
  | .nil, _, _, σ => σ
  | .cons _ n _, 0, k, σ => n.fwdRequestSpec k σ
  | .cons _ _ r, i+1, k, σ => r.fwdRequestSpecAt i k σ
def Subs.fwdRequestSpecAll : Subs → Kind → Sig U → Sig U
  | .nil, _, σ => σ
  | .cons _ n r, k, σ => r.fwdRequestSpecAll k (n.fwdRequestSpec k σ)
end

mutual
/-- `deepForwardRequest`: follow existing marks, resolve (`requestCh`) where there are none -/
def Node.fwdRequestCh : Node → Kind → Sig U → Choices
  | .leaf .., _, _ => []
  | .compo id rid inj h st a r (some qi) m s, k, σ => s.fwdRequestChAt qi k σ
  | .compo id rid inj h st a r none m s, k, σ => Node.requestCh (.compo id rid inj h st a r none m s) k σ
  | .ortho id rid inj h s, k, σ =>
    if s.anyBit then s.fwdRequestChAll k σ else Node.requestCh (.ortho id rid inj h s) k σ
def Subs.fwdRequestChAt : Subs → Nat → Kind → Sig U → Choices
  | .nil, _, _, _ => []
  | .cons _ n _, 0, k, σ => n.fwdRequestCh k σ
  | .cons _ _ r, i+1, k, σ => r.fwdRequestChAt i k σ
def Subs.fwdRequestChAll : Subs → Kind → Sig U → Choices
  | .nil, _, _ => []
  | .cons _ n r, k, σ => n.fwdRequestCh k σ ++ r.fwdRequestChAll k (n.fwdRequestSpec k σ)
end

mutual
/-- streams left by `deepForwardActive` -/
def Node.fwdActiveSpec : Node → Kind → Sig U → Sig U
  | .leaf .., _, σ => σ
  | .compo _ _ _ _ _ _ _ (some qi) _ s, k, σ => s.fwdRequestSpecAt qi k σ
  | .compo _ _ _ _ _ (some ai) _ none _ s, k, σ => s.fwdActiveSpecAt ai k σ
  | .compo _ _ _ _ _ none _ none _ _, _, σ => σ
  | .ortho _ _ _ _ s, k, σ => s.fwdActiveSpecBits k σ
def Subs.fwdActiveSpecAt : Subs → Nat → Kind → Sig U → Sig U
  | .nil, _, _, σ => σ
  | .cons _ n _, 0, k, σ => n.fwdActiveSpec k σ
  | .cons _ _ r, i+1, k, σ => r.fwdActiveSpecAt i k σ
def Subs.fwdActiveSpecBits : Subs → Kind → Sig U → Sig U
  | .nil, _, σ => σ
  | .cons b n r, k, σ => if b then r.fwdActiveSpecBits k (n.fwdActiveSpec k σ) else r.fwdActiveSpecBits k σ
end

mutual
/-- `deepForwardActive`: walk the active configuration down to where the marks of `requestImmediate`
begin, then `fwdRequestCh` -/
def Node.fwdActiveCh : Node → Kind → Sig U → Choices
  | .leaf .., _, _ => []
  | .compo _ _ _ _ _ _ _ (some qi) _ s, k, σ => s.fwdRequestChAt qi k σ
  | .compo _ _ _ _ _ (some ai) _ none _ s, k, σ => s.fwdActiveChAt ai k σ
  | .compo _ _ _ _ _ none _ none _ _, _, _ => []
  | .ortho _ _ _ _ s, k, σ => s.fwdActiveChBits k σ
def Subs.fwdActiveChAt : Subs → Nat → Kind → Sig U → Choices
  | .nil, _, _, _ => []
  | .cons _ n _, 0, k, σ => n.fwdActiveCh k σ
  | .cons _ _ r, i+1, k, σ => r.fwdActiveChAt i k σ
def Subs.fwdActiveChBits : Subs → Kind → Sig U → Choices
  | .nil, _, _ => []
  | .cons b n r, k, σ =>
    if b then n.fwdActiveCh k σ ++ r.fwdActiveChBits k (n.fwdActiveSpec k σ) else r.fwdActiveChBits k σ
end

/-! ### the forward passes consume the streams as specified -/

mutual
theorem Node.fwdRequest_corr : (n : Node) → (rq : Req) → (w : World U) → (σ : Sig U) → Corr w σ →
    Corr (n.fwdRequest rq w).2 (n.fwdRequestSpec rq.kind σ)
  | .leaf id inj, rq, w, σ, hc => by
    simp only [Node.fwdRequest, Node.fwdRequestSpec]; simpa using hc
  | .compo id rid inj h st a r (some qi) m s, rq, w, σ, hc => by
    simp only [Node.fwdRequest, Node.fwdRequestSpec]
    exact Subs.fwdRequestAt_corr s qi rq _ σ (by simpa using hc)
  | .compo id rid inj h st a r none m s, rq, w, σ, hc => by
    simp only [Node.fwdRequest, Node.fwdRequestSpec]
    exact Node.request_corr _ rq _ σ (by simpa using hc)
  | .ortho id rid inj h s, rq, w, σ, hc => by
    simp only [Node.fwdRequest, Node.fwdRequestSpec]
    split
    · exact Subs.fwdRequestAll_corr s rq _ σ (by simpa using hc)
    · exact Node.request_corr _ rq _ σ (by simpa using hc)
theorem Subs.fwdRequestAt_corr : (s : Subs) → (i : Nat) → (rq : Req) → (w : World U) → (σ : Sig U) → Corr w σ →
    Corr (s.fwdRequestAt i rq w).2 (s.fwdRequestSpecAt i rq.kind σ)
  | .nil, _, rq, w, σ, hc => by simp only [Subs.fwdRequestAt, Subs.fwdRequestSpecAt]; simpa using hc
  | .cons b n r, 0, rq, w, σ, hc => by
    simp only [Subs.fwdRequestAt, Subs.fwdRequestSpecAt]; exact Node.fwdRequest_corr n rq w σ hc
  | .cons b n r, i+1, rq, w, σ, hc => by
    simp only [Subs.fwdRequestAt, Subs.fwdRequestSpecAt]; exact Subs.fwdRequestAt_corr r i rq w σ hc
theorem Subs.fwdRequestAll_corr : (s : Subs) → (rq : Req) → (w : World U) → (σ : Sig U) → Corr w σ →
    Corr (s.fwdRequestAll rq w).2 (s.fwdRequestSpecAll rq.kind σ)
  | .nil, rq, w, σ, hc => by simp only [Subs.fwdRequestAll, Subs.fwdRequestSpecAll]; exact hc
  | .cons b n r, rq, w, σ, hc => by
    simp only [Subs.fwdRequestAll, Subs.fwdRequestSpecAll]
    exact Subs.fwdRequestAll_corr r rq _ _ (Node.fwdRequest_corr n rq w σ hc)
end

mutual
theorem Node.fwdActive_corr : (n : Node) → (rq : Req) → (w : World U) → (σ : Sig U) → Corr w σ →
    Corr (n.fwdActive rq w).2 (n.fwdActiveSpec rq.kind σ)
  | .leaf id inj, rq, w, σ, hc => by
    simp only [Node.fwdActive, Node.fwdActiveSpec]; exact hc
  | .compo id rid inj h st a r (some qi) m s, rq, w, σ, hc => by
    simp only [Node.fwdActive, Node.fwdActiveSpec]
    exact Subs.fwdRequestAt_corr s qi rq _ σ hc
  | .compo id rid inj h st (some ai) r none m s, rq, w, σ, hc => by
    simp only [Node.fwdActive, Node.fwdActiveSpec]
    exact Subs.fwdActiveAt_corr s ai rq _ σ hc
  | .compo id rid inj h st none r none m s, rq, w, σ, hc => by
    simp only [Node.fwdActive, Node.fwdActiveSpec]; simpa using hc
  | .ortho id rid inj h s, rq, w, σ, hc => by
    simp only [Node.fwdActive, Node.fwdActiveSpec]
    exact Subs.fwdActiveBits_corr s rq _ σ hc
theorem Subs.fwdActiveAt_corr : (s : Subs) → (i : Nat) → (rq : Req) → (w : World U) → (σ : Sig U) → Corr w σ →
    Corr (s.fwdActiveAt i rq w).2 (s.fwdActiveSpecAt i rq.kind σ)
  | .nil, _, rq, w, σ, hc => by simp only [Subs.fwdActiveAt, Subs.fwdActiveSpecAt]; simpa using hc
  | .cons b n r, 0, rq, w, σ, hc => by
    simp only [Subs.fwdActiveAt, Subs.fwdActiveSpecAt]; exact Node.fwdActive_corr n rq w σ hc
  | .cons b n r, i+1, rq, w, σ, hc => by
    simp only [Subs.fwdActiveAt, Subs.fwdActiveSpecAt]; exact Subs.fwdActiveAt_corr r i rq w σ hc
theorem Subs.fwdActiveBits_corr : (s : Subs) → (rq : Req) → (w : World U) → (σ : Sig U) → Corr w σ →
    Corr (s.fwdActiveBits rq w).2 (s.fwdActiveSpecBits rq.kind σ)
  | .nil, rq, w, σ, hc => by simp only [Subs.fwdActiveBits, Subs.fwdActiveSpecBits]; exact hc
  | .cons b n r, rq, w, σ, hc => by
    simp only [Subs.fwdActiveBits, Subs.fwdActiveSpecBits]
    split
    · exact Subs.fwdActiveBits_corr r rq _ _ (Node.fwdActive_corr n rq w σ hc)
    · exact Subs.fwdActiveBits_corr r rq _ _ hc
end

/-! ### the report passes write marks only -/

mutual
theorem C02.Node.clearMarks_eq_view : (n : Node) → n.clearMarks = n.view true true false
  | .leaf .. => rfl
  | .compo id rid inj h st a r q m s => by
    simp [Node.clearMarks, Node.view, C02.Subs.clearMarks_eq_view s]
  | .ortho id rid inj h s => by simp [Node.clearMarks, Node.view, C02.Subs.clearMarks_eq_view s]
theorem C02.Subs.clearMarks_eq_view : (s : Subs) → s.clearMarks = s.viewAll true true false
  | .nil => rfl
  | .cons b n r => by
    simp [Subs.clearMarks, Subs.viewAll, C02.Node.clearMarks_eq_view n, C02.Subs.clearMarks_eq_view r]
end

theorem C02.Node.clearMarks_reportChange (n : Node) (w : World U) : (n.reportChange w).1.clearMarks = n.clearMarks := by
  rw [C02.Node.clearMarks_eq_view, C02.Node.clearMarks_eq_view]; exact Node.reportChange_view true true n w
theorem C02.Subs.clearMarks_reportChangeTop (s : Subs) (rks : List Int) (top : Int) (w : World U) :
    (s.reportChangeTop rks top w).1.clearMarks = s.clearMarks := by
  rw [C02.Subs.clearMarks_eq_view, C02.Subs.clearMarks_eq_view]; exact Subs.reportChangeTop_view true true s rks top w
theorem C02.Node.clearMarks_reportUtilize (n : Node) (w : World U) : (n.reportUtilize w).1.clearMarks = n.clearMarks := by
  rw [C02.Node.clearMarks_eq_view, C02.Node.clearMarks_eq_view]; exact Node.reportUtilize_view true true n w
theorem C02.Node.clearMarks_reportRandomize (n : Node) (w : World U) : (n.reportRandomize w).1.clearMarks = n.clearMarks := by
  rw [C02.Node.clearMarks_eq_view, C02.Node.clearMarks_eq_view]; exact Node.reportRandomize_view true true n w
theorem C02.Subs.clearMarks_reportRandomizeTop (s : Subs) (rks : List Int) (top : Int) (w : World U) :
    (s.reportRandomizeTop rks top w).1.clearMarks = s.clearMarks := by
  rw [C02.Subs.clearMarks_eq_view, C02.Subs.clearMarks_eq_view]; exact Subs.reportRandomizeTop_view true true s rks top w
theorem C02.Node.clearMarks_request (n : Node) (rq : Req) (w : World U) : (n.request rq w).1.clearMarks = n.clearMarks := by
  rw [C02.Node.clearMarks_eq_view, C02.Node.clearMarks_eq_view]; exact Node.request_view true true n rq w
theorem C02.Node.clearMarks_fwdRequest (n : Node) (rq : Req) (w : World U) : (n.fwdRequest rq w).1.clearMarks = n.clearMarks := by
  rw [C02.Node.clearMarks_eq_view, C02.Node.clearMarks_eq_view]; exact Node.fwdRequest_view true true n rq w
theorem C02.Node.clearMarks_fwdActive (n : Node) (rq : Req) (w : World U) : (n.fwdActive rq w).1.clearMarks = n.clearMarks := by
  rw [C02.Node.clearMarks_eq_view, C02.Node.clearMarks_eq_view]; exact Node.fwdActive_view true true n rq w

theorem C02.tail_getElem? {α : Type} (l : List α) (j : Nat) (x : α) (h : l[j+1]? = some x) : l.tail[j]? = some x := by
  cases l with
  | nil => simp at h
  | cons _ _ => simpa using h

theorem C02.headD_of_getElem? (l : List Int) (x : Int) (h : l[0]? = some x) : l.headD 0 = x := by
  cases l with
  | nil => simp at h
  | cons _ _ => simpa using h

/-! ### the report passes resolve as the oracle says -/

section
variable (ans : Nat → Nat)

mutual
theorem Node.reportUtilize_sim : (n : Node) → (w : World U) → (σ : Sig U) → Corr w σ →
    Agrees ans (n.utilizeCh σ) → (n.reportUtilize w).1.Sim (n.requestR ans .utilize)
  | .leaf id inj, w, σ, _, _ => by simp only [Node.reportUtilize, Node.requestR, Node.Sim]
  | .compo id rid inj h st a r q m s, w, σ, hc, ha => by
    simp only [Node.utilizeCh, agrees_cons] at ha
    obtain ⟨hq, hrest⟩ := ha
    have h1 := headUtility_corr hc id inj h
    have h2 := Subs.reportUtilizeAll_corr s _ _ h1.2
    have ih := Subs.reportUtilizeAll_sim s _ _ h1.2 hrest
    rw [← h2.1] at hq
    simp only [Node.reportUtilize, Node.requestR, pickProng, effectiveKind]
    split
    · next i u heq =>
      rw [heq] at hq
      simp only [Option.map_some, Option.some.injEq] at hq
      subst hq
      simp only [Node.Sim]
      exact ⟨_, rfl, C02.Subs.simAt_of_simAll ans .utilize _ s _ ih⟩
    · next heq => rw [heq] at hq; cases hq
  | .ortho id rid inj h s, w, σ, hc, ha => by
    simp only [Node.utilizeCh] at ha
    have h1 := headUtility_corr hc id inj h
    simp only [Node.reportUtilize, Node.requestR, Node.Sim]
    exact ⟨_, rfl, Subs.reportUtilizeAll_sim s _ _ h1.2 ha⟩
theorem Subs.reportUtilizeAll_sim : (s : Subs) → (w : World U) → (σ : Sig U) → Corr w σ →
    Agrees ans (s.utilizeChAll σ) → (s.reportUtilizeAll w).1.SimAll (s.requestAllR ans .utilize)
  | .nil, w, σ, _, _ => by simp only [Subs.reportUtilizeAll, Subs.requestAllR, Subs.SimAll]
  | .cons b n r, w, σ, hc, ha => by
    simp only [Subs.utilizeChAll, agrees_append] at ha
    simp only [Subs.reportUtilizeAll, Subs.requestAllR, Subs.SimAll]
    exact ⟨_, _, _, rfl, Node.reportUtilize_sim n w σ hc ha.1,
      Subs.reportUtilizeAll_sim r _ _ (Node.reportUtilize_corr n w σ hc).2 ha.2⟩
end

/-- the draw of `deepReportRandomize` / `deepRequestRandomize`, in projection form -/
theorem C02.Subs.draw_randomize (s : Subs) (w : World U) (σ : Sig U) (hc : Corr w σ) (hid : Nat) :
    ((s.reportRandomizeTop (s.reportRankAll w).2 (topRank (s.reportRankAll w).2) (s.reportRankAll w).1).2.1.resolveRandom
        hid (s.reportRandomizeTop (s.reportRankAll w).2 (topRank (s.reportRankAll w).2) (s.reportRankAll w).1).2.2
        (treeSum (s.reportRandomizeTop (s.reportRankAll w).2 (topRank (s.reportRankAll w).2) (s.reportRankAll w).1).2.2)
        (s.reportRankAll w).2 (topRank (s.reportRankAll w).2)).2 = s.drawRandomize σ ∧
    (s.reportRankAll w).2 = (s.rankSpecAll σ).1 ∧ Corr (s.reportRankAll w).1 (s.rankSpecAll σ).2 := by
  have h2 := Subs.reportRankAll_corr s w σ hc
  refine ⟨?_, h2.1, h2.2⟩
  simp only [Subs.drawRandomize]
  rw [← h2.1]
  have h3 := Subs.reportRandomizeTop_corr s (s.reportRankAll w).2 (topRank (s.reportRankAll w).2) (s.reportRankAll w).1 (s.rankSpecAll σ).2 h2.2
  rw [← h3.1]
  exact (resolveRandom_corr h3.2 hid _ _ _ _).1

theorem C02.Subs.draw_change (s : Subs) (w : World U) (σ : Sig U) (hc : Corr w σ) (hid : Nat) :
    ((s.reportChangeTop (s.reportRankAll w).2 (topRank (s.reportRankAll w).2) (s.reportRankAll w).1).2.1.resolveRandom
        hid (s.reportChangeTop (s.reportRankAll w).2 (topRank (s.reportRankAll w).2) (s.reportRankAll w).1).2.2
        (treeSum (s.reportChangeTop (s.reportRankAll w).2 (topRank (s.reportRankAll w).2) (s.reportRankAll w).1).2.2)
        (s.reportRankAll w).2 (topRank (s.reportRankAll w).2)).2 = s.drawChange σ ∧
    (s.reportRankAll w).2 = (s.rankSpecAll σ).1 ∧ Corr (s.reportRankAll w).1 (s.rankSpecAll σ).2 := by
  have h2 := Subs.reportRankAll_corr s w σ hc
  refine ⟨?_, h2.1, h2.2⟩
  simp only [Subs.drawChange]
  rw [← h2.1]
  have h3 := Subs.reportChangeTop_corr s (s.reportRankAll w).2 (topRank (s.reportRankAll w).2) (s.reportRankAll w).1 (s.rankSpecAll σ).2 h2.2
  rw [← h3.1]
  exact (resolveRandom_corr h3.2 hid _ _ _ _).1

mutual
theorem Node.reportRandomize_sim : (n : Node) → (w : World U) → (σ : Sig U) → Corr w σ →
    Agrees ans (n.randomizeCh σ) → (n.reportRandomize w).1.Sim (n.requestR ans .randomize)
  | .leaf id inj, w, σ, _, _ => by simp only [Node.reportRandomize, Node.requestR, Node.Sim]
  | .compo id rid inj h st a r q m s, w, σ, hc, ha => by
    simp only [Node.randomizeCh, agrees_cons] at ha
    obtain ⟨hq, hrest⟩ := ha
    have h1 := headUtilityWrap_corr hc id inj h
    obtain ⟨hd, hrk, hc2⟩ := C02.Subs.draw_randomize s _ _ h1.2 id
    rw [← hrk] at hrest
    have ih := Subs.reportRandomizeTop_sim s _ (topRank (s.reportRankAll (w.headUtilityWrap id inj h).1).2) _ _ hc2 hrest
    rw [hq] at hd
    have hs := World.resolveRandom_some _ _ _ _ _ _ _ hd
    simp only [Node.reportRandomize, Node.requestR, pickProng, effectiveKind]
    rw [hd]
    simp only [Node.Sim]
    exact ⟨_, rfl, ih _ hs.2⟩
  | .ortho id rid inj h s, w, σ, hc, ha => by
    simp only [Node.randomizeCh] at ha
    have h1 := headUtilityWrap_corr hc id inj h
    simp only [Node.reportRandomize, Node.requestR, Node.Sim]
    exact ⟨_, rfl, Subs.reportRandomizeAll_sim s _ _ h1.2 ha⟩
theorem Subs.reportRandomizeAll_sim : (s : Subs) → (w : World U) → (σ : Sig U) → Corr w σ →
    Agrees ans (s.randomizeChAll σ) → (s.reportRandomizeAll w).1.SimAll (s.requestAllR ans .randomize)
  | .nil, w, σ, _, _ => by simp only [Subs.reportRandomizeAll, Subs.requestAllR, Subs.SimAll]
  | .cons b n r, w, σ, hc, ha => by
    simp only [Subs.randomizeChAll, agrees_append] at ha
    simp only [Subs.reportRandomizeAll, Subs.requestAllR, Subs.SimAll]
    exact ⟨_, _, _, rfl, Node.reportRandomize_sim n w σ hc ha.1,
      Subs.reportRandomizeAll_sim r _ _ (Node.reportRandomize_corr n w σ hc).2 ha.2⟩
theorem Subs.reportRandomizeTop_sim : (s : Subs) → (rks : List Int) → (top : Int) → (w : World U) → (σ : Sig U) →
    Corr w σ → Agrees ans (s.randomizeChTop rks top σ) →
    ∀ j, rks[j]? = some top → (s.reportRandomizeTop rks top w).1.SimAt (s.requestAtR ans .randomize j) j
  | .nil, rks, top, w, σ, _, _ => by
    intro j _; simp only [Subs.reportRandomizeTop, Subs.requestAtR, Subs.SimAt]
  | .cons b n r, rks, top, w, σ, hc, ha => by
    intro j hj
    simp only [Subs.randomizeChTop] at ha
    simp only [Subs.reportRandomizeTop]
    by_cases hr : rks.headD 0 = top
    · simp only [hr, ↓reduceIte, agrees_append] at ha ⊢
      cases j with
      | zero =>
        simp only [Subs.requestAtR, Subs.SimAt]
        exact ⟨_, _, _, rfl, Node.reportRandomize_sim n w σ hc ha.1, C02.Subs.clearMarks_reportRandomizeTop _ _ _ _⟩
      | succ j =>
        simp only [Subs.requestAtR, Subs.SimAt]
        exact ⟨_, _, _, rfl, C02.Node.clearMarks_reportRandomize n w,
          Subs.reportRandomizeTop_sim r rks.tail top _ _ (Node.reportRandomize_corr n w σ hc).2 ha.2 j
            (C02.tail_getElem? rks j top hj)⟩
    · simp only [hr, ↓reduceIte] at ha ⊢
      cases j with
      | zero => exact absurd (C02.headD_of_getElem? rks top hj) hr
      | succ j =>
        simp only [Subs.requestAtR, Subs.SimAt]
        exact ⟨_, _, _, rfl, rfl,
          Subs.reportRandomizeTop_sim r rks.tail top _ _ hc ha j (C02.tail_getElem? rks j top hj)⟩
end

mutual
theorem Node.reportChange_sim : (n : Node) → (w : World U) → (σ : Sig U) → Corr w σ →
    Agrees ans (n.changeCh σ) → (n.reportChange w).1.Sim (n.requestR ans .change)
  | .leaf id inj, w, σ, _, _ => by simp only [Node.reportChange, Node.requestR, Node.Sim]
  | .compo id rid inj h .composite a r q m s, w, σ, hc, ha => by
    simp only [Node.changeCh] at ha
    have h1 := headUtility_corr hc id inj h
    simp only [Node.reportChange, Node.requestR, pickProng, effectiveKind, Node.Sim]
    exact ⟨_, rfl, Subs.reportChangeAt_sim s 0 _ _ h1.2 ha⟩
  | .compo id rid inj h .resumable a r q m s, w, σ, hc, ha => by
    simp only [Node.changeCh] at ha
    have h1 := headUtility_corr hc id inj h
    simp only [Node.reportChange, Node.requestR, pickProng, effectiveKind, Node.Sim]
    exact ⟨_, rfl, Subs.reportChangeAt_sim s _ _ _ h1.2 ha⟩
  | .compo id rid inj h .selectable a r q m s, w, σ, hc, ha => by
    simp only [Node.changeCh, agrees_cons, Option.some.injEq] at ha
    obtain ⟨hq, hrest⟩ := ha
    have h1 := headUtility_corr hc id inj h
    simp only [Node.reportChange, Node.requestR, pickProng, effectiveKind, ← hq, Node.Sim]
    exact ⟨_, rfl, Subs.reportChangeAt_sim s _ _ _ h1.2 hrest⟩
  | .compo id rid inj h .utilitarian a r q m s, w, σ, hc, ha => by
    simp only [Node.changeCh, agrees_cons] at ha
    obtain ⟨hq, hrest⟩ := ha
    have h1 := headUtility_corr hc id inj h
    have h2 := Subs.reportChangeAll_corr s _ _ h1.2
    have ih := Subs.reportChangeAll_sim s _ _ h1.2 hrest
    rw [← h2.1] at hq
    simp only [Node.reportChange, Node.requestR, pickProng, effectiveKind]
    split
    · next i u heq =>
      rw [heq] at hq
      simp only [Option.map_some, Option.some.injEq] at hq
      subst hq
      simp only [Node.Sim]
      exact ⟨_, rfl, C02.Subs.simAt_of_simAll ans .change _ s _ ih⟩
    · next heq => rw [heq] at hq; cases hq
  | .compo id rid inj h .random a r q m s, w, σ, hc, ha => by
    simp only [Node.changeCh, agrees_cons] at ha
    obtain ⟨hq, hrest⟩ := ha
    have h1 := headUtility_corr hc id inj h
    obtain ⟨hd, hrk, hc2⟩ := C02.Subs.draw_change s _ _ h1.2 id
    rw [← hrk] at hrest
    have ih := Subs.reportChangeTop_sim s _ (topRank (s.reportRankAll (w.headUtility id inj h).1).2) _ _ hc2 hrest
    rw [hq] at hd
    have hs := World.resolveRandom_some _ _ _ _ _ _ _ hd
    simp only [Node.reportChange, Node.requestR, pickProng, effectiveKind]
    rw [hd]
    simp only [Node.Sim]
    exact ⟨_, rfl, ih _ hs.2⟩
  | .ortho id rid inj h s, w, σ, hc, ha => by
    simp only [Node.changeCh] at ha
    have h1 := headUtility_corr hc id inj h
    simp only [Node.reportChange, Node.requestR, Node.Sim]
    exact ⟨_, rfl, Subs.reportChangeAll_sim s _ _ h1.2 ha⟩
theorem Subs.reportChangeAt_sim : (s : Subs) → (i : Nat) → (w : World U) → (σ : Sig U) → Corr w σ →
    Agrees ans (s.changeChAt i σ) → (s.reportChangeAt i w).1.SimAt (s.requestAtR ans .change i) i
  | .nil, _, w, σ, _, _ => by simp only [Subs.reportChangeAt, Subs.requestAtR, Subs.SimAt]
  | .cons b n r, 0, w, σ, hc, ha => by
    simp only [Subs.changeChAt] at ha
    simp only [Subs.reportChangeAt, Subs.requestAtR, Subs.SimAt]
    exact ⟨_, _, _, rfl, Node.reportChange_sim n w σ hc ha, rfl⟩
  | .cons b n r, i+1, w, σ, hc, ha => by
    simp only [Subs.changeChAt] at ha
    simp only [Subs.reportChangeAt, Subs.requestAtR, Subs.SimAt]
    exact ⟨_, _, _, rfl, rfl, Subs.reportChangeAt_sim r i w σ hc ha⟩
theorem Subs.reportChangeAll_sim : (s : Subs) → (w : World U) → (σ : Sig U) → Corr w σ →
    Agrees ans (s.changeChAll σ) → (s.reportChangeAll w).1.SimAll (s.requestAllR ans .change)
  | .nil, w, σ, _, _ => by simp only [Subs.reportChangeAll, Subs.requestAllR, Subs.SimAll]
  | .cons b n r, w, σ, hc, ha => by
    simp only [Subs.changeChAll, agrees_append] at ha
    simp only [Subs.reportChangeAll, Subs.requestAllR, Subs.SimAll]
    exact ⟨_, _, _, rfl, Node.reportChange_sim n w σ hc ha.1,
      Subs.reportChangeAll_sim r _ _ (Node.reportChange_corr n w σ hc).2 ha.2⟩
theorem Subs.reportChangeTop_sim : (s : Subs) → (rks : List Int) → (top : Int) → (w : World U) → (σ : Sig U) →
    Corr w σ → Agrees ans (s.changeChTop rks top σ) →
    ∀ j, rks[j]? = some top → (s.reportChangeTop rks top w).1.SimAt (s.requestAtR ans .change j) j
  | .nil, rks, top, w, σ, _, _ => by
    intro j _; simp only [Subs.reportChangeTop, Subs.requestAtR, Subs.SimAt]
  | .cons b n r, rks, top, w, σ, hc, ha => by
    intro j hj
    simp only [Subs.changeChTop] at ha
    simp only [Subs.reportChangeTop]
    by_cases hr : rks.headD 0 = top
    · simp only [hr, ↓reduceIte, agrees_append] at ha ⊢
      cases j with
      | zero =>
        simp only [Subs.requestAtR, Subs.SimAt]
        exact ⟨_, _, _, rfl, Node.reportChange_sim n w σ hc ha.1, C02.Subs.clearMarks_reportChangeTop _ _ _ _⟩
      | succ j =>
        simp only [Subs.requestAtR, Subs.SimAt]
        exact ⟨_, _, _, rfl, C02.Node.clearMarks_reportChange n w,
          Subs.reportChangeTop_sim r rks.tail top _ _ (Node.reportChange_corr n w σ hc).2 ha.2 j
            (C02.tail_getElem? rks j top hj)⟩
    · simp only [hr, ↓reduceIte] at ha ⊢
      cases j with
      | zero => exact absurd (C02.headD_of_getElem? rks top hj) hr
      | succ j =>
        simp only [Subs.requestAtR, Subs.SimAt]
        exact ⟨_, _, _, rfl, rfl,
          Subs.reportChangeTop_sim r rks.tail top _ _ hc ha j (C02.tail_getElem? rks j top hj)⟩
end


/-! ### `deepRequest…`, `deepForwardRequest`, `deepForwardActive` resolve as the oracle says -/

theorem C02.effectiveKind_utilize {st : Strategy} {k : Kind} (h : effectiveKind st k = .utilize) (hc : k ≠ .change) :
    k = .utilize := by
  cases k <;> simp_all [effectiveKind]

theorem C02.effectiveKind_randomize {st : Strategy} {k : Kind} (h : effectiveKind st k = .randomize) (hc : k ≠ .change) :
    k = .randomize := by
  cases k <;> simp_all [effectiveKind]

mutual
theorem Node.request_sim : (n : Node) → (rq : Req) → (w : World U) → (σ : Sig U) → Corr w σ →
    Agrees ans (n.requestCh rq.kind σ) → (n.request rq w).1.Sim (n.requestR ans rq.kind)
  | .leaf id inj, rq, w, σ, _, _ => by simp only [Node.request, Node.requestR, Node.Sim]
  | .ortho id rid inj h s, rq, w, σ, hc, ha => by
    simp only [Node.requestCh] at ha
    simp only [Node.request, Node.requestR, Node.Sim]
    exact ⟨_, rfl, Subs.requestAll_sim s rq _ σ (by simpa using hc) ha⟩
  | .compo id rid inj h st a r q m s, ⟨k, idx⟩, w, σ, hc, ha => by
    have hc0 : Corr (w.pin id idx) σ := by simpa using hc
    simp only [Node.requestCh] at ha
    simp only [Node.request, Node.requestR, pickProng]
    generalize w.pin id idx = w0 at hc0 ⊢
    cases hk : effectiveKind st k with
    | restart =>
      simp only [hk] at ha
      simp only [Node.Sim]
      exact ⟨_, rfl, Subs.requestAt_sim s 0 ⟨k, idx⟩ w0 σ hc0 ha⟩
    | resume =>
      simp only [hk] at ha
      simp only [Node.Sim]
      exact ⟨_, rfl, Subs.requestAt_sim s _ ⟨k, idx⟩ w0 σ hc0 ha⟩
    | select =>
      simp only [hk] at ha
      simp only
      have h1 := headSelect_corr hc0 id inj h
      rw [← h1.1] at ha
      cases hsel : (w0.headSelect id inj h).2 with
      | none => rw [hsel] at ha; simp [agrees_cons] at ha
      | some i =>
        rw [hsel] at ha
        simp only at ha
        by_cases hi : i < s.len
        · simp only [hi, ↓reduceIte, agrees_cons, Option.some.injEq] at ha
          obtain ⟨hq, hrest⟩ := ha
          subst hq
          simp only [hi, ↓reduceIte, Node.Sim]
          exact ⟨_, rfl, Subs.requestAt_sim s _ ⟨k, idx⟩ _ _ (by simpa using h1.2) hrest⟩
        · simp only [hi, ↓reduceIte, agrees_cons] at ha
          exact absurd ha.1 (by simp)
    | utilize =>
      simp only [hk] at ha
      simp only
      by_cases hch : k = .change
      · subst hch
        simp only [↓reduceIte, agrees_cons] at ha ⊢
        obtain ⟨hq, hrest⟩ := ha
        have h2 := Subs.reportChangeAll_corr s w0 σ hc0
        have ih := Subs.reportChangeAll_sim ans s w0 σ hc0 hrest
        rw [← h2.1] at hq
        split
        · next i u heq =>
          rw [heq] at hq
          simp only [Option.map_some, Option.some.injEq] at hq
          subst hq
          simp only [Node.Sim]
          exact ⟨_, rfl, C02.Subs.simAt_of_simAll ans .change _ s _ ih⟩
        · next heq => rw [heq] at hq; cases hq
      · have hku := C02.effectiveKind_utilize hk hch
        subst hku
        simp only [reduceCtorEq, ↓reduceIte, agrees_cons] at ha ⊢
        obtain ⟨hq, hrest⟩ := ha
        have h2 := Subs.reportUtilizeAll_corr s w0 σ hc0
        have ih := Subs.reportUtilizeAll_sim ans s w0 σ hc0 hrest
        rw [← h2.1] at hq
        split
        · next i u heq =>
          rw [heq] at hq
          simp only [Option.map_some, Option.some.injEq] at hq
          subst hq
          simp only [Node.Sim]
          exact ⟨_, rfl, C02.Subs.simAt_of_simAll ans .utilize _ s _ ih⟩
        · next heq => rw [heq] at hq; cases hq
    | randomize =>
      simp only [hk] at ha
      simp only
      by_cases hch : k = .change
      · subst hch
        simp only [↓reduceIte, agrees_cons] at ha ⊢
        obtain ⟨hq, hrest⟩ := ha
        obtain ⟨hd, hrk, hc2⟩ := C02.Subs.draw_change s w0 σ hc0 id
        rw [← hrk] at hrest
        have ih := Subs.reportChangeTop_sim ans s _ (topRank (s.reportRankAll w0).2) _ _ hc2 hrest
        rw [hq] at hd
        have hs := World.resolveRandom_some _ _ _ _ _ _ _ hd
        rw [hd]
        simp only [Node.Sim]
        exact ⟨_, rfl, ih _ hs.2⟩
      · have hku := C02.effectiveKind_randomize hk hch
        subst hku
        simp only [reduceCtorEq, ↓reduceIte, agrees_cons] at ha ⊢
        obtain ⟨hq, hrest⟩ := ha
        obtain ⟨hd, hrk, hc2⟩ := C02.Subs.draw_randomize s w0 σ hc0 id
        rw [← hrk] at hrest
        have ih := Subs.reportRandomizeTop_sim ans s _ (topRank (s.reportRankAll w0).2) _ _ hc2 hrest
        rw [hq] at hd
        have hs := World.resolveRandom_some _ _ _ _ _ _ _ hd
        rw [hd]
        simp only [Node.Sim]
        exact ⟨_, rfl, ih _ hs.2⟩
    | change =>
      simp only [hk, agrees_cons] at ha
      exact absurd ha.1 (by simp)
    | schedule =>
      simp only [hk, agrees_cons] at ha
      exact absurd ha.1 (by simp)
theorem Subs.requestAt_sim : (s : Subs) → (i : Nat) → (rq : Req) → (w : World U) → (σ : Sig U) → Corr w σ →
    Agrees ans (s.requestChAt i rq.kind σ) → (s.requestAt i rq w).1.SimAt (s.requestAtR ans rq.kind i) i
  | .nil, _, rq, w, σ, _, _ => by simp only [Subs.requestAt, Subs.requestAtR, Subs.SimAt]
  | .cons b n r, 0, rq, w, σ, hc, ha => by
    simp only [Subs.requestChAt] at ha
    simp only [Subs.requestAt, Subs.requestAtR, Subs.SimAt]
    exact ⟨_, _, _, rfl, Node.request_sim n rq w σ hc ha, rfl⟩
  | .cons b n r, i+1, rq, w, σ, hc, ha => by
    simp only [Subs.requestChAt] at ha
    simp only [Subs.requestAt, Subs.requestAtR, Subs.SimAt]
    exact ⟨_, _, _, rfl, rfl, Subs.requestAt_sim r i rq w σ hc ha⟩
theorem Subs.requestAll_sim : (s : Subs) → (rq : Req) → (w : World U) → (σ : Sig U) → Corr w σ →
    Agrees ans (s.requestChAll rq.kind σ) → (s.requestAll rq w).1.SimAll (s.requestAllR ans rq.kind)
  | .nil, rq, w, σ, _, _ => by simp only [Subs.requestAll, Subs.requestAllR, Subs.SimAll]
  | .cons b n r, rq, w, σ, hc, ha => by
    simp only [Subs.requestChAll, agrees_append] at ha
    simp only [Subs.requestAll, Subs.requestAllR, Subs.SimAll]
    exact ⟨_, _, _, rfl, Node.request_sim n rq w σ hc ha.1,
      Subs.requestAll_sim r rq _ _ (Node.request_corr n rq w σ hc) ha.2⟩
end

mutual
theorem Node.fwdRequest_sim : (n : Node) → (rq : Req) → (w : World U) → (σ : Sig U) → Corr w σ →
    Agrees ans (n.fwdRequestCh rq.kind σ) → (n.fwdRequest rq w).1.Sim (n.fwdRequestR ans rq.kind)
  | .leaf id inj, rq, w, σ, _, _ => by simp only [Node.fwdRequest, Node.fwdRequestR, Node.Sim]
  | .compo id rid inj h st a r (some qi) m s, rq, w, σ, hc, ha => by
    simp only [Node.fwdRequestCh] at ha
    simp only [Node.fwdRequest, Node.fwdRequestR, Node.Sim]
    exact ⟨_, rfl, Subs.fwdRequestAt_sim s qi rq _ σ (by simpa using hc) ha⟩
  | .compo id rid inj h st a r none m s, rq, w, σ, hc, ha => by
    simp only [Node.fwdRequestCh] at ha
    simp only [Node.fwdRequest, Node.fwdRequestR]
    exact Node.request_sim ans _ rq _ σ (by simpa using hc) ha
  | .ortho id rid inj h s, rq, w, σ, hc, ha => by
    simp only [Node.fwdRequestCh] at ha
    simp only [Node.fwdRequest, Node.fwdRequestR]
    split
    · next hb =>
      simp only [hb, ↓reduceIte] at ha
      simp only [Node.Sim]
      exact ⟨_, rfl, Subs.fwdRequestAll_sim s rq _ σ (by simpa using hc) ha⟩
    · next hb =>
      simp only [hb, Bool.false_eq_true, ↓reduceIte] at ha
      exact Node.request_sim ans _ rq _ σ (by simpa using hc) ha
theorem Subs.fwdRequestAt_sim : (s : Subs) → (i : Nat) → (rq : Req) → (w : World U) → (σ : Sig U) → Corr w σ →
    Agrees ans (s.fwdRequestChAt i rq.kind σ) → (s.fwdRequestAt i rq w).1.SimAt (s.fwdRequestAtR ans rq.kind i) i
  | .nil, _, rq, w, σ, _, _ => by simp only [Subs.fwdRequestAt, Subs.fwdRequestAtR, Subs.SimAt]
  | .cons b n r, 0, rq, w, σ, hc, ha => by
    simp only [Subs.fwdRequestChAt] at ha
    simp only [Subs.fwdRequestAt, Subs.fwdRequestAtR, Subs.SimAt]
    exact ⟨_, _, _, rfl, Node.fwdRequest_sim n rq w σ hc ha, rfl⟩
  | .cons b n r, i+1, rq, w, σ, hc, ha => by
    simp only [Subs.fwdRequestChAt] at ha
    simp only [Subs.fwdRequestAt, Subs.fwdRequestAtR, Subs.SimAt]
    exact ⟨_, _, _, rfl, rfl, Subs.fwdRequestAt_sim r i rq w σ hc ha⟩
theorem Subs.fwdRequestAll_sim : (s : Subs) → (rq : Req) → (w : World U) → (σ : Sig U) → Corr w σ →
    Agrees ans (s.fwdRequestChAll rq.kind σ) → (s.fwdRequestAll rq w).1.SimAll (s.fwdRequestAllR ans rq.kind)
  | .nil, rq, w, σ, _, _ => by simp only [Subs.fwdRequestAll, Subs.fwdRequestAllR, Subs.SimAll]
  | .cons b n r, rq, w, σ, hc, ha => by
    simp only [Subs.fwdRequestChAll, agrees_append] at ha
    simp only [Subs.fwdRequestAll, Subs.fwdRequestAllR, Subs.SimAll]
    exact ⟨_, _, _, rfl, Node.fwdRequest_sim n rq w σ hc ha.1,
      Subs.fwdRequestAll_sim r rq _ _ (Node.fwdRequest_corr n rq w σ hc) ha.2⟩
end

mutual
theorem Node.fwdActive_sim : (n : Node) → (rq : Req) → (w : World U) → (σ : Sig U) → Corr w σ →
    Agrees ans (n.fwdActiveCh rq.kind σ) → (n.fwdActive rq w).1.Sim (n.fwdActiveR ans rq.kind)
  | .leaf id inj, rq, w, σ, _, _ => by simp only [Node.fwdActive, Node.fwdActiveR, Node.Sim]
  | .compo id rid inj h st a r (some qi) m s, rq, w, σ, hc, ha => by
    simp only [Node.fwdActiveCh] at ha
    simp only [Node.fwdActive, Node.fwdActiveR, Node.Sim]
    exact ⟨_, rfl, Subs.fwdRequestAt_sim ans s qi rq _ σ hc ha⟩
  | .compo id rid inj h st (some ai) r none m s, rq, w, σ, hc, ha => by
    simp only [Node.fwdActiveCh] at ha
    simp only [Node.fwdActive, Node.fwdActiveR, Node.Sim]
    exact ⟨_, rfl, Subs.fwdActiveAt_sim s ai rq _ σ hc ha⟩
  | .compo id rid inj h st none r none m s, rq, w, σ, hc, ha => by
    simp only [Node.fwdActive, Node.fwdActiveR, Node.Sim]
    exact ⟨_, rfl, rfl⟩
  | .ortho id rid inj h s, rq, w, σ, hc, ha => by
    simp only [Node.fwdActiveCh] at ha
    simp only [Node.fwdActive, Node.fwdActiveR, Node.Sim]
    exact ⟨_, rfl, Subs.fwdActiveBits_sim s rq _ σ hc ha⟩
theorem Subs.fwdActiveAt_sim : (s : Subs) → (i : Nat) → (rq : Req) → (w : World U) → (σ : Sig U) → Corr w σ →
    Agrees ans (s.fwdActiveChAt i rq.kind σ) → (s.fwdActiveAt i rq w).1.SimAt (s.fwdActiveAtR ans rq.kind i) i
  | .nil, _, rq, w, σ, _, _ => by simp only [Subs.fwdActiveAt, Subs.fwdActiveAtR, Subs.SimAt]
  | .cons b n r, 0, rq, w, σ, hc, ha => by
    simp only [Subs.fwdActiveChAt] at ha
    simp only [Subs.fwdActiveAt, Subs.fwdActiveAtR, Subs.SimAt]
    exact ⟨_, _, _, rfl, Node.fwdActive_sim n rq w σ hc ha, rfl⟩
  | .cons b n r, i+1, rq, w, σ, hc, ha => by
    simp only [Subs.fwdActiveChAt] at ha
    simp only [Subs.fwdActiveAt, Subs.fwdActiveAtR, Subs.SimAt]
    exact ⟨_, _, _, rfl, rfl, Subs.fwdActiveAt_sim r i rq w σ hc ha⟩
theorem Subs.fwdActiveBits_sim : (s : Subs) → (rq : Req) → (w : World U) → (σ : Sig U) → Corr w σ →
    Agrees ans (s.fwdActiveChBits rq.kind σ) → (s.fwdActiveBits rq w).1.SimAll (s.fwdActiveBitsR ans rq.kind)
  | .nil, rq, w, σ, _, _ => by simp only [Subs.fwdActiveBits, Subs.fwdActiveBitsR, Subs.SimAll]
  | .cons b n r, rq, w, σ, hc, ha => by
    simp only [Subs.fwdActiveChBits] at ha
    simp only [Subs.fwdActiveBits, Subs.fwdActiveBitsR]
    cases b with
    | true =>
      simp only [↓reduceIte, agrees_append] at ha ⊢
      simp only [Subs.SimAll]
      exact ⟨_, _, _, rfl, Node.fwdActive_sim n rq w σ hc ha.1,
        Subs.fwdActiveBits_sim r rq _ _ (Node.fwdActive_corr n rq w σ hc) ha.2⟩
    | false =>
      simp only [Bool.false_eq_true, ↓reduceIte] at ha ⊢
      simp only [Subs.SimAll]
      exact ⟨_, _, _, rfl, C02.Node.sim_refl n, Subs.fwdActiveBits_sim r rq _ _ hc ha⟩
end

end

end Hfsm
