/-
Assembly of the tree-level round trip: `load` (= clear marks and resumables, `loadRequested`, commit
resp. enter, restore the loaded resumable marks) applied to the image of `s` turns ANY active (resp.
clean) tree of the same structure into `s` itself.
-/
import Hfsm.Proofs.SerialCommit

namespace Hfsm

/-- the static skeleton with the resumable marks of `n` (everything but `resumable` forgotten) -/
def Node.resOnly (n : Node) : Node := n.cleared.withResumableOf n
def Subs.resOnly (s : Subs) : Subs := s.cleared.withResumableOf s

mutual
theorem Node.resOnly_withResumableOf : (x y : Node) → x.sameShape y → (x.withResumableOf y).resOnly = y.resOnly
  | .leaf .., .leaf .., h => by
    simp only [Node.sameShape, Node.cleared] at h
    simp only [Node.withResumableOf, Node.resOnly, Node.cleared]; exact h
  | .leaf .., .compo .., h => by simp [Node.sameShape, Node.cleared] at h
  | .leaf .., .ortho .., h => by simp [Node.sameShape, Node.cleared] at h
  | .compo .., .leaf .., h => by simp [Node.sameShape, Node.cleared] at h
  | .compo .., .ortho .., h => by simp [Node.sameShape, Node.cleared] at h
  | .ortho .., .leaf .., h => by simp [Node.sameShape, Node.cleared] at h
  | .ortho .., .compo .., h => by simp [Node.sameShape, Node.cleared] at h
  | .compo _ _ _ _ _ _ _ _ _ xs, .compo _ _ _ _ _ _ _ _ _ ys, h => by
    obtain ⟨rfl, rfl, rfl, rfl, rfl, hss⟩ := Node.sameShape_compo h
    have ih := Subs.resOnly_withResumableOf xs ys hss
    simp only [Subs.resOnly] at ih
    simp only [Node.withResumableOf, Node.resOnly, Node.cleared]
    rw [ih]
  | .ortho _ _ _ _ xs, .ortho _ _ _ _ ys, h => by
    obtain ⟨rfl, rfl, rfl, rfl, hss⟩ := Node.sameShape_ortho h
    have ih := Subs.resOnly_withResumableOf xs ys hss
    simp only [Subs.resOnly] at ih
    simp only [Node.withResumableOf, Node.resOnly, Node.cleared]
    rw [ih]
theorem Subs.resOnly_withResumableOf : (x y : Subs) → x.sameShape y → (x.withResumableOf y).resOnly = y.resOnly
  | .nil, .nil, _ => rfl
  | .nil, .cons .., h => by simp [Subs.sameShape, Subs.cleared] at h
  | .cons .., .nil, h => by simp [Subs.sameShape, Subs.cleared] at h
  | .cons b n r, .cons b' n' r', h => by
    obtain ⟨hn, hrr⟩ := Subs.sameShape_cons h
    have ih1 := Node.resOnly_withResumableOf n n' hn
    have ih2 := Subs.resOnly_withResumableOf r r' hrr
    simp only [Subs.resOnly, Node.resOnly] at ih1 ih2
    simp only [Subs.withResumableOf, Subs.resOnly, Subs.cleared]
    rw [ih1, ih2]
end

-- a tree is determined by its resumable-free part and its resumable marks
mutual
theorem Node.eq_of_parts : (x y : Node) → x.noResumable = y.noResumable → x.resOnly = y.resOnly → x = y
  | .leaf .., .leaf .., h, _ => by simpa [Node.noResumable] using h
  | .leaf .., .compo .., h, _ => by simp [Node.noResumable] at h
  | .leaf .., .ortho .., h, _ => by simp [Node.noResumable] at h
  | .compo .., .leaf .., h, _ => by simp [Node.noResumable] at h
  | .compo .., .ortho .., h, _ => by simp [Node.noResumable] at h
  | .ortho .., .leaf .., h, _ => by simp [Node.noResumable] at h
  | .ortho .., .compo .., h, _ => by simp [Node.noResumable] at h
  | .compo _ _ _ _ _ _ _ _ _ xs, .compo _ _ _ _ _ _ _ _ _ ys, h, h' => by
    simp only [Node.noResumable, Node.compo.injEq, true_and] at h
    simp only [Node.resOnly, Node.cleared, Node.withResumableOf, Node.compo.injEq, true_and] at h'
    obtain ⟨rfl, rfl, rfl, rfl, rfl, rfl, rfl, rfl, hn⟩ := h
    obtain ⟨_, _, _, _, _, rfl, hr⟩ := h'
    rw [Subs.eq_of_parts xs ys hn hr]
  | .ortho _ _ _ _ xs, .ortho _ _ _ _ ys, h, h' => by
    simp only [Node.noResumable, Node.ortho.injEq] at h
    simp only [Node.resOnly, Node.cleared, Node.withResumableOf, Node.ortho.injEq] at h'
    obtain ⟨rfl, rfl, rfl, rfl, hn⟩ := h
    rw [Subs.eq_of_parts xs ys hn h'.2.2.2.2]
theorem Subs.eq_of_parts : (x y : Subs) → x.noResumable = y.noResumable → x.resOnly = y.resOnly → x = y
  | .nil, .nil, _, _ => rfl
  | .nil, .cons .., h, _ => by simp [Subs.noResumable] at h
  | .cons .., .nil, h, _ => by simp [Subs.noResumable] at h
  | .cons b n r, .cons b' n' r', h, h' => by
    simp only [Subs.noResumable, Subs.cons.injEq] at h
    simp only [Subs.resOnly, Subs.cleared, Subs.withResumableOf, Subs.cons.injEq, true_and] at h'
    obtain ⟨rfl, hn, hr⟩ := h
    rw [Node.eq_of_parts n n' hn h'.1, Subs.eq_of_parts r r' hr h'.2]
end

theorem Node.cleared_eq_of_noResumable {x y : Node} (h : x.noResumable = y.noResumable) : x.sameShape y := by
  have := congrArg Node.cleared h
  rwa [Node.cleared_noResumable, Node.cleared_noResumable] at this

/-- restoring the loaded resumable marks after a pass that reached `s` up to resumable marks -/
theorem Node.restore_loaded (f d s : Node) (hds : d.sameShape s)
    (hf : f.noResumable = s.noResumable) : f.withResumableOf (d.mergeReq s) = s := by
  have hfs : f.sameShape s := Node.cleared_eq_of_noResumable hf
  have hX : (d.reqFrom s).sameShape s := by
    have := Node.mergeReq_cleared d s
    rw [Node.mergeReq_eq d s hds, Node.withResumableOf_cleared] at this
    exact Eq.trans this hds
  apply Node.eq_of_parts
  · rw [Node.noResumable_withResumableOf]; exact hf
  · rw [Node.resOnly_withResumableOf _ _ (by
      show f.cleared = (d.mergeReq s).cleared
      rw [Node.mergeReq_cleared]; exact Eq.trans hfs hds.symm)]
    rw [Node.mergeReq_eq d s hds, Node.resOnly_withResumableOf _ _ hX]

/-- the tree `load` reads into: marks and resumables cleared -/
def Node.loadBase (d : Node) : Node := d.clearMarks.noResumable

/-! ### preservation of the well-formedness predicates by the clearing steps of `load` -/

mutual
theorem Node.noMarks_clearMarks : (n : Node) → n.clearMarks.NoMarks
  | .leaf .. => trivial
  | .compo _ _ _ _ _ _ _ _ _ s => by simp only [Node.clearMarks, Node.NoMarks, true_and]; exact Subs.noMarks_clearMarks s
  | .ortho _ _ _ _ s => by simp only [Node.clearMarks, Node.NoMarks]; exact Subs.noMarks_clearMarks s
theorem Subs.noMarks_clearMarks : (s : Subs) → s.clearMarks.NoMarksAll
  | .nil => trivial
  | .cons _ n r => by
    simp only [Subs.clearMarks, Subs.NoMarksAll, true_and]; exact ⟨Node.noMarks_clearMarks n, Subs.noMarks_clearMarks r⟩
end

mutual
theorem Node.noMarks_noResumable : (n : Node) → n.NoMarks → n.noResumable.NoMarks
  | .leaf .., _ => trivial
  | .compo _ _ _ _ _ _ _ _ _ s, h => by
    simp only [Node.NoMarks] at h
    simp only [Node.noResumable, Node.NoMarks]; exact ⟨h.1, h.2.1, Subs.noMarks_noResumable s h.2.2⟩
  | .ortho _ _ _ _ s, h => by
    simp only [Node.NoMarks] at h
    simp only [Node.noResumable, Node.NoMarks]; exact Subs.noMarks_noResumable s h
theorem Subs.noMarks_noResumable : (s : Subs) → s.NoMarksAll → s.noResumable.NoMarksAll
  | .nil, _ => trivial
  | .cons _ n r, h => by
    simp only [Subs.NoMarksAll] at h
    simp only [Subs.noResumable, Subs.NoMarksAll]
    exact ⟨h.1, Node.noMarks_noResumable n h.2.1, Subs.noMarks_noResumable r h.2.2⟩
end

mutual
theorem Node.clean_clearMarks : (n : Node) → n.Clean → n.clearMarks.Clean
  | .leaf .., _ => trivial
  | .compo _ _ _ _ _ _ _ _ _ s, h => by
    simp only [Node.Clean] at h
    simp only [Node.clearMarks, Node.Clean]; exact ⟨h.1, Subs.clean_clearMarks s h.2⟩
  | .ortho _ _ _ _ s, h => by
    simp only [Node.Clean] at h
    simp only [Node.clearMarks, Node.Clean]; exact Subs.clean_clearMarks s h
theorem Subs.clean_clearMarks : (s : Subs) → s.CleanAll → s.clearMarks.CleanAll
  | .nil, _ => trivial
  | .cons _ n r, h => by
    simp only [Subs.CleanAll] at h
    simp only [Subs.clearMarks, Subs.CleanAll]
    exact ⟨Node.clean_clearMarks n h.1, Subs.clean_clearMarks r h.2⟩
end

mutual
theorem Node.clean_noResumable : (n : Node) → n.Clean → n.noResumable.Clean
  | .leaf .., _ => trivial
  | .compo _ _ _ _ _ _ _ _ _ s, h => by
    simp only [Node.Clean] at h
    simp only [Node.noResumable, Node.Clean]; exact ⟨h.1, Subs.clean_noResumable s h.2⟩
  | .ortho _ _ _ _ s, h => by
    simp only [Node.Clean] at h
    simp only [Node.noResumable, Node.Clean]; exact Subs.clean_noResumable s h
theorem Subs.clean_noResumable : (s : Subs) → s.CleanAll → s.noResumable.CleanAll
  | .nil, _ => trivial
  | .cons _ n r, h => by
    simp only [Subs.CleanAll] at h
    simp only [Subs.noResumable, Subs.CleanAll]
    exact ⟨Node.clean_noResumable n h.1, Subs.clean_noResumable r h.2⟩
end

mutual
theorem Node.act_clearMarks : (n : Node) → n.Act → n.clearMarks.Act
  | .leaf .., _ => trivial
  | .compo _ _ _ _ _ a _ _ _ s, h => by
    cases a with
    | none => simp [Node.Act] at h
    | some ai =>
      simp only [Node.Act] at h
      simp only [Node.clearMarks, Node.Act]; exact Subs.actAt_clearMarks s ai h
  | .ortho _ _ _ _ s, h => by
    simp only [Node.Act] at h
    simp only [Node.clearMarks, Node.Act]; exact Subs.actAll_clearMarks s h
theorem Subs.actAt_clearMarks : (s : Subs) → (i : Nat) → s.ActAt i → s.clearMarks.ActAt i
  | .nil, _, h => by simp [Subs.ActAt] at h
  | .cons _ n r, 0, h => by
    simp only [Subs.ActAt] at h
    simp only [Subs.clearMarks, Subs.ActAt]; exact ⟨Node.act_clearMarks n h.1, Subs.clean_clearMarks r h.2⟩
  | .cons _ n r, i+1, h => by
    simp only [Subs.ActAt] at h
    simp only [Subs.clearMarks, Subs.ActAt]; exact ⟨Node.clean_clearMarks n h.1, Subs.actAt_clearMarks r i h.2⟩
theorem Subs.actAll_clearMarks : (s : Subs) → s.ActAll → s.clearMarks.ActAll
  | .nil, _ => trivial
  | .cons _ n r, h => by
    simp only [Subs.ActAll] at h
    simp only [Subs.clearMarks, Subs.ActAll]; exact ⟨Node.act_clearMarks n h.1, Subs.actAll_clearMarks r h.2⟩
end

mutual
theorem Node.act_noResumable : (n : Node) → n.Act → n.noResumable.Act
  | .leaf .., _ => trivial
  | .compo _ _ _ _ _ a _ _ _ s, h => by
    cases a with
    | none => simp [Node.Act] at h
    | some ai =>
      simp only [Node.Act] at h
      simp only [Node.noResumable, Node.Act]; exact Subs.actAt_noResumable s ai h
  | .ortho _ _ _ _ s, h => by
    simp only [Node.Act] at h
    simp only [Node.noResumable, Node.Act]; exact Subs.actAll_noResumable s h
theorem Subs.actAt_noResumable : (s : Subs) → (i : Nat) → s.ActAt i → s.noResumable.ActAt i
  | .nil, _, h => by simp [Subs.ActAt] at h
  | .cons _ n r, 0, h => by
    simp only [Subs.ActAt] at h
    simp only [Subs.noResumable, Subs.ActAt]; exact ⟨Node.act_noResumable n h.1, Subs.clean_noResumable r h.2⟩
  | .cons _ n r, i+1, h => by
    simp only [Subs.ActAt] at h
    simp only [Subs.noResumable, Subs.ActAt]; exact ⟨Node.clean_noResumable n h.1, Subs.actAt_noResumable r i h.2⟩
theorem Subs.actAll_noResumable : (s : Subs) → s.ActAll → s.noResumable.ActAll
  | .nil, _ => trivial
  | .cons _ n r, h => by
    simp only [Subs.ActAll] at h
    simp only [Subs.noResumable, Subs.ActAll]; exact ⟨Node.act_noResumable n h.1, Subs.actAll_noResumable r h.2⟩
end


theorem Node.loadBase_sameShape (d : Node) : d.loadBase.sameShape d := by
  simp only [Node.sameShape, Node.loadBase, Node.cleared_noResumable, Node.cleared_clearMarks]

theorem Node.loadBase_noMarks (d : Node) : d.loadBase.NoMarks :=
  Node.noMarks_noResumable _ (Node.noMarks_clearMarks d)

theorem Node.loadBase_act (d : Node) (h : d.Act) : d.loadBase.Act :=
  Node.act_noResumable _ (Node.act_clearMarks d h)

/-! ### `loadRequested` changes request and resumable marks only -/

mutual
theorem Node.loadBase_withResumableOf : (d s : Node) → (d.withResumableOf s).loadBase = d.loadBase
  | .leaf .., _ => rfl
  | .compo _ _ _ _ _ _ _ _ _ ds, .compo _ _ _ _ _ _ _ _ _ ss => by
    have ih := Subs.loadBase_withResumableOf ds ss
    simp only [Node.loadBase] at *
    simp only [Node.withResumableOf, Node.clearMarks, Node.noResumable]; rw [ih]
  | .compo .., .leaf .. => rfl
  | .compo .., .ortho .. => rfl
  | .ortho _ _ _ _ ds, .ortho _ _ _ _ ss => by
    have ih := Subs.loadBase_withResumableOf ds ss
    simp only [Node.loadBase] at *
    simp only [Node.withResumableOf, Node.clearMarks, Node.noResumable]; rw [ih]
  | .ortho .., .leaf .. => rfl
  | .ortho .., .compo .. => rfl
theorem Subs.loadBase_withResumableOf : (d s : Subs) →
    (d.withResumableOf s).clearMarks.noResumable = d.clearMarks.noResumable
  | .nil, _ => rfl
  | .cons _ _ _, .nil => rfl
  | .cons _ n r, .cons _ n' r' => by
    have ih1 := Node.loadBase_withResumableOf n n'
    have ih2 := Subs.loadBase_withResumableOf r r'
    simp only [Node.loadBase] at ih1
    simp only [Subs.withResumableOf, Subs.clearMarks, Subs.noResumable]; rw [ih1, ih2]
end

mutual
theorem Node.loadBase_mergeReq : (d s : Node) → (d.mergeReq s).loadBase = d.loadBase
  | .leaf .., _ => rfl
  | .compo _ _ _ _ _ _ _ _ _ ds, .compo _ _ _ _ _ a' _ _ _ ss => by
    have ih := Subs.loadBase_mergeReqAt ds ss (a'.getD 0)
    simp only [Node.loadBase] at *
    simp only [Node.mergeReq, Node.clearMarks, Node.noResumable]; rw [ih]
  | .compo .., .leaf .. => rfl
  | .compo .., .ortho .. => rfl
  | .ortho _ _ _ _ ds, .ortho _ _ _ _ ss => by
    have ih := Subs.loadBase_mergeReqAll ds ss
    simp only [Node.loadBase] at *
    simp only [Node.mergeReq, Node.clearMarks, Node.noResumable]; rw [ih]
  | .ortho .., .leaf .. => rfl
  | .ortho .., .compo .. => rfl
theorem Subs.loadBase_mergeReqAt : (d s : Subs) → (i : Nat) →
    (d.mergeReqAt s i).clearMarks.noResumable = d.clearMarks.noResumable
  | .nil, _, _ => rfl
  | .cons _ _ _, .nil, _ => rfl
  | .cons _ n r, .cons _ n' r', 0 => by
    have ih1 := Node.loadBase_mergeReq n n'
    have ih2 := Subs.loadBase_withResumableOf r r'
    simp only [Node.loadBase] at ih1
    simp only [Subs.mergeReqAt, Subs.clearMarks, Subs.noResumable]; rw [ih1, ih2]
  | .cons _ n r, .cons _ n' r', i+1 => by
    have ih1 := Node.loadBase_withResumableOf n n'
    have ih2 := Subs.loadBase_mergeReqAt r r' i
    simp only [Node.loadBase] at ih1
    simp only [Subs.mergeReqAt, Subs.clearMarks, Subs.noResumable]; rw [ih1, ih2]
theorem Subs.loadBase_mergeReqAll : (d s : Subs) →
    (d.mergeReqAll s).clearMarks.noResumable = d.clearMarks.noResumable
  | .nil, _ => rfl
  | .cons _ _ _, .nil => rfl
  | .cons _ n r, .cons _ n' r' => by
    have ih1 := Node.loadBase_mergeReq n n'
    have ih2 := Subs.loadBase_mergeReqAll r r'
    simp only [Node.loadBase] at ih1
    simp only [Subs.mergeReqAll, Subs.clearMarks, Subs.noResumable]; rw [ih1, ih2]
end

/-- the resumable marks of the loaded tree are the saved ones, everywhere -/
theorem Node.resOnly_mergeReq (d s : Node) (h : d.sameShape s) : (d.mergeReq s).resOnly = s.resOnly := by
  have hX : (d.reqFrom s).sameShape s := by
    have := Node.mergeReq_cleared d s
    rw [Node.mergeReq_eq d s h, Node.withResumableOf_cleared] at this
    exact Eq.trans this h
  rw [Node.mergeReq_eq d s h, Node.resOnly_withResumableOf _ _ hX]

/-! ### the loaded marks in the vocabulary of Proofs/Wf.lean: `Res` (enterable) and `COK` (committable) -/

mutual
theorem Node.res_mergeReq : (d s : Node) → d.sameShape s → s.Act → (d.mergeReq s).Res
  | .leaf .., .leaf .., _, _ => trivial
  | .leaf .., .compo .., h, _ => by simp [Node.sameShape, Node.cleared] at h
  | .leaf .., .ortho .., h, _ => by simp [Node.sameShape, Node.cleared] at h
  | .compo .., .leaf .., h, _ => by simp [Node.sameShape, Node.cleared] at h
  | .compo .., .ortho .., h, _ => by simp [Node.sameShape, Node.cleared] at h
  | .ortho .., .leaf .., h, _ => by simp [Node.sameShape, Node.cleared] at h
  | .ortho .., .compo .., h, _ => by simp [Node.sameShape, Node.cleared] at h
  | .compo _ _ _ _ _ _ _ _ _ ds, .compo _ _ _ _ _ a' _ _ _ ss, h, ha => by
    obtain ⟨_, _, _, _, _, hss⟩ := Node.sameShape_compo h
    cases a' with
    | none => simp [Node.Act] at ha
    | some si =>
      simp only [Node.Act] at ha
      simp only [Node.mergeReq, Node.Res, Option.getD_some]
      exact Subs.resAt_mergeReqAt ds ss si hss ha
  | .ortho _ _ _ _ ds, .ortho _ _ _ _ ss, h, ha => by
    obtain ⟨_, _, _, _, hss⟩ := Node.sameShape_ortho h
    simp only [Node.Act] at ha
    simp only [Node.mergeReq, Node.Res]
    exact Subs.resAll_mergeReqAll ds ss hss ha
theorem Subs.resAt_mergeReqAt : (d s : Subs) → (i : Nat) → d.sameShape s → s.ActAt i → (d.mergeReqAt s i).ResAt i
  | .nil, .nil, _, _, ha => by simp [Subs.ActAt] at ha
  | .nil, .cons .., _, h, _ => by simp [Subs.sameShape, Subs.cleared] at h
  | .cons .., .nil, _, h, _ => by simp [Subs.sameShape, Subs.cleared] at h
  | .cons _ n r, .cons _ n' r', 0, h, ha => by
    obtain ⟨hn, _⟩ := Subs.sameShape_cons h
    simp only [Subs.ActAt] at ha
    simp only [Subs.mergeReqAt, Subs.ResAt]
    exact Node.res_mergeReq n n' hn ha.1
  | .cons _ n r, .cons _ n' r', i+1, h, ha => by
    obtain ⟨_, hrr⟩ := Subs.sameShape_cons h
    simp only [Subs.ActAt] at ha
    simp only [Subs.mergeReqAt, Subs.ResAt]
    exact Subs.resAt_mergeReqAt r r' i hrr ha.2
theorem Subs.resAll_mergeReqAll : (d s : Subs) → d.sameShape s → s.ActAll → (d.mergeReqAll s).ResAll
  | .nil, .nil, _, _ => trivial
  | .nil, .cons .., h, _ => by simp [Subs.sameShape, Subs.cleared] at h
  | .cons .., .nil, h, _ => by simp [Subs.sameShape, Subs.cleared] at h
  | .cons _ n r, .cons _ n' r', h, ha => by
    obtain ⟨hn, hrr⟩ := Subs.sameShape_cons h
    simp only [Subs.ActAll] at ha
    simp only [Subs.mergeReqAll, Subs.ResAll]
    exact ⟨Node.res_mergeReq n n' hn ha.1, Subs.resAll_mergeReqAll r r' hrr ha.2⟩
end

mutual
theorem Node.cok_mergeReq : (d s : Node) → d.sameShape s → s.Act → (d.mergeReq s).COK
  | .leaf .., .leaf .., _, _ => trivial
  | .leaf .., .compo .., h, _ => by simp [Node.sameShape, Node.cleared] at h
  | .leaf .., .ortho .., h, _ => by simp [Node.sameShape, Node.cleared] at h
  | .compo .., .leaf .., h, _ => by simp [Node.sameShape, Node.cleared] at h
  | .compo .., .ortho .., h, _ => by simp [Node.sameShape, Node.cleared] at h
  | .ortho .., .leaf .., h, _ => by simp [Node.sameShape, Node.cleared] at h
  | .ortho .., .compo .., h, _ => by simp [Node.sameShape, Node.cleared] at h
  | .compo _ _ _ _ _ _ _ _ _ ds, .compo _ _ _ _ _ a' _ _ _ ss, h, ha => by
    obtain ⟨_, _, _, _, _, hss⟩ := Node.sameShape_compo h
    cases a' with
    | none => simp [Node.Act] at ha
    | some si =>
      simp only [Node.Act] at ha
      simp only [Node.mergeReq, Node.COK, Option.getD_some]
      exact Subs.resAt_mergeReqAt ds ss si hss ha
  | .ortho _ _ _ _ ds, .ortho _ _ _ _ ss, h, ha => by
    obtain ⟨_, _, _, _, hss⟩ := Node.sameShape_ortho h
    simp only [Node.Act] at ha
    simp only [Node.mergeReq, Node.COK]
    exact Subs.cokAll_mergeReqAll ds ss hss ha
theorem Subs.cokAll_mergeReqAll : (d s : Subs) → d.sameShape s → s.ActAll → (d.mergeReqAll s).COKAll
  | .nil, .nil, _, _ => trivial
  | .nil, .cons .., h, _ => by simp [Subs.sameShape, Subs.cleared] at h
  | .cons .., .nil, h, _ => by simp [Subs.sameShape, Subs.cleared] at h
  | .cons _ n r, .cons _ n' r', h, ha => by
    obtain ⟨hn, hrr⟩ := Subs.sameShape_cons h
    simp only [Subs.ActAll] at ha
    simp only [Subs.mergeReqAll, Subs.COKAll]
    exact ⟨Node.cok_mergeReq n n' hn ha.1, Subs.cokAll_mergeReqAll r r' hrr ha.2⟩
end

/-! ### the tree-level round trip -/

/-- Active destination: after the commit pass over the loaded marks and the restoration of the loaded
resumable marks the destination tree IS the source tree. -/
theorem Node.load_commit_eq (d s : Node) (hds : d.sameShape s) (hda : d.Act) (hdm : d.NoMarks)
    (hsa : s.Act) (hsm : s.NoMarks) :
    (d.mergeReq s).commitT.withResumableOf (d.mergeReq s) = s := by
  apply Node.restore_loaded _ d s hds
  rw [Node.mergeReq_eq d s hds, Node.commitT_nr, Node.noResumable_withResumableOf, ← Node.commitT_nr]
  exact Node.commitT_reqFrom d s hds hda hdm hsa hsm

/-- Inactive destination (`loadEnter`). -/
theorem Node.load_enter_eq (d s : Node) (hds : d.sameShape s) (hdc : d.Clean) (hdm : d.NoMarks)
    (hsa : s.Act) (hsm : s.NoMarks) :
    (d.mergeReq s).enterT.withResumableOf (d.mergeReq s) = s := by
  apply Node.restore_loaded _ d s hds
  rw [Node.mergeReq_eq d s hds, Node.enterT_nr, Node.noResumable_withResumableOf, ← Node.enterT_nr]
  exact Node.enterT_reqFrom d s hds hdc hdm hsa hsm

end Hfsm
