/-
Closed terms used by the witness theorems of Props/C04, C09, C14: a trivial utility arithmetic on `Nat`,
two small machines and helpers that read the trace.  Everything here is evaluated by the kernel
(`decide +kernel`), nothing is trusted.
-/
import Hfsm.Model.Machine

namespace Hfsm.Witness
open Hfsm

/-- utilities are natural numbers (the witnesses below never divide) -/
instance natArith : UtilArith Nat where
  zero := 0
  one := 1
  add := (· + ·)
  sub := (· - ·)
  mul := (· * ·)
  divNat := fun x n => x / n
  le := fun a b => decide (a ≤ b)

/-- `n` callbacks that do nothing -/
def idle (n : Nat) : List (Decision Nat) := List.replicate n []

/-- (state, method) of the callbacks in the trace, oldest first -/
def cbs (m : Mach Nat) : List (Nat × Method) :=
  m.w.trace.reverse.filterMap (fun e => match e with | .cb sid meth _ _ _ _ => some (sid, meth) | _ => none)

/-- forget the trace (start observing a new step) -/
def fresh (m : Mach Nat) (ds : List (Decision Nat)) : Mach Nat := { m with w := { m.w with trace := [], ds := ds } }

/-- `O(0)[ C(1)[2 3 4] , C(5)[6 O(7)[8 9 10]] ]` — the third of the fixed shapes of tools/mach_engine.py,
without injected bases: an orthogonal root with a resumable region and a composite region that contains
an orthogonal sub-region. -/
def shapeO : Shape :=
  .ortho true 0 (.cons (.compo true 0 .resumable (.cons (.leaf 0) (.cons (.leaf 0) (.cons (.leaf 0) .nil))))
    (.cons (.compo true 0 .composite (.cons (.leaf 0)
      (.cons (.ortho true 0 (.cons (.leaf 0) (.cons (.leaf 0) (.cons (.leaf 0) .nil)))) .nil))) .nil))

/-- `C(0)[1 2 3]` — a composite root with three plain sub-states -/
def shapeC : Shape := .compo true 0 .composite (.cons (.leaf 0) (.cons (.leaf 0) (.cons (.leaf 0) .nil)))

/-- `C(0)[1 U(2)[3 4]]` — a composite root whose second sub-state is a utilitarian region -/
def shapeU : Shape :=
  .compo true 0 .composite (.cons (.leaf 0) (.cons (.compo true 0 .utilitarian (.cons (.leaf 0) (.cons (.leaf 0) .nil))) .nil))

/-- a freshly activated instance of `shape` (no logger, queue of 4) -/
def start (shape : Shape) : Mach Nat :=
  let m : Mach Nat := Mach.create shape { queueCap := 4, logging := false }
  ({ m with w := { m.w with ds := idle 40 } }).initialEnter

end Hfsm.Witness

namespace Hfsm

mutual
/-- boolean equality of trees (the mutual inductive type has no derived `DecidableEq`) -/
def Node.beqW : Node → Node → Bool
  | .leaf id inj, .leaf id' inj' => id == id' && inj == inj'
  | .compo id rid inj h st a r q m s, .compo id' rid' inj' h' st' a' r' q' m' s' =>
    id == id' && rid == rid' && inj == inj' && h == h' && decide (st = st') && a == a' && r == r' && q == q' &&
      m == m' && s.beqW s'
  | .ortho id rid inj h s, .ortho id' rid' inj' h' s' =>
    id == id' && rid == rid' && inj == inj' && h == h' && s.beqW s'
  | _, _ => false
def Subs.beqW : Subs → Subs → Bool
  | .nil, .nil => true
  | .cons b n r, .cons b' n' r' => b == b' && n.beqW n' && r.beqW r'
  | _, _ => false
end

mutual
theorem Node.eq_of_beqW : (a b : Node) → a.beqW b = true → a = b
  | .leaf id inj, .leaf id' inj', h => by
    simp only [Node.beqW, Bool.and_eq_true, beq_iff_eq] at h
    rw [h.1, h.2]
  | .compo id rid inj hd st a r q m s, .compo id' rid' inj' hd' st' a' r' q' m' s', h => by
    simp only [Node.beqW, Bool.and_eq_true, beq_iff_eq, decide_eq_true_eq] at h
    obtain ⟨⟨⟨⟨⟨⟨⟨⟨⟨h1, h2⟩, h3⟩, h4⟩, h5⟩, h6⟩, h7⟩, h8⟩, h9⟩, h10⟩ := h
    rw [h1, h2, h3, h4, h5, h6, h7, h8, h9, Subs.eq_of_beqW s s' h10]
  | .ortho id rid inj hd s, .ortho id' rid' inj' hd' s', h => by
    simp only [Node.beqW, Bool.and_eq_true, beq_iff_eq] at h
    obtain ⟨⟨⟨⟨h1, h2⟩, h3⟩, h4⟩, h5⟩ := h
    rw [h1, h2, h3, h4, Subs.eq_of_beqW s s' h5]
  | .leaf .., .compo .., h => by simp [Node.beqW] at h
  | .leaf .., .ortho .., h => by simp [Node.beqW] at h
  | .compo .., .leaf .., h => by simp [Node.beqW] at h
  | .compo .., .ortho .., h => by simp [Node.beqW] at h
  | .ortho .., .leaf .., h => by simp [Node.beqW] at h
  | .ortho .., .compo .., h => by simp [Node.beqW] at h
theorem Subs.eq_of_beqW : (a b : Subs) → a.beqW b = true → a = b
  | .nil, .nil, _ => rfl
  | .cons b n r, .cons b' n' r', h => by
    simp only [Subs.beqW, Bool.and_eq_true, beq_iff_eq] at h
    rw [h.1.1, Node.eq_of_beqW n n' h.1.2, Subs.eq_of_beqW r r' h.2]
  | .nil, .cons .., h => by simp [Subs.beqW] at h
  | .cons .., .nil, h => by simp [Subs.beqW] at h
end

end Hfsm
