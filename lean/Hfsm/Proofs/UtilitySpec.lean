/-
C12: the report passes as pure functions of the answer streams.

`Sig U` is the part of the `World` the utility passes read: the decisions still to come (each
`utility()/rank()/select()` callback pops one), the random numbers still to come, and a counter of
`resolveRandom` calls.  `Node.utilizeSpec / changeSpec / randomizeSpec` compute the reported utility
from those streams alone; `Node.report*_corr` prove that the model's traversals (which thread the whole
`World`, log, and mark the tree) return exactly these values and leave exactly these streams — which
fixes the ORDER in which answers are consumed: head first, then the sub-states left to right (for a
random region: head, all ranks left to right, then the utilities of the top-rank sub-states).
-/
import Hfsm.Proofs.Utility

namespace Hfsm
open UtilArith
variable {U : Type} [UtilArith U]
set_option linter.unusedSectionVars false

/-- What `utility()` answered: the first `retUtil` of the decision, `Utility{}` if there is none
(a contract violation the model records in `err`). -/
def utilAnswer (d : Decision U) : U :=
  (d.findSome? (fun | .retUtil u => some u | _ => none)).getD zero

def rankAnswer (d : Decision U) : Int :=
  (d.findSome? (fun (a : Action U) => match a with | .retRank r => some r | _ => none)).getD 0

def selectAnswer (d : Decision U) : Option Nat :=
  d.findSome? (fun (a : Action U) => match a with | .retSelect i => some i | _ => none)

/-- The streams the utility passes consume, with a counter of `resolveRandom` calls. -/
structure Sig (U : Type) where
  ds : List (Decision U)
  rng : List U
  calls : Nat

/-- A world and a stream state agree. -/
def Corr (w : World U) (σ : Sig U) : Prop := w.ds = σ.ds ∧ w.rng = σ.rng

namespace Sig

/-- `wrapUtility` of a (possibly anonymous) head; an anonymous head answers the default `Utility{1}`
(before the repair of N5 it answered `Utility{}` = 0). -/
def headVal (σ : Sig U) (h : Bool) : U × Sig U :=
  if h then (utilAnswer (σ.ds.headD []), { σ with ds := σ.ds.tail }) else (one, σ)

/-- `wrapRank`. -/
def headRk (σ : Sig U) (h : Bool) : Int × Sig U :=
  if h then (rankAnswer (σ.ds.headD []), { σ with ds := σ.ds.tail }) else (0, σ)

/-- `wrapSelect`; an anonymous head answers the default prong 0. -/
def headSel (σ : Sig U) (h : Bool) : Option Nat × Sig U :=
  if h then (selectAnswer (σ.ds.headD []), { σ with ds := σ.ds.tail }) else (some 0, σ)

/-- `resolveRandom`: one number of the stream, one call counted. -/
def resolve (σ : Sig U) (utils : List U) (sum : U) (ranks : List Int) (top : Int) : Option Nat × Sig U :=
  match σ.rng with
  | [] => (none, { σ with calls := σ.calls + 1 })
  | rnd :: rest =>
    (World.resolveRandom.go top utils ranks 0 (mul rnd sum) none, { σ with rng := rest, calls := σ.calls + 1 })

end Sig

def Node.headed : Node → Bool
  | .leaf .. => true
  | .compo _ _ _ h _ _ _ _ _ _ => h
  | .ortho _ _ _ h _ => h

/-- `wideReportRank`: one `rank()` per (headed) sub-state, left to right. -/
def Subs.rankSpecAll : Subs → Sig U → List Int × Sig U
  | .nil, σ => ([], σ)
  | .cons _ n r, σ =>
    let (rk, σ) := σ.headRk n.headed
    let (rks, σ) := r.rankSpecAll σ
    (rk :: rks, σ)

mutual
def Node.utilizeSpec : Node → Sig U → U × Sig U
  | .leaf _ _, σ => σ.headVal true
  | .compo _ _ _ h _ _ _ _ _ s, σ =>
    let (hu, σ) := σ.headVal h
    let (us, σ) := s.utilizeSpecAll σ
    match argMax us with
    | some (_, u) => (mul hu u, σ)
    | none => (zero, σ)
  | .ortho _ _ _ h s, σ =>
    let (hu, σ) := σ.headVal h
    let (us, σ) := s.utilizeSpecAll σ
    (mul hu (divNat (chainSum us) s.len), σ)
def Subs.utilizeSpecAll : Subs → Sig U → List U × Sig U
  | .nil, σ => ([], σ)
  | .cons _ n r, σ =>
    let (u, σ) := n.utilizeSpec σ
    let (us, σ) := r.utilizeSpecAll σ
    (u :: us, σ)
end

mutual
def Node.randomizeSpec : Node → Sig U → U × Sig U
  | .leaf _ _, σ => σ.headVal true
  | .compo _ _ _ h _ _ _ _ _ s, σ =>
    let (hu, σ) := σ.headVal h
    let (ranks, σ) := s.rankSpecAll σ
    let top := topRank ranks
    let (us, σ) := s.randomizeSpecTop ranks top σ
    let (chosen, σ) := σ.resolve us (treeSum us) ranks top
    (mul hu (us.getD (chosen.getD 0) zero), σ)
  | .ortho _ _ _ h s, σ =>
    let (hu, σ) := σ.headVal h
    let (us, σ) := s.randomizeSpecAll σ
    (mul hu (divNat (chainSum us) s.len), σ)
def Subs.randomizeSpecAll : Subs → Sig U → List U × Sig U
  | .nil, σ => ([], σ)
  | .cons _ n r, σ =>
    let (u, σ) := n.randomizeSpec σ
    let (us, σ) := r.randomizeSpecAll σ
    (u :: us, σ)
def Subs.randomizeSpecTop : Subs → List Int → Int → Sig U → List U × Sig U
  | .nil, _, _, σ => ([], σ)
  | .cons _ n r, rks, top, σ =>
    if rks.headD 0 = top then
      let (u, σ) := n.randomizeSpec σ
      let (us, σ) := r.randomizeSpecTop rks.tail top σ
      (u :: us, σ)
    else
      let (us, σ) := r.randomizeSpecTop rks.tail top σ
      (zero :: us, σ)
end

mutual
def Node.changeSpec : Node → Sig U → U × Sig U
  | .leaf _ _, σ => σ.headVal true
  | .compo _ _ _ h st _ r _ _ s, σ =>
    match st with
    | .composite =>
      let (hu, σ) := σ.headVal h
      let (su, σ) := s.changeSpecAt 0 σ
      (mul hu su, σ)
    | .resumable | .selectable =>
      let (hu, σ) := σ.headVal h
      let (su, σ) := s.changeSpecAt (r.getD 0) σ
      (mul hu su, σ)
    | .utilitarian =>
      let (hu, σ) := σ.headVal h
      let (us, σ) := s.changeSpecAll σ
      match argMax us with
      | some (_, u) => (mul hu u, σ)
      | none => (zero, σ)
    | .random =>
      let (hu, σ) := σ.headVal h
      let (ranks, σ) := s.rankSpecAll σ
      let top := topRank ranks
      let (us, σ) := s.changeSpecTop ranks top σ
      let (chosen, σ) := σ.resolve us (treeSum us) ranks top
      (mul hu (us.getD (chosen.getD 0) zero), σ)
  | .ortho _ _ _ h s, σ =>
    let (hu, σ) := σ.headVal h
    let (us, σ) := s.changeSpecAll σ
    (mul hu (divNat (chainSum us) s.len), σ)
def Subs.changeSpecAt : Subs → Nat → Sig U → U × Sig U
  | .nil, _, σ => (zero, σ)
  | .cons _ n _, 0, σ => n.changeSpec σ
  | .cons _ _ r, i+1, σ => r.changeSpecAt i σ
def Subs.changeSpecAll : Subs → Sig U → List U × Sig U
  | .nil, σ => ([], σ)
  | .cons _ n r, σ =>
    let (u, σ) := n.changeSpec σ
    let (us, σ) := r.changeSpecAll σ
    (u :: us, σ)
def Subs.changeSpecTop : Subs → List Int → Int → Sig U → List U × Sig U
  | .nil, _, _, σ => ([], σ)
  | .cons _ n r, rks, top, σ =>
    if rks.headD 0 = top then
      let (u, σ) := n.changeSpec σ
      let (us, σ) := r.changeSpecTop rks.tail top σ
      (u :: us, σ)
    else
      let (us, σ) := r.changeSpecTop rks.tail top σ
      (zero :: us, σ)
end

/-! ### correspondence of the head callbacks -/

section Heads

@[simp] theorem Corr_logRec (w : World U) (r : LogRec U) (σ : Sig U) : Corr (w.logRec r) σ ↔ Corr w σ := by
  simp [Corr]
@[simp] theorem Corr_fail' (w : World U) (m : String) (σ : Sig U) : Corr (w.fail' m) σ ↔ Corr w σ := by
  simp [Corr]
@[simp] theorem Corr_pin (w : World U) (sid : Nat) (i : Option Nat) (σ : Sig U) : Corr (w.pin sid i) σ ↔ Corr w σ := by
  simp [Corr]

theorem Corr_invoke {w : World U} {σ : Sig U} (hc : Corr w σ) (sid : Nat) (m : Method) (slot : Nat) :
    (w.invoke sid m slot).2 = σ.ds.headD [] ∧ Corr (w.invoke sid m slot).1 { σ with ds := σ.ds.tail } := by
  obtain ⟨h1, h2, h3⟩ := World.invoke_streams_u w sid m slot
  exact ⟨by rw [h1, hc.1], by rw [h2, hc.1], by rw [h3, hc.2]⟩

theorem headUtility_corr {w : World U} {σ : Sig U} (hc : Corr w σ) (sid inj : Nat) (h : Bool) :
    (w.headUtility sid inj h).2 = (σ.headVal h).1 ∧ Corr (w.headUtility sid inj h).1 (σ.headVal h).2 := by
  unfold World.headUtility Sig.headVal
  cases h with
  | false => simpa using hc
  | true =>
    simp only [if_true]
    have hc' : Corr (w.logRec (.method sid .utility)) σ := by simpa using hc
    obtain ⟨e1, e2⟩ := Corr_invoke hc' sid .utility inj
    generalize (w.logRec (.method sid .utility)).invoke sid .utility inj = r at e1 e2
    obtain ⟨w1, d⟩ := r
    simp only at e1 e2 ⊢
    subst e1
    split <;> rename_i heq
    · exact ⟨(congrArg (fun o => Option.getD o _) heq).symm, e2⟩
    · exact ⟨(congrArg (fun o => Option.getD o _) heq).symm, by simpa using e2⟩

theorem headUtilityWrap_corr {w : World U} {σ : Sig U} (hc : Corr w σ) (sid inj : Nat) (h : Bool) :
    (w.headUtilityWrap sid inj h).2 = (σ.headVal h).1 ∧ Corr (w.headUtilityWrap sid inj h).1 (σ.headVal h).2 := by
  cases h with
  | true =>
    have := headUtility_corr hc sid inj true
    simpa only [World.headUtilityWrap, if_true] using this
  | false =>
    simp only [World.headUtilityWrap, Sig.headVal, Bool.false_eq_true, if_false]
    refine ⟨trivial, ?_⟩
    split <;> simpa using hc

theorem headRank_corr {w : World U} {σ : Sig U} (hc : Corr w σ) (sid inj : Nat) (h : Bool) :
    (w.headRank sid inj h).2 = (σ.headRk h).1 ∧ Corr (w.headRank sid inj h).1 (σ.headRk h).2 := by
  unfold World.headRank Sig.headRk
  cases h with
  | false => simp; split <;> simpa using hc
  | true =>
    simp only [Bool.true_or, if_true]
    have hc' : Corr (w.logRec (.method sid .rank)) σ := by simpa using hc
    obtain ⟨e1, e2⟩ := Corr_invoke hc' sid .rank inj
    generalize (w.logRec (.method sid .rank)).invoke sid .rank inj = r at e1 e2
    obtain ⟨w1, d⟩ := r
    simp only at e1 e2 ⊢
    subst e1
    split <;> rename_i heq
    · exact ⟨(congrArg (fun o => Option.getD o _) heq).symm, e2⟩
    · exact ⟨(congrArg (fun o => Option.getD o _) heq).symm, by simpa using e2⟩

theorem headSelect_corr {w : World U} {σ : Sig U} (hc : Corr w σ) (sid inj : Nat) (h : Bool) :
    (w.headSelect sid inj h).2 = (σ.headSel h).1 ∧ Corr (w.headSelect sid inj h).1 (σ.headSel h).2 := by
  unfold World.headSelect Sig.headSel
  cases h with
  | false => simp; split <;> simpa using hc
  | true =>
    simp only [Bool.true_or, if_true]
    have hc' : Corr (w.logRec (.method sid .select)) σ := by simpa using hc
    obtain ⟨e1, e2⟩ := Corr_invoke hc' sid .select inj
    generalize (w.logRec (.method sid .select)).invoke sid .select inj = r at e1 e2
    obtain ⟨w1, d⟩ := r
    simp only at e1 e2 ⊢
    subst e1
    split <;> rename_i heq
    · exact ⟨heq.symm, e2⟩
    · exact ⟨heq.symm, by simpa using e2⟩

theorem resolveRandom_corr {w : World U} {σ : Sig U} (hc : Corr w σ) (hid : Nat) (us : List U) (sum : U)
    (rks : List Int) (top : Int) :
    (w.resolveRandom hid us sum rks top).2 = (σ.resolve us sum rks top).1 ∧
    Corr (w.resolveRandom hid us sum rks top).1 (σ.resolve us sum rks top).2 := by
  unfold World.resolveRandom Sig.resolve
  rw [← hc.2]
  split
  · next h => simp [h]; exact ⟨hc.1, by simp [h]⟩
  · next rnd rest h =>
    simp only [h]
    split <;> rename_i heq <;> simp [heq, Corr, hc.1]

end Heads

/-! ### the traversals compute the specs -/

theorem Subs.reportRankAll_corr : (s : Subs) → (w : World U) → (σ : Sig U) → Corr w σ →
    (s.reportRankAll w).2 = (s.rankSpecAll σ).1 ∧ Corr (s.reportRankAll w).1 (s.rankSpecAll σ).2
  | .nil, w, σ, hc => by simp only [Subs.reportRankAll, Subs.rankSpecAll]; exact ⟨trivial, hc⟩
  | .cons b n r, w, σ, hc => by
    have key : ∀ (r1 : World U × Int) (r1' : Int × Sig U), (r1.2 = r1'.1 ∧ Corr r1.1 r1'.2) →
        (r1.2 :: (r.reportRankAll r1.1).2) = (r1'.1 :: (r.rankSpecAll r1'.2).1) ∧
        Corr (r.reportRankAll r1.1).1 (r.rankSpecAll r1'.2).2 := by
      intro r1 r1' ⟨e1, hc1⟩
      have h3 := Subs.reportRankAll_corr r r1.1 r1'.2 hc1
      exact ⟨by rw [e1, h3.1], h3.2⟩
    cases n with
    | leaf id inj => exact key _ _ (headRank_corr hc id inj true)
    | compo id rid inj h st a rr q m s => exact key _ _ (headRank_corr hc id inj h)
    | ortho id rid inj h s => exact key _ _ (headRank_corr hc id inj h)

mutual
theorem Node.reportUtilize_corr : (n : Node) → (w : World U) → (σ : Sig U) → Corr w σ →
    (n.reportUtilize w).2.2 = (n.utilizeSpec σ).1 ∧ Corr (n.reportUtilize w).2.1 (n.utilizeSpec σ).2
  | .leaf id inj, w, σ, hc => by
    simp only [Node.reportUtilize, Node.utilizeSpec]
    exact headUtility_corr hc id inj true
  | .compo id rid inj h st a r q m s, w, σ, hc => by
    simp only [Node.reportUtilize, Node.utilizeSpec]
    have h1 := headUtility_corr hc id inj h
    generalize w.headUtility id inj h = r1 at h1 ⊢
    generalize σ.headVal h = r1' at h1 ⊢
    obtain ⟨w1, hu⟩ := r1; obtain ⟨hu', σ1⟩ := r1'
    obtain ⟨e1, hc1⟩ := h1
    simp only at e1 hc1 ⊢
    have h2 := Subs.reportUtilizeAll_corr s w1 σ1 hc1
    generalize s.reportUtilizeAll w1 = r2 at h2 ⊢
    generalize s.utilizeSpecAll σ1 = r2' at h2 ⊢
    obtain ⟨s', w2, us⟩ := r2; obtain ⟨us', σ2⟩ := r2'
    obtain ⟨e2, hc2⟩ := h2
    simp only at e2 hc2 ⊢
    subst e1 e2
    cases argMax us with
    | none => exact ⟨rfl, by simpa using hc2⟩
    | some iu => obtain ⟨i, u⟩ := iu; exact ⟨rfl, by simpa using hc2⟩
  | .ortho id rid inj h s, w, σ, hc => by
    simp only [Node.reportUtilize, Node.utilizeSpec]
    have h1 := headUtility_corr hc id inj h
    generalize w.headUtility id inj h = r1 at h1 ⊢
    generalize σ.headVal h = r1' at h1 ⊢
    obtain ⟨w1, hu⟩ := r1; obtain ⟨hu', σ1⟩ := r1'
    obtain ⟨e1, hc1⟩ := h1
    simp only at e1 hc1 ⊢
    have h2 := Subs.reportUtilizeAll_corr s w1 σ1 hc1
    generalize s.reportUtilizeAll w1 = r2 at h2 ⊢
    generalize s.utilizeSpecAll σ1 = r2' at h2 ⊢
    obtain ⟨s', w2, us⟩ := r2; obtain ⟨us', σ2⟩ := r2'
    obtain ⟨e2, hc2⟩ := h2
    simp only at e2 hc2 ⊢
    subst e1 e2
    exact ⟨rfl, by simpa using hc2⟩
theorem Subs.reportUtilizeAll_corr : (s : Subs) → (w : World U) → (σ : Sig U) → Corr w σ →
    (s.reportUtilizeAll w).2.2 = (s.utilizeSpecAll σ).1 ∧ Corr (s.reportUtilizeAll w).2.1 (s.utilizeSpecAll σ).2
  | .nil, w, σ, hc => by simp only [Subs.reportUtilizeAll, Subs.utilizeSpecAll]; exact ⟨trivial, hc⟩
  | .cons b n r, w, σ, hc => by
    simp only [Subs.reportUtilizeAll, Subs.utilizeSpecAll]
    have h1 := Node.reportUtilize_corr n w σ hc
    generalize n.reportUtilize w = r1 at h1 ⊢
    generalize n.utilizeSpec σ = r1' at h1 ⊢
    obtain ⟨n', w1, u⟩ := r1; obtain ⟨u', σ1⟩ := r1'
    obtain ⟨e1, hc1⟩ := h1
    simp only at e1 hc1 ⊢
    have h2 := Subs.reportUtilizeAll_corr r w1 σ1 hc1
    generalize r.reportUtilizeAll w1 = r2 at h2 ⊢
    generalize r.utilizeSpecAll σ1 = r2' at h2 ⊢
    obtain ⟨r', w2, us⟩ := r2; obtain ⟨us', σ2⟩ := r2'
    obtain ⟨e2, hc2⟩ := h2
    simp only at e2 hc2 ⊢
    exact ⟨by rw [e1, e2], hc2⟩
end

mutual
theorem Node.reportRandomize_corr : (n : Node) → (w : World U) → (σ : Sig U) → Corr w σ →
    (n.reportRandomize w).2.2 = (n.randomizeSpec σ).1 ∧ Corr (n.reportRandomize w).2.1 (n.randomizeSpec σ).2
  | .leaf id inj, w, σ, hc => by
    simp only [Node.reportRandomize, Node.randomizeSpec]
    exact headUtility_corr hc id inj true
  | .compo id rid inj h st a r q m s, w, σ, hc => by
    simp only [Node.reportRandomize, Node.randomizeSpec]
    have h1 := headUtilityWrap_corr hc id inj h
    generalize w.headUtilityWrap id inj h = r1 at h1 ⊢
    generalize σ.headVal h = r1' at h1 ⊢
    obtain ⟨w1, hu⟩ := r1; obtain ⟨hu', σ1⟩ := r1'
    obtain ⟨e1, hc1⟩ := h1
    simp only at e1 hc1 ⊢
    subst e1
    have h2 := Subs.reportRankAll_corr s w1 σ1 hc1
    generalize s.reportRankAll w1 = r2 at h2 ⊢
    generalize s.rankSpecAll σ1 = r2' at h2 ⊢
    obtain ⟨w2, ranks⟩ := r2; obtain ⟨ranks', σ2⟩ := r2'
    obtain ⟨e2, hc2⟩ := h2
    simp only at e2 hc2 ⊢
    subst e2
    have h3 := Subs.reportRandomizeTop_corr s ranks (topRank ranks) w2 σ2 hc2
    generalize s.reportRandomizeTop ranks (topRank ranks) w2 = r3 at h3 ⊢
    generalize s.randomizeSpecTop ranks (topRank ranks) σ2 = r3' at h3 ⊢
    obtain ⟨s3, w3, us⟩ := r3; obtain ⟨us', σ3⟩ := r3'
    obtain ⟨e3, hc3⟩ := h3
    simp only at e3 hc3 ⊢
    subst e3
    have h4 := resolveRandom_corr hc3 id us (treeSum us) ranks (topRank ranks)
    generalize w3.resolveRandom id us (treeSum us) ranks (topRank ranks) = r4 at h4 ⊢
    generalize σ3.resolve us (treeSum us) ranks (topRank ranks) = r4' at h4 ⊢
    obtain ⟨w4, chosen⟩ := r4; obtain ⟨chosen', σ4⟩ := r4'
    obtain ⟨e4, hc4⟩ := h4
    simp only at e4 hc4 ⊢
    subst e4
    exact ⟨rfl, hc4⟩
  | .ortho id rid inj h s, w, σ, hc => by
    simp only [Node.reportRandomize, Node.randomizeSpec]
    have h1 := headUtilityWrap_corr hc id inj h
    generalize w.headUtilityWrap id inj h = r1 at h1 ⊢
    generalize σ.headVal h = r1' at h1 ⊢
    obtain ⟨w1, hu⟩ := r1; obtain ⟨hu', σ1⟩ := r1'
    obtain ⟨e1, hc1⟩ := h1
    simp only at e1 hc1 ⊢
    subst e1
    have h2 := Subs.reportRandomizeAll_corr s w1 σ1 hc1
    generalize s.reportRandomizeAll w1 = r2 at h2 ⊢
    generalize s.randomizeSpecAll σ1 = r2' at h2 ⊢
    obtain ⟨s2, w2, us⟩ := r2; obtain ⟨us', σ2⟩ := r2'
    obtain ⟨e2, hc2⟩ := h2
    simp only at e2 hc2 ⊢
    subst e2
    exact ⟨rfl, by simpa using hc2⟩
theorem Subs.reportRandomizeAll_corr : (s : Subs) → (w : World U) → (σ : Sig U) → Corr w σ →
    (s.reportRandomizeAll w).2.2 = (s.randomizeSpecAll σ).1 ∧ Corr (s.reportRandomizeAll w).2.1 (s.randomizeSpecAll σ).2
  | .nil, w, σ, hc => by simp only [Subs.reportRandomizeAll, Subs.randomizeSpecAll]; exact ⟨trivial, hc⟩
  | .cons b n r, w, σ, hc => by
    simp only [Subs.reportRandomizeAll, Subs.randomizeSpecAll]
    have h1 := Node.reportRandomize_corr n w σ hc
    generalize n.reportRandomize w = r1 at h1 ⊢
    generalize n.randomizeSpec σ = r1' at h1 ⊢
    obtain ⟨n', w1, u⟩ := r1; obtain ⟨u', σ1⟩ := r1'
    obtain ⟨e1, hc1⟩ := h1
    simp only at e1 hc1 ⊢
    have h2 := Subs.reportRandomizeAll_corr r w1 σ1 hc1
    generalize r.reportRandomizeAll w1 = r2 at h2 ⊢
    generalize r.randomizeSpecAll σ1 = r2' at h2 ⊢
    obtain ⟨r', w2, us⟩ := r2; obtain ⟨us', σ2⟩ := r2'
    obtain ⟨e2, hc2⟩ := h2
    simp only at e2 hc2 ⊢
    exact ⟨by rw [e1, e2], hc2⟩
theorem Subs.reportRandomizeTop_corr : (s : Subs) → (rks : List Int) → (top : Int) → (w : World U) → (σ : Sig U) → Corr w σ →
    (s.reportRandomizeTop rks top w).2.2 = (s.randomizeSpecTop rks top σ).1 ∧
    Corr (s.reportRandomizeTop rks top w).2.1 (s.randomizeSpecTop rks top σ).2
  | .nil, rks, top, w, σ, hc => by simp only [Subs.reportRandomizeTop, Subs.randomizeSpecTop]; exact ⟨trivial, hc⟩
  | .cons b n r, rks, top, w, σ, hc => by
    simp only [Subs.reportRandomizeTop, Subs.randomizeSpecTop]
    by_cases hr : rks.headD 0 = top
    · simp only [hr, if_true]
      have h1 := Node.reportRandomize_corr n w σ hc
      generalize n.reportRandomize w = r1 at h1 ⊢
      generalize n.randomizeSpec σ = r1' at h1 ⊢
      obtain ⟨n', w1, u⟩ := r1; obtain ⟨u', σ1⟩ := r1'
      obtain ⟨e1, hc1⟩ := h1
      simp only at e1 hc1 ⊢
      have h2 := Subs.reportRandomizeTop_corr r rks.tail top w1 σ1 hc1
      generalize r.reportRandomizeTop rks.tail top w1 = r2 at h2 ⊢
      generalize r.randomizeSpecTop rks.tail top σ1 = r2' at h2 ⊢
      obtain ⟨r', w2, us⟩ := r2; obtain ⟨us', σ2⟩ := r2'
      obtain ⟨e2, hc2⟩ := h2
      simp only at e2 hc2 ⊢
      exact ⟨by rw [e1, e2], hc2⟩
    · simp only [hr, if_false]
      have h2 := Subs.reportRandomizeTop_corr r rks.tail top w σ hc
      generalize r.reportRandomizeTop rks.tail top w = r2 at h2 ⊢
      generalize r.randomizeSpecTop rks.tail top σ = r2' at h2 ⊢
      obtain ⟨r', w2, us⟩ := r2; obtain ⟨us', σ2⟩ := r2'
      obtain ⟨e2, hc2⟩ := h2
      simp only at e2 hc2 ⊢
      exact ⟨by rw [e2], hc2⟩
end

mutual
theorem Node.reportChange_corr : (n : Node) → (w : World U) → (σ : Sig U) → Corr w σ →
    (n.reportChange w).2.2 = (n.changeSpec σ).1 ∧ Corr (n.reportChange w).2.1 (n.changeSpec σ).2
  | .leaf id inj, w, σ, hc => by
    simp only [Node.reportChange, Node.changeSpec]
    exact headUtility_corr hc id inj true
  | .compo id rid inj h .composite a r q m s, w, σ, hc => by
    simp only [Node.reportChange, Node.changeSpec]
    have h1 := headUtility_corr hc id inj h
    generalize w.headUtility id inj h = r1 at h1 ⊢
    generalize σ.headVal h = r1' at h1 ⊢
    obtain ⟨w1, hu⟩ := r1; obtain ⟨hu', σ1⟩ := r1'
    obtain ⟨e1, hc1⟩ := h1
    simp only at e1 hc1 ⊢
    subst e1
    have h2 := Subs.reportChangeAt_corr s 0 w1 σ1 hc1
    generalize s.reportChangeAt 0 w1 = r2 at h2 ⊢
    generalize s.changeSpecAt 0 σ1 = r2' at h2 ⊢
    obtain ⟨s2, w2, su⟩ := r2; obtain ⟨su', σ2⟩ := r2'
    obtain ⟨e2, hc2⟩ := h2
    simp only at e2 hc2 ⊢
    subst e2
    exact ⟨rfl, hc2⟩
  | .compo id rid inj h .resumable a r q m s, w, σ, hc => by
    simp only [Node.reportChange, Node.changeSpec]
    have h1 := headUtility_corr hc id inj h
    generalize w.headUtility id inj h = r1 at h1 ⊢
    generalize σ.headVal h = r1' at h1 ⊢
    obtain ⟨w1, hu⟩ := r1; obtain ⟨hu', σ1⟩ := r1'
    obtain ⟨e1, hc1⟩ := h1
    simp only at e1 hc1 ⊢
    subst e1
    have h2 := Subs.reportChangeAt_corr s (r.getD 0) w1 σ1 hc1
    generalize s.reportChangeAt (r.getD 0) w1 = r2 at h2 ⊢
    generalize s.changeSpecAt (r.getD 0) σ1 = r2' at h2 ⊢
    obtain ⟨s2, w2, su⟩ := r2; obtain ⟨su', σ2⟩ := r2'
    obtain ⟨e2, hc2⟩ := h2
    simp only at e2 hc2 ⊢
    subst e2
    exact ⟨rfl, hc2⟩
  | .compo id rid inj h .selectable a r q m s, w, σ, hc => by
    simp only [Node.reportChange, Node.changeSpec]
    have h1 := headUtility_corr hc id inj h
    generalize w.headUtility id inj h = r1 at h1 ⊢
    generalize σ.headVal h = r1' at h1 ⊢
    obtain ⟨w1, hu⟩ := r1; obtain ⟨hu', σ1⟩ := r1'
    obtain ⟨e1, hc1⟩ := h1
    simp only at e1 hc1 ⊢
    subst e1
    have h2 := Subs.reportChangeAt_corr s (r.getD 0) w1 σ1 hc1
    generalize s.reportChangeAt (r.getD 0) w1 = r2 at h2 ⊢
    generalize s.changeSpecAt (r.getD 0) σ1 = r2' at h2 ⊢
    obtain ⟨s2, w2, su⟩ := r2; obtain ⟨su', σ2⟩ := r2'
    obtain ⟨e2, hc2⟩ := h2
    simp only at e2 hc2 ⊢
    subst e2
    exact ⟨rfl, hc2⟩
  | .compo id rid inj h .utilitarian a r q m s, w, σ, hc => by
    simp only [Node.reportChange, Node.changeSpec]
    have h1 := headUtility_corr hc id inj h
    generalize w.headUtility id inj h = r1 at h1 ⊢
    generalize σ.headVal h = r1' at h1 ⊢
    obtain ⟨w1, hu⟩ := r1; obtain ⟨hu', σ1⟩ := r1'
    obtain ⟨e1, hc1⟩ := h1
    simp only at e1 hc1 ⊢
    subst e1
    have h2 := Subs.reportChangeAll_corr s w1 σ1 hc1
    generalize s.reportChangeAll w1 = r2 at h2 ⊢
    generalize s.changeSpecAll σ1 = r2' at h2 ⊢
    obtain ⟨s2, w2, us⟩ := r2; obtain ⟨us', σ2⟩ := r2'
    obtain ⟨e2, hc2⟩ := h2
    simp only at e2 hc2 ⊢
    subst e2
    cases argMax us with
    | none => exact ⟨rfl, by simpa using hc2⟩
    | some iu => obtain ⟨i, u⟩ := iu; exact ⟨rfl, by simpa using hc2⟩
  | .compo id rid inj h .random a r q m s, w, σ, hc => by
    simp only [Node.reportChange, Node.changeSpec]
    have h1 := headUtility_corr hc id inj h
    generalize w.headUtility id inj h = r1 at h1 ⊢
    generalize σ.headVal h = r1' at h1 ⊢
    obtain ⟨w1, hu⟩ := r1; obtain ⟨hu', σ1⟩ := r1'
    obtain ⟨e1, hc1⟩ := h1
    simp only at e1 hc1 ⊢
    subst e1
    have h2 := Subs.reportRankAll_corr s w1 σ1 hc1
    generalize s.reportRankAll w1 = r2 at h2 ⊢
    generalize s.rankSpecAll σ1 = r2' at h2 ⊢
    obtain ⟨w2, ranks⟩ := r2; obtain ⟨ranks', σ2⟩ := r2'
    obtain ⟨e2, hc2⟩ := h2
    simp only at e2 hc2 ⊢
    subst e2
    have h3 := Subs.reportChangeTop_corr s ranks (topRank ranks) w2 σ2 hc2
    generalize s.reportChangeTop ranks (topRank ranks) w2 = r3 at h3 ⊢
    generalize s.changeSpecTop ranks (topRank ranks) σ2 = r3' at h3 ⊢
    obtain ⟨s3, w3, us⟩ := r3; obtain ⟨us', σ3⟩ := r3'
    obtain ⟨e3, hc3⟩ := h3
    simp only at e3 hc3 ⊢
    subst e3
    have h4 := resolveRandom_corr hc3 id us (treeSum us) ranks (topRank ranks)
    generalize w3.resolveRandom id us (treeSum us) ranks (topRank ranks) = r4 at h4 ⊢
    generalize σ3.resolve us (treeSum us) ranks (topRank ranks) = r4' at h4 ⊢
    obtain ⟨w4, chosen⟩ := r4; obtain ⟨chosen', σ4⟩ := r4'
    obtain ⟨e4, hc4⟩ := h4
    simp only at e4 hc4 ⊢
    subst e4
    exact ⟨rfl, hc4⟩
  | .ortho id rid inj h s, w, σ, hc => by
    simp only [Node.reportChange, Node.changeSpec]
    have h1 := headUtility_corr hc id inj h
    generalize w.headUtility id inj h = r1 at h1 ⊢
    generalize σ.headVal h = r1' at h1 ⊢
    obtain ⟨w1, hu⟩ := r1; obtain ⟨hu', σ1⟩ := r1'
    obtain ⟨e1, hc1⟩ := h1
    simp only at e1 hc1 ⊢
    subst e1
    have h2 := Subs.reportChangeAll_corr s w1 σ1 hc1
    generalize s.reportChangeAll w1 = r2 at h2 ⊢
    generalize s.changeSpecAll σ1 = r2' at h2 ⊢
    obtain ⟨s2, w2, us⟩ := r2; obtain ⟨us', σ2⟩ := r2'
    obtain ⟨e2, hc2⟩ := h2
    simp only at e2 hc2 ⊢
    subst e2
    exact ⟨rfl, by simpa using hc2⟩
theorem Subs.reportChangeAt_corr : (s : Subs) → (i : Nat) → (w : World U) → (σ : Sig U) → Corr w σ →
    (s.reportChangeAt i w).2.2 = (s.changeSpecAt i σ).1 ∧ Corr (s.reportChangeAt i w).2.1 (s.changeSpecAt i σ).2
  | .nil, _, w, σ, hc => by simp only [Subs.reportChangeAt, Subs.changeSpecAt]; exact ⟨trivial, by simpa using hc⟩
  | .cons b n r, 0, w, σ, hc => by
    simp only [Subs.reportChangeAt, Subs.changeSpecAt]
    exact Node.reportChange_corr n w σ hc
  | .cons b n r, i+1, w, σ, hc => by
    simp only [Subs.reportChangeAt, Subs.changeSpecAt]
    exact Subs.reportChangeAt_corr r i w σ hc
theorem Subs.reportChangeAll_corr : (s : Subs) → (w : World U) → (σ : Sig U) → Corr w σ →
    (s.reportChangeAll w).2.2 = (s.changeSpecAll σ).1 ∧ Corr (s.reportChangeAll w).2.1 (s.changeSpecAll σ).2
  | .nil, w, σ, hc => by simp only [Subs.reportChangeAll, Subs.changeSpecAll]; exact ⟨trivial, hc⟩
  | .cons b n r, w, σ, hc => by
    simp only [Subs.reportChangeAll, Subs.changeSpecAll]
    have h1 := Node.reportChange_corr n w σ hc
    generalize n.reportChange w = r1 at h1 ⊢
    generalize n.changeSpec σ = r1' at h1 ⊢
    obtain ⟨n', w1, u⟩ := r1; obtain ⟨u', σ1⟩ := r1'
    obtain ⟨e1, hc1⟩ := h1
    simp only at e1 hc1 ⊢
    have h2 := Subs.reportChangeAll_corr r w1 σ1 hc1
    generalize r.reportChangeAll w1 = r2 at h2 ⊢
    generalize r.changeSpecAll σ1 = r2' at h2 ⊢
    obtain ⟨r', w2, us⟩ := r2; obtain ⟨us', σ2⟩ := r2'
    obtain ⟨e2, hc2⟩ := h2
    simp only at e2 hc2 ⊢
    exact ⟨by rw [e1, e2], hc2⟩
theorem Subs.reportChangeTop_corr : (s : Subs) → (rks : List Int) → (top : Int) → (w : World U) → (σ : Sig U) → Corr w σ →
    (s.reportChangeTop rks top w).2.2 = (s.changeSpecTop rks top σ).1 ∧
    Corr (s.reportChangeTop rks top w).2.1 (s.changeSpecTop rks top σ).2
  | .nil, rks, top, w, σ, hc => by simp only [Subs.reportChangeTop, Subs.changeSpecTop]; exact ⟨trivial, hc⟩
  | .cons b n r, rks, top, w, σ, hc => by
    simp only [Subs.reportChangeTop, Subs.changeSpecTop]
    by_cases hr : rks.headD 0 = top
    · simp only [hr, if_true]
      have h1 := Node.reportChange_corr n w σ hc
      generalize n.reportChange w = r1 at h1 ⊢
      generalize n.changeSpec σ = r1' at h1 ⊢
      obtain ⟨n', w1, u⟩ := r1; obtain ⟨u', σ1⟩ := r1'
      obtain ⟨e1, hc1⟩ := h1
      simp only at e1 hc1 ⊢
      have h2 := Subs.reportChangeTop_corr r rks.tail top w1 σ1 hc1
      generalize r.reportChangeTop rks.tail top w1 = r2 at h2 ⊢
      generalize r.changeSpecTop rks.tail top σ1 = r2' at h2 ⊢
      obtain ⟨r', w2, us⟩ := r2; obtain ⟨us', σ2⟩ := r2'
      obtain ⟨e2, hc2⟩ := h2
      simp only at e2 hc2 ⊢
      exact ⟨by rw [e1, e2], hc2⟩
    · simp only [hr, if_false]
      have h2 := Subs.reportChangeTop_corr r rks.tail top w σ hc
      generalize r.reportChangeTop rks.tail top w = r2 at h2 ⊢
      generalize r.changeSpecTop rks.tail top σ = r2' at h2 ⊢
      obtain ⟨r', w2, us⟩ := r2; obtain ⟨us', σ2⟩ := r2'
      obtain ⟨e2, hc2⟩ := h2
      simp only at e2 hc2 ⊢
      exact ⟨by rw [e2], hc2⟩
end

/-! ### `request`: streams consumed and prong chosen -/

mutual
/-- Streams left by `deepRequest…` (the marks it leaves are described by `Node.requestChoice`). -/
def Node.requestSpec : Node → Kind → Sig U → Sig U
  | .leaf .., _, σ => σ
  | .ortho _ _ _ _ s, k, σ => s.requestSpecAll k σ
  | .compo _ _ _ h st _ r _ _ s, k, σ =>
    match effectiveKind st k with
    | .restart => s.requestSpecAt 0 k σ
    | .resume => s.requestSpecAt (r.getD 0) k σ
    | .select =>
      let (sel, σ) := σ.headSel h
      match sel with
      | some i => if i < s.len then s.requestSpecAt i k σ else σ
      | none => σ
    | .utilize => (if k = .change then s.changeSpecAll σ else s.utilizeSpecAll σ).2
    | .randomize =>
      let (ranks, σ) := s.rankSpecAll σ
      let top := topRank ranks
      let (us, σ) := if k = .change then s.changeSpecTop ranks top σ else s.randomizeSpecTop ranks top σ
      (σ.resolve us (treeSum us) ranks top).2
    | .change | .schedule => σ
def Subs.requestSpecAt : Subs → Nat → Kind → Sig U → Sig U
  | .nil, _, _, σ => σ
  | .cons _ n _, 0, k, σ => n.requestSpec k σ
  | .cons _ _ r, i+1, k, σ => r.requestSpecAt i k σ
def Subs.requestSpecAll : Subs → Kind → Sig U → Sig U
  | .nil, _, σ => σ
  | .cons _ n r, k, σ => r.requestSpecAll k (n.requestSpec k σ)
end

/-- The prong a composite region's `deepRequest…` writes into `compoRequested` (`q` = previous value,
kept when the resolution fails). -/
def requestChoice (h : Bool) (st : Strategy) (r q : Option Nat) (s : Subs) (k : Kind) (σ : Sig U) : Option Nat :=
  match effectiveKind st k with
  | .restart => some 0
  | .resume => some (r.getD 0)
  | .select =>
    match (σ.headSel h).1 with
    | some i => if i < s.len then some i else q
    | none => q
  | .utilize =>
    match argMax (if k = .change then s.changeSpecAll σ else s.utilizeSpecAll σ).1 with
    | some (i, _) => some i
    | none => q
  | .randomize =>
    let (ranks, σ) := s.rankSpecAll σ
    let top := topRank ranks
    let (us, σ) := if k = .change then s.changeSpecTop ranks top σ else s.randomizeSpecTop ranks top σ
    (σ.resolve us (treeSum us) ranks top).1
  | .change | .schedule => q

def Node.requested : Node → Option Nat
  | .compo _ _ _ _ _ _ _ q _ _ => q
  | _ => none

mutual
theorem Node.request_corr : (n : Node) → (rq : Req) → (w : World U) → (σ : Sig U) → Corr w σ →
    Corr (n.request rq w).2 (n.requestSpec rq.kind σ)
  | .leaf id inj, rq, w, σ, hc => by
    simp only [Node.request, Node.requestSpec]; simpa using hc
  | .ortho id rid inj h s, rq, w, σ, hc => by
    simp only [Node.request, Node.requestSpec]
    exact Subs.requestAll_corr s rq _ σ (by simpa using hc)
  | .compo id rid inj h st a r q m s, rq, w, σ, hc => by
    have hc0 : Corr (w.pin id rq.index) σ := by simpa using hc
    simp only [Node.request, Node.requestSpec]
    generalize w.pin id rq.index = w0 at hc0 ⊢
    cases hk : effectiveKind st rq.kind with
    | restart => exact Subs.requestAt_corr s 0 rq w0 σ hc0
    | resume => exact Subs.requestAt_corr s (r.getD 0) rq w0 σ hc0
    | select =>
      simp only
      have h1 := headSelect_corr hc0 id inj h
      generalize w0.headSelect id inj h = r1 at h1 ⊢
      generalize σ.headSel h = r1' at h1 ⊢
      obtain ⟨w1, sel⟩ := r1; obtain ⟨sel', σ1⟩ := r1'
      obtain ⟨e1, hc1⟩ := h1
      simp only at e1 hc1 ⊢
      subst e1
      cases sel with
      | none => simpa using hc1
      | some i =>
        simp only
        by_cases hi : i < s.len
        · simp only [hi, if_true]
          exact Subs.requestAt_corr s i rq _ σ1 (by simpa using hc1)
        · simp only [hi, if_false]; simpa using hc1
    | utilize =>
      simp only
      by_cases hch : rq.kind = .change
      · simp only [hch, if_true]
        have h2 := Subs.reportChangeAll_corr s w0 σ hc0
        generalize s.reportChangeAll w0 = r2 at h2 ⊢
        obtain ⟨s', w2, us⟩ := r2
        obtain ⟨e2, hc2⟩ := h2
        simp only at e2 hc2 ⊢
        cases argMax us with
        | none => simpa using hc2
        | some iu => obtain ⟨i, u⟩ := iu; simpa using hc2
      · simp only [hch, if_false]
        have h2 := Subs.reportUtilizeAll_corr s w0 σ hc0
        generalize s.reportUtilizeAll w0 = r2 at h2 ⊢
        obtain ⟨s', w2, us⟩ := r2
        obtain ⟨e2, hc2⟩ := h2
        simp only at e2 hc2 ⊢
        cases argMax us with
        | none => simpa using hc2
        | some iu => obtain ⟨i, u⟩ := iu; simpa using hc2
    | randomize =>
      simp only
      have h2 := Subs.reportRankAll_corr s w0 σ hc0
      generalize s.reportRankAll w0 = r2 at h2 ⊢
      generalize s.rankSpecAll σ = r2' at h2 ⊢
      obtain ⟨w2, ranks⟩ := r2; obtain ⟨ranks', σ2⟩ := r2'
      obtain ⟨e2, hc2⟩ := h2
      simp only at e2 hc2 ⊢
      subst e2
      by_cases hch : rq.kind = .change
      · simp only [hch, if_true]
        have h3 := Subs.reportChangeTop_corr s ranks (topRank ranks) w2 σ2 hc2
        generalize s.reportChangeTop ranks (topRank ranks) w2 = r3 at h3 ⊢
        generalize s.changeSpecTop ranks (topRank ranks) σ2 = r3' at h3 ⊢
        obtain ⟨s3, w3, us⟩ := r3; obtain ⟨us', σ3⟩ := r3'
        obtain ⟨e3, hc3⟩ := h3
        simp only at e3 hc3 ⊢
        subst e3
        exact (resolveRandom_corr hc3 id us (treeSum us) ranks (topRank ranks)).2
      · simp only [hch, if_false]
        have h3 := Subs.reportRandomizeTop_corr s ranks (topRank ranks) w2 σ2 hc2
        generalize s.reportRandomizeTop ranks (topRank ranks) w2 = r3 at h3 ⊢
        generalize s.randomizeSpecTop ranks (topRank ranks) σ2 = r3' at h3 ⊢
        obtain ⟨s3, w3, us⟩ := r3; obtain ⟨us', σ3⟩ := r3'
        obtain ⟨e3, hc3⟩ := h3
        simp only at e3 hc3 ⊢
        subst e3
        exact (resolveRandom_corr hc3 id us (treeSum us) ranks (topRank ranks)).2
    | change => simpa using hc0
    | schedule => simpa using hc0
theorem Subs.requestAt_corr : (s : Subs) → (i : Nat) → (rq : Req) → (w : World U) → (σ : Sig U) → Corr w σ →
    Corr (s.requestAt i rq w).2 (s.requestSpecAt i rq.kind σ)
  | .nil, _, rq, w, σ, hc => by simp only [Subs.requestAt, Subs.requestSpecAt]; simpa using hc
  | .cons b n r, 0, rq, w, σ, hc => by
    simp only [Subs.requestAt, Subs.requestSpecAt]; exact Node.request_corr n rq w σ hc
  | .cons b n r, i+1, rq, w, σ, hc => by
    simp only [Subs.requestAt, Subs.requestSpecAt]; exact Subs.requestAt_corr r i rq w σ hc
theorem Subs.requestAll_corr : (s : Subs) → (rq : Req) → (w : World U) → (σ : Sig U) → Corr w σ →
    Corr (s.requestAll rq w).2 (s.requestSpecAll rq.kind σ)
  | .nil, rq, w, σ, hc => by simp only [Subs.requestAll, Subs.requestSpecAll]; exact hc
  | .cons b n r, rq, w, σ, hc => by
    simp only [Subs.requestAll, Subs.requestSpecAll]
    exact Subs.requestAll_corr r rq _ _ (Node.request_corr n rq w σ hc)
end

/-- The prong `deepRequest…` leaves in `compoRequested` of the region it is called on. -/
theorem Node.request_requested (id rid inj : Nat) (h : Bool) (st : Strategy) (a r q : Option Nat) (m : Bool)
    (s : Subs) (rq : Req) (w : World U) (σ : Sig U) (hc : Corr w σ) :
    ((Node.compo id rid inj h st a r q m s).request rq w).1.requested = requestChoice h st r q s rq.kind σ := by
  have hc0 : Corr (w.pin id rq.index) σ := by simpa using hc
  simp only [Node.request, requestChoice]
  generalize w.pin id rq.index = w0 at hc0 ⊢
  cases hk : effectiveKind st rq.kind with
  | restart => rfl
  | resume => rfl
  | select =>
    simp only
    have h1 := headSelect_corr hc0 id inj h
    generalize w0.headSelect id inj h = r1 at h1 ⊢
    generalize σ.headSel h = r1' at h1 ⊢
    obtain ⟨w1, sel⟩ := r1; obtain ⟨sel', σ1⟩ := r1'
    obtain ⟨e1, hc1⟩ := h1
    simp only at e1 hc1 ⊢
    subst e1
    cases sel with
    | none => rfl
    | some i =>
      simp only
      by_cases hi : i < s.len
      · simp only [hi, if_true]; rfl
      · simp only [hi, if_false]; rfl
  | utilize =>
    simp only
    by_cases hch : rq.kind = .change
    · simp only [hch, if_true]
      have h2 := Subs.reportChangeAll_corr s w0 σ hc0
      generalize s.reportChangeAll w0 = r2 at h2 ⊢
      obtain ⟨s', w2, us⟩ := r2
      obtain ⟨e2, hc2⟩ := h2
      simp only at e2 hc2 ⊢
      rw [← e2]
      cases argMax us with
      | none => rfl
      | some iu => rfl
    · simp only [hch, if_false]
      have h2 := Subs.reportUtilizeAll_corr s w0 σ hc0
      generalize s.reportUtilizeAll w0 = r2 at h2 ⊢
      obtain ⟨s', w2, us⟩ := r2
      obtain ⟨e2, hc2⟩ := h2
      simp only at e2 hc2 ⊢
      rw [← e2]
      cases argMax us with
      | none => rfl
      | some iu => rfl
  | randomize =>
    simp only
    have h2 := Subs.reportRankAll_corr s w0 σ hc0
    generalize s.reportRankAll w0 = r2 at h2 ⊢
    generalize s.rankSpecAll σ = r2' at h2 ⊢
    obtain ⟨w2, ranks⟩ := r2; obtain ⟨ranks', σ2⟩ := r2'
    obtain ⟨e2, hc2⟩ := h2
    simp only at e2 hc2 ⊢
    subst e2
    by_cases hch : rq.kind = .change
    · simp only [hch, if_true]
      have h3 := Subs.reportChangeTop_corr s ranks (topRank ranks) w2 σ2 hc2
      generalize s.reportChangeTop ranks (topRank ranks) w2 = r3 at h3 ⊢
      generalize s.changeSpecTop ranks (topRank ranks) σ2 = r3' at h3 ⊢
      obtain ⟨s3, w3, us⟩ := r3; obtain ⟨us', σ3⟩ := r3'
      obtain ⟨e3, hc3⟩ := h3
      simp only at e3 hc3 ⊢
      subst e3
      exact (resolveRandom_corr hc3 id us (treeSum us) ranks (topRank ranks)).1
    · simp only [hch, if_false]
      have h3 := Subs.reportRandomizeTop_corr s ranks (topRank ranks) w2 σ2 hc2
      generalize s.reportRandomizeTop ranks (topRank ranks) w2 = r3 at h3 ⊢
      generalize s.randomizeSpecTop ranks (topRank ranks) σ2 = r3' at h3 ⊢
      obtain ⟨s3, w3, us⟩ := r3; obtain ⟨us', σ3⟩ := r3'
      obtain ⟨e3, hc3⟩ := h3
      simp only at e3 hc3 ⊢
      subst e3
      exact (resolveRandom_corr hc3 id us (treeSum us) ranks (topRank ranks)).1
  | change => rfl
  | schedule => rfl

/-- `deepReportUtilize` of a composite region marks the leftmost maximum of its sub-states' utilities. -/
theorem Node.reportUtilize_requested (id rid inj : Nat) (h : Bool) (st : Strategy) (a r q : Option Nat) (m : Bool)
    (s : Subs) (w : World U) (σ : Sig U) (hc : Corr w σ) :
    ((Node.compo id rid inj h st a r q m s).reportUtilize w).1.requested =
      (argMax (s.utilizeSpecAll (σ.headVal h).2).1).map (·.1) := by
  simp only [Node.reportUtilize]
  have h1 := headUtility_corr hc id inj h
  generalize w.headUtility id inj h = r1 at h1 ⊢
  generalize σ.headVal h = r1' at h1 ⊢
  obtain ⟨w1, hu⟩ := r1; obtain ⟨hu', σ1⟩ := r1'
  obtain ⟨e1, hc1⟩ := h1
  simp only at e1 hc1 ⊢
  have h2 := Subs.reportUtilizeAll_corr s w1 σ1 hc1
  generalize s.reportUtilizeAll w1 = r2 at h2 ⊢
  obtain ⟨s', w2, us⟩ := r2
  obtain ⟨e2, hc2⟩ := h2
  simp only at e2 hc2 ⊢
  rw [← e2]
  cases argMax us with
  | none => rfl
  | some iu => rfl

end Hfsm
