/-
State numbering (`Node.IdsFrom`: ids are consecutive in DFS pre-order, as `Shape.toNode` assigns
them) and what it gives: ids of a sub-tree lie in `[k, k + size)`, `pathTo` finds exactly them, and
every state of the active enumeration answers `isActive`.
-/
import Hfsm.Proofs.DispatchMach
import Hfsm.Model.FlatRegistry

namespace Hfsm

-- `Node.IdsFrom` / `Subs.IdsFrom` (ids are consecutive in DFS pre-order starting at `k`, head first) are
-- defined in Model/FlatRegistry.lean.

mutual
theorem Shape.toNode_size_eq : (s : Shape) → (id rid : Nat) → (s.toNode id rid).size = s.stateCount
  | .leaf _, _, _ => rfl
  | .compo _ _ _ ss, id, rid => by simp [Shape.toNode, Node.size, Shape.stateCount, Shapes.toSubs_size_eq ss]
  | .ortho _ _ ss, id, rid => by simp [Shape.toNode, Node.size, Shape.stateCount, Shapes.toSubs_size_eq ss]
theorem Shapes.toSubs_size_eq : (ss : Shapes) → (id rid : Nat) → (ss.toSubs id rid).size = ss.stateCount
  | .nil, _, _ => rfl
  | .cons s r, id, rid => by
    simp [Shapes.toSubs, Subs.size, Shapes.stateCount, Shape.toNode_size_eq s, Shapes.toSubs_size_eq r]
end

mutual
/-- the trees the instance is created with are numbered -/
theorem Shape.toNode_idsFrom : (s : Shape) → (id rid : Nat) → (s.toNode id rid).IdsFrom id
  | .leaf _, _, _ => rfl
  | .compo _ _ _ ss, id, rid => ⟨rfl, Shapes.toSubs_idsFrom ss (id+1) (rid+1)⟩
  | .ortho _ _ ss, id, rid => ⟨rfl, Shapes.toSubs_idsFrom ss (id+1) (rid+1)⟩
theorem Shapes.toSubs_idsFrom : (ss : Shapes) → (id rid : Nat) → (ss.toSubs id rid).IdsFrom id
  | .nil, _, _ => trivial
  | .cons s r, id, rid => by
    refine ⟨Shape.toNode_idsFrom s id rid, ?_⟩
    rw [Shape.toNode_size_eq]
    exact Shapes.toSubs_idsFrom r _ _
end

theorem Node.size_pos : (n : Node) → 0 < n.size
  | .leaf .. => by simp [Node.size]
  | .compo .. => by simp [Node.size]; omega
  | .ortho .. => by simp [Node.size]; omega

theorem Node.IdsFrom.id_eq : {n : Node} → {k : Nat} → n.IdsFrom k → n.id = k
  | .leaf .., _, h => h
  | .compo .., _, h => h.1
  | .ortho .., _, h => h.1

/-! ### `pathTo` outside the id range -/

mutual
theorem Node.pathTo_none : (n : Node) → (k d : Nat) → n.IdsFrom k → (d < k ∨ k + n.size ≤ d) →
    n.pathTo d = none
  | .leaf id inj, k, d, h, hd => by
    simp only [Node.IdsFrom] at h
    simp only [Node.size] at hd
    simp only [Node.pathTo]
    rw [if_neg (by omega)]
  | .compo id rid inj hh st a r q m s, k, d, h, hd => by
    simp only [Node.IdsFrom] at h
    simp only [Node.size] at hd
    simp only [Node.pathTo]
    rw [if_neg (by omega)]
    exact Subs.pathIn_none s (k+1) d 0 h.2 (by omega)
  | .ortho id rid inj hh s, k, d, h, hd => by
    simp only [Node.IdsFrom] at h
    simp only [Node.size] at hd
    simp only [Node.pathTo]
    rw [if_neg (by omega)]
    exact Subs.pathIn_none s (k+1) d 0 h.2 (by omega)
theorem Subs.pathIn_none : (s : Subs) → (k d i : Nat) → s.IdsFrom k → (d < k ∨ k + s.size ≤ d) →
    s.pathIn d i = none
  | .nil, _, _, _, _, _ => rfl
  | .cons _ n r, k, d, i, h, hd => by
    simp only [Subs.IdsFrom] at h
    simp only [Subs.size] at hd
    simp only [Subs.pathIn]
    rw [Node.pathTo_none n k d h.1 (by omega)]
    exact Subs.pathIn_none r (k + n.size) d (i+1) h.2 (by omega)
end

/-! ### ids of the active enumeration -/

mutual
theorem Node.activePre_range : (n : Node) → (k : Nat) → n.IdsFrom k → ∀ x ∈ n.activePre,
    k ≤ x.1 ∧ x.1 < k + n.size
  | .leaf id inj, k, h, x, hx => by
    simp only [Node.IdsFrom] at h
    simp only [Node.activePre, List.mem_singleton] at hx
    subst hx; subst h; simp [Node.size]
  | .compo id rid inj hh st a r q m s, k, h, x, hx => by
    simp only [Node.IdsFrom] at h
    cases a with
    | none => simp [Node.activePre] at hx
    | some i =>
      simp only [Node.activePre, List.mem_cons] at hx
      simp only [Node.size]
      rcases hx with hx | hx
      · subst hx; obtain ⟨h1, _⟩ := h; subst h1; simp; omega
      · have := Subs.activePreAt_range s i (k+1) h.2 x hx
        omega
  | .ortho id rid inj hh s, k, h, x, hx => by
    simp only [Node.IdsFrom] at h
    simp only [Node.activePre, List.mem_cons] at hx
    simp only [Node.size]
    rcases hx with hx | hx
    · subst hx; obtain ⟨h1, _⟩ := h; subst h1; simp; omega
    · have := Subs.activePreAll_range s (k+1) h.2 x hx
      omega
theorem Subs.activePreAt_range : (s : Subs) → (i k : Nat) → s.IdsFrom k → ∀ x ∈ s.activePreAt i,
    k ≤ x.1 ∧ x.1 < k + s.size
  | .nil, _, _, _, x, hx => by simp [Subs.activePreAt] at hx
  | .cons _ n r, 0, k, h, x, hx => by
    simp only [Subs.IdsFrom] at h
    simp only [Subs.activePreAt] at hx
    have := Node.activePre_range n k h.1 x hx
    simp only [Subs.size]; omega
  | .cons _ n r, i+1, k, h, x, hx => by
    simp only [Subs.IdsFrom] at h
    simp only [Subs.activePreAt] at hx
    have := Subs.activePreAt_range r i (k + n.size) h.2 x hx
    simp only [Subs.size]; omega
theorem Subs.activePreAll_range : (s : Subs) → (k : Nat) → s.IdsFrom k → ∀ x ∈ s.activePreAll,
    k ≤ x.1 ∧ x.1 < k + s.size
  | .nil, _, _, x, hx => by simp [Subs.activePreAll] at hx
  | .cons _ n r, k, h, x, hx => by
    simp only [Subs.IdsFrom] at h
    simp only [Subs.activePreAll, List.mem_append] at hx
    simp only [Subs.size]
    rcases hx with hx | hx
    · have := Node.activePre_range n k h.1 x hx; omega
    · have := Subs.activePreAll_range r (k + n.size) h.2 x hx; omega
end

/-! ### every enumerated state answers `isActive` -/

/-- the fork test of `RegistryT::isActive` -/
abbrev activeTest : Option Nat → Option Nat → Option Nat → Nat → Bool := fun a _ _ i => a == some i

theorem Node.nearest_compo (f : Option Nat → Option Nat → Option Nat → Nat → Bool)
    (id rid inj : Nat) (h : Bool) (st : Strategy) (a r q : Option Nat) (m : Bool) (s : Subs) (c : Node)
    (i : Nat) (rest : List Nat) (acc : Bool) (hc : s.get? i = some c) :
    Node.nearest f (.compo id rid inj h st a r q m s) (i :: rest) acc = Node.nearest f c rest (f a r q i) := by
  simp [Node.nearest, Node.subs, hc]

theorem Node.nearest_ortho (f : Option Nat → Option Nat → Option Nat → Nat → Bool)
    (id rid inj : Nat) (h : Bool) (s : Subs) (c : Node)
    (i : Nat) (rest : List Nat) (acc : Bool) (hc : s.get? i = some c) :
    Node.nearest f (.ortho id rid inj h s) (i :: rest) acc = Node.nearest f c rest acc := by
  simp [Node.nearest, Node.subs, hc]

mutual
theorem Node.activePre_path : (n : Node) → (k : Nat) → n.Act → n.IdsFrom k → ∀ x ∈ n.activePre,
    ∃ p, n.pathTo x.1 = some p ∧ Node.nearest activeTest n p true = true
  | .leaf id inj, k, _, _, x, hx => by
    simp only [Node.activePre, List.mem_singleton] at hx
    subst hx
    exact ⟨[], by simp [Node.pathTo], by simp [Node.nearest]⟩
  | .compo id rid inj hh st a r q m s, k, hA, h, x, hx => by
    simp only [Node.IdsFrom] at h
    cases a with
    | none => simp [Node.activePre] at hx
    | some i =>
      simp only [Node.Act] at hA
      simp only [Node.activePre, List.mem_cons] at hx
      rcases hx with hx | hx
      · subst hx
        exact ⟨[], by simp [Node.pathTo], by simp [Node.nearest]⟩
      · obtain ⟨c, p, hc, hp, hn⟩ := Subs.activePreAt_path s i (k+1) 0 hA h.2 x hx
        have hr := Subs.activePreAt_range s i (k+1) h.2 x hx
        refine ⟨(0 + i) :: p, ?_, ?_⟩
        · simp only [Node.pathTo]
          rw [if_neg (by omega)]
          exact hp
        · rw [Nat.zero_add, Node.nearest_compo _ _ _ _ _ _ _ _ _ _ _ c _ _ _ hc]
          simpa [activeTest] using hn
  | .ortho id rid inj hh s, k, hA, h, x, hx => by
    simp only [Node.IdsFrom] at h
    simp only [Node.Act] at hA
    simp only [Node.activePre, List.mem_cons] at hx
    rcases hx with hx | hx
    · subst hx
      exact ⟨[], by simp [Node.pathTo], by simp [Node.nearest]⟩
    · obtain ⟨i, c, p, hc, hp, hn⟩ := Subs.activePreAll_path s (k+1) 0 hA h.2 x hx
      have hr := Subs.activePreAll_range s (k+1) h.2 x hx
      refine ⟨(0 + i) :: p, ?_, ?_⟩
      · simp only [Node.pathTo]
        rw [if_neg (by omega)]
        exact hp
      · rw [Nat.zero_add, Node.nearest_ortho _ _ _ _ _ _ c _ _ _ hc]
        exact hn
theorem Subs.activePreAt_path : (s : Subs) → (i k j : Nat) → s.ActAt i → s.IdsFrom k →
    ∀ x ∈ s.activePreAt i, ∃ c p, s.get? i = some c ∧ s.pathIn x.1 j = some ((j + i) :: p) ∧
      Node.nearest activeTest c p true = true
  | .nil, _, _, _, _, _, x, hx => by simp [Subs.activePreAt] at hx
  | .cons _ n r, 0, k, j, hA, h, x, hx => by
    simp only [Subs.IdsFrom] at h
    simp only [Subs.ActAt] at hA
    simp only [Subs.activePreAt] at hx
    obtain ⟨p, hp, hn⟩ := Node.activePre_path n k hA.1 h.1 x hx
    exact ⟨n, p, rfl, by simp [Subs.pathIn, hp], hn⟩
  | .cons _ n r, i+1, k, j, hA, h, x, hx => by
    simp only [Subs.IdsFrom] at h
    simp only [Subs.ActAt] at hA
    simp only [Subs.activePreAt] at hx
    obtain ⟨c, p, hc, hp, hn⟩ := Subs.activePreAt_path r i (k + n.size) (j+1) hA.2 h.2 x hx
    have hr := Subs.activePreAt_range r i (k + n.size) h.2 x hx
    refine ⟨c, p, by simpa [Subs.get?] using hc, ?_, hn⟩
    simp only [Subs.pathIn]
    rw [Node.pathTo_none n k x.1 h.1 (Or.inr (by omega))]
    simp only [hp]
    rw [show j + 1 + i = j + (i + 1) by omega]
theorem Subs.activePreAll_path : (s : Subs) → (k j : Nat) → s.ActAll → s.IdsFrom k →
    ∀ x ∈ s.activePreAll, ∃ i c p, s.get? i = some c ∧ s.pathIn x.1 j = some ((j + i) :: p) ∧
      Node.nearest activeTest c p true = true
  | .nil, _, _, _, _, x, hx => by simp [Subs.activePreAll] at hx
  | .cons _ n r, k, j, hA, h, x, hx => by
    simp only [Subs.IdsFrom] at h
    simp only [Subs.ActAll] at hA
    simp only [Subs.activePreAll, List.mem_append] at hx
    rcases hx with hx | hx
    · obtain ⟨p, hp, hn⟩ := Node.activePre_path n k hA.1 h.1 x hx
      exact ⟨0, n, p, rfl, by simp [Subs.pathIn, hp], hn⟩
    · obtain ⟨i, c, p, hc, hp, hn⟩ := Subs.activePreAll_path r (k + n.size) (j+1) hA.2 h.2 x hx
      have hr := Subs.activePreAll_range r (k + n.size) h.2 x hx
      refine ⟨i+1, c, p, by simpa [Subs.get?] using hc, ?_, hn⟩
      simp only [Subs.pathIn]
      rw [Node.pathTo_none n k x.1 h.1 (Or.inr (by omega))]
      simp only [hp]
      rw [show j + 1 + i = j + (i + 1) by omega]
end

/-- every state of the pre-order enumeration of an activated, numbered tree answers `isActive` -/
theorem Node.isActive_of_mem_activePre (root : Node) (k : Nat) (hA : root.Act) (hI : root.IdsFrom k)
    (hM : root.machineActive = true) : ∀ x ∈ root.activePre, root.isActive x.1 = true := by
  intro x hx
  obtain ⟨p, hp, hn⟩ := Node.activePre_path root k hA hI x hx
  unfold Node.isActive
  rw [hp, hM]
  exact hn

/-! ### pre-order and post-order enumerate the same states -/

mutual
theorem Node.activePost_perm : (n : Node) → n.activePost.Perm n.activePre
  | .leaf .. => List.Perm.refl _
  | .compo _ _ _ _ _ a _ _ _ s => by
    cases a with
    | none => exact List.Perm.refl _
    | some i =>
      simp only [Node.activePost, Node.activePre]
      exact (List.perm_append_comm).trans (List.Perm.cons _ (Subs.activePostAt_perm s i))
  | .ortho _ _ _ _ s => by
    simp only [Node.activePost, Node.activePre]
    exact (List.perm_append_comm).trans (List.Perm.cons _ (Subs.activePostAll_perm s))
theorem Subs.activePostAt_perm : (s : Subs) → (i : Nat) → (s.activePostAt i).Perm (s.activePreAt i)
  | .nil, _ => List.Perm.refl _
  | .cons _ n _, 0 => Node.activePost_perm n
  | .cons _ _ r, i+1 => Subs.activePostAt_perm r i
theorem Subs.activePostAll_perm : (s : Subs) → s.activePostAll.Perm s.activePreAll
  | .nil => List.Perm.refl _
  | .cons _ n r => List.Perm.append (Node.activePost_perm n) (Subs.activePostAll_perm r)
end

theorem Node.mem_activeList (hf : Bool) (n : Node) (x : St) : x ∈ n.activeList hf ↔ x ∈ n.activePre := by
  cases hf with
  | true => rw [Node.activeList_true]
  | false => rw [Node.activeList_false]; exact (Node.activePost_perm n).mem_iff

end Hfsm
