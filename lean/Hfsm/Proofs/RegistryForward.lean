/-
The forward passes (`report*`, `request*`, `fwdRequest*`, `fwdActive*`) only write request marks:
they preserve `view a r false` (activity, resumable marks and structure), whatever the callbacks and
the generator answer.
-/
import Hfsm.Proofs.RegistryView

set_option linter.unusedSimpArgs false

namespace Hfsm
variable {U : Type} [UtilArith U]

mutual
theorem Node.reportChange_view (a r : Bool) : (n : Node) → (w : World U) → (n.reportChange w).1.view a r false = n.view a r false
  | .leaf id inj, w => by simp [Node.reportChange, Node.view]
  | .compo id rid inj h st av rv q m s, w => by
      cases st <;> simp only [Node.reportChange] <;> (try split) <;>
        simp [Node.view, Subs.reportChangeAt_view a r s, Subs.reportChangeAll_view a r s, Subs.reportChangeTop_view a r s]
  | .ortho id rid inj h s, w => by
      simp [Node.reportChange, Node.view, Subs.reportChangeAll_view a r s]
theorem Subs.reportChangeAt_view (a r : Bool) : (s : Subs) → (i : Nat) → (w : World U) →
    (s.reportChangeAt i w).1.viewAll a r false = s.viewAll a r false
  | .nil, _, w => by simp [Subs.reportChangeAt]
  | .cons b n rest, 0, w => by simp [Subs.reportChangeAt, Subs.viewAll, Node.reportChange_view a r n]
  | .cons b n rest, i+1, w => by simp [Subs.reportChangeAt, Subs.viewAll, Subs.reportChangeAt_view a r rest]
theorem Subs.reportChangeAll_view (a r : Bool) : (s : Subs) → (w : World U) →
    (s.reportChangeAll w).1.viewAll a r false = s.viewAll a r false
  | .nil, w => by simp [Subs.reportChangeAll]
  | .cons b n rest, w => by
      simp [Subs.reportChangeAll, Subs.viewAll, Node.reportChange_view a r n, Subs.reportChangeAll_view a r rest]
theorem Subs.reportChangeTop_view (a r : Bool) : (s : Subs) → (rks : List Int) → (top : Int) → (w : World U) →
    (s.reportChangeTop rks top w).1.viewAll a r false = s.viewAll a r false
  | .nil, _, _, w => by simp [Subs.reportChangeTop]
  | .cons b n rest, rks, top, w => by
      simp only [Subs.reportChangeTop]
      split <;> simp [Subs.viewAll, Node.reportChange_view a r n, Subs.reportChangeTop_view a r rest]
end

mutual
theorem Node.reportUtilize_view (a r : Bool) : (n : Node) → (w : World U) → (n.reportUtilize w).1.view a r false = n.view a r false
  | .leaf id inj, w => by simp [Node.reportUtilize, Node.view]
  | .compo id rid inj h st av rv q m s, w => by
      simp only [Node.reportUtilize] <;> (try split) <;>
        simp [Node.view, Subs.reportUtilizeAll_view a r s]
  | .ortho id rid inj h s, w => by
      simp [Node.reportUtilize, Node.view, Subs.reportUtilizeAll_view a r s]
theorem Subs.reportUtilizeAll_view (a r : Bool) : (s : Subs) → (w : World U) →
    (s.reportUtilizeAll w).1.viewAll a r false = s.viewAll a r false
  | .nil, w => by simp [Subs.reportUtilizeAll]
  | .cons b n rest, w => by
      simp [Subs.reportUtilizeAll, Subs.viewAll, Node.reportUtilize_view a r n, Subs.reportUtilizeAll_view a r rest]
end

mutual
theorem Node.reportRandomize_view (a r : Bool) : (n : Node) → (w : World U) → (n.reportRandomize w).1.view a r false = n.view a r false
  | .leaf id inj, w => by simp [Node.reportRandomize, Node.view]
  | .compo id rid inj h st av rv q m s, w => by
      simp only [Node.reportRandomize] <;> (try split) <;>
        simp [Node.view, Subs.reportRandomizeAll_view a r s, Subs.reportRandomizeTop_view a r s]
  | .ortho id rid inj h s, w => by
      simp [Node.reportRandomize, Node.view, Subs.reportRandomizeAll_view a r s]
theorem Subs.reportRandomizeAll_view (a r : Bool) : (s : Subs) → (w : World U) →
    (s.reportRandomizeAll w).1.viewAll a r false = s.viewAll a r false
  | .nil, w => by simp [Subs.reportRandomizeAll]
  | .cons b n rest, w => by
      simp [Subs.reportRandomizeAll, Subs.viewAll, Node.reportRandomize_view a r n, Subs.reportRandomizeAll_view a r rest]
theorem Subs.reportRandomizeTop_view (a r : Bool) : (s : Subs) → (rks : List Int) → (top : Int) → (w : World U) →
    (s.reportRandomizeTop rks top w).1.viewAll a r false = s.viewAll a r false
  | .nil, _, _, w => by simp [Subs.reportRandomizeTop]
  | .cons b n rest, rks, top, w => by
      simp only [Subs.reportRandomizeTop]
      split <;> simp [Subs.viewAll, Node.reportRandomize_view a r n, Subs.reportRandomizeTop_view a r rest]
end

mutual
theorem Node.request_view (a r : Bool) : (n : Node) → (rq : Req) → (w : World U) →
    (n.request rq w).1.view a r false = n.view a r false
  | .leaf id inj, rq, w => by simp [Node.request, Node.view]
  | .compo id rid inj h st av rv q m s, rq, w => by
      simp only [Node.request]
      repeat' split
      all_goals simp [Node.view, Subs.requestAt_view a r s, Subs.reportChangeAll_view, Subs.reportUtilizeAll_view,
        Subs.reportChangeTop_view, Subs.reportRandomizeTop_view]
  | .ortho id rid inj h s, rq, w => by simp [Node.request, Node.view, Subs.requestAll_view a r s]
theorem Subs.requestAt_view (a r : Bool) : (s : Subs) → (i : Nat) → (rq : Req) → (w : World U) →
    (s.requestAt i rq w).1.viewAll a r false = s.viewAll a r false
  | .nil, _, _, w => by simp [Subs.requestAt]
  | .cons b n rest, 0, rq, w => by simp [Subs.requestAt, Subs.viewAll, Node.request_view a r n]
  | .cons b n rest, i+1, rq, w => by simp [Subs.requestAt, Subs.viewAll, Subs.requestAt_view a r rest]
theorem Subs.requestAll_view (a r : Bool) : (s : Subs) → (rq : Req) → (w : World U) →
    (s.requestAll rq w).1.viewAll a r false = s.viewAll a r false
  | .nil, _, w => by simp [Subs.requestAll]
  | .cons b n rest, rq, w => by
      simp [Subs.requestAll, Subs.viewAll, Node.request_view a r n, Subs.requestAll_view a r rest]
end

mutual
theorem Node.fwdRequest_view (a r : Bool) : (n : Node) → (rq : Req) → (w : World U) →
    (n.fwdRequest rq w).1.view a r false = n.view a r false
  | .leaf id inj, rq, w => by simp [Node.fwdRequest, Node.view]
  | .compo id rid inj h st av rv q m s, rq, w => by
      simp only [Node.fwdRequest]
      split
      · simp [Node.view, Subs.fwdRequestAt_view a r s]
      · rw [Node.request_view]
  | .ortho id rid inj h s, rq, w => by
      simp only [Node.fwdRequest]
      split
      · simp [Node.view, Subs.fwdRequestAll_view a r s]
      · rw [Node.request_view]
theorem Subs.fwdRequestAt_view (a r : Bool) : (s : Subs) → (i : Nat) → (rq : Req) → (w : World U) →
    (s.fwdRequestAt i rq w).1.viewAll a r false = s.viewAll a r false
  | .nil, _, _, w => by simp [Subs.fwdRequestAt]
  | .cons b n rest, 0, rq, w => by simp [Subs.fwdRequestAt, Subs.viewAll, Node.fwdRequest_view a r n]
  | .cons b n rest, i+1, rq, w => by simp [Subs.fwdRequestAt, Subs.viewAll, Subs.fwdRequestAt_view a r rest]
theorem Subs.fwdRequestAll_view (a r : Bool) : (s : Subs) → (rq : Req) → (w : World U) →
    (s.fwdRequestAll rq w).1.viewAll a r false = s.viewAll a r false
  | .nil, _, w => by simp [Subs.fwdRequestAll]
  | .cons b n rest, rq, w => by
      simp [Subs.fwdRequestAll, Subs.viewAll, Node.fwdRequest_view a r n, Subs.fwdRequestAll_view a r rest]
end

mutual
theorem Node.fwdActive_view (a r : Bool) : (n : Node) → (rq : Req) → (w : World U) →
    (n.fwdActive rq w).1.view a r false = n.view a r false
  | .leaf id inj, rq, w => by simp [Node.fwdActive, Node.view]
  | .compo id rid inj h st av rv q m s, rq, w => by
      simp only [Node.fwdActive]
      repeat' split
      all_goals simp [Node.view, Subs.fwdActiveAt_view a r s, Subs.fwdRequestAt_view]
  | .ortho id rid inj h s, rq, w => by simp [Node.fwdActive, Node.view, Subs.fwdActiveBits_view a r s]
theorem Subs.fwdActiveAt_view (a r : Bool) : (s : Subs) → (i : Nat) → (rq : Req) → (w : World U) →
    (s.fwdActiveAt i rq w).1.viewAll a r false = s.viewAll a r false
  | .nil, _, _, w => by simp [Subs.fwdActiveAt]
  | .cons b n rest, 0, rq, w => by simp [Subs.fwdActiveAt, Subs.viewAll, Node.fwdActive_view a r n]
  | .cons b n rest, i+1, rq, w => by simp [Subs.fwdActiveAt, Subs.viewAll, Subs.fwdActiveAt_view a r rest]
theorem Subs.fwdActiveBits_view (a r : Bool) : (s : Subs) → (rq : Req) → (w : World U) →
    (s.fwdActiveBits rq w).1.viewAll a r false = s.viewAll a r false
  | .nil, _, w => by simp [Subs.fwdActiveBits]
  | .cons b n rest, rq, w => by
      simp only [Subs.fwdActiveBits]
      split <;> simp [Subs.viewAll, Node.fwdActive_view a r n, Subs.fwdActiveBits_view a r rest]
end

end Hfsm
