/-
Operation sequences: a small `Op` language over the API of Model/Machine.lean, `Mach.step`, `Mach.run`,
and the invariant `Mach.Inv` that every run preserves.

`Mach.step` first installs the decisions the user callbacks of this call will take and the numbers
the generator will yield (`ApiStep.ds`, `ApiStep.rng` — universally quantified in every theorem), then
performs the call.  Calls the library documents as illegal in the current activation state (they are
`HFSM2_ASSERT(isActive())` / `HFSM2_ASSERT(!isActive())` in root_0.inl / root_1.inl) are recorded as
a contract violation (`err`), like every other violated precondition of the model.
-/
import Hfsm.Proofs.MachApi
import Hfsm.Proofs.RegistryQuery

set_option linter.unusedSimpArgs false
set_option linter.unusedVariables false
set_option linter.unusedSectionVars false

namespace Hfsm
variable {U : Type} [UtilArith U]

/-- One API call. -/
inductive Op (U : Type)
  | enter | exit | update | react | query | reset
  | request (kind : Kind) (dest : Nat) (payload : Option Nat)      -- changeTo … schedule, deferred
  | immediate (kind : Kind) (dest : Nat) (payload : Option Nat)    -- immediateChangeTo …
  | setTask (sid : Nat) (success : Bool)                           -- succeed(sid) / fail(sid)
  | planAppend (rid : Nat) (t : Task)
  | planClear (rid : Nat)
  | load (bits : List Bool)
  | replayTransitions (ts : List Transition)
  | replayEnter (ts : List Transition)

/-- One API call together with everything the environment contributes to it. -/
structure ApiStep (U : Type) where
  ds  : List (Decision U)
  rng : List U
  op  : Op U

namespace Mach

def feed (m : Mach U) (ds : List (Decision U)) (rng : List U) : Mach U :=
  { m with w := { m.w with ds := ds, rng := rng } }

def violate (m : Mach U) (msg : String) : Mach U := { m with w := m.w.fail' msg }

def step (m0 : Mach U) (s : ApiStep U) : Mach U :=
  let m := m0.feed s.ds s.rng
  let act := m.root.machineActive
  match s.op with
  | .enter => if act then m.violate "enter() on an activated instance" else m.initialEnter
  | .exit => if act then m.finalExit else m.violate "exit() on an instance that is not activated"
  | .update => if act then m.update else m.violate "update() on an instance that is not activated"
  | .react => if act then m.react else m.violate "react() on an instance that is not activated"
  | .query => if act then m.query else m.violate "query() on an instance that is not activated"
  | .reset => if act then m.reset else m.violate "reset() on an instance that is not activated"
  | .request k d p => m.request k d p
  | .immediate k d p => if act then m.immediate k d p else m.violate "immediate transition on an instance that is not activated"
  | .setTask sid b => m.setTask sid b
  | .planAppend rid t => m.planAppend rid t
  | .planClear rid => m.planClear rid
  | .load bits => m.load bits
  | .replayTransitions ts => if act then (m.replayTransitions ts).1 else m.violate "replayTransitions() on an instance that is not activated"
  | .replayEnter ts => if act then m.violate "replayEnter() on an activated instance" else (m.replayEnter ts).1

def run (m : Mach U) (steps : List (ApiStep U)) : Mach U := steps.foldl step m

/-! ### the invariant -/

/-- Between API calls: an activated instance is `Live`, one that is not activated is `Dormant`; the
tree has the structure of `base`; every recorded observation is good. -/
structure Inv (base : Node) (m : Mach U) : Prop where
  live : m.root.machineActive = true → LiveInv base m
  dorm : m.root.machineActive = false → DormInv base m

mutual
theorem _root_.Hfsm.Node.clean_of_no_compo : (n : Node) → n.anyCompo = false → n.Clean
  | .leaf .., _ => trivial
  | .compo .., h => by simp [Node.anyCompo] at h
  | .ortho _ _ _ _ s, h => by
      simp only [Node.anyCompo] at h
      simp only [Node.Clean]
      exact Subs.clean_of_no_compo s h
theorem _root_.Hfsm.Subs.clean_of_no_compo : (s : Subs) → s.anyCompoIn = false → s.CleanAll
  | .nil, _ => trivial
  | .cons _ n r, h => by
      simp only [Subs.anyCompoIn, Bool.or_eq_false_iff] at h
      exact ⟨Node.clean_of_no_compo n h.1, Subs.clean_of_no_compo r h.2⟩
end

theorem Inv.of_live {base : Node} {m : Mach U} (h : LiveInv base m) : Inv base m := by
  refine ⟨fun _ => h, fun hm => ?_⟩
  rw [Node.machineActive_of_act h.live.act] at hm
  exact ⟨h.shape, ⟨Node.clean_of_no_compo _ hm, h.live.rok⟩, h.good⟩

theorem Inv.of_dorm {base : Node} {m : Mach U} (h : DormInv base m) : Inv base m := by
  refine ⟨fun hm => ?_, fun _ => h⟩
  rw [Node.machineActive_of_clean h.dorm.clean] at hm; cases hm

theorem Inv.shape {base : Node} {m : Mach U} (h : Inv base m) : m.root.SameShape base := by
  cases hm : m.root.machineActive
  · exact (h.dorm hm).shape
  · exact (h.live hm).shape

theorem Inv.good {base : Node} {m : Mach U} (h : Inv base m) : m.w.Good base := by
  cases hm : m.root.machineActive
  · exact (h.dorm hm).good
  · exact (h.live hm).good

theorem Inv.act_or_clean {base : Node} {m : Mach U} (h : Inv base m) : m.root.Act ∨ m.root.Clean := by
  cases hm : m.root.machineActive
  · exact .inr (h.dorm hm).dorm.clean
  · exact .inl (h.live hm).live.act

/-- a change of the world that the traversals' frame conditions allow -/
theorem Inv.world {base : Node} {m : Mach U} (h : Inv base m) (w' : World U) (hg : w'.Good base) :
    Inv base ({ m with w := w' } : Mach U) :=
  ⟨fun hm => ⟨(h.live hm).shape, (h.live hm).live, hg⟩, fun hm => ⟨(h.dorm hm).shape, (h.dorm hm).dorm, hg⟩⟩

/-! ### `create` establishes it -/

mutual
theorem _root_.Hfsm.Node.toNode_idle : (s : Shape) → (id rid : Nat) →
    (s.toNode id rid).Clean ∧ (s.toNode id rid).NoMarks ∧ (s.toNode id rid).ResumableOK
  | .leaf _, _, _ => ⟨trivial, trivial, trivial⟩
  | .compo _ _ _ s, id, rid => by
      have := Subs.toSubs_idle s (id+1) (rid+1)
      simp [Shape.toNode, Node.Clean, Node.NoMarks, Node.ResumableOK, this]
  | .ortho _ _ s, id, rid => by
      have := Subs.toSubs_idle s (id+1) (rid+1)
      simp [Shape.toNode, Node.Clean, Node.NoMarks, Node.ResumableOK, this]
theorem _root_.Hfsm.Subs.toSubs_idle : (ss : Shapes) → (id rid : Nat) →
    (ss.toSubs id rid).CleanAll ∧ (ss.toSubs id rid).NoMarksAll ∧ (ss.toSubs id rid).ResumableOKAll
  | .nil, _, _ => ⟨trivial, trivial, trivial⟩
  | .cons s r, id, rid => by
      have h1 := Node.toNode_idle s id rid
      have h2 := Subs.toSubs_idle r (id + s.stateCount) (rid + s.regionCount)
      simp [Shapes.toSubs, Subs.CleanAll, Subs.NoMarksAll, Subs.ResumableOKAll, h1, h2]
end

theorem create_inv (shape : Shape) (cfg : Config) : Inv (shape.toNode 0 0) (create shape cfg : Mach U) := by
  apply Inv.of_dorm
  have h := Node.toNode_idle shape 0 0
  refine ⟨Node.SameShape.refl _, ⟨h.1, h.2.2⟩, ⟨fun o ho => ?_, fun sid m slot o p c he => ?_⟩⟩
  · have : (create shape cfg : Mach U).w.obs = none := by simp [create]
    rw [this] at ho; cases ho
  · have : (create shape cfg : Mach U).w.trace = [] := by simp [create]
    rw [this] at he; cases he

theorem create_err (shape : Shape) (cfg : Config) : (create shape cfg : Mach U).w.err = none := by
  simp [create]

/-! ### `load` -/

theorem load_errLe (m : Mach U) (st : List Bool) : World.ErrLe m.w (m.load st).w := by
  unfold load
  split
  · intro h; exact absurd h (World.fail'_errX _ _)
  · split
    · exact loadActive_errLe m _
    · split
      · exact loadEnter_errLe m _
      · intro h; exact absurd h (World.fail'_errX _ _)
  · split
    · split
      · exact finalExit_errLe m
      · exact World.ErrLe.refl _
    · intro h; exact absurd h (World.fail'_errX _ _)

theorem load_inv {base : Node} {m : Mach U} (st : List Bool) (hi : Inv base m) (he : (m.load st).w.err = none) :
    Inv base (m.load st) := by
  revert he
  unfold load
  split
  · intro h; exact absurd h (World.fail'_errX _ _)
  · split
    · next hm => intro he; exact Inv.of_live (loadActive_inv _ (hi.live hm) he)
    · next hm =>
      split
      · intro he; exact Inv.of_live (loadEnter_inv _ (hi.dorm (by simpa using hm)) he)
      · intro h; exact absurd h (World.fail'_errX _ _)
  · split
    · split
      · intro _; exact Inv.of_dorm (finalExit_inv hi.shape hi.good hi.act_or_clean).1
      · intro _; exact hi
    · intro h; exact absurd h (World.fail'_errX _ _)

/-- `load` leaves no request mark on an instance that carried none (all four activation combinations, every
buffer the model accepts) … -/
theorem load_noMarks {base : Node} {m : Mach U} (st : List Bool) (hi : Inv base m) (hn : m.root.NoMarks)
    (he : (m.load st).w.err = none) : (m.load st).root.NoMarks := by
  revert he
  unfold load
  split
  · intro h; exact absurd h (World.fail'_errX _ _)
  · split
    · next hm => intro he; exact loadActive_noMarks _ (hi.live hm).live.act he
    · split
      · intro he; exact loadEnter_noMarks _ hn he
      · intro h; exact absurd h (World.fail'_errX _ _)
  · split
    · split
      · intro _; exact (finalExit_inv hi.shape hi.good hi.act_or_clean).2
      · intro _; exact hn
    · intro h; exact absurd h (World.fail'_errX _ _)

/-- … and on an ACTIVATED instance whatever marks it carried: `R_::load` starts with `clearRequests()`, the
image of an instance that is not activated makes it `finalExit`. -/
theorem load_active_noMarks {base : Node} {m : Mach U} (st : List Bool) (hi : Inv base m)
    (hm : m.root.machineActive = true) (he : (m.load st).w.err = none) : (m.load st).root.NoMarks := by
  revert he
  unfold load
  split
  · intro h; exact absurd h (World.fail'_errX _ _)
  · rw [if_pos hm]; intro he; exact loadActive_noMarks _ (hi.live hm).live.act he
  · split
    · intro _; exact (finalExit_inv hi.shape hi.good hi.act_or_clean).2
    · intro h; exact absurd h (World.fail'_errX _ _)

/-- `replayEnter` of an empty history does nothing to the registry -/
theorem replayEnter_nil_root (m : Mach U) (ts : List Transition) (h : ts.isEmpty = true) :
    (m.replayEnter ts).1.root = m.root := by
  obtain ⟨m0, r1, ar, e, h0, _, _, _, heq⟩ := replayEnter_spec m ts
  rw [heq, if_pos h, h0]

/-! ### one step, a run -/

theorem feed_inv {base : Node} {m : Mach U} (ds : List (Decision U)) (rng : List U) (hi : Inv base m) :
    Inv base (m.feed ds rng) :=
  hi.world _ (hi.good.of_eq rfl rfl rfl)

theorem violate_err (m : Mach U) (msg : String) : (m.violate msg).w.err ≠ none := World.fail'_errX _ _

theorem step_errLe (m : Mach U) (s : ApiStep U) : World.ErrLe m.w (m.step s).w := by
  have hv : ∀ (m' : Mach U) msg, World.ErrLe m.w (m'.violate msg).w :=
    fun m' msg h => absurd h (violate_err m' msg)
  have hf : (m.feed s.ds s.rng).w.err = m.w.err := rfl
  have lift : ∀ {w' : World U}, World.ErrLe (m.feed s.ds s.rng).w w' → World.ErrLe m.w w' :=
    fun h e => hf ▸ h e
  unfold step
  dsimp only
  cases s.op with
  | enter => dsimp only; split; exact hv _ _; exact lift (initialEnter_errLe _)
  | exit => dsimp only; split; exact lift (finalExit_errLe _); exact hv _ _
  | update => dsimp only; split; exact lift (update_errLe _); exact hv _ _
  | react => dsimp only; split; exact lift (react_errLe _); exact hv _ _
  | query => dsimp only; split; exact lift (query_errLe _); exact hv _ _
  | reset => dsimp only; split; exact lift (reset_errLe _); exact hv _ _
  | request k d p => exact lift (request_ext _ k d p).err
  | immediate k d p => dsimp only; split; exact lift (immediate_errLe _ k d p); exact hv _ _
  | setTask sid b => exact lift (setTask_ext _ sid b).err
  | planAppend rid t => exact lift (planAppend_ext _ rid t).err
  | planClear rid => exact lift (planClear_ext _ rid).err
  | load bits => exact lift (load_errLe _ bits)
  | replayTransitions ts => dsimp only; split; exact lift (replayTransitions_errLe _ ts); exact hv _ _
  | replayEnter ts => dsimp only; split; exact hv _ _; exact lift (replayEnter_errLe _ ts)

theorem step_inv {base : Node} {m : Mach U} (s : ApiStep U) (hi0 : Inv base m) (he : (m.step s).w.err = none) :
    Inv base (m.step s) := by
  have hi := feed_inv s.ds s.rng hi0
  revert he
  unfold step
  dsimp only
  generalize m.feed s.ds s.rng = m1 at hi
  cases s.op with
  | enter =>
    dsimp only; split
    · intro h; exact absurd h (violate_err _ _)
    · next hm => intro he; exact Inv.of_live (initialEnter_inv (hi.dorm (by simpa using hm)) he).1
  | exit =>
    dsimp only; split
    · intro _; exact Inv.of_dorm (finalExit_inv hi.shape hi.good hi.act_or_clean).1
    · intro h; exact absurd h (violate_err _ _)
  | update =>
    dsimp only; split
    · next hm => intro he; exact Inv.of_live (update_inv (hi.live hm) he).1
    · intro h; exact absurd h (violate_err _ _)
  | react =>
    dsimp only; split
    · next hm => intro he; exact Inv.of_live (react_inv (hi.live hm) he).1
    · intro h; exact absurd h (violate_err _ _)
  | query =>
    dsimp only; split
    · next hm =>
      intro _
      exact Inv.of_live ⟨(hi.live hm).shape, (hi.live hm).live, query_good hi.shape hi.good hi.act_or_clean⟩
    · intro h; exact absurd h (violate_err _ _)
  | reset =>
    dsimp only; split
    · intro he; exact Inv.of_live (reset_inv hi.shape hi.good hi.act_or_clean trivial he).1
    · intro h; exact absurd h (violate_err _ _)
  | request k d p => intro _; exact hi.world _ (hi.good.ext (request_ext _ k d p))
  | immediate k d p =>
    dsimp only; split
    · next hm => intro he; exact Inv.of_live (immediate_inv k d p (hi.live hm) he).1
    · intro h; exact absurd h (violate_err _ _)
  | setTask sid b =>
    intro _
    refine ⟨fun hm => ?_, fun hm => ?_⟩
    · simp only [setTask_root] at hm ⊢
      exact ⟨by simpa using (hi.live hm).shape, by simpa using (hi.live hm).live, hi.good.ext (setTask_ext _ sid b)⟩
    · simp only [setTask_root] at hm ⊢
      exact ⟨by simpa using (hi.dorm hm).shape, by simpa using (hi.dorm hm).dorm, hi.good.ext (setTask_ext _ sid b)⟩
  | planAppend rid t => intro _; exact hi.world _ (hi.good.ext (planAppend_ext _ rid t))
  | planClear rid =>
    intro _
    refine ⟨fun hm => ?_, fun hm => ?_⟩
    · simp only [planClear_root] at hm ⊢
      exact ⟨by simpa using (hi.live hm).shape, by simpa using (hi.live hm).live, hi.good.ext (planClear_ext _ rid)⟩
    · simp only [planClear_root] at hm ⊢
      exact ⟨by simpa using (hi.dorm hm).shape, by simpa using (hi.dorm hm).dorm, hi.good.ext (planClear_ext _ rid)⟩
  | load bits => intro he; exact load_inv bits hi he
  | replayTransitions ts =>
    dsimp only; split
    · next hm => intro he; exact Inv.of_live (replayTransitions_inv ts (hi.live hm) he)
    · intro h; exact absurd h (violate_err _ _)
  | replayEnter ts =>
    dsimp only; split
    · intro h; exact absurd h (violate_err _ _)
    · next hm =>
      intro he
      have := replayEnter_inv ts (hi.dorm (by simpa using hm)) he
      cases hb : (m1.replayEnter ts).2
      · exact Inv.of_dorm (this.2 hb)
      · exact Inv.of_live (this.1 hb).1

theorem run_errLe : (steps : List (ApiStep U)) → (m : Mach U) → World.ErrLe m.w (m.run steps).w
  | [], m => World.ErrLe.refl _
  | s :: rest, m => World.ErrLe.trans (step_errLe m s) (run_errLe rest (m.step s))

/-- Every run preserves the invariant. -/
theorem run_inv {base : Node} : (steps : List (ApiStep U)) → (m : Mach U) → Inv base m → (m.run steps).w.err = none →
    Inv base (m.run steps)
  | [], m, hi, _ => hi
  | s :: rest, m, hi, he =>
    run_inv rest (m.step s) (step_inv s hi (run_errLe rest (m.step s) he)) he

/-! ### where no request marks remain

`NoMarks` (hence `Settled` / `Idle` of Proofs/Wf.lean) is re-established or kept by every operation except ONE:
`replayEnter` of a non-empty history that answers `false` leaves the marks of its initial resolution
(`Props.C01.stale_marks_witness`).  In particular it is kept by `load` (`load_noMarks`: the marks laid down by
`loadRequested` are all consumed by the commit / enter pass, Proofs/LoadMarks.lean) and by `replayTransitions`
(`replayTransitions_noMarks`: `true` ends with `clearRequests()`, `false` means `registry == backup`). -/

/-- the calls that leave no request mark on an instance that carried none: all but a `replayEnter` of a
non-empty history (which does so only when it answers `true`: `replayEnter_inv`) -/
def _root_.Hfsm.Op.marksSafe : Op U → Bool
  | .replayEnter ts => ts.isEmpty
  | _ => true

theorem step_noMarks {base : Node} {m : Mach U} (s : ApiStep U) (hi0 : Inv base m) (hn : m.root.NoMarks)
    (hop : s.op.marksSafe = true) (he : (m.step s).w.err = none) : (m.step s).root.NoMarks := by
  have hi := feed_inv s.ds s.rng hi0
  have hn1 : (m.feed s.ds s.rng).root.NoMarks := hn
  revert he
  unfold step
  dsimp only
  generalize m.feed s.ds s.rng = m1 at hi hn1
  cases hs : s.op with
  | enter =>
    dsimp only; split
    · intro h; exact absurd h (violate_err _ _)
    · next hm => intro he; exact (initialEnter_inv (hi.dorm (by simpa using hm)) he).2
  | exit =>
    dsimp only; split
    · intro _; exact (finalExit_inv hi.shape hi.good hi.act_or_clean).2
    · intro h; exact absurd h (violate_err _ _)
  | update =>
    dsimp only; split
    · next hm =>
      intro he
      rcases (update_inv (hi.live hm) he).2 with h | h
      · exact h
      · rw [h]; exact hn1
    · intro h; exact absurd h (violate_err _ _)
  | react =>
    dsimp only; split
    · next hm =>
      intro he
      rcases (react_inv (hi.live hm) he).2 with h | h
      · exact h
      · rw [h]; exact hn1
    · intro h; exact absurd h (violate_err _ _)
  | query =>
    dsimp only; split
    · intro _; exact hn1
    · intro h; exact absurd h (violate_err _ _)
  | reset =>
    dsimp only; split
    · intro he; exact (reset_inv hi.shape hi.good hi.act_or_clean trivial he).2
    · intro h; exact absurd h (violate_err _ _)
  | request k d p => intro _; exact hn1
  | immediate k d p =>
    dsimp only; split
    · next hm =>
      intro he
      rcases (immediate_inv k d p (hi.live hm) he).2 with h | h
      · exact h
      · rw [h]; exact hn1
    · intro h; exact absurd h (violate_err _ _)
  | setTask sid b => intro _; simpa using hn1
  | planAppend rid t => intro _; exact hn1
  | planClear rid => intro _; simpa using hn1
  | load bits => intro he; exact load_noMarks bits hi hn1 he
  | replayTransitions ts =>
    dsimp only; split
    · next hm =>
      intro he
      have := replayTransitions_noMarks ts (hi.live hm) he
      cases hb : (m1.replayTransitions ts).2
      · exact this.2 hb hn1
      · exact this.1 hb
    · intro h; exact absurd h (violate_err _ _)
  | replayEnter ts =>
    rw [hs] at hop
    dsimp only; split
    · intro h; exact absurd h (violate_err _ _)
    · intro _; rw [replayEnter_nil_root m1 ts hop]; exact hn1

end Mach
end Hfsm
