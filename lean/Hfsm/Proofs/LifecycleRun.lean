/-
C03 end to end: the lifecycle record (`LifeOK`, `NestOK` of Proofs/Lifecycle.lean, Proofs/Nesting.lean) is
an invariant of every API operation, hence of every run (`Mach.run` of Proofs/MachOps.lean, `Api.run` of
Proofs/Api.lean).

  * `World.Fed n w w'` — `w'` was reached from `w` by attempting `n` user callbacks; if no contract
    violation was recorded, the decision stream held a decision for each of them.  This discharges
    the hypothesis `… ≤ w.ds.length` of the per-traversal theorems from `err = none`.
  * `RecAt base opn w` — the callback sequence of `w` is a balanced (`LifeOK`) and well nested (`NestOK`)
    lifecycle history ending with exactly the objects of `opn` entered.
  * `Mach.entered m` — the objects of the active states of an activated instance, nothing otherwise.
  * `Mach.Rec base m := RecAt base m.entered m.w`, preserved by every operation (`*_rec`), by `Mach.step`,
    by `Mach.run`.

Used by Props/C03.lean (`lifecycle_whole_run`, `nesting_whole_run`, `closed_after_exit`, …).
-/
import Hfsm.Proofs.Nesting
import Hfsm.Proofs.MachOps
import Hfsm.Proofs.Api

set_option linter.unusedSimpArgs false
set_option linter.unusedVariables false
set_option linter.unusedSectionVars false

namespace Hfsm
variable {U : Type}

/-! ### what the views keep -/

mutual
theorem Node.view_activePre (r m : Bool) : (n : Node) → (n.view true r m).activePre = n.activePre
  | .leaf .. => rfl
  | .compo id rid inj h st a rr q mm s => by
      cases a with
      | none => rfl
      | some i =>
        simp only [Node.view, Node.activePre, if_true]
        rw [Subs.viewAll_activePreAt r m s i]
  | .ortho id rid inj h s => by
      simp only [Node.view, Node.activePre]
      rw [Subs.viewAll_activePreAll r m s]
theorem Subs.viewAll_activePreAt (r m : Bool) : (s : Subs) → (i : Nat) →
    (s.viewAll true r m).activePreAt i = s.activePreAt i
  | .nil, _ => rfl
  | .cons b n rest, 0 => by simp only [Subs.viewAll, Subs.activePreAt]; exact Node.view_activePre r m n
  | .cons b n rest, i+1 => by simp only [Subs.viewAll, Subs.activePreAt]; exact Subs.viewAll_activePreAt r m rest i
theorem Subs.viewAll_activePreAll (r m : Bool) : (s : Subs) → (s.viewAll true r m).activePreAll = s.activePreAll
  | .nil => rfl
  | .cons b n rest => by
      simp only [Subs.viewAll, Subs.activePreAll]
      rw [Node.view_activePre r m n, Subs.viewAll_activePreAll r m rest]
end

theorem Node.activePre_of_view {n n' : Node} {r m : Bool} (h : n'.view true r m = n.view true r m) :
    n'.activePre = n.activePre := by
  rw [← Node.view_activePre r m n', ← Node.view_activePre r m n, h]

mutual
theorem Node.view_ancKey (a r m : Bool) : (n : Node) → (kp : Key) → (c : Nat) →
    (n.view a r m).ancKey kp c = n.ancKey kp c
  | .leaf .., _, _ => rfl
  | .compo id rid inj h st av rv q mv s, kp, c => by
      simp only [Node.view, Node.ancKey, Subs.viewAll_size, Subs.viewAll_ancKeyIn a r m s kp c]
  | .ortho id rid inj h s, kp, c => by
      simp only [Node.view, Node.ancKey, Subs.viewAll_size, Subs.viewAll_ancKeyIn a r m s kp c]
theorem Subs.viewAll_ancKeyIn (a r m : Bool) : (s : Subs) → (kp : Key) → (c : Nat) →
    (s.viewAll a r m).ancKeyIn kp c = s.ancKeyIn kp c
  | .nil, _, _ => rfl
  | .cons b n rest, kp, c => by
      simp only [Subs.viewAll, Subs.ancKeyIn, Node.view_ancKey a r m n kp c, Subs.viewAll_ancKeyIn a r m rest kp c]
end

/-- `ancKey` is a function of the static structure -/
theorem Node.SameShape.ancKey {n n' : Node} (h : n.SameShape n') (kp : Key) (c : Nat) :
    n.ancKey kp c = n'.ancKey kp c := by
  rw [← Node.view_ancKey false false false n, ← Node.view_ancKey false false false n', h]

mutual
theorem Node.view_anyCompo (a r m : Bool) : (n : Node) → (n.view a r m).anyCompo = n.anyCompo
  | .leaf .. => rfl
  | .compo .. => rfl
  | .ortho id rid inj h s => by simp only [Node.view, Node.anyCompo, Subs.viewAll_anyCompoIn a r m s]
theorem Subs.viewAll_anyCompoIn (a r m : Bool) : (s : Subs) → (s.viewAll a r m).anyCompoIn = s.anyCompoIn
  | .nil => rfl
  | .cons b n rest => by
      simp only [Subs.viewAll, Subs.anyCompoIn, Node.view_anyCompo a r m n, Subs.viewAll_anyCompoIn a r m rest]
end

theorem Node.SameShape.anyCompo {n n' : Node} (h : n.SameShape n') : n.anyCompo = n'.anyCompo := by
  rw [← Node.view_anyCompo false false false n, ← Node.view_anyCompo false false false n', h]

theorem Node.SameShape.idsFrom {n n' : Node} (h : n.SameShape n') (k : Nat) (hI : n'.IdsFrom k) : n.IdsFrom k :=
  (Node.idsFrom_congr h k).mpr hI

theorem NestOK.congr {n n' : Node} {opn : Key → Bool} {seq : List CbItem} (h : n.SameShape n')
    (hOK : NestOK n opn seq) : NestOK n' opn seq :=
  fun kp kc ha => hOK kp kc (by rw [h.ancKey]; exact ha)

/-! ### `err = none` ⇒ the decision stream was long enough -/

namespace World

/-- `w'` was reached from `w` by attempting `n` user callbacks: if no contract violation is recorded
in `w'` then none was in `w`, the stream of `w` held `n` decisions and `w'` holds the rest. -/
def Fed (n : Nat) (w w' : World U) : Prop :=
  w'.err = none → w.err = none ∧ n ≤ w.ds.length ∧ w'.ds.length = w.ds.length - n

theorem Fed.refl (w : World U) : Fed 0 w w := fun h => ⟨h, Nat.zero_le _, rfl⟩

theorem Fed.trans {a b c : Nat} {w w1 w2 : World U} (h1 : Fed a w w1) (h2 : Fed b w1 w2) (e : c = a + b) :
    Fed c w w2 := by
  intro h
  obtain ⟨e1, l1, d1⟩ := h2 h
  obtain ⟨e0, l0, d0⟩ := h1 e1
  subst e
  exact ⟨e0, by omega, by omega⟩

/-- a step that touches neither `err` nor the decision stream -/
theorem Fed.post {a : Nat} {w w1 w2 : World U} (h : Fed a w w1) (he : w2.err = w1.err) (hd : w2.ds = w1.ds) :
    Fed a w w2 := by
  intro h2
  rw [he] at h2
  rw [hd]
  exact h h2

theorem Fed.fail' {a : Nat} {w w1 : World U} (msg : String) : Fed a w (w1.fail' msg) :=
  fun h => absurd h (fail'_errX _ _)

theorem fed_logRec_err (w : World U) (r : LogRec U) : (w.logRec r).err = w.err := by
  unfold World.logRec; split <;> rfl
theorem fed_logRec_ds (w : World U) (r : LogRec U) : (w.logRec r).ds = w.ds := by
  unfold World.logRec; split <;> rfl

theorem Fed.invoke (w : World U) (sid : Nat) (m : Method) (slot : Nat) : Fed 1 w (w.invoke sid m slot).1 := by
  intro h
  have he := (invoke_ext w sid m slot).err h
  have hk := congrArg DKey.ds (key_invoke w sid m slot)
  simp only [key_ds, DKey.invoke] at hk
  cases hds : w.ds with
  | nil =>
    exfalso
    revert h
    unfold World.invoke
    rw [hds]
    exact fail'_errX _ _
  | cons d rest =>
    rw [hds] at hk
    simp only at hk
    rw [hk]
    exact ⟨he, by simp, by simp⟩

theorem Fed.invokeSlots (sid : Nat) (m : Method) : (l : List Nat) → (w : World U) →
    Fed l.length w (w.invokeSlots sid m l)
  | [], w => Fed.refl w
  | s :: rest, w => by
    rw [World.invokeSlots]
    exact (Fed.invoke w sid m s).trans (Fed.invokeSlots sid m rest _) (by simp; omega)

theorem Fed.stateMethod (w : World U) (sid inj : Nat) (hd : Bool) (m : Method) :
    Fed (stateItems m (sid, inj, hd)).length w (w.stateMethod sid inj hd m) := by
  have h1 : Fed 0 w (if (hd || w.cfg.verbose) = true then w.logRec (.method sid m) else w) := by
    split
    · exact (Fed.refl w).post (fed_logRec_err _ _) (fed_logRec_ds _ _)
    · exact Fed.refl w
  unfold World.stateMethod stateItems
  dsimp only
  cases hd with
  | false =>
    simp only [Bool.false_eq_true, if_false, List.length_nil]
    exact h1
  | true =>
    simp only [if_true, List.length_map]
    refine Fed.post (w1 := World.invokeSlots _ sid m (slotOrder inj m)) ?_ rfl rfl
    refine (h1.post (w2 := { (if (true || w.cfg.verbose) = true then w.logRec (.method sid m) else w) with origin := some sid })
      rfl rfl).trans (Fed.invokeSlots sid m _ _) (by omega)

theorem Fed.exitState (w : World U) (sid inj : Nat) (hd : Bool) :
    Fed (stateItems .exit (sid, inj, hd)).length w (w.exitState sid inj hd) := by
  unfold World.exitState
  dsimp only
  split
  · exact (Fed.stateMethod w sid inj hd .exit).post rfl rfl
  · exact Fed.stateMethod w sid inj hd .exit

end World

theorem expand_length_cons (m : Method) (s : St) (l : List St) :
    (expand m (s :: l)).length = (stateItems m s).length + (expand m l).length := by
  rw [expand_cons, List.length_append]
theorem expand_length_append (m : Method) (l1 l2 : List St) :
    (expand m (l1 ++ l2)).length = (expand m l1).length + (expand m l2).length := by
  rw [expand_append, List.length_append]
theorem expand_length_single (m : Method) (s : St) : (expand m [s]).length = (stateItems m s).length := by
  simp [expand]
theorem scriptItems_length_cons (p : St × Method) (l : Script) :
    (scriptItems (p :: l)).length = (stateItems p.2 p.1).length + (scriptItems l).length := by
  rw [scriptItems_cons, List.length_append]
theorem scriptItems_length_append (l1 l2 : Script) :
    (scriptItems (l1 ++ l2)).length = (scriptItems l1).length + (scriptItems l2).length := by
  rw [scriptItems_append, List.length_append]
theorem scriptItems_length_map (m : Method) (l : List St) :
    (scriptItems (l.map (fun s => (s, m)))).length = (expand m l).length := by
  rw [scriptItems_map]

open World in
mutual
theorem Node.enter_fed : (n : Node) → (w : World U) → Fed (expand .enter n.reqPre).length w (n.enter w).2
  | .leaf id inj, w => by
    simp only [Node.enter, Node.reqPre, expand_length_single]
    exact Fed.stateMethod w id inj true .enter
  | .compo id rid inj h st a r q m s, w => by
    cases q with
    | none => simp only [Node.enter]; exact Fed.fail' _
    | some qi =>
      simp only [Node.enter, Node.reqPre, expand_length_cons]
      refine Fed.post (w1 := (s.enterAt qi ((w.pushRegion rid id (1 + s.size)).1.stateMethod id inj h .enter)).2) ?_ rfl rfl
      refine Fed.trans ?_ (Subs.enterAt_fed s qi _) rfl
      exact ((Fed.refl w).post (w2 := (w.pushRegion rid id (1 + s.size)).1) rfl rfl).trans
        (Fed.stateMethod _ id inj h .enter) (by omega)
  | .ortho id rid inj h s, w => by
    simp only [Node.enter, Node.reqPre, expand_length_cons]
    refine Fed.post (w1 := (s.enterAll ((w.pushRegion rid id (1 + s.size)).1.stateMethod id inj h .enter)).2) ?_ rfl rfl
    refine Fed.trans ?_ (Subs.enterAll_fed s _) rfl
    exact ((Fed.refl w).post (w2 := (w.pushRegion rid id (1 + s.size)).1) rfl rfl).trans
      (Fed.stateMethod _ id inj h .enter) (by omega)
theorem Subs.enterAt_fed : (s : Subs) → (i : Nat) → (w : World U) →
    Fed (expand .enter (s.reqPreAt i)).length w (s.enterAt i w).2
  | .nil, _, w => by simp only [Subs.enterAt]; exact Fed.fail' _
  | .cons b n r, 0, w => by simp only [Subs.enterAt, Subs.reqPreAt]; exact Node.enter_fed n w
  | .cons b n r, i+1, w => by simp only [Subs.enterAt, Subs.reqPreAt]; exact Subs.enterAt_fed r i w
theorem Subs.enterAll_fed : (s : Subs) → (w : World U) →
    Fed (expand .enter s.reqPreAll).length w (s.enterAll w).2
  | .nil, w => by simp only [Subs.enterAll, Subs.reqPreAll]; exact Fed.refl w
  | .cons b n r, w => by
    simp only [Subs.enterAll, Subs.reqPreAll, expand_length_append]
    exact (Node.enter_fed n w).trans (Subs.enterAll_fed r _) rfl
end

open World in
mutual
theorem Node.exit_fed : (n : Node) → (w : World U) → Fed (expand .exit n.activePost).length w (n.exit w).2
  | .leaf id inj, w => by
    simp only [Node.exit, Node.activePost, expand_length_single]
    exact Fed.exitState w id inj true
  | .compo id rid inj h st a r q m s, w => by
    cases a with
    | none => simp only [Node.exit]; exact Fed.fail' _
    | some ai =>
      simp only [Node.exit, Node.activePost, expand_length_append, expand_length_single]
      exact (Subs.exitAt_fed s ai w).trans (Fed.exitState _ id inj h) rfl
  | .ortho id rid inj h s, w => by
    simp only [Node.exit, Node.activePost, expand_length_append, expand_length_single]
    exact (Subs.exitAll_fed s w).trans (Fed.exitState _ id inj h) rfl
theorem Subs.exitAt_fed : (s : Subs) → (i : Nat) → (w : World U) →
    Fed (expand .exit (s.activePostAt i)).length w (s.exitAt i w).2
  | .nil, _, w => by simp only [Subs.exitAt]; exact Fed.fail' _
  | .cons b n r, 0, w => by simp only [Subs.exitAt, Subs.activePostAt]; exact Node.exit_fed n w
  | .cons b n r, i+1, w => by simp only [Subs.exitAt, Subs.activePostAt]; exact Subs.exitAt_fed r i w
theorem Subs.exitAll_fed : (s : Subs) → (w : World U) →
    Fed (expand .exit s.activePostAll).length w (s.exitAll w).2
  | .nil, w => by simp only [Subs.exitAll, Subs.activePostAll]; exact Fed.refl w
  | .cons b n r, w => by
    simp only [Subs.exitAll, Subs.activePostAll, expand_length_append]
    exact (Node.exit_fed n w).trans (Subs.exitAll_fed r _) rfl
end

/-- exit of sub-state `ai`, then enter of sub-state `qi` -/
theorem Subs.exit_enter_fed (s : Subs) (ai qi : Nat) (w : World U) :
    World.Fed (scriptItems ((s.activePostAt ai).map (fun x => (x, Method.exit)) ++
                            (s.reqPreAt qi).map (fun x => (x, Method.enter)))).length w
      (Subs.enterAt (Subs.exitAt s ai w).1 qi (Subs.exitAt s ai w).2).2 := by
  rw [scriptItems_length_append, scriptItems_length_map, scriptItems_length_map]
  have h2 := Subs.enterAt_fed (Subs.exitAt s ai w).1 qi (Subs.exitAt s ai w).2
  rw [(Subs.exitAt_req s ai w).1 qi] at h2
  exact (Subs.exitAt_fed s ai w).trans h2 rfl

open World in
mutual
theorem Node.reenter_fed : (n : Node) → (w : World U) → Fed (scriptItems n.reenterScript).length w (n.reenter w).2
  | .leaf id inj, w => by
    simp only [Node.reenter, Node.reenterScript, scriptItems_length_cons]
    exact (Fed.stateMethod w id inj true .reenter).trans (Fed.refl _) (by simp [scriptItems])
  | .compo id rid inj h st a r q m s, w => by
    cases a with
    | none => simp only [Node.reenter]; exact Fed.fail' _
    | some ai =>
      cases q with
      | none => simp only [Node.reenter]; exact Fed.fail' _
      | some qi =>
        have h0 : Fed (stateItems .reenter (id, inj, h)).length w
            ((w.pushRegion rid id (1 + s.size)).1.stateMethod id inj h .reenter) :=
          ((Fed.refl w).post (w2 := (w.pushRegion rid id (1 + s.size)).1) rfl rfl).trans
            (Fed.stateMethod _ id inj h .reenter) (by omega)
        simp only [Node.reenter, Node.reenterScript, scriptItems_length_cons]
        by_cases hq : ai = qi
        · subst hq
          simp only [if_true]
          refine Fed.post (w1 := (s.reenterAt ai ((w.pushRegion rid id (1 + s.size)).1.stateMethod id inj h .reenter)).2)
            ?_ rfl rfl
          exact h0.trans (Subs.reenterAt_fed s ai _) rfl
        · simp only [hq, if_false]
          refine Fed.post (w1 := (Subs.enterAt (Subs.exitAt s ai ((w.pushRegion rid id (1 + s.size)).1.stateMethod id inj h .reenter)).1 qi
            (Subs.exitAt s ai ((w.pushRegion rid id (1 + s.size)).1.stateMethod id inj h .reenter)).2).2) ?_ rfl rfl
          exact h0.trans (Subs.exit_enter_fed s ai qi _) rfl
  | .ortho id rid inj h s, w => by
    have h0 : Fed (stateItems .reenter (id, inj, h)).length w
        ((w.pushRegion rid id (1 + s.size)).1.stateMethod id inj h .reenter) :=
      ((Fed.refl w).post (w2 := (w.pushRegion rid id (1 + s.size)).1) rfl rfl).trans
        (Fed.stateMethod _ id inj h .reenter) (by omega)
    simp only [Node.reenter, Node.reenterScript, scriptItems_length_cons]
    refine Fed.post (w1 := (s.reenterAll ((w.pushRegion rid id (1 + s.size)).1.stateMethod id inj h .reenter)).2) ?_ rfl rfl
    exact h0.trans (Subs.reenterAll_fed s _) rfl
theorem Subs.reenterAt_fed : (s : Subs) → (i : Nat) → (w : World U) →
    Fed (scriptItems (s.reenterScriptAt i)).length w (s.reenterAt i w).2
  | .nil, _, w => by simp only [Subs.reenterAt]; exact Fed.fail' _
  | .cons b n r, 0, w => by simp only [Subs.reenterAt, Subs.reenterScriptAt]; exact Node.reenter_fed n w
  | .cons b n r, i+1, w => by simp only [Subs.reenterAt, Subs.reenterScriptAt]; exact Subs.reenterAt_fed r i w
theorem Subs.reenterAll_fed : (s : Subs) → (w : World U) →
    Fed (scriptItems s.reenterScriptAll).length w (s.reenterAll w).2
  | .nil, w => by simp only [Subs.reenterAll, Subs.reenterScriptAll]; exact Fed.refl w
  | .cons b n r, w => by
    simp only [Subs.reenterAll, Subs.reenterScriptAll, scriptItems_length_append]
    exact (Node.reenter_fed n w).trans (Subs.reenterAll_fed r _) rfl
end

open World in
mutual
theorem Node.commit_fed : (n : Node) → (w : World U) → Fed (scriptItems n.commitScript).length w (n.commit w).2
  | .leaf id inj, w => by
    simp only [Node.commit, Node.commitScript]
    exact Fed.refl w
  | .compo id rid inj h st a r q m s, w => by
    cases a with
    | none => simp only [Node.commit]; exact Fed.fail' _
    | some ai =>
      have h0 : Fed 0 w (w.pushRegion rid id (1 + s.size)).1 := (Fed.refl w).post rfl rfl
      cases q with
      | none =>
        simp only [Node.commit, Node.commitScript]
        refine Fed.post (w1 := (s.commitAt ai (w.pushRegion rid id (1 + s.size)).1).2) ?_ rfl rfl
        exact h0.trans (Subs.commitAt_fed s ai _) (by omega)
      | some qi =>
        simp only [Node.commit, Node.commitScript]
        by_cases hq : qi ≠ ai
        · simp only [hq, ne_eq, not_false_eq_true, true_or, if_true]
          refine Fed.post (w1 := (Subs.enterAt (Subs.exitAt s ai (w.pushRegion rid id (1 + s.size)).1).1 qi
            (Subs.exitAt s ai (w.pushRegion rid id (1 + s.size)).1).2).2) ?_ rfl rfl
          exact h0.trans (Subs.exit_enter_fed s ai qi _) (by omega)
        · have hq' : qi = ai := by simpa using hq
          subst hq'
          simp only [ne_eq, not_true_eq_false, if_false, false_or]
          cases m with
          | true =>
            simp only [if_true]
            refine Fed.post (w1 := (Subs.enterAt (Subs.exitAt s qi (w.pushRegion rid id (1 + s.size)).1).1 qi
              (Subs.exitAt s qi (w.pushRegion rid id (1 + s.size)).1).2).2) ?_ rfl rfl
            exact h0.trans (Subs.exit_enter_fed s qi qi _) (by omega)
          | false =>
            simp only [Bool.false_eq_true, if_false]
            refine Fed.post (w1 := (s.reenterAt qi (w.pushRegion rid id (1 + s.size)).1).2) ?_ rfl rfl
            exact h0.trans (Subs.reenterAt_fed s qi _) (by omega)
  | .ortho id rid inj h s, w => by
    simp only [Node.commit, Node.commitScript]
    exact Subs.commitAll_fed s w
theorem Subs.commitAt_fed : (s : Subs) → (i : Nat) → (w : World U) →
    Fed (scriptItems (s.commitScriptAt i)).length w (s.commitAt i w).2
  | .nil, _, w => by simp only [Subs.commitAt]; exact Fed.fail' _
  | .cons b n r, 0, w => by simp only [Subs.commitAt, Subs.commitScriptAt]; exact Node.commit_fed n w
  | .cons b n r, i+1, w => by simp only [Subs.commitAt, Subs.commitScriptAt]; exact Subs.commitAt_fed r i w
theorem Subs.commitAll_fed : (s : Subs) → (w : World U) →
    Fed (scriptItems s.commitScriptAll).length w (s.commitAll w).2
  | .nil, w => by simp only [Subs.commitAll, Subs.commitScriptAll]; exact Fed.refl w
  | .cons b n r, w => by
    simp only [Subs.commitAll, Subs.commitScriptAll, scriptItems_length_append]
    exact (Node.commit_fed n w).trans (Subs.commitAll_fed r _) rfl
end

/-! ### the lifecycle record of a world -/

/-- The callback sequence of `w` is a balanced and well nested lifecycle history (for the objects and
the ancestor relation of the tree `base`) ending with exactly the objects of `opn` entered. -/
structure RecAt (base : Node) (opn : Key → Bool) (w : World U) : Prop where
  life : LifeOK opn w.cbSeq
  nest : NestOK base opn w.cbSeq

namespace RecAt
variable {base : Node} {opn : Key → Bool} {w w' : World U}

theorem of_seq (h : RecAt base opn w) (e : w'.cbSeq = w.cbSeq) : RecAt base opn w' :=
  ⟨by rw [e]; exact h.life, by rw [e]; exact h.nest⟩

theorem of_key (h : RecAt base opn w) (e : w'.key = w.key) : RecAt base opn w' := h.of_seq (congrArg DKey.seq e)

theorem congr {opn' : Key → Bool} (h : RecAt base opn w) (e : ∀ x, opn x = opn' x) : RecAt base opn' w := by
  have : opn = opn' := funext e
  rw [← this]; exact h

/-- callbacks that constrain no lifecycle (selection, entry guards, plan callbacks) -/
theorem free (h : RecAt base opn w) (hg : World.GrowsBy CbItem.free w w') : RecAt base opn w' :=
  ⟨h.life.free_of_grows hg, h.nest.free_of_grows hg⟩

/-- callbacks of a method that needs (and keeps) its object entered, delivered to entered states only -/
theorem stay {l : List St} {m : Method} (hm : lifeStep m true = some true) (h : RecAt base (hasKey l) w)
    (hg : World.GrowsBy (fun it => it ∈ expand m l) w w') : RecAt base (hasKey l) w' := by
  have hne : m ≠ .enter ∧ m ≠ .exit := by
    constructor <;> intro e <;> rw [e] at hm <;> simp [lifeStep] at hm
  exact ⟨h.life.stay_of_grows hm hg, h.nest.stay_of_grows hm hne hg⟩

end RecAt

theorem Node.hasKey_activeList (hf : Bool) (n : Node) : hasKey (n.activeList hf) = hasKey n.activePre := by
  funext x
  cases hf
  · rw [Node.activeList_false, Node.hasKey_activePost]
  · rw [Node.activeList_true]

theorem hasKey_nil_eq : hasKey [] = fun _ => false := by funext x; simp [hasKey]

/-! #### the lifecycle traversals -/

theorem Node.enter_rec {base : Node} (n : Node) (k : Nat) (w : World U) (hs : n.SameShape base) (hI : n.IdsFrom k)
    (hR : n.Res) (h : RecAt base (fun _ => false) w) (he : (n.enter w).2.err = none) :
    RecAt base (hasKey (n.enter w).1.activePre) (n.enter w).2 := by
  have hds := (Node.enter_fed n w he).2.1
  constructor
  · have := Node.enter_life n k w (fun _ => false) hR hI h.life (fun _ _ => rfl) hds
    simpa using this
  · exact (Node.enter_nest n k w hR hI (h.nest.congr hs.symm) hds).congr hs

theorem Node.exit_rec {base : Node} (n : Node) (k : Nat) (w : World U) (hs : n.SameShape base) (hI : n.IdsFrom k)
    (hA : n.Act) (h : RecAt base (hasKey n.activePre) w) (he : (n.exit w).2.err = none) :
    RecAt base (fun _ => false) (n.exit w).2 := by
  have hds := (Node.exit_fed n w he).2.1
  constructor
  · have := Node.exit_life n k w (hasKey n.activePre) hA hI h.life (fun _ hx => hx) hds
    intro x
    simpa using this x
  · exact (Node.exit_nest n k w hA hI (h.nest.congr hs.symm) hds).congr hs

theorem Node.commit_rec {base : Node} (n : Node) (k : Nat) (w : World U) (hs : n.SameShape base) (hI : n.IdsFrom k)
    (hA : n.Act) (hC : n.COK) (h : RecAt base (hasKey n.activePre) w) (he : (n.commit w).2.err = none) :
    RecAt base (hasKey (n.commit w).1.activePre) (n.commit w).2 := by
  have hds := (Node.commit_fed n w he).2.1
  exact ⟨Node.commit_life n k w hA hC hI h.life hds,
    (Node.commit_nest n k w hA hC hI (h.nest.congr hs.symm) hds).congr hs⟩

/-! #### the periodic passes -/

theorem Node.tick_rec {base : Node} (ph : Method) (hm : lifeStep ph true = some true) (n : Node) (w : World U)
    (hA : n.Act) (h : RecAt base (hasKey n.activePre) w) : RecAt base (hasKey n.activePre) (n.tick ph w).1 := by
  have hk := Node.tick_key ph n w hA
  rw [DKey.all_eq] at hk
  have e : (n.tick ph w).1.cbSeq = _ := congrArg DKey.seq hk
  rw [← Node.hasKey_activeList (ph != .postUpdate) n] at h ⊢
  exact h.stay hm ⟨_, e, fun it hit => List.mem_of_mem_take hit⟩

theorem Node.react_rec {base : Node} (ph : Method) (hm : lifeStep ph true = some true) (hf post : Bool) (n : Node)
    (w : World U) (hA : n.Act) (hc : w.consumed = false) (h : RecAt base (hasKey n.activePre) w) :
    RecAt base (hasKey n.activePre) (n.react ph hf post w).1 := by
  have hk := Node.react_key ph hf post n w hA hc
  rw [DKey.untilConsumed_eq _ _ _ hc] at hk
  have e : (n.react ph hf post w).1.cbSeq = _ := congrArg DKey.seq hk
  rw [← Node.hasKey_activeList hf n] at h ⊢
  exact h.stay hm ⟨_, e, fun it hit => (reactSpec_prefix ph _ w.ds).subset hit⟩

theorem Node.query_rec {base : Node} (hf : Bool) (n : Node) (w : World U) (hA : n.Act) (hc : w.consumed = false)
    (h : RecAt base (hasKey n.activePre) w) : RecAt base (hasKey n.activePre) (n.query hf w) := by
  have hk := Node.query_key hf n w hA hc
  rw [DKey.untilConsumed_eq _ _ _ hc] at hk
  have e : (n.query hf w).cbSeq = _ := congrArg DKey.seq hk
  rw [← Node.hasKey_activeList hf n] at h ⊢
  exact h.stay (m := .query) rfl ⟨_, e, fun it hit => (reactSpec_prefix .query _ w.ds).subset hit⟩

/-! #### plan callbacks -/

section plans
variable [UtilArith U] {P : CbItem → Prop}
  (hP : ∀ sid slot, P (sid, .planSucceeded, slot) ∧ P (sid, .planFailed, slot))
include hP

theorem World.g_updatePlan_cb {w w1 : World U} (headId inj : Nat) (hd : Bool) (st : TaskStatus)
    (h : World.GrowsBy P w w1) : World.GrowsBy P w (w1.updatePlan headId inj hd st).1 := by
  unfold World.updatePlan
  dsimp only
  repeat' split
  · apply World.g_stateMethod _ _ _ _ (fun sl => (hP _ sl).2)
    apply World.g_logRec
    exact h.of_seq rfl
  · refine World.GrowsBy.of_seq (w1 := (World.runTasks headId (w1.planOf w1.regionId) w1 0).2.1) rfl ?_
    exact World.g_runTasks _ _ _ _ h
  · apply World.g_stateMethod _ _ _ _ (fun sl => (hP _ sl).1)
    apply World.g_logRec
    exact h.of_seq rfl
  · exact h

mutual
theorem Node.g_updatePlans_cb {w : World U} : (n : Node) → (w1 : World U) → World.GrowsBy P w w1 →
    World.GrowsBy P w (n.updatePlans w1).1
  | .leaf id inj, w1, h => by
    simp only [Node.updatePlans]
    exact h
  | .compo id rid inj hd st a r q m s, w1, h => by
    simp only [Node.updatePlans]
    repeat' split
    all_goals repeat (first
      | grow1 [h]
      | with_reducible apply World.g_updatePlan_cb hP
      | with_reducible apply Subs.g_updatePlansAt_cb)
  | .ortho id rid inj hd s, w1, h => by
    simp only [Node.updatePlans]
    repeat' split
    all_goals repeat (first
      | grow1 [h]
      | with_reducible apply World.g_updatePlan_cb hP
      | with_reducible apply Subs.g_updatePlansAll_cb)
theorem Subs.g_updatePlansAt_cb {w : World U} : (s : Subs) → (i : Nat) → (w1 : World U) → World.GrowsBy P w w1 →
    World.GrowsBy P w (s.updatePlansAt i w1).1
  | .nil, _, w1, h => by simp only [Subs.updatePlansAt]; exact World.g_fail' _ h
  | .cons b n r, 0, w1, h => by simp only [Subs.updatePlansAt]; exact Node.g_updatePlans_cb n w1 h
  | .cons b n r, i+1, w1, h => by simp only [Subs.updatePlansAt]; exact Subs.g_updatePlansAt_cb r i w1 h
theorem Subs.g_updatePlansAll_cb {w : World U} : (s : Subs) → (w1 : World U) → World.GrowsBy P w w1 →
    World.GrowsBy P w (s.updatePlansAll w1).1
  | .nil, w1, h => by simp only [Subs.updatePlansAll]; exact h
  | .cons b n r, w1, h => by
    simp only [Subs.updatePlansAll]
    exact Subs.g_updatePlansAll_cb r _ (Node.g_updatePlans_cb n w1 h)
end

end plans

theorem free_planCb (sid slot : Nat) :
    CbItem.free (sid, .planSucceeded, slot) ∧ CbItem.free (sid, .planFailed, slot) := ⟨fun _ => rfl, fun _ => rfl⟩

/-! ### the instance -/

theorem World.clearTargets_cbSeq (w : World U) : w.clearTargets.cbSeq = w.cbSeq := by
  unfold World.clearTargets; split <;> rfl

section machine
variable [UtilArith U]
namespace Mach

/-! #### request application and entry guards: selection callbacks and entry guards only -/

theorem g_applyRequest_free {w : World U} (m : Mach U) (t : Transition) (i : Nat)
    (h : World.GrowsBy CbItem.free w m.w) : World.GrowsBy CbItem.free w (m.applyRequest t i).w := by
  have h0 : World.GrowsBy CbItem.free w (m.w.snapshot m.root true false) := h.of_seq rfl
  rcases applyRequest_cases m t i with ⟨p, e⟩ | ⟨msg, e⟩ | ⟨rq, e⟩ | ⟨rq, p, e⟩ <;> rw [e]
  · exact h0
  · exact World.g_fail' _ h0
  · exact Node.g_request (fun s m sl hc => free_of_const s m sl hc) _ _ _ h0
  · exact Node.g_fwdActive (fun s m sl hc => free_of_const s m sl hc) _ _ _ h0

theorem g_applyAll_free {w : World U} : (ts : List Transition) → (m : Mach U) → (i : Nat) →
    World.GrowsBy CbItem.free w m.w → World.GrowsBy CbItem.free w (m.applyAll ts i).w
  | [], m, _, h => by simp only [Mach.applyAll]; exact h
  | t :: rest, m, i, h => by
    simp only [Mach.applyAll]
    apply g_applyAll_free rest
    split
    · exact g_applyRequest_free m t i h
    · exact h

theorem g_approvedByEntryGuards_free {w : World U} (m : Mach U) (cur pend : List Transition)
    (h : World.GrowsBy CbItem.free w m.w) : World.GrowsBy CbItem.free w (m.approvedByEntryGuards cur pend).1.w := by
  unfold Mach.approvedByEntryGuards
  dsimp only
  have h0 : World.GrowsBy CbItem.free w
      (({ m.w.freshControl with pending := pend, current := cur }).snapshot m.root true true) := h.of_seq rfl
  exact Node.g_entryGuard (fun s sl => free_entryGuard s sl) _ _ h0

theorem g_applyRequestNoPin_free {w : World U} (m : Mach U) (t : Transition)
    (h : World.GrowsBy CbItem.free w m.w) : World.GrowsBy CbItem.free w (m.applyRequestNoPin t).w := by
  have h0 : World.GrowsBy CbItem.free w (m.w.snapshot m.root true false) := h.of_seq rfl
  rcases applyRequestNoPin_cases m t with ⟨p, e⟩ | ⟨msg, e⟩ | ⟨rq, e⟩ | ⟨rq, p, e⟩ <;> rw [e]
  · exact h0
  · exact World.g_fail' _ h0
  · exact Node.g_request (fun s m sl hc => free_of_const s m sl hc) _ _ _ h0
  · exact Node.g_fwdActive (fun s m sl hc => free_of_const s m sl hc) _ _ _ h0

theorem g_applyRequests_free {w : World U} (m : Mach U) (ts : List Transition)
    (h : World.GrowsBy CbItem.free w m.w) : World.GrowsBy CbItem.free w (m.applyRequests ts).1.w :=
  applyRequests_inv (P := fun m' => World.GrowsBy CbItem.free w m'.w)
    (fun m' t i h' => g_applyRequest_free m' t i h') (fun m' t h' => g_applyRequestNoPin_free m' t h') m ts
    (h.of_seq rfl)

/-- the first-activation substitution loop: selection callbacks and entry guards only -/
theorem g_rounds_true_free {w : World U} : (fuel : Nat) → (m : Mach U) → (bak : Node) →
    (cur : List Transition) → World.GrowsBy CbItem.free w m.w →
    World.GrowsBy CbItem.free w (rounds true fuel m bak cur).1.w
  | 0, m, _, _, h => by simp only [rounds]; exact h
  | fuel+1, m, bak, cur, h => by
    simp only [rounds]
    split
    · exact h
    · have h1 := g_applyAll_free m.w.requests m 0 h
      split
      · have h2 : World.GrowsBy CbItem.free w
            ({ (m.applyAll m.w.requests 0) with w := { (m.applyAll m.w.requests 0).w with requests := [] } } : Mach U).w :=
          h1.of_seq rfl
        simp only [if_true]
        have h3 := g_approvedByEntryGuards_free _ cur m.w.requests h2
        split
        · exact g_rounds_true_free fuel _ _ _ h3
        · exact g_rounds_true_free fuel _ _ _ h3
      · exact g_rounds_true_free fuel _ _ _ (h1.of_seq rfl)

/-! #### exit guards then entry guards on an activated instance -/

theorem approvedByGuards_rec {base : Node} (m : Mach U) (cur pend : List Transition) (hA : m.root.Act)
    (h : RecAt base (hasKey m.root.activePre) m.w) :
    RecAt base (hasKey m.root.activePre) (m.approvedByGuards cur pend).1.w := by
  unfold Mach.approvedByGuards
  dsimp only
  have h0 : RecAt base (hasKey m.root.activePre)
      (({ m.w.freshControl with pending := pend, current := cur }).snapshot m.root true true) := h.of_seq rfl
  have h1 := h0.stay (m := .exitGuard) rfl (Node.fwdExitGuard_grows m.root _ hA)
  split
  · exact h1.free (Node.g_fwdEntryGuard (fun s sl => free_entryGuard s sl) _ _ (World.GrowsBy.refl _))
  · exact h1

/-! #### the substitution loop of an activated instance -/

theorem rounds_rec {base : Node} : (fuel : Nat) → (m : Mach U) → (backup : Node) → (cur : List Transition) →
    LiveInv base m → backup.COK → backup.view true false false = m.root.view true false false →
    (rounds false fuel m backup cur).1.w.err = none →
    RecAt base (hasKey m.root.activePre) m.w →
    RecAt base (hasKey m.root.activePre) (rounds false fuel m backup cur).1.w ∧
    (rounds false fuel m backup cur).1.root.view true false false = m.root.view true false false
  | 0, m, _, _, hi, _, _, _, hr => ⟨hr, rfl⟩
  | fuel+1, m, backup, cur, hi, hb, hv, he, hr => by
      revert he
      unfold rounds
      split
      · intro _; exact ⟨hr, rfl⟩
      · dsimp only
        have h1 := applyAll_live m.w.requests m 0 hi
        have e1 := applyAll_errLe m.w.requests m 0
        have f1 := g_applyAll_free m.w.requests m 0 (World.GrowsBy.refl m.w)
        generalize m.applyAll m.w.requests 0 = m1 at h1 e1 f1 ⊢
        split
        · simp only [Bool.false_eq_true, if_false]
          have h2 := approvedByGuards_errLe ({ m1 with w := { m1.w with requests := [] } }) cur m.w.requests
          have g2 := approvedByGuards_good (base := base) ({ m1 with w := { m1.w with requests := [] } }) cur m.w.requests
          have r2 := approvedByGuards_rootI ({ m1 with w := { m1.w with requests := [] } }) cur m.w.requests
          have q2 := approvedByGuards_rec (base := base) ({ m1 with w := { m1.w with requests := [] } }) cur m.w.requests
          generalize ({ m1 with w := { m1.w with requests := [] } } : Mach U).approvedByGuards cur m.w.requests = res at h2 g2 r2 q2 ⊢
          obtain ⟨m3, ok⟩ := res
          dsimp only at h2 g2 r2 q2 ⊢
          split
          · intro he
            have he3 : m3.w.err = none := rounds_errLe false fuel _ _ _ he
            obtain ⟨hi1, hv1⟩ := h1 (h2 he3)
            have hi3 : LiveInv base m3 :=
              ⟨r2 ▸ hi1.shape, r2 ▸ hi1.live, g2 (hi1.good.of_eq rfl rfl rfl) hi1.shape (.inl hi1.live.act)⟩
            have ha1 : m1.root.activePre = m.root.activePre := Node.activePre_of_view hv1
            have q3 : RecAt base (hasKey m3.root.activePre) m3.w := by
              rw [r2]
              exact q2 hi1.live.act (by rw [ha1]; exact (hr.free f1).of_seq rfl)
            have ih := rounds_rec fuel m3 m3.root (cur ++ m.w.requests) hi3 hi3.live.cok rfl he q3
            have e3 : m3.root.activePre = m.root.activePre := by rw [r2]; exact ha1
            rw [e3] at ih
            exact ⟨ih.1, ih.2.trans (by rw [r2]; exact hv1)⟩
          · intro he
            have he3 : m3.w.err = none := by
              have := rounds_errLe false fuel _ _ _ he
              simpa using this
            obtain ⟨hi1, hv1⟩ := h1 (h2 he3)
            have hl3 : m3.root.Live := r2 ▸ hi1.live
            have hv3 : backup.view true false false = m3.root.view true false false := by
              rw [r2]; exact hv.trans hv1.symm
            have hrl := restore_live hl3 hb hv3
            have hshape : (m3.root.restoreMarks backup).SameShape base :=
              (Node.SameShape.of_view (Node.restoreMarks_view true true m3.root backup)).trans (r2 ▸ hi1.shape)
            have ha1 : m1.root.activePre = m.root.activePre := Node.activePre_of_view hv1
            have q3 : RecAt base (hasKey m3.root.activePre) m3.w := by
              rw [r2]
              exact q2 hi1.live.act (by rw [ha1]; exact (hr.free f1).of_seq rfl)
            have ha3 : (m3.root.restoreMarks backup).activePre = m3.root.activePre :=
              Node.activePre_of_view (Node.restoreMarks_view true true m3.root backup)
            have hvr : (m3.root.restoreMarks backup).view true false false = m3.root.view true false false :=
              Node.view_tff_of_ttf (Node.restoreMarks_view true true m3.root backup)
            have ih := rounds_rec fuel ({ m3 with root := m3.root.restoreMarks backup, w := m3.w.clearTargets }) backup cur
              ⟨hshape, hrl, (g2 (hi1.good.of_eq rfl rfl rfl) hi1.shape (.inl hi1.live.act)).of_eq
                (World.clearTargets_obs _) (World.clearTargets_trace _) (World.clearTargets_cfg _)⟩ hb
              (hvr.symm ▸ hv3) he (by
                show RecAt base (hasKey (m3.root.restoreMarks backup).activePre) m3.w.clearTargets
                rw [ha3]; exact q3.of_seq (World.clearTargets_cbSeq _))
            have e3 : ({ m3 with root := m3.root.restoreMarks backup, w := m3.w.clearTargets } : Mach U).root.activePre =
                m.root.activePre := by
              show (m3.root.restoreMarks backup).activePre = _
              rw [ha3, r2]; exact ha1
            rw [e3] at ih
            refine ⟨ih.1, ih.2.trans ?_⟩
            show (m3.root.restoreMarks backup).view true false false = _
            rw [hvr, r2]; exact hv1
        · intro he
          have he1 : m1.w.err = none := by
            have := rounds_errLe false fuel _ _ _ he
            simpa using this
          obtain ⟨hi1, hv1⟩ := h1 he1
          have ha1 : m1.root.activePre = m.root.activePre := Node.activePre_of_view hv1
          have ih := rounds_rec fuel ({ m1 with w := { m1.w with requests := [] } }) backup cur
            ⟨hi1.shape, hi1.live, hi1.good.of_eq rfl rfl rfl⟩ hb (hv.trans hv1.symm) he
            (by show RecAt base (hasKey m1.root.activePre) _; rw [ha1]; exact (hr.free f1).of_seq rfl)
          have e3 : ({ m1 with w := { m1.w with requests := [] } } : Mach U).root.activePre = m.root.activePre := ha1
          rw [e3] at ih
          exact ⟨ih.1, ih.2.trans hv1⟩

end Mach
end machine

/-! ### the operations of an activated instance -/

section ops
variable [UtilArith U]
namespace Mach

/-- `processRequest` (the tail of `update`, `react`, the immediate transitions): guards reach entered
objects only, the commit pass keeps the record balanced and nested. -/
theorem processRequest_rec {base : Node} {k : Nat} {m : Mach U} (hI : base.IdsFrom k) (hi : LiveInv base m)
    (he : m.processRequest.w.err = none) (hr : RecAt base (hasKey m.root.activePre) m.w) :
    RecAt base (hasKey m.processRequest.root.activePre) m.processRequest.w := by
  revert he
  unfold processRequest
  dsimp only
  split
  · intro _
    exact hr.of_seq (World.clearTargets_cbSeq _)
  · have hi0 : LiveInv base ({ m with w := m.w.clearTargets.freshControl } : Mach U) :=
      ⟨hi.shape, hi.live, (hi.good.of_eq (World.clearTargets_obs _) (World.clearTargets_trace _)
        (World.clearTargets_cfg _)).of_eq rfl rfl rfl⟩
    have hr0 : RecAt base (hasKey m.root.activePre) m.w.clearTargets.freshControl :=
      hr.of_seq (World.clearTargets_cbSeq _)
    have h1 := rounds_live m.w.clearTargets.freshControl.cfg.substitutionLimit
      ({ m with w := m.w.clearTargets.freshControl } : Mach U) m.root [] hi0 hi.live.cok rfl
    have q1 := rounds_rec m.w.clearTargets.freshControl.cfg.substitutionLimit
      ({ m with w := m.w.clearTargets.freshControl } : Mach U) m.root [] hi0 hi.live.cok rfl
    generalize rounds false _ ({ m with w := m.w.clearTargets.freshControl } : Mach U) m.root [] = res at h1 q1 ⊢
    obtain ⟨m2, cur⟩ := res
    dsimp only at h1 q1 ⊢
    split
    · intro he
      have he2 : m2.w.err = none := by simpa using he
      obtain ⟨q, hv⟩ := q1 he2 hr0
      have ha : m2.root.clearMarks.activePre = m.root.activePre :=
        (Node.activePre_of_view (Node.view_tff_of_ttf (Node.clearMarks_view true true m2.root))).trans
          (Node.activePre_of_view hv)
      show RecAt base (hasKey m2.root.clearMarks.activePre) _
      rw [ha]
      exact q.of_seq rfl
    · intro he
      simp only [w_updateActivity] at he
      have he' : (m2.root.commit (({ m2.w.freshControl with current := cur } : World U).snapshot m2.root false false)).2.err
          = none := he
      have he2 : m2.w.err = none := by simpa using (Node.commit_ext m2.root _).err he'
      have hi2 := h1 he2
      obtain ⟨q, hv⟩ := q1 he2 hr0
      have q' : RecAt base (hasKey m2.root.activePre)
          (({ m2.w.freshControl with current := cur } : World U).snapshot m2.root false false) := by
        rw [Node.activePre_of_view hv]; exact q.of_seq rfl
      have qc := Node.commit_rec m2.root k _ hi2.shape (hi2.shape.idsFrom k hI) hi2.live.act hi2.live.cok q' he'
      show RecAt base (hasKey (m2.root.commit _).1.clearMarks.activePre) _
      rw [Node.activePre_of_view (Node.view_tff_of_ttf (Node.clearMarks_view true true _))]
      exact qc.of_seq rfl

/-- the plan pass after the update / react passes -/
def finishW (m : Mach U) (w : World U) : World U :=
  if w.cfg.plans then (m.root.updatePlans w).1.clearStatuses else w

theorem finishW_ext (m : Mach U) (w : World U) : World.Ext w (m.finishW w) := by
  unfold finishW
  split
  · exact World.Ext.transR (World.clearStatuses_ext _) (Node.updatePlans_ext m.root w)
  · exact World.Ext.refl _

theorem finishW_free (m : Mach U) (w : World U) : World.GrowsBy CbItem.free w (m.finishW w) := by
  unfold finishW
  split
  · exact World.g_clearStatuses (Node.g_updatePlans_cb free_planCb _ _ (World.GrowsBy.refl _))
  · exact World.GrowsBy.refl _

theorem finishStep_eq (m : Mach U) (w : World U) : m.finishStep w = ({ m with w := m.finishW w } : Mach U).processRequest := rfl

theorem finishStep_rec {base : Node} {k : Nat} {m : Mach U} (hI : base.IdsFrom k) (hi : LiveInv base m) (w : World U)
    (hext : World.Ext m.passStart w) (hr : RecAt base (hasKey m.root.activePre) w)
    (he : (m.finishStep w).w.err = none) :
    RecAt base (hasKey (m.finishStep w).root.activePre) (m.finishStep w).w := by
  rw [finishStep_eq] at he ⊢
  have hW : World.Prep m.root m.w m.passStart := World.Prep.snapshot true false rfl rfl rfl
  have g4 : (m.finishW w).Good base :=
    (hW.good hi.good hi.shape (.inl hi.live.act)).ext (hext.trans (finishW_ext m w))
  exact processRequest_rec (m := ({ m with w := m.finishW w } : Mach U)) hI ⟨hi.shape, hi.live, g4⟩ he
    (hr.free (finishW_free m w))

theorem tickPasses_ext (m : Mach U) : World.Ext m.passStart m.tickPasses := by
  unfold tickPasses
  exact ((Node.tick_ext .preUpdate m.root _).trans (Node.tick_ext .update m.root _)).trans
    (Node.tick_ext .postUpdate m.root _)

theorem reactPhases_ext (m : Mach U) : World.Ext m.passStart m.reactPhases := by
  unfold reactPhases
  dsimp only
  generalize m.passStart = W0
  have h1 := Node.react_ext .preReact m.w.cfg.topDown false m.root W0
  generalize (m.root.react .preReact m.w.cfg.topDown false W0).1 = w1 at h1 ⊢
  have h2 := Node.react_ext .react m.w.cfg.topDown false m.root { w1 with consumed := false }
  generalize (m.root.react .react m.w.cfg.topDown false { w1 with consumed := false }).1 = w2 at h2 ⊢
  have h3 := Node.react_ext .postReact (!m.w.cfg.topDown) true m.root { w2 with consumed := false }
  exact (h1.trans (World.Ext.transR h2 (World.Ext.of_eq rfl rfl rfl rfl rfl))).trans
    (World.Ext.transR h3 (World.Ext.of_eq rfl rfl rfl rfl rfl))

theorem tickPasses_rec {base : Node} (m : Mach U) (hA : m.root.Act) (hr : RecAt base (hasKey m.root.activePre) m.w) :
    RecAt base (hasKey m.root.activePre) m.tickPasses := by
  unfold tickPasses
  have h0 : RecAt base (hasKey m.root.activePre) m.passStart := hr.of_seq rfl
  exact Node.tick_rec .postUpdate rfl _ _ hA (Node.tick_rec .update rfl _ _ hA (Node.tick_rec .preUpdate rfl _ _ hA h0))

theorem reactPhases_rec {base : Node} (m : Mach U) (hA : m.root.Act) (hr : RecAt base (hasKey m.root.activePre) m.w) :
    RecAt base (hasKey m.root.activePre) m.reactPhases := by
  unfold reactPhases
  dsimp only
  have h0 : RecAt base (hasKey m.root.activePre) m.passStart := hr.of_seq rfl
  have h1 := Node.react_rec .preReact rfl m.w.cfg.topDown false m.root m.passStart hA rfl h0
  have h2 := Node.react_rec .react rfl m.w.cfg.topDown false m.root
    { (m.root.react .preReact m.w.cfg.topDown false m.passStart).1 with consumed := false } hA rfl (h1.of_seq rfl)
  exact Node.react_rec .postReact rfl (!m.w.cfg.topDown) true m.root _ hA rfl (h2.of_seq rfl)

theorem update_rec {base : Node} {k : Nat} {m : Mach U} (hI : base.IdsFrom k) (hi : LiveInv base m)
    (he : m.update.w.err = none) (hr : RecAt base (hasKey m.root.activePre) m.w) :
    RecAt base (hasKey m.update.root.activePre) m.update.w := by
  rw [update_eq_finish] at he ⊢
  exact finishStep_rec hI hi _ (tickPasses_ext m) (tickPasses_rec m hi.live.act hr) he

theorem react_rec {base : Node} {k : Nat} {m : Mach U} (hI : base.IdsFrom k) (hi : LiveInv base m)
    (he : m.react.w.err = none) (hr : RecAt base (hasKey m.root.activePre) m.w) :
    RecAt base (hasKey m.react.root.activePre) m.react.w := by
  rw [react_eq_finish] at he ⊢
  exact finishStep_rec hI hi _ (reactPhases_ext m) (reactPhases_rec m hi.live.act hr) he

theorem query_rec {base : Node} {m : Mach U} (hA : m.root.Act) (hr : RecAt base (hasKey m.root.activePre) m.w) :
    RecAt base (hasKey m.query.root.activePre) m.query.w :=
  Node.query_rec m.w.cfg.topDown m.root m.passStart hA rfl (hr.of_seq rfl)

theorem request_cbSeq (m : Mach U) (kd : Kind) (d : Nat) (p : Option Nat) : (m.request kd d p).w.cbSeq = m.w.cbSeq := by
  unfold request
  dsimp only
  have := congrArg DKey.seq (World.key_logRec
    (if m.w.requests.length < m.w.cfg.queueCap then
      { m.w with requests := m.w.requests ++ [{ origin := none, dest := d, kind := kd, payload := p }] } else m.w)
    (.transition none kd d))
  simp only [World.key_seq] at this
  rw [this]
  split <;> rfl

theorem setTask_cbSeq (m : Mach U) (sid : Nat) (b : Bool) : (m.setTask sid b).w.cbSeq = m.w.cbSeq := by
  unfold setTask
  split
  · dsimp only
    have := congrArg DKey.seq (World.key_logRec
      (if b = true then { m.w with succ := World.setBit m.w.succ sid } else { m.w with fail := World.setBit m.w.fail sid })
      (.taskStatus none sid b))
    simp only [World.key_seq] at this
    rw [this]
    split <;> rfl
  · rfl

theorem planAppend_cbSeq (m : Mach U) (r : Nat) (t : Task) : (m.planAppend r t).w.cbSeq = m.w.cbSeq :=
  congrArg DKey.seq (World.key_planAppend m.w r t)

theorem planClear_cbSeq (m : Mach U) (r : Nat) : (m.planClear r).w.cbSeq = m.w.cbSeq := by
  unfold planClear
  split
  · rfl
  · exact congrArg DKey.seq (World.key_fail' m.w _)

theorem immediate_rec {base : Node} {k : Nat} {m : Mach U} (kd : Kind) (d : Nat) (p : Option Nat) (hI : base.IdsFrom k)
    (hi : LiveInv base m) (he : (m.immediate kd d p).w.err = none) (hr : RecAt base (hasKey m.root.activePre) m.w) :
    RecAt base (hasKey (m.immediate kd d p).root.activePre) (m.immediate kd d p).w := by
  unfold immediate at he ⊢
  exact processRequest_rec (m := m.request kd d p) hI
    ⟨hi.shape, hi.live, hi.good.ext (request_ext m kd d p)⟩ he (hr.of_seq (request_cbSeq m kd d p))

/-! ### activation, deactivation, reset -/

theorem initialEnter_rec {base : Node} {k : Nat} {m : Mach U} (hI : base.IdsFrom k) (hi : DormInv base m)
    (he : m.initialEnter.w.err = none) (hr : RecAt base (fun _ => false) m.w) :
    RecAt base (hasKey m.initialEnter.root.activePre) m.initialEnter.w := by
  obtain ⟨r1, m2, rr, e, h1, h2, h3, h4, heq⟩ := initialEnter_spec m
  have hW0 : World.Prep m.root m.w ((m.w.clearTargets.freshControl).snapshot m.root true false) :=
    World.Prep.snapshot true false (by simp) (by simp) (by simp)
  have hW3 : World.Prep rr.1.root rr.1.w ((enterPrep rr.1.w rr.2).snapshot rr.1.root false false) :=
    World.Prep.snapshot false false rfl rfl rfl
  have q0 : RecAt base (fun _ => false) ((m.w.clearTargets.freshControl).snapshot m.root true false) :=
    hr.of_seq (World.clearTargets_cbSeq _)
  have c3 : ((enterPrep rr.1.w rr.2).snapshot rr.1.root false false).cbSeq = rr.1.w.cbSeq := rfl
  generalize (m.w.clearTargets.freshControl).snapshot m.root true false = W0 at h1 hW0 q0
  generalize (enterPrep rr.1.w rr.2).snapshot rr.1.root false false = W3 at h4 hW3 c3
  rw [heq] at he ⊢
  simp only [w_updateActivity] at he
  have a0 : (rr.1.root.enter W3).2.err = none := by rw [h4] at he; exact he
  have a1 : W3.err = none := (Node.enter_ext _ _).err a0
  have a2 : rr.1.w.err = none := hW3.err ▸ a1
  have a3 : m2.w.err = none := by rw [h3] at a2; exact rounds_errLe true _ _ _ _ a2
  have a4 : r1.2.err = none := by rw [h2] at a3; exact approvedByEntryGuards_errLe _ _ _ a3
  have g0 : W0.Good base := hW0.good hi.good hi.shape (.inr hi.dorm.clean)
  have v1 : r1.1.view true true false = m.root.view true true false := by rw [h1]; exact Node.request_view _ _ _ _ _
  have res1 : r1.1.Res := by rw [h1] at a4 ⊢; exact Node.request_res _ _ _ a4
  have d1 : r1.1.DRes :=
    ⟨(Node.clean_congr v1).mpr hi.dorm.clean, res1, (Node.resumableOK_congr v1).mpr hi.dorm.rok⟩
  have s1 : r1.1.SameShape base := (Node.SameShape.of_view v1).trans hi.shape
  have g1 : r1.2.Good base := by rw [h1]; exact g0.ext (Node.request_ext _ _ _)
  have i2 : DResInv base m2 := by
    rw [h2]
    exact ⟨by simpa using s1, by simpa using d1,
      approvedByEntryGuards_good _ _ _ g1 s1 (.inr d1.clean)⟩
  have i3 : DResInv base rr.1 := by rw [h3] at a2 ⊢; exact rounds_dres _ m2 m2.root [] i2 i2.dres.res rfl a2
  -- the record: selection callbacks and entry guards only, up to the enter pass
  have q1 : RecAt base (fun _ => false) r1.2 := by
    rw [h1]
    exact q0.free (Node.g_request (fun s m sl hc => free_of_const s m sl hc) _ _ _ (World.GrowsBy.refl _))
  have q2 : RecAt base (fun _ => false) m2.w := by
    rw [h2]
    exact q1.free (g_approvedByEntryGuards_free ({ m with root := r1.1, w := r1.2 } : Mach U) [] []
      (World.GrowsBy.refl _))
  have q3 : RecAt base (fun _ => false) rr.1.w := by
    rw [h3]
    exact q2.free (g_rounds_true_free _ m2 m2.root [] (World.GrowsBy.refl _))
  have qe := Node.enter_rec rr.1.root k W3 i3.shape (i3.shape.idsFrom k hI) i3.dres.res (q3.of_seq c3) a0
  show RecAt base (hasKey e.1.clearMarks.activePre) e.2
  rw [Node.activePre_of_view (Node.view_tff_of_ttf (Node.clearMarks_view true true _)), h4]
  exact qe

theorem finalExit_cbSeq (m : Mach U) :
    m.finalExit.w.cbSeq = (m.root.exit ((m.w.freshControl).snapshot m.root false false)).2.cbSeq := by
  unfold Mach.finalExit
  dsimp only
  unfold Mach.updateActivity
  dsimp only
  unfold World.clearTargets
  split <;> rfl

theorem finalExit_rec {base : Node} {k : Nat} {m : Mach U} (hI : base.IdsFrom k) (hs : m.root.SameShape base)
    (hA : m.root.Act) (he : m.finalExit.w.err = none) (hr : RecAt base (hasKey m.root.activePre) m.w) :
    RecAt base (fun _ => false) m.finalExit.w := by
  have he' : (m.root.exit ((m.w.freshControl).snapshot m.root false false)).2.err = none := by
    unfold finalExit at he
    simpa using he
  exact (Node.exit_rec m.root k ((m.w.freshControl).snapshot m.root false false) hs (hs.idsFrom k hI) hA
    (hr.of_seq rfl) he').of_seq (finalExit_cbSeq m)

theorem reset_rec {base : Node} {k : Nat} {m : Mach U} (hI : base.IdsFrom k) (hi : LiveInv base m)
    (he : m.reset.w.err = none) (hr : RecAt base (hasKey m.root.activePre) m.w) :
    RecAt base (hasKey m.reset.root.activePre) m.reset.w := by
  obtain ⟨e1, r2, e3, h1, h2, h3, heq⟩ := reset_spec m
  rw [heq] at he ⊢
  simp only [w_updateActivity] at he
  have a3 : r2.2.err = none := by
    rw [h3] at he; have := (Node.enter_ext _ _).err he; simpa using this
  have a2 : e1.2.err = none := by
    rw [h2] at a3; have := (Node.request_ext _ _ _).err a3
    simpa [World.withPrevious] using this
  have hs := hi.shape
  have hg := hi.good
  have g1 : e1.2.Good base := by
    rw [h1]
    exact ((World.Prep.snapshot (w := m.w) (w' := m.w.freshControl) false false rfl rfl rfl).good hg hs
      (.inl hi.live.act)).ext (Node.exit_ext _ _)
  have s1 : e1.1.cleared.SameShape base := by
    refine (Node.cleared_sameShape _).trans (Node.SameShape.trans ?_ hs)
    rw [h1, Node.exit_fst]; exact Node.SameShape.of_view (Node.exitT_view m.root)
  have c1 := Node.cleared_idle e1.1
  have g1' : ((World.withPrevious e1.2.clearTargets []).snapshot e1.1.cleared true false).Good base :=
    (World.Prep.snapshot (w := e1.2) (w' := World.withPrevious e1.2.clearTargets []) true false
      (by simp [World.withPrevious]) (by simp [World.withPrevious]) (by simp [World.withPrevious])).good g1 s1 (.inr c1.1)
  have v2 : r2.1.view true true false = e1.1.cleared.view true true false := by rw [h2]; exact Node.request_view _ _ _ _ _
  have res2 : r2.1.Res := by rw [h2] at a3 ⊢; exact Node.request_res _ _ _ a3
  have d2 : r2.1.DRes := ⟨(Node.clean_congr v2).mpr c1.1, res2, (Node.resumableOK_congr v2).mpr c1.2.2⟩
  have s2 : r2.1.SameShape base := (Node.SameShape.of_view v2).trans s1
  -- the record
  have q1 : RecAt base (fun _ => false) e1.2 := by
    rw [h1] at a2 ⊢
    exact Node.exit_rec m.root k ((m.w.freshControl).snapshot m.root false false) hs (hs.idsFrom k hI) hi.live.act
      (hr.of_seq rfl) a2
  have q1' : RecAt base (fun _ => false) ((World.withPrevious e1.2.clearTargets []).snapshot e1.1.cleared true false) :=
    q1.of_seq (World.clearTargets_cbSeq _)
  have q2 : RecAt base (fun _ => false) r2.2 := by
    rw [h2]
    exact q1'.free (Node.g_request (fun s m sl hc => free_of_const s m sl hc) _ _ _ (World.GrowsBy.refl _))
  have a0 : (r2.1.enter (r2.2.snapshot r2.1 false false)).2.err = none := by rw [h3] at he; exact he
  have qe := Node.enter_rec r2.1 k (r2.2.snapshot r2.1 false false) s2 (s2.idsFrom k hI) d2.res (q2.of_seq rfl) a0
  show RecAt base (hasKey e3.1.clearMarks.activePre) e3.2
  rw [Node.activePre_of_view (Node.view_tff_of_ttf (Node.clearMarks_view true true _)), h3]
  exact qe

/-! ### serialization loads -/

theorem loadActive_rec {base : Node} {k : Nat} {m : Mach U} (st : List Bool) (hI : base.IdsFrom k) (hi : LiveInv base m)
    (he : (m.loadActive st).w.err = none) (hr : RecAt base (hasKey m.root.activePre) m.w) :
    RecAt base (hasKey (m.loadActive st).root.activePre) (m.loadActive st).w := by
  revert he
  unfold loadActive
  split
  · intro h; exact absurd h (World.fail'_errX _ _)
  · next root st' hload =>
    intro he
    dsimp only at he ⊢
    simp only [w_updateActivity] at he
    obtain ⟨hv, hrok, hres⟩ := Node.loadRequested_spec _ st root st' hload
    have hv0 : root.view true false false = m.root.view true false false := by
      rw [hv, Node.view_tff_of_tft (Node.noResumable_view true _), Node.view_tff_of_ttf (Node.clearMarks_view true true _)]
    have l1 : root.Live := ⟨(Node.act_congr hv0).mpr hi.live.act, Node.Res_imp_COK _ hres, hrok⟩
    have s1 : root.SameShape base := (Node.SameShape.of_view hv0).trans hi.shape
    have q : RecAt base (hasKey root.activePre)
        (({ m.w.clearPlanData.clearTargets with requests := [], previous := [] } : World U).freshControl.snapshot
          root false false) := by
      rw [Node.activePre_of_view hv0]
      exact hr.of_seq (World.clearTargets_cbSeq _)
    have qc := Node.commit_rec root k _ s1 (s1.idsFrom k hI) l1.act l1.cok q he
    show RecAt base (hasKey ((root.commit _).1.withResumableOf root).activePre) _
    rw [Node.activePre_of_view (Node.view_tff_of_tft (Node.withResumableOf_view true _ _))]
    exact qc

theorem loadEnter_rec {base : Node} {k : Nat} {m : Mach U} (st : List Bool) (hI : base.IdsFrom k) (hi : DormInv base m)
    (he : (m.loadEnter st).w.err = none) (hr : RecAt base (fun _ => false) m.w) :
    RecAt base (hasKey (m.loadEnter st).root.activePre) (m.loadEnter st).w := by
  revert he
  unfold loadEnter
  split
  · intro h; exact absurd h (World.fail'_errX _ _)
  · next root st' hload =>
    intro he
    dsimp only at he ⊢
    simp only [w_updateActivity] at he
    obtain ⟨hv, hrok, hres⟩ := Node.loadRequested_spec _ st root st' hload
    have s1 : root.SameShape base := (Node.SameShape.of_view hv).trans hi.shape
    have qe := Node.enter_rec root k ((m.w.freshControl).snapshot root false false) s1 (s1.idsFrom k hI) hres
      (hr.of_seq rfl) he
    show RecAt base (hasKey ((root.enter _).1.withResumableOf root).activePre) _
    rw [Node.activePre_of_view (Node.view_tff_of_tft (Node.withResumableOf_view true _ _))]
    exact qe

/-! ### replays -/

theorem foldl_applyStep_view {base : Node} : (l : List (Transition × Nat)) → (m : Mach U) → LiveInv base m →
    (l.foldl applyStep m).w.err = none →
    (l.foldl applyStep m).root.view true false false = m.root.view true false false
  | [], m, hi, _ => rfl
  | x :: rest, m, hi, he => by
      simp only [List.foldl] at he ⊢
      have h1 := applyStep_live x hi (foldl_applyStep_errLe rest _ he)
      exact (foldl_applyStep_view rest _ h1.1 he).trans h1.2

theorem applyRequests_view {base : Node} {m : Mach U} (ts : List Transition) (hi : LiveInv base m)
    (he : (m.applyRequests ts).1.w.err = none) :
    (m.applyRequests ts).1.root.view true false false = m.root.view true false false := by
  rw [applyRequests_fst] at he ⊢
  exact foldl_applyStep_view _ _ ⟨hi.shape, hi.live, hi.good.of_eq rfl rfl rfl⟩ he

theorem replayTransitions_rec {base : Node} {k : Nat} {m : Mach U} (ts : List Transition) (hI : base.IdsFrom k)
    (hi : LiveInv base m) (he : (m.replayTransitions ts).1.w.err = none)
    (hr : RecAt base (hasKey m.root.activePre) m.w) :
    RecAt base (hasKey (m.replayTransitions ts).1.root.activePre) (m.replayTransitions ts).1.w := by
  obtain ⟨m0, ar, c, h0, h1, h2, heq⟩ := replayTransitions_spec m ts
  rw [heq] at he ⊢
  have i0 : LiveInv base m0 := by
    rw [h0]
    exact ⟨hi.shape, hi.live, hi.good.of_eq (by simp [World.withPrevious]) (by simp [World.withPrevious])
      (by simp [World.withPrevious])⟩
  have r0 : m0.root = m.root := by rw [h0]
  have q0 : RecAt base (hasKey m.root.activePre) m0.w := by
    rw [h0]; exact hr.of_seq (World.clearTargets_cbSeq _)
  have q1 : RecAt base (hasKey m.root.activePre) ar.1.w := by
    rw [h1]; exact q0.free (g_applyRequests_free m0 ts (World.GrowsBy.refl _))
  split at he
  · next hts => rw [if_pos hts]; rw [r0]; exact q0
  · next hts =>
    rw [if_neg hts]
    split at he
    · next hch =>
      rw [if_pos hch]
      simp only [w_updateActivity] at he
      have a0 : (ar.1.root.commit ((World.withPrevious ar.1.w.freshControl (ts.take ar.1.w.cfg.historyCap)).snapshot ar.1.root false false)).2.err
          = none := by rw [h2] at he; exact he
      have a1 : ar.1.w.err = none := by
        have := (Node.commit_ext _ _).err a0
        simpa [World.withPrevious] using this
      have i1 : LiveInv base ar.1 := by rw [h1] at a1 ⊢; exact applyRequests_live ts i0 a1
      have v1 : ar.1.root.view true false false = m.root.view true false false := by
        rw [h1] at a1 ⊢; rw [← r0]; exact applyRequests_view ts i0 a1
      have q1' : RecAt base (hasKey ar.1.root.activePre)
          ((World.withPrevious ar.1.w.freshControl (ts.take ar.1.w.cfg.historyCap)).snapshot ar.1.root false false) := by
        rw [Node.activePre_of_view v1]; exact q1.of_seq rfl
      have qc := Node.commit_rec ar.1.root k _ i1.shape (i1.shape.idsFrom k hI) i1.live.act i1.live.cok q1' a0
      show RecAt base (hasKey c.1.clearMarks.activePre) c.2
      rw [Node.activePre_of_view (Node.view_tff_of_ttf (Node.clearMarks_view true true _)), h2]
      exact qc
    · next hch =>
      rw [if_neg hch]
      have v1 : ar.1.root.view true false false = m.root.view true false false := by
        rw [h1] at he ⊢; rw [← r0]; exact applyRequests_view ts i0 he
      show RecAt base (hasKey ar.1.root.activePre) ar.1.w
      rw [Node.activePre_of_view v1]; exact q1

/-- `replayEnter` on an instance that is not activated: the record of an activation when it returns
`true`, nothing entered when it returns `false`. -/
theorem replayEnter_rec {base : Node} {k : Nat} {m : Mach U} (ts : List Transition) (hI : base.IdsFrom k)
    (hi : DormInv base m) (he : (m.replayEnter ts).1.w.err = none) (hr : RecAt base (fun _ => false) m.w) :
    ((m.replayEnter ts).2 = true →
      RecAt base (hasKey (m.replayEnter ts).1.root.activePre) (m.replayEnter ts).1.w) ∧
    ((m.replayEnter ts).2 = false → RecAt base (fun _ => false) (m.replayEnter ts).1.w) := by
  obtain ⟨m0, r1, ar, e, h0, h1, h2, h3, heq⟩ := replayEnter_spec m ts
  rw [heq] at he ⊢
  have i0 : DormInv base m0 := by
    rw [h0]
    exact ⟨hi.shape, hi.dorm, hi.good.of_eq (by simp) (by simp) (by simp)⟩
  have q0 : RecAt base (fun _ => false) m0.w := by
    rw [h0]; exact hr.of_seq (World.clearTargets_cbSeq _)
  split at he
  · next hts => rw [if_pos hts]; exact ⟨(fun h => by simp at h), fun _ => q0⟩
  · next hts =>
    rw [if_neg hts]
    have a2 : ar.1.w.err = none := by
      split at he
      · simp only [w_updateActivity] at he
        rw [h3] at he
        have := (Node.enter_ext _ _).err he
        simpa [World.withPrevious] using this
      · exact he
    have a1 : r1.2.err = none := by rw [h2] at a2; exact applyRequests_errLe _ _ a2
    have g0 : ((m0.w.freshControl).snapshot m0.root true false).Good base :=
      (World.Prep.snapshot (w := m0.w) (w' := m0.w.freshControl) true false rfl rfl rfl).good i0.good i0.shape (.inr i0.dorm.clean)
    have v1 : r1.1.view true true false = m0.root.view true true false := by rw [h1]; exact Node.request_view _ _ _ _ _
    have res1 : r1.1.Res := by rw [h1] at a1 ⊢; exact Node.request_res _ _ _ a1
    have d1 : r1.1.DRes := ⟨(Node.clean_congr v1).mpr i0.dorm.clean, res1, (Node.resumableOK_congr v1).mpr i0.dorm.rok⟩
    have s1 : r1.1.SameShape base := (Node.SameShape.of_view v1).trans i0.shape
    have g1 : r1.2.Good base := by rw [h1]; exact g0.ext (Node.request_ext _ _ _)
    have i2 : DResInv base ar.1 := by
      rw [h2] at a2 ⊢
      exact applyRequests_dres ts ⟨s1, d1, g1⟩ a2
    have q1 : RecAt base (fun _ => false) r1.2 := by
      rw [h1]
      exact (q0.of_seq (w' := (m0.w.freshControl).snapshot m0.root true false) rfl).free
        (Node.g_request (fun s m sl hc => free_of_const s m sl hc) _ _ _ (World.GrowsBy.refl _))
    have q2 : RecAt base (fun _ => false) ar.1.w := by
      rw [h2]
      exact q1.free (g_applyRequests_free ({ m0 with root := r1.1, w := r1.2 } : Mach U) ts (World.GrowsBy.refl _))
    split
    · next hch =>
      refine ⟨fun _ => ?_, (fun h => by simp at h)⟩
      rw [if_pos hch] at he
      simp only [w_updateActivity] at he
      have a0 : (ar.1.root.enter ((World.withPrevious ar.1.w.freshControl (ts.take ar.1.w.cfg.historyCap)).snapshot ar.1.root false false)).2.err
          = none := by rw [h3] at he; exact he
      have qe := Node.enter_rec ar.1.root k _ i2.shape (i2.shape.idsFrom k hI) i2.dres.res
        (q2.of_seq (w' := (World.withPrevious ar.1.w.freshControl (ts.take ar.1.w.cfg.historyCap)).snapshot ar.1.root false false) rfl) a0
      show RecAt base (hasKey e.1.clearMarks.activePre) e.2
      rw [Node.activePre_of_view (Node.view_tff_of_ttf (Node.clearMarks_view true true _)), h3]
      exact qe
    · exact ⟨(fun h => by simp at h), fun _ => q2⟩

/-! ### the record of an instance, one step, a run -/

/-- The objects that are entered between API calls: the handler objects of the active states of an
activated instance (`root.machineActive` is `RegistryT::isActive()`), nothing for an instance that is
not activated. -/
def entered (m : Mach U) : Key → Bool := fun x => m.root.machineActive && hasKey m.root.activePre x

/-- The whole callback sequence of the instance so far is a balanced, well nested lifecycle history
ending with exactly the objects of the active states entered. -/
def Rec (base : Node) (m : Mach U) : Prop := RecAt base m.entered m.w

theorem entered_of_active {m : Mach U} (h : m.root.machineActive = true) : m.entered = hasKey m.root.activePre := by
  funext x; unfold entered; rw [h]; rfl

theorem entered_of_inactive {m : Mach U} (h : m.root.machineActive = false) : m.entered = fun _ => false := by
  funext x; unfold entered; rw [h]; rfl

theorem active_of_live {base : Node} {m : Mach U} (hc : base.anyCompo = true) (hl : LiveInv base m) :
    m.root.machineActive = true := by
  rw [Node.machineActive_of_act hl.live.act, hl.shape.anyCompo, hc]

theorem inactive_of_dorm {base : Node} {m : Mach U} (hd : DormInv base m) : m.root.machineActive = false :=
  Node.machineActive_of_clean hd.dorm.clean

theorem Rec.of_live {base : Node} {m : Mach U} (hc : base.anyCompo = true) (hl : LiveInv base m)
    (h : RecAt base (hasKey m.root.activePre) m.w) : Rec base m := by
  unfold Rec; rw [entered_of_active (active_of_live hc hl)]; exact h

theorem Rec.of_dorm {base : Node} {m : Mach U} (hd : DormInv base m) (h : RecAt base (fun _ => false) m.w) :
    Rec base m := by
  unfold Rec; rw [entered_of_inactive (inactive_of_dorm hd)]; exact h

theorem Rec.live {base : Node} {m : Mach U} (h : Rec base m) (hm : m.root.machineActive = true) :
    RecAt base (hasKey m.root.activePre) m.w := by
  unfold Rec at h; rwa [entered_of_active hm] at h

theorem Rec.dorm {base : Node} {m : Mach U} (h : Rec base m) (hm : m.root.machineActive = false) :
    RecAt base (fun _ => false) m.w := by
  unfold Rec at h; rwa [entered_of_inactive hm] at h

/-- an operation that touches neither the registry nor the callback sequence -/
theorem Rec.frame {base : Node} {m m' : Mach U} (h : Rec base m) (hr : m'.root = m.root) (hs : m'.w.cbSeq = m.w.cbSeq) :
    Rec base m' := by
  unfold Rec entered at h ⊢
  rw [hr]
  exact h.of_seq hs

theorem create_rec (shape : Shape) (cfg : Config) : Rec (shape.toNode 0 0) (create shape cfg : Mach U) := by
  have ht : (create shape cfg : Mach U).w.trace = [] := by simp [create]
  have hs : (create shape cfg : Mach U).w.cbSeq = [] := by simp [World.cbSeq, ht, cbsOf]
  have hm : (create shape cfg : Mach U).root.machineActive = false :=
    Node.machineActive_of_clean (Node.toNode_idle shape 0 0).1
  unfold Rec
  rw [entered_of_inactive hm]
  exact ⟨by rw [hs]; exact fun _ => rfl, by rw [hs]; exact fun _ _ _ => rfl⟩

theorem load_rec {base : Node} {m : Mach U} (st : List Bool) (hc : base.anyCompo = true) (hI : base.IdsFrom 0)
    (hi : Inv base m) (hr : Rec base m) (he : (m.load st).w.err = none) : Rec base (m.load st) := by
  revert he
  unfold load
  split
  · intro h; exact absurd h (World.fail'_errX _ _)
  · split
    · next hm =>
      intro he
      exact Rec.of_live hc (loadActive_inv _ (hi.live hm) he) (loadActive_rec _ hI (hi.live hm) he (hr.live hm))
    · next hm =>
      split
      · intro he
        have hm' : m.root.machineActive = false := by simpa using hm
        exact Rec.of_live hc (loadEnter_inv _ (hi.dorm hm') he) (loadEnter_rec _ hI (hi.dorm hm') he (hr.dorm hm'))
      · intro h; exact absurd h (World.fail'_errX _ _)
  · split
    · split
      · next hm =>
        intro he
        have hl := hi.live hm
        exact Rec.of_dorm (finalExit_inv hi.shape hi.good hi.act_or_clean).1
          (finalExit_rec hI hl.shape hl.live.act he (hr.live hm))
      · intro _; exact hr
    · intro h; exact absurd h (World.fail'_errX _ _)

/-- Every API call keeps the record. -/
theorem step_rec {base : Node} {m : Mach U} (s : ApiStep U) (hc : base.anyCompo = true) (hI : base.IdsFrom 0)
    (hi0 : Inv base m) (hr0 : Rec base m) (he : (m.step s).w.err = none) : Rec base (m.step s) := by
  have hi := feed_inv s.ds s.rng hi0
  have hr : Rec base (m.feed s.ds s.rng) := hr0.frame rfl rfl
  revert he
  unfold step
  dsimp only
  generalize m.feed s.ds s.rng = m1 at hi hr
  cases s.op with
  | enter =>
    dsimp only; split
    · intro h; exact absurd h (violate_err _ _)
    · next hm =>
      intro he
      have hm' : m1.root.machineActive = false := by simpa using hm
      exact Rec.of_live hc (initialEnter_inv (hi.dorm hm') he).1 (initialEnter_rec hI (hi.dorm hm') he (hr.dorm hm'))
  | exit =>
    dsimp only; split
    · next hm =>
      intro he
      have hl := hi.live hm
      exact Rec.of_dorm (finalExit_inv hi.shape hi.good hi.act_or_clean).1
        (finalExit_rec hI hl.shape hl.live.act he (hr.live hm))
    · intro h; exact absurd h (violate_err _ _)
  | update =>
    dsimp only; split
    · next hm =>
      intro he
      exact Rec.of_live hc (update_inv (hi.live hm) he).1 (update_rec hI (hi.live hm) he (hr.live hm))
    · intro h; exact absurd h (violate_err _ _)
  | react =>
    dsimp only; split
    · next hm =>
      intro he
      exact Rec.of_live hc (react_inv (hi.live hm) he).1 (react_rec hI (hi.live hm) he (hr.live hm))
    · intro h; exact absurd h (violate_err _ _)
  | query =>
    dsimp only; split
    · next hm =>
      intro _
      have hl := hi.live hm
      exact Rec.of_live hc ⟨hl.shape, hl.live, query_good hi.shape hi.good hi.act_or_clean⟩
        (query_rec hl.live.act (hr.live hm))
    · intro h; exact absurd h (violate_err _ _)
  | reset =>
    dsimp only; split
    · next hm =>
      intro he
      exact Rec.of_live hc (reset_inv hi.shape hi.good hi.act_or_clean trivial he).1
        (reset_rec hI (hi.live hm) he (hr.live hm))
    · intro h; exact absurd h (violate_err _ _)
  | request kd d p => intro _; exact hr.frame rfl (request_cbSeq _ kd d p)
  | immediate kd d p =>
    dsimp only; split
    · next hm =>
      intro he
      exact Rec.of_live hc (immediate_inv kd d p (hi.live hm) he).1
        (immediate_rec kd d p hI (hi.live hm) he (hr.live hm))
    · intro h; exact absurd h (violate_err _ _)
  | setTask sid b => intro _; exact hr.frame (setTask_root _ sid b) (setTask_cbSeq _ sid b)
  | planAppend rid t => intro _; exact hr.frame rfl (planAppend_cbSeq _ rid t)
  | planClear rid => intro _; exact hr.frame (planClear_root _ rid) (planClear_cbSeq _ rid)
  | load bits => intro he; exact load_rec bits hc hI hi hr he
  | replayTransitions ts =>
    dsimp only; split
    · next hm =>
      intro he
      exact Rec.of_live hc (replayTransitions_inv ts (hi.live hm) he)
        (replayTransitions_rec ts hI (hi.live hm) he (hr.live hm))
    · intro h; exact absurd h (violate_err _ _)
  | replayEnter ts =>
    dsimp only; split
    · intro h; exact absurd h (violate_err _ _)
    · next hm =>
      intro he
      have hm' : m1.root.machineActive = false := by simpa using hm
      have h1 := replayEnter_inv ts (hi.dorm hm') he
      have h2 := replayEnter_rec ts hI (hi.dorm hm') he (hr.dorm hm')
      cases hb : (m1.replayEnter ts).2
      · exact Rec.of_dorm (h1.2 hb) (h2.2 hb)
      · exact Rec.of_live hc (h1.1 hb).1 (h2.1 hb)

/-- Every run keeps the record. -/
theorem run_rec {base : Node} (hc : base.anyCompo = true) (hI : base.IdsFrom 0) :
    (steps : List (ApiStep U)) → (m : Mach U) → Inv base m → Rec base m → (m.run steps).w.err = none →
    Rec base (m.run steps)
  | [], m, _, hr, _ => hr
  | s :: rest, m, hi, hr, he =>
    have he1 := run_errLe rest (m.step s) he
    run_rec hc hI rest (m.step s) (step_inv s hi he1) (step_rec s hc hI hi hr he1) he

/-- an `exit()` that is not a contract violation leaves the instance not activated -/
theorem step_exit_inactive {base : Node} {m : Mach U} (ds : List (Decision U)) (rng : List U) (hi0 : Inv base m)
    (he : (m.step ⟨ds, rng, .exit⟩).w.err = none) : (m.step ⟨ds, rng, .exit⟩).root.machineActive = false := by
  have hi := feed_inv ds rng hi0
  revert he
  unfold step
  dsimp only
  split
  · intro _
    exact inactive_of_dorm (finalExit_inv hi.shape hi.good hi.act_or_clean).1
  · intro h; exact absurd h (violate_err _ _)

theorem run_snocL (m : Mach U) (steps : List (ApiStep U)) (s : ApiStep U) : m.run (steps ++ [s]) = (m.run steps).step s := by
  simp [run, List.foldl_append]

/-- an entered object belongs to a state the registry reports active -/
theorem entered_isActive {base : Node} {m : Mach U} (hI : base.IdsFrom 0) (hi : Inv base m) (x : Key)
    (h : m.entered x = true) : m.root.isActive x.1 = true := by
  unfold entered at h
  simp only [Bool.and_eq_true] at h
  obtain ⟨hm, hk⟩ := h
  obtain ⟨st, hs, he⟩ := List.mem_map.1 (hasKey_id _ x hk)
  have hl := hi.live hm
  have := Node.isActive_of_mem_activePre m.root 0 hl.live.act (hl.shape.idsFrom 0 hI) hm st hs
  have he' : st.1 = x.1 := he
  rwa [he'] at this

/-- an instance that is not activated has every object closed -/
theorem Rec.closed {base : Node} {m : Mach U} (h : Rec base m) (hm : m.root.machineActive = false) :
    LifeOK (fun _ => false) m.w.cbSeq := (h.dorm hm).life

/-- … in particular after an `exit()` (or the destruction of an automatic instance, which is `finalExit`) -/
theorem run_exit_closed (shape : Shape) (cfg : Config) (steps : List (ApiStep U)) (ds : List (Decision U)) (rng : List U)
    (hc : (shape.toNode 0 0).anyCompo = true)
    (he : ((create shape cfg : Mach U).run (steps ++ [⟨ds, rng, .exit⟩])).w.err = none) :
    LifeOK (fun _ => false) ((create shape cfg : Mach U).run (steps ++ [⟨ds, rng, .exit⟩])).w.cbSeq := by
  have hI := Node.idsFrom_toNode shape 0 0
  have hr := run_rec hc hI _ _ (create_inv shape cfg) (create_rec shape cfg) he
  refine hr.closed ?_
  rw [run_snocL] at he ⊢
  have he0 : ((create shape cfg : Mach U).run steps).w.err = none := step_errLe _ _ he
  exact step_exit_inactive ds rng (run_inv steps _ (create_inv shape cfg) he0) he

end Mach
end ops

/-! ### the same for `Api.run` (one decision stream for the whole life of the instance)

`Api.step` performs every call unconditionally; the calls HFSM2 documents as illegal in the current
activation state (`HFSM2_ASSERT(isActive())` / `HFSM2_ASSERT(!isActive())` in root_0.inl / root_1.inl) are
excluded by `Api.runLegal` — without it the statement is false (`enter()` twice delivers `enter` twice). -/

namespace Api
variable [UtilArith U]

/-- the same call in the vocabulary of Proofs/MachOps.lean -/
def Op.toOpL : Op → Hfsm.Op U
  | .enter => .enter
  | .exit => .exit
  | .update => .update
  | .react => .react
  | .query => .query
  | .reset => .reset
  | .request k d p => .request k d p
  | .immediate k d p => .immediate k d p
  | .setTask s ok => .setTask s ok
  | .planAppend r t => .planAppend r t
  | .planClear r => .planClear r
  | .load b => .load b
  | .replay ts => .replayTransitions ts
  | .replayEnter ts => .replayEnter ts

/-- the activation-state precondition of a call -/
def legal (m : Mach U) : Op → Bool
  | .enter | .replayEnter _ => !m.root.machineActive
  | .exit | .update | .react | .query | .reset | .immediate .. | .replay _ => m.root.machineActive
  | _ => true

/-- every call of the sequence is legal in the state it is made in -/
def runLegal (m : Mach U) : List Op → Bool
  | [] => true
  | o :: os => legal m o && runLegal (step m o) os

theorem feed_self (m : Mach U) : m.feed m.w.ds m.w.rng = m := rfl

/-- a legal call is the `Mach.step` that feeds the instance its own streams -/
theorem step_eq (m : Mach U) (o : Op) (h : legal m o = true) :
    step m o = Mach.step m ⟨m.w.ds, m.w.rng, (o.toOpL : Hfsm.Op U)⟩ := by
  unfold Mach.step
  dsimp only
  rw [feed_self]
  cases o <;> simp only [legal, Bool.not_eq_true'] at h <;> simp [step, Op.toOpL, h]

theorem step_errLe (m : Mach U) (o : Op) (h : legal m o = true) : World.ErrLe m.w (step m o).w := by
  rw [step_eq m o h]; exact Mach.step_errLe m _

theorem run_errLe : (ops : List Op) → (m : Mach U) → runLegal m ops = true → World.ErrLe m.w (run m ops).w
  | [], m, _ => World.ErrLe.refl _
  | o :: os, m, h => by
    simp only [runLegal, Bool.and_eq_true] at h
    exact World.ErrLe.trans (step_errLe m o h.1) (run_errLe os (step m o) h.2)

/-- every legal run keeps C01's invariant and the lifecycle record -/
theorem run_rec {base : Node} (hc : base.anyCompo = true) (hI : base.IdsFrom 0) :
    (ops : List Op) → (m : Mach U) → Mach.Inv base m → Mach.Rec base m → runLegal m ops = true →
    (run m ops).w.err = none → Mach.Inv base (run m ops) ∧ Mach.Rec base (run m ops)
  | [], m, hi, hr, _, _ => ⟨hi, hr⟩
  | o :: os, m, hi, hr, hl, he => by
    simp only [runLegal, Bool.and_eq_true] at hl
    have he1 : (step m o).w.err = none := run_errLe os (step m o) hl.2 he
    have e := step_eq m o hl.1
    rw [run_cons] at he ⊢
    rw [e] at he1 hl he ⊢
    exact run_rec hc hI os _ (Mach.step_inv _ hi he1) (Mach.step_rec _ hc hI hi hr he1) hl.2 he

theorem boot_eqL (shape : Shape) (cfg : Config) (ds : List (Decision U)) (rng : List U) :
    boot shape cfg ds rng =
      if cfg.manual then (Mach.create shape cfg : Mach U).feed ds rng
      else (Mach.create shape cfg : Mach U).step ⟨ds, rng, .enter⟩ := by
  have hm : ((Mach.create shape cfg : Mach U).feed ds rng).root.machineActive = false :=
    Node.machineActive_of_clean (Node.toNode_idle shape 0 0).1
  unfold boot Mach.step
  dsimp only
  split
  · rfl
  · rw [hm]; rfl

theorem boot_errLe (shape : Shape) (cfg : Config) (ds : List (Decision U)) (rng : List U)
    (he : (boot shape cfg ds rng).w.err = none) :
    Mach.Inv (shape.toNode 0 0) (boot shape cfg ds rng) ∧
    ((shape.toNode 0 0).anyCompo = true → Mach.Rec (shape.toNode 0 0) (boot shape cfg ds rng)) := by
  rw [boot_eqL] at he ⊢
  have hi := Mach.create_inv (U := U) shape cfg
  have hr := Mach.create_rec (U := U) shape cfg
  split
  · exact ⟨Mach.feed_inv ds rng hi, fun _ => hr.frame rfl rfl⟩
  · next hm =>
    rw [if_neg hm] at he
    exact ⟨Mach.step_inv _ hi he, fun hc => Mach.step_rec _ hc (Node.idsFrom_toNode shape 0 0) hi hr he⟩

/-- The record of a whole life: construction (activation of an automatic instance included), then any
legal sequence of calls. -/
theorem boot_run_rec (shape : Shape) (cfg : Config) (ds : List (Decision U)) (rng : List U) (ops : List Op)
    (hc : (shape.toNode 0 0).anyCompo = true) (hl : runLegal (boot shape cfg ds rng) ops = true)
    (he : (run (boot shape cfg ds rng) ops).w.err = none) :
    Mach.Inv (shape.toNode 0 0) (run (boot shape cfg ds rng) ops) ∧
    Mach.Rec (shape.toNode 0 0) (run (boot shape cfg ds rng) ops) := by
  have hb := boot_errLe shape cfg ds rng (run_errLe ops _ hl he)
  exact run_rec hc (Node.idsFrom_toNode shape 0 0) ops _ hb.1 (hb.2 hc) hl he

theorem runLegal_append : (a b : List Op) → (m : Mach U) →
    runLegal m (a ++ b) = (runLegal m a && runLegal (run m a) b)
  | [], b, m => by simp [runLegal, run_nil]
  | o :: a, b, m => by
    simp only [List.cons_append, runLegal, run_cons, runLegal_append a b (step m o), Bool.and_assoc]

/-- after a final `exit()` every object is closed -/
theorem boot_run_exit_closed (shape : Shape) (cfg : Config) (ds : List (Decision U)) (rng : List U) (ops : List Op)
    (hc : (shape.toNode 0 0).anyCompo = true) (hl : runLegal (boot shape cfg ds rng) (ops ++ [.exit]) = true)
    (he : (run (boot shape cfg ds rng) (ops ++ [.exit])).w.err = none) :
    LifeOK (fun _ => false) (run (boot shape cfg ds rng) (ops ++ [.exit])).w.cbSeq := by
  have h := boot_run_rec shape cfg ds rng _ hc hl he
  refine h.2.closed ?_
  rw [runLegal_append, Bool.and_eq_true] at hl
  rw [run_append] at he ⊢
  have hl2 : legal (run (boot shape cfg ds rng) ops) .exit = true := by
    have := hl.2; simpa [runLegal] using this
  have he0 : (run (boot shape cfg ds rng) ops).w.err = none := by
    have := step_errLe (run (boot shape cfg ds rng) ops) .exit hl2
    exact this he
  have hi := (boot_run_rec shape cfg ds rng ops hc hl.1 he0).1
  show (step (run (boot shape cfg ds rng) ops) .exit).root.machineActive = false
  exact Mach.inactive_of_dorm (Mach.finalExit_inv hi.shape hi.good hi.act_or_clean).1

end Api

end Hfsm
