/-
(c), dynamic half for the guards: a guard walk that answers `true` without running out of scripted
decisions has invoked the guard of every headed state in its static set (`reqIds`, `actIds`,
`fwdEntryIds`, `fwdExitIds` of Proofs/Coverage.lean).
-/
import Hfsm.Proofs.Coverage

set_option linter.unusedSectionVars false

namespace Hfsm
variable {U : Type}

/-- some handler of state `id`'s method `g` was invoked among `evs` -/
def HasCb (evs : List (Event U)) (id : Nat) (g : Method) : Prop :=
  ∃ slot obs p c, Event.cb id g slot obs p c ∈ evs

/-- between `w` and `w'` the method `g` of every state in `ids` was invoked -/
def Visited (g : Method) (ids : List Nat) (w w' : World U) : Prop :=
  ∃ evs, w'.trace = evs ++ w.trace ∧ ∀ id ∈ ids, HasCb evs id g

theorem Visited.of_frame {allow : Perm} {g : Method} {w w' : World U} (f : Frame allow w w') : Visited g [] w w' := by
  obtain ⟨evs, e, _⟩ := f.trace
  exact ⟨evs, e, fun _ h => nomatch h⟩

theorem Visited.trans {g : Method} {a b : List Nat} {w w1 w2 : World U} (h1 : Visited g a w w1)
    (h2 : Visited g b w1 w2) : Visited g (a ++ b) w w2 := by
  obtain ⟨e1, t1, p1⟩ := h1
  obtain ⟨e2, t2, p2⟩ := h2
  refine ⟨e2 ++ e1, by rw [t2, t1, List.append_assoc], ?_⟩
  intro id hid
  rcases List.mem_append.mp hid with h | h
  · obtain ⟨s, o, p, c, hm⟩ := p1 id h
    exact ⟨s, o, p, c, List.mem_append_right _ hm⟩
  · obtain ⟨s, o, p, c, hm⟩ := p2 id h
    exact ⟨s, o, p, c, List.mem_append_left _ hm⟩

theorem Visited.mono {g : Method} {a b : List Nat} {w w' : World U} (h : Visited g a w w') (hs : ∀ i ∈ b, i ∈ a) :
    Visited g b w w' := by
  obtain ⟨e, t, p⟩ := h
  exact ⟨e, t, fun id hid => p id (hs id hid)⟩

/-- the error mark never goes away -/
theorem Frame.err_none {allow : Perm} {w w' : World U} (f : Frame allow w w') (h : w'.err = none) : w.err = none := by
  cases he : w.err with
  | none => rfl
  | some msg =>
    have := f.err (by rw [he]; rfl)
    rw [this, he] at h; cases h

abbrev permAny : Perm := ⟨fun _ _ => True, fun _ => True, True⟩

theorem World.invokeSlots_visited (sid : Nat) (m : Method) : (l : List Nat) → (slot : Nat) → slot ∈ l → (w : World U) →
    (w.invokeSlots sid m l).err = none → Visited m [sid] w (w.invokeSlots sid m l)
  | [], _, h, _, _ => nomatch h
  | s :: rest, slot, hmem, w, herr => by
    simp only [World.invokeSlots] at herr ⊢
    have frest : Frame permAny (w.invoke sid m s).1 (World.invokeSlots (w.invoke sid m s).1 sid m rest) :=
      (Steps.invokeSlots (allow := permAny) sid m trivial rest (Steps.refl _)).frame
    have f1 : Frame permAny w (w.invoke sid m s).1 := (Prim.invoke (allow := permAny) w sid m s trivial).frame
    by_cases hs : slot = s
    · have herr1 := frest.err_none herr
      have v1 : Visited m [sid] w (w.invoke sid m s).1 := by
        cases World.invoke_rel w sid m s with
        | exhausted hds hw =>
          exfalso
          have : (w.invoke sid m s).1.err.isSome := by
            simp only [World.invoke, hds]
            exact World.fail'_err _ _
          rw [herr1] at this; cases this
        | ran d rest' x hds hx hw =>
          obtain ⟨logs, hl⟩ := hx.trace
          refine ⟨w.cbEvent sid m s :: (logs.map Event.log), ?_, ?_⟩
          · rw [hw]; unfold World.emit; dsimp only; rw [hl]; rfl
          · intro id hid
            rw [List.mem_singleton.mp hid]
            exact ⟨s, _, _, _, by unfold World.cbEvent; exact List.mem_cons_self⟩
      have := v1.trans (Visited.of_frame (g := m) frest)
      simpa using this
    · have hmem' : slot ∈ rest := by
        rcases List.mem_cons.mp hmem with h | h
        · exact absurd h hs
        · exact h
      have := (Visited.of_frame (g := m) f1).trans (World.invokeSlots_visited sid m rest slot hmem' _ herr)
      simpa using this

theorem slotOrder_mem_guard (inj : Nat) (m : Method) (hm : m = .entryGuard ∨ m = .exitGuard) : inj ∈ slotOrder inj m := by
  rcases hm with h | h <;> subst h <;> simp [slotOrder]

/-- a headed state's guard, answering without the script running dry, leaves its callback in the trace -/
theorem World.guardState_visited (w : World U) (sid inj : Nat) (headed : Bool) (m : Method)
    (hm : m = .entryGuard ∨ m = .exitGuard) (herr : (w.guardState sid inj headed m).1.err = none) :
    Visited m (if headed then [sid] else []) w (w.guardState sid inj headed m).1 := by
  unfold World.guardState at herr ⊢
  dsimp only at herr ⊢
  have fall : Frame permAny w (w.stateMethod sid inj headed m) :=
    ((Steps.refl w).stateMethod (allow := permAny) sid inj headed m trivial).frame
  cases headed with
  | false => exact Visited.of_frame fall
  | true =>
    simp only [if_true]
    unfold World.stateMethod at herr ⊢
    simp only [Bool.true_or, if_true] at herr ⊢
    have f0 : Frame permAny w { w.logRec (.method sid m) with origin := some sid } :=
      (((Steps.refl w).logRec (allow := permAny) _).scr (by scratch)).frame
    have v := World.invokeSlots_visited sid m (slotOrder inj m) inj (slotOrder_mem_guard inj m hm)
      { w.logRec (.method sid m) with origin := some sid } herr
    have v2 := (Visited.of_frame (g := m) f0).trans v
    obtain ⟨evs, t, p⟩ := v2
    exact ⟨evs, t, by simpa using p⟩

/-- the walk result `r`, obtained from `w`: when it is `true` and no contract violation was recorded, the
method `g` of every state in `ids` was invoked -/
def GV (g : Method) (ids : List Nat) (w : World U) (r : World U × Bool) : Prop :=
  r.2 = true → r.1.err = none → Visited g ids w r.1

theorem GV.guardState (w : World U) (sid inj : Nat) (hd : Bool) (m : Method) (hm : m = .entryGuard ∨ m = .exitGuard) :
    GV m (if hd then [sid] else []) w (w.guardState sid inj hd m) :=
  fun _ herr => World.guardState_visited w sid inj hd m hm herr

theorem GV.fail (g : Method) (ids : List Nat) (w x : World U) : GV g ids w (x, false) := fun h => nomatch h

theorem GV.refl (g : Method) (w : World U) : GV g [] w (w, true) := fun _ _ => ⟨[], rfl, fun _ h => nomatch h⟩

theorem GV.andThen {g : Method} {a b : List Nat} {w : World U} {r1 : World U × Bool} (h1 : GV g a w r1)
    (f : World U → World U × Bool) (h2 : ∀ w1, GV g b w1 (f w1)) (hE : ∀ w1, (f w1).1.err = none → w1.err = none) :
    GV g (a ++ b) w (if r1.2 = true then f r1.1 else (r1.1, false)) := by
  intro hr herr
  split at hr
  · next hb =>
    rw [if_pos hb] at herr ⊢
    exact (h1 hb (hE _ herr)).trans (h2 _ hr herr)
  · cases hr

theorem GV.both {g : Method} {a b : List Nat} {w : World U} {r1 : World U × Bool} (h1 : GV g a w r1)
    (f : World U → World U × Bool) (h2 : ∀ w1, GV g b w1 (f w1)) (hE : ∀ w1, (f w1).1.err = none → w1.err = none) :
    GV g (a ++ b) w ((f r1.1).1, r1.2 && (f r1.1).2) := by
  intro hr herr
  simp only [Bool.and_eq_true] at hr
  exact (h1 hr.1 (hE _ herr)).trans (h2 _ hr.2 herr)

theorem GV.region {g : Method} {ids : List Nat} {w : World U} (rid hid size : Nat) {r : World U × Bool}
    (h : GV g ids (w.pushRegion rid hid size).1 r) (sv : Nat × Nat × Nat) : GV g ids w (r.1.popRegion sv, r.2) := by
  intro hr herr
  obtain ⟨evs, t, p⟩ := h hr herr
  exact ⟨evs, t, p⟩

theorem GV.skipOr {g : Method} {ids : List Nat} {w : World U} (b : Bool) (f : World U → World U × Bool)
    (hf : GV g ids w (f w)) : GV g (if b then ids else []) w (if b = true then f w else (w, true)) := by
  cases b with
  | true => simpa using hf
  | false => simpa using GV.refl g w

theorem GV.mono {g : Method} {a b : List Nat} {w : World U} {r : World U × Bool} (h : GV g a w r)
    (hs : ∀ i ∈ b, i ∈ a) : GV g b w r := fun hr herr => (h hr herr).mono hs

/-! error-mark propagation through the sub-walks -/

theorem Node.entryGuard_err (n : Node) (w : World U) (h : (n.entryGuard w).1.err = none) : w.err = none :=
  (Node.entryGuard_steps n w w (Steps.refl _)).frame.err_none h
theorem Subs.entryGuardAt_err (s : Subs) (i : Nat) (w : World U) (h : (s.entryGuardAt i w).1.err = none) : w.err = none :=
  (Subs.entryGuardAt_steps s i w w (Steps.refl _)).frame.err_none h
theorem Subs.entryGuardAll_err (s : Subs) (w : World U) (h : (s.entryGuardAll w).1.err = none) : w.err = none :=
  (Subs.entryGuardAll_steps s w w (Steps.refl _)).frame.err_none h
theorem Node.exitGuard_err (n : Node) (w : World U) (h : (n.exitGuard w).1.err = none) : w.err = none :=
  (Node.exitGuard_steps n w w (Steps.refl _)).frame.err_none h
theorem Subs.exitGuardAll_err (s : Subs) (w : World U) (h : (s.exitGuardAll w).1.err = none) : w.err = none :=
  (Subs.exitGuardAll_steps s w w (Steps.refl _)).frame.err_none h
theorem World.guardState_err (w : World U) (sid inj : Nat) (hd : Bool) (m : Method)
    (h : (w.guardState sid inj hd m).1.err = none) : w.err = none :=
  ((Steps.refl w).guardState (allow := permAny) sid inj hd m trivial).frame.err_none h
theorem Subs.fwdEntryGuardBits_err (s : Subs) (w : World U) (h : (s.fwdEntryGuardBits w).1.err = none) : w.err = none :=
  (Subs.fwdEntryGuardBits_steps s w w (Steps.refl _)).frame.err_none h
theorem Subs.fwdEntryGuardAll_err (s : Subs) (w : World U) (h : (s.fwdEntryGuardAll w).1.err = none) : w.err = none :=
  (Subs.fwdEntryGuardAll_steps s w w (Steps.refl _)).frame.err_none h
theorem Subs.fwdExitGuardBits_err (s : Subs) (w : World U) (h : (s.fwdExitGuardBits w).1.err = none) : w.err = none :=
  (Subs.fwdExitGuardBits_steps s w w (Steps.refl _)).frame.err_none h
theorem Subs.fwdExitGuardAll_err (s : Subs) (w : World U) (h : (s.fwdExitGuardAll w).1.err = none) : w.err = none :=
  (Subs.fwdExitGuardAll_steps s w w (Steps.refl _)).frame.err_none h

mutual
theorem Node.entryGuard_gv : (n : Node) → (w : World U) → GV .entryGuard n.reqIds w (n.entryGuard w)
  | .leaf id inj, w => by
    simp only [Node.entryGuard, Node.reqIds]
    exact GV.guardState w id inj true .entryGuard (.inl rfl)
  | .compo id rid inj hd _ _ _ q _ s, w => by
    simp only [Node.entryGuard, Node.reqIds]
    split
    · exact GV.fail _ _ _ _
    · next qi =>
      exact GV.region rid id (1 + s.size)
        (GV.andThen (GV.guardState _ _ _ _ _ (.inl rfl)) _ (Subs.entryGuardAt_gv s qi) (Subs.entryGuardAt_err s qi)) _
  | .ortho id rid inj hd s, w => by
    simp only [Node.entryGuard, Node.reqIds]
    exact GV.region rid id (1 + s.size)
      (GV.andThen (GV.guardState _ _ _ _ _ (.inl rfl)) _ (Subs.entryGuardAll_gv s) (Subs.entryGuardAll_err s)) _
theorem Subs.entryGuardAt_gv : (s : Subs) → (i : Nat) → (w : World U) → GV .entryGuard (s.reqIdsAt i) w (s.entryGuardAt i w)
  | .nil, _, w => by simp only [Subs.entryGuardAt]; exact GV.fail _ _ _ _
  | .cons _ n _, 0, w => by simp only [Subs.entryGuardAt, Subs.reqIdsAt]; exact Node.entryGuard_gv n w
  | .cons _ _ r, i+1, w => by simp only [Subs.entryGuardAt, Subs.reqIdsAt]; exact Subs.entryGuardAt_gv r i w
theorem Subs.entryGuardAll_gv : (s : Subs) → (w : World U) → GV .entryGuard s.reqIdsAll w (s.entryGuardAll w)
  | .nil, w => by simp only [Subs.entryGuardAll, Subs.reqIdsAll]; exact GV.refl _ w
  | .cons _ n r, w => by
    simp only [Subs.entryGuardAll, Subs.reqIdsAll]
    exact GV.both (Node.entryGuard_gv n w) _ (Subs.entryGuardAll_gv r) (Subs.entryGuardAll_err r)
end

mutual
theorem Node.exitGuard_gv : (n : Node) → (w : World U) → GV .exitGuard n.actIds w (n.exitGuard w)
  | .leaf id inj, w => by
    simp only [Node.exitGuard, Node.actIds]
    exact GV.guardState w id inj true .exitGuard (.inr rfl)
  | .compo id rid inj hd _ a _ _ _ s, w => by
    simp only [Node.exitGuard, Node.actIds]
    split
    · exact GV.fail _ _ _ _
    · next ai =>
      refine GV.region rid id (1 + s.size) (GV.mono (GV.andThen (Subs.exitGuardAt_gv s ai _) _
        (fun w1 => GV.guardState w1 id inj hd .exitGuard (.inr rfl)) (fun w1 => World.guardState_err w1 _ _ _ _)) ?_) _
      intro i hi
      rcases List.mem_append.mp hi with h | h
      · exact List.mem_append_right _ h
      · exact List.mem_append_left _ h
  | .ortho id rid inj hd s, w => by
    simp only [Node.exitGuard, Node.actIds]
    refine GV.region rid id (1 + s.size) (GV.mono (GV.andThen (Subs.exitGuardAll_gv s _) _
      (fun w1 => GV.guardState w1 id inj hd .exitGuard (.inr rfl)) (fun w1 => World.guardState_err w1 _ _ _ _)) ?_) _
    intro i hi
    rcases List.mem_append.mp hi with h | h
    · exact List.mem_append_right _ h
    · exact List.mem_append_left _ h
theorem Subs.exitGuardAt_gv : (s : Subs) → (i : Nat) → (w : World U) → GV .exitGuard (s.actIdsAt i) w (s.exitGuardAt i w)
  | .nil, _, w => by simp only [Subs.exitGuardAt]; exact GV.fail _ _ _ _
  | .cons _ n _, 0, w => by simp only [Subs.exitGuardAt, Subs.actIdsAt]; exact Node.exitGuard_gv n w
  | .cons _ _ r, i+1, w => by simp only [Subs.exitGuardAt, Subs.actIdsAt]; exact Subs.exitGuardAt_gv r i w
theorem Subs.exitGuardAll_gv : (s : Subs) → (w : World U) → GV .exitGuard s.actIdsAll w (s.exitGuardAll w)
  | .nil, w => by simp only [Subs.exitGuardAll, Subs.actIdsAll]; exact GV.refl _ w
  | .cons _ n r, w => by
    simp only [Subs.exitGuardAll, Subs.actIdsAll]
    exact GV.both (Node.exitGuard_gv n w) _ (Subs.exitGuardAll_gv r) (Subs.exitGuardAll_err r)
end

mutual
theorem Node.fwdEntryGuard_gv : (n : Node) → (w : World U) → GV .entryGuard n.fwdEntryIds w (n.fwdEntryGuard w)
  | .leaf id inj, w => by simp only [Node.fwdEntryGuard, Node.fwdEntryIds]; exact GV.refl _ w
  | .compo id rid inj hd _ a _ q _ s, w => by
    simp only [Node.fwdEntryGuard, Node.fwdEntryIds]
    refine GV.region rid id (1 + s.size) ?_ _
    split
    · split
      · exact Subs.fwdEntryGuardAt_gv s _ _
      · exact GV.fail _ _ _ _
    · exact Subs.entryGuardAt_gv s _ _
  | .ortho id rid inj hd s, w => by
    simp only [Node.fwdEntryGuard, Node.fwdEntryIds]
    refine GV.region rid id (1 + s.size) ?_ _
    split
    · exact Subs.fwdEntryGuardBits_gv s _
    · exact Subs.fwdEntryGuardAll_gv s _
theorem Subs.fwdEntryGuardAt_gv : (s : Subs) → (i : Nat) → (w : World U) →
    GV .entryGuard (s.fwdEntryIdsAt i) w (s.fwdEntryGuardAt i w)
  | .nil, _, w => by simp only [Subs.fwdEntryGuardAt]; exact GV.fail _ _ _ _
  | .cons _ n _, 0, w => by simp only [Subs.fwdEntryGuardAt, Subs.fwdEntryIdsAt]; exact Node.fwdEntryGuard_gv n w
  | .cons _ _ r, i+1, w => by simp only [Subs.fwdEntryGuardAt, Subs.fwdEntryIdsAt]; exact Subs.fwdEntryGuardAt_gv r i w
theorem Subs.fwdEntryGuardBits_gv : (s : Subs) → (w : World U) → GV .entryGuard s.fwdEntryIdsBits w (s.fwdEntryGuardBits w)
  | .nil, w => by simp only [Subs.fwdEntryGuardBits, Subs.fwdEntryIdsBits]; exact GV.refl _ w
  | .cons b n r, w => by
    simp only [Subs.fwdEntryGuardBits, Subs.fwdEntryIdsBits]
    exact GV.both (GV.skipOr b _ (Node.fwdEntryGuard_gv n w)) _ (Subs.fwdEntryGuardBits_gv r) (Subs.fwdEntryGuardBits_err r)
theorem Subs.fwdEntryGuardAll_gv : (s : Subs) → (w : World U) → GV .entryGuard s.fwdEntryIdsAll w (s.fwdEntryGuardAll w)
  | .nil, w => by simp only [Subs.fwdEntryGuardAll, Subs.fwdEntryIdsAll]; exact GV.refl _ w
  | .cons _ n r, w => by
    simp only [Subs.fwdEntryGuardAll, Subs.fwdEntryIdsAll]
    exact GV.both (Node.fwdEntryGuard_gv n w) _ (Subs.fwdEntryGuardAll_gv r) (Subs.fwdEntryGuardAll_err r)
end

mutual
theorem Node.fwdExitGuard_gv : (n : Node) → (w : World U) → GV .exitGuard n.fwdExitIds w (n.fwdExitGuard w)
  | .leaf id inj, w => by simp only [Node.fwdExitGuard]; exact GV.fail _ _ _ _
  | .compo id rid inj hd _ a _ q _ s, w => by
    simp only [Node.fwdExitGuard, Node.fwdExitIds]
    split
    · exact GV.fail _ _ _ _
    · next ai =>
      refine GV.region rid id (1 + s.size) ?_ _
      split
      · exact Subs.fwdExitGuardAt_gv s _ _
      · exact Subs.exitGuardAt_gv s _ _
  | .ortho id rid inj hd s, w => by
    simp only [Node.fwdExitGuard, Node.fwdExitIds]
    refine GV.region rid id (1 + s.size) ?_ _
    split
    · exact Subs.fwdExitGuardBits_gv s _
    · exact Subs.fwdExitGuardAll_gv s _
theorem Subs.fwdExitGuardAt_gv : (s : Subs) → (i : Nat) → (w : World U) →
    GV .exitGuard (s.fwdExitIdsAt i) w (s.fwdExitGuardAt i w)
  | .nil, _, w => by simp only [Subs.fwdExitGuardAt]; exact GV.fail _ _ _ _
  | .cons _ n _, 0, w => by simp only [Subs.fwdExitGuardAt, Subs.fwdExitIdsAt]; exact Node.fwdExitGuard_gv n w
  | .cons _ _ r, i+1, w => by simp only [Subs.fwdExitGuardAt, Subs.fwdExitIdsAt]; exact Subs.fwdExitGuardAt_gv r i w
theorem Subs.fwdExitGuardBits_gv : (s : Subs) → (w : World U) → GV .exitGuard s.fwdExitIdsBits w (s.fwdExitGuardBits w)
  | .nil, w => by simp only [Subs.fwdExitGuardBits, Subs.fwdExitIdsBits]; exact GV.refl _ w
  | .cons b n r, w => by
    simp only [Subs.fwdExitGuardBits, Subs.fwdExitIdsBits]
    exact GV.both (GV.skipOr b _ (Node.fwdExitGuard_gv n w)) _ (Subs.fwdExitGuardBits_gv r) (Subs.fwdExitGuardBits_err r)
theorem Subs.fwdExitGuardAll_gv : (s : Subs) → (w : World U) → GV .exitGuard s.fwdExitIdsAll w (s.fwdExitGuardAll w)
  | .nil, w => by simp only [Subs.fwdExitGuardAll, Subs.fwdExitIdsAll]; exact GV.refl _ w
  | .cons _ n r, w => by
    simp only [Subs.fwdExitGuardAll, Subs.fwdExitIdsAll]
    exact GV.both (Node.fwdExitGuard_gv n w) _ (Subs.fwdExitGuardAll_gv r) (Subs.fwdExitGuardAll_err r)
end

end Hfsm
