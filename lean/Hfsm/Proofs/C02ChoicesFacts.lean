/-
C02 — two facts about the lists of answers of `Proofs/C02Choices.lean`.

 * `… _within`: on a tree numbered in DFS pre-order (`Node.IdsFrom`, what `Shape.toNode` produces and
   every operation keeps) the listed head ids are strictly increasing, so each region is listed at most
   once and the oracle read off the list (`Choices.toAns`) agrees with it (`agrees_toAns`);
 * `… _noFail`: if the model met no contract violation during the traversal (`err = none` afterwards)
   no listed resolution failed.
-/
import Hfsm.Proofs.C02Choices
import Hfsm.Proofs.Ids
import Hfsm.Proofs.WorldExt

set_option linter.unusedSimpArgs false
set_option linter.unusedVariables false
set_option linter.unusedSectionVars false

namespace Hfsm
open UtilArith
variable {U : Type} [UtilArith U]

/-- the oracle read off a list of answers (0 for regions that are not listed) -/
def Choices.toAns (l : Choices) : Nat → Nat := fun id => ((l.lookup id).getD none).getD 0

/-- no listed resolution failed -/
def NoFail (l : Choices) : Prop := ∀ p ∈ l, p.2.isSome = true

theorem noFail_nil : NoFail [] := fun _ h => absurd h List.not_mem_nil
theorem noFail_cons {x : Nat × Option Nat} {l : Choices} : NoFail (x :: l) ↔ x.2.isSome = true ∧ NoFail l := by
  simp [NoFail]
theorem noFail_append {l1 l2 : Choices} : NoFail (l1 ++ l2) ↔ NoFail l1 ∧ NoFail l2 := by
  simp [NoFail, or_imp, forall_and]

/-- head ids strictly increasing and inside `[lo, hi)` -/
def Choices.Within (l : Choices) (lo hi : Nat) : Prop :=
  l.Pairwise (fun a b => a.1 < b.1) ∧ ∀ p ∈ l, lo ≤ p.1 ∧ p.1 < hi

theorem within_nil (lo hi : Nat) : Choices.Within [] lo hi := ⟨List.Pairwise.nil, fun _ h => absurd h List.not_mem_nil⟩

theorem Choices.Within.mono {l : Choices} {lo hi lo' hi' : Nat} (h : l.Within lo hi) (h1 : lo' ≤ lo) (h2 : hi ≤ hi') :
    l.Within lo' hi' :=
  ⟨h.1, fun p hp => ⟨Nat.le_trans h1 (h.2 p hp).1, Nat.lt_of_lt_of_le (h.2 p hp).2 h2⟩⟩

theorem Choices.Within.cons {l : Choices} {lo hi id : Nat} (x : Option Nat) (h : l.Within lo hi) (h1 : id < lo)
    (h2 : id < hi) : Choices.Within ((id, x) :: l) id hi := by
  refine ⟨List.Pairwise.cons (fun p hp => Nat.lt_of_lt_of_le h1 (h.2 p hp).1) h.1, ?_⟩
  intro p hp
  rcases List.mem_cons.1 hp with rfl | hp
  · exact ⟨Nat.le_refl _, h2⟩
  · exact ⟨Nat.le_of_lt (Nat.lt_of_lt_of_le h1 (h.2 p hp).1), (h.2 p hp).2⟩

theorem Choices.Within.append {l1 l2 : Choices} {lo mid hi : Nat} (h1 : l1.Within lo mid) (h2 : l2.Within mid hi)
    (hlm : lo ≤ mid) (hmh : mid ≤ hi) : Choices.Within (l1 ++ l2) lo hi := by
  refine ⟨List.pairwise_append.2 ⟨h1.1, h2.1, fun a ha b hb => Nat.lt_of_lt_of_le (h1.2 a ha).2 (h2.2 b hb).1⟩, ?_⟩
  intro p hp
  rcases List.mem_append.1 hp with hp | hp
  · exact ⟨(h1.2 p hp).1, Nat.lt_of_lt_of_le (h1.2 p hp).2 hmh⟩
  · exact ⟨Nat.le_trans hlm (h2.2 p hp).1, (h2.2 p hp).2⟩

theorem C02.lookup_of_within : (l : Choices) → (lo hi : Nat) → l.Within lo hi → ∀ p ∈ l, l.lookup p.1 = some p.2
  | [], _, _, _, p, h => absurd h List.not_mem_nil
  | x :: l, lo, hi, hw, p, h => by
    obtain ⟨hpw, hr⟩ := hw
    rw [List.pairwise_cons] at hpw
    rcases List.mem_cons.1 h with rfl | h'
    · obtain ⟨a, b⟩ := p
      simp [List.lookup]
    · have hlt := hpw.1 p h'
      obtain ⟨a, b⟩ := x
      have hne : (p.1 == a) = false := by
        simp only [beq_eq_false_iff_ne, ne_eq]
        intro e; simp only [e] at hlt; omega
      simp only [List.lookup, hne]
      exact C02.lookup_of_within l lo hi ⟨hpw.2, fun q hq => hr q (List.mem_cons_of_mem _ hq)⟩ p h'

/-- on a numbered tree the oracle read off the list agrees with the list, provided no listed resolution failed -/
theorem agrees_toAns (l : Choices) (lo hi : Nat) (hw : l.Within lo hi) (hok : NoFail l) : Agrees l.toAns l := by
  intro p hp
  have h1 := C02.lookup_of_within l lo hi hw p hp
  have h2 := hok p hp
  unfold Choices.toAns
  rw [h1]
  cases hv : p.2 with
  | none => rw [hv] at h2; cases h2
  | some v => rfl

/-! ### head ids are listed in increasing order -/

mutual
theorem Node.utilizeCh_within : (n : Node) → (σ : Sig U) → (k : Nat) → n.IdsFrom k →
    (n.utilizeCh σ).Within k (k + n.size)
  | .leaf .., σ, k, _ => by simp only [Node.utilizeCh]; exact within_nil _ _
  | .compo id rid inj h st a r q m s, σ, k, hi => by
    simp only [Node.IdsFrom] at hi
    obtain ⟨rfl, hs⟩ := hi
    simp only [Node.utilizeCh, Node.size]
    exact ((Subs.utilizeChAll_within s _ _ hs).mono (Nat.le_refl _) (by omega)).cons _ (by omega) (by omega)
  | .ortho id rid inj h s, σ, k, hi => by
    simp only [Node.IdsFrom] at hi
    obtain ⟨rfl, hs⟩ := hi
    simp only [Node.utilizeCh, Node.size]
    exact (Subs.utilizeChAll_within s _ _ hs).mono (by omega) (by omega)
theorem Subs.utilizeChAll_within : (s : Subs) → (σ : Sig U) → (k : Nat) → s.IdsFrom k →
    (s.utilizeChAll σ).Within k (k + s.size)
  | .nil, σ, k, _ => by simp only [Subs.utilizeChAll]; exact within_nil _ _
  | .cons b n r, σ, k, hi => by
    simp only [Subs.IdsFrom] at hi
    simp only [Subs.utilizeChAll, Subs.size]
    exact (Node.utilizeCh_within n σ k hi.1).append
      ((Subs.utilizeChAll_within r _ _ hi.2).mono (Nat.le_refl _) (by omega)) (by omega) (by omega)
end

mutual
theorem Node.randomizeCh_within : (n : Node) → (σ : Sig U) → (k : Nat) → n.IdsFrom k →
    (n.randomizeCh σ).Within k (k + n.size)
  | .leaf .., σ, k, _ => by simp only [Node.randomizeCh]; exact within_nil _ _
  | .compo id rid inj h st a r q m s, σ, k, hi => by
    simp only [Node.IdsFrom] at hi
    obtain ⟨rfl, hs⟩ := hi
    simp only [Node.randomizeCh, Node.size]
    exact ((Subs.randomizeChTop_within s _ _ _ _ hs).mono (Nat.le_refl _) (by omega)).cons _ (by omega) (by omega)
  | .ortho id rid inj h s, σ, k, hi => by
    simp only [Node.IdsFrom] at hi
    obtain ⟨rfl, hs⟩ := hi
    simp only [Node.randomizeCh, Node.size]
    exact (Subs.randomizeChAll_within s _ _ hs).mono (by omega) (by omega)
theorem Subs.randomizeChAll_within : (s : Subs) → (σ : Sig U) → (k : Nat) → s.IdsFrom k →
    (s.randomizeChAll σ).Within k (k + s.size)
  | .nil, σ, k, _ => by simp only [Subs.randomizeChAll]; exact within_nil _ _
  | .cons b n r, σ, k, hi => by
    simp only [Subs.IdsFrom] at hi
    simp only [Subs.randomizeChAll, Subs.size]
    exact (Node.randomizeCh_within n σ k hi.1).append
      ((Subs.randomizeChAll_within r _ _ hi.2).mono (Nat.le_refl _) (by omega)) (by omega) (by omega)
theorem Subs.randomizeChTop_within : (s : Subs) → (rks : List Int) → (top : Int) → (σ : Sig U) → (k : Nat) →
    s.IdsFrom k → (s.randomizeChTop rks top σ).Within k (k + s.size)
  | .nil, _, _, σ, k, _ => by simp only [Subs.randomizeChTop]; exact within_nil _ _
  | .cons b n r, rks, top, σ, k, hi => by
    simp only [Subs.IdsFrom] at hi
    simp only [Subs.randomizeChTop, Subs.size]
    split
    · exact (Node.randomizeCh_within n σ k hi.1).append
        ((Subs.randomizeChTop_within r _ _ _ _ hi.2).mono (Nat.le_refl _) (by omega)) (by omega) (by omega)
    · exact (Subs.randomizeChTop_within r _ _ _ _ hi.2).mono (by omega) (by omega)
end

mutual
theorem Node.changeCh_within : (n : Node) → (σ : Sig U) → (k : Nat) → n.IdsFrom k →
    (n.changeCh σ).Within k (k + n.size)
  | .leaf .., σ, k, _ => by simp only [Node.changeCh]; exact within_nil _ _
  | .compo id rid inj h .composite a r q m s, σ, k, hi => by
    simp only [Node.IdsFrom] at hi
    obtain ⟨rfl, hs⟩ := hi
    simp only [Node.changeCh, Node.size]
    exact (Subs.changeChAt_within s _ _ _ hs).mono (by omega) (by omega)
  | .compo id rid inj h .resumable a r q m s, σ, k, hi => by
    simp only [Node.IdsFrom] at hi
    obtain ⟨rfl, hs⟩ := hi
    simp only [Node.changeCh, Node.size]
    exact (Subs.changeChAt_within s _ _ _ hs).mono (by omega) (by omega)
  | .compo id rid inj h .selectable a r q m s, σ, k, hi => by
    simp only [Node.IdsFrom] at hi
    obtain ⟨rfl, hs⟩ := hi
    simp only [Node.changeCh, Node.size]
    exact ((Subs.changeChAt_within s _ _ _ hs).mono (Nat.le_refl _) (by omega)).cons _ (by omega) (by omega)
  | .compo id rid inj h .utilitarian a r q m s, σ, k, hi => by
    simp only [Node.IdsFrom] at hi
    obtain ⟨rfl, hs⟩ := hi
    simp only [Node.changeCh, Node.size]
    exact ((Subs.changeChAll_within s _ _ hs).mono (Nat.le_refl _) (by omega)).cons _ (by omega) (by omega)
  | .compo id rid inj h .random a r q m s, σ, k, hi => by
    simp only [Node.IdsFrom] at hi
    obtain ⟨rfl, hs⟩ := hi
    simp only [Node.changeCh, Node.size]
    exact ((Subs.changeChTop_within s _ _ _ _ hs).mono (Nat.le_refl _) (by omega)).cons _ (by omega) (by omega)
  | .ortho id rid inj h s, σ, k, hi => by
    simp only [Node.IdsFrom] at hi
    obtain ⟨rfl, hs⟩ := hi
    simp only [Node.changeCh, Node.size]
    exact (Subs.changeChAll_within s _ _ hs).mono (by omega) (by omega)
theorem Subs.changeChAt_within : (s : Subs) → (i : Nat) → (σ : Sig U) → (k : Nat) → s.IdsFrom k →
    (s.changeChAt i σ).Within k (k + s.size)
  | .nil, _, σ, k, _ => by simp only [Subs.changeChAt]; exact within_nil _ _
  | .cons b n r, 0, σ, k, hi => by
    simp only [Subs.IdsFrom] at hi
    simp only [Subs.changeChAt, Subs.size]
    exact (Node.changeCh_within n σ k hi.1).mono (Nat.le_refl _) (by omega)
  | .cons b n r, i+1, σ, k, hi => by
    simp only [Subs.IdsFrom] at hi
    simp only [Subs.changeChAt, Subs.size]
    exact (Subs.changeChAt_within r i σ _ hi.2).mono (by omega) (by omega)
theorem Subs.changeChAll_within : (s : Subs) → (σ : Sig U) → (k : Nat) → s.IdsFrom k →
    (s.changeChAll σ).Within k (k + s.size)
  | .nil, σ, k, _ => by simp only [Subs.changeChAll]; exact within_nil _ _
  | .cons b n r, σ, k, hi => by
    simp only [Subs.IdsFrom] at hi
    simp only [Subs.changeChAll, Subs.size]
    exact (Node.changeCh_within n σ k hi.1).append
      ((Subs.changeChAll_within r _ _ hi.2).mono (Nat.le_refl _) (by omega)) (by omega) (by omega)
theorem Subs.changeChTop_within : (s : Subs) → (rks : List Int) → (top : Int) → (σ : Sig U) → (k : Nat) →
    s.IdsFrom k → (s.changeChTop rks top σ).Within k (k + s.size)
  | .nil, _, _, σ, k, _ => by simp only [Subs.changeChTop]; exact within_nil _ _
  | .cons b n r, rks, top, σ, k, hi => by
    simp only [Subs.IdsFrom] at hi
    simp only [Subs.changeChTop, Subs.size]
    split
    · exact (Node.changeCh_within n σ k hi.1).append
        ((Subs.changeChTop_within r _ _ _ _ hi.2).mono (Nat.le_refl _) (by omega)) (by omega) (by omega)
    · exact (Subs.changeChTop_within r _ _ _ _ hi.2).mono (by omega) (by omega)
end

mutual
theorem Node.requestCh_within : (n : Node) → (kd : Kind) → (σ : Sig U) → (k : Nat) → n.IdsFrom k →
    (n.requestCh kd σ).Within k (k + n.size)
  | .leaf .., kd, σ, k, _ => by simp only [Node.requestCh]; exact within_nil _ _
  | .ortho id rid inj h s, kd, σ, k, hi => by
    simp only [Node.IdsFrom] at hi
    obtain ⟨rfl, hs⟩ := hi
    simp only [Node.requestCh, Node.size]
    exact (Subs.requestChAll_within s kd _ _ hs).mono (by omega) (by omega)
  | .compo id rid inj h st a r q m s, kd, σ, k, hi => by
    simp only [Node.IdsFrom] at hi
    obtain ⟨rfl, hs⟩ := hi
    have hone : ∀ x : Option Nat, Choices.Within [(id, x)] id (id + (1 + s.size)) :=
      fun x => (within_nil (id + 1) (id + (1 + s.size))).cons x (by omega) (by omega)
    simp only [Node.requestCh, Node.size]
    cases effectiveKind st kd with
    | restart => exact (Subs.requestChAt_within s _ kd _ _ hs).mono (by omega) (by omega)
    | resume => exact (Subs.requestChAt_within s _ kd _ _ hs).mono (by omega) (by omega)
    | select =>
      simp only
      cases (σ.headSel h).1 with
      | none => exact hone _
      | some i =>
        simp only
        split
        · exact ((Subs.requestChAt_within s _ kd _ _ hs).mono (Nat.le_refl _) (by omega)).cons _ (by omega) (by omega)
        · exact hone _
    | utilize =>
      simp only
      split
      · exact ((Subs.changeChAll_within s _ _ hs).mono (Nat.le_refl _) (by omega)).cons _ (by omega) (by omega)
      · exact ((Subs.utilizeChAll_within s _ _ hs).mono (Nat.le_refl _) (by omega)).cons _ (by omega) (by omega)
    | randomize =>
      simp only
      split
      · exact ((Subs.changeChTop_within s _ _ _ _ hs).mono (Nat.le_refl _) (by omega)).cons _ (by omega) (by omega)
      · exact ((Subs.randomizeChTop_within s _ _ _ _ hs).mono (Nat.le_refl _) (by omega)).cons _ (by omega) (by omega)
    | change => exact hone _
    | schedule => exact hone _
theorem Subs.requestChAt_within : (s : Subs) → (i : Nat) → (kd : Kind) → (σ : Sig U) → (k : Nat) → s.IdsFrom k →
    (s.requestChAt i kd σ).Within k (k + s.size)
  | .nil, _, kd, σ, k, _ => by simp only [Subs.requestChAt]; exact within_nil _ _
  | .cons b n r, 0, kd, σ, k, hi => by
    simp only [Subs.IdsFrom] at hi
    simp only [Subs.requestChAt, Subs.size]
    exact (Node.requestCh_within n kd σ k hi.1).mono (Nat.le_refl _) (by omega)
  | .cons b n r, i+1, kd, σ, k, hi => by
    simp only [Subs.IdsFrom] at hi
    simp only [Subs.requestChAt, Subs.size]
    exact (Subs.requestChAt_within r i kd σ _ hi.2).mono (by omega) (by omega)
theorem Subs.requestChAll_within : (s : Subs) → (kd : Kind) → (σ : Sig U) → (k : Nat) → s.IdsFrom k →
    (s.requestChAll kd σ).Within k (k + s.size)
  | .nil, kd, σ, k, _ => by simp only [Subs.requestChAll]; exact within_nil _ _
  | .cons b n r, kd, σ, k, hi => by
    simp only [Subs.IdsFrom] at hi
    simp only [Subs.requestChAll, Subs.size]
    exact (Node.requestCh_within n kd σ k hi.1).append
      ((Subs.requestChAll_within r kd _ _ hi.2).mono (Nat.le_refl _) (by omega)) (by omega) (by omega)
end

mutual
theorem Node.fwdRequestCh_within : (n : Node) → (kd : Kind) → (σ : Sig U) → (k : Nat) → n.IdsFrom k →
    (n.fwdRequestCh kd σ).Within k (k + n.size)
  | .leaf .., kd, σ, k, _ => by simp only [Node.fwdRequestCh]; exact within_nil _ _
  | .compo id rid inj h st a r (some qi) m s, kd, σ, k, hi => by
    simp only [Node.IdsFrom] at hi
    obtain ⟨rfl, hs⟩ := hi
    simp only [Node.fwdRequestCh, Node.size]
    exact (Subs.fwdRequestChAt_within s qi kd _ _ hs).mono (by omega) (by omega)
  | .compo id rid inj h st a r none m s, kd, σ, k, hi => by
    simp only [Node.fwdRequestCh]
    exact Node.requestCh_within _ kd σ k hi
  | .ortho id rid inj h s, kd, σ, k, hi => by
    simp only [Node.fwdRequestCh]
    split
    · simp only [Node.IdsFrom] at hi
      obtain ⟨rfl, hs⟩ := hi
      simp only [Node.size]
      exact (Subs.fwdRequestChAll_within s kd _ _ hs).mono (by omega) (by omega)
    · exact Node.requestCh_within _ kd σ k hi
theorem Subs.fwdRequestChAt_within : (s : Subs) → (i : Nat) → (kd : Kind) → (σ : Sig U) → (k : Nat) → s.IdsFrom k →
    (s.fwdRequestChAt i kd σ).Within k (k + s.size)
  | .nil, _, kd, σ, k, _ => by simp only [Subs.fwdRequestChAt]; exact within_nil _ _
  | .cons b n r, 0, kd, σ, k, hi => by
    simp only [Subs.IdsFrom] at hi
    simp only [Subs.fwdRequestChAt, Subs.size]
    exact (Node.fwdRequestCh_within n kd σ k hi.1).mono (Nat.le_refl _) (by omega)
  | .cons b n r, i+1, kd, σ, k, hi => by
    simp only [Subs.IdsFrom] at hi
    simp only [Subs.fwdRequestChAt, Subs.size]
    exact (Subs.fwdRequestChAt_within r i kd σ _ hi.2).mono (by omega) (by omega)
theorem Subs.fwdRequestChAll_within : (s : Subs) → (kd : Kind) → (σ : Sig U) → (k : Nat) → s.IdsFrom k →
    (s.fwdRequestChAll kd σ).Within k (k + s.size)
  | .nil, kd, σ, k, _ => by simp only [Subs.fwdRequestChAll]; exact within_nil _ _
  | .cons b n r, kd, σ, k, hi => by
    simp only [Subs.IdsFrom] at hi
    simp only [Subs.fwdRequestChAll, Subs.size]
    exact (Node.fwdRequestCh_within n kd σ k hi.1).append
      ((Subs.fwdRequestChAll_within r kd _ _ hi.2).mono (Nat.le_refl _) (by omega)) (by omega) (by omega)
end

mutual
theorem Node.fwdActiveCh_within : (n : Node) → (kd : Kind) → (σ : Sig U) → (k : Nat) → n.IdsFrom k →
    (n.fwdActiveCh kd σ).Within k (k + n.size)
  | .leaf .., kd, σ, k, _ => by simp only [Node.fwdActiveCh]; exact within_nil _ _
  | .compo id rid inj h st a r (some qi) m s, kd, σ, k, hi => by
    simp only [Node.IdsFrom] at hi
    obtain ⟨rfl, hs⟩ := hi
    simp only [Node.fwdActiveCh, Node.size]
    exact (Subs.fwdRequestChAt_within s qi kd _ _ hs).mono (by omega) (by omega)
  | .compo id rid inj h st (some ai) r none m s, kd, σ, k, hi => by
    simp only [Node.IdsFrom] at hi
    obtain ⟨rfl, hs⟩ := hi
    simp only [Node.fwdActiveCh, Node.size]
    exact (Subs.fwdActiveChAt_within s ai kd _ _ hs).mono (by omega) (by omega)
  | .compo id rid inj h st none r none m s, kd, σ, k, hi => by
    simp only [Node.fwdActiveCh]; exact within_nil _ _
  | .ortho id rid inj h s, kd, σ, k, hi => by
    simp only [Node.IdsFrom] at hi
    obtain ⟨rfl, hs⟩ := hi
    simp only [Node.fwdActiveCh, Node.size]
    exact (Subs.fwdActiveChBits_within s kd _ _ hs).mono (by omega) (by omega)
theorem Subs.fwdActiveChAt_within : (s : Subs) → (i : Nat) → (kd : Kind) → (σ : Sig U) → (k : Nat) → s.IdsFrom k →
    (s.fwdActiveChAt i kd σ).Within k (k + s.size)
  | .nil, _, kd, σ, k, _ => by simp only [Subs.fwdActiveChAt]; exact within_nil _ _
  | .cons b n r, 0, kd, σ, k, hi => by
    simp only [Subs.IdsFrom] at hi
    simp only [Subs.fwdActiveChAt, Subs.size]
    exact (Node.fwdActiveCh_within n kd σ k hi.1).mono (Nat.le_refl _) (by omega)
  | .cons b n r, i+1, kd, σ, k, hi => by
    simp only [Subs.IdsFrom] at hi
    simp only [Subs.fwdActiveChAt, Subs.size]
    exact (Subs.fwdActiveChAt_within r i kd σ _ hi.2).mono (by omega) (by omega)
theorem Subs.fwdActiveChBits_within : (s : Subs) → (kd : Kind) → (σ : Sig U) → (k : Nat) → s.IdsFrom k →
    (s.fwdActiveChBits kd σ).Within k (k + s.size)
  | .nil, kd, σ, k, _ => by simp only [Subs.fwdActiveChBits]; exact within_nil _ _
  | .cons b n r, kd, σ, k, hi => by
    simp only [Subs.IdsFrom] at hi
    simp only [Subs.fwdActiveChBits, Subs.size]
    split
    · exact (Node.fwdActiveCh_within n kd σ k hi.1).append
        ((Subs.fwdActiveChBits_within r kd _ _ hi.2).mono (Nat.le_refl _) (by omega)) (by omega) (by omega)
    · exact (Subs.fwdActiveChBits_within r kd _ _ hi.2).mono (by omega) (by omega)
end

/-! ### without a contract violation no listed resolution failed -/

theorem C02.isSome_map {α β : Type} (o : Option α) (f : α → β) : (o.map f).isSome = o.isSome := by
  cases o <;> rfl

mutual
theorem Node.reportUtilize_noFail : (n : Node) → (w : World U) → (σ : Sig U) → Corr w σ →
    (n.reportUtilize w).2.1.err = none → NoFail (n.utilizeCh σ)
  | .leaf id inj, w, σ, _ => by intro _; simp only [Node.utilizeCh]; exact noFail_nil
  | .compo id rid inj h st a r q m s, w, σ, hc => by
    have h1 := headUtility_corr hc id inj h
    have h2 := Subs.reportUtilizeAll_corr s _ _ h1.2
    have ih := Subs.reportUtilizeAll_noFail s _ _ h1.2
    simp only [Node.utilizeCh, noFail_cons, C02.isSome_map]
    rw [← h2.1]
    simp only [Node.reportUtilize]
    split
    · next i u heq =>
      intro he
      exact ⟨by rw [heq]; rfl, ih (by simpa using he)⟩
    · intro he; exact absurd he (World.fail'_errX _ _)
  | .ortho id rid inj h s, w, σ, hc => by
    have h1 := headUtility_corr hc id inj h
    simp only [Node.utilizeCh, Node.reportUtilize]
    intro he
    exact Subs.reportUtilizeAll_noFail s _ _ h1.2 (by simpa using he)
theorem Subs.reportUtilizeAll_noFail : (s : Subs) → (w : World U) → (σ : Sig U) → Corr w σ →
    (s.reportUtilizeAll w).2.1.err = none → NoFail (s.utilizeChAll σ)
  | .nil, w, σ, _ => by intro _; simp only [Subs.utilizeChAll]; exact noFail_nil
  | .cons b n r, w, σ, hc => by
    simp only [Subs.reportUtilizeAll, Subs.utilizeChAll, noFail_append]
    intro he
    exact ⟨Node.reportUtilize_noFail n w σ hc ((Subs.reportUtilizeAll_ext r _).err he),
      Subs.reportUtilizeAll_noFail r _ _ (Node.reportUtilize_corr n w σ hc).2 he⟩
end

mutual
theorem Node.reportRandomize_noFail : (n : Node) → (w : World U) → (σ : Sig U) → Corr w σ →
    (n.reportRandomize w).2.1.err = none → NoFail (n.randomizeCh σ)
  | .leaf id inj, w, σ, _ => by intro _; simp only [Node.randomizeCh]; exact noFail_nil
  | .compo id rid inj h st a r q m s, w, σ, hc => by
    have h1 := headUtilityWrap_corr hc id inj h
    obtain ⟨hd, hrk, hc2⟩ := C02.Subs.draw_randomize s _ _ h1.2 id
    simp only [Node.randomizeCh, noFail_cons]
    rw [← hd, ← hrk]
    simp only [Node.reportRandomize]
    intro he
    obtain ⟨j, hj⟩ := World.resolveRandom_isSome _ _ _ _ _ _ he
    refine ⟨by rw [hj]; rfl, ?_⟩
    exact Subs.reportRandomizeTop_noFail s _ _ _ _ hc2 ((World.resolveRandom_ext _ _ _ _ _ _).err he)
  | .ortho id rid inj h s, w, σ, hc => by
    have h1 := headUtilityWrap_corr hc id inj h
    simp only [Node.randomizeCh, Node.reportRandomize]
    intro he
    exact Subs.reportRandomizeAll_noFail s _ _ h1.2 (by simpa using he)
theorem Subs.reportRandomizeAll_noFail : (s : Subs) → (w : World U) → (σ : Sig U) → Corr w σ →
    (s.reportRandomizeAll w).2.1.err = none → NoFail (s.randomizeChAll σ)
  | .nil, w, σ, _ => by intro _; simp only [Subs.randomizeChAll]; exact noFail_nil
  | .cons b n r, w, σ, hc => by
    simp only [Subs.reportRandomizeAll, Subs.randomizeChAll, noFail_append]
    intro he
    exact ⟨Node.reportRandomize_noFail n w σ hc ((Subs.reportRandomizeAll_ext r _).err he),
      Subs.reportRandomizeAll_noFail r _ _ (Node.reportRandomize_corr n w σ hc).2 he⟩
theorem Subs.reportRandomizeTop_noFail : (s : Subs) → (rks : List Int) → (top : Int) → (w : World U) → (σ : Sig U) →
    Corr w σ → (s.reportRandomizeTop rks top w).2.1.err = none → NoFail (s.randomizeChTop rks top σ)
  | .nil, _, _, w, σ, _ => by intro _; simp only [Subs.randomizeChTop]; exact noFail_nil
  | .cons b n r, rks, top, w, σ, hc => by
    simp only [Subs.reportRandomizeTop, Subs.randomizeChTop]
    by_cases hr : rks.headD 0 = top
    · simp only [hr, ↓reduceIte, noFail_append]
      intro he
      exact ⟨Node.reportRandomize_noFail n w σ hc ((Subs.reportRandomizeTop_ext r _ _ _).err he),
        Subs.reportRandomizeTop_noFail r _ _ _ _ (Node.reportRandomize_corr n w σ hc).2 he⟩
    · simp only [hr, ↓reduceIte]
      intro he
      exact Subs.reportRandomizeTop_noFail r _ _ _ _ hc he
end

mutual
theorem Node.reportChange_noFail : (n : Node) → (w : World U) → (σ : Sig U) → Corr w σ →
    (n.reportChange w).2.1.err = none → NoFail (n.changeCh σ)
  | .leaf id inj, w, σ, _ => by intro _; simp only [Node.changeCh]; exact noFail_nil
  | .compo id rid inj h .composite a r q m s, w, σ, hc => by
    have h1 := headUtility_corr hc id inj h
    simp only [Node.changeCh, Node.reportChange]
    intro he
    exact Subs.reportChangeAt_noFail s _ _ _ h1.2 he
  | .compo id rid inj h .resumable a r q m s, w, σ, hc => by
    have h1 := headUtility_corr hc id inj h
    simp only [Node.changeCh, Node.reportChange]
    intro he
    exact Subs.reportChangeAt_noFail s _ _ _ h1.2 he
  | .compo id rid inj h .selectable a r q m s, w, σ, hc => by
    have h1 := headUtility_corr hc id inj h
    simp only [Node.changeCh, Node.reportChange, noFail_cons]
    intro he
    exact ⟨rfl, Subs.reportChangeAt_noFail s _ _ _ h1.2 he⟩
  | .compo id rid inj h .utilitarian a r q m s, w, σ, hc => by
    have h1 := headUtility_corr hc id inj h
    have h2 := Subs.reportChangeAll_corr s _ _ h1.2
    have ih := Subs.reportChangeAll_noFail s _ _ h1.2
    simp only [Node.changeCh, noFail_cons, C02.isSome_map]
    rw [← h2.1]
    simp only [Node.reportChange]
    split
    · next i u heq =>
      intro he
      exact ⟨by rw [heq]; rfl, ih (by simpa using he)⟩
    · intro he; exact absurd he (World.fail'_errX _ _)
  | .compo id rid inj h .random a r q m s, w, σ, hc => by
    have h1 := headUtility_corr hc id inj h
    obtain ⟨hd, hrk, hc2⟩ := C02.Subs.draw_change s _ _ h1.2 id
    simp only [Node.changeCh, noFail_cons]
    rw [← hd, ← hrk]
    simp only [Node.reportChange]
    intro he
    obtain ⟨j, hj⟩ := World.resolveRandom_isSome _ _ _ _ _ _ he
    refine ⟨by rw [hj]; rfl, ?_⟩
    exact Subs.reportChangeTop_noFail s _ _ _ _ hc2 ((World.resolveRandom_ext _ _ _ _ _ _).err he)
  | .ortho id rid inj h s, w, σ, hc => by
    have h1 := headUtility_corr hc id inj h
    simp only [Node.changeCh, Node.reportChange]
    intro he
    exact Subs.reportChangeAll_noFail s _ _ h1.2 (by simpa using he)
theorem Subs.reportChangeAt_noFail : (s : Subs) → (i : Nat) → (w : World U) → (σ : Sig U) → Corr w σ →
    (s.reportChangeAt i w).2.1.err = none → NoFail (s.changeChAt i σ)
  | .nil, _, w, σ, _ => by intro _; simp only [Subs.changeChAt]; exact noFail_nil
  | .cons b n r, 0, w, σ, hc => by
    simp only [Subs.reportChangeAt, Subs.changeChAt]; exact Node.reportChange_noFail n w σ hc
  | .cons b n r, i+1, w, σ, hc => by
    simp only [Subs.reportChangeAt, Subs.changeChAt]; exact Subs.reportChangeAt_noFail r i w σ hc
theorem Subs.reportChangeAll_noFail : (s : Subs) → (w : World U) → (σ : Sig U) → Corr w σ →
    (s.reportChangeAll w).2.1.err = none → NoFail (s.changeChAll σ)
  | .nil, w, σ, _ => by intro _; simp only [Subs.changeChAll]; exact noFail_nil
  | .cons b n r, w, σ, hc => by
    simp only [Subs.reportChangeAll, Subs.changeChAll, noFail_append]
    intro he
    exact ⟨Node.reportChange_noFail n w σ hc ((Subs.reportChangeAll_ext r _).err he),
      Subs.reportChangeAll_noFail r _ _ (Node.reportChange_corr n w σ hc).2 he⟩
theorem Subs.reportChangeTop_noFail : (s : Subs) → (rks : List Int) → (top : Int) → (w : World U) → (σ : Sig U) →
    Corr w σ → (s.reportChangeTop rks top w).2.1.err = none → NoFail (s.changeChTop rks top σ)
  | .nil, _, _, w, σ, _ => by intro _; simp only [Subs.changeChTop]; exact noFail_nil
  | .cons b n r, rks, top, w, σ, hc => by
    simp only [Subs.reportChangeTop, Subs.changeChTop]
    by_cases hr : rks.headD 0 = top
    · simp only [hr, ↓reduceIte, noFail_append]
      intro he
      exact ⟨Node.reportChange_noFail n w σ hc ((Subs.reportChangeTop_ext r _ _ _).err he),
        Subs.reportChangeTop_noFail r _ _ _ _ (Node.reportChange_corr n w σ hc).2 he⟩
    · simp only [hr, ↓reduceIte]
      intro he
      exact Subs.reportChangeTop_noFail r _ _ _ _ hc he
end

mutual
theorem Node.request_noFail : (n : Node) → (rq : Req) → (w : World U) → (σ : Sig U) → Corr w σ →
    (n.request rq w).2.err = none → NoFail (n.requestCh rq.kind σ)
  | .leaf id inj, rq, w, σ, _ => by intro _; simp only [Node.requestCh]; exact noFail_nil
  | .ortho id rid inj h s, rq, w, σ, hc => by
    simp only [Node.request, Node.requestCh]
    exact Subs.requestAll_noFail s rq _ σ (by simpa using hc)
  | .compo id rid inj h st a r q m s, ⟨k, idx⟩, w, σ, hc => by
    have hc0 : Corr (w.pin id idx) σ := by simpa using hc
    simp only [Node.request, Node.requestCh]
    generalize w.pin id idx = w0 at hc0 ⊢
    cases hk : effectiveKind st k with
    | restart => exact Subs.requestAt_noFail s 0 ⟨k, idx⟩ w0 σ hc0
    | resume => exact Subs.requestAt_noFail s _ ⟨k, idx⟩ w0 σ hc0
    | select =>
      simp only
      have h1 := headSelect_corr hc0 id inj h
      rw [← h1.1]
      cases hsel : (w0.headSelect id inj h).2 with
      | none => simp only; intro he; exact absurd he (World.fail'_errX _ _)
      | some i =>
        simp only
        by_cases hi : i < s.len
        · simp only [hi, ↓reduceIte, noFail_cons]
          intro he
          exact ⟨rfl, Subs.requestAt_noFail s _ ⟨k, idx⟩ _ _ (by simpa using h1.2) he⟩
        · simp only [hi, ↓reduceIte]
          intro he; exact absurd he (World.fail'_errX _ _)
    | utilize =>
      simp only
      by_cases hch : k = .change
      · subst hch
        have h2 := Subs.reportChangeAll_corr s w0 σ hc0
        simp only [↓reduceIte, noFail_cons, C02.isSome_map]
        rw [← h2.1]
        split
        · next i u heq =>
          intro he
          exact ⟨by rw [heq]; rfl, Subs.reportChangeAll_noFail s w0 σ hc0 (by simpa using he)⟩
        · intro he; exact absurd he (World.fail'_errX _ _)
      · have h2 := Subs.reportUtilizeAll_corr s w0 σ hc0
        simp only [hch, ↓reduceIte, noFail_cons, C02.isSome_map]
        rw [← h2.1]
        split
        · next i u heq =>
          intro he
          exact ⟨by rw [heq]; rfl, Subs.reportUtilizeAll_noFail s w0 σ hc0 (by simpa using he)⟩
        · intro he; exact absurd he (World.fail'_errX _ _)
    | randomize =>
      simp only
      by_cases hch : k = .change
      · subst hch
        obtain ⟨hd, hrk, hc2⟩ := C02.Subs.draw_change s w0 σ hc0 id
        simp only [↓reduceIte, noFail_cons]
        rw [← hd, ← hrk]
        intro he
        obtain ⟨j, hj⟩ := World.resolveRandom_isSome _ _ _ _ _ _ he
        refine ⟨by rw [hj]; rfl, ?_⟩
        exact Subs.reportChangeTop_noFail s _ _ _ _ hc2 ((World.resolveRandom_ext _ _ _ _ _ _).err he)
      · obtain ⟨hd, hrk, hc2⟩ := C02.Subs.draw_randomize s w0 σ hc0 id
        simp only [hch, ↓reduceIte, noFail_cons]
        rw [← hd, ← hrk]
        intro he
        obtain ⟨j, hj⟩ := World.resolveRandom_isSome _ _ _ _ _ _ he
        refine ⟨by rw [hj]; rfl, ?_⟩
        exact Subs.reportRandomizeTop_noFail s _ _ _ _ hc2 ((World.resolveRandom_ext _ _ _ _ _ _).err he)
    | change => intro he; exact absurd he (World.fail'_errX _ _)
    | schedule => intro he; exact absurd he (World.fail'_errX _ _)
theorem Subs.requestAt_noFail : (s : Subs) → (i : Nat) → (rq : Req) → (w : World U) → (σ : Sig U) → Corr w σ →
    (s.requestAt i rq w).2.err = none → NoFail (s.requestChAt i rq.kind σ)
  | .nil, _, rq, w, σ, _ => by intro _; simp only [Subs.requestChAt]; exact noFail_nil
  | .cons b n r, 0, rq, w, σ, hc => by
    simp only [Subs.requestAt, Subs.requestChAt]; exact Node.request_noFail n rq w σ hc
  | .cons b n r, i+1, rq, w, σ, hc => by
    simp only [Subs.requestAt, Subs.requestChAt]; exact Subs.requestAt_noFail r i rq w σ hc
theorem Subs.requestAll_noFail : (s : Subs) → (rq : Req) → (w : World U) → (σ : Sig U) → Corr w σ →
    (s.requestAll rq w).2.err = none → NoFail (s.requestChAll rq.kind σ)
  | .nil, rq, w, σ, _ => by intro _; simp only [Subs.requestChAll]; exact noFail_nil
  | .cons b n r, rq, w, σ, hc => by
    simp only [Subs.requestAll, Subs.requestChAll, noFail_append]
    intro he
    exact ⟨Node.request_noFail n rq w σ hc ((Subs.requestAll_ext r rq _).err he),
      Subs.requestAll_noFail r rq _ _ (Node.request_corr n rq w σ hc) he⟩
end

mutual
theorem Node.fwdRequest_noFail : (n : Node) → (rq : Req) → (w : World U) → (σ : Sig U) → Corr w σ →
    (n.fwdRequest rq w).2.err = none → NoFail (n.fwdRequestCh rq.kind σ)
  | .leaf id inj, rq, w, σ, _ => by intro _; simp only [Node.fwdRequestCh]; exact noFail_nil
  | .compo id rid inj h st a r (some qi) m s, rq, w, σ, hc => by
    simp only [Node.fwdRequest, Node.fwdRequestCh]
    exact Subs.fwdRequestAt_noFail s qi rq _ σ (by simpa using hc)
  | .compo id rid inj h st a r none m s, rq, w, σ, hc => by
    simp only [Node.fwdRequest, Node.fwdRequestCh]
    exact Node.request_noFail _ rq _ σ (by simpa using hc)
  | .ortho id rid inj h s, rq, w, σ, hc => by
    simp only [Node.fwdRequest, Node.fwdRequestCh]
    split
    · exact Subs.fwdRequestAll_noFail s rq _ σ (by simpa using hc)
    · exact Node.request_noFail _ rq _ σ (by simpa using hc)
theorem Subs.fwdRequestAt_noFail : (s : Subs) → (i : Nat) → (rq : Req) → (w : World U) → (σ : Sig U) → Corr w σ →
    (s.fwdRequestAt i rq w).2.err = none → NoFail (s.fwdRequestChAt i rq.kind σ)
  | .nil, _, rq, w, σ, _ => by intro _; simp only [Subs.fwdRequestChAt]; exact noFail_nil
  | .cons b n r, 0, rq, w, σ, hc => by
    simp only [Subs.fwdRequestAt, Subs.fwdRequestChAt]; exact Node.fwdRequest_noFail n rq w σ hc
  | .cons b n r, i+1, rq, w, σ, hc => by
    simp only [Subs.fwdRequestAt, Subs.fwdRequestChAt]; exact Subs.fwdRequestAt_noFail r i rq w σ hc
theorem Subs.fwdRequestAll_noFail : (s : Subs) → (rq : Req) → (w : World U) → (σ : Sig U) → Corr w σ →
    (s.fwdRequestAll rq w).2.err = none → NoFail (s.fwdRequestChAll rq.kind σ)
  | .nil, rq, w, σ, _ => by intro _; simp only [Subs.fwdRequestChAll]; exact noFail_nil
  | .cons b n r, rq, w, σ, hc => by
    simp only [Subs.fwdRequestAll, Subs.fwdRequestChAll, noFail_append]
    intro he
    exact ⟨Node.fwdRequest_noFail n rq w σ hc ((Subs.fwdRequestAll_ext r rq _).err he),
      Subs.fwdRequestAll_noFail r rq _ _ (Node.fwdRequest_corr n rq w σ hc) he⟩
end

mutual
theorem Node.fwdActive_noFail : (n : Node) → (rq : Req) → (w : World U) → (σ : Sig U) → Corr w σ →
    (n.fwdActive rq w).2.err = none → NoFail (n.fwdActiveCh rq.kind σ)
  | .leaf id inj, rq, w, σ, _ => by intro _; simp only [Node.fwdActiveCh]; exact noFail_nil
  | .compo id rid inj h st a r (some qi) m s, rq, w, σ, hc => by
    simp only [Node.fwdActive, Node.fwdActiveCh]
    exact Subs.fwdRequestAt_noFail s qi rq _ σ hc
  | .compo id rid inj h st (some ai) r none m s, rq, w, σ, hc => by
    simp only [Node.fwdActive, Node.fwdActiveCh]
    exact Subs.fwdActiveAt_noFail s ai rq _ σ hc
  | .compo id rid inj h st none r none m s, rq, w, σ, hc => by
    intro _; simp only [Node.fwdActiveCh]; exact noFail_nil
  | .ortho id rid inj h s, rq, w, σ, hc => by
    simp only [Node.fwdActive, Node.fwdActiveCh]
    exact Subs.fwdActiveBits_noFail s rq _ σ hc
theorem Subs.fwdActiveAt_noFail : (s : Subs) → (i : Nat) → (rq : Req) → (w : World U) → (σ : Sig U) → Corr w σ →
    (s.fwdActiveAt i rq w).2.err = none → NoFail (s.fwdActiveChAt i rq.kind σ)
  | .nil, _, rq, w, σ, _ => by intro _; simp only [Subs.fwdActiveChAt]; exact noFail_nil
  | .cons b n r, 0, rq, w, σ, hc => by
    simp only [Subs.fwdActiveAt, Subs.fwdActiveChAt]; exact Node.fwdActive_noFail n rq w σ hc
  | .cons b n r, i+1, rq, w, σ, hc => by
    simp only [Subs.fwdActiveAt, Subs.fwdActiveChAt]; exact Subs.fwdActiveAt_noFail r i rq w σ hc
theorem Subs.fwdActiveBits_noFail : (s : Subs) → (rq : Req) → (w : World U) → (σ : Sig U) → Corr w σ →
    (s.fwdActiveBits rq w).2.err = none → NoFail (s.fwdActiveChBits rq.kind σ)
  | .nil, rq, w, σ, _ => by intro _; simp only [Subs.fwdActiveChBits]; exact noFail_nil
  | .cons b n r, rq, w, σ, hc => by
    simp only [Subs.fwdActiveBits, Subs.fwdActiveChBits]
    cases b with
    | true =>
      simp only [↓reduceIte, noFail_append]
      intro he
      exact ⟨Node.fwdActive_noFail n rq w σ hc ((Subs.fwdActiveBits_ext r rq _).err he),
        Subs.fwdActiveBits_noFail r rq _ _ (Node.fwdActive_corr n rq w σ hc) he⟩
    | false =>
      simp only [Bool.false_eq_true, ↓reduceIte]
      intro he
      exact Subs.fwdActiveBits_noFail r rq _ _ hc he
end

end Hfsm
