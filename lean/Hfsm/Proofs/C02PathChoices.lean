/-
C02 — the answers of a request, written without the operational passes.

`Node.specCh n p k σ` lists the answers the request `(k, path p)` consumes on the settled tree `n`,
by the same recursion as `Node.spec` (Proofs/C02Spec.lean): walk the active configuration along the
path; a composite region whose active prong differs from the path is left and the path's prong is
entered along the path (`Node.enterPathCh`: regions on the path take the path's prong and ask nothing;
the sub-states of an orthogonal region on the path are resolved left to right, the one on the path
along the path); where the path stays inside the active configuration the re-targeted unit is resolved
as a whole (`Node.requestCh`).  Only `Node.requestCh` and the stream functions of C12 occur.

`C02.Node.fwdActiveCh_mark`: on a settled tree this is the list of `Proofs/C02Choices.lean` for the
tree marked by `requestImmediate` (`Node.mark`) and walked by `deepForwardActive`.
-/
import Hfsm.Proofs.C02Choices

set_option linter.unusedSimpArgs false
set_option linter.unusedVariables false
set_option linter.unusedSectionVars false

namespace Hfsm
open UtilArith
variable {U : Type} [UtilArith U]

mutual
/-- streams left by entering an inactive sub-tree along the path `p` -/
def Node.enterPathSpec : Node → List Nat → Kind → Sig U → Sig U
  | n, [], k, σ => n.requestSpec k σ
  | .leaf .., _ :: _, _, σ => σ
  | .compo _ _ _ _ _ _ _ _ _ s, i :: rest, k, σ => s.enterPathSpecAt i rest k σ
  | .ortho _ _ _ _ s, i :: rest, k, σ => s.enterPathSpecAll i rest k σ
def Subs.enterPathSpecAt : Subs → Nat → List Nat → Kind → Sig U → Sig U
  | .nil, _, _, _, σ => σ
  | .cons _ n _, 0, p, k, σ => n.enterPathSpec p k σ
  | .cons _ _ r, i+1, p, k, σ => r.enterPathSpecAt i p k σ
def Subs.enterPathSpecAll : Subs → Nat → List Nat → Kind → Sig U → Sig U
  | .nil, _, _, _, σ => σ
  | .cons _ n r, 0, p, k, σ => r.requestSpecAll k (n.enterPathSpec p k σ)
  | .cons _ n r, i+1, p, k, σ => r.enterPathSpecAll i p k (n.requestSpec k σ)
end

mutual
/-- answers consumed by entering an inactive sub-tree along the path `p` (cf. `Node.enterPath`) -/
def Node.enterPathCh : Node → List Nat → Kind → Sig U → Choices
  | n, [], k, σ => n.requestCh k σ
  | .leaf .., _ :: _, _, _ => []
  | .compo _ _ _ _ _ _ _ _ _ s, i :: rest, k, σ => s.enterPathChAt i rest k σ
  | .ortho _ _ _ _ s, i :: rest, k, σ => s.enterPathChAll i rest k σ
def Subs.enterPathChAt : Subs → Nat → List Nat → Kind → Sig U → Choices
  | .nil, _, _, _, _ => []
  | .cons _ n _, 0, p, k, σ => n.enterPathCh p k σ
  | .cons _ _ r, i+1, p, k, σ => r.enterPathChAt i p k σ
def Subs.enterPathChAll : Subs → Nat → List Nat → Kind → Sig U → Choices
  | .nil, _, _, _, _ => []
  | .cons _ n r, 0, p, k, σ => n.enterPathCh p k σ ++ r.requestChAll k (n.enterPathSpec p k σ)
  | .cons _ n r, i+1, p, k, σ => n.requestCh k σ ++ r.enterPathChAll i p k (n.requestSpec k σ)
end

mutual
/-- The answers one request of kind `k` with destination at path `p` consumes on the active tree `n`
(cf. `Node.spec`). -/
def Node.specCh : Node → List Nat → Kind → Sig U → Choices
  | n, [], k, σ => n.requestCh k σ
  | .leaf .., _ :: _, _, _ => []
  | .compo _ _ _ _ _ a _ _ _ s, i :: rest, k, σ =>
    match a with
    | none => []
    | some ai => if ai = i then s.specChAt i rest k σ else s.enterPathChAt i rest k σ
  | .ortho _ _ _ _ s, i :: rest, k, σ => s.specChThrough i rest k σ
/-- the active prong of a composite region on the path: when no composite region lies between it and
the destination it is re-targeted, hence resolved, as a whole -/
def Subs.specChAt : Subs → Nat → List Nat → Kind → Sig U → Choices
  | .nil, _, _, _, _ => []
  | .cons _ n _, 0, p, k, σ => if n.hasCompo p then n.specCh p k σ else n.requestCh k σ
  | .cons _ _ r, i+1, p, k, σ => r.specChAt i p k σ
/-- an orthogonal region on the path only passes the request down -/
def Subs.specChThrough : Subs → Nat → List Nat → Kind → Sig U → Choices
  | .nil, _, _, _, _ => []
  | .cons _ n _, 0, p, k, σ => n.specCh p k σ
  | .cons _ _ r, i+1, p, k, σ => r.specChThrough i p k σ
end

section
variable (k : Kind)

/-! ### sub-trees without marks -/

theorem C02.Node.fwdRequestSpec_noMarks : (n : Node) → (σ : Sig U) → n.NoMarks →
    n.fwdRequestSpec k σ = n.requestSpec k σ
  | .leaf .., σ, _ => by simp only [Node.fwdRequestSpec, Node.requestSpec]
  | .compo id rid inj h st a r q m s, σ, hn => by
    simp only [Node.NoMarks] at hn
    obtain ⟨hq, -, -⟩ := hn
    subst hq
    simp only [Node.fwdRequestSpec]
  | .ortho id rid inj h s, σ, hn => by
    simp only [Node.NoMarks] at hn
    simp only [Node.fwdRequestSpec, C02.Subs.anyBit_noMarks s hn, Bool.false_eq_true, ↓reduceIte]

theorem C02.Node.fwdRequestCh_noMarks : (n : Node) → (σ : Sig U) → n.NoMarks →
    n.fwdRequestCh k σ = n.requestCh k σ
  | .leaf .., σ, _ => by simp only [Node.fwdRequestCh, Node.requestCh]
  | .compo id rid inj h st a r q m s, σ, hn => by
    simp only [Node.NoMarks] at hn
    obtain ⟨hq, -, -⟩ := hn
    subst hq
    simp only [Node.fwdRequestCh]
  | .ortho id rid inj h s, σ, hn => by
    simp only [Node.NoMarks] at hn
    simp only [Node.fwdRequestCh, C02.Subs.anyBit_noMarks s hn, Bool.false_eq_true, ↓reduceIte]

theorem C02.Subs.fwdRequestSpecAll_noMarks : (s : Subs) → (σ : Sig U) → s.NoMarksAll →
    s.fwdRequestSpecAll k σ = s.requestSpecAll k σ
  | .nil, σ, _ => by simp only [Subs.fwdRequestSpecAll, Subs.requestSpecAll]
  | .cons b n r, σ, hs => by
    simp only [Subs.NoMarksAll] at hs
    simp only [Subs.fwdRequestSpecAll, Subs.requestSpecAll, C02.Node.fwdRequestSpec_noMarks k n σ hs.2.1,
      C02.Subs.fwdRequestSpecAll_noMarks r _ hs.2.2]

theorem C02.Subs.fwdRequestChAll_noMarks : (s : Subs) → (σ : Sig U) → s.NoMarksAll →
    s.fwdRequestChAll k σ = s.requestChAll k σ
  | .nil, σ, _ => by simp only [Subs.fwdRequestChAll, Subs.requestChAll]
  | .cons b n r, σ, hs => by
    simp only [Subs.NoMarksAll] at hs
    simp only [Subs.fwdRequestChAll, Subs.requestChAll, C02.Node.fwdRequestCh_noMarks k n σ hs.2.1,
      C02.Node.fwdRequestSpec_noMarks k n σ hs.2.1, C02.Subs.fwdRequestChAll_noMarks r _ hs.2.2]

theorem C02.Subs.fwdActiveChBits_noMarks : (s : Subs) → (σ : Sig U) → s.NoMarksAll →
    s.fwdActiveChBits k σ = []
  | .nil, σ, _ => by simp only [Subs.fwdActiveChBits]
  | .cons b n r, σ, hs => by
    simp only [Subs.NoMarksAll] at hs
    obtain ⟨hb, -, hr⟩ := hs
    subst hb
    simp only [Subs.fwdActiveChBits, Bool.false_eq_true, ↓reduceIte, C02.Subs.fwdActiveChBits_noMarks r σ hr]

/-! ### only orthogonal regions above the destination: the unit is resolved as a whole -/

mutual
theorem C02.Node.fwdRequest_mark_orthoOnly : (n : Node) → (p : List Nat) → (σ : Sig U) → n.NoMarks →
    n.ValidPath p → n.hasCompo p = false →
    (n.mark p).1.fwdRequestCh k σ = n.requestCh k σ ∧ (n.mark p).1.fwdRequestSpec k σ = n.requestSpec k σ
  | .leaf id inj, [], σ, hn, _, _ => by
    simp only [Node.mark]
    exact ⟨C02.Node.fwdRequestCh_noMarks k _ σ hn, C02.Node.fwdRequestSpec_noMarks k _ σ hn⟩
  | .compo id rid inj h st a r q m s, [], σ, hn, _, _ => by
    simp only [Node.mark]
    exact ⟨C02.Node.fwdRequestCh_noMarks k _ σ hn, C02.Node.fwdRequestSpec_noMarks k _ σ hn⟩
  | .ortho id rid inj h s, [], σ, hn, _, _ => by
    simp only [Node.mark]
    exact ⟨C02.Node.fwdRequestCh_noMarks k _ σ hn, C02.Node.fwdRequestSpec_noMarks k _ σ hn⟩
  | .leaf id inj, _ :: _, _, _, hv, _ => by simp only [Node.ValidPath] at hv
  | .compo id rid inj h st a r q m s, i :: rest, _, _, _, hc => by
    simp only [Node.hasCompo, Bool.true_eq_false] at hc
  | .ortho id rid inj h s, i :: rest, σ, hn, hv, hc => by
    simp only [Node.NoMarks] at hn
    simp only [Node.ValidPath] at hv
    simp only [Node.hasCompo] at hc
    have ih := C02.Subs.fwdRequestAll_mark_orthoOnly s i rest σ hn hv hc
    have hb := C02.Subs.anyBit_setBit s i rest hv
    simp only [Node.mark]
    generalize s.markAt i rest = res at ih hb
    obtain ⟨s', ph⟩ := res
    simp only at ih hb
    simp only [Node.fwdRequestCh, Node.fwdRequestSpec, hb, ↓reduceIte, Node.requestCh, Node.requestSpec]
    exact ih
theorem C02.Subs.fwdRequestAll_mark_orthoOnly : (s : Subs) → (i : Nat) → (p : List Nat) → (σ : Sig U) →
    s.NoMarksAll → s.ValidAt i p → s.hasCompoAt i p = false →
    ((s.markAt i p).1.setBit i).fwdRequestChAll k σ = s.requestChAll k σ ∧
    ((s.markAt i p).1.setBit i).fwdRequestSpecAll k σ = s.requestSpecAll k σ
  | .nil, _, _, _, _, hv, _ => by simp only [Subs.ValidAt] at hv
  | .cons b n r, 0, p, σ, hs, hv, hc => by
    simp only [Subs.NoMarksAll] at hs
    obtain ⟨hb, hn, hr⟩ := hs
    simp only [Subs.ValidAt] at hv
    simp only [Subs.hasCompoAt] at hc
    have ih := C02.Node.fwdRequest_mark_orthoOnly n p σ hn hv hc
    simp only [Subs.markAt]
    generalize n.mark p = res at ih
    obtain ⟨n', ph⟩ := res
    simp only at ih
    simp only [Subs.setBit, Subs.fwdRequestChAll, Subs.fwdRequestSpecAll, Subs.requestChAll, Subs.requestSpecAll,
      ih.1, ih.2, C02.Subs.fwdRequestChAll_noMarks k r _ hr, C02.Subs.fwdRequestSpecAll_noMarks k r _ hr, and_self]
  | .cons b n r, i+1, p, σ, hs, hv, hc => by
    simp only [Subs.NoMarksAll] at hs
    obtain ⟨hb, hn, hr⟩ := hs
    simp only [Subs.ValidAt] at hv
    simp only [Subs.hasCompoAt] at hc
    have ih := C02.Subs.fwdRequestAll_mark_orthoOnly r i p (n.requestSpec k σ) hr hv hc
    simp only [Subs.markAt]
    generalize r.markAt i p = res at ih
    obtain ⟨r', ph⟩ := res
    simp only at ih
    simp only [Subs.setBit, Subs.fwdRequestChAll, Subs.fwdRequestSpecAll, Subs.requestChAll, Subs.requestSpecAll,
      C02.Node.fwdRequestCh_noMarks k n σ hn, C02.Node.fwdRequestSpec_noMarks k n σ hn, ih.1, ih.2, and_self]
end

/-! ### an inactive sub-tree on the path -/

mutual
theorem C02.Node.fwdRequest_mark_enter : (n : Node) → (p : List Nat) → (σ : Sig U) → n.Clean → n.NoMarks →
    n.ValidPath p →
    (n.mark p).2 ≠ .p3 ∧ (n.mark p).1.fwdRequestCh k σ = n.enterPathCh p k σ ∧
    (n.mark p).1.fwdRequestSpec k σ = n.enterPathSpec p k σ
  | .leaf id inj, [], σ, _, hn, _ => by
    simp only [Node.mark, Node.enterPathCh, Node.enterPathSpec, ne_eq, reduceCtorEq, not_false_eq_true, true_and]
    exact ⟨C02.Node.fwdRequestCh_noMarks k _ σ hn, C02.Node.fwdRequestSpec_noMarks k _ σ hn⟩
  | .compo id rid inj h st a r q m s, [], σ, _, hn, _ => by
    simp only [Node.mark, Node.enterPathCh, Node.enterPathSpec, ne_eq, reduceCtorEq, not_false_eq_true, true_and]
    exact ⟨C02.Node.fwdRequestCh_noMarks k _ σ hn, C02.Node.fwdRequestSpec_noMarks k _ σ hn⟩
  | .ortho id rid inj h s, [], σ, _, hn, _ => by
    simp only [Node.mark, Node.enterPathCh, Node.enterPathSpec, ne_eq, reduceCtorEq, not_false_eq_true, true_and]
    exact ⟨C02.Node.fwdRequestCh_noMarks k _ σ hn, C02.Node.fwdRequestSpec_noMarks k _ σ hn⟩
  | .leaf id inj, _ :: _, _, _, _, hv => by simp only [Node.ValidPath] at hv
  | .compo id rid inj h st a r q m s, i :: rest, σ, hc, hn, hv => by
    simp only [Node.Clean] at hc
    obtain ⟨ha, hcs⟩ := hc
    subst ha
    simp only [Node.NoMarks] at hn
    obtain ⟨hq, hm, hs⟩ := hn
    subst hq; subst hm
    simp only [Node.ValidPath] at hv
    have ih := C02.Subs.fwdRequestAt_mark_enter s i rest σ hcs hs hv
    simp only [Node.mark]
    generalize s.markAt i rest = res at ih
    obtain ⟨s', ph⟩ := res
    obtain ⟨hph, heq⟩ := ih
    simp only at hph heq
    cases ph with
    | p3 => exact absurd rfl hph
    | p1 =>
      simp only [ne_eq, reduceCtorEq, not_false_eq_true, true_and, Node.fwdRequestCh, Node.fwdRequestSpec,
        Node.enterPathCh, Node.enterPathSpec]
      exact heq
    | p2 =>
      simp only [ne_eq, reduceCtorEq, not_false_eq_true, not_true_eq_false, and_false, or_true, ↓reduceIte,
        true_and, Node.fwdRequestCh, Node.fwdRequestSpec, Node.enterPathCh, Node.enterPathSpec]
      exact heq
  | .ortho id rid inj h s, i :: rest, σ, hc, hn, hv => by
    simp only [Node.Clean] at hc
    simp only [Node.NoMarks] at hn
    simp only [Node.ValidPath] at hv
    have ih := C02.Subs.fwdRequestAll_mark_enter s i rest σ hc hn hv
    have hb := C02.Subs.anyBit_setBit s i rest hv
    simp only [Node.mark]
    generalize s.markAt i rest = res at ih hb
    obtain ⟨s', ph⟩ := res
    obtain ⟨hph, heq⟩ := ih
    simp only at hph heq hb
    refine ⟨hph, ?_⟩
    simp only [Node.fwdRequestCh, Node.fwdRequestSpec, hb, ↓reduceIte, Node.enterPathCh, Node.enterPathSpec]
    exact heq
theorem C02.Subs.fwdRequestAt_mark_enter : (s : Subs) → (i : Nat) → (p : List Nat) → (σ : Sig U) → s.CleanAll →
    s.NoMarksAll → s.ValidAt i p →
    (s.markAt i p).2 ≠ .p3 ∧ (s.markAt i p).1.fwdRequestChAt i k σ = s.enterPathChAt i p k σ ∧
    (s.markAt i p).1.fwdRequestSpecAt i k σ = s.enterPathSpecAt i p k σ
  | .nil, _, _, _, _, _, hv => by simp only [Subs.ValidAt] at hv
  | .cons b n r, 0, p, σ, hc, hs, hv => by
    simp only [Subs.CleanAll] at hc
    simp only [Subs.NoMarksAll] at hs
    simp only [Subs.ValidAt] at hv
    have ih := C02.Node.fwdRequest_mark_enter n p σ hc.1 hs.2.1 hv
    simp only [Subs.markAt]
    generalize n.mark p = res at ih
    obtain ⟨n', ph⟩ := res
    simp only at ih
    simp only [Subs.fwdRequestChAt, Subs.fwdRequestSpecAt, Subs.enterPathChAt, Subs.enterPathSpecAt]
    exact ih
  | .cons b n r, i+1, p, σ, hc, hs, hv => by
    simp only [Subs.CleanAll] at hc
    simp only [Subs.NoMarksAll] at hs
    simp only [Subs.ValidAt] at hv
    have ih := C02.Subs.fwdRequestAt_mark_enter r i p σ hc.2 hs.2.2 hv
    simp only [Subs.markAt]
    generalize r.markAt i p = res at ih
    obtain ⟨r', ph⟩ := res
    simp only at ih
    simp only [Subs.fwdRequestChAt, Subs.fwdRequestSpecAt, Subs.enterPathChAt, Subs.enterPathSpecAt]
    exact ih
theorem C02.Subs.fwdRequestAll_mark_enter : (s : Subs) → (i : Nat) → (p : List Nat) → (σ : Sig U) → s.CleanAll →
    s.NoMarksAll → s.ValidAt i p →
    (s.markAt i p).2 ≠ .p3 ∧
    ((s.markAt i p).1.setBit i).fwdRequestChAll k σ = s.enterPathChAll i p k σ ∧
    ((s.markAt i p).1.setBit i).fwdRequestSpecAll k σ = s.enterPathSpecAll i p k σ
  | .nil, _, _, _, _, _, hv => by simp only [Subs.ValidAt] at hv
  | .cons b n r, 0, p, σ, hc, hs, hv => by
    simp only [Subs.CleanAll] at hc
    simp only [Subs.NoMarksAll] at hs
    obtain ⟨hb, hn, hr⟩ := hs
    simp only [Subs.ValidAt] at hv
    have ih := C02.Node.fwdRequest_mark_enter n p σ hc.1 hn hv
    simp only [Subs.markAt]
    generalize n.mark p = res at ih
    obtain ⟨n', ph⟩ := res
    obtain ⟨hph, h1, h2⟩ := ih
    simp only at hph h1 h2
    refine ⟨hph, ?_⟩
    simp only [Subs.setBit, Subs.fwdRequestChAll, Subs.fwdRequestSpecAll, Subs.enterPathChAll, Subs.enterPathSpecAll,
      h1, h2, C02.Subs.fwdRequestChAll_noMarks k r _ hr, C02.Subs.fwdRequestSpecAll_noMarks k r _ hr, and_self]
  | .cons b n r, i+1, p, σ, hc, hs, hv => by
    simp only [Subs.CleanAll] at hc
    simp only [Subs.NoMarksAll] at hs
    obtain ⟨hb, hn, hr⟩ := hs
    simp only [Subs.ValidAt] at hv
    have ih := C02.Subs.fwdRequestAll_mark_enter r i p (n.requestSpec k σ) hc.2 hr hv
    simp only [Subs.markAt]
    generalize r.markAt i p = res at ih
    obtain ⟨r', ph⟩ := res
    obtain ⟨hph, h1, h2⟩ := ih
    simp only at hph h1 h2
    refine ⟨hph, ?_⟩
    simp only [Subs.setBit, Subs.fwdRequestChAll, Subs.fwdRequestSpecAll, Subs.enterPathChAll, Subs.enterPathSpecAll,
      C02.Node.fwdRequestCh_noMarks k n σ hn, C02.Node.fwdRequestSpec_noMarks k n σ hn, h1, h2, and_self]
end

/-- a composite region on the path whose active prong `ai` differs from the path's prong `i` -/
theorem C02.Subs.fwdRequestAt_mark_switch : (s : Subs) → (i ai : Nat) → (p : List Nat) → (σ : Sig U) → ai ≠ i →
    s.ActAt ai → s.NoMarksAll → s.ValidAt i p →
    (s.markAt i p).2 ≠ .p3 ∧ (s.markAt i p).1.fwdRequestChAt i k σ = s.enterPathChAt i p k σ
  | .nil, _, _, _, _, _, _, _, hv => by simp only [Subs.ValidAt] at hv
  | .cons b n r, 0, 0, _, _, h, _, _, _ => absurd rfl h
  | .cons b n r, 0, ai+1, p, σ, _, ha, hs, hv => by
    simp only [Subs.ActAt] at ha
    simp only [Subs.NoMarksAll] at hs
    simp only [Subs.ValidAt] at hv
    have ih := C02.Node.fwdRequest_mark_enter k n p σ ha.1 hs.2.1 hv
    simp only [Subs.markAt]
    generalize n.mark p = res at ih
    obtain ⟨n', ph⟩ := res
    simp only at ih
    simp only [Subs.fwdRequestChAt, Subs.enterPathChAt]
    exact ⟨ih.1, ih.2.1⟩
  | .cons b n r, i+1, 0, p, σ, _, ha, hs, hv => by
    simp only [Subs.ActAt] at ha
    simp only [Subs.NoMarksAll] at hs
    simp only [Subs.ValidAt] at hv
    have ih := C02.Subs.fwdRequestAt_mark_enter k r i p σ ha.2 hs.2.2 hv
    simp only [Subs.markAt]
    generalize r.markAt i p = res at ih
    obtain ⟨r', ph⟩ := res
    simp only at ih
    simp only [Subs.fwdRequestChAt, Subs.enterPathChAt]
    exact ⟨ih.1, ih.2.1⟩
  | .cons b n r, i+1, ai+1, p, σ, h, ha, hs, hv => by
    simp only [Subs.ActAt] at ha
    simp only [Subs.NoMarksAll] at hs
    simp only [Subs.ValidAt] at hv
    have ih := C02.Subs.fwdRequestAt_mark_switch r i ai p σ (by omega) ha.2 hs.2.2 hv
    simp only [Subs.markAt]
    generalize r.markAt i p = res at ih
    obtain ⟨r', ph⟩ := res
    simp only at ih
    simp only [Subs.fwdRequestChAt, Subs.enterPathChAt]
    exact ih

/-- the active prong of the lowest composite ancestor -/
theorem C02.Subs.fwdRequestAt_mark_unit : (s : Subs) → (i : Nat) → (p : List Nat) → (σ : Sig U) →
    s.NoMarksAll → s.ValidAt i p → s.hasCompoAt i p = false →
    (s.markAt i p).1.fwdRequestChAt i k σ = s.specChAt i p k σ
  | .nil, _, _, _, _, hv, _ => by simp only [Subs.ValidAt] at hv
  | .cons b n r, 0, p, σ, hs, hv, hc => by
    simp only [Subs.NoMarksAll] at hs
    simp only [Subs.ValidAt] at hv
    simp only [Subs.hasCompoAt] at hc
    have ih := C02.Node.fwdRequest_mark_orthoOnly k n p σ hs.2.1 hv hc
    simp only [Subs.markAt]
    generalize n.mark p = res at ih
    obtain ⟨n', ph⟩ := res
    simp only at ih
    simp only [Subs.fwdRequestChAt, Subs.specChAt, hc, Bool.false_eq_true, ↓reduceIte]
    exact ih.1
  | .cons b n r, i+1, p, σ, hs, hv, hc => by
    simp only [Subs.NoMarksAll] at hs
    simp only [Subs.ValidAt] at hv
    simp only [Subs.hasCompoAt] at hc
    have ih := C02.Subs.fwdRequestAt_mark_unit r i p σ hs.2.2 hv hc
    simp only [Subs.markAt]
    generalize r.markAt i p = res at ih
    obtain ⟨r', ph⟩ := res
    simp only at ih
    simp only [Subs.fwdRequestChAt, Subs.specChAt]
    exact ih

/-! ### the active tree -/

mutual
/-- `requestImmediate` + `deepForwardActive` on a settled tree consume the answers of `specCh`. -/
theorem C02.Node.fwdActiveCh_mark : (n : Node) → (p : List Nat) → (σ : Sig U) → n.Act → n.NoMarks →
    n.ValidPath p → n.hasCompo p = true → (n.mark p).1.fwdActiveCh k σ = n.specCh p k σ
  | .leaf .., [], _, _, _, _, hc => by simp only [Node.hasCompo, Bool.false_eq_true] at hc
  | .compo .., [], _, _, _, _, hc => by simp only [Node.hasCompo, Bool.false_eq_true] at hc
  | .ortho .., [], _, _, _, _, hc => by simp only [Node.hasCompo, Bool.false_eq_true] at hc
  | .leaf id inj, _ :: _, _, _, _, hv, _ => by simp only [Node.ValidPath] at hv
  | .compo id rid inj h st a r q m s, i :: rest, σ, ha, hn, hv, _ => by
    simp only [Node.NoMarks] at hn
    obtain ⟨hq, hm, hs⟩ := hn
    subst hq; subst hm
    simp only [Node.ValidPath] at hv
    cases a with
    | none => simp only [Node.Act] at ha
    | some ai =>
      simp only [Node.Act] at ha
      by_cases hai : ai = i
      · subst hai
        cases hc : s.hasCompoAt ai rest with
        | true =>
          have ih := C02.Subs.fwdActiveChAt_mark s ai rest σ ha hs hv hc
          have hph : (s.markAt ai rest).2 ≠ .p1 := by
            intro e
            have := (C02.Subs.markAt_phase s ai rest).1 e
            rw [hc] at this
            exact absurd this (by decide)
          simp only [Node.mark]
          generalize s.markAt ai rest = res at ih hph
          obtain ⟨s', ph⟩ := res
          simp only at ih hph
          cases ph with
          | p1 => exact absurd rfl hph
          | p2 =>
            simp only [ne_eq, reduceCtorEq, not_false_eq_true, not_true_eq_false, and_false, or_self,
              ↓reduceIte, Node.fwdActiveCh, Node.specCh, ih]
          | p3 =>
            simp only [Node.fwdActiveCh, Node.specCh, ↓reduceIte, ih]
        | false =>
          have ih := C02.Subs.fwdRequestAt_mark_unit k s ai rest σ hs hv hc
          have hph : (s.markAt ai rest).2 = .p1 := (C02.Subs.markAt_phase s ai rest).2 hc
          simp only [Node.mark]
          generalize s.markAt ai rest = res at ih hph
          obtain ⟨s', ph⟩ := res
          simp only at ih hph
          subst hph
          simp only [Node.fwdActiveCh, Node.specCh, ↓reduceIte, ih]
      · have ih := C02.Subs.fwdRequestAt_mark_switch k s i ai rest σ hai ha hs hv
        simp only [Node.mark]
        generalize s.markAt i rest = res at ih
        obtain ⟨s', ph⟩ := res
        obtain ⟨hph, heq⟩ := ih
        simp only at hph heq
        cases ph with
        | p3 => exact absurd rfl hph
        | p1 =>
          simp only [Node.fwdActiveCh, Node.specCh, hai, ↓reduceIte, heq]
        | p2 =>
          have hne : ¬ (some ai : Option Nat) = some i := fun e => hai (Option.some.inj e)
          simp only [ne_eq, reduceCtorEq, not_false_eq_true, not_true_eq_false, and_false, hne,
            or_true, ↓reduceIte, Node.fwdActiveCh, Node.specCh, hai, heq]
  | .ortho id rid inj h s, i :: rest, σ, ha, hn, hv, hc => by
    simp only [Node.Act] at ha
    simp only [Node.NoMarks] at hn
    simp only [Node.ValidPath] at hv
    simp only [Node.hasCompo] at hc
    have ih := C02.Subs.fwdActiveChBits_mark s i rest σ ha hn hv hc
    simp only [Node.mark]
    generalize s.markAt i rest = res at ih
    obtain ⟨s', ph⟩ := res
    simp only at ih
    simp only [Node.fwdActiveCh, Node.specCh, ih]
theorem C02.Subs.fwdActiveChAt_mark : (s : Subs) → (i : Nat) → (p : List Nat) → (σ : Sig U) → s.ActAt i →
    s.NoMarksAll → s.ValidAt i p → s.hasCompoAt i p = true →
    (s.markAt i p).1.fwdActiveChAt i k σ = s.specChAt i p k σ
  | .nil, _, _, _, _, _, hv, _ => by simp only [Subs.ValidAt] at hv
  | .cons b n r, 0, p, σ, ha, hs, hv, hc => by
    simp only [Subs.ActAt] at ha
    simp only [Subs.NoMarksAll] at hs
    simp only [Subs.ValidAt] at hv
    simp only [Subs.hasCompoAt] at hc
    have ih := C02.Node.fwdActiveCh_mark n p σ ha.1 hs.2.1 hv hc
    simp only [Subs.markAt]
    generalize n.mark p = res at ih
    obtain ⟨n', ph⟩ := res
    simp only at ih
    simp only [Subs.fwdActiveChAt, Subs.specChAt, hc, ↓reduceIte, ih]
  | .cons b n r, i+1, p, σ, ha, hs, hv, hc => by
    simp only [Subs.ActAt] at ha
    simp only [Subs.NoMarksAll] at hs
    simp only [Subs.ValidAt] at hv
    simp only [Subs.hasCompoAt] at hc
    have ih := C02.Subs.fwdActiveChAt_mark r i p σ ha.2 hs.2.2 hv hc
    simp only [Subs.markAt]
    generalize r.markAt i p = res at ih
    obtain ⟨r', ph⟩ := res
    simp only at ih
    simp only [Subs.fwdActiveChAt, Subs.specChAt, ih]
theorem C02.Subs.fwdActiveChBits_mark : (s : Subs) → (i : Nat) → (p : List Nat) → (σ : Sig U) → s.ActAll →
    s.NoMarksAll → s.ValidAt i p → s.hasCompoAt i p = true →
    ((s.markAt i p).1.setBit i).fwdActiveChBits k σ = s.specChThrough i p k σ
  | .nil, _, _, _, _, _, hv, _ => by simp only [Subs.ValidAt] at hv
  | .cons b n r, 0, p, σ, ha, hs, hv, hc => by
    simp only [Subs.ActAll] at ha
    simp only [Subs.NoMarksAll] at hs
    obtain ⟨hb, hn, hr⟩ := hs
    subst hb
    simp only [Subs.ValidAt] at hv
    simp only [Subs.hasCompoAt] at hc
    have ih := C02.Node.fwdActiveCh_mark n p σ ha.1 hn hv hc
    simp only [Subs.markAt]
    generalize n.mark p = res at ih
    obtain ⟨n', ph⟩ := res
    simp only at ih
    simp only [Subs.setBit, Subs.fwdActiveChBits, ↓reduceIte, Subs.specChThrough, ih,
      C02.Subs.fwdActiveChBits_noMarks k r _ hr, List.append_nil]
  | .cons b n r, i+1, p, σ, ha, hs, hv, hc => by
    simp only [Subs.ActAll] at ha
    simp only [Subs.NoMarksAll] at hs
    obtain ⟨hb, hn, hr⟩ := hs
    subst hb
    simp only [Subs.ValidAt] at hv
    simp only [Subs.hasCompoAt] at hc
    have ih := C02.Subs.fwdActiveChBits_mark r i p σ ha.2 hr hv hc
    simp only [Subs.markAt]
    generalize r.markAt i p = res at ih
    obtain ⟨r', ph⟩ := res
    simp only at ih
    simp only [Subs.setBit, Subs.fwdActiveChBits, Bool.false_eq_true, ↓reduceIte, Subs.specChThrough, ih]
end

end

theorem C02.Node.specCh_nil (n : Node) (k : Kind) (σ : Sig U) : n.specCh [] k σ = n.requestCh k σ := by
  cases n <;> simp only [Node.specCh]

end Hfsm
