/- `World.Ext` for the guards and the commit pass (Model/Commit.lean). -/
import Hfsm.Proofs.WorldExt

set_option linter.unusedSectionVars false

namespace Hfsm
variable {U : Type} [UtilArith U]

/-! ### `entryGuard` -/

mutual
theorem Node.entryGuard_ext : (n : Node) → (w : World U) → World.Ext w (Node.entryGuard n w).1
  | .leaf id inj, w => by unfold Node.entryGuard; unroll; all_goals ext_tac
  | .compo id rid inj h st a r q m s, w => by
      have ih1 := Subs.entryGuardAt_ext s
      have ih2 := Subs.entryGuardAll_ext s
      unfold Node.entryGuard; unroll; all_goals ext_tac
  | .ortho id rid inj h s, w => by
      have ih1 := Subs.entryGuardAt_ext s
      have ih2 := Subs.entryGuardAll_ext s
      unfold Node.entryGuard; unroll; all_goals ext_tac
theorem Subs.entryGuardAt_ext : (s : Subs) → (i : Nat) → (w : World U) → World.Ext w (Subs.entryGuardAt s i w).1
  | .nil, _, w => by unfold Subs.entryGuardAt; unroll; all_goals ext_tac
  | .cons b n r, 0, w => by
      have ih1 := Node.entryGuard_ext n
      unfold Subs.entryGuardAt; unroll; all_goals ext_tac
  | .cons b n r, i+1, w => by
      have ih1 := Subs.entryGuardAt_ext r
      unfold Subs.entryGuardAt; unroll; all_goals ext_tac
theorem Subs.entryGuardAll_ext : (s : Subs) → (w : World U) → World.Ext w (Subs.entryGuardAll s w).1
  | .nil, w => by unfold Subs.entryGuardAll; unroll; all_goals ext_tac
  | .cons b n r, w => by
      have ih1 := Node.entryGuard_ext n
      have ih2 := Subs.entryGuardAll_ext r
      unfold Subs.entryGuardAll; unroll; all_goals ext_tac
end


/-! ### `fwdEntryGuard` -/

mutual
theorem Node.fwdEntryGuard_ext : (n : Node) → (w : World U) → World.Ext w (Node.fwdEntryGuard n w).1
  | .leaf id inj, w => by unfold Node.fwdEntryGuard; unroll; all_goals ext_tac
  | .compo id rid inj h st a r q m s, w => by
      have ih1 := Subs.fwdEntryGuardAt_ext s
      have ih2 := Subs.fwdEntryGuardBits_ext s
      have ih3 := Subs.fwdEntryGuardAll_ext s
      cases q <;> cases a <;> (unfold Node.fwdEntryGuard; unroll; all_goals ext_tac)
  | .ortho id rid inj h s, w => by
      have ih1 := Subs.fwdEntryGuardAt_ext s
      have ih2 := Subs.fwdEntryGuardBits_ext s
      have ih3 := Subs.fwdEntryGuardAll_ext s
      unfold Node.fwdEntryGuard; unroll; all_goals ext_tac
theorem Subs.fwdEntryGuardAt_ext : (s : Subs) → (i : Nat) → (w : World U) → World.Ext w (Subs.fwdEntryGuardAt s i w).1
  | .nil, _, w => by unfold Subs.fwdEntryGuardAt; unroll; all_goals ext_tac
  | .cons b n r, 0, w => by
      have ih1 := Node.fwdEntryGuard_ext n
      unfold Subs.fwdEntryGuardAt; unroll; all_goals ext_tac
  | .cons b n r, i+1, w => by
      have ih1 := Subs.fwdEntryGuardAt_ext r
      unfold Subs.fwdEntryGuardAt; unroll; all_goals ext_tac
theorem Subs.fwdEntryGuardBits_ext : (s : Subs) → (w : World U) → World.Ext w (Subs.fwdEntryGuardBits s w).1
  | .nil, w => by unfold Subs.fwdEntryGuardBits; unroll; all_goals ext_tac
  | .cons b n r, w => by
      have ih1 := Node.fwdEntryGuard_ext n
      have ih2 := Subs.fwdEntryGuardBits_ext r
      unfold Subs.fwdEntryGuardBits; unroll; all_goals ext_tac
theorem Subs.fwdEntryGuardAll_ext : (s : Subs) → (w : World U) → World.Ext w (Subs.fwdEntryGuardAll s w).1
  | .nil, w => by unfold Subs.fwdEntryGuardAll; unroll; all_goals ext_tac
  | .cons b n r, w => by
      have ih1 := Node.fwdEntryGuard_ext n
      have ih2 := Subs.fwdEntryGuardAll_ext r
      unfold Subs.fwdEntryGuardAll; unroll; all_goals ext_tac
end


/-! ### `exitGuard` -/

mutual
theorem Node.exitGuard_ext : (n : Node) → (w : World U) → World.Ext w (Node.exitGuard n w).1
  | .leaf id inj, w => by unfold Node.exitGuard; unroll; all_goals ext_tac
  | .compo id rid inj h st a r q m s, w => by
      have ih1 := Subs.exitGuardAt_ext s
      have ih2 := Subs.exitGuardAll_ext s
      unfold Node.exitGuard; unroll; all_goals ext_tac
  | .ortho id rid inj h s, w => by
      have ih1 := Subs.exitGuardAt_ext s
      have ih2 := Subs.exitGuardAll_ext s
      unfold Node.exitGuard; unroll; all_goals ext_tac
theorem Subs.exitGuardAt_ext : (s : Subs) → (i : Nat) → (w : World U) → World.Ext w (Subs.exitGuardAt s i w).1
  | .nil, _, w => by unfold Subs.exitGuardAt; unroll; all_goals ext_tac
  | .cons b n r, 0, w => by
      have ih1 := Node.exitGuard_ext n
      unfold Subs.exitGuardAt; unroll; all_goals ext_tac
  | .cons b n r, i+1, w => by
      have ih1 := Subs.exitGuardAt_ext r
      unfold Subs.exitGuardAt; unroll; all_goals ext_tac
theorem Subs.exitGuardAll_ext : (s : Subs) → (w : World U) → World.Ext w (Subs.exitGuardAll s w).1
  | .nil, w => by unfold Subs.exitGuardAll; unroll; all_goals ext_tac
  | .cons b n r, w => by
      have ih1 := Node.exitGuard_ext n
      have ih2 := Subs.exitGuardAll_ext r
      unfold Subs.exitGuardAll; unroll; all_goals ext_tac
end


/-! ### `fwdExitGuard` -/

mutual
theorem Node.fwdExitGuard_ext : (n : Node) → (w : World U) → World.Ext w (Node.fwdExitGuard n w).1
  | .leaf id inj, w => by unfold Node.fwdExitGuard; unroll; all_goals ext_tac
  | .compo id rid inj h st a r q m s, w => by
      have ih1 := Subs.fwdExitGuardAt_ext s
      have ih2 := Subs.fwdExitGuardBits_ext s
      have ih3 := Subs.fwdExitGuardAll_ext s
      cases q <;> cases a <;> (unfold Node.fwdExitGuard; unroll; all_goals ext_tac)
  | .ortho id rid inj h s, w => by
      have ih1 := Subs.fwdExitGuardAt_ext s
      have ih2 := Subs.fwdExitGuardBits_ext s
      have ih3 := Subs.fwdExitGuardAll_ext s
      unfold Node.fwdExitGuard; unroll; all_goals ext_tac
theorem Subs.fwdExitGuardAt_ext : (s : Subs) → (i : Nat) → (w : World U) → World.Ext w (Subs.fwdExitGuardAt s i w).1
  | .nil, _, w => by unfold Subs.fwdExitGuardAt; unroll; all_goals ext_tac
  | .cons b n r, 0, w => by
      have ih1 := Node.fwdExitGuard_ext n
      unfold Subs.fwdExitGuardAt; unroll; all_goals ext_tac
  | .cons b n r, i+1, w => by
      have ih1 := Subs.fwdExitGuardAt_ext r
      unfold Subs.fwdExitGuardAt; unroll; all_goals ext_tac
theorem Subs.fwdExitGuardBits_ext : (s : Subs) → (w : World U) → World.Ext w (Subs.fwdExitGuardBits s w).1
  | .nil, w => by unfold Subs.fwdExitGuardBits; unroll; all_goals ext_tac
  | .cons b n r, w => by
      have ih1 := Node.fwdExitGuard_ext n
      have ih2 := Subs.fwdExitGuardBits_ext r
      unfold Subs.fwdExitGuardBits; unroll; all_goals ext_tac
theorem Subs.fwdExitGuardAll_ext : (s : Subs) → (w : World U) → World.Ext w (Subs.fwdExitGuardAll s w).1
  | .nil, w => by unfold Subs.fwdExitGuardAll; unroll; all_goals ext_tac
  | .cons b n r, w => by
      have ih1 := Node.fwdExitGuard_ext n
      have ih2 := Subs.fwdExitGuardAll_ext r
      unfold Subs.fwdExitGuardAll; unroll; all_goals ext_tac
end


/-! ### `enter` -/

mutual
theorem Node.enter_ext : (n : Node) → (w : World U) → World.Ext w (Node.enter n w).2
  | .leaf id inj, w => by unfold Node.enter; unroll; all_goals ext_tac
  | .compo id rid inj h st a r q m s, w => by
      have ih1 := Subs.enterAt_ext s
      have ih2 := Subs.enterAll_ext s
      unfold Node.enter; unroll; all_goals ext_tac
  | .ortho id rid inj h s, w => by
      have ih1 := Subs.enterAt_ext s
      have ih2 := Subs.enterAll_ext s
      unfold Node.enter; unroll; all_goals ext_tac
theorem Subs.enterAt_ext : (s : Subs) → (i : Nat) → (w : World U) → World.Ext w (Subs.enterAt s i w).2
  | .nil, _, w => by unfold Subs.enterAt; unroll; all_goals ext_tac
  | .cons b n r, 0, w => by
      have ih1 := Node.enter_ext n
      unfold Subs.enterAt; unroll; all_goals ext_tac
  | .cons b n r, i+1, w => by
      have ih1 := Subs.enterAt_ext r
      unfold Subs.enterAt; unroll; all_goals ext_tac
theorem Subs.enterAll_ext : (s : Subs) → (w : World U) → World.Ext w (Subs.enterAll s w).2
  | .nil, w => by unfold Subs.enterAll; unroll; all_goals ext_tac
  | .cons b n r, w => by
      have ih1 := Node.enter_ext n
      have ih2 := Subs.enterAll_ext r
      unfold Subs.enterAll; unroll; all_goals ext_tac
end


/-! ### `exit` -/

mutual
theorem Node.exit_ext : (n : Node) → (w : World U) → World.Ext w (Node.exit n w).2
  | .leaf id inj, w => by unfold Node.exit; unroll; all_goals ext_tac
  | .compo id rid inj h st a r q m s, w => by
      have ih1 := Subs.exitAt_ext s
      have ih2 := Subs.exitAll_ext s
      unfold Node.exit; unroll; all_goals ext_tac
  | .ortho id rid inj h s, w => by
      have ih1 := Subs.exitAt_ext s
      have ih2 := Subs.exitAll_ext s
      unfold Node.exit; unroll; all_goals ext_tac
theorem Subs.exitAt_ext : (s : Subs) → (i : Nat) → (w : World U) → World.Ext w (Subs.exitAt s i w).2
  | .nil, _, w => by unfold Subs.exitAt; unroll; all_goals ext_tac
  | .cons b n r, 0, w => by
      have ih1 := Node.exit_ext n
      unfold Subs.exitAt; unroll; all_goals ext_tac
  | .cons b n r, i+1, w => by
      have ih1 := Subs.exitAt_ext r
      unfold Subs.exitAt; unroll; all_goals ext_tac
theorem Subs.exitAll_ext : (s : Subs) → (w : World U) → World.Ext w (Subs.exitAll s w).2
  | .nil, w => by unfold Subs.exitAll; unroll; all_goals ext_tac
  | .cons b n r, w => by
      have ih1 := Node.exit_ext n
      have ih2 := Subs.exitAll_ext r
      unfold Subs.exitAll; unroll; all_goals ext_tac
end


/-! ### `reenter` -/

mutual
theorem Node.reenter_ext : (n : Node) → (w : World U) → World.Ext w (Node.reenter n w).2
  | .leaf id inj, w => by unfold Node.reenter; unroll; all_goals ext_tac
  | .compo id rid inj h st a r q m s, w => by
      have ih1 := Subs.reenterAt_ext s
      have ih2 := Subs.reenterAll_ext s
      unfold Node.reenter; unroll; all_goals ext_tac
  | .ortho id rid inj h s, w => by
      have ih1 := Subs.reenterAt_ext s
      have ih2 := Subs.reenterAll_ext s
      unfold Node.reenter; unroll; all_goals ext_tac
theorem Subs.reenterAt_ext : (s : Subs) → (i : Nat) → (w : World U) → World.Ext w (Subs.reenterAt s i w).2
  | .nil, _, w => by unfold Subs.reenterAt; unroll; all_goals ext_tac
  | .cons b n r, 0, w => by
      have ih1 := Node.reenter_ext n
      unfold Subs.reenterAt; unroll; all_goals ext_tac
  | .cons b n r, i+1, w => by
      have ih1 := Subs.reenterAt_ext r
      unfold Subs.reenterAt; unroll; all_goals ext_tac
theorem Subs.reenterAll_ext : (s : Subs) → (w : World U) → World.Ext w (Subs.reenterAll s w).2
  | .nil, w => by unfold Subs.reenterAll; unroll; all_goals ext_tac
  | .cons b n r, w => by
      have ih1 := Node.reenter_ext n
      have ih2 := Subs.reenterAll_ext r
      unfold Subs.reenterAll; unroll; all_goals ext_tac
end


/-! ### `commit` -/

mutual
theorem Node.commit_ext : (n : Node) → (w : World U) → World.Ext w (Node.commit n w).2
  | .leaf id inj, w => by unfold Node.commit; unroll; all_goals ext_tac
  | .compo id rid inj h st a r q m s, w => by
      have ih1 := Subs.commitAt_ext s
      have ih2 := Subs.commitAll_ext s
      unfold Node.commit; unroll; all_goals ext_tac
  | .ortho id rid inj h s, w => by
      have ih1 := Subs.commitAt_ext s
      have ih2 := Subs.commitAll_ext s
      unfold Node.commit; unroll; all_goals ext_tac
theorem Subs.commitAt_ext : (s : Subs) → (i : Nat) → (w : World U) → World.Ext w (Subs.commitAt s i w).2
  | .nil, _, w => by unfold Subs.commitAt; unroll; all_goals ext_tac
  | .cons b n r, 0, w => by
      have ih1 := Node.commit_ext n
      unfold Subs.commitAt; unroll; all_goals ext_tac
  | .cons b n r, i+1, w => by
      have ih1 := Subs.commitAt_ext r
      unfold Subs.commitAt; unroll; all_goals ext_tac
theorem Subs.commitAll_ext : (s : Subs) → (w : World U) → World.Ext w (Subs.commitAll s w).2
  | .nil, w => by unfold Subs.commitAll; unroll; all_goals ext_tac
  | .cons b n r, w => by
      have ih1 := Node.commit_ext n
      have ih2 := Subs.commitAll_ext r
      unfold Subs.commitAll; unroll; all_goals ext_tac
end


end Hfsm
