/-
C02 — a vetoed round restores the tree exactly (the request passes only write marks, `restore` takes
the marks of the backup).
-/
import Hfsm.Proofs.C02Batch

namespace Hfsm

mutual
theorem C02.Node.restoreMarks_same : (x n : Node) → x.clearMarks = n.clearMarks → x.restoreMarks n = n
  | .leaf id inj, .leaf id' inj', h => by
    simp only [Node.clearMarks, Node.leaf.injEq] at h
    simp only [Node.restoreMarks, h]
  | .compo id rid inj hd st a r q m s, .compo id' rid' inj' hd' st' a' r' q' m' s', h => by
    simp only [Node.clearMarks, Node.compo.injEq, true_and] at h
    obtain ⟨h1, h2, h3, h4, h5, h6, h7, h8⟩ := h
    subst h1; subst h2; subst h3; subst h4; subst h5; subst h6; subst h7
    simp only [Node.restoreMarks, C02.Subs.restoreMarks_same s s' h8]
  | .ortho id rid inj hd s, .ortho id' rid' inj' hd' s', h => by
    simp only [Node.clearMarks, Node.ortho.injEq] at h
    obtain ⟨h1, h2, h3, h4, h5⟩ := h
    subst h1; subst h2; subst h3; subst h4
    simp only [Node.restoreMarks, C02.Subs.restoreMarks_same s s' h5]
  | .leaf .., .compo .., h => by simp only [Node.clearMarks, reduceCtorEq] at h
  | .leaf .., .ortho .., h => by simp only [Node.clearMarks, reduceCtorEq] at h
  | .compo .., .leaf .., h => by simp only [Node.clearMarks, reduceCtorEq] at h
  | .compo .., .ortho .., h => by simp only [Node.clearMarks, reduceCtorEq] at h
  | .ortho .., .leaf .., h => by simp only [Node.clearMarks, reduceCtorEq] at h
  | .ortho .., .compo .., h => by simp only [Node.clearMarks, reduceCtorEq] at h
theorem C02.Subs.restoreMarks_same : (x s : Subs) → x.clearMarks = s.clearMarks → x.restoreMarks s = s
  | .nil, .nil, _ => by simp only [Subs.restoreMarks]
  | .cons b n r, .cons b' n' r', h => by
    simp only [Subs.clearMarks, Subs.cons.injEq, true_and] at h
    simp only [Subs.restoreMarks, C02.Node.restoreMarks_same n n' h.1, C02.Subs.restoreMarks_same r r' h.2]
  | .nil, .cons .., h => by simp only [Subs.clearMarks, reduceCtorEq] at h
  | .cons .., .nil, h => by simp only [Subs.clearMarks, reduceCtorEq] at h
end

variable {U : Type} [UtilArith U]

namespace Mach

theorem C02.rounds_first_veto (m0 : Mach U) (fuel : Nat) (hq : m0.w.requests ≠ [])
    (hd : (m0.applyAll m0.w.requests 0).root.marksDiffer m0.root = true)
    (hok : (Mach.approvedByGuards { (m0.applyAll m0.w.requests 0) with
              w := { (m0.applyAll m0.w.requests 0).w with requests := [] } } [] m0.w.requests).2 = false)
    (hnr : (Mach.approvedByGuards { (m0.applyAll m0.w.requests 0) with
              w := { (m0.applyAll m0.w.requests 0).w with requests := [] } } [] m0.w.requests).1.w.requests = []) :
    (rounds false (fuel+1) m0 m0.root []).2 = [] ∧
    (rounds false (fuel+1) m0 m0.root []).1.root =
      (m0.applyAll m0.w.requests 0).root.restoreMarks m0.root := by
  simp only [rounds, C02.isEmpty_false_of_ne hq, Bool.false_eq_true, ↓reduceIte, hd, hok]
  rw [C02.rounds_nil _ _ _ _ _ (by simpa only [C02.World.clearTargets_requests] using hnr)]
  exact ⟨rfl, by simp only [C02.approvedByGuards_root]⟩

/-- One round, vetoed by the guards (whose callbacks queue nothing): the tree is what it was. -/
theorem C02.processRequest_root_veto (m : Mach U) (hq : m.w.requests ≠ [])
    (hl : 0 < m.w.cfg.substitutionLimit) (hn : m.root.NoMarks)
    (hsame : m.atGuards.root.clearMarks = m.root.clearMarks)
    (hd : m.atGuards.root.marksDiffer m.root = true)
    (hv : (m.atGuards.approvedByGuards [] m.w.requests).2 = false)
    (hnr : (m.atGuards.approvedByGuards [] m.w.requests).1.w.requests = []) :
    m.processRequest.root = m.root := by
  have hne := C02.isEmpty_false_of_ne hq
  obtain ⟨fuel, hf⟩ : ∃ f, m.w.cfg.substitutionLimit = f + 1 := ⟨_, (Nat.succ_pred_eq_of_pos hl).symm⟩
  have hq0 : (m.w.clearTargets.freshControl).requests = m.w.requests :=
    C02.World.clearTargets_requests _
  have hc0 : (m.w.clearTargets.freshControl).cfg = m.w.cfg := C02.World.clearTargets_cfg _
  have hr := C02.rounds_first_veto { m with w := m.w.clearTargets.freshControl } fuel
    (by rw [hq0]; exact hq) (by rw [hq0]; exact hd) (by rw [hq0]; exact hv) (by rw [hq0]; exact hnr)
  rw [C02.processRequest_root m hne, hc0, hf]
  simp only at hr
  rw [hr.1, hr.2]
  simp only [List.isEmpty_nil, ↓reduceIte, hq0]
  have : m.atGuards.root.restoreMarks m.root = m.root := C02.Node.restoreMarks_same _ _ hsame
  unfold atGuards at this
  rw [this, C02.Node.clearMarks_of_noMarks _ hn]

end Mach
end Hfsm
