/-
Plans compiled in but never used (C15), part 3: switching the feature off commutes with every operation of
the instance and with every operation sequence, while plans are idle (`World.PI`).

`Mach.po c e H S m` is `m` with its world re-configured by `World.po c e H S` (Proofs/PlansOffTrav.lean).
 * Operations that run no update / react pass commute with it for every `c` (hence leave the status arrays
   alone whatever the switch is).
 * `update` / `react` commute with `po false e H S`: the build without plans has neither the `|=` into the
   status arrays nor `deepUpdatePlans` + `clearStatuses`, and with no plan those change nothing else —
   except that `deepUpdatePlans` sent through an inactive region records a contract violation of its own
   (`e = some _` ignores the flag; `e = none` keeps it, under the hypothesis that the run with plans met none).
-/
import Hfsm.Proofs.PlansOffTrav
import Hfsm.Proofs.Bounds

set_option linter.unusedVariables false
set_option linter.unusedSectionVars false
set_option linter.unusedSimpArgs false

namespace Hfsm
variable {U : Type} [UtilArith U]
open World

@[reducible] def Mach.po (c : Bool) (e : Option String) (H S : List TaskStatus) (m : Mach U) : Mach U :=
  { m with w := m.w.po c e H S }

/-- the cleared status arrays (`PlanDataT::clearStatuses`) -/
def statusZero (n : Nat) : List TaskStatus := List.replicate n {}

namespace World
variable (c : Bool) (e : Option String) (H S : List TaskStatus) (w : World U)

theorem po_snapshot (root : Node) (o g : Bool) :
    (w.po c e H S).snapshot root o g = (w.snapshot root o g).po c e H S := rfl

theorem po_freshControl : (w.po c e H S).freshControl = w.freshControl.po c e H S := rfl

theorem po_clearTargets : (w.po c e H S).clearTargets = w.clearTargets.po c e H S := by
  unfold World.clearTargets
  show (if w.cfg.history = true then _ else _) = _
  split <;> rfl

/-- `clearStatuses` overwrites the status arrays -/
theorem po_clearStatuses :
    (w.po c e H S).clearStatuses =
      w.clearStatuses.po c e (statusZero w.cfg.regionCount) (statusZero w.cfg.regionCount) := rfl

theorem po_clearPlanData :
    (w.po c e H S).clearPlanData =
      w.clearPlanData.po c e (statusZero w.cfg.regionCount) (statusZero w.cfg.regionCount) := rfl

/-- `clearStatuses` of idle plans, seen without the status arrays -/
theorem po_clearStatuses_idle {w : World U} (h : w.PI) : w.clearStatuses.po c e H S = w.po c e H S := by
  have h1 := h.su
  have h2 := h.fa
  cases w
  simp only at h1 h2
  subst h1 h2
  rfl

end World

namespace Mach
variable (c : Bool) (e : Option String) (H S : List TaskStatus) (m : Mach U)

@[simp] theorem po_w : (m.po c e H S).w = m.w.po c e H S := rfl
@[simp] theorem po_root : (m.po c e H S).root = m.root := rfl

theorem po_updateActivity : (m.po c e H S).updateActivity = m.updateActivity.po c e H S := rfl

variable {m}

theorem po_applyRequest (h : m.w.PI) (t : Transition) (i : Nat) :
    (m.po c e H S).applyRequest t i = (m.applyRequest t i).po c e H S := by
  have hs : (m.w.snapshot m.root true false).PI := h.snapshot ..
  simp only [Mach.applyRequest, po_w, po_root, po_snapshot]
  cases t.kind <;> simp only [] <;> (repeat' split) <;>
    simp (disch := assumption) only [Node.request_po, Node.fwdActive_po, po_fail', *]

theorem po_applyRequestNoPin (h : m.w.PI) (t : Transition) :
    (m.po c e H S).applyRequestNoPin t = (m.applyRequestNoPin t).po c e H S := by
  have hs : (m.w.snapshot m.root true false).PI := h.snapshot ..
  simp only [Mach.applyRequestNoPin, po_w, po_root, po_snapshot]
  cases t.kind <;> simp only [] <;> (repeat' split) <;>
    simp (disch := assumption) only [Node.request_po, Node.fwdActive_po, po_fail', *]

theorem po_applyStep (h : m.w.PI) (x : Transition × Nat) :
    Mach.applyStep (m.po c e H S) x = (Mach.applyStep m x).po c e H S := by
  unfold Mach.applyStep
  rw [show (m.po c e H S).w.cfg.historyCap = m.w.cfg.historyCap from rfl]
  split
  · exact po_applyRequest c e H S h x.1 x.2
  · exact po_applyRequestNoPin c e H S h x.1

theorem applyStep_PI (m : Mach U) (x : Transition × Nat) (h : m.w.PI) : (Mach.applyStep m x).w.PI := by
  unfold Mach.applyStep; split
  · exact applyRequest_PI m x.1 x.2 h
  · exact applyRequestNoPin_PI m x.1 h

theorem po_applyAll : (ts : List Transition) → (m : Mach U) → (i : Nat) → m.w.PI →
    (m.po c e H S).applyAll ts i = (m.applyAll ts i).po c e H S
  | [], m, i, _ => rfl
  | t :: rest, m, i, h => by
      simp only [Mach.applyAll, po_w, po_stateCount]
      split
      · rw [po_applyRequest c e H S h]; exact po_applyAll rest _ _ (applyRequest_PI m t i h)
      · exact po_applyAll rest _ _ h

theorem po_approvedByGuards (h : m.w.PI) (cur pend : List Transition) :
    (m.po c e H S).approvedByGuards cur pend =
      ((m.approvedByGuards cur pend).1.po c e H S, (m.approvedByGuards cur pend).2) := by
  have hs : (({ m.w.freshControl with pending := pend, current := cur } : World U).snapshot m.root true true).PI :=
    by refine World.PI.snapshot ?_ _ _ _; exact h.freshControl.of_eq rfl rfl rfl rfl
  simp only [Mach.approvedByGuards]
  rw [show (({ (m.po c e H S).w.freshControl with pending := pend, current := cur } : World U).snapshot
        (m.po c e H S).root true true) =
      World.po c e H S (({ m.w.freshControl with pending := pend, current := cur } : World U).snapshot m.root true true)
      from rfl]
  simp only [Node.fwdExitGuard_po c e H S _ _ hs]
  split
  · simp only [Node.fwdEntryGuard_po c e H S _ _ (Node.fwdExitGuard_PI _ _ hs)]
  · rfl

theorem po_approvedByEntryGuards (h : m.w.PI) (cur pend : List Transition) :
    (m.po c e H S).approvedByEntryGuards cur pend =
      ((m.approvedByEntryGuards cur pend).1.po c e H S, (m.approvedByEntryGuards cur pend).2) := by
  have hs : (({ m.w.freshControl with pending := pend, current := cur } : World U).snapshot m.root true true).PI :=
    by refine World.PI.snapshot ?_ _ _ _; exact h.freshControl.of_eq rfl rfl rfl rfl
  simp only [Mach.approvedByEntryGuards]
  rw [show (({ (m.po c e H S).w.freshControl with pending := pend, current := cur } : World U).snapshot
        (m.po c e H S).root true true) =
      World.po c e H S (({ m.w.freshControl with pending := pend, current := cur } : World U).snapshot m.root true true)
      from rfl]
  simp only [Node.entryGuard_po c e H S _ _ hs]

theorem po_rounds (initial : Bool) : (fuel : Nat) → (m : Mach U) → (backup : Node) → (cur : List Transition) →
    m.w.PI →
    Mach.rounds initial fuel (m.po c e H S) backup cur =
      ((Mach.rounds initial fuel m backup cur).1.po c e H S, (Mach.rounds initial fuel m backup cur).2)
  | 0, m, _, cur, _ => rfl
  | fuel+1, m, backup, cur, h => by
      have ha : (m.applyAll m.w.requests 0).w.PI := applyAll_PI _ _ _ h
      have ha' : ({ m.applyAll m.w.requests 0 with w := { (m.applyAll m.w.requests 0).w with requests := [] } } : Mach U).w.PI :=
        ha.of_eq rfl rfl rfl rfl
      simp only [Mach.rounds, po_w, po_requests]
      split
      · rfl
      · rw [po_applyAll c e H S _ _ _ h]
        split
        · -- marks differ: guards
          rw [show ({ (m.applyAll m.w.requests 0).po c e H S with
                w := { ((m.applyAll m.w.requests 0).po c e H S).w with requests := [] } } : Mach U) =
              Mach.po c e H S { m.applyAll m.w.requests 0 with w := { (m.applyAll m.w.requests 0).w with requests := [] } }
              from rfl]
          cases initial
          · simp only [Bool.false_eq_true, ↓reduceIte, po_approvedByGuards c e H S ha']
            have hg := approvedByGuards_PI _ cur m.w.requests ha'
            split
            · exact po_rounds false fuel _ _ _ hg
            · rw [po_clearTargets]
              exact po_rounds false fuel
                { (Mach.approvedByGuards _ cur m.w.requests).1 with
                  root := (Mach.approvedByGuards _ cur m.w.requests).1.root.restoreMarks backup,
                  w := (Mach.approvedByGuards _ cur m.w.requests).1.w.clearTargets } backup cur hg.clearTargets
          · simp only [↓reduceIte, po_approvedByEntryGuards c e H S ha']
            have hg := approvedByEntryGuards_PI _ cur m.w.requests ha'
            split
            · exact po_rounds true fuel _ _ _ hg
            · exact po_rounds true fuel
                { (Mach.approvedByEntryGuards _ cur m.w.requests).1 with
                  root := (Mach.approvedByEntryGuards _ cur m.w.requests).1.root.restoreMarks backup } backup cur hg
        · exact po_rounds initial fuel
            { m.applyAll m.w.requests 0 with w := { (m.applyAll m.w.requests 0).w with requests := [] } } backup cur ha'

theorem po_setPrevious (w : World U) (cur : List Transition) :
    ({ w.po c e H S with previous := if (w.po c e H S).cfg.history then cur else (w.po c e H S).previous } : World U) =
      World.po c e H S { w with previous := if w.cfg.history then cur else w.previous } := rfl

theorem po_finishStep (h : m.w.PI) (current : List Transition) :
    stepTailRc (m.po c e H S) current = (stepTailRc m current).po c e H S := by
  unfold stepTailRc
  cases hc : current.isEmpty
  · simp only [Bool.false_eq_true, ↓reduceIte]
    have hs : (({ m.w.freshControl with current := current } : World U).snapshot m.root false false).PI :=
      by refine World.PI.snapshot ?_ _ _ _; exact h.freshControl.of_eq rfl rfl rfl rfl
    have hw : (({ (m.po c e H S).w.freshControl with current := current } : World U).snapshot (m.po c e H S).root false false) =
        World.po c e H S (({ m.w.freshControl with current := current } : World U).snapshot m.root false false) := rfl
    rw [hw, show (m.po c e H S).root = m.root from rfl, Node.commit_po c e H S _ _ hs]
    rfl
  · simp only [↓reduceIte]
    rfl

theorem stepTail_PI (h : m.w.PI) (current : List Transition) : (stepTailRc m current).w.PI := by
  simp only [stepTailRc, Mach.updateActivity]
  pis [Node.commit_PI _ _]

theorem po_processTail {m1 : Mach U} (h : m1.w.PI) :
    processTailRc (m1.po c e H S) = (processTailRc m1).po c e H S := by
  unfold processTailRc
  rw [show (m1.po c e H S).w.cfg.substitutionLimit = m1.w.cfg.substitutionLimit from rfl,
    show (m1.po c e H S).w.requests = m1.w.requests from rfl, show (m1.po c e H S).root = m1.root from rfl]
  split
  · rfl
  · have hf : ({ m1 with w := m1.w.freshControl } : Mach U).w.PI := h.freshControl
    rw [show ({ m1.po c e H S with w := (m1.po c e H S).w.freshControl } : Mach U) =
        Mach.po c e H S { m1 with w := m1.w.freshControl } from rfl, po_rounds c e H S _ _ _ _ _ hf]
    exact po_finishStep c e H S (rounds_PI _ _ _ _ _ hf) _

theorem po_processRequest (h : m.w.PI) : (m.po c e H S).processRequest = m.processRequest.po c e H S := by
  rw [processRequest_staged, processRequest_staged,
    ← po_processTail c e H S (m1 := { m with w := m.w.clearTargets }) h.clearTargets]
  show processTailRc { m with w := (m.w.po c e H S).clearTargets } = _
  rw [po_clearTargets]

theorem po_query (h : m.w.PI) : (m.po c e H S).query = m.query.po c e H S := by
  unfold Mach.query
  rw [show ((m.po c e H S).w.freshControl).snapshot (m.po c e H S).root true false =
      World.po c e H S ((m.w.freshControl).snapshot m.root true false) from rfl,
    show (m.po c e H S).root = m.root from rfl, show (m.po c e H S).w.cfg.topDown = m.w.cfg.topDown from rfl]
  simp only [Node.query_po c e H S _ _ _ (h.freshControl.snapshot ..)]

theorem po_request (k : Kind) (d : Nat) (p : Option Nat) :
    (m.po c e H S).request k d p = (m.request k d p).po c e H S := by
  unfold Mach.request
  by_cases h : m.w.requests.length < m.w.cfg.queueCap
  · simp only [h, ↓reduceIte, show (m.po c e H S).w.requests = m.w.requests from rfl,
      show (m.po c e H S).w.cfg.queueCap = m.w.cfg.queueCap from rfl]
    rw [show ({ (m.po c e H S).w with requests := m.w.requests ++ [⟨none, d, k, p⟩] } : World U) =
      World.po c e H S { m.w with requests := m.w.requests ++ [⟨none, d, k, p⟩] } from rfl, po_logRec]
  · simp only [h, ↓reduceIte, show (m.po c e H S).w.requests = m.w.requests from rfl,
      show (m.po c e H S).w.cfg.queueCap = m.w.cfg.queueCap from rfl]
    rw [po_logRec]

theorem po_immediate (h : m.w.PI) (k : Kind) (d : Nat) (p : Option Nat) :
    (m.po c e H S).immediate k d p = (m.immediate k d p).po c e H S := by
  unfold Mach.immediate
  rw [po_request, po_processRequest c e H S (request_PI m k d p h)]

/-! ### `initialEnter` -/

theorem po_enterHead (h : m.w.PI) : enterHeadRc (m.po c e H S) = (enterHeadRc m).po c e H S := by
  unfold enterHeadRc
  have hs : ((m.w.clearTargets.freshControl).snapshot m.root true false).PI := h.clearTargets.freshControl.snapshot ..
  have h0 : (((m.po c e H S).w.clearTargets.freshControl).snapshot (m.po c e H S).root true false) =
      World.po c e H S ((m.w.clearTargets.freshControl).snapshot m.root true false) := by
    show (((m.w.po c e H S).clearTargets.freshControl).snapshot m.root true false) = _
    rw [po_clearTargets]
    rfl
  simp only [h0, show (m.po c e H S).root = m.root from rfl, Node.request_po c e H S _ _ _ hs]
  exact congrArg Prod.fst (po_approvedByEntryGuards c e H S
    (m := { m with root := _, w := _ }) (Node.request_PI _ _ _ hs) [] [])

theorem enterHead_PI (h : m.w.PI) : (enterHeadRc m).w.PI := by
  simp only [enterHeadRc]
  pis [approvedByEntryGuards_PI _ _ _, Node.request_PI _ _ _]

theorem po_enterTail (h : m.w.PI) (current : List Transition) :
    enterTailRc (m.po c e H S) current = (enterTailRc m current).po c e H S := by
  unfold enterTailRc
  have hs : (({ m.w.freshControl with current := current, previous := (if m.w.freshControl.cfg.history then current else m.w.freshControl.previous) } : World U).snapshot m.root false false).PI :=
    by refine World.PI.snapshot ?_ _ _ _; exact h.freshControl.of_eq rfl rfl rfl rfl
  have hw : (({ (m.po c e H S).w.freshControl with current := current, previous := (if (m.po c e H S).w.freshControl.cfg.history then current else (m.po c e H S).w.freshControl.previous) } : World U).snapshot (m.po c e H S).root false false) =
      World.po c e H S (({ m.w.freshControl with current := current, previous := (if m.w.freshControl.cfg.history then current else m.w.freshControl.previous) } : World U).snapshot m.root false false) := rfl
  simp only [hw, show (m.po c e H S).root = m.root from rfl, Node.enter_po c e H S _ _ hs]
  rfl

theorem po_initialEnter (h : m.w.PI) : (m.po c e H S).initialEnter = m.initialEnter.po c e H S := by
  rw [initialEnter_staged, initialEnter_staged, po_enterHead c e H S h]
  rw [show ((enterHeadRc m).po c e H S).w.cfg.substitutionLimit = (enterHeadRc m).w.cfg.substitutionLimit from rfl,
    show ((enterHeadRc m).po c e H S).root = (enterHeadRc m).root from rfl,
    po_rounds c e H S _ _ _ _ _ (enterHead_PI h)]
  exact po_enterTail c e H S (rounds_PI _ _ _ _ _ (enterHead_PI h)) _

/-! ### `finalExit`, `reset`, `load` -/

theorem _root_.Hfsm.World.po_wipe (w : World U) :
    (w.po c e H S).wipeRc = w.wipeRc.po c e (statusZero w.cfg.regionCount) (statusZero w.cfg.regionCount) := by
  unfold World.wipeRc
  rw [po_clearPlanData, po_clearTargets]

theorem _root_.Hfsm.World.po_noHistory (w : World U) : (w.po c e H S).noHistoryRc = w.noHistoryRc.po c e H S := by
  unfold World.noHistoryRc
  rw [po_clearTargets]

theorem _root_.Hfsm.World.PI.wipe {w : World U} (h : w.PI) : w.wipeRc.PI := by
  unfold World.wipeRc
  exact h.clearPlanData.clearTargets.of_eq rfl rfl rfl rfl

theorem _root_.Hfsm.World.PI.noHistory {w : World U} (h : w.PI) : w.noHistoryRc.PI := by
  unfold World.noHistoryRc
  exact h.clearTargets.of_eq rfl rfl rfl rfl

theorem exit_regionCount (n : Node) (w : World U) : (n.exit w).2.cfg = w.cfg :=
  (safeRel.exit n w).1

theorem po_finalExit (h : m.w.PI) :
    (m.po c e H S).finalExit =
      m.finalExit.po c e (statusZero m.w.cfg.regionCount) (statusZero m.w.cfg.regionCount) := by
  rw [finalExit_staged, finalExit_staged]
  rw [show ((m.po c e H S).w.freshControl).snapshot (m.po c e H S).root false false =
      World.po c e H S ((m.w.freshControl).snapshot m.root false false) from rfl,
    show (m.po c e H S).root = m.root from rfl, Node.exit_po c e H S _ _ (h.freshControl.snapshot ..)]
  simp only [po_wipe]
  have hc : (m.root.exit ((m.w.freshControl).snapshot m.root false false)).2.cfg.regionCount = m.w.cfg.regionCount := by
    rw [exit_regionCount]; rfl
  rw [hc]
  rfl

theorem po_reset (h : m.w.PI) : (m.po c e H S).reset = m.reset.po c e H S := by
  rw [reset_staged, reset_staged]
  have hs : ((m.w.freshControl).snapshot m.root false false).PI := h.freshControl.snapshot ..
  have h0 : ((m.po c e H S).w.freshControl).snapshot (m.po c e H S).root false false =
      World.po c e H S ((m.w.freshControl).snapshot m.root false false) := rfl
  simp only [h0, show (m.po c e H S).root = m.root from rfl, Node.exit_po c e H S _ _ hs, po_noHistory]
  have he := Node.exit_PI m.root _ hs
  generalize (m.root.exit ((m.w.freshControl).snapshot m.root false false)) = ex at he
  have hq0 : (ex.2.noHistoryRc.snapshot ex.1.cleared true false).PI := he.noHistory.snapshot ..
  have h1 : (World.po c e H S ex.2.noHistoryRc).snapshot ex.1.cleared true false =
      World.po c e H S (ex.2.noHistoryRc.snapshot ex.1.cleared true false) := rfl
  simp only [h1, Node.request_po c e H S _ _ _ hq0]
  have hq := Node.request_PI ex.1.cleared { kind := .change, index := none } _ hq0
  generalize (ex.1.cleared.request { kind := .change, index := none } (ex.2.noHistoryRc.snapshot ex.1.cleared true false)) = q at hq
  have h2 : (World.po c e H S q.2).snapshot q.1 false false = World.po c e H S (q.2.snapshot q.1 false false) := rfl
  simp only [h2, Node.enter_po c e H S _ _ (hq.snapshot ..)]
  rfl

theorem po_loadActive (h : m.w.PI) (st : List Bool) (hH : H = statusZero m.w.cfg.regionCount)
    (hS : S = statusZero m.w.cfg.regionCount) :
    (m.po c e H S).loadActive st = (m.loadActive st).po c e H S := by
  subst hH hS
  rw [loadActive_staged, loadActive_staged]
  rw [show (m.po c e (statusZero m.w.cfg.regionCount) (statusZero m.w.cfg.regionCount)).root = m.root from rfl]
  split
  · show ({ m with w := (m.w.po c e _ _).fail' _ } : Mach U) = _
    rw [po_fail']
  · next root _ _ =>
    have hs : ((m.w.wipeRc.freshControl).snapshot root false false).PI := h.wipe.freshControl.snapshot ..
    have h0 : (((m.po c e (statusZero m.w.cfg.regionCount) (statusZero m.w.cfg.regionCount)).w.wipeRc.freshControl).snapshot root false false) =
        World.po c e (statusZero m.w.cfg.regionCount) (statusZero m.w.cfg.regionCount)
          ((m.w.wipeRc.freshControl).snapshot root false false) := by
      show (((m.w.po c e _ _).wipeRc.freshControl).snapshot root false false) = _
      rw [po_wipe]
      rfl
    simp only [h0, Node.commit_po c e _ _ _ _ hs]
    rfl

theorem po_loadEnter (h : m.w.PI) (st : List Bool) : (m.po c e H S).loadEnter st = (m.loadEnter st).po c e H S := by
  rw [loadEnter_staged, loadEnter_staged]
  rw [show (m.po c e H S).root = m.root from rfl]
  split
  · show ({ m with w := (m.w.po c e H S).fail' _ } : Mach U) = _
    rw [po_fail']
  · next root _ _ =>
    have hs : ((m.w.freshControl).snapshot root false false).PI := h.freshControl.snapshot ..
    have h0 : (((m.po c e H S).w.freshControl).snapshot root false false) =
        World.po c e H S ((m.w.freshControl).snapshot root false false) := rfl
    simp only [h0, Node.enter_po c e H S _ _ hs]
    rfl

/-! ### `replayTransitions`, `replayEnter` -/

theorem po_foldl_apply : (l : List (Transition × Nat)) → (m : Mach U) → m.w.PI →
    l.foldl Mach.applyStep (m.po c e H S) = (l.foldl Mach.applyStep m).po c e H S
  | [], m, _ => rfl
  | x :: rest, m, h => by
      simp only [List.foldl_cons, po_applyStep c e H S h]
      exact po_foldl_apply rest _ (applyStep_PI m x h)

theorem po_applyRequests (h : m.w.PI) (ts : List Transition) :
    (m.po c e H S).applyRequests ts = ((m.applyRequests ts).1.po c e H S, (m.applyRequests ts).2) := by
  rw [Mach.applyRequests_eq, Mach.applyRequests_eq]
  rw [show ({ m.po c e H S with w := (m.po c e H S).w.freshControl } : Mach U) =
      Mach.po c e H S { m with w := m.w.freshControl } from rfl,
    po_foldl_apply c e H S _ _ (show ({ m with w := m.w.freshControl } : Mach U).w.PI from h.freshControl)]

theorem po_replayCommit (h : m.w.PI) (ts : List Transition) :
    replayCommitRc (m.po c e H S) ts = (replayCommitRc m ts).po c e H S := by
  unfold replayCommitRc
  have hs : (({ m.w.freshControl with previous := ts } : World U).snapshot m.root false false).PI :=
    by refine World.PI.snapshot ?_ _ _ _; exact h.freshControl.of_eq rfl rfl rfl rfl
  have h0 : (({ (m.po c e H S).w.freshControl with previous := ts } : World U).snapshot (m.po c e H S).root false false) =
      World.po c e H S (({ m.w.freshControl with previous := ts } : World U).snapshot m.root false false) := rfl
  simp only [h0, show (m.po c e H S).root = m.root from rfl, Node.commit_po c e H S _ _ hs]
  rfl

theorem po_replayTransitions (h : m.w.PI) (ts : List Transition) :
    (m.po c e H S).replayTransitions ts = ((m.replayTransitions ts).1.po c e H S, (m.replayTransitions ts).2) := by
  rw [replayTransitions_staged, replayTransitions_staged]
  have hn : ({ m with w := m.w.noHistoryRc } : Mach U).w.PI := h.noHistory
  have h1 : ({ m.po c e H S with w := (m.po c e H S).w.noHistoryRc } : Mach U) = Mach.po c e H S { m with w := m.w.noHistoryRc } := by
    show ({ m with w := (m.w.po c e H S).noHistoryRc } : Mach U) = _
    rw [po_noHistory]
  rw [h1, po_applyRequests c e H S hn]
  split
  · rfl
  · split
    · simp only [po_replayCommit c e H S (applyRequests_PI _ ts hn)]
      rfl
    · rfl

theorem po_replayEnterCommit (h : m.w.PI) (ts : List Transition) :
    replayEnterCommitRc (m.po c e H S) ts = (replayEnterCommitRc m ts).po c e H S := by
  unfold replayEnterCommitRc
  have hs : (({ m.w.freshControl with previous := ts } : World U).snapshot m.root false false).PI :=
    by refine World.PI.snapshot ?_ _ _ _; exact h.freshControl.of_eq rfl rfl rfl rfl
  have h0 : (({ (m.po c e H S).w.freshControl with previous := ts } : World U).snapshot (m.po c e H S).root false false) =
      World.po c e H S (({ m.w.freshControl with previous := ts } : World U).snapshot m.root false false) := rfl
  simp only [h0, show (m.po c e H S).root = m.root from rfl, Node.enter_po c e H S _ _ hs]
  rfl

theorem po_replayEnterHead (h : m.w.PI) : replayEnterHeadRc (m.po c e H S) = (replayEnterHeadRc m).po c e H S := by
  unfold replayEnterHeadRc
  have hs : ((m.w.clearTargets.freshControl).snapshot m.root true false).PI := h.clearTargets.freshControl.snapshot ..
  have h0 : (((m.po c e H S).w.clearTargets.freshControl).snapshot (m.po c e H S).root true false) =
      World.po c e H S ((m.w.clearTargets.freshControl).snapshot m.root true false) := by
    show (((m.w.po c e H S).clearTargets.freshControl).snapshot m.root true false) = _
    rw [po_clearTargets]
    rfl
  simp only [h0, show (m.po c e H S).root = m.root from rfl, Node.request_po c e H S _ _ _ hs]

theorem replayEnterHead_PI (h : m.w.PI) : (replayEnterHeadRc m).w.PI := by
  simp only [replayEnterHeadRc]
  pis [Node.request_PI _ _ _]

theorem po_replayEnter (h : m.w.PI) (ts : List Transition) :
    (m.po c e H S).replayEnter ts = ((m.replayEnter ts).1.po c e H S, (m.replayEnter ts).2) := by
  rw [replayEnter_staged, replayEnter_staged, po_replayEnterHead c e H S h,
    po_applyRequests c e H S (replayEnterHead_PI h)]
  split
  · show (({ m with w := (m.w.po c e H S).clearTargets } : Mach U), false) = _
    rw [po_clearTargets]
  · split
    · simp only [po_replayEnterCommit c e H S (applyRequests_PI _ ts (replayEnterHead_PI h))]
      rfl
    · rfl


theorem po_load (h : m.w.PI) (st : List Bool) (hH : H = statusZero m.w.cfg.regionCount)
    (hS : S = statusZero m.w.cfg.regionCount) :
    (m.po c e H S).load st = (m.load st).po c e H S := by
  unfold Mach.load
  rw [show (m.po c e H S).root = m.root from rfl, show (m.po c e H S).w.cfg.manual = m.w.cfg.manual from rfl]
  split
  · show ({ m with w := (m.w.po c e H S).fail' _ } : Mach U) = _
    rw [po_fail']
  · split
    · exact po_loadActive c e H S h _ hH hS
    · split
      · exact po_loadEnter c e H S h _
      · show ({ m with w := (m.w.po c e H S).fail' _ } : Mach U) = _
        rw [po_fail']
  · split
    · split
      · rw [po_finalExit c e H S h, hH, hS]
      · rfl
    · show ({ m with w := (m.w.po c e H S).fail' _ } : Mach U) = _
      rw [po_fail']

/-! ### `update`, `react`: the passes, then the plan pass that a build without plans does not have -/

/-- `deepUpdatePlans` + `clearStatuses`, compiled in or not -/
def _root_.Hfsm.World.planPass (root : Node) (w : World U) : World U :=
  if w.cfg.plans then (root.updatePlans w).1.clearStatuses else w

/-- the world after the three update passes -/
def updPassesPo (m : Mach U) : World U :=
  (m.root.tick .postUpdate (m.root.tick .update (m.root.tick .preUpdate
    ((m.w.freshControl).snapshot m.root true false)).1).1).1

/-- the world after the three react passes -/
def rctPassesPo (m : Mach U) : World U :=
  (m.root.react .postReact (!m.w.cfg.topDown) true
    { (m.root.react .react m.w.cfg.topDown false
        { (m.root.react .preReact m.w.cfg.topDown false ((m.w.freshControl).snapshot m.root true false)).1
          with consumed := false }).1 with consumed := false }).1

theorem update_stagedPo (m : Mach U) :
    m.update = ({ m with w := (updPassesPo m).planPass m.root } : Mach U).processRequest := rfl

theorem react_stagedPo (m : Mach U) :
    m.react = ({ m with w := (rctPassesPo m).planPass m.root } : Mach U).processRequest := rfl

theorem updPassesPo_PI (h : m.w.PI) : (updPassesPo m).PI := by
  unfold updPassesPo
  pis [Node.tick_PI _ _ _]

theorem rctPassesPo_PI (h : m.w.PI) : (rctPassesPo m).PI := by
  unfold rctPassesPo
  pis [Node.react_PI _ _ _ _ _]

theorem po_updPassesPo (h : m.w.PI) : updPassesPo (m.po false e H S) = (updPassesPo m).po false e H S := by
  have h0 : ((m.w.freshControl).snapshot m.root true false).PI := h.freshControl.snapshot ..
  have h1 := Node.tick_PI .preUpdate m.root _ h0
  have h2 := Node.tick_PI .update m.root _ h1
  unfold updPassesPo
  rw [show ((m.po false e H S).w.freshControl).snapshot (m.po false e H S).root true false =
      World.po false e H S ((m.w.freshControl).snapshot m.root true false) from rfl,
    show (m.po false e H S).root = m.root from rfl]
  simp only [Node.tick_po e H S _ _ _ h0, Node.tick_po e H S _ _ _ h1, Node.tick_po e H S _ _ _ h2]

theorem po_rctPassesPo (h : m.w.PI) : rctPassesPo (m.po false e H S) = (rctPassesPo m).po false e H S := by
  have h0 : ((m.w.freshControl).snapshot m.root true false).PI := h.freshControl.snapshot ..
  have h1 : ({ (m.root.react .preReact m.w.cfg.topDown false ((m.w.freshControl).snapshot m.root true false)).1
      with consumed := false } : World U).PI := (Node.react_PI _ _ _ m.root _ h0).setConsumed false
  have h2 : ({ (m.root.react .react m.w.cfg.topDown false
        { (m.root.react .preReact m.w.cfg.topDown false ((m.w.freshControl).snapshot m.root true false)).1
          with consumed := false }).1 with consumed := false } : World U).PI :=
    (Node.react_PI _ _ _ m.root _ h1).setConsumed false
  unfold rctPassesPo
  rw [show ((m.po false e H S).w.freshControl).snapshot (m.po false e H S).root true false =
      World.po false e H S ((m.w.freshControl).snapshot m.root true false) from rfl,
    show (m.po false e H S).root = m.root from rfl,
    show (m.po false e H S).w.cfg.topDown = m.w.cfg.topDown from rfl]
  simp only [Node.react_po e H S _ _ _ _ _ h0, World.po_setConsumed, Node.react_po e H S _ _ _ _ _ h1,
    Node.react_po e H S _ _ _ _ _ h2]

theorem updPassesPo_taskStatus (hl : ∀ id inj, m.root ≠ .leaf id inj) : (updPassesPo m).taskStatus = {} := by
  unfold updPassesPo
  exact Node.tick_taskStatus _ _ _ hl (Node.tick_taskStatus _ _ _ hl (Node.tick_taskStatus _ _ _ hl rfl))

theorem rctPassesPo_taskStatus (hl : ∀ id inj, m.root ≠ .leaf id inj) : (rctPassesPo m).taskStatus = {} := by
  unfold rctPassesPo
  exact Node.react_taskStatus _ _ _ _ _ hl (Node.react_taskStatus _ _ _ _ _ hl (Node.react_taskStatus _ _ _ _ _ hl rfl))

theorem _root_.Hfsm.World.setErr_of_eq (w : World U) (x : Option String) (h : w.err = x) :
    ({ w with err := x } : World U) = w := by
  subst h; rfl

/-- The plan pass with no plan, seen without the status arrays: nothing (but possibly the contract-violation
flag, when `deepUpdatePlans` is sent through an inactive region). -/
theorem _root_.Hfsm.World.po_planPass {w : World U} (root : Node) (h : w.PI)
    (ht : (∀ id inj, root ≠ .leaf id inj) → w.taskStatus = {})
    (hG : e = none → (w.planPass root).err = none) :
    (w.planPass root).po c e H S = w.po c e H S := by
  unfold World.planPass at hG ⊢
  split
  · next hp =>
    simp only [hp, ↓reduceIte] at hG
    rw [po_clearStatuses_idle c e H S (Node.updatePlans_PI root w h)]
    cases root with
    | leaf id inj => simp only [Node.updatePlans]
    | compo id rid inj hd st a r q mk s =>
      have hi := Node.updatePlans_idle (.compo id rid inj hd st a r q mk s) w h.pe (ht (fun _ _ hx => nomatch hx))
      cases e with
      | some x => rw [hi]; rfl
      | none =>
        have e1 : ((Node.compo id rid inj hd st a r q mk s).updatePlans w).1.err = none := hG rfl
        have e2 : w.err = none := (safeRel.updatePlans (.compo id rid inj hd st a r q mk s) w).2.2.2 e1
        have e3 : ((Node.compo id rid inj hd st a r q mk s).updatePlans w).1 = w :=
          hi.trans (by rw [e1]; exact World.setErr_of_eq w none e2)
        rw [e3]
    | ortho id rid inj hd s =>
      have hi := Node.updatePlans_idle (.ortho id rid inj hd s) w h.pe (ht (fun _ _ hx => nomatch hx))
      cases e with
      | some x => rw [hi]; rfl
      | none =>
        have e1 : ((Node.ortho id rid inj hd s).updatePlans w).1.err = none := hG rfl
        have e2 : w.err = none := (safeRel.updatePlans (.ortho id rid inj hd s) w).2.2.2 e1
        have e3 : ((Node.ortho id rid inj hd s).updatePlans w).1 = w :=
          hi.trans (by rw [e1]; exact World.setErr_of_eq w none e2)
        rw [e3]
  · rfl

theorem _root_.Hfsm.World.PI.planPass {w : World U} (h : w.PI) (root : Node) : (w.planPass root).PI := by
  unfold World.planPass
  pis [Node.updatePlans_PI _ _]

/-- `update()` without plans = `update()` with idle plans. -/
theorem po_update (h : m.w.PI) (hG : e = none → m.update.w.err = none) :
    (m.po false e H S).update = m.update.po false e H S := by
  have hp := updPassesPo_PI h
  rw [update_stagedPo, update_stagedPo]
  show ({ m with w := (updPassesPo (m.po false e H S)).planPass m.root } : Mach U).processRequest = _
  rw [po_updPassesPo e H S h]
  have hpp : ((updPassesPo m).planPass m.root).PI := hp.planPass _
  rw [← po_processRequest false e H S (m := { m with w := (updPassesPo m).planPass m.root }) hpp]
  have hG' : e = none → ((updPassesPo m).planPass m.root).err = none := fun he =>
    (safeRel.mach_processRequest ({ m with w := (updPassesPo m).planPass m.root } : Mach U)).2.2.2 (hG he)
  have key := World.po_planPass false e H S m.root hp (fun hl => updPassesPo_taskStatus hl) hG'
  show ({ m with w := ((updPassesPo m).po false e H S).planPass m.root } : Mach U).processRequest =
    ({ m with w := ((updPassesPo m).planPass m.root).po false e H S } : Mach U).processRequest
  rw [key]
  rfl

/-- `react()` without plans = `react()` with idle plans. -/
theorem po_react (h : m.w.PI) (hG : e = none → m.react.w.err = none) :
    (m.po false e H S).react = m.react.po false e H S := by
  have hp := rctPassesPo_PI h
  rw [react_stagedPo, react_stagedPo]
  show ({ m with w := (rctPassesPo (m.po false e H S)).planPass m.root } : Mach U).processRequest = _
  rw [po_rctPassesPo e H S h]
  have hpp : ((rctPassesPo m).planPass m.root).PI := hp.planPass _
  rw [← po_processRequest false e H S (m := { m with w := (rctPassesPo m).planPass m.root }) hpp]
  have hG' : e = none → ((rctPassesPo m).planPass m.root).err = none := fun he =>
    (safeRel.mach_processRequest ({ m with w := (rctPassesPo m).planPass m.root } : Mach U)).2.2.2 (hG he)
  have key := World.po_planPass false e H S m.root hp (fun hl => rctPassesPo_taskStatus hl) hG'
  show ({ m with w := ((rctPassesPo m).po false e H S).planPass m.root } : Mach U).processRequest =
    ({ m with w := ((rctPassesPo m).planPass m.root).po false e H S } : Mach U).processRequest
  rw [key]
  rfl


/-! ### the status arrays are clear between operations -/

theorem _root_.Hfsm.World.po_self (w : World U) : w.po w.cfg.plans none w.headStatus w.subStatus = w := rfl

theorem _root_.Hfsm.World.status_of_eq_po {x y : World U} (h : x = y.po c e H S) :
    x.headStatus = H ∧ x.subStatus = S := by
  subst h; exact ⟨rfl, rfl⟩

/-- `headStatuses` / `subStatuses` hold no status -/
structure StatusClear (m : Mach U) : Prop where
  head : m.w.headStatus = statusZero m.w.cfg.regionCount
  sub : m.w.subStatus = statusZero m.w.cfg.regionCount

theorem po_self (m : Mach U) : m.po m.w.cfg.plans none m.w.headStatus m.w.subStatus = m := rfl

/-- an operation that commutes with `po` for the instance's own switch leaves the status arrays alone -/
theorem status_frame {m m' : Mach U}
    (h : m' = m'.po m.w.cfg.plans none m.w.headStatus m.w.subStatus) (hc : m'.w.cfg = m.w.cfg)
    (hs : m.StatusClear) : m'.StatusClear := by
  have := World.status_of_eq_po _ _ _ _ (congrArg Mach.w h)
  exact ⟨by rw [hc, this.1]; exact hs.head, by rw [hc, this.2]; exact hs.sub⟩

theorem processRequest_status (h : m.w.PI) :
    m.processRequest.w.headStatus = m.w.headStatus ∧ m.processRequest.w.subStatus = m.w.subStatus := by
  have := po_processRequest m.w.cfg.plans none m.w.headStatus m.w.subStatus h
  rw [po_self] at this
  exact World.status_of_eq_po _ _ _ _ (congrArg Mach.w this)

theorem updPassesPo_cfg (m : Mach U) : (updPassesPo m).cfg = m.w.cfg := by
  unfold updPassesPo
  rw [(safeRel.tick _ _ _).1, (safeRel.tick _ _ _).1, (safeRel.tick _ _ _).1]
  rfl

theorem rctPassesPo_cfg (m : Mach U) : (rctPassesPo m).cfg = m.w.cfg := by
  unfold rctPassesPo
  rw [(safeRel.react _ _ _ _ _).1]
  show (m.root.react .react m.w.cfg.topDown false _).1.cfg = _
  rw [(safeRel.react _ _ _ _ _).1]
  show (m.root.react .preReact m.w.cfg.topDown false _).1.cfg = _
  rw [(safeRel.react _ _ _ _ _).1]
  rfl

/-- after the passes and the plan pass the status arrays are clear again -/
theorem planPass_status {w : World U} (root : Node) (hw : w.cfg = m.w.cfg)
    (hoff : w.cfg.plans = false → w.headStatus = m.w.headStatus ∧ w.subStatus = m.w.subStatus)
    (hs : m.StatusClear) :
    (w.planPass root).headStatus = statusZero m.w.cfg.regionCount ∧
    (w.planPass root).subStatus = statusZero m.w.cfg.regionCount ∧ (w.planPass root).cfg = m.w.cfg := by
  unfold World.planPass
  split
  · have : (root.updatePlans w).1.cfg = w.cfg := (safeRel.updatePlans root w).1
    refine ⟨?_, ?_, ?_⟩
    · show statusZero (root.updatePlans w).1.cfg.regionCount = _
      rw [this, hw]
    · show statusZero (root.updatePlans w).1.cfg.regionCount = _
      rw [this, hw]
    · exact this.trans hw
  · next hp =>
    have hp' : w.cfg.plans = false := by simpa using hp
    exact ⟨(hoff hp').1.trans hs.head, (hoff hp').2.trans hs.sub, hw⟩

theorem update_statusClear (h : m.w.PI) (hs : m.StatusClear) : m.update.StatusClear := by
  have hcfg : m.update.w.cfg = m.w.cfg := (safeRel.mach_update m).1
  rw [update_stagedPo] at hcfg ⊢
  have hpp : ((updPassesPo m).planPass m.root).PI := (updPassesPo_PI h).planPass _
  have hfr := processRequest_status (m := { m with w := (updPassesPo m).planPass m.root }) hpp
  have hoff : (updPassesPo m).cfg.plans = false →
      (updPassesPo m).headStatus = m.w.headStatus ∧ (updPassesPo m).subStatus = m.w.subStatus := by
    intro hp
    rw [updPassesPo_cfg] at hp
    have := po_updPassesPo none m.w.headStatus m.w.subStatus h
    rw [← hp, po_self] at this
    exact World.status_of_eq_po _ _ _ _ this
  have hps := planPass_status (m := m) m.root (updPassesPo_cfg m) hoff hs
  exact ⟨by rw [hcfg, hfr.1]; exact hps.1, by rw [hcfg, hfr.2]; exact hps.2.1⟩

theorem react_statusClear (h : m.w.PI) (hs : m.StatusClear) : m.react.StatusClear := by
  have hcfg : m.react.w.cfg = m.w.cfg := (safeRel.mach_react m).1
  rw [react_stagedPo] at hcfg ⊢
  have hpp : ((rctPassesPo m).planPass m.root).PI := (rctPassesPo_PI h).planPass _
  have hfr := processRequest_status (m := { m with w := (rctPassesPo m).planPass m.root }) hpp
  have hoff : (rctPassesPo m).cfg.plans = false →
      (rctPassesPo m).headStatus = m.w.headStatus ∧ (rctPassesPo m).subStatus = m.w.subStatus := by
    intro hp
    rw [rctPassesPo_cfg] at hp
    have := po_rctPassesPo none m.w.headStatus m.w.subStatus h
    rw [← hp, po_self] at this
    exact World.status_of_eq_po _ _ _ _ this
  have hps := planPass_status (m := m) m.root (rctPassesPo_cfg m) hoff hs
  exact ⟨by rw [hcfg, hfr.1]; exact hps.1, by rw [hcfg, hfr.2]; exact hps.2.1⟩

end Mach

/-! ### operation sequences -/

namespace Api

/-- operations that run the update / react passes (and with them the plan pass) -/
def Op.ticks : Op → Bool
  | .update | .react => true
  | _ => false

variable (c : Bool) (e : Option String)

/-- One operation. `c` is free for operations without passes; `e = none` (keep the contract-violation flag)
needs the operation with plans to meet no violation. -/
theorem step_po (rc : Nat) {m : Mach U} (hrc : m.w.cfg.regionCount = rc) (h : m.w.PI) (o : Op)
    (ho : o.plansFree = true) (hc : c = false ∨ o.ticks = false)
    (hG : e = none → o.ticks = true → (step m o).w.err = none) :
    step (m.po c e (statusZero rc) (statusZero rc)) o = (step m o).po c e (statusZero rc) (statusZero rc) := by
  subst hrc
  cases o <;> simp only [Op.plansFree, Bool.false_eq_true] at ho <;> simp only [step] at hG ⊢
  · exact Mach.po_initialEnter c e _ _ h
  · exact Mach.po_finalExit c e _ _ h
  · rcases hc with rfl | hc
    · exact Mach.po_update e _ _ h (fun he => hG he rfl)
    · simp [Op.ticks] at hc
  · rcases hc with rfl | hc
    · exact Mach.po_react e _ _ h (fun he => hG he rfl)
    · simp [Op.ticks] at hc
  · exact Mach.po_query c e _ _ h
  · exact Mach.po_reset c e _ _ h
  · exact Mach.po_request c e _ _ ..
  · exact Mach.po_immediate c e _ _ h ..
  · exact Mach.po_load c e _ _ h _ rfl rfl
  · rw [Mach.po_replayTransitions c e _ _ h]
  · rw [Mach.po_replayEnter c e _ _ h]

theorem step_cfg (m : Mach U) (o : Op) : (step m o).w.cfg = m.w.cfg := (safeRel.step m o).1

theorem run_po (rc : Nat) : (ops : List Op) → (m : Mach U) → m.w.cfg.regionCount = rc → m.w.PI →
    (∀ o ∈ ops, o.plansFree = true) → (c = false ∨ ∀ o ∈ ops, o.ticks = false) →
    (e = none → (run m ops).w.err = none) →
    run (m.po c e (statusZero rc) (statusZero rc)) ops = (run m ops).po c e (statusZero rc) (statusZero rc)
  | [], m, _, _, _, _, _ => rfl
  | o :: os, m, hrc, h, ho, hc, hG => by
      have hG1 : e = none → o.ticks = true → (step m o).w.err = none := fun he _ =>
        (safeRel.run os (step m o)).2.2.2 (hG he)
      rw [run_cons, run_cons, step_po c e rc hrc h o (ho o List.mem_cons_self)
        (hc.imp id (fun hc => hc o List.mem_cons_self)) hG1]
      exact run_po rc os _ (by rw [step_cfg]; exact hrc) (step_PI m o (ho o List.mem_cons_self) h)
        (fun o' ho' => ho o' (List.mem_cons_of_mem _ ho'))
        (hc.imp id (fun hc o' ho' => hc o' (List.mem_cons_of_mem _ ho'))) hG

/-- construction with the switch set to `c` -/
theorem create_po (shape : Shape) (cfg : Config) :
    (Mach.create shape { cfg with plans := c } : Mach U) =
      (Mach.create shape cfg).po c none (statusZero shape.regionCount) (statusZero shape.regionCount) := by
  unfold Mach.create
  cases hh : cfg.history <;>
    simp [Mach.po, World.po, perr, statusZero, World.clearTargets, World.clearPlanData, World.clearStatuses,
      World.freshControl, hh]

theorem boot_po (shape : Shape) (cfg : Config) (ds : List (Decision U)) (rng : List U)
    (hds : ∀ d ∈ ds, Decision.plansFree d = true) :
    boot shape { cfg with plans := c } ds rng =
      (boot shape cfg ds rng).po c none (statusZero shape.regionCount) (statusZero shape.regionCount) := by
  unfold boot
  rw [create_po]
  have h0 : ({ (Mach.create shape cfg : Mach U) with
      w := { (Mach.create shape cfg : Mach U).w with ds := ds, rng := rng } } : Mach U).w.PI :=
    ⟨(Mach.create_PI shape cfg).pe, (Mach.create_PI shape cfg).su, (Mach.create_PI shape cfg).fa, hds⟩
  generalize (Mach.create shape cfg : Mach U) = m0 at h0
  have hm : ({ m0.po c none (statusZero shape.regionCount) (statusZero shape.regionCount) with
        w := { (m0.po c none (statusZero shape.regionCount) (statusZero shape.regionCount)).w with ds := ds, rng := rng } } : Mach U) =
      Mach.po c none (statusZero shape.regionCount) (statusZero shape.regionCount)
        { m0 with w := { m0.w with ds := ds, rng := rng } } := rfl
  simp only [show ({ cfg with plans := c } : Config).manual = cfg.manual from rfl]
  rw [hm]
  split
  · rfl
  · exact Mach.po_initialEnter c none _ _ h0

theorem create_regionCount (shape : Shape) (cfg : Config) :
    (Mach.create shape cfg : Mach U).w.cfg.regionCount = shape.regionCount := by
  unfold Mach.create
  cases hh : cfg.history <;> simp [World.clearTargets, World.clearPlanData, World.clearStatuses, World.freshControl, hh]

theorem boot_regionCount (shape : Shape) (cfg : Config) (ds : List (Decision U)) (rng : List U) :
    (boot shape cfg ds rng).w.cfg.regionCount = shape.regionCount := by
  unfold boot
  dsimp only
  split
  · exact create_regionCount shape cfg
  · exact (congrArg Config.regionCount (step_cfg _ .enter)).trans (create_regionCount shape cfg)

/-! the status arrays stay clear -/

theorem create_statusClear (shape : Shape) (cfg : Config) : (Mach.create shape cfg : Mach U).StatusClear := by
  constructor <;>
  · unfold Mach.create
    cases hh : cfg.history <;>
      simp [statusZero, World.clearTargets, World.clearPlanData, World.clearStatuses, World.freshControl, hh]

theorem step_statusClear {m : Mach U} (h : m.w.PI) (hs : m.StatusClear) (o : Op) (ho : o.plansFree = true) :
    (step m o).StatusClear := by
  by_cases ht : o.ticks = true
  · cases o <;> simp only [Op.ticks, Bool.false_eq_true] at ht
    · exact Mach.update_statusClear h hs
    · exact Mach.react_statusClear h hs
  · have ht' : o.ticks = false := by simpa using ht
    have := step_po m.w.cfg.plans none m.w.cfg.regionCount rfl h o ho (Or.inr ht') (fun _ hx => absurd hx ht)
    have e1 := Mach.po_self m
    rw [hs.head, hs.sub] at e1
    rw [e1] at this
    have e2 : step m o = (step m o).po m.w.cfg.plans none m.w.headStatus m.w.subStatus := by
      rw [hs.head, hs.sub]; exact this
    exact Mach.status_frame e2 (step_cfg m o) hs

theorem run_statusClear : (ops : List Op) → (m : Mach U) → m.w.PI → m.StatusClear →
    (∀ o ∈ ops, o.plansFree = true) → (run m ops).StatusClear
  | [], _, _, hs, _ => hs
  | o :: os, m, h, hs, ho =>
      run_statusClear os _ (step_PI m o (ho o List.mem_cons_self) h) (step_statusClear h hs o (ho o List.mem_cons_self))
        (fun o' ho' => ho o' (List.mem_cons_of_mem _ ho'))

theorem boot_statusClear (shape : Shape) (cfg : Config) (ds : List (Decision U)) (rng : List U)
    (hds : ∀ d ∈ ds, Decision.plansFree d = true) : (boot shape cfg ds rng).StatusClear := by
  have h0 : ({ (Mach.create shape cfg : Mach U) with
      w := { (Mach.create shape cfg : Mach U).w with ds := ds, rng := rng } } : Mach U).w.PI :=
    ⟨(Mach.create_PI shape cfg).pe, (Mach.create_PI shape cfg).su, (Mach.create_PI shape cfg).fa, hds⟩
  have hs0 : ({ (Mach.create shape cfg : Mach U) with
      w := { (Mach.create shape cfg : Mach U).w with ds := ds, rng := rng } } : Mach U).StatusClear :=
    ⟨(create_statusClear shape cfg).head, (create_statusClear shape cfg).sub⟩
  unfold boot
  dsimp only
  split
  · exact hs0
  · exact step_statusClear h0 hs0 .enter rfl

end Api

/-! ### the two views used by the property theorems -/

/-- The same instance as seen by a build without `HFSM2_ENABLE_PLANS`: only the switch differs. -/
def Mach.plansOff (m : Mach U) : Mach U := { m with w := { m.w with cfg := { m.w.cfg with plans := false } } }

/-- Forget the model's contract-violation flag. -/
def Mach.eraseErr (m : Mach U) : Mach U := { m with w := { m.w with err := none } }

omit [UtilArith U] in
theorem Mach.po_eq_plansOff {m : Mach U} (hs : m.StatusClear) :
    m.po false none (statusZero m.w.cfg.regionCount) (statusZero m.w.cfg.regionCount) = m.plansOff := by
  have h1 := hs.head
  have h2 := hs.sub
  obtain ⟨r, w, sa, ac⟩ := m
  cases w
  simp only at h1 h2
  subst h1 h2
  rfl

omit [UtilArith U] in
theorem Mach.eraseErr_of_po_eq {x y : Mach U} (s : String) (rc : Nat)
    (h : x.po false (some s) (statusZero rc) (statusZero rc) = y.po false (some s) (statusZero rc) (statusZero rc))
    (hx : x.w.cfg.plans = false) (hcx : x.w.cfg.regionCount = rc) (hcy : y.w.cfg.regionCount = rc)
    (hsx : x.StatusClear) (hsy : y.StatusClear) :
    x.eraseErr = y.plansOff.eraseErr := by
  have a1 := hsx.head
  have a2 := hsx.sub
  have b1 := hsy.head
  have b2 := hsy.sub
  rw [hcx] at a1 a2
  rw [hcy] at b1 b2
  obtain ⟨xr, xw, xs, xa⟩ := x
  obtain ⟨yr, yw, ys, ya⟩ := y
  cases xw with | mk xc _ _ _ _ _ _ _ _ _ _ _ _ _ _ _ _ _ _ _ _ _ _ _ _ =>
  cases yw with | mk yc _ _ _ _ _ _ _ _ _ _ _ _ _ _ _ _ _ _ _ _ _ _ _ _ =>
  cases xc
  cases yc
  simp only [Mach.po, World.po, Mach.mk.injEq, World.mk.injEq, Config.mk.injEq] at h
  simp only at hx a1 a2 b1 b2
  simp only [Mach.eraseErr, Mach.plansOff, Mach.mk.injEq, World.mk.injEq, Config.mk.injEq]
  simp_all


end Hfsm
