/-
A generic "every traversal is a composition of primitives" principle.

`WRel R` says that the binary relation `R` on worlds (read: "`w'` is a possible successor of `w`")
is a preorder, holds across every change of the *scratch* fields of the world (the control registers,
status masks, streams, history pins — everything except `cfg`, `trace`, `requests`, `plans`, `err`),
and holds across each primitive that touches one of those five fields.  The theorems below show, by
mutual structural recursion mirroring every traversal of Model/*.lean, that then `R w (f n w).world`
for every traversal `f`.  Instances: the logger grammar (Proofs/Mirror.lean, C16), the capacity bounds
and the stickiness of `err` (Proofs/Bounds.lean, C11), invariance of `cfg`.
-/
import Hfsm.Model.Machine
import Lean

namespace Hfsm
variable {U : Type} [UtilArith U]

/-- Logger records that are not tied to one callback invocation. -/
def LogRec.loose : LogRec U → Bool
  | .method .. => false
  | .cancelled _ => false
  | _ => true

structure WRel (R : World U → World U → Prop) : Prop where
  refl  : ∀ w, R w w
  trans : ∀ {a b c}, R a b → R b c → R a c
  /-- changes confined to the scratch fields -/
  frame : ∀ {w w' : World U}, w'.cfg = w.cfg → w'.trace = w.trace → w'.requests = w.requests →
            w'.plans = w.plans → w'.err = w.err → R w w'
  fail' : ∀ w msg, R w (w.fail' msg)
  /-- a logger record outside any callback group -/
  logLoose : ∀ w (r : LogRec U), r.loose = true → R w (w.logRec r)
  /-- a state method: method record, then the handlers with their actions -/
  stateMethod : ∀ w sid inj headed m, R w (w.stateMethod sid inj headed m)
  headUtility : ∀ w sid inj headed, R w (World.headUtility w sid inj headed).1
  headUtilityWrap : ∀ w sid inj headed, R w (World.headUtilityWrap w sid inj headed).1
  headRank : ∀ w sid inj headed, R w (World.headRank w sid inj headed).1
  headSelect : ∀ w sid inj headed, R w (World.headSelect w sid inj headed).1
  /-- a request issued by the plan executor on behalf of a region head -/
  taskRequest : ∀ (w : World U) headId dest payload,
      R w { (({ w with origin := some headId }).ctlRequest .change dest payload) with origin := w.origin }
  /-- the plan executor replaces a plan by a sub-sequence of itself -/
  shrinkPlan : ∀ (w : World U) r (p : List Task), p.length ≤ (w.planOf r).length → R w (w.setPlan r p)
  /-- `requests.clear()` -/
  clearRequests : ∀ (w : World U), R w { w with requests := [] }
  /-- `planData.clear()` (the task lists) -/
  clearPlans : ∀ (w : World U) n, R w { w with plans := List.replicate n [] }
  /-- a request through the instance API: queued unless the queue is full, then logged -/
  apiRequest : ∀ (w : World U) (t : Transition),
      R w ((if w.requests.length < w.cfg.queueCap then { w with requests := w.requests ++ [t] } else w).logRec
            (.transition none t.kind t.dest))
  /-- `plan(regionId).append(…)` through the instance API -/
  planAppend : ∀ (w : World U) r t, R w (w.planAppend r t)

namespace WRel
variable {R : World U → World U → Prop} (hR : WRel R)
include hR

theorem pushRegion (w : World U) (rid hid size : Nat) : R w (w.pushRegion rid hid size).1 :=
  hR.frame rfl rfl rfl rfl rfl

theorem popRegion (w : World U) (sv : Nat × Nat × Nat) : R w (w.popRegion sv) :=
  hR.frame rfl rfl rfl rfl rfl

theorem exitState (w : World U) (sid inj : Nat) (headed : Bool) : R w (w.exitState sid inj headed) := by
  simp only [World.exitState]
  split
  · exact hR.trans (hR.stateMethod ..) (hR.frame rfl rfl rfl rfl rfl)
  · exact hR.stateMethod ..

theorem guardState (w : World U) (sid inj : Nat) (headed : Bool) (m : Method) :
    R w (w.guardState sid inj headed m).1 := hR.stateMethod ..

theorem runState (w : World U) (sid inj : Nat) (headed : Bool) (m : Method) :
    R w (w.runState sid inj headed m).1 := hR.stateMethod ..

theorem orHead (w : World U) (rid : Nat) (s : TaskStatus) : R w (w.orHead rid s) := by
  simp only [World.orHead]; split
  · exact hR.frame rfl rfl rfl rfl rfl
  · exact hR.refl _

theorem orSub (w : World U) (rid : Nat) (s : TaskStatus) : R w (w.orSub rid s) := by
  simp only [World.orSub]; split
  · exact hR.frame rfl rfl rfl rfl rfl
  · exact hR.refl _

theorem pin (w : World U) (sid : Nat) (ix : Option Nat) : R w (w.pin sid ix) := by
  simp only [World.pin]; split
  · exact hR.refl _
  · split
    · exact hR.frame rfl rfl rfl rfl rfl
    · exact hR.refl _


theorem freshControl (w : World U) : R w w.freshControl := hR.frame rfl rfl rfl rfl rfl

theorem snapshot (w : World U) (root : Node) (o g : Bool) : R w (w.snapshot root o g) :=
  hR.frame rfl rfl rfl rfl rfl

theorem clearTargets (w : World U) : R w w.clearTargets := by
  simp only [World.clearTargets]; split
  · exact hR.frame rfl rfl rfl rfl rfl
  · exact hR.refl _

theorem clearStatuses (w : World U) : R w w.clearStatuses := hR.frame rfl rfl rfl rfl rfl

theorem clearPlanData (w : World U) : R w w.clearPlanData :=
  hR.trans (hR.clearPlans w w.cfg.regionCount) (hR.frame rfl rfl rfl rfl rfl)

theorem planClear (w : World U) (r hid size : Nat) : R w (w.planClear r hid size) :=
  hR.trans (hR.shrinkPlan w r [] (Nat.zero_le _)) (hR.frame rfl rfl rfl rfl rfl)

/-- `R a b`, then a change of `b` confined to the scratch fields -/
theorem frame' {a b c : World U} (h : R a b) (h1 : c.cfg = b.cfg) (h2 : c.trace = b.trace)
    (h3 : c.requests = b.requests) (h4 : c.plans = b.plans) (h5 : c.err = b.err) : R a c :=
  hR.trans h (hR.frame h1 h2 h3 h4 h5)

/-- `R a b`, then the queue is emptied and scratch fields change -/
theorem frameReq {a b c : World U} (h : R a b) (h1 : c.cfg = b.cfg) (h2 : c.trace = b.trace)
    (h3 : c.requests = []) (h4 : c.plans = b.plans) (h5 : c.err = b.err) : R a c :=
  hR.trans (hR.trans h (hR.clearRequests b)) (hR.frame h1 h2 h3 h4 h5)

end WRel

open Lean Elab Tactic Meta in
/-- head constant of an expression of type `World U`, looking through pair projections -/
partial def worldHead (e : Expr) : Option Name :=
  let e := e.consumeMData
  match e with
  | .proj _ _ x => worldHead x
  | _ =>
    if e.isAppOfArity ``Prod.fst 3 || e.isAppOfArity ``Prod.snd 3 || e.isAppOfArity ``Hfsm.Mach.w 2 then
      worldHead e.appArg!
    else e.getAppFn.constName?

open Lean Elab Tactic Meta in
/-- `whead f`: succeeds iff the goal is `R a c` where `c` is (a projection of) an application of `f` -/
elab "whead " n:ident : tactic => do
  let g ← instantiateMVars (← getMainTarget)
  let c := g.appArg!
  let want ← Lean.resolveGlobalConstNoOverload n
  unless worldHead c == some want do throwError "head mismatch"

open Lean Elab Tactic Meta in
/-- `wsame`: succeeds iff the goal is syntactically `R a a` -/
elab "wsame" : tactic => do
  let g ← instantiateMVars (← getMainTarget)
  unless g.appArg! == g.appFn!.appArg! do throwError "not reflexive"

open Lean Elab Tactic Meta in
/-- `wupd hR`: the goal is `R a { b with … }` where the update leaves `cfg`, `trace`, `requests`, `plans`
and `err` alone: reduce it to `R a b`. -/
elab "wupd " h:ident : tactic => withMainContext do
  let g ← instantiateMVars (← getMainTarget)
  let c := g.appArg!.consumeMData
  unless c.isAppOf ``Hfsm.World.mk do throwError "not a structure literal"
  let args := c.getAppArgs
  -- args[0] is the type parameter, args[1] the `cfg` field
  let cfg := args[1]!.consumeMData
  let b ← match cfg with
    | .proj _ _ x => pure x
    | _ => if cfg.isAppOfArity ``Hfsm.World.cfg 2 then pure cfg.appArg! else throwError "cfg is not a projection"
  let bStx ← Term.exprToSyntax b
  evalTactic (← `(tactic| first
    | refine WRel.frame' $h (b := $bStx) ?_ rfl rfl rfl rfl rfl
    | refine WRel.frameReq $h (b := $bStx) ?_ rfl rfl rfl rfl rfl))

/-- `wr hR [ih₁, ih₂, …]`: prove `R w (… nested traversal …)` outside-in, peeling one primitive or one
recursive call (the `ihₖ`, given with `_` for their arguments) at a time, splitting on `if`/`match`.
Primitives are selected by the head symbol of the goal, so nothing is ever unfolded. -/
syntax "wr " ident " [" term,* "]" : tactic
macro_rules
  | `(tactic| wr $h [$ts,*]) => do
    let ih ← ts.getElems.mapM fun t => `(tactic| with_reducible refine WRel.trans $h ?_ $t)
    `(tactic| repeat' (first
      | (wsame; exact WRel.refl $h _)
      | (whead Hfsm.World.fail'; refine WRel.trans $h ?_ (WRel.fail' $h _ _))
      | (whead Hfsm.World.stateMethod; refine WRel.trans $h ?_ (WRel.stateMethod $h _ _ _ _ _))
      | (whead Hfsm.World.guardState; refine WRel.trans $h ?_ (WRel.guardState $h _ _ _ _ _))
      | (whead Hfsm.World.runState; refine WRel.trans $h ?_ (WRel.runState $h _ _ _ _ _))
      | (whead Hfsm.World.exitState; refine WRel.trans $h ?_ (WRel.exitState $h _ _ _ _))
      | (whead Hfsm.World.pushRegion; refine WRel.trans $h ?_ (WRel.pushRegion $h _ _ _ _))
      | (whead Hfsm.World.popRegion; refine WRel.trans $h ?_ (WRel.popRegion $h _ _))
      | (whead Hfsm.World.orHead; refine WRel.trans $h ?_ (WRel.orHead $h _ _ _))
      | (whead Hfsm.World.orSub; refine WRel.trans $h ?_ (WRel.orSub $h _ _ _))
      | (whead Hfsm.World.logRec; refine WRel.trans $h ?_ (WRel.logLoose $h _ _ rfl))
      | (whead Hfsm.World.freshControl; refine WRel.trans $h ?_ (WRel.freshControl $h _))
      | (whead Hfsm.World.snapshot; refine WRel.trans $h ?_ (WRel.snapshot $h _ _ _ _))
      | (whead Hfsm.World.clearTargets; refine WRel.trans $h ?_ (WRel.clearTargets $h _))
      | (whead Hfsm.World.clearStatuses; refine WRel.trans $h ?_ (WRel.clearStatuses $h _))
      | (whead Hfsm.World.clearPlanData; refine WRel.trans $h ?_ (WRel.clearPlanData $h _))
      | (whead Hfsm.World.planClear; refine WRel.trans $h ?_ (WRel.planClear $h _ _ _ _))
      | (whead Hfsm.World.planAppend; refine WRel.trans $h ?_ (WRel.planAppend $h _ _ _))
      | (whead Hfsm.World.pin; refine WRel.trans $h ?_ (WRel.pin $h _ _ _))
      | (whead Hfsm.World.headUtility; refine WRel.trans $h ?_ (WRel.headUtility $h _ _ _ _))
      | (whead Hfsm.World.headUtilityWrap; refine WRel.trans $h ?_ (WRel.headUtilityWrap $h _ _ _ _))
      | (whead Hfsm.World.headRank; refine WRel.trans $h ?_ (WRel.headRank $h _ _ _ _))
      | (whead Hfsm.World.headSelect; refine WRel.trans $h ?_ (WRel.headSelect $h _ _ _ _))
      $[| $ih:tactic]*
      | wupd $h
      | dsimp only
      | split))

end Hfsm
