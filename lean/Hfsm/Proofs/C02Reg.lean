/-
C02 — registry projections of the operational passes.

The tree that `enter / exit / reenter / commit` return never depends on the `World` they thread (user
callbacks cannot write the registry), and for answer-free requests neither does the tree returned by
`request / fwdRequest / fwdActive`.  This file defines the pure tree functions (`…R`) and proves that
they are the first component of the corresponding model function, for every world.  They are proof
devices: the specification (`Proofs/C02Spec.lean`) does not use them.
-/
import Hfsm.Model.Machine
import Hfsm.Proofs.C02Spec

namespace Hfsm
variable {U : Type}

/-! ### lifecycle passes -/

mutual
def Node.enterR : Node → Node
  | .leaf id inj => .leaf id inj
  | .compo id rid inj h st _ r q m s =>
    match q with
    | none => .compo id rid inj h st none r q m s
    | some qi => .compo id rid inj h st (some qi) (if q = r then none else r) none m (s.enterAtR qi)
  | .ortho id rid inj h s => .ortho id rid inj h s.enterAllR
def Subs.enterAtR : Subs → Nat → Subs
  | .nil, _ => .nil
  | .cons b n r, 0 => .cons b n.enterR r
  | .cons b n r, i+1 => .cons b n (r.enterAtR i)
def Subs.enterAllR : Subs → Subs
  | .nil => .nil
  | .cons _ n r => .cons false n.enterR r.enterAllR
end

mutual
theorem C02.Node.enter_root : (n : Node) → (w : World U) → (n.enter w).1 = n.enterR
  | .leaf id inj, w => by simp only [Node.enter, Node.enterR]
  | .compo id rid inj h st a r q m s, w => by
    cases q with
    | none => simp only [Node.enter, Node.enterR]
    | some qi =>
      simp only [Node.enter, Node.enterR, World.pushRegion]
      rw [← C02.Subs.enterAt_root s qi]
  | .ortho id rid inj h s, w => by
    simp only [Node.enter, Node.enterR, World.pushRegion]
    rw [← C02.Subs.enterAll_root s]
theorem C02.Subs.enterAt_root : (s : Subs) → (i : Nat) → (w : World U) → (s.enterAt i w).1 = s.enterAtR i
  | .nil, _, w => by simp only [Subs.enterAt, Subs.enterAtR]
  | .cons b n r, 0, w => by
    simp only [Subs.enterAt, Subs.enterAtR]
    rw [← C02.Node.enter_root n w]
  | .cons b n r, i+1, w => by
    simp only [Subs.enterAt, Subs.enterAtR]
    rw [← C02.Subs.enterAt_root r i w]
theorem C02.Subs.enterAll_root : (s : Subs) → (w : World U) → (s.enterAll w).1 = s.enterAllR
  | .nil, w => by simp only [Subs.enterAll, Subs.enterAllR]
  | .cons b n r, w => by
    simp only [Subs.enterAll, Subs.enterAllR]
    rw [← C02.Node.enter_root n w, ← C02.Subs.enterAll_root r (n.enter w).2]
end

-- `exit` is the specification's `exited`, whatever the world
mutual
theorem C02.Node.exit_root : (n : Node) → (w : World U) → (n.exit w).1 = n.exited
  | .leaf id inj, w => by simp only [Node.exit, Node.exited]
  | .compo id rid inj h st a r q m s, w => by
    cases a with
    | none => simp only [Node.exit, Node.exited]
    | some ai =>
      simp only [Node.exit, Node.exited]
      rw [← C02.Subs.exitAt_root s ai w]
  | .ortho id rid inj h s, w => by
    simp only [Node.exit, Node.exited]
    rw [← C02.Subs.exitAll_root s w]
theorem C02.Subs.exitAt_root : (s : Subs) → (i : Nat) → (w : World U) → (s.exitAt i w).1 = s.exitedAt i
  | .nil, _, w => by simp only [Subs.exitAt, Subs.exitedAt]
  | .cons b n r, 0, w => by
    simp only [Subs.exitAt, Subs.exitedAt]
    rw [← C02.Node.exit_root n w]
  | .cons b n r, i+1, w => by
    simp only [Subs.exitAt, Subs.exitedAt]
    rw [← C02.Subs.exitAt_root r i w]
theorem C02.Subs.exitAll_root : (s : Subs) → (w : World U) → (s.exitAll w).1 = s.exitedAll
  | .nil, w => by simp only [Subs.exitAll, Subs.exitedAll]
  | .cons b n r, w => by
    simp only [Subs.exitAll, Subs.exitedAll]
    rw [← C02.Node.exit_root n w, ← C02.Subs.exitAll_root r (n.exit w).2]
end

mutual
def Node.reenterR : Node → Node
  | .leaf id inj => .leaf id inj
  | .compo id rid inj h st a r q m s =>
    match a, q with
    | some ai, some qi =>
      if ai = qi then .compo id rid inj h st a r none m (s.reenterAtR ai)
      else .compo id rid inj h st (some qi) (some ai) none m ((s.exitedAt ai).enterAtR qi)
    | _, _ => .compo id rid inj h st a r q m s
  | .ortho id rid inj h s => .ortho id rid inj h s.reenterAllR
def Subs.reenterAtR : Subs → Nat → Subs
  | .nil, _ => .nil
  | .cons b n r, 0 => .cons b n.reenterR r
  | .cons b n r, i+1 => .cons b n (r.reenterAtR i)
def Subs.reenterAllR : Subs → Subs
  | .nil => .nil
  | .cons _ n r => .cons false n.reenterR r.reenterAllR
end

mutual
theorem C02.Node.reenter_root : (n : Node) → (w : World U) → (n.reenter w).1 = n.reenterR
  | .leaf id inj, w => by simp only [Node.reenter, Node.reenterR]
  | .compo id rid inj h st a r q m s, w => by
    cases a with
    | none => simp only [Node.reenter, Node.reenterR]
    | some ai =>
      cases q with
      | none => simp only [Node.reenter, Node.reenterR]
      | some qi =>
        simp only [Node.reenter, Node.reenterR, World.pushRegion]
        split
        · rw [← C02.Subs.reenterAt_root s ai]
        · rw [← C02.Subs.exitAt_root s ai, ← C02.Subs.enterAt_root]
  | .ortho id rid inj h s, w => by
    simp only [Node.reenter, Node.reenterR, World.pushRegion]
    rw [← C02.Subs.reenterAll_root s]
theorem C02.Subs.reenterAt_root : (s : Subs) → (i : Nat) → (w : World U) → (s.reenterAt i w).1 = s.reenterAtR i
  | .nil, _, w => by simp only [Subs.reenterAt, Subs.reenterAtR]
  | .cons b n r, 0, w => by
    simp only [Subs.reenterAt, Subs.reenterAtR]
    rw [← C02.Node.reenter_root n w]
  | .cons b n r, i+1, w => by
    simp only [Subs.reenterAt, Subs.reenterAtR]
    rw [← C02.Subs.reenterAt_root r i w]
theorem C02.Subs.reenterAll_root : (s : Subs) → (w : World U) → (s.reenterAll w).1 = s.reenterAllR
  | .nil, w => by simp only [Subs.reenterAll, Subs.reenterAllR]
  | .cons b n r, w => by
    simp only [Subs.reenterAll, Subs.reenterAllR]
    rw [← C02.Node.reenter_root n w, ← C02.Subs.reenterAll_root r (n.reenter w).2]
end

mutual
def Node.commitR : Node → Node
  | .leaf id inj => .leaf id inj
  | .compo id rid inj h st a r q m s =>
    match a with
    | none => .compo id rid inj h st a r q m s
    | some ai =>
      match q with
      | none => .compo id rid inj h st a r q m (s.commitAtR ai)
      | some qi =>
        if qi ≠ ai then .compo id rid inj h st (some qi) (some ai) none m ((s.exitedAt ai).enterAtR qi)
        else if m then .compo id rid inj h st a r none m ((s.exitedAt ai).enterAtR ai)
        else .compo id rid inj h st a r none m (s.reenterAtR ai)
  | .ortho id rid inj h s => .ortho id rid inj h s.commitAllR
def Subs.commitAtR : Subs → Nat → Subs
  | .nil, _ => .nil
  | .cons b n r, 0 => .cons b n.commitR r
  | .cons b n r, i+1 => .cons b n (r.commitAtR i)
def Subs.commitAllR : Subs → Subs
  | .nil => .nil
  | .cons b n r => .cons b n.commitR r.commitAllR
end

mutual
theorem C02.Node.commit_root : (n : Node) → (w : World U) → (n.commit w).1 = n.commitR
  | .leaf id inj, w => by simp only [Node.commit, Node.commitR]
  | .compo id rid inj h st a r q m s, w => by
    cases a with
    | none => simp only [Node.commit, Node.commitR]
    | some ai =>
      cases q with
      | none =>
        simp only [Node.commit, Node.commitR, World.pushRegion]
        rw [← C02.Subs.commitAt_root s ai]
      | some qi =>
        simp only [Node.commit, Node.commitR, World.pushRegion]
        split
        · rw [← C02.Subs.exitAt_root s ai, ← C02.Subs.enterAt_root]
        · split
          · rw [← C02.Subs.exitAt_root s ai, ← C02.Subs.enterAt_root]
          · rw [← C02.Subs.reenterAt_root s ai]
  | .ortho id rid inj h s, w => by
    simp only [Node.commit, Node.commitR]
    rw [← C02.Subs.commitAll_root s]
theorem C02.Subs.commitAt_root : (s : Subs) → (i : Nat) → (w : World U) → (s.commitAt i w).1 = s.commitAtR i
  | .nil, _, w => by simp only [Subs.commitAt, Subs.commitAtR]
  | .cons b n r, 0, w => by
    simp only [Subs.commitAt, Subs.commitAtR]
    rw [← C02.Node.commit_root n w]
  | .cons b n r, i+1, w => by
    simp only [Subs.commitAt, Subs.commitAtR]
    rw [← C02.Subs.commitAt_root r i w]
theorem C02.Subs.commitAll_root : (s : Subs) → (w : World U) → (s.commitAll w).1 = s.commitAllR
  | .nil, w => by simp only [Subs.commitAll, Subs.commitAllR]
  | .cons b n r, w => by
    simp only [Subs.commitAll, Subs.commitAllR]
    rw [← C02.Node.commit_root n w, ← C02.Subs.commitAll_root r (n.commit w).2]
end


/-! ### answer-free requests -/

def AnswerFreeS (k : Kind) (s : Subs) : Prop :=
  k = .restart ∨ k = .resume ∨ (k = .change ∧ s.plainAll = true)

theorem AnswerFree.compo {k : Kind} {id rid inj h st a r q m s}
    (hf : AnswerFree k (.compo id rid inj h st a r q m s)) :
    AnswerFreeS k s ∧ (effectiveKind st k = .restart ∨ effectiveKind st k = .resume) := by
  rcases hf with hf | hf | ⟨hf, hp⟩
  · subst hf; exact ⟨.inl rfl, .inl (by cases st <;> rfl)⟩
  · subst hf; exact ⟨.inr (.inl rfl), .inr (by cases st <;> rfl)⟩
  · subst hf
    simp only [Node.plain, Bool.and_eq_true] at hp
    refine ⟨.inr (.inr ⟨rfl, hp.2⟩), ?_⟩
    cases st <;> simp [Strategy.plain] at hp <;> simp [effectiveKind]

theorem AnswerFree.ortho {k : Kind} {id rid inj h s}
    (hf : AnswerFree k (.ortho id rid inj h s)) : AnswerFreeS k s := by
  rcases hf with hf | hf | ⟨hf, hp⟩
  · exact .inl hf
  · exact .inr (.inl hf)
  · exact .inr (.inr ⟨hf, by simpa [Node.plain] using hp⟩)

theorem AnswerFreeS.cons {k : Kind} {b n r} (hf : AnswerFreeS k (.cons b n r)) :
    AnswerFree k n ∧ AnswerFreeS k r := by
  rcases hf with hf | hf | ⟨hf, hp⟩
  · exact ⟨.inl hf, .inl hf⟩
  · exact ⟨.inr (.inl hf), .inr (.inl hf)⟩
  · simp only [Subs.plainAll, Bool.and_eq_true] at hp
    exact ⟨.inr (.inr ⟨hf, hp.1⟩), .inr (.inr ⟨hf, hp.2⟩)⟩

section
variable (ans : Nat → Nat) (k : Kind)

mutual
def Node.requestR : Node → Node
  | .leaf id inj => .leaf id inj
  | .ortho id rid inj h s => .ortho id rid inj h s.requestAllR
  | .compo id rid inj h st a r _ m s =>
    let i := pickProng ans id st r k
    .compo id rid inj h st a r (some i) m (s.requestAtR i)
def Subs.requestAtR : Subs → Nat → Subs
  | .nil, _ => .nil
  | .cons b n r, 0 => .cons b n.requestR r
  | .cons b n r, i+1 => .cons b n (r.requestAtR i)
def Subs.requestAllR : Subs → Subs
  | .nil => .nil
  | .cons b n r => .cons b n.requestR r.requestAllR
end

mutual
def Node.fwdRequestR : Node → Node
  | .leaf id inj => .leaf id inj
  | .compo id rid inj h st a r q m s =>
    match q with
    | some qi => .compo id rid inj h st a r q m (s.fwdRequestAtR qi)
    | none => Node.requestR ans k (.compo id rid inj h st a r q m s)
  | .ortho id rid inj h s =>
    if s.anyBit then .ortho id rid inj h s.fwdRequestAllR
    else Node.requestR ans k (.ortho id rid inj h s)
def Subs.fwdRequestAtR : Subs → Nat → Subs
  | .nil, _ => .nil
  | .cons b n r, 0 => .cons b n.fwdRequestR r
  | .cons b n r, i+1 => .cons b n (r.fwdRequestAtR i)
def Subs.fwdRequestAllR : Subs → Subs
  | .nil => .nil
  | .cons b n r => .cons b n.fwdRequestR r.fwdRequestAllR
end

mutual
def Node.fwdActiveR : Node → Node
  | .leaf id inj => .leaf id inj
  | .compo id rid inj h st a r q m s =>
    match q with
    | none =>
      match a with
      | some ai => .compo id rid inj h st a r q m (s.fwdActiveAtR ai)
      | none => .compo id rid inj h st a r q m s
    | some qi => .compo id rid inj h st a r q m (Subs.fwdRequestAtR ans k s qi)
  | .ortho id rid inj h s => .ortho id rid inj h s.fwdActiveBitsR
def Subs.fwdActiveAtR : Subs → Nat → Subs
  | .nil, _ => .nil
  | .cons b n r, 0 => .cons b n.fwdActiveR r
  | .cons b n r, i+1 => .cons b n (r.fwdActiveAtR i)
def Subs.fwdActiveBitsR : Subs → Subs
  | .nil => .nil
  | .cons b n r => if b then .cons b n.fwdActiveR r.fwdActiveBitsR else .cons b n r.fwdActiveBitsR
end

end

variable [UtilArith U]

mutual
theorem C02.Node.request_root (ans : Nat → Nat) : (n : Node) → (rq : Req) → (w : World U) →
    AnswerFree rq.kind n → (n.request rq w).1 = n.requestR ans rq.kind
  | .leaf id inj, rq, w, _ => by simp only [Node.request, Node.requestR]
  | .ortho id rid inj h s, rq, w, hf => by
    simp only [Node.request, Node.requestR]
    rw [← C02.Subs.requestAll_root ans s rq _ hf.ortho]
  | .compo id rid inj h st a r q m s, rq, w, hf => by
    obtain ⟨hs, hk⟩ := hf.compo
    rcases hk with hk | hk
    · simp only [Node.request, Node.requestR, pickProng, hk]
      rw [← C02.Subs.requestAt_root ans s 0 rq _ hs]
    · simp only [Node.request, Node.requestR, pickProng, hk]
      rw [← C02.Subs.requestAt_root ans s _ rq _ hs]
theorem C02.Subs.requestAt_root (ans : Nat → Nat) : (s : Subs) → (i : Nat) → (rq : Req) → (w : World U) →
    AnswerFreeS rq.kind s → (s.requestAt i rq w).1 = s.requestAtR ans rq.kind i
  | .nil, _, rq, w, _ => by simp only [Subs.requestAt, Subs.requestAtR]
  | .cons b n r, 0, rq, w, hf => by
    simp only [Subs.requestAt, Subs.requestAtR]
    rw [← C02.Node.request_root ans n rq w hf.cons.1]
  | .cons b n r, i+1, rq, w, hf => by
    simp only [Subs.requestAt, Subs.requestAtR]
    rw [← C02.Subs.requestAt_root ans r i rq w hf.cons.2]
theorem C02.Subs.requestAll_root (ans : Nat → Nat) : (s : Subs) → (rq : Req) → (w : World U) →
    AnswerFreeS rq.kind s → (s.requestAll rq w).1 = s.requestAllR ans rq.kind
  | .nil, rq, w, _ => by simp only [Subs.requestAll, Subs.requestAllR]
  | .cons b n r, rq, w, hf => by
    simp only [Subs.requestAll, Subs.requestAllR]
    rw [← C02.Node.request_root ans n rq w hf.cons.1, ← C02.Subs.requestAll_root ans r rq _ hf.cons.2]
end

mutual
theorem C02.Node.fwdRequest_root (ans : Nat → Nat) : (n : Node) → (rq : Req) → (w : World U) →
    AnswerFree rq.kind n → (n.fwdRequest rq w).1 = n.fwdRequestR ans rq.kind
  | .leaf id inj, rq, w, _ => by simp only [Node.fwdRequest, Node.fwdRequestR]
  | .ortho id rid inj h s, rq, w, hf => by
    simp only [Node.fwdRequest, Node.fwdRequestR]
    split
    · rw [← C02.Subs.fwdRequestAll_root ans s rq _ hf.ortho]
    · rw [← C02.Node.request_root (U := U) ans _ rq _ hf]
  | .compo id rid inj h st a r q m s, rq, w, hf => by
    cases q with
    | none =>
      simp only [Node.fwdRequest, Node.fwdRequestR]
      rw [← C02.Node.request_root (U := U) ans _ rq _ hf]
    | some qi =>
      simp only [Node.fwdRequest, Node.fwdRequestR]
      rw [← C02.Subs.fwdRequestAt_root ans s qi rq _ hf.compo.1]
theorem C02.Subs.fwdRequestAt_root (ans : Nat → Nat) : (s : Subs) → (i : Nat) → (rq : Req) → (w : World U) →
    AnswerFreeS rq.kind s → (s.fwdRequestAt i rq w).1 = s.fwdRequestAtR ans rq.kind i
  | .nil, _, rq, w, _ => by simp only [Subs.fwdRequestAt, Subs.fwdRequestAtR]
  | .cons b n r, 0, rq, w, hf => by
    simp only [Subs.fwdRequestAt, Subs.fwdRequestAtR]
    rw [← C02.Node.fwdRequest_root ans n rq w hf.cons.1]
  | .cons b n r, i+1, rq, w, hf => by
    simp only [Subs.fwdRequestAt, Subs.fwdRequestAtR]
    rw [← C02.Subs.fwdRequestAt_root ans r i rq w hf.cons.2]
theorem C02.Subs.fwdRequestAll_root (ans : Nat → Nat) : (s : Subs) → (rq : Req) → (w : World U) →
    AnswerFreeS rq.kind s → (s.fwdRequestAll rq w).1 = s.fwdRequestAllR ans rq.kind
  | .nil, rq, w, _ => by simp only [Subs.fwdRequestAll, Subs.fwdRequestAllR]
  | .cons b n r, rq, w, hf => by
    simp only [Subs.fwdRequestAll, Subs.fwdRequestAllR]
    rw [← C02.Node.fwdRequest_root ans n rq w hf.cons.1, ← C02.Subs.fwdRequestAll_root ans r rq _ hf.cons.2]
end

mutual
theorem C02.Node.fwdActive_root (ans : Nat → Nat) : (n : Node) → (rq : Req) → (w : World U) →
    AnswerFree rq.kind n → (n.fwdActive rq w).1 = n.fwdActiveR ans rq.kind
  | .leaf id inj, rq, w, _ => by simp only [Node.fwdActive, Node.fwdActiveR]
  | .ortho id rid inj h s, rq, w, hf => by
    simp only [Node.fwdActive, Node.fwdActiveR]
    rw [← C02.Subs.fwdActiveBits_root ans s rq _ hf.ortho]
  | .compo id rid inj h st a r q m s, rq, w, hf => by
    cases q with
    | none =>
      cases a with
      | none => simp only [Node.fwdActive, Node.fwdActiveR]
      | some ai =>
        simp only [Node.fwdActive, Node.fwdActiveR]
        rw [← C02.Subs.fwdActiveAt_root ans s ai rq _ hf.compo.1]
    | some qi =>
      simp only [Node.fwdActive, Node.fwdActiveR]
      rw [← C02.Subs.fwdRequestAt_root (U := U) ans s qi rq _ hf.compo.1]
theorem C02.Subs.fwdActiveAt_root (ans : Nat → Nat) : (s : Subs) → (i : Nat) → (rq : Req) → (w : World U) →
    AnswerFreeS rq.kind s → (s.fwdActiveAt i rq w).1 = s.fwdActiveAtR ans rq.kind i
  | .nil, _, rq, w, _ => by simp only [Subs.fwdActiveAt, Subs.fwdActiveAtR]
  | .cons b n r, 0, rq, w, hf => by
    simp only [Subs.fwdActiveAt, Subs.fwdActiveAtR]
    rw [← C02.Node.fwdActive_root ans n rq w hf.cons.1]
  | .cons b n r, i+1, rq, w, hf => by
    simp only [Subs.fwdActiveAt, Subs.fwdActiveAtR]
    rw [← C02.Subs.fwdActiveAt_root ans r i rq w hf.cons.2]
theorem C02.Subs.fwdActiveBits_root (ans : Nat → Nat) : (s : Subs) → (rq : Req) → (w : World U) →
    AnswerFreeS rq.kind s → (s.fwdActiveBits rq w).1 = s.fwdActiveBitsR ans rq.kind
  | .nil, rq, w, _ => by simp only [Subs.fwdActiveBits, Subs.fwdActiveBitsR]
  | .cons b n r, rq, w, hf => by
    simp only [Subs.fwdActiveBits, Subs.fwdActiveBitsR]
    split
    · rw [← C02.Node.fwdActive_root ans n rq w hf.cons.1, ← C02.Subs.fwdActiveBits_root ans r rq _ hf.cons.2]
    · rw [← C02.Subs.fwdActiveBits_root ans r rq _ hf.cons.2]
end

end Hfsm
