/-
Simulation lemmas for plan storage: each modelled operation, started in a state satisfying
`PlanRep`, is defined, answers what the ghost lists prescribe and re-establishes `PlanRep` for the
updated ghost state.
-/
import Hfsm.Proofs.Plan

namespace Hfsm.Model

/-! ### Small list facts -/

theorem head?_getD_append_ne {l : List Nat} (hne : l ≠ []) (m : List Nat) (d : Nat) :
    (l ++ m).head?.getD d = l.head?.getD d := by
  cases l with
  | nil => exact absurd rfl hne
  | cons a t => simp

theorem getLast?_append_ne {l m : List Nat} (hm : m ≠ []) : (l ++ m).getLast? = m.getLast? := by
  rw [List.getLast?_append, List.getLast?_eq_some_getLast hm]; simp

theorem getLast?_getD_append_singleton (l : List Nat) (x d : Nat) :
    (l ++ [x]).getLast?.getD d = x := by simp

theorem getLast?_getD_lt {l : List Nat} {cap d : Nat} (hl : ∀ j ∈ l, j < cap) (hd : cap ≤ d) :
    l.getLast?.getD d < cap ↔ l ≠ [] := by
  cases hq : l.getLast? with
  | none =>
    have : l = [] := List.getLast?_eq_none_iff.mp hq
    simp [this]; omega
  | some z =>
    have hz := hl z (List.mem_of_getLast? hq)
    have : l ≠ [] := fun e => by simp [e] at hq
    simp [hz, this]

theorem head?_getD_lt {l : List Nat} {cap d : Nat} (hl : ∀ j ∈ l, j < cap) (hd : cap ≤ d) :
    l.head?.getD d < cap ↔ l ≠ [] := by
  cases l with
  | nil => simp; omega
  | cons a t => simp [hl a List.mem_cons_self]

/-- The link of an element in the middle of a doubly linked list. -/
theorem DL.mid {links : Array TaskLink} {i : Nat} {post : List Nat} :
    ∀ {pre : List Nat} {p : Nat}, DL links p (pre ++ i :: post) →
      links[i]? = some ⟨pre.getLast?.getD p, post.head?.getD INVALID⟩
  | [], _, ⟨h1, _⟩ => by simpa using h1
  | a :: pre', p, ⟨_, h2⟩ => by
    have := DL.mid (pre := pre') h2
    rw [this]
    cases pre' with
    | nil => simp
    | cons b t => rw [List.getLast?_cons_cons, List.getLast?_eq_some_getLast (by simp)]; simp

/-! ### Fresh and cleared storage -/

theorem PlanRep.new {cap nreg : Nat} (hpos : 0 < cap) (hle : cap ≤ INVALID) :
    PlanRep cap nreg (PlanData.new cap nreg) { g := G.new, L := fun _ => [] } where
  pool := Rep.new hpos hle
  lsize := by simp [PlanData.new]
  bsize := by simp [PlanData.new]
  esize := by simp [PlanData.new]
  nodup := by simp
  outside := by simp
  live := by simp
  disj := by simp
  cover := by intro i x h; simp [G.new, Live.empty] at h
  total := by simp [sumLen_nil, PlanData.new, Pool.new]
  bnd := by intro r hr; simp [PlanData.new, hr, Bounds.dflt]
  dl := by intro r; trivial
  dead := by intro i hi _; simp [PlanData.new, hi]
  pexists := by simp

/-- `PlanDataT::clear()` on any object of the right sizes gives the fresh abstract state
(pool items and their stale links are kept, everything else is refilled). -/
theorem PlanRep.clear {cap nreg : Nat} (pd : PlanData) (hpos : 0 < cap) (hle : cap ≤ INVALID)
    (h1 : pd.tasks.items.size = cap) (h2 : pd.links.size = cap) (h3 : pd.bounds.size = nreg)
    (h4 : pd.planExists.size = nreg) :
    PlanRep cap nreg pd.clear { g := G.new, L := fun _ => [] } where
  pool := Rep.clear pd.tasks hpos hle h1
  lsize := by simp [PlanData.clear, h2]
  bsize := by simp [PlanData.clear, h3]
  esize := by simp [PlanData.clear, h4]
  nodup := by simp
  outside := by simp
  live := by simp
  disj := by simp
  cover := by intro i x h; simp [G.new, Live.empty] at h
  total := by simp [sumLen_nil, PlanData.clear, Pool.clear]
  bnd := by intro r hr; simp [PlanData.clear, h3, hr, Bounds.dflt]
  dl := by intro r; trivial
  dead := by intro i hi _; simp [PlanData.clear, h2, hi]
  pexists := by simp

variable {cap nreg : Nat} {pd : PlanData} {pg : PG}

/-! ### append -/

/-- Re-establishing the invariant after a task was stored in dead slot `hd` and linked at the end
of region `r`'s list; `links'`/`bounds'` are whatever `linkTask` produced. -/
theorem PlanRep.of_append (h : PlanRep cap nreg pd pg) {r hd : Nat} (hr : r < nreg) {x : Item}
    {tasks' : Pool} {g' : G} (hpool : Rep cap tasks' g')
    (hlive' : g'.live = pg.g.live.set hd (some x)) (hdead : pg.g.live hd = none) (hhd : hd < cap)
    {links' : Array TaskLink} {bounds' : Array Bounds}
    (hls : links'.size = cap) (hbs : bounds'.size = nreg)
    (hb_r : bounds'[r]? = some ⟨(pg.L r ++ [hd]).head?.getD INVALID, hd⟩)
    (hb_o : ∀ r', r' ≠ r → bounds'[r']? = pd.bounds[r']?)
    (hdl_r : DL links' INVALID (pg.L r ++ [hd]))
    (hframe : ∀ j, j ≠ hd → j ∉ pg.L r → links'[j]? = pd.links[j]?) :
    PlanRep cap nreg
      { tasks := tasks', links := links', bounds := bounds',
        planExists := pd.planExists.setIfInBounds r true }
      { g := g', L := updL pg.L r (pg.L r ++ [hd]) } := by
  have hnot : ∀ r', hd ∉ pg.L r' := by
    intro r' hm
    obtain ⟨y, hy⟩ := h.live r' hd hm
    rw [hdead] at hy; cases hy
  have hcount : tasks'.count = pd.tasks.count + 1 := by
    rw [hpool.count, hlive', liveCount_set_some cap pg.g.live x hhd hdead, h.pool.count]
  exact {
    pool := hpool
    lsize := hls
    bsize := hbs
    esize := by simp [h.esize]
    nodup := by
      intro r'
      dsimp only
      by_cases e : r' = r
      · subst e
        rw [updL_same]
        exact List.nodup_append.mpr ⟨h.nodup r', by simp, fun a ha b hb => by
          simp at hb; subst hb; intro e; exact hnot r' (e ▸ ha)⟩
      · rw [updL_ne _ _ e]; exact h.nodup r'
    outside := by
      intro r' hr'
      dsimp only
      rw [updL_ne _ _ (by omega)]; exact h.outside r' hr'
    live := by
      intro r' i hi
      dsimp only at hi
      show ∃ y, g'.live i = some y
      rw [hlive']
      by_cases e : i = hd
      · subst e; exact ⟨x, by simp⟩
      · rw [Live.set_ne _ _ e]
        by_cases er : r' = r
        · subst er
          rw [updL_same] at hi
          simp only [List.mem_append, List.mem_singleton, e, or_false] at hi
          exact h.live r' i hi
        · rw [updL_ne _ _ er] at hi; exact h.live r' i hi
    disj := by
      intro r₁ r₂ i hne h1 h2
      have key : ∀ {ra rb : Nat}, ra ≠ rb → i ∈ updL pg.L r (pg.L r ++ [hd]) ra →
          i ∈ updL pg.L r (pg.L r ++ [hd]) rb → rb ≠ r → False := by
        intro ra rb hab ha hb hbr
        rw [updL_ne _ _ hbr] at hb
        by_cases ear : ra = r
        · subst ear
          rw [updL_same] at ha
          simp only [List.mem_append, List.mem_singleton] at ha
          rcases ha with ha | ha
          · exact h.disj ra rb i hab ha hb
          · subst ha; exact hnot rb hb
        · rw [updL_ne _ _ ear] at ha; exact h.disj ra rb i hab ha hb
      by_cases e2 : r₂ = r
      · have e1 : r₁ ≠ r := fun e => hne (e.trans e2.symm)
        exact key (Ne.symm hne) h2 h1 e1
      · exact key hne h1 h2 e2
    cover := by
      intro i y hy
      have hy' : (pg.g.live.set hd (some x)) i = some y := by rw [← hlive']; exact hy
      by_cases e : i = hd
      · subst e; exact ⟨r, by simp⟩
      · rw [Live.set_ne _ _ e] at hy'
        obtain ⟨r0, hr0⟩ := h.cover i y hy'
        refine ⟨r0, ?_⟩
        dsimp only
        by_cases er : r0 = r
        · subst er; simp [hr0]
        · rw [updL_ne _ _ er]; exact hr0
    total := by
      have := sumLen_updL nreg pg.L (pg.L r ++ [hd]) hr
      have ht := h.total
      show sumLen nreg (updL pg.L r (pg.L r ++ [hd])) = tasks'.count
      rw [hcount]; simp at this; omega
    bnd := by
      intro r' hr'
      dsimp only
      by_cases e : r' = r
      · subst e; simp only [updL_same, getLast?_getD_append_singleton]; exact hb_r
      · simp only [updL_ne _ _ e]
        rw [hb_o r' e]; exact h.bnd r' hr'
    dl := by
      intro r'
      dsimp only
      by_cases e : r' = r
      · subst e; simp only [updL_same]; exact hdl_r
      · simp only [updL_ne _ _ e]
        refine DL.frame (fun j hj => hframe j ?_ ?_) (h.dl r')
        · intro ej; exact hnot r' (ej ▸ hj)
        · exact h.disj r' r j e hj
    dead := by
      intro i hi hn
      have hn' : (pg.g.live.set hd (some x)) i = none := by rw [← hlive']; exact hn
      by_cases e : i = hd
      · subst e; simp at hn'
      · rw [Live.set_ne _ _ e] at hn'
        show links'[i]? = _
        rw [hframe i e]
        · exact h.dead i hi hn'
        · intro hm
          obtain ⟨y, hy⟩ := h.live r i hm
          rw [hn'] at hy; cases hy
    pexists := by
      intro r' hr' hne
      show (pd.planExists.setIfInBounds r true)[r']? = some true
      rw [Array.getElem?_setIfInBounds]
      by_cases e : r = r'
      · subst e; simp [h.esize, hr]
      · simp only [e, if_false]
        have : updL pg.L r (pg.L r ++ [hd]) r' = pg.L r' := updL_ne _ _ (Ne.symm e)
        simp only [this] at hne
        exact h.pexists r' hr' hne }

/-- `append` at capacity: returns `false`, changes nothing. -/
theorem append_full (h : PlanRep cap nreg pd pg) (r : Nat) (x : Item)
    (hc : ¬ pd.tasks.count < cap) : pd.append r x = some (pd, false) := by
  simp [PlanData.append, h.cap_eq, hc]

/-- `append` below capacity: returns `true`; the task is stored in a dead slot `idx` which becomes
the last element of region `r`'s list. -/
theorem append_sim (h : PlanRep cap nreg pd pg) {r : Nat} (hr : r < nreg) (x : Item)
    (hc : pd.tasks.count < cap) :
    ∃ pd' idx, pd.append r x = some (pd', true) ∧ idx < cap ∧ pg.g.live idx = none ∧
      (pg.g.emplace cap x).1.live = pg.g.live.set idx (some x) ∧
      PlanRep cap nreg pd' { g := (pg.g.emplace cap x).1, L := updL pg.L r (pg.L r ++ [idx]) } := by
  obtain ⟨hd, t, hv, hhd, hdead⟩ := h.pool.vac_head hc
  obtain ⟨tasks', he, hpool'⟩ := emplace_sim h.pool x
  obtain ⟨hidx, hlive'⟩ := G.emplace_cons (cap := cap) x hv
  rw [hidx] at he
  have hcapI := h.pool.capLe
  have hhdI : hd ≠ INVALID := by omega
  have hnot : ∀ r', hd ∉ pg.L r' := by
    intro r' hm
    obtain ⟨y, hy⟩ := h.live r' hd hm
    rw [hdead] at hy; cases hy
  have hbr := h.bnd r hr
  have hdl := h.dl r
  by_cases hL : pg.L r = []
  · -- first task of the region
    refine ⟨{ tasks := tasks', links := pd.links,
              bounds := pd.bounds.setIfInBounds r ⟨hd, hd⟩,
              planExists := pd.planExists.setIfInBounds r true }, hd, ?_, hhd, hdead, hlive', ?_⟩
    · simp only [PlanData.append, h.cap_eq, hc, if_true, h.esize, hr, he, PlanData.linkTask,
        ne_eq, hhdI, not_false_eq_true, hbr, hL]
      simp
    · refine h.of_append hr hpool' hlive' hdead hhd h.lsize (by simp [h.bsize]) ?_ ?_ ?_ ?_
      · rw [hL]; simp [h.bsize, hr]
      · intro r' e
        rw [Array.getElem?_setIfInBounds]; simp [Ne.symm e]
      · rw [hL]
        exact ⟨h.dead hd hhd hdead, trivial⟩
      · intro j _ _; rfl
  · -- linked behind the current last task
    have hlt : ∀ j ∈ pg.L r, j < cap := fun j hj => h.mem_lt hj
    let z := (pg.L r).getLast hL
    have hzmem : z ∈ pg.L r := List.getLast_mem hL
    have hz : z < cap := hlt z hzmem
    have hzhd : z ≠ hd := fun e => hnot r (e ▸ hzmem)
    obtain ⟨lz, hlz⟩ : ∃ lz, pd.links[z]? = some lz :=
      ⟨pd.links[z]'(by rw [h.lsize]; exact hz), by simp [h.lsize, hz]⟩
    have hlastEq : (pg.L r).getLast?.getD INVALID = z := by
      rw [List.getLast?_eq_some_getLast hL]; rfl
    have hfirst : (pg.L r).head?.getD INVALID ≠ INVALID := by
      have := (head?_getD_lt hlt hcapI).mpr hL
      omega
    have hlhd : pd.links[hd]? = some TaskLink.dflt := h.dead hd hhd hdead
    refine ⟨{ tasks := tasks',
              links := (pd.links.setIfInBounds z { lz with next := hd }).setIfInBounds hd ⟨z, INVALID⟩,
              bounds := pd.bounds.setIfInBounds r ⟨(pg.L r).head?.getD INVALID, hd⟩,
              planExists := pd.planExists.setIfInBounds r true }, hd, ?_, hhd, hdead, hlive', ?_⟩
    · simp only [PlanData.append, h.cap_eq, hc, if_true, h.esize, hr, he, PlanData.linkTask,
        ne_eq, hhdI, not_false_eq_true, hbr, hfirst, if_false, hlastEq, hlz,
        getElem?_set_ne _ _ hzhd, hlhd]
      simp [TaskLink.dflt]
    · refine h.of_append hr hpool' hlive' hdead hhd (by simp [h.lsize]) (by simp [h.bsize])
        ?_ ?_ ?_ ?_
      · rw [head?_getD_append_ne hL]; simp [h.bsize, hr]
      · intro r' e
        rw [Array.getElem?_setIfInBounds]; simp [Ne.symm e]
      · exact DL.append (by rw [h.lsize]; exact hhd) hL hdl (h.nodup r) (hnot r) lz hlz
      · intro j hj1 hj2
        have hjz : z ≠ j := fun e => hj2 (e ▸ hzmem)
        rw [getElem?_set_ne _ _ (Ne.symm hj1), getElem?_set_ne _ _ hjz]

/-! ### remove -/

/-- Distinctness facts about the neighbours `pi`, `ni` of an element `i` of a duplicate-free list of
slots. -/
theorem mid_facts {pre post : List Nat} {i cap : Nat} (hnd : (pre ++ i :: post).Nodup)
    (hlt : ∀ j ∈ pre ++ i :: post, j < cap) (hcapI : cap ≤ INVALID) :
    pre.getLast?.getD INVALID ≠ i ∧ post.head?.getD INVALID ≠ i ∧
    (pre.getLast?.getD INVALID < cap → pre.getLast?.getD INVALID ≠ post.head?.getD INVALID) ∧
    (pre.getLast?.getD INVALID < cap → pre.getLast?.getD INVALID ∈ pre) ∧
    (post.head?.getD INVALID < cap → post.head?.getD INVALID ∈ post) := by
  have hi : i < cap := hlt i (by simp)
  have hnd' := List.nodup_append.mp hnd
  have hnd'' := List.nodup_cons.mp hnd'.2.1
  have hpre : ∀ z, pre.getLast? = some z → z ∈ pre := fun z hz => List.mem_of_getLast? hz
  have hpost : ∀ n, post.head? = some n → n ∈ post := fun n hn => List.mem_of_head? hn
  refine ⟨?_, ?_, ?_, ?_, ?_⟩
  · cases hq : pre.getLast? with
    | none => simp; omega
    | some z =>
      simp only [Option.getD_some]
      exact hnd'.2.2 z (hpre z hq) i List.mem_cons_self
  · cases hq : post.head? with
    | none => simp; omega
    | some n =>
      simp only [Option.getD_some]
      intro e; exact hnd''.1 (e ▸ hpost n hq)
  · intro hp
    cases hq : pre.getLast? with
    | none => rw [hq] at hp; simp at hp; omega
    | some z =>
      simp only [Option.getD_some]
      cases hq' : post.head? with
      | none => simp; have := hlt z (List.mem_append_left _ (hpre z hq)); omega
      | some n =>
        simp only [Option.getD_some]
        exact hnd'.2.2 z (hpre z hq) n (List.mem_cons_of_mem _ (hpost n hq'))
  · intro hp
    cases hq : pre.getLast? with
    | none => rw [hq] at hp; simp at hp; omega
    | some z => simp only [Option.getD_some]; exact hpre z hq
  · intro hn
    cases hq : post.head? with
    | none => rw [hq] at hn; simp at hn; omega
    | some n => simp only [Option.getD_some]; exact hpost n hq

/-- Re-establishing the invariant after slot `i` was unlinked from region `r`'s list and returned to
the pool. -/
theorem PlanRep.of_remove (h : PlanRep cap nreg pd pg) {r i : Nat} (hr : r < nreg)
    {pre post : List Nat} (hL : pg.L r = pre ++ i :: post)
    {tasks' : Pool} (hpool : Rep cap tasks' (pg.g.remove i))
    {bounds' : Array Bounds} (hbs : bounds'.size = nreg)
    (hb_r : bounds'[r]? =
      some ⟨(pre ++ post).head?.getD INVALID, (pre ++ post).getLast?.getD INVALID⟩)
    (hb_o : ∀ r', r' ≠ r → bounds'[r']? = pd.bounds[r']?) :
    PlanRep cap nreg
      { tasks := tasks'
        links := unlink pd.links cap (pre.getLast?.getD INVALID) (post.head?.getD INVALID) i
        bounds := bounds', planExists := pd.planExists }
      { g := pg.g.remove i, L := updL pg.L r (pre ++ post) } := by
  have hcapI := h.pool.capLe
  have hnd : (pre ++ i :: post).Nodup := hL ▸ h.nodup r
  have hlt : ∀ j ∈ pre ++ i :: post, j < cap := fun j hj => h.mem_lt (r := r) (hL ▸ hj)
  have himem : i ∈ pg.L r := by rw [hL]; simp
  have hi : i < cap := hlt i (by simp)
  obtain ⟨y, hy⟩ := h.live r i himem
  obtain ⟨f1, f2, f3, f4, f5⟩ := mid_facts hnd hlt hcapI
  have hg := unlink_get pd.links h.lsize hi f1 f2 f3
  have hsub : ∀ j, j ∈ pre ++ post → j ∈ pg.L r ∧ j ≠ i := by
    intro j hj
    have hnd' := List.nodup_append.mp hnd
    have hnd'' := List.nodup_cons.mp hnd'.2.1
    rw [hL]
    simp only [List.mem_append] at hj
    rcases hj with hj | hj
    · exact ⟨by simp [hj], fun e => hnd'.2.2 j hj i List.mem_cons_self e⟩
    · exact ⟨by simp [hj], fun e => hnd''.1 (e ▸ hj)⟩
  have hliveEq : ∀ j, j ≠ i → (pg.g.remove i).live j = pg.g.live j :=
    fun j hj => Live.set_ne _ _ hj
  -- links outside region `r` are untouched
  have hout : ∀ j, j ∉ pg.L r →
      (unlink pd.links cap (pre.getLast?.getD INVALID) (post.head?.getD INVALID) i)[j]?
        = pd.links[j]? := by
    intro j hj
    rw [hg j]
    have h1 : j ≠ i := fun e => hj (e ▸ himem)
    have h2 : ¬ (j = pre.getLast?.getD INVALID ∧ pre.getLast?.getD INVALID < cap) := by
      intro ⟨e, hp⟩
      exact hj (by rw [hL, e]; exact List.mem_append_left _ (f4 hp))
    have h3 : ¬ (j = post.head?.getD INVALID ∧ post.head?.getD INVALID < cap) := by
      intro ⟨e, hn⟩
      exact hj (by rw [hL, e]; exact List.mem_append_right _ (List.mem_cons_of_mem _ (f5 hn)))
    simp [h1, h2, h3]
  exact {
    pool := hpool
    lsize := by rw [unlink_size]; exact h.lsize
    bsize := hbs
    esize := h.esize
    nodup := by
      intro r'
      dsimp only
      by_cases e : r' = r
      · subst e
        rw [updL_same]
        have hnd' := List.nodup_append.mp hnd
        exact List.nodup_append.mpr ⟨hnd'.1, (List.nodup_cons.mp hnd'.2.1).2,
          fun a ha b hb => hnd'.2.2 a ha b (List.mem_cons_of_mem _ hb)⟩
      · rw [updL_ne _ _ e]; exact h.nodup r'
    outside := by
      intro r' hr'
      dsimp only
      rw [updL_ne _ _ (by omega)]; exact h.outside r' hr'
    live := by
      intro r' j hj
      dsimp only at hj ⊢
      by_cases e : r' = r
      · subst e
        rw [updL_same] at hj
        obtain ⟨hm, hne⟩ := hsub j hj
        rw [hliveEq j hne]; exact h.live r' j hm
      · rw [updL_ne _ _ e] at hj
        have hne : j ≠ i := fun ej => h.disj r' r j e hj (ej ▸ himem)
        rw [hliveEq j hne]; exact h.live r' j hj
    disj := by
      intro r₁ r₂ j hne h1 h2
      dsimp only at h1 h2
      have m1 : j ∈ pg.L r₁ := by
        by_cases e : r₁ = r
        · subst e; rw [updL_same] at h1; exact (hsub j h1).1
        · rw [updL_ne _ _ e] at h1; exact h1
      have m2 : j ∈ pg.L r₂ := by
        by_cases e : r₂ = r
        · subst e; rw [updL_same] at h2; exact (hsub j h2).1
        · rw [updL_ne _ _ e] at h2; exact h2
      exact h.disj r₁ r₂ j hne m1 m2
    cover := by
      intro j z hz
      dsimp only at hz ⊢
      by_cases e : j = i
      · subst e; simp [G.remove] at hz
      · rw [hliveEq j e] at hz
        obtain ⟨r0, hr0⟩ := h.cover j z hz
        refine ⟨r0, ?_⟩
        by_cases er : r0 = r
        · subst er
          rw [updL_same]
          rw [hL] at hr0
          simp only [List.mem_append, List.mem_cons, e, false_or] at hr0
          simpa using hr0
        · rw [updL_ne _ _ er]; exact hr0
    total := by
      have := sumLen_updL nreg pg.L (pre ++ post) hr
      have ht := h.total
      have hc : tasks'.count + 1 = pd.tasks.count := by
        rw [hpool.count, h.pool.count]
        exact liveCount_set_none cap pg.g.live hi hy
      show sumLen nreg (updL pg.L r (pre ++ post)) = tasks'.count
      rw [hL] at this
      simp at this
      omega
    bnd := by
      intro r' hr'
      dsimp only
      by_cases e : r' = r
      · subst e; simp only [updL_same]; exact hb_r
      · simp only [updL_ne _ _ e]
        rw [hb_o r' e]; exact h.bnd r' hr'
    dl := by
      intro r'
      dsimp only
      by_cases e : r' = r
      · subst e
        simp only [updL_same]
        have hdl := h.dl r'
        rw [hL] at hdl
        refine DL.remove h.lsize hcapI hdl hnd ?_ hlt
        intro hm
        have := hlt _ hm
        omega
      · simp only [updL_ne _ _ e]
        exact DL.frame (fun j hj => hout j (fun hm => h.disj r' r j e hj hm)) (h.dl r')
    dead := by
      intro j hj hn
      dsimp only at hn ⊢
      by_cases e : j = i
      · subst e; rw [hg j]; simp
      · rw [hliveEq j e] at hn
        rw [hout j]
        · exact h.dead j hj hn
        · intro hm
          obtain ⟨z, hz⟩ := h.live r j hm
          rw [hn] at hz; cases hz
    pexists := by
      intro r' hr' hne
      dsimp only at hne ⊢
      by_cases e : r' = r
      · subst e; exact h.pexists r' hr' (by rw [hL]; simp)
      · rw [updL_ne _ _ e] at hne; exact h.pexists r' hr' hne }

/-- `PlanT::remove(i)` for an element `i` of region `r`'s list `pre ++ i :: post`. -/
theorem plan_remove_sim (h : PlanRep cap nreg pd pg) {r i : Nat} (hr : r < nreg)
    {pre post : List Nat} (hL : pg.L r = pre ++ i :: post) :
    ∃ pd', pd.remove r i = some pd' ∧
      PlanRep cap nreg pd' { g := pg.g.remove i, L := updL pg.L r (pre ++ post) } := by
  have hcapI := h.pool.capLe
  have hnd : (pre ++ i :: post).Nodup := hL ▸ h.nodup r
  have hlt : ∀ j ∈ pre ++ i :: post, j < cap := fun j hj => h.mem_lt (r := r) (hL ▸ hj)
  have himem : i ∈ pg.L r := by rw [hL]; simp
  have hi : i < cap := hlt i (by simp)
  obtain ⟨y, hy⟩ := h.live r i himem
  obtain ⟨f1, f2, f3, f4, f5⟩ := mid_facts hnd hlt hcapI
  obtain ⟨tasks', hrem, hpool'⟩ := Hfsm.Model.remove_sim h.pool hy
  have hdl := h.dl r
  rw [hL] at hdl
  have hlink := DL.mid hdl
  have hbr := h.bnd r hr
  have hpl : ∀ j ∈ pre, j < cap := fun j hj => hlt j (List.mem_append_left _ hj)
  have hpol : ∀ j ∈ post, j < cap :=
    fun j hj => hlt j (List.mem_append_right _ (List.mem_cons_of_mem _ hj))
  have hpiff := getLast?_getD_lt hpl hcapI
  have hniff := head?_getD_lt hpol hcapI
  -- the two bounds of the shortened list
  have hfirst : (if pre.getLast?.getD INVALID < cap then (pg.L r).head?.getD INVALID
                 else post.head?.getD INVALID) = (pre ++ post).head?.getD INVALID := by
    by_cases hp : pre.getLast?.getD INVALID < cap
    · have hne := hpiff.mp hp
      simp only [hp, if_true]
      rw [hL, head?_getD_append_ne hne, head?_getD_append_ne hne]
    · have : pre = [] := by
        by_cases e : pre = []
        · exact e
        · exact absurd (hpiff.mpr e) hp
      subst this
      simp only [List.getLast?_nil, Option.getD_none] at hp
      simp [hp]
  have hlast : (if post.head?.getD INVALID < cap then (pg.L r).getLast?.getD INVALID
                else pre.getLast?.getD INVALID) = (pre ++ post).getLast?.getD INVALID := by
    by_cases hn : post.head?.getD INVALID < cap
    · have hne := hniff.mp hn
      simp only [hn, if_true]
      rw [hL]
      have e1 : (pre ++ i :: post).getLast? = post.getLast? := by
        rw [getLast?_append_ne (by simp)]
        cases post with
        | nil => exact absurd rfl hne
        | cons b t => rw [List.getLast?_cons_cons]
      have e2 : (pre ++ post).getLast? = post.getLast? := getLast?_append_ne hne
      rw [e1, e2]
    · have : post = [] := by
        by_cases e : post = []
        · exact e
        · exact absurd (hniff.mpr e) hn
      subst this
      simp only [List.head?_nil, Option.getD_none] at hn
      simp [hn]
  -- what the model computes
  have hmodel : pd.remove r i = some
      { tasks := tasks'
        links := unlink pd.links cap (pre.getLast?.getD INVALID) (post.head?.getD INVALID) i
        bounds := pd.bounds.setIfInBounds r
          ⟨(pre ++ post).head?.getD INVALID, (pre ++ post).getLast?.getD INVALID⟩
        planExists := pd.planExists } := by
    rw [← hfirst, ← hlast]
    by_cases hp : pre.getLast?.getD INVALID < cap
    · obtain ⟨lp, hlp⟩ : ∃ lp, pd.links[pre.getLast?.getD INVALID]? = some lp :=
        ⟨pd.links[pre.getLast?.getD INVALID]'(by rw [h.lsize]; exact hp), by simp [h.lsize, hp]⟩
      have hl1i : (pd.links.setIfInBounds (pre.getLast?.getD INVALID)
          { lp with next := post.head?.getD INVALID })[i]? = some ⟨pre.getLast?.getD INVALID,
            post.head?.getD INVALID⟩ := by
        rw [getElem?_set_ne _ _ f1]; exact hlink
      by_cases hn : post.head?.getD INVALID < cap
      · obtain ⟨ln, hln⟩ : ∃ ln, pd.links[post.head?.getD INVALID]? = some ln :=
          ⟨pd.links[post.head?.getD INVALID]'(by rw [h.lsize]; exact hn), by simp [h.lsize, hn]⟩
        have hl1n : (pd.links.setIfInBounds (pre.getLast?.getD INVALID)
            { lp with next := post.head?.getD INVALID })[post.head?.getD INVALID]? = some ln := by
          rw [getElem?_set_ne _ _ (f3 hp)]; exact hln
        simp only [PlanData.remove, hlink, hbr, h.cap_eq, hp, if_true, hlp, hl1i, hn, hl1n, hrem,
          unlink, Option.getD_some]
      · simp only [PlanData.remove, hlink, hbr, h.cap_eq, hp, if_true, hlp, hl1i, hn, if_false,
          hrem, unlink, Option.getD_some]
    · by_cases hn : post.head?.getD INVALID < cap
      · obtain ⟨ln, hln⟩ : ∃ ln, pd.links[post.head?.getD INVALID]? = some ln :=
          ⟨pd.links[post.head?.getD INVALID]'(by rw [h.lsize]; exact hn), by simp [h.lsize, hn]⟩
        simp only [PlanData.remove, hlink, hbr, h.cap_eq, hp, if_false, hn, if_true, hln, hrem,
          unlink, Option.getD_some]
      · simp only [PlanData.remove, hlink, hbr, h.cap_eq, hp, if_false, hn, hrem, unlink]
  refine ⟨_, hmodel, h.of_remove hr hL hpool' (by simp [h.bsize]) ?_ ?_⟩
  · simp [h.bsize, hr]
  · intro r' e
    rw [Array.getElem?_setIfInBounds]; simp [Ne.symm e]

end Hfsm.Model
