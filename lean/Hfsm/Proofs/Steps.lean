/-
A universal description of what the tree walks of the model do to the `World`.

Every walk (`request / fwdRequest / fwdActive / report*`, the four guard walks, `enter / exit /
reenter / commit`, `tick / react / query / updatePlans`) is a composition of a handful of primitive
world updates: a user callback (`World.invoke`), a logger record, an error mark, a history pin,
a plan-executor request, a plan shrink, and updates of *scratch* registers.  `Steps allow w w'` is
the reflexive-transitive closure of these primitives, `allow` restricting the methods that may be
invoked.  Once `Steps allow w (walk n w).2` is proved for a walk (one structural recursion per
walk, `Proofs/StepsWalks.lean`), every invariant of the world that is preserved by the primitives is
preserved by the walk by an ordinary induction (`Steps.preserve`).
-/
import Hfsm.Model.Machine

namespace Hfsm
variable {U : Type}

/-- `w'` differs from `w` only in registers no property of C04/C09/C14 looks at. -/
structure Scratch (w w' : World U) : Prop where
  cfg : w'.cfg = w.cfg
  requests : w'.requests = w.requests
  plans : w'.plans = w.plans
  targets : w'.targets = w.targets
  previous : w'.previous = w.previous
  cancelled : w'.cancelled = w.cancelled
  pending : w'.pending = w.pending
  current : w'.current = w.current
  obs : w'.obs = w.obs
  activeSnap : w'.activeSnap = w.activeSnap
  ds : w'.ds = w.ds
  trace : w'.trace = w.trace
  err : w'.err = w.err

/-- The plans of `w'` are obtained from those of `w` by dropping tasks. -/
def PlansShrink (w w' : World U) : Prop :=
  ∀ p' ∈ w'.plans, ∀ t ∈ p', ∃ p ∈ w.plans, t ∈ p

/-- What a walk is permitted to do: the callbacks it may invoke, the history index it may pin, and
whether it may run the plan executor. -/
structure Perm where
  meth : Nat → Method → Prop
  pin : Option Nat → Prop
  plan : Prop

/-- One primitive world update. -/
inductive Prim (allow : Perm) : World U → World U → Prop
  | invoke (w : World U) (sid : Nat) (m : Method) (slot : Nat) (h : allow.meth sid m) :
      Prim allow w (w.invoke sid m slot).1
  | logRec (w : World U) (r : LogRec U) : Prim allow w (w.logRec r)
  | fail (w : World U) (msg : String) : Prim allow w (w.fail' msg)
  | pin (w : World U) (sid : Nat) (idx : Option Nat) (h : allow.pin idx) : Prim allow w (w.pin sid idx)
  | scratch (w w' : World U) (h : Scratch w w') : Prim allow w w'
  /-- the plan executor issues a `change` on behalf of a region head for a task of some plan -/
  | planReq (w : World U) (head : Nat) (t : Task) (ha : allow.plan) (ht : ∃ p ∈ w.plans, t ∈ p) :
      Prim allow w (({ w with origin := some head }).ctlRequest .change t.dest t.payload)
  /-- tasks are removed from the plans; nothing else of interest changes -/
  | planShrink (w w' : World U) (ha : allow.plan) (h : Scratch { w with plans := w'.plans } w')
      (hs : PlansShrink w w') : Prim allow w w'

/-- Reflexive-transitive closure of `Prim`. -/
inductive Steps (allow : Perm) : World U → World U → Prop
  | refl (w : World U) : Steps allow w w
  | tail {w w1 w2 : World U} : Steps allow w w1 → Prim allow w1 w2 → Steps allow w w2

namespace Steps
variable {allow : Perm} {w w1 w2 : World U}

theorem trans (h1 : Steps allow w w1) (h2 : Steps allow w1 w2) : Steps allow w w2 := by
  induction h2 with
  | refl => exact h1
  | tail _ p ih => exact .tail ih p

theorem single (p : Prim allow w w1) : Steps allow w w1 := .tail (.refl _) p

/-- Induction principle in the form used by all frame lemmas. -/
theorem preserve (P : World U → Prop) (hp : ∀ a b, Prim allow a b → P a → P b)
    (h : Steps allow w w1) (h0 : P w) : P w1 := by
  induction h with
  | refl => exact h0
  | tail _ p ih => exact hp _ _ p ih

theorem mono {allow' : Perm} (hm : ∀ sid m, allow.meth sid m → allow'.meth sid m) (hp : ∀ i, allow.pin i → allow'.pin i)
    (hq : allow.plan → allow'.plan) (h : Steps allow w w1) :
    Steps allow' w w1 := by
  induction h with
  | refl => exact .refl _
  | tail _ p ih =>
    refine .tail ih ?_
    cases p with
    | invoke sid m slot h => exact .invoke _ sid m slot (hm _ _ h)
    | logRec r => exact .logRec _ r
    | fail msg => exact .fail _ msg
    | pin sid idx h => exact .pin _ sid idx (hp _ h)
    | scratch _ h => exact .scratch _ _ h
    | planReq hd t ha ht => exact .planReq _ hd t (hq ha) ht
    | planShrink _ ha h hs => exact .planShrink _ _ (hq ha) h hs

end Steps

theorem Scratch.rfl' (w : World U) : Scratch w w := ⟨rfl, rfl, rfl, rfl, rfl, rfl, rfl, rfl, rfl, rfl, rfl, rfl, rfl⟩

/-- closes `Scratch w { w with … }` goals -/
macro "scratch" : tactic => `(tactic| exact ⟨rfl, rfl, rfl, rfl, rfl, rfl, rfl, rfl, rfl, rfl, rfl, rfl, rfl⟩)

/-! ### peeling lemmas: `Steps allow w X → Steps allow w (f X)` for the world primitives -/

namespace Steps
variable {allow : Perm} {w x : World U}

theorem fail' (h : Steps allow w x) (msg : String) : Steps allow w (x.fail' msg) := .tail h (.fail _ _)
theorem logRec (h : Steps allow w x) (r : LogRec U) : Steps allow w (x.logRec r) := .tail h (.logRec _ _)
theorem pin (h : Steps allow w x) (sid : Nat) (i : Option Nat) (ha : allow.pin i) : Steps allow w (x.pin sid i) := .tail h (.pin _ _ _ ha)
theorem scr {x' : World U} (h : Steps allow w x) (hs : Scratch x x') : Steps allow w x' := .tail h (.scratch _ _ hs)

theorem invoke (h : Steps allow w x) (sid : Nat) (m : Method) (slot : Nat) (ha : allow.meth sid m) :
    Steps allow w (x.invoke sid m slot).1 := .tail h (.invoke _ _ _ _ ha)

theorem invokeSlots (sid : Nat) (m : Method) (ha : allow.meth sid m) :
    (l : List Nat) → {x : World U} → Steps allow w x → Steps allow w (x.invokeSlots sid m l)
  | [], _, h => h
  | s :: rest, _, h => by
    simp only [World.invokeSlots]
    exact invokeSlots sid m ha rest (h.invoke sid m s ha)

/-- `stateMethod` needs the permission only for a headed state (an anonymous head runs no handler) -/
theorem stateMethod' (h : Steps allow w x) (sid inj : Nat) (headed : Bool) (m : Method)
    (ha : headed = true → allow.meth sid m) : Steps allow w (x.stateMethod sid inj headed m) := by
  have h1 : Steps allow w (if (headed || x.cfg.verbose) = true then x.logRec (.method sid m) else x) := by
    split
    · exact h.logRec _
    · exact h
  unfold World.stateMethod
  dsimp only
  split
  · next hh =>
    have h2 := h1.scr (x' := { (if (headed || x.cfg.verbose) = true then x.logRec (.method sid m) else x) with origin := some sid }) (by scratch)
    have h3 := invokeSlots sid m (ha hh) (slotOrder inj m) h2
    exact h3.scr (by scratch)
  · exact h1

theorem stateMethod (h : Steps allow w x) (sid inj : Nat) (headed : Bool) (m : Method) (ha : allow.meth sid m) :
    Steps allow w (x.stateMethod sid inj headed m) := h.stateMethod' sid inj headed m (fun _ => ha)

theorem pushRegion (h : Steps allow w x) (rid hid size : Nat) : Steps allow w (x.pushRegion rid hid size).1 :=
  h.scr (by unfold World.pushRegion; scratch)

theorem popRegion (h : Steps allow w x) (sv : Nat × Nat × Nat) : Steps allow w (x.popRegion sv) :=
  h.scr (by unfold World.popRegion; scratch)

theorem guardState (h : Steps allow w x) (sid inj : Nat) (headed : Bool) (m : Method) (ha : allow.meth sid m) :
    Steps allow w (x.guardState sid inj headed m).1 := by
  unfold World.guardState
  exact h.stateMethod sid inj headed m ha

end Steps
end Hfsm

namespace Hfsm
variable {U : Type}

/-! ### more peeling lemmas -/
namespace Steps
variable {allow : Perm} {w x : World U}

section
variable [UtilArith U]
theorem headUtility (h : Steps allow w x) (sid inj : Nat) (headed : Bool) (ha : allow.meth sid .utility) :
    Steps allow w (x.headUtility sid inj headed).1 := by
  unfold World.headUtility
  cases headed with
  | false => simp only [Bool.false_eq_true, if_false]; exact h
  | true =>
    simp only [if_true]
    split
    · exact (h.logRec _).invoke _ _ _ ha
    · exact ((h.logRec _).invoke _ _ _ ha).fail' _

theorem headUtilityWrap (h : Steps allow w x) (sid inj : Nat) (headed : Bool) (ha : allow.meth sid .utility) :
    Steps allow w (x.headUtilityWrap sid inj headed).1 := by
  unfold World.headUtilityWrap
  split
  · exact h.headUtility sid inj true ha
  · dsimp only
    split
    · exact h.logRec _
    · exact h

theorem resolveRandom (h : Steps allow w x) (hid : Nat) (us : List U) (sum : U) (rks : List Int) (top : Int) :
    Steps allow w (x.resolveRandom hid us sum rks top).1 := by
  unfold World.resolveRandom
  split
  · exact h.fail' _
  · next rnd rest heq =>
    dsimp only
    split
    · exact (h.scr (x' := { x with rng := rest }) (by scratch)).logRec _
    · exact (h.scr (x' := { x with rng := rest }) (by scratch)).fail' _
end

theorem headRank (h : Steps allow w x) (sid inj : Nat) (headed : Bool) (ha : allow.meth sid .rank) :
    Steps allow w (x.headRank sid inj headed).1 := by
  have h1 : Steps allow w (if (headed || x.cfg.verbose) = true then x.logRec (.method sid .rank) else x) := by
    split
    · exact h.logRec _
    · exact h
  unfold World.headRank
  dsimp only
  split
  · split
    · exact h1.invoke _ _ _ ha
    · exact (h1.invoke _ _ _ ha).fail' _
  · exact h1

theorem headSelect (h : Steps allow w x) (sid inj : Nat) (headed : Bool) (ha : allow.meth sid .select) :
    Steps allow w (x.headSelect sid inj headed).1 := by
  have h1 : Steps allow w (if (headed || x.cfg.verbose) = true then x.logRec (.method sid .select) else x) := by
    split
    · exact h.logRec _
    · exact h
  unfold World.headSelect
  dsimp only
  split
  · split
    · exact h1.invoke _ _ _ ha
    · exact (h1.invoke _ _ _ ha).fail' _
  · exact h1

theorem exitState' (h : Steps allow w x) (sid inj : Nat) (headed : Bool) (ha : headed = true → allow.meth sid .exit) :
    Steps allow w (x.exitState sid inj headed) := by
  unfold World.exitState
  dsimp only
  split
  · exact (h.stateMethod' sid inj headed .exit ha).scr (by scratch)
  · exact h.stateMethod' sid inj headed .exit ha

theorem exitState (h : Steps allow w x) (sid inj : Nat) (headed : Bool) (ha : allow.meth sid .exit) :
    Steps allow w (x.exitState sid inj headed) := h.exitState' sid inj headed (fun _ => ha)

theorem runState (h : Steps allow w x) (sid inj : Nat) (headed : Bool) (m : Method) (ha : allow.meth sid m) :
    Steps allow w (x.runState sid inj headed m).1 := by
  unfold World.runState
  exact h.stateMethod sid inj headed m ha

theorem orHead (h : Steps allow w x) (rid : Nat) (s : TaskStatus) : Steps allow w (x.orHead rid s) := by
  unfold World.orHead
  split
  · exact h.scr (by scratch)
  · exact h

theorem orSub (h : Steps allow w x) (rid : Nat) (s : TaskStatus) : Steps allow w (x.orSub rid s) := by
  unfold World.orSub
  split
  · exact h.scr (by scratch)
  · exact h

theorem setConsumed (h : Steps allow w x) (b : Bool) : Steps allow w { x with consumed := b } :=
  h.scr (by scratch)

end Steps

/-- one peeling step of a `Steps allow w0 (…)` goal -/
macro "wstep" : tactic => `(tactic| first
  | with_reducible assumption
  | with_reducible exact Steps.refl _
  | with_reducible apply Steps.popRegion
  | with_reducible apply Steps.pushRegion
  | with_reducible apply Steps.fail'
  | with_reducible apply Steps.logRec
  | ((with_reducible refine Steps.pin ?_ _ _ ?side); case side => exact rfl)
  | with_reducible apply Steps.orHead
  | with_reducible apply Steps.orSub
  | with_reducible apply Steps.resolveRandom
  | ((with_reducible refine Steps.guardState ?_ _ _ _ _ ?side); case side => exact rfl)
  | ((with_reducible refine Steps.stateMethod ?_ _ _ _ _ ?side); case side => exact rfl)
  | ((with_reducible refine Steps.runState ?_ _ _ _ _ ?side); case side => exact rfl)
  | ((with_reducible refine Steps.exitState ?_ _ _ _ ?side); case side => exact rfl)
  | ((with_reducible refine Steps.headUtility ?_ _ _ _ ?side); case side => exact rfl)
  | ((with_reducible refine Steps.headUtilityWrap ?_ _ _ _ ?side); case side => exact rfl)
  | ((with_reducible refine Steps.headRank ?_ _ _ _ ?side); case side => exact rfl)
  | ((with_reducible refine Steps.headSelect ?_ _ _ _ ?side); case side => exact rfl)
  | ((with_reducible refine Steps.invoke ?_ _ _ _ ?side); case side => exact rfl)
  | (dsimp only; done)
  | split
  | dsimp only)
end Hfsm
