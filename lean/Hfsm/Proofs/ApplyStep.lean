/-
The loop of `R_::applyRequests` (replays): entry `i` of the replayed list is applied with its index while `i`
addresses a slot of `previousTransitions` (`i < historyCap`), with `INVALID_SHORT` — nothing is pinned — afterwards
(/repo fix 6770c20).  `Mach.applyStep` names one iteration; a property kept by `applyRequest` and by
`applyRequestNoPin` is kept by the loop (`foldl_applyStep_inv`, `applyRequests_inv`).
-/
import Hfsm.Model.Machine

namespace Hfsm
variable {U : Type} [UtilArith U]

namespace Mach

/-- One iteration of the loop of `R_::applyRequests`: entry `i` of the replayed list is applied with its index while
`i` addresses a slot of `previousTransitions`, with `INVALID_SHORT` afterwards. -/
def applyStep (m : Mach U) (x : Transition × Nat) : Mach U :=
  if x.2 < m.w.cfg.historyCap then m.applyRequest x.1 x.2 else m.applyRequestNoPin x.1

theorem applyStep_cases (m : Mach U) (x : Transition × Nat) :
    applyStep m x = m.applyRequest x.1 x.2 ∨ applyStep m x = m.applyRequestNoPin x.1 := by
  unfold applyStep; split
  · exact .inl rfl
  · exact .inr rfl

theorem applyRequests_eq (m : Mach U) (ts : List Transition) :
    m.applyRequests ts =
      (ts.zipIdx.foldl applyStep ({ m with w := m.w.freshControl } : Mach U),
       (ts.zipIdx.foldl applyStep ({ m with w := m.w.freshControl } : Mach U)).root.marksDiffer m.root) := rfl

/-- a property kept by `applyRequest` and by `applyRequestNoPin` is kept by the loop of `applyRequests` -/
theorem foldl_applyStep_inv {P : Mach U → Prop} (h1 : ∀ m t i, P m → P (m.applyRequest t i))
    (h2 : ∀ m t, P m → P (m.applyRequestNoPin t)) : (l : List (Transition × Nat)) → (m : Mach U) → P m →
    P (l.foldl applyStep m)
  | [], _, h => h
  | x :: rest, m, h => by
    simp only [List.foldl_cons]
    refine foldl_applyStep_inv h1 h2 rest _ ?_
    unfold applyStep
    split
    · exact h1 m x.1 x.2 h
    · exact h2 m x.1 h

theorem applyRequests_fst (m : Mach U) (ts : List Transition) :
    (m.applyRequests ts).1 = ts.zipIdx.foldl applyStep ({ m with w := m.w.freshControl } : Mach U) := rfl

theorem applyRequests_inv {P : Mach U → Prop} (h1 : ∀ m t i, P m → P (m.applyRequest t i))
    (h2 : ∀ m t, P m → P (m.applyRequestNoPin t)) (m : Mach U) (ts : List Transition)
    (h : P ({ m with w := m.w.freshControl } : Mach U)) : P (m.applyRequests ts).1 :=
  foldl_applyStep_inv h1 h2 ts.zipIdx _ h

end Mach
end Hfsm
