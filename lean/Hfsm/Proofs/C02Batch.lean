/-
C02 — batches: walking an already resolved branch again with the same kind changes nothing, and two
requests into different sub-states of an orthogonal root are processed independently.
-/
import Hfsm.Proofs.C02Mach
import Hfsm.Proofs.C02Remember

set_option linter.unusedSimpArgs false

namespace Hfsm

section
variable (ans : Nat → Nat) (k : Kind)

/-! ### the forward passes keep the orthogonal request bits -/

theorem C02.Subs.anyBit_requestAllR : (s : Subs) → (s.requestAllR ans k).anyBit = s.anyBit
  | .nil => by simp only [Subs.requestAllR]
  | .cons b n r => by simp only [Subs.requestAllR, Subs.anyBit, C02.Subs.anyBit_requestAllR r]

theorem C02.Subs.anyBit_fwdRequestAllR : (s : Subs) → (s.fwdRequestAllR ans k).anyBit = s.anyBit
  | .nil => by simp only [Subs.fwdRequestAllR]
  | .cons b n r => by simp only [Subs.fwdRequestAllR, Subs.anyBit, C02.Subs.anyBit_fwdRequestAllR r]

/-! ### idempotence -/

mutual
theorem C02.Node.requestR_idem : (n : Node) → (n.requestR ans k).requestR ans k = n.requestR ans k
  | .leaf .. => by simp only [Node.requestR]
  | .compo id rid inj h st a r q m s => by
    simp only [Node.requestR, C02.Subs.requestAtR_idem s]
  | .ortho id rid inj h s => by simp only [Node.requestR, C02.Subs.requestAllR_idem s]
theorem C02.Subs.requestAtR_idem : (s : Subs) → (i : Nat) →
    (s.requestAtR ans k i).requestAtR ans k i = s.requestAtR ans k i
  | .nil, _ => by simp only [Subs.requestAtR]
  | .cons b n r, 0 => by simp only [Subs.requestAtR, C02.Node.requestR_idem n]
  | .cons b n r, i+1 => by simp only [Subs.requestAtR, C02.Subs.requestAtR_idem r i]
theorem C02.Subs.requestAllR_idem : (s : Subs) → (s.requestAllR ans k).requestAllR ans k = s.requestAllR ans k
  | .nil => by simp only [Subs.requestAllR]
  | .cons b n r => by simp only [Subs.requestAllR, C02.Node.requestR_idem n, C02.Subs.requestAllR_idem r]
end

mutual
theorem C02.Node.fwdRequestR_requestR : (n : Node) → (n.requestR ans k).fwdRequestR ans k = n.requestR ans k
  | .leaf .. => by simp only [Node.requestR, Node.fwdRequestR]
  | .compo id rid inj h st a r q m s => by
    simp only [Node.requestR, Node.fwdRequestR, C02.Subs.fwdRequestAtR_requestAtR s]
  | .ortho id rid inj h s => by
    simp only [Node.requestR, Node.fwdRequestR, C02.Subs.anyBit_requestAllR]
    split
    · simp only [C02.Subs.fwdRequestAllR_requestAllR s]
    · simp only [Node.requestR, C02.Subs.requestAllR_idem]
theorem C02.Subs.fwdRequestAtR_requestAtR : (s : Subs) → (i : Nat) →
    (s.requestAtR ans k i).fwdRequestAtR ans k i = s.requestAtR ans k i
  | .nil, _ => by simp only [Subs.requestAtR, Subs.fwdRequestAtR]
  | .cons b n r, 0 => by simp only [Subs.requestAtR, Subs.fwdRequestAtR, C02.Node.fwdRequestR_requestR n]
  | .cons b n r, i+1 => by
    simp only [Subs.requestAtR, Subs.fwdRequestAtR, C02.Subs.fwdRequestAtR_requestAtR r i]
theorem C02.Subs.fwdRequestAllR_requestAllR : (s : Subs) →
    (s.requestAllR ans k).fwdRequestAllR ans k = s.requestAllR ans k
  | .nil => by simp only [Subs.requestAllR, Subs.fwdRequestAllR]
  | .cons b n r => by
    simp only [Subs.requestAllR, Subs.fwdRequestAllR, C02.Node.fwdRequestR_requestR n,
      C02.Subs.fwdRequestAllR_requestAllR r]
end

mutual
theorem C02.Node.fwdRequestR_idem : (n : Node) → (n.fwdRequestR ans k).fwdRequestR ans k = n.fwdRequestR ans k
  | .leaf .. => by simp only [Node.fwdRequestR]
  | .compo id rid inj h st a r q m s => by
    cases q with
    | none => simp only [Node.fwdRequestR, C02.Node.fwdRequestR_requestR]
    | some qi => simp only [Node.fwdRequestR, C02.Subs.fwdRequestAtR_idem s qi]
  | .ortho id rid inj h s => by
    cases hb : s.anyBit with
    | true =>
      simp only [Node.fwdRequestR, hb, ↓reduceIte, C02.Subs.anyBit_fwdRequestAllR, C02.Subs.fwdRequestAllR_idem s]
    | false =>
      simp only [Node.fwdRequestR, hb, Bool.false_eq_true, ↓reduceIte, C02.Node.fwdRequestR_requestR]
theorem C02.Subs.fwdRequestAtR_idem : (s : Subs) → (i : Nat) →
    (s.fwdRequestAtR ans k i).fwdRequestAtR ans k i = s.fwdRequestAtR ans k i
  | .nil, _ => by simp only [Subs.fwdRequestAtR]
  | .cons b n r, 0 => by simp only [Subs.fwdRequestAtR, C02.Node.fwdRequestR_idem n]
  | .cons b n r, i+1 => by simp only [Subs.fwdRequestAtR, C02.Subs.fwdRequestAtR_idem r i]
theorem C02.Subs.fwdRequestAllR_idem : (s : Subs) →
    (s.fwdRequestAllR ans k).fwdRequestAllR ans k = s.fwdRequestAllR ans k
  | .nil => by simp only [Subs.fwdRequestAllR]
  | .cons b n r => by
    simp only [Subs.fwdRequestAllR, C02.Node.fwdRequestR_idem n, C02.Subs.fwdRequestAllR_idem r]
end

mutual
theorem C02.Node.fwdActiveR_idem : (n : Node) → (n.fwdActiveR ans k).fwdActiveR ans k = n.fwdActiveR ans k
  | .leaf .. => by simp only [Node.fwdActiveR]
  | .compo id rid inj h st a r q m s => by
    cases q with
    | none =>
      cases a with
      | none => simp only [Node.fwdActiveR]
      | some ai => simp only [Node.fwdActiveR, C02.Subs.fwdActiveAtR_idem s ai]
    | some qi => simp only [Node.fwdActiveR, C02.Subs.fwdRequestAtR_idem ans k s qi]
  | .ortho id rid inj h s => by simp only [Node.fwdActiveR, C02.Subs.fwdActiveBitsR_idem s]
theorem C02.Subs.fwdActiveAtR_idem : (s : Subs) → (i : Nat) →
    (s.fwdActiveAtR ans k i).fwdActiveAtR ans k i = s.fwdActiveAtR ans k i
  | .nil, _ => by simp only [Subs.fwdActiveAtR]
  | .cons b n r, 0 => by simp only [Subs.fwdActiveAtR, C02.Node.fwdActiveR_idem n]
  | .cons b n r, i+1 => by simp only [Subs.fwdActiveAtR, C02.Subs.fwdActiveAtR_idem r i]
theorem C02.Subs.fwdActiveBitsR_idem : (s : Subs) →
    (s.fwdActiveBitsR ans k).fwdActiveBitsR ans k = s.fwdActiveBitsR ans k
  | .nil => by simp only [Subs.fwdActiveBitsR]
  | .cons b n r => by
    cases b with
    | true => simp only [Subs.fwdActiveBitsR, ↓reduceIte, C02.Node.fwdActiveR_idem n, C02.Subs.fwdActiveBitsR_idem r]
    | false => simp only [Subs.fwdActiveBitsR, Bool.false_eq_true, ↓reduceIte, C02.Subs.fwdActiveBitsR_idem r]
end

/-! ### two requests into different sub-states of an orthogonal region -/

theorem C02.Subs.commit_two : (s : Subs) → (i1 i2 : Nat) → (r1 r2 : List Nat) → i1 ≠ i2 →
    s.ActAll → s.NoMarksAll → s.ValidAt i1 r1 → s.ValidAt i2 r2 →
    s.hasCompoAt i1 r1 = true → s.hasCompoAt i2 r2 = true →
    ((((((s.markAt i1 r1).1.setBit i1).fwdActiveBitsR ans k).markAt i2 r2).1.setBit i2).fwdActiveBitsR ans k
      ).commitAllR.clearMarks
      = (s.specThrough ans k i1 r1).specThrough ans k i2 r2
  | .nil, _, _, _, _, _, _, _, hv, _, _, _ => by simp only [Subs.ValidAt] at hv
  | .cons b n r, 0, 0, _, _, h, _, _, _, _, _, _ => absurd rfl h
  | .cons b n r, 0, i2+1, r1, r2, _, ha, hs, hv1, hv2, hc1, hc2 => by
    simp only [Subs.ActAll] at ha
    simp only [Subs.NoMarksAll] at hs
    obtain ⟨hb, hn, hr⟩ := hs
    subst hb
    simp only [Subs.ValidAt] at hv1 hv2
    simp only [Subs.hasCompoAt] at hc1 hc2
    have h1 := C02.Node.commit_mark ans k n r1 ha.1 hn hv1 hc1
    have h2 := C02.Subs.commit_markBits ans k r i2 r2 ha.2 hr hv2 hc2
    simp only [Subs.markAt]
    generalize n.mark r1 = res1 at h1
    obtain ⟨n1, ph1⟩ := res1
    simp only at h1
    simp only [Subs.setBit, Subs.fwdActiveBitsR, ↓reduceIte, C02.Subs.fwdActiveBitsR_noMarks ans k r hr,
      Subs.markAt]
    generalize r.markAt i2 r2 = res2 at h2
    obtain ⟨r', ph2⟩ := res2
    simp only at h2
    simp only [Subs.setBit, Subs.fwdActiveBitsR, ↓reduceIte, C02.Node.fwdActiveR_idem, Subs.commitAllR,
      Subs.clearMarks, h1, h2, Subs.specThrough]
  | .cons b n r, i1+1, 0, r1, r2, _, ha, hs, hv1, hv2, hc1, hc2 => by
    simp only [Subs.ActAll] at ha
    simp only [Subs.NoMarksAll] at hs
    obtain ⟨hb, hn, hr⟩ := hs
    subst hb
    simp only [Subs.ValidAt] at hv1 hv2
    simp only [Subs.hasCompoAt] at hc1 hc2
    have h1 := C02.Subs.commit_markBits ans k r i1 r1 ha.2 hr hv1 hc1
    have h2 := C02.Node.commit_mark ans k n r2 ha.1 hn hv2 hc2
    simp only [Subs.markAt]
    generalize r.markAt i1 r1 = res1 at h1
    obtain ⟨r', ph1⟩ := res1
    simp only at h1
    simp only [Subs.setBit, Subs.fwdActiveBitsR, Bool.false_eq_true, ↓reduceIte, Subs.markAt]
    generalize n.mark r2 = res2 at h2
    obtain ⟨n2, ph2⟩ := res2
    simp only at h2
    simp only [Subs.setBit, Subs.fwdActiveBitsR, ↓reduceIte, C02.Subs.fwdActiveBitsR_idem, Subs.commitAllR,
      Subs.clearMarks, h1, h2, Subs.specThrough]
  | .cons b n r, i1+1, i2+1, r1, r2, h, ha, hs, hv1, hv2, hc1, hc2 => by
    simp only [Subs.ActAll] at ha
    simp only [Subs.NoMarksAll] at hs
    obtain ⟨hb, hn, hr⟩ := hs
    subst hb
    simp only [Subs.ValidAt] at hv1 hv2
    simp only [Subs.hasCompoAt] at hc1 hc2
    have ih := C02.Subs.commit_two r i1 i2 r1 r2 (by omega) ha.2 hr hv1 hv2 hc1 hc2
    simp only [Subs.markAt]
    generalize r.markAt i1 r1 = res1 at ih
    obtain ⟨r', ph1⟩ := res1
    simp only at ih
    simp only [Subs.setBit, Subs.fwdActiveBitsR, Bool.false_eq_true, ↓reduceIte, Subs.markAt]
    generalize (((r'.setBit i1).fwdActiveBitsR ans k).markAt i2 r2) = res2 at ih
    obtain ⟨r'', ph2⟩ := res2
    simp only at ih
    simp only [Subs.setBit, Subs.fwdActiveBitsR, Bool.false_eq_true, ↓reduceIte, Subs.commitAllR,
      Subs.clearMarks, ih, C02.Node.commitR_id n ha.1 hn, C02.Node.clearMarks_of_noMarks n hn, Subs.specThrough]


theorem C02.Subs.marksDiffer_two : (s : Subs) → (i1 i2 : Nat) → (r1 r2 : List Nat) →
    s.NoMarksAll → s.ValidAt i1 r1 → s.ValidAt i2 r2 →
    ((((((s.markAt i1 r1).1.setBit i1).fwdActiveBitsR ans k).markAt i2 r2).1.setBit i2).fwdActiveBitsR ans k
      ).marksDiffer s = true
  | .nil, _, _, _, _, _, hv, _ => by simp only [Subs.ValidAt] at hv
  | .cons b n r, 0, 0, r1, r2, hs, _, _ => by
    simp only [Subs.NoMarksAll] at hs
    obtain ⟨hb, -, -⟩ := hs
    subst hb
    simp only [Subs.markAt, Subs.setBit, Subs.fwdActiveBitsR, ↓reduceIte, Subs.marksDiffer]
    rfl
  | .cons b n r, 0, i2+1, r1, r2, hs, _, _ => by
    simp only [Subs.NoMarksAll] at hs
    obtain ⟨hb, -, -⟩ := hs
    subst hb
    simp only [Subs.markAt, Subs.setBit, Subs.fwdActiveBitsR, ↓reduceIte, Subs.marksDiffer]
    rfl
  | .cons b n r, i1+1, 0, r1, r2, hs, _, _ => by
    simp only [Subs.NoMarksAll] at hs
    obtain ⟨hb, -, -⟩ := hs
    subst hb
    simp only [Subs.markAt, Subs.setBit, Subs.fwdActiveBitsR, Bool.false_eq_true, ↓reduceIte,
      Subs.marksDiffer]
    rfl
  | .cons b n r, i1+1, i2+1, r1, r2, hs, hv1, hv2 => by
    simp only [Subs.NoMarksAll] at hs
    obtain ⟨hb, -, hr⟩ := hs
    subst hb
    simp only [Subs.ValidAt] at hv1 hv2
    have ih := C02.Subs.marksDiffer_two r i1 i2 r1 r2 hr hv1 hv2
    simp only [Subs.markAt, Subs.setBit, Subs.fwdActiveBitsR, Bool.false_eq_true, ↓reduceIte,
      Subs.marksDiffer, ih, Bool.or_true]

theorem C02.Node.marksDiffer_two_ortho (id rid inj : Nat) (h : Bool) (s : Subs) (i1 i2 : Nat) (r1 r2 : List Nat)
    (hn : (Node.ortho id rid inj h s).NoMarks)
    (hv1 : (Node.ortho id rid inj h s).ValidPath (i1 :: r1))
    (hv2 : (Node.ortho id rid inj h s).ValidPath (i2 :: r2)) :
    (((((Node.ortho id rid inj h s).mark (i1 :: r1)).1.fwdActiveR ans k).mark (i2 :: r2)).1.fwdActiveR ans k
      ).marksDiffer (Node.ortho id rid inj h s) = true := by
  simp only [Node.NoMarks] at hn
  simp only [Node.ValidPath] at hv1 hv2
  have key := C02.Subs.marksDiffer_two ans k s i1 i2 r1 r2 hn hv1 hv2
  simp only [Node.mark]
  generalize s.markAt i1 r1 = res1 at key
  obtain ⟨s1, ph1⟩ := res1
  simp only at key
  simp only [Node.fwdActiveR, Node.mark]
  generalize (((s1.setBit i1).fwdActiveBitsR ans k).markAt i2 r2) = res2 at key
  obtain ⟨s2, ph2⟩ := res2
  simp only at key
  simp only [Node.fwdActiveR, Node.marksDiffer, key]

theorem C02.Node.commit_two_ortho (id rid inj : Nat) (h : Bool) (s : Subs) (i1 i2 : Nat) (r1 r2 : List Nat)
    (hne : i1 ≠ i2) (ha : (Node.ortho id rid inj h s).Act) (hn : (Node.ortho id rid inj h s).NoMarks)
    (hv1 : (Node.ortho id rid inj h s).ValidPath (i1 :: r1))
    (hv2 : (Node.ortho id rid inj h s).ValidPath (i2 :: r2))
    (hc1 : (Node.ortho id rid inj h s).hasCompo (i1 :: r1) = true)
    (hc2 : (Node.ortho id rid inj h s).hasCompo (i2 :: r2) = true) :
    ((((((Node.ortho id rid inj h s).mark (i1 :: r1)).1.fwdActiveR ans k).mark (i2 :: r2)).1.fwdActiveR ans k
      ).commitR).clearMarks
      = ((Node.ortho id rid inj h s).spec ans k (i1 :: r1)).spec ans k (i2 :: r2) := by
  simp only [Node.Act] at ha
  simp only [Node.NoMarks] at hn
  simp only [Node.ValidPath] at hv1 hv2
  simp only [Node.hasCompo] at hc1 hc2
  have key := C02.Subs.commit_two ans k s i1 i2 r1 r2 hne ha hn hv1 hv2 hc1 hc2
  simp only [Node.mark]
  generalize s.markAt i1 r1 = res1 at key
  obtain ⟨s1, ph1⟩ := res1
  simp only at key
  simp only [Node.fwdActiveR, Node.mark]
  generalize (((s1.setBit i1).fwdActiveBitsR ans k).markAt i2 r2) = res2 at key
  obtain ⟨s2, ph2⟩ := res2
  simp only at key
  simp only [Node.fwdActiveR, Node.commitR, Node.clearMarks, key, Node.spec]

end

/-! ### answer-free requests leave the configuration constants of the world alone -/

variable {U : Type}

theorem C02.World.pin_cfg (w : World U) (sid : Nat) (i : Option Nat) : (w.pin sid i).cfg = w.cfg := by
  unfold World.pin
  split
  · rfl
  · split <;> rfl

theorem C02.World.fail'_cfg (w : World U) (msg : String) : (w.fail' msg).cfg = w.cfg := by
  unfold World.fail'
  split <;> rfl

variable [UtilArith U]

mutual
theorem C02.Node.request_cfg : (n : Node) → (rq : Req) → (w : World U) →
    AnswerFree rq.kind n → (n.request rq w).2.cfg = w.cfg
  | .leaf id inj, rq, w, _ => by simp only [Node.request, C02.World.pin_cfg]
  | .ortho id rid inj h s, rq, w, hf => by
    simp only [Node.request]
    rw [C02.Subs.requestAll_cfg s rq _ hf.ortho, C02.World.pin_cfg]
  | .compo id rid inj h st a r q m s, rq, w, hf => by
    obtain ⟨hs, hk⟩ := hf.compo
    rcases hk with hk | hk
    · simp only [Node.request, hk]
      rw [C02.Subs.requestAt_cfg s 0 rq _ hs, C02.World.pin_cfg]
    · simp only [Node.request, hk]
      rw [C02.Subs.requestAt_cfg s _ rq _ hs, C02.World.pin_cfg]
theorem C02.Subs.requestAt_cfg : (s : Subs) → (i : Nat) → (rq : Req) → (w : World U) →
    AnswerFreeS rq.kind s → (s.requestAt i rq w).2.cfg = w.cfg
  | .nil, _, rq, w, _ => by simp only [Subs.requestAt, C02.World.fail'_cfg]
  | .cons b n r, 0, rq, w, hf => by
    simp only [Subs.requestAt]
    exact C02.Node.request_cfg n rq w hf.cons.1
  | .cons b n r, i+1, rq, w, hf => by
    simp only [Subs.requestAt]
    exact C02.Subs.requestAt_cfg r i rq w hf.cons.2
theorem C02.Subs.requestAll_cfg : (s : Subs) → (rq : Req) → (w : World U) →
    AnswerFreeS rq.kind s → (s.requestAll rq w).2.cfg = w.cfg
  | .nil, rq, w, _ => by simp only [Subs.requestAll]
  | .cons b n r, rq, w, hf => by
    simp only [Subs.requestAll]
    rw [C02.Subs.requestAll_cfg r rq _ hf.cons.2, C02.Node.request_cfg n rq w hf.cons.1]
end

mutual
theorem C02.Node.fwdRequest_cfg : (n : Node) → (rq : Req) → (w : World U) →
    AnswerFree rq.kind n → (n.fwdRequest rq w).2.cfg = w.cfg
  | .leaf id inj, rq, w, _ => by simp only [Node.fwdRequest, C02.World.pin_cfg]
  | .ortho id rid inj h s, rq, w, hf => by
    simp only [Node.fwdRequest]
    split
    · simp only
      rw [C02.Subs.fwdRequestAll_cfg s rq _ hf.ortho, C02.World.pin_cfg]
    · rw [C02.Node.request_cfg _ rq _ hf, C02.World.pin_cfg]
  | .compo id rid inj h st a r q m s, rq, w, hf => by
    cases q with
    | none =>
      simp only [Node.fwdRequest]
      rw [C02.Node.request_cfg _ rq _ hf, C02.World.pin_cfg]
    | some qi =>
      simp only [Node.fwdRequest]
      rw [C02.Subs.fwdRequestAt_cfg s qi rq _ hf.compo.1, C02.World.pin_cfg]
theorem C02.Subs.fwdRequestAt_cfg : (s : Subs) → (i : Nat) → (rq : Req) → (w : World U) →
    AnswerFreeS rq.kind s → (s.fwdRequestAt i rq w).2.cfg = w.cfg
  | .nil, _, rq, w, _ => by simp only [Subs.fwdRequestAt, C02.World.fail'_cfg]
  | .cons b n r, 0, rq, w, hf => by
    simp only [Subs.fwdRequestAt]
    exact C02.Node.fwdRequest_cfg n rq w hf.cons.1
  | .cons b n r, i+1, rq, w, hf => by
    simp only [Subs.fwdRequestAt]
    exact C02.Subs.fwdRequestAt_cfg r i rq w hf.cons.2
theorem C02.Subs.fwdRequestAll_cfg : (s : Subs) → (rq : Req) → (w : World U) →
    AnswerFreeS rq.kind s → (s.fwdRequestAll rq w).2.cfg = w.cfg
  | .nil, rq, w, _ => by simp only [Subs.fwdRequestAll]
  | .cons b n r, rq, w, hf => by
    simp only [Subs.fwdRequestAll]
    rw [C02.Subs.fwdRequestAll_cfg r rq _ hf.cons.2, C02.Node.fwdRequest_cfg n rq w hf.cons.1]
end

mutual
theorem C02.Node.fwdActive_cfg : (n : Node) → (rq : Req) → (w : World U) →
    AnswerFree rq.kind n → (n.fwdActive rq w).2.cfg = w.cfg
  | .leaf id inj, rq, w, _ => by simp only [Node.fwdActive]
  | .ortho id rid inj h s, rq, w, hf => by
    simp only [Node.fwdActive]
    exact C02.Subs.fwdActiveBits_cfg s rq w hf.ortho
  | .compo id rid inj h st a r q m s, rq, w, hf => by
    cases q with
    | none =>
      cases a with
      | none => simp only [Node.fwdActive, C02.World.fail'_cfg]
      | some ai =>
        simp only [Node.fwdActive]
        exact C02.Subs.fwdActiveAt_cfg s ai rq w hf.compo.1
    | some qi =>
      simp only [Node.fwdActive]
      exact C02.Subs.fwdRequestAt_cfg s qi rq w hf.compo.1
theorem C02.Subs.fwdActiveAt_cfg : (s : Subs) → (i : Nat) → (rq : Req) → (w : World U) →
    AnswerFreeS rq.kind s → (s.fwdActiveAt i rq w).2.cfg = w.cfg
  | .nil, _, rq, w, _ => by simp only [Subs.fwdActiveAt, C02.World.fail'_cfg]
  | .cons b n r, 0, rq, w, hf => by
    simp only [Subs.fwdActiveAt]
    exact C02.Node.fwdActive_cfg n rq w hf.cons.1
  | .cons b n r, i+1, rq, w, hf => by
    simp only [Subs.fwdActiveAt]
    exact C02.Subs.fwdActiveAt_cfg r i rq w hf.cons.2
theorem C02.Subs.fwdActiveBits_cfg : (s : Subs) → (rq : Req) → (w : World U) →
    AnswerFreeS rq.kind s → (s.fwdActiveBits rq w).2.cfg = w.cfg
  | .nil, rq, w, _ => by simp only [Subs.fwdActiveBits]
  | .cons b n r, rq, w, hf => by
    simp only [Subs.fwdActiveBits]
    split
    · simp only
      rw [C02.Subs.fwdActiveBits_cfg r rq _ hf.cons.2, C02.Node.fwdActive_cfg n rq w hf.cons.1]
    · simp only
      exact C02.Subs.fwdActiveBits_cfg r rq w hf.cons.2
end

theorem C02.Mach.applyRequest_cfg (m : Mach U) (t : Transition) (idx : Nat)
    (hk : t.kind ≠ .schedule) (hf : AnswerFree t.kind m.root) :
    (m.applyRequest t idx).w.cfg = m.w.cfg := by
  unfold Mach.applyRequest
  split
  · rename_i h; exact absurd h hk
  · split
    · simp only
      exact C02.Node.request_cfg m.root ⟨t.kind, some idx⟩ _ hf
    · split
      · simp only [C02.World.fail'_cfg]; rfl
      · rename_i p hp
        simp only
        exact C02.Node.fwdActive_cfg (m.root.mark p).1 ⟨t.kind, some idx⟩ _ (hf.mark p)


/-! ### marks do not matter for paths and declared strategies -/

mutual
theorem C02.Node.pathTo_clearMarks : (n : Node) → (d : Nat) → n.clearMarks.pathTo d = n.pathTo d
  | .leaf .., _ => by simp only [Node.clearMarks]
  | .compo id rid inj h st a r q m s, d => by
    simp only [Node.clearMarks, Node.pathTo, C02.Subs.pathIn_clearMarks s d 0]
  | .ortho id rid inj h s, d => by
    simp only [Node.clearMarks, Node.pathTo, C02.Subs.pathIn_clearMarks s d 0]
theorem C02.Subs.pathIn_clearMarks : (s : Subs) → (d i : Nat) → s.clearMarks.pathIn d i = s.pathIn d i
  | .nil, _, _ => by simp only [Subs.clearMarks]
  | .cons b n r, d, i => by
    simp only [Subs.clearMarks, Subs.pathIn, C02.Node.pathTo_clearMarks n d, C02.Subs.pathIn_clearMarks r d (i+1)]
end

mutual
theorem C02.Node.plain_clearMarks : (n : Node) → n.clearMarks.plain = n.plain
  | .leaf .. => by simp only [Node.clearMarks]
  | .compo id rid inj h st a r q m s => by
    simp only [Node.clearMarks, Node.plain, C02.Subs.plainAll_clearMarks s]
  | .ortho id rid inj h s => by simp only [Node.clearMarks, Node.plain, C02.Subs.plainAll_clearMarks s]
theorem C02.Subs.plainAll_clearMarks : (s : Subs) → s.clearMarks.plainAll = s.plainAll
  | .nil => by simp only [Subs.clearMarks]
  | .cons b n r => by
    simp only [Subs.clearMarks, Subs.plainAll, C02.Node.plain_clearMarks n, C02.Subs.plainAll_clearMarks r]
end

theorem C02.Node.pathTo_of_clearMarks_eq {x n : Node} (h : x.clearMarks = n.clearMarks) (d : Nat) :
    x.pathTo d = n.pathTo d := by
  rw [← C02.Node.pathTo_clearMarks x, h, C02.Node.pathTo_clearMarks]

theorem AnswerFree.of_clearMarks_eq {k : Kind} {x n : Node} (h : x.clearMarks = n.clearMarks)
    (hf : AnswerFree k n) : AnswerFree k x := by
  unfold AnswerFree at *
  rw [← C02.Node.plain_clearMarks x, h, C02.Node.plain_clearMarks]
  exact hf

/-- the tree after applying a request to a state below the root, for answer-free kinds -/
theorem C02.Mach.applyRequest_root_below (ans : Nat → Nat) (m : Mach U) (t : Transition) (idx : Nat)
    (p : List Nat) (hk : t.kind ≠ .schedule) (hf : AnswerFree t.kind m.root) (hd : t.dest ≠ 0)
    (hp : m.root.pathTo t.dest = some p) :
    (m.applyRequest t idx).root = (m.root.mark p).1.fwdActiveR ans t.kind := by
  rw [Mach.C02.applyRequest_root ans m t idx hk hf]
  simp only [hd, ↓reduceIte, hp]

end Hfsm
