/-
`recfg` commutes with every operation of the instance (Model/Machine.lean), hence with every
operation sequence (`Api.run`).  The override of the substitution limit is treated separately
(`Proofs/Limit.lean`): here `r.limit = none`.
-/
import Hfsm.Proofs.RecfgFwd
import Hfsm.Proofs.Api

set_option linter.unusedVariables false
set_option linter.unusedSectionVars false
set_option linter.unusedSimpArgs false

namespace Hfsm
variable {U : Type} [UtilArith U] (r : Recfg)
open World

/-- Re-configure an instance. The structure report is not affected. -/
@[reducible] def Mach.recfg (r : Recfg) (m : Mach U) : Mach U := { m with w := m.w.recfg r }

namespace World
variable (w : World U)

theorem recfg_snapshot (root : Node) (o g : Bool) :
    (w.recfg r).snapshot root o g = (w.snapshot root o g).recfg r := rfl

theorem recfg_freshControl : (w.recfg r).freshControl = w.freshControl.recfg r := rfl

theorem recfg_clearTargets : (w.recfg r).clearTargets = w.clearTargets.recfg r := by
  unfold World.clearTargets
  cases hh : w.cfg.history <;> cases hn : r.noHist <;> simp [hh, hn]

theorem recfg_clearStatuses : (w.recfg r).clearStatuses = w.clearStatuses.recfg r := rfl
theorem recfg_clearPlanData : (w.recfg r).clearPlanData = w.clearPlanData.recfg r := rfl

end World

namespace Mach
variable (m : Mach U)

theorem recfg_updateActivity : (m.recfg r).updateActivity = m.updateActivity.recfg r := rfl

theorem recfg_applyRequest (t : Transition) (i : Nat) :
    (m.recfg r).applyRequest t i = (m.applyRequest t i).recfg r := by
  simp only [Mach.applyRequest, recfg_snapshot]
  cases t.kind <;> simp only [] <;> (repeat' split) <;>
    simp only [Node.request_recfg, Node.fwdActive_recfg, recfg_fail', *]

theorem recfg_applyRequestNoPin (t : Transition) :
    (m.recfg r).applyRequestNoPin t = (m.applyRequestNoPin t).recfg r := by
  simp only [Mach.applyRequestNoPin, recfg_snapshot]
  cases t.kind <;> simp only [] <;> (repeat' split) <;>
    simp only [Node.request_recfg, Node.fwdActive_recfg, recfg_fail', *]

theorem recfg_applyAll : (ts : List Transition) → (m : Mach U) → (i : Nat) →
    (m.recfg r).applyAll ts i = (m.applyAll ts i).recfg r
  | [], m, i => rfl
  | t :: rest, m, i => by
      simp only [Mach.applyAll, recfg_stateCount]
      split
      · rw [recfg_applyRequest]; exact recfg_applyAll rest _ _
      · exact recfg_applyAll rest _ _

theorem recfg_approvedByGuards (cur pend : List Transition) :
    (m.recfg r).approvedByGuards cur pend =
      ((m.approvedByGuards cur pend).1.recfg r, (m.approvedByGuards cur pend).2) := by
  simp only [Mach.approvedByGuards]
  rw [show (({ (m.w.recfg r).freshControl with pending := pend, current := cur } : World U).snapshot m.root true true) =
      World.recfg r (({ m.w.freshControl with pending := pend, current := cur } : World U).snapshot m.root true true) from rfl]
  simp only [Node.fwdExitGuard_recfg]
  split
  · simp only [Node.fwdEntryGuard_recfg]
  · rfl

theorem recfg_approvedByEntryGuards (cur pend : List Transition) :
    (m.recfg r).approvedByEntryGuards cur pend =
      ((m.approvedByEntryGuards cur pend).1.recfg r, (m.approvedByEntryGuards cur pend).2) := by
  simp only [Mach.approvedByEntryGuards]
  rw [show (({ (m.w.recfg r).freshControl with pending := pend, current := cur } : World U).snapshot m.root true true) =
      World.recfg r (({ m.w.freshControl with pending := pend, current := cur } : World U).snapshot m.root true true) from rfl]
  simp only [Node.entryGuard_recfg]

theorem recfg_rounds (initial : Bool) : (fuel : Nat) → (m : Mach U) → (backup : Node) → (cur : List Transition) →
    Mach.rounds initial fuel (m.recfg r) backup cur =
      ((Mach.rounds initial fuel m backup cur).1.recfg r, (Mach.rounds initial fuel m backup cur).2)
  | 0, m, _, cur => rfl
  | fuel+1, m, backup, cur => by
      simp only [Mach.rounds, recfg_requests]
      split
      · rfl
      · rw [recfg_applyAll]
        split
        · -- marks differ: guards
          rw [show ({ (m.applyAll m.w.requests 0).recfg r with
                w := { ((m.applyAll m.w.requests 0).recfg r).w with requests := [] } } : Mach U) =
              Mach.recfg r { m.applyAll m.w.requests 0 with w := { (m.applyAll m.w.requests 0).w with requests := [] } }
              from rfl]
          cases initial
          · simp only [Bool.false_eq_true, ↓reduceIte, recfg_approvedByGuards]
            split
            · exact recfg_rounds false fuel _ _ _
            · rw [recfg_clearTargets]
              exact recfg_rounds false fuel
                { (Mach.approvedByGuards _ cur m.w.requests).1 with
                  root := (Mach.approvedByGuards _ cur m.w.requests).1.root.restoreMarks backup,
                  w := (Mach.approvedByGuards _ cur m.w.requests).1.w.clearTargets } backup cur
          · simp only [↓reduceIte, recfg_approvedByEntryGuards]
            split
            · exact recfg_rounds true fuel _ _ _
            · exact recfg_rounds true fuel
                { (Mach.approvedByEntryGuards _ cur m.w.requests).1 with
                  root := (Mach.approvedByEntryGuards _ cur m.w.requests).1.root.restoreMarks backup } backup cur
        · exact recfg_rounds initial fuel
            { m.applyAll m.w.requests 0 with w := { (m.applyAll m.w.requests 0).w with requests := [] } } backup cur

/-! folding lemmas: a literal whose fields are those of a re-configured world *is* a re-configured world -/

theorem _root_.Hfsm.World.mk_recfg (c : Config) (rq : List Transition) (pl : List (List Task)) (pe su fa : Nat)
    (hs ss : List TaskStatus) (tg : List (Option Nat)) (pv : List Transition) (og : Option Nat) (ri rsi rs : Nat)
    (ts : TaskStatus) (ca co : Bool) (pd cu : List Transition) (ob : Option Obs) (sn : Nat)
    (ds : List (Decision U)) (rng : List U) (tr : List (Event U)) (er : Option String) :
    (⟨Config.recfg r c, rq, pl, pe, su, fa, hs, ss, if r.noHist = true then [] else tg,
      if r.noHist = true then [] else pv, og, ri, rsi, rs, ts, ca, co, pd, cu, ob, sn, ds, rng,
      if r.noLog = true then tr.filter Event.isCb else tr, er⟩ : World U) =
    World.recfg r ⟨c, rq, pl, pe, su, fa, hs, ss, tg, pv, og, ri, rsi, rs, ts, ca, co, pd, cu, ob, sn, ds, rng, tr, er⟩ :=
  rfl

theorem mk_recfg (root : Node) (w : World U) (sa : List Bool) (act : List Int) :
    (⟨root, World.recfg r w, sa, act⟩ : Mach U) = Mach.recfg r ⟨root, w, sa, act⟩ := rfl

theorem _root_.Hfsm.World.ite_recfg (c : Prop) [Decidable c] (a b : World U) :
    (if c then World.recfg r a else World.recfg r b) = World.recfg r (if c then a else b) := by
  split <;> rfl

theorem ite_recfg (c : Prop) [Decidable c] (a b : Mach U) :
    (if c then Mach.recfg r a else Mach.recfg r b) = Mach.recfg r (if c then a else b) := by
  split <;> rfl

theorem recfg_limit (hl : r.limit = none) (w : World U) :
    (Config.recfg r w.cfg).substitutionLimit = w.cfg.substitutionLimit := by
  simp [Config.recfg, hl]

/-- the part of `processRequest` after the substitution loop: commit, clear marks, refresh the report,
record the history -/
def stepTailRc (m : Mach U) (current : List Transition) : Mach U :=
  let m := if current.isEmpty then m else
    let w := ({ m.w.freshControl with current := current }).snapshot m.root false false
    let (root, w) := m.root.commit w
    { m with root := root, w := w }
  let m := { m with root := m.root.clearMarks }
  let m := m.updateActivity
  { m with w := { m.w with previous := if m.w.cfg.history then current else m.w.previous } }

/-- `processRequest` after `transitionTargets.clear()` -/
def processTailRc (m1 : Mach U) : Mach U :=
  if m1.w.requests.isEmpty then
    { m1 with w := { m1.w with previous := if m1.w.cfg.history then [] else m1.w.previous } }
  else
    stepTailRc (rounds false m1.w.cfg.substitutionLimit { m1 with w := m1.w.freshControl } m1.root []).1
               (rounds false m1.w.cfg.substitutionLimit { m1 with w := m1.w.freshControl } m1.root []).2

theorem processRequest_staged : m.processRequest = processTailRc { m with w := m.w.clearTargets } := rfl

theorem recfg_setPrevious (w : World U) (c : List Transition) :
    ({ w.recfg r with previous := if (w.recfg r).cfg.history then c else (w.recfg r).previous } : World U) =
      World.recfg r { w with previous := if w.cfg.history then c else w.previous } := by
  cases hh : w.cfg.history <;> cases hn : r.noHist <;> simp [World.recfg, Config.recfg, hh, hn]

theorem recfg_finishStep (current : List Transition) :
    stepTailRc (m.recfg r) current = (stepTailRc m current).recfg r := by
  unfold stepTailRc
  cases hc : current.isEmpty
  · simp only [Bool.false_eq_true, ↓reduceIte]
    have hw : (({ (m.recfg r).w.freshControl with current := current } : World U).snapshot (m.recfg r).root false false) =
        World.recfg r (({ m.w.freshControl with current := current } : World U).snapshot m.root false false) := rfl
    rw [hw, show (m.recfg r).root = m.root from rfl, Node.commit_recfg]
    generalize m.root.commit (({ m.w.freshControl with current := current } : World U).snapshot m.root false false) = res
    obtain ⟨root', w'⟩ := res
    exact congrArg (fun x => ({ root := root'.clearMarks, w := x, structActive := _, activity := _ } : Mach U))
      (recfg_setPrevious r w' current)
  · simp only [↓reduceIte]
    exact congrArg (fun x => ({ root := m.root.clearMarks, w := x, structActive := _, activity := _ } : Mach U))
      (recfg_setPrevious r m.w current)

theorem recfg_processTail (hl : r.limit = none) (m1 : Mach U) :
    processTailRc (m1.recfg r) = (processTailRc m1).recfg r := by
  unfold processTailRc
  have hlim : (m1.recfg r).w.cfg.substitutionLimit = m1.w.cfg.substitutionLimit := by
    simp [World.recfg, Config.recfg, hl]
  rw [hlim, show (m1.recfg r).w.requests = m1.w.requests from rfl, show (m1.recfg r).root = m1.root from rfl]
  split
  · exact congrArg (fun x => ({ m1 with w := x } : Mach U)) (recfg_setPrevious r m1.w [])
  · rw [show ({ m1.recfg r with w := (m1.recfg r).w.freshControl } : Mach U) =
        Mach.recfg r { m1 with w := m1.w.freshControl } from rfl, recfg_rounds]
    exact recfg_finishStep r _ _

theorem recfg_processRequest (hl : r.limit = none) : (m.recfg r).processRequest = m.processRequest.recfg r := by
  rw [processRequest_staged, processRequest_staged, ← recfg_processTail r hl]
  show processTailRc { m with w := (m.w.recfg r).clearTargets } = _
  rw [recfg_clearTargets]

theorem recfg_update (hl : r.limit = none) : (m.recfg r).update = m.update.recfg r := by
  unfold Mach.update
  rw [show ((m.recfg r).w.freshControl).snapshot (m.recfg r).root true false =
      World.recfg r ((m.w.freshControl).snapshot m.root true false) from rfl,
    show (m.recfg r).root = m.root from rfl]
  simp only [Node.tick_recfg, recfg_cfgplans, Node.updatePlans_recfg, recfg_clearStatuses, World.ite_recfg]
  rw [mk_recfg]
  exact recfg_processRequest (U := U) r _ hl

theorem recfg_react (hl : r.limit = none) : (m.recfg r).react = m.react.recfg r := by
  unfold Mach.react
  rw [show ((m.recfg r).w.freshControl).snapshot (m.recfg r).root true false =
      World.recfg r ((m.w.freshControl).snapshot m.root true false) from rfl,
    show (m.recfg r).root = m.root from rfl, show (m.recfg r).w.cfg.topDown = m.w.cfg.topDown from rfl]
  simp only [Node.react_recfg]
  rw [show ({ World.recfg r (m.root.react .preReact m.w.cfg.topDown false ((m.w.freshControl).snapshot m.root true false)).1
        with consumed := false } : World U) =
      World.recfg r { (m.root.react .preReact m.w.cfg.topDown false ((m.w.freshControl).snapshot m.root true false)).1
        with consumed := false } from rfl]
  simp only [Node.react_recfg]
  generalize (m.root.react .react m.w.cfg.topDown false _).1 = w2
  rw [show ({ World.recfg r w2 with consumed := false } : World U) = World.recfg r { w2 with consumed := false } from rfl]
  simp only [Node.react_recfg, recfg_cfgplans, Node.updatePlans_recfg, recfg_clearStatuses, World.ite_recfg]
  rw [mk_recfg]
  exact recfg_processRequest (U := U) r _ hl

theorem recfg_query : (m.recfg r).query = m.query.recfg r := by
  unfold Mach.query
  rw [show ((m.recfg r).w.freshControl).snapshot (m.recfg r).root true false =
      World.recfg r ((m.w.freshControl).snapshot m.root true false) from rfl,
    show (m.recfg r).root = m.root from rfl, show (m.recfg r).w.cfg.topDown = m.w.cfg.topDown from rfl]
  simp only [Node.query_recfg]

theorem recfg_request (k : Kind) (d : Nat) (p : Option Nat) :
    (m.recfg r).request k d p = (m.request k d p).recfg r := by
  unfold Mach.request
  by_cases h : m.w.requests.length < m.w.cfg.queueCap
  · simp only [h, ↓reduceIte, show (m.recfg r).w.requests = m.w.requests from rfl,
      show (m.recfg r).w.cfg.queueCap = m.w.cfg.queueCap from rfl]
    rw [show ({ (m.recfg r).w with requests := m.w.requests ++ [⟨none, d, k, p⟩] } : World U) =
      World.recfg r { m.w with requests := m.w.requests ++ [⟨none, d, k, p⟩] } from rfl, recfg_logRec]
  · simp only [h, ↓reduceIte, show (m.recfg r).w.requests = m.w.requests from rfl,
      show (m.recfg r).w.cfg.queueCap = m.w.cfg.queueCap from rfl]
    rw [recfg_logRec]

theorem recfg_immediate (hl : r.limit = none) (k : Kind) (d : Nat) (p : Option Nat) :
    (m.recfg r).immediate k d p = (m.immediate k d p).recfg r := by
  unfold Mach.immediate
  rw [recfg_request, recfg_processRequest r _ hl]

theorem recfg_setTask (sid : Nat) (ok : Bool) : (m.recfg r).setTask sid ok = (m.setTask sid ok).recfg r := by
  unfold Mach.setTask
  by_cases h : (decide (0 < sid) && decide (sid < m.w.cfg.stateCount)) = true
  · simp only [h, ↓reduceIte, show (m.recfg r).w.cfg.stateCount = m.w.cfg.stateCount from rfl]
    cases ok
    · simp only [Bool.false_eq_true, ↓reduceIte]
      rw [show ({ (m.recfg r).w with fail := World.setBit (m.recfg r).w.fail sid } : World U) =
        World.recfg r { m.w with fail := World.setBit m.w.fail sid } from rfl, recfg_logRec]
    · simp only [↓reduceIte]
      rw [show ({ (m.recfg r).w with succ := World.setBit (m.recfg r).w.succ sid } : World U) =
        World.recfg r { m.w with succ := World.setBit m.w.succ sid } from rfl, recfg_logRec]
  · simp only [h, ↓reduceIte, show (m.recfg r).w.cfg.stateCount = m.w.cfg.stateCount from rfl, Bool.false_eq_true]

/-- the part of `initialEnter` after the substitution loop -/
def enterTailRc (m : Mach U) (current : List Transition) : Mach U :=
  let w0 := m.w.freshControl
  let w1 := { w0 with current := current, previous := (if w0.cfg.history then current else w0.previous) }
  let w := w1.snapshot m.root false false
  let (root, w) := m.root.enter w
  ({ m with root := root.clearMarks, w := w }).updateActivity

/-- `initialEnter` up to the substitution loop -/
def enterHeadRc (m : Mach U) : Mach U :=
  let w := (m.w.clearTargets.freshControl).snapshot m.root true false
  let (root, w) := m.root.request { kind := .change, index := none } w
  (({ m with root := root, w := w } : Mach U).approvedByEntryGuards [] []).1

theorem initialEnter_staged : m.initialEnter =
    enterTailRc (rounds true (enterHeadRc m).w.cfg.substitutionLimit (enterHeadRc m) (enterHeadRc m).root []).1
              (rounds true (enterHeadRc m).w.cfg.substitutionLimit (enterHeadRc m) (enterHeadRc m).root []).2 := rfl

theorem recfg_enterHead : enterHeadRc (m.recfg r) = (enterHeadRc m).recfg r := by
  unfold enterHeadRc
  have h0 : (((m.recfg r).w.clearTargets.freshControl).snapshot (m.recfg r).root true false) =
      World.recfg r ((m.w.clearTargets.freshControl).snapshot m.root true false) := by
    show (((m.w.recfg r).clearTargets.freshControl).snapshot m.root true false) = _
    rw [recfg_clearTargets]; rfl
  simp only [h0, show (m.recfg r).root = m.root from rfl, Node.request_recfg, mk_recfg, recfg_approvedByEntryGuards]

theorem recfg_enterTail (current : List Transition) :
    enterTailRc (m.recfg r) current = (enterTailRc m current).recfg r := by
  unfold enterTailRc
  have hw : (({ (m.recfg r).w.freshControl with current := current, previous := (if (m.recfg r).w.freshControl.cfg.history then current else (m.recfg r).w.freshControl.previous) } : World U).snapshot (m.recfg r).root false false) =
      World.recfg r (({ m.w.freshControl with current := current, previous := (if m.w.freshControl.cfg.history then current else m.w.freshControl.previous) } : World U).snapshot m.root false false) := by
    have := recfg_setPrevious r ({ m.w.freshControl with current := current } : World U) current
    exact congrArg (fun x : World U => x.snapshot m.root false false) this
  simp only [hw, show (m.recfg r).root = m.root from rfl, Node.enter_recfg]
  rfl

theorem recfg_initialEnter (hl : r.limit = none) : (m.recfg r).initialEnter = m.initialEnter.recfg r := by
  rw [initialEnter_staged, initialEnter_staged, recfg_enterHead]
  have hlim : ((enterHeadRc m).recfg r).w.cfg.substitutionLimit = (enterHeadRc m).w.cfg.substitutionLimit := by
    simp [World.recfg, Config.recfg, hl]
  rw [hlim, show ((enterHeadRc m).recfg r).root = (enterHeadRc m).root from rfl, recfg_rounds]
  exact recfg_enterTail r _ _

/-- `requests.clear()`, `planData.clear()`, history cleared -/
def _root_.Hfsm.World.wipeRc (w : World U) : World U :=
  { w.clearPlanData.clearTargets with requests := [], previous := [] }

/-- history cleared -/
def _root_.Hfsm.World.noHistoryRc (w : World U) : World U := { w.clearTargets with previous := [] }

theorem _root_.Hfsm.World.recfg_wipe (w : World U) : (w.recfg r).wipeRc = w.wipeRc.recfg r := by
  unfold World.wipeRc
  rw [recfg_clearPlanData, recfg_clearTargets]
  cases hn : r.noHist <;> simp [World.recfg, hn]

theorem _root_.Hfsm.World.recfg_noHistory (w : World U) : (w.recfg r).noHistoryRc = w.noHistoryRc.recfg r := by
  unfold World.noHistoryRc
  rw [recfg_clearTargets]
  cases hn : r.noHist <;> simp [World.recfg, hn]

theorem finalExit_staged : m.finalExit =
    ({ m with root := (m.root.exit ((m.w.freshControl).snapshot m.root false false)).1.cleared,
              w := (m.root.exit ((m.w.freshControl).snapshot m.root false false)).2.wipeRc } : Mach U).updateActivity := rfl

theorem recfg_finalExit : (m.recfg r).finalExit = m.finalExit.recfg r := by
  rw [finalExit_staged, finalExit_staged]
  rw [show ((m.recfg r).w.freshControl).snapshot (m.recfg r).root false false =
      World.recfg r ((m.w.freshControl).snapshot m.root false false) from rfl,
    show (m.recfg r).root = m.root from rfl, Node.exit_recfg]
  simp only [recfg_wipe]
  rfl

theorem reset_staged : m.reset =
    (let e := m.root.exit ((m.w.freshControl).snapshot m.root false false)
     let q := e.1.cleared.request { kind := .change, index := none } (e.2.noHistoryRc.snapshot e.1.cleared true false)
     let n := q.1.enter (q.2.snapshot q.1 false false)
     ({ m with root := n.1.clearMarks, w := n.2 } : Mach U).updateActivity) := rfl

theorem recfg_reset : (m.recfg r).reset = m.reset.recfg r := by
  rw [reset_staged, reset_staged]
  have h0 : ((m.recfg r).w.freshControl).snapshot (m.recfg r).root false false =
      World.recfg r ((m.w.freshControl).snapshot m.root false false) := rfl
  simp only [h0, show (m.recfg r).root = m.root from rfl, Node.exit_recfg, recfg_noHistory]
  generalize (m.root.exit ((m.w.freshControl).snapshot m.root false false)) = e
  have h1 : (World.recfg r e.2.noHistoryRc).snapshot e.1.cleared true false =
      World.recfg r (e.2.noHistoryRc.snapshot e.1.cleared true false) := rfl
  simp only [h1, Node.request_recfg]
  generalize (e.1.cleared.request { kind := .change, index := none } (e.2.noHistoryRc.snapshot e.1.cleared true false)) = q
  have h2 : (World.recfg r q.2).snapshot q.1 false false = World.recfg r (q.2.snapshot q.1 false false) := rfl
  simp only [h2, Node.enter_recfg]
  rfl

theorem loadActive_staged (st : List Bool) : m.loadActive st =
    (match (m.root.clearMarks.noResumable).loadRequested st with
     | none => { m with w := m.w.fail' "load: malformed buffer" }
     | some (root, _) =>
       ({ m with root := (root.commit ((m.w.wipeRc.freshControl).snapshot root false false)).1.withResumableOf root,
                 w := (root.commit ((m.w.wipeRc.freshControl).snapshot root false false)).2 } : Mach U).updateActivity) := by
  unfold Mach.loadActive
  cases (m.root.clearMarks.noResumable).loadRequested st with
  | none => rfl
  | some p => obtain ⟨root, rest⟩ := p; rfl

theorem recfg_loadActive (st : List Bool) : (m.recfg r).loadActive st = (m.loadActive st).recfg r := by
  rw [loadActive_staged, loadActive_staged]
  rw [show (m.recfg r).root = m.root from rfl]
  split
  · show ({ m with w := (m.w.recfg r).fail' _ } : Mach U) = _
    rw [recfg_fail']
  · next root _ _ =>
    have h0 : (((m.recfg r).w.wipeRc.freshControl).snapshot root false false) =
        World.recfg r ((m.w.wipeRc.freshControl).snapshot root false false) := by
      show (((m.w.recfg r).wipeRc.freshControl).snapshot root false false) = _
      rw [recfg_wipe]; rfl
    simp only [h0, Node.commit_recfg]
    rfl

theorem loadEnter_staged (st : List Bool) : m.loadEnter st =
    (match m.root.loadRequested st with
     | none => { m with w := m.w.fail' "load: malformed buffer" }
     | some (root, _) =>
       ({ m with root := (root.enter ((m.w.freshControl).snapshot root false false)).1.withResumableOf root,
                 w := (root.enter ((m.w.freshControl).snapshot root false false)).2 } : Mach U).updateActivity) := by
  unfold Mach.loadEnter
  cases m.root.loadRequested st with
  | none => rfl
  | some p => obtain ⟨root, rest⟩ := p; rfl

theorem recfg_loadEnter (st : List Bool) : (m.recfg r).loadEnter st = (m.loadEnter st).recfg r := by
  rw [loadEnter_staged, loadEnter_staged]
  rw [show (m.recfg r).root = m.root from rfl]
  split
  · show ({ m with w := (m.w.recfg r).fail' _ } : Mach U) = _
    rw [recfg_fail']
  · next root _ _ =>
    have h0 : (((m.recfg r).w.freshControl).snapshot root false false) =
        World.recfg r ((m.w.freshControl).snapshot root false false) := rfl
    simp only [h0, Node.enter_recfg]
    rfl

theorem recfg_load (st : List Bool) : (m.recfg r).load st = (m.load st).recfg r := by
  unfold Mach.load
  rw [show (m.recfg r).root = m.root from rfl, show (m.recfg r).w.cfg.manual = m.w.cfg.manual from rfl]
  split
  · show ({ m with w := (m.w.recfg r).fail' _ } : Mach U) = _
    rw [recfg_fail']
  · split
    · exact recfg_loadActive r m _
    · split
      · exact recfg_loadEnter r m _
      · show ({ m with w := (m.w.recfg r).fail' _ } : Mach U) = _
        rw [recfg_fail']
  · split
    · split
      · exact recfg_finalExit r m
      · rfl
    · show ({ m with w := (m.w.recfg r).fail' _ } : Mach U) = _
      rw [recfg_fail']

theorem recfg_planAppend (rid : Nat) (t : Task) : (m.recfg r).planAppend rid t = (m.planAppend rid t).recfg r := by
  unfold Mach.planAppend
  show ({ m with w := (m.w.recfg r).planAppend rid t } : Mach U) = _
  rw [World.recfg_planAppend]

theorem recfg_planClear (rid : Nat) : (m.recfg r).planClear rid = (m.planClear rid).recfg r := by
  unfold Mach.planClear
  rw [show (m.recfg r).root = m.root from rfl]
  split
  · rfl
  · show ({ m with w := (m.w.recfg r).fail' _ } : Mach U) = _
    rw [recfg_fail']

/-- with the substitution limit kept, the capacity of the transition history is the same on both sides -/
theorem recfg_historyCap (hl : r.limit = none) : (m.recfg r).w.cfg.historyCap = m.w.cfg.historyCap := by
  show (m.w.cfg.recfg r).historyCap = _
  unfold Config.historyCap
  simp only [hl, Option.getD_none]

theorem recfg_applyStep (hl : r.limit = none) (x : Transition × Nat) :
    Mach.applyStep (m.recfg r) x = (Mach.applyStep m x).recfg r := by
  unfold Mach.applyStep
  rw [recfg_historyCap r m hl]
  split
  · exact recfg_applyRequest r m x.1 x.2
  · exact recfg_applyRequestNoPin r m x.1

theorem recfg_foldl_apply (hl : r.limit = none) : (l : List (Transition × Nat)) → (m : Mach U) →
    l.foldl Mach.applyStep (m.recfg r) = (l.foldl Mach.applyStep m).recfg r
  | [], m => rfl
  | x :: rest, m => by
      simp only [List.foldl_cons, recfg_applyStep r m hl]
      exact recfg_foldl_apply hl rest _

/-- (the replay pins the first `historyCap` entries only: the capacity must be the same on both sides) -/
theorem recfg_applyRequests (hl : r.limit = none) (ts : List Transition) :
    (m.recfg r).applyRequests ts = ((m.applyRequests ts).1.recfg r, (m.applyRequests ts).2) := by
  rw [Mach.applyRequests_eq, Mach.applyRequests_eq]
  rw [show ({ m.recfg r with w := (m.recfg r).w.freshControl } : Mach U) =
      Mach.recfg r { m with w := m.w.freshControl } from rfl, recfg_foldl_apply r hl]

/-- the part of `replayTransitions` / `replayEnter` after the requests were applied -/
def replayCommitRc (m : Mach U) (ts : List Transition) : Mach U :=
  ({ m with root := (m.root.commit (({ m.w.freshControl with previous := ts } : World U).snapshot m.root false false)).1.clearMarks,
            w := (m.root.commit (({ m.w.freshControl with previous := ts } : World U).snapshot m.root false false)).2 } : Mach U).updateActivity

theorem replayTransitions_staged (ts : List Transition) : m.replayTransitions ts =
    (if ts.isEmpty then (({ m with w := m.w.noHistoryRc } : Mach U), false) else
     if (({ m with w := m.w.noHistoryRc } : Mach U).applyRequests ts).2 then
       (replayCommitRc (({ m with w := m.w.noHistoryRc } : Mach U).applyRequests ts).1
          (ts.take (({ m with w := m.w.noHistoryRc } : Mach U).applyRequests ts).1.w.cfg.historyCap), true)
     else ((({ m with w := m.w.noHistoryRc } : Mach U).applyRequests ts).1, false)) := by
  unfold Mach.replayTransitions
  split
  · rfl
  · rfl

theorem recfg_replayCommit (hh : r.noHist = false) (ts : List Transition) :
    replayCommitRc (m.recfg r) ts = (replayCommitRc m ts).recfg r := by
  unfold replayCommitRc
  have h0 : (({ (m.recfg r).w.freshControl with previous := ts } : World U).snapshot (m.recfg r).root false false) =
      World.recfg r (({ m.w.freshControl with previous := ts } : World U).snapshot m.root false false) := by
    simp [World.recfg, hh, World.snapshot, World.freshControl]
  simp only [h0, show (m.recfg r).root = m.root from rfl, Node.commit_recfg]
  rfl

theorem recfg_replayTransitions (hh : r.noHist = false) (hl : r.limit = none) (ts : List Transition) :
    (m.recfg r).replayTransitions ts = ((m.replayTransitions ts).1.recfg r, (m.replayTransitions ts).2) := by
  rw [replayTransitions_staged, replayTransitions_staged]
  have h1 : ({ m.recfg r with w := (m.recfg r).w.noHistoryRc } : Mach U) = Mach.recfg r { m with w := m.w.noHistoryRc } := by
    show ({ m with w := (m.w.recfg r).noHistoryRc } : Mach U) = _
    rw [recfg_noHistory]
  rw [h1, recfg_applyRequests r _ hl]
  split
  · rfl
  · split
    · simp only [recfg_replayCommit r _ hh, recfg_historyCap r _ hl]
    · rfl

def replayEnterCommitRc (m : Mach U) (ts : List Transition) : Mach U :=
  ({ m with root := (m.root.enter (({ m.w.freshControl with previous := ts } : World U).snapshot m.root false false)).1.clearMarks,
            w := (m.root.enter (({ m.w.freshControl with previous := ts } : World U).snapshot m.root false false)).2 } : Mach U).updateActivity

/-- `replayEnter` up to `applyRequests` -/
def replayEnterHeadRc (m : Mach U) : Mach U :=
  { m with root := (m.root.request { kind := .change, index := none } ((m.w.clearTargets.freshControl).snapshot m.root true false)).1,
           w := (m.root.request { kind := .change, index := none } ((m.w.clearTargets.freshControl).snapshot m.root true false)).2 }

theorem replayEnter_staged (ts : List Transition) : m.replayEnter ts =
    (if ts.isEmpty then (({ m with w := m.w.clearTargets } : Mach U), false) else
     if ((replayEnterHeadRc m).applyRequests ts).2 then
       (replayEnterCommitRc ((replayEnterHeadRc m).applyRequests ts).1
          (ts.take ((replayEnterHeadRc m).applyRequests ts).1.w.cfg.historyCap), true)
     else (((replayEnterHeadRc m).applyRequests ts).1, false)) := by
  unfold Mach.replayEnter
  split
  · rfl
  · rfl

theorem recfg_replayEnterCommit (hh : r.noHist = false) (ts : List Transition) :
    replayEnterCommitRc (m.recfg r) ts = (replayEnterCommitRc m ts).recfg r := by
  unfold replayEnterCommitRc
  have h0 : (({ (m.recfg r).w.freshControl with previous := ts } : World U).snapshot (m.recfg r).root false false) =
      World.recfg r (({ m.w.freshControl with previous := ts } : World U).snapshot m.root false false) := by
    simp [World.recfg, hh, World.snapshot, World.freshControl]
  simp only [h0, show (m.recfg r).root = m.root from rfl, Node.enter_recfg]
  rfl

theorem recfg_replayEnterHead : replayEnterHeadRc (m.recfg r) = (replayEnterHeadRc m).recfg r := by
  unfold replayEnterHeadRc
  have h0 : (((m.recfg r).w.clearTargets.freshControl).snapshot (m.recfg r).root true false) =
      World.recfg r ((m.w.clearTargets.freshControl).snapshot m.root true false) := by
    show (((m.w.recfg r).clearTargets.freshControl).snapshot m.root true false) = _
    rw [recfg_clearTargets]; rfl
  simp only [h0, show (m.recfg r).root = m.root from rfl, Node.request_recfg]

theorem recfg_replayEnter (hh : r.noHist = false) (hl : r.limit = none) (ts : List Transition) :
    (m.recfg r).replayEnter ts = ((m.replayEnter ts).1.recfg r, (m.replayEnter ts).2) := by
  rw [replayEnter_staged, replayEnter_staged, recfg_replayEnterHead, recfg_applyRequests r _ hl]
  split
  · show (({ m with w := (m.w.recfg r).clearTargets } : Mach U), false) = _
    rw [recfg_clearTargets]
  · split
    · simp only [recfg_replayEnterCommit r _ hh, recfg_historyCap r _ hl]
    · rfl

end Mach

/-! ### operation sequences -/

namespace Api

/-- operations that exist only with the transition history compiled in -/
def Op.usesHistory : Op → Bool
  | .replay _ | .replayEnter _ => true
  | _ => false

/-- `r` is applicable to a program: the substitution limit is not overridden, and a program that
replays histories keeps the history feature. -/
def Recfg.fits (r : Recfg) (ops : List Op) : Prop :=
  r.limit = none ∧ (r.noHist = true → ∀ o ∈ ops, o.usesHistory = false)

theorem step_recfg (r : Recfg) (hl : r.limit = none) (m : Mach U) (o : Op)
    (hh : r.noHist = true → o.usesHistory = false) :
    step (m.recfg r) o = (step m o).recfg r := by
  cases o <;> simp only [step]
  · exact Mach.recfg_initialEnter r m hl
  · exact Mach.recfg_finalExit r m
  · exact Mach.recfg_update r m hl
  · exact Mach.recfg_react r m hl
  · exact Mach.recfg_query r m
  · exact Mach.recfg_reset r m
  · exact Mach.recfg_request r m ..
  · exact Mach.recfg_immediate r m hl ..
  · exact Mach.recfg_setTask r m ..
  · exact Mach.recfg_planAppend r m ..
  · exact Mach.recfg_planClear r m ..
  · exact Mach.recfg_load r m ..
  · have : r.noHist = false := by
      cases h : r.noHist
      · rfl
      · exact absurd (hh h) (by simp [Op.usesHistory])
    rw [Mach.recfg_replayTransitions r m this hl]
  · have : r.noHist = false := by
      cases h : r.noHist
      · rfl
      · exact absurd (hh h) (by simp [Op.usesHistory])
    rw [Mach.recfg_replayEnter r m this hl]

theorem run_recfg (r : Recfg) (hl : r.limit = none) : (ops : List Op) → (m : Mach U) →
    (r.noHist = true → ∀ o ∈ ops, o.usesHistory = false) →
    run (m.recfg r) ops = (run m ops).recfg r
  | [], m, _ => rfl
  | o :: os, m, hh => by
      rw [run_cons, run_cons, step_recfg r hl m o (fun h => hh h o (List.mem_cons_self ..))]
      exact run_recfg r hl os _ (fun h o' ho' => hh h o' (List.mem_cons_of_mem _ ho'))

theorem create_recfg (r : Recfg) (shape : Shape) (cfg : Config) :
    (Mach.create shape (cfg.recfg r) : Mach U) = (Mach.create shape cfg).recfg r := by
  unfold Mach.create
  cases hh : cfg.history <;> cases hn : r.noHist <;>
    simp [Mach.recfg, World.recfg, Config.recfg, World.clearTargets, World.clearPlanData, World.clearStatuses,
      World.freshControl, hh, hn]

theorem boot_recfg (r : Recfg) (hl : r.limit = none) (shape : Shape) (cfg : Config) (ds : List (Decision U))
    (rng : List U) : boot shape (cfg.recfg r) ds rng = (boot shape cfg ds rng).recfg r := by
  unfold boot
  rw [create_recfg]
  generalize (Mach.create shape cfg : Mach U) = m0
  have h : ({ m0.recfg r with w := { (m0.recfg r).w with ds := ds, rng := rng } } : Mach U) =
      Mach.recfg r { m0 with w := { m0.w with ds := ds, rng := rng } } := rfl
  simp only [show (cfg.recfg r).manual = cfg.manual from rfl]
  rw [h]
  split
  · rfl
  · exact Mach.recfg_initialEnter r _ hl

end Api
end Hfsm
