/-
C12 (iii): exact arithmetic.  `Rat` is a lawful instance of every class the C12 theorems assume, and
for it the cumulative walk of `resolveRandom` picks exactly the sub-state whose cumulative-utility
interval (over the top-rank sub-states) contains `rnd * sum`.
-/
import Hfsm.Proofs.UtilitySpec

namespace Hfsm
open UtilArith

/-- Exact rational utilities. -/
instance ratUtil : UtilArith Rat where
  zero := 0
  one := 1
  add := (· + ·)
  sub := (· - ·)
  mul := (· * ·)
  divNat := fun a n => a / (n : Rat)
  le := fun a b => decide (a ≤ b)

@[simp] theorem rat_le (a b : Rat) : (le a b = true) ↔ a ≤ b := by simp [le]
@[simp] theorem rat_le_false (a b : Rat) : (le a b = false) ↔ b < a := by
  simp [le, Rat.not_le]
@[simp] theorem rat_zero : (zero : Rat) = 0 := rfl
@[simp] theorem rat_add (a b : Rat) : add a b = a + b := rfl
@[simp] theorem rat_sub (a b : Rat) : sub a b = a - b := rfl
@[simp] theorem rat_mul (a b : Rat) : mul a b = a * b := rfl

instance : UtilOrder Rat where
  le_refl a := by simp
  le_trans a b c := by simp only [rat_le]; exact Rat.le_trans
  le_total a b := by simp only [rat_le]; exact Rat.le_total

instance : UtilNonneg Rat where
  le_trans a b c := by simp only [rat_le]; exact Rat.le_trans
  zero_le_zero := by simp
  add_nonneg a b := by simp only [rat_le, rat_zero, rat_add]; intro h1 h2; grind
  mul_nonneg a b := by simp only [rat_le, rat_zero, rat_mul]; exact Rat.mul_nonneg
  sub_nonneg a b := by simp only [rat_le, rat_zero, rat_sub]; intro h1 h2; grind

/-- Sum of the utilities of the top-rank sub-states among the first `i`. -/
def topPrefix (top : Int) : List Rat → List Int → Nat → Rat
  | u :: us, rk :: rks, i+1 => (if rk = top then u else 0) + topPrefix top us rks i
  | _, _, _ => 0

/-- Sum of the utilities of all top-rank sub-states. -/
def topTotal (top : Int) (us : List Rat) (rks : List Int) : Rat := topPrefix top us rks us.length

theorem topTotal_cons (top : Int) (u : Rat) (us : List Rat) (rk : Int) (rks : List Int) :
    topTotal top (u :: us) (rk :: rks) = (if rk = top then u else 0) + topTotal top us rks := by
  simp [topTotal, topPrefix]

/-- **Interval property of the cumulative walk** (exact arithmetic): for a cursor in `[0, total)` the walk
returns the top-rank index whose half-open cumulative interval contains the cursor. -/
theorem go_exact (top : Int) :
    ∀ (us : List Rat) (rks : List Int) (i : Nat) (c : Rat) (last : Option Nat),
      0 ≤ c → (∀ u ∈ us, 0 ≤ u) → c < topTotal top us rks →
      ∃ r u, World.resolveRandom.go top us rks i c last = some (i + r) ∧ rks[r]? = some top ∧
        us[r]? = some u ∧ topPrefix top us rks r ≤ c ∧ c < topPrefix top us rks r + u
  | [], rks, i, c, last, h0, _, hlt => by simp [topTotal, topPrefix] at hlt; grind
  | u :: us, [], i, c, last, h0, _, hlt => by simp [topTotal, topPrefix] at hlt; grind
  | u :: us, rk :: rks, i, c, last, h0, hnn, hlt => by
    rw [topTotal_cons] at hlt
    have hnn' : ∀ v ∈ us, 0 ≤ v := fun v hv => hnn v (by simp [hv])
    have hu0 : 0 ≤ u := hnn u (by simp)
    unfold World.resolveRandom.go
    by_cases hrk : rk = top
    · simp only [hrk, if_true] at hlt ⊢
      by_cases hc : u ≤ c
      · have hle : le u c = true := by simpa using hc
        simp only [hle, if_true]
        obtain ⟨r, v, h1, h2, h3, h4, h5⟩ := go_exact top us rks (i+1) (sub c u)
          (if (!le u zero) = true then some i else last) (by simp; grind) hnn' (by simp; grind)
        refine ⟨r+1, v, ?_, by simpa using h2, by simpa using h3, ?_, ?_⟩
        · rw [h1]; congr 1; omega
        · simp only [topPrefix, if_true]; simp at h4; grind
        · simp only [topPrefix, if_true]; simp at h5; grind
      · have hle : ¬ le u c = true := by simpa using hc
        simp only [hle]
        refine ⟨0, u, rfl, by simp, by simp, ?_, ?_⟩
        · simp [topPrefix]; exact h0
        · simp [topPrefix]; grind
    · simp only [hrk, if_false] at hlt ⊢
      obtain ⟨r, v, h1, h2, h3, h4, h5⟩ := go_exact top us rks (i+1) c last h0 hnn' (by grind)
      refine ⟨r+1, v, ?_, by simpa using h2, by simpa using h3, ?_, ?_⟩
      · rw [h1]; congr 1; omega
      · simp only [topPrefix, hrk, if_false]; grind
      · simp only [topPrefix, hrk, if_false]; grind

/-! `treeSum` is the plain sum, and equals the top-rank total when the other entries are zero. -/

theorem foldl_add_eq (l : List Rat) (a : Rat) : l.foldl add a = a + l.sum := by
  induction l generalizing a with
  | nil => simp; grind
  | cons b l ih => simp only [List.foldl_cons, List.sum_cons, ih, rat_add]; grind

theorem treeSum_eq_sum (us : List Rat) : treeSum us = us.sum := by
  cases us with
  | nil => simp [treeSum, treeFold]
  | cons a l =>
    unfold treeSum
    rw [treeFold_eq_foldl add (by intro a b c; simp; grind) zero _ a l (by simp), foldl_add_eq]
    simp

theorem sum_eq_topTotal (top : Int) : ∀ (us : List Rat) (rks : List Int), us.length = rks.length →
    (∀ (j : Nat) (u : Rat), us[j]? = some u → rks[j]? ≠ some top → u = 0) → us.sum = topTotal top us rks
  | [], _, _, _ => by simp [topTotal, topPrefix]
  | u :: us, [], h, _ => by simp at h
  | u :: us, rk :: rks, h, hz => by
    rw [topTotal_cons, List.sum_cons,
      sum_eq_topTotal top us rks (by simpa using h) (fun j v h1 h2 => hz (j+1) v (by simpa using h1) (by simpa using h2))]
    by_cases hrk : rk = top
    · simp [hrk]
    · have := hz 0 u (by simp) (by simp [hrk])
      simp [hrk, this]

/-- **C12 (iii)** at the level of `C_::resolveRandom`, exact arithmetic: for `rnd ∈ [0,1)`, non-negative
utilities that are zero off the top rank, and a positive sum, the prong returned is the top-rank
sub-state whose cumulative interval `[prefix, prefix + u)` contains `rnd * sum`. -/
theorem resolveRandom_interval (w : World Rat) (hid : Nat) (us : List Rat) (rks : List Int) (top : Int)
    (rnd : Rat) (rest : List Rat) (hr : w.rng = rnd :: rest) (h0 : 0 ≤ rnd) (h1 : rnd < 1)
    (hnn : ∀ u ∈ us, 0 ≤ u) (hlen : us.length = rks.length)
    (hz : ∀ (j : Nat) (u : Rat), us[j]? = some u → rks[j]? ≠ some top → u = 0) (hpos : 0 < treeSum us) :
    ∃ (i : Nat) (u : Rat), (w.resolveRandom hid us (treeSum us) rks top).2 = some i ∧ rks[i]? = some top ∧
      us[i]? = some u ∧ 0 < u ∧
      topPrefix top us rks i ≤ rnd * treeSum us ∧ rnd * treeSum us < topPrefix top us rks i + u ∧
      (w.resolveRandom hid us (treeSum us) rks top).1.rng = rest ∧
      (w.resolveRandom hid us (treeSum us) rks top).1.err = w.err := by
  have htot : treeSum us = topTotal top us rks := by rw [treeSum_eq_sum, sum_eq_topTotal top us rks hlen hz]
  have hc0 : 0 ≤ rnd * treeSum us := Rat.mul_nonneg h0 (by grind)
  have hc1 : rnd * treeSum us < topTotal top us rks := by
    have := Rat.mul_lt_mul_of_pos_right h1 hpos
    rw [← htot]; grind
  obtain ⟨i, u, h2, h3, h4, h5, h6⟩ := go_exact top us rks 0 (rnd * treeSum us) none hc0 hnn hc1
  simp only [Nat.zero_add] at h2
  refine ⟨i, u, ?_, h3, h4, by grind, h5, h6, ?_, ?_⟩ <;>
    (unfold World.resolveRandom; simp only [hr, rat_mul, h2]; try simp)

/-! The utilities handed to `resolveRandom` by the report passes: one per sub-state, zero off the top rank. -/
section Tops
variable {U : Type} [UtilArith U]
set_option linter.unusedSectionVars false

theorem rankSpecAll_length : (s : Subs) → (σ : Sig U) → (s.rankSpecAll σ).1.length = s.len
  | .nil, _ => rfl
  | .cons _ n r, σ => by simp only [Subs.rankSpecAll, Subs.len, List.length_cons]; rw [rankSpecAll_length r]

theorem changeSpecTop_shape : (s : Subs) → (rks : List Int) → (top : Int) → (σ : Sig U) →
    (s.changeSpecTop rks top σ).1.length = s.len ∧
    ∀ (j : Nat) (u : U) (rk : Int), (s.changeSpecTop rks top σ).1[j]? = some u → rks[j]? = some rk → rk ≠ top → u = zero
  | .nil, _, _, _ => by simp [Subs.changeSpecTop, Subs.len]
  | .cons _ n r, rks, top, σ => by
    simp only [Subs.changeSpecTop]
    split
    · next hr =>
      have ih := changeSpecTop_shape r rks.tail top (n.changeSpec σ).2
      refine ⟨by simp [Subs.len, ih.1], ?_⟩
      intro j u rk h1 h2 h3
      cases j with
      | zero =>
        cases rks with
        | nil => simp at h2
        | cons a t => simp at h2 hr; exact absurd (h2 ▸ hr) h3
      | succ j => exact ih.2 j u rk (by simpa using h1) (by cases rks <;> simp_all) h3
    · next hr =>
      have ih := changeSpecTop_shape r rks.tail top σ
      refine ⟨by simp [Subs.len, ih.1], ?_⟩
      intro j u rk h1 h2 h3
      cases j with
      | zero => simp at h1; exact h1.symm
      | succ j => exact ih.2 j u rk (by simpa using h1) (by cases rks <;> simp_all) h3

theorem randomizeSpecTop_shape : (s : Subs) → (rks : List Int) → (top : Int) → (σ : Sig U) →
    (s.randomizeSpecTop rks top σ).1.length = s.len ∧
    ∀ (j : Nat) (u : U) (rk : Int), (s.randomizeSpecTop rks top σ).1[j]? = some u → rks[j]? = some rk → rk ≠ top → u = zero
  | .nil, _, _, _ => by simp [Subs.randomizeSpecTop, Subs.len]
  | .cons _ n r, rks, top, σ => by
    simp only [Subs.randomizeSpecTop]
    split
    · next hr =>
      have ih := randomizeSpecTop_shape r rks.tail top (n.randomizeSpec σ).2
      refine ⟨by simp [Subs.len, ih.1], ?_⟩
      intro j u rk h1 h2 h3
      cases j with
      | zero =>
        cases rks with
        | nil => simp at h2
        | cons a t => simp at h2 hr; exact absurd (h2 ▸ hr) h3
      | succ j => exact ih.2 j u rk (by simpa using h1) (by cases rks <;> simp_all) h3
    · next hr =>
      have ih := randomizeSpecTop_shape r rks.tail top σ
      refine ⟨by simp [Subs.len, ih.1], ?_⟩
      intro j u rk h1 h2 h3
      cases j with
      | zero => simp at h1; exact h1.symm
      | succ j => exact ih.2 j u rk (by simpa using h1) (by cases rks <;> simp_all) h3

end Tops

/-! ### integer utilities: a second lawful instance, used for closed witnesses (`decide` evaluates it) -/

/-- Integer utilities (think: fixed-point). -/
instance intUtil : UtilArith Int where
  zero := 0
  one := 1
  add := (· + ·)
  sub := (· - ·)
  mul := (· * ·)
  divNat := fun a n => a / (n : Int)
  le := fun a b => decide (a ≤ b)

instance : UtilOrder Int where
  le_refl a := by simp [le]
  le_trans a b c := by simp only [le, decide_eq_true_eq]; omega
  le_total a b := by simp only [le, decide_eq_true_eq]; omega

instance : UtilNonneg Int where
  le_trans a b c := by simp only [le, decide_eq_true_eq]; omega
  zero_le_zero := by simp [le, zero]
  add_nonneg a b := by simp only [le, zero, add, decide_eq_true_eq]; omega
  mul_nonneg a b := by simp only [le, zero, mul, decide_eq_true_eq]; exact Int.mul_nonneg
  sub_nonneg a b := by simp only [le, zero, sub, decide_eq_true_eq]; omega

end Hfsm
