/-
`deepLoadRequested` / `deepLoadResumable` on ANY bit stream: when the model accepts the stream (the
result is `some`), the loaded region prongs are in range, so the marks laid down satisfy `Res`, the
resumable marks satisfy `ResumableOK`, and activity and structure are untouched.  (A stream the model
rejects — too short, or a prong ≥ width — is recorded as `err` by `Mach.load*`.)
-/
import Hfsm.Proofs.RegistryMark

set_option linter.unusedSimpArgs false
set_option linter.unusedVariables false

namespace Hfsm

theorem loadRange_ok (r : Option Nat) (len : Nat)
    (h : ¬ (match r with | some ri => decide (ri ≥ len) | none => false) = true) :
    match r with | some ri => ri < len | none => True := by
  cases r with
  | none => trivial
  | some ri => simpa using h

set_option hygiene false in
local macro "fin_resumable" : tactic => `(tactic| (
  split at h
  · next s' st2 hs =>
    simp only [Option.some.injEq, Prod.mk.injEq] at h
    obtain ⟨rfl, _⟩ := h
    have ih := Subs.loadResumableAll_spec s st1 s' st2 hs
    refine ⟨by simp [Node.view, ih.1], ?_⟩
    simp only [Node.ResumableOK]
    refine ⟨?_, ih.2.1⟩
    first | trivial | (rw [ih.2.2]; omega)
  · simp at h))

set_option hygiene false in
local macro "fin_requested" : tactic => `(tactic| (
  split at h
  · next s' st2 hs =>
    simp only [Option.some.injEq, Prod.mk.injEq] at h
    obtain ⟨rfl, _⟩ := h
    have ih := Subs.loadRequestedAt_spec s qv 0 st1 s' st2 hs
    refine ⟨by simp [Node.view, ih.1], ?_, ?_⟩
    · simp only [Node.ResumableOK]
      refine ⟨?_, ih.2.1⟩
      first | trivial | (rw [ih.2.2.1]; omega)
    · simp only [Node.Res]
      exact ih.2.2.2 qv (by omega) (by omega) rfl
  · simp at h))

mutual
theorem Node.loadResumable_spec : (n : Node) → (st : List Bool) → (n' : Node) → (st' : List Bool) →
    n.loadResumable st = some (n', st') →
    n'.view true false true = n.view true false true ∧ n'.ResumableOK
  | .leaf id inj, st, n', st', h => by
      simp only [Node.loadResumable, Option.some.injEq, Prod.mk.injEq] at h
      obtain ⟨rfl, _⟩ := h
      exact ⟨rfl, trivial⟩
  | .compo id rid inj hd sg a r q m s, st, n', st', h => by
      simp only [Node.loadResumable] at h
      split at h
      · simp at h
      · next rr st1 hrd =>
        cases rr with
        | none =>
          simp only [Bool.false_eq_true, if_false] at h
          fin_resumable
        | some ri =>
          by_cases hge : ri ≥ s.len
          · simp [hge] at h
          · simp only [hge, decide_false, Bool.false_eq_true, if_false] at h
            fin_resumable
  | .ortho id rid inj hd s, st, n', st', h => by
      simp only [Node.loadResumable] at h
      split at h
      · next s' st2 hs =>
        simp only [Option.some.injEq, Prod.mk.injEq] at h
        obtain ⟨rfl, _⟩ := h
        have ih := Subs.loadResumableAll_spec s st s' st2 hs
        exact ⟨by simp [Node.view, ih.1], by simpa [Node.ResumableOK] using ih.2.1⟩
      · simp at h
theorem Subs.loadResumableAll_spec : (s : Subs) → (st : List Bool) → (s' : Subs) → (st' : List Bool) →
    s.loadResumableAll st = some (s', st') →
    s'.viewAll true false true = s.viewAll true false true ∧ s'.ResumableOKAll ∧ s'.len = s.len
  | .nil, st, s', st', h => by
      simp only [Subs.loadResumableAll, Option.some.injEq, Prod.mk.injEq] at h
      obtain ⟨rfl, _⟩ := h
      exact ⟨rfl, trivial, rfl⟩
  | .cons b n r, st, s', st', h => by
      simp only [Subs.loadResumableAll] at h
      split at h
      · simp at h
      · next n' st1 hn =>
        split at h
        · next r' st2 hr =>
          simp only [Option.some.injEq, Prod.mk.injEq] at h
          obtain ⟨rfl, _⟩ := h
          have h1 := Node.loadResumable_spec n st n' st1 hn
          have h2 := Subs.loadResumableAll_spec r st1 r' st2 hr
          exact ⟨by simp [Subs.viewAll, h1.1, h2.1], ⟨h1.2, h2.2.1⟩, by simp [Subs.len, h2.2.2]⟩
        · simp at h
end

mutual
theorem Node.loadRequested_spec : (n : Node) → (st : List Bool) → (n' : Node) → (st' : List Bool) →
    n.loadRequested st = some (n', st') →
    n'.view true false false = n.view true false false ∧ n'.ResumableOK ∧ n'.Res
  | .leaf id inj, st, n', st', h => by
      simp only [Node.loadRequested, Option.some.injEq, Prod.mk.injEq] at h
      obtain ⟨rfl, _⟩ := h
      exact ⟨rfl, trivial, trivial⟩
  | .compo id rid inj hd sg a r q m s, st, n', st', h => by
      simp only [Node.loadRequested] at h
      split at h
      · simp at h
      · next qv st0 hq =>
        split at h
        · simp at h
        · next hqr =>
          split at h
          · simp at h
          · next rr st1 hrd =>
            cases rr with
            | none =>
              simp only [Bool.false_eq_true, if_false] at h
              fin_requested
            | some ri =>
              by_cases hge : ri ≥ s.len
              · simp [hge] at h
              · simp only [hge, decide_false, Bool.false_eq_true, if_false] at h
                fin_requested
  | .ortho id rid inj hd s, st, n', st', h => by
      simp only [Node.loadRequested] at h
      split at h
      · next s' st2 hs =>
        simp only [Option.some.injEq, Prod.mk.injEq] at h
        obtain ⟨rfl, _⟩ := h
        have ih := Subs.loadRequestedAll_spec s st s' st2 hs
        exact ⟨by simp [Node.view, ih.1], by simpa [Node.ResumableOK] using ih.2.1,
               by simpa [Node.Res] using ih.2.2⟩
      · simp at h
/-- `k` is the index of the head of `s` in the region; the prong `q ≥ k` being loaded is at `q - k`. -/
theorem Subs.loadRequestedAt_spec : (s : Subs) → (q k : Nat) → (st : List Bool) → (s' : Subs) → (st' : List Bool) →
    s.loadRequestedAt q k st = some (s', st') →
    s'.viewAll true false false = s.viewAll true false false ∧ s'.ResumableOKAll ∧ s'.len = s.len ∧
      (∀ j, k ≤ j → j - k < s.len → j = q → s'.ResAt (j - k))
  | .nil, q, k, st, s', st', h => by
      simp only [Subs.loadRequestedAt, Option.some.injEq, Prod.mk.injEq] at h
      obtain ⟨rfl, _⟩ := h
      exact ⟨rfl, trivial, rfl, by intro j _ hj; simp [Subs.len] at hj⟩
  | .cons b n r, q, k, st, s', st', h => by
      simp only [Subs.loadRequestedAt] at h
      split at h
      · simp at h
      · next n' st1 hn =>
        split at h
        · next r' st2 hr =>
          simp only [Option.some.injEq, Prod.mk.injEq] at h
          obtain ⟨rfl, _⟩ := h
          have h2 := Subs.loadRequestedAt_spec r q (k+1) st1 r' st2 hr
          by_cases e : q = k
          · simp only [e, if_true] at hn
            have h1 := Node.loadRequested_spec n st n' st1 hn
            refine ⟨by simp [Subs.viewAll, h1.1, h2.1], ⟨h1.2.1, h2.2.1⟩, by simp [Subs.len, h2.2.2.1], ?_⟩
            intro j hj hlt hjq
            have : j - k = 0 := by omega
            rw [this]; simp only [Subs.ResAt]; exact h1.2.2
          · simp only [e, if_false] at hn
            have h1 := Node.loadResumable_spec n st n' st1 hn
            refine ⟨?_, ⟨h1.2, h2.2.1⟩, by simp [Subs.len, h2.2.2.1], ?_⟩
            · have := Node.view_mono h1.1 true false false
              simp only [Bool.and_true, Bool.and_false, Bool.and_self] at this
              simp [Subs.viewAll, this, h2.1]
            · intro j hj hlt hjq
              have hne : j ≠ k := by omega
              have : j - k = (j - (k+1)) + 1 := by omega
              rw [this]; simp only [Subs.ResAt]
              simp only [Subs.len] at hlt
              exact h2.2.2.2 j (by omega) (by rw [h2.2.2.1] at *; omega) hjq
        · simp at h
theorem Subs.loadRequestedAll_spec : (s : Subs) → (st : List Bool) → (s' : Subs) → (st' : List Bool) →
    s.loadRequestedAll st = some (s', st') →
    s'.viewAll true false false = s.viewAll true false false ∧ s'.ResumableOKAll ∧ s'.ResAll
  | .nil, st, s', st', h => by
      simp only [Subs.loadRequestedAll, Option.some.injEq, Prod.mk.injEq] at h
      obtain ⟨rfl, _⟩ := h
      exact ⟨rfl, trivial, trivial⟩
  | .cons b n r, st, s', st', h => by
      simp only [Subs.loadRequestedAll] at h
      split at h
      · simp at h
      · next n' st1 hn =>
        split at h
        · next r' st2 hr =>
          simp only [Option.some.injEq, Prod.mk.injEq] at h
          obtain ⟨rfl, _⟩ := h
          have h1 := Node.loadRequested_spec n st n' st1 hn
          have h2 := Subs.loadRequestedAll_spec r st1 r' st2 hr
          exact ⟨by simp [Subs.viewAll, h1.1, h2.1], ⟨h1.2.1, h2.2.1⟩, ⟨h1.2.2, h2.2.2⟩⟩
        · simp at h
end

end Hfsm
