/-
What the primitives of `Steps` do to the fields of the `World` that C04 / C09 / C14 talk about, and
the frame facts every walk inherits from them (`Steps.preserve`).
-/
import Hfsm.Proofs.StepsWalks

namespace Hfsm
variable {U : Type}

/-! ### `logRec`, `fail'`, `pin`, `ctlRequest` -/

/-- `w'` is `w` with (possibly) log records prepended to the trace and (possibly) the error mark set. -/
structure LogOnly (w w' : World U) : Prop where
  cfg : w'.cfg = w.cfg
  requests : w'.requests = w.requests
  plans : w'.plans = w.plans
  targets : w'.targets = w.targets
  previous : w'.previous = w.previous
  cancelled : w'.cancelled = w.cancelled
  pending : w'.pending = w.pending
  current : w'.current = w.current
  obs : w'.obs = w.obs
  activeSnap : w'.activeSnap = w.activeSnap
  origin : w'.origin = w.origin
  ds : w'.ds = w.ds
  trace : ∃ logs : List (LogRec U), w'.trace = logs.map Event.log ++ w.trace
  err : w.err.isSome → w'.err = w.err

theorem LogOnly.rfl' (w : World U) : LogOnly w w :=
  ⟨rfl, rfl, rfl, rfl, rfl, rfl, rfl, rfl, rfl, rfl, rfl, rfl, ⟨[], rfl⟩, fun _ => rfl⟩

theorem World.logRec_logOnly (w : World U) (r : LogRec U) : LogOnly w (w.logRec r) := by
  unfold World.logRec World.emit
  split
  · exact ⟨rfl, rfl, rfl, rfl, rfl, rfl, rfl, rfl, rfl, rfl, rfl, rfl, ⟨[r], rfl⟩, fun _ => rfl⟩
  · exact LogOnly.rfl' w

theorem World.fail'_logOnly (w : World U) (msg : String) : LogOnly w (w.fail' msg) := by
  unfold World.fail'
  split
  · exact LogOnly.rfl' w
  · next h => exact ⟨rfl, rfl, rfl, rfl, rfl, rfl, rfl, rfl, rfl, rfl, rfl, rfl, ⟨[], rfl⟩,
      fun h' => by rw [h] at h'; cases h'⟩

theorem World.fail'_err (w : World U) (msg : String) : (w.fail' msg).err.isSome := by
  unfold World.fail'
  split
  · next h => rw [h]; rfl
  · rfl

/-- What one control action does, relative to the decision `d` it belongs to and the origin `o` of
the control object. -/
structure ActsRel (d : Decision U) (w w' : World U) : Prop where
  cfg : w'.cfg = w.cfg
  targets : w'.targets = w.targets
  previous : w'.previous = w.previous
  pending : w'.pending = w.pending
  current : w'.current = w.current
  obs : w'.obs = w.obs
  activeSnap : w'.activeSnap = w.activeSnap
  origin : w'.origin = w.origin
  ds : w'.ds = w.ds
  cancelled : w.cancelled = true → w'.cancelled = true
  requests : ∃ add, w'.requests = w.requests ++ add ∧
    ∀ t ∈ add, ∃ k dst p, Action.request k dst p ∈ d ∧ t = ⟨w.origin, dst, k, p⟩
  plans : ∀ pl' ∈ w'.plans, ∀ tk ∈ pl', (∃ pl ∈ w.plans, tk ∈ pl) ∨
    ∃ o dst k p, Action.planAppend o dst k p ∈ d ∧ tk = ⟨o, dst, k, p⟩
  trace : ∃ logs : List (LogRec U), w'.trace = logs.map Event.log ++ w.trace
  err : w.err.isSome → w'.err = w.err

theorem ActsRel.rfl' (d : Decision U) (w : World U) : ActsRel d w w :=
  ⟨rfl, rfl, rfl, rfl, rfl, rfl, rfl, rfl, rfl, id, ⟨[], (List.append_nil _).symm, fun _ h => nomatch h⟩,
   fun pl h _ ht => .inl ⟨pl, h, ht⟩, ⟨[], rfl⟩, fun _ => rfl⟩

theorem ActsRel.trans {d : Decision U} {w w1 w2 : World U} (h1 : ActsRel d w w1) (h2 : ActsRel d w1 w2) :
    ActsRel d w w2 := by
  refine ⟨h2.cfg.trans h1.cfg, h2.targets.trans h1.targets, h2.previous.trans h1.previous,
    h2.pending.trans h1.pending, h2.current.trans h1.current, h2.obs.trans h1.obs,
    h2.activeSnap.trans h1.activeSnap, h2.origin.trans h1.origin, h2.ds.trans h1.ds,
    fun h => h2.cancelled (h1.cancelled h), ?_, ?_, ?_, ?_⟩
  · obtain ⟨a1, e1, p1⟩ := h1.requests
    obtain ⟨a2, e2, p2⟩ := h2.requests
    refine ⟨a1 ++ a2, by rw [e2, e1, List.append_assoc], ?_⟩
    intro t ht
    rcases List.mem_append.mp ht with ht | ht
    · exact p1 t ht
    · have := p2 t ht
      rwa [h1.origin] at this
  · intro pl' hpl' tk htk
    rcases h2.plans pl' hpl' tk htk with ⟨pl, hpl, ht⟩ | h
    · exact h1.plans pl hpl tk ht
    · exact .inr h
  · obtain ⟨l1, e1⟩ := h1.trace
    obtain ⟨l2, e2⟩ := h2.trace
    exact ⟨l2 ++ l1, by rw [e2, e1, List.map_append, List.append_assoc]⟩
  · intro h
    rw [h2.err (by rw [h1.err h]; exact h), h1.err h]

theorem LogOnly.actsRel {d : Decision U} {w w' : World U} (h : LogOnly w w') : ActsRel d w w' :=
  ⟨h.cfg, h.targets, h.previous, h.pending, h.current, h.obs, h.activeSnap, h.origin, h.ds,
   fun hc => by rw [h.cancelled]; exact hc, ⟨[], by rw [h.requests, List.append_nil], fun _ h => nomatch h⟩,
   fun pl hp tk ht => .inl ⟨pl, h.plans ▸ hp, ht⟩, h.trace, h.err⟩

theorem World.ctlRequest_actsRel {d : Decision U} (w : World U) (k : Kind) (dst : Nat) (p : Option Nat)
    (hd : Action.request k dst p ∈ d) : ActsRel d w (w.ctlRequest k dst p) := by
  unfold World.ctlRequest
  dsimp only
  refine ActsRel.trans ?_ (World.logRec_logOnly _ _).actsRel
  split <;> split
  all_goals first
    | exact ⟨rfl, rfl, rfl, rfl, rfl, rfl, rfl, rfl, rfl, id,
        ⟨[⟨w.origin, dst, k, p⟩], rfl, fun t ht => ⟨k, dst, p, hd, List.mem_singleton.mp ht⟩⟩,
        fun pl h tk ht => .inl ⟨pl, h, ht⟩, ⟨[], rfl⟩, fun _ => rfl⟩
    | exact ⟨rfl, rfl, rfl, rfl, rfl, rfl, rfl, rfl, rfl, id, ⟨[], (List.append_nil _).symm, fun _ h => nomatch h⟩,
        fun pl h tk ht => .inl ⟨pl, h, ht⟩, ⟨[], rfl⟩, fun _ => rfl⟩

theorem Scratch.actsRel {d : Decision U} {w w' : World U} (h : Scratch w w') (ho : w'.origin = w.origin) :
    ActsRel d w w' :=
  ⟨h.cfg, h.targets, h.previous, h.pending, h.current, h.obs, h.activeSnap, ho, h.ds,
   fun hc => by rw [h.cancelled]; exact hc, ⟨[], by rw [h.requests, List.append_nil], fun _ h => nomatch h⟩,
   fun pl hp _ ht => .inl ⟨pl, h.plans ▸ hp, ht⟩, ⟨[], by rw [h.trace]; rfl⟩, fun _ => h.err⟩

theorem World.ctlSucceed_actsRel {d : Decision U} (w : World U) (sid : Nat) : ActsRel d w (w.ctlSucceed sid) := by
  unfold World.ctlSucceed
  split
  · dsimp only
    refine ActsRel.trans ?_ (World.logRec_logOnly _ _).actsRel
    exact Scratch.actsRel (by scratch) rfl
  · exact ActsRel.rfl' d w

theorem World.ctlFail_actsRel {d : Decision U} (w : World U) (sid : Nat) : ActsRel d w (w.ctlFail sid) := by
  unfold World.ctlFail
  split
  · dsimp only
    refine ActsRel.trans ?_ (World.logRec_logOnly _ _).actsRel
    exact Scratch.actsRel (by scratch) rfl
  · exact ActsRel.rfl' d w

theorem World.planAppend_actsRel {d : Decision U} (w : World U) (r o dst : Nat) (k : Kind) (p : Option Nat)
    (hd : Action.planAppend o dst k p ∈ d) : ActsRel d w (w.planAppend r ⟨o, dst, k, p⟩) := by
  unfold World.planAppend
  split
  · refine ⟨rfl, rfl, rfl, rfl, rfl, rfl, rfl, rfl, rfl, id, ⟨[], (List.append_nil _).symm, fun _ h => nomatch h⟩,
      ?_, ⟨[], rfl⟩, fun _ => rfl⟩
    intro pl' hpl' tk htk
    unfold World.setPlan at hpl'
    dsimp only at hpl'
    rcases List.mem_or_eq_of_mem_set hpl' with h | h
    · exact .inl ⟨pl', h, htk⟩
    · subst h
      rcases List.mem_append.mp htk with h | h
      · exact .inl (List.mem_getD_nil h)
      · exact .inr ⟨o, dst, k, p, hd, List.mem_singleton.mp h⟩
  · exact ActsRel.rfl' d w

theorem World.planClear_actsRel {d : Decision U} (w : World U) (r hid size : Nat) :
    ActsRel d w (w.planClear r hid size) := by
  unfold World.planClear
  refine ⟨rfl, rfl, rfl, rfl, rfl, rfl, rfl, rfl, rfl, id, ⟨[], (List.append_nil _).symm, fun _ h => nomatch h⟩,
      ?_, ⟨[], rfl⟩, fun _ => rfl⟩
  intro pl' hpl' tk htk
  unfold World.setPlan at hpl'
  dsimp only at hpl'
  rcases List.mem_or_eq_of_mem_set hpl' with h | h
  · exact .inl ⟨pl', h, htk⟩
  · subst h; cases htk

theorem World.act_actsRel {d : Decision U} (c : CtlClass) (w : World U) (a : Action U) (ha : a ∈ d) :
    ActsRel d w (World.act c w a) := by
  cases a with
  | request k dst p =>
    simp only [World.act]; split
    · exact World.ctlRequest_actsRel w k dst p ha
    · exact (World.fail'_logOnly _ _).actsRel
  | succeed s =>
    simp only [World.act]; split
    · exact World.ctlSucceed_actsRel w s
    · exact (World.fail'_logOnly _ _).actsRel
  | fail s =>
    simp only [World.act]; split
    · exact World.ctlFail_actsRel w s
    · exact (World.fail'_logOnly _ _).actsRel
  | cancel =>
    simp only [World.act]; split
    · refine ActsRel.trans ?_ (World.logRec_logOnly _ _).actsRel
      exact ⟨rfl, rfl, rfl, rfl, rfl, rfl, rfl, rfl, rfl, fun _ => rfl,
        ⟨[], (List.append_nil _).symm, fun _ h => nomatch h⟩, fun pl h _ ht => .inl ⟨pl, h, ht⟩, ⟨[], rfl⟩, fun _ => rfl⟩
    · exact (World.fail'_logOnly _ _).actsRel
  | consume =>
    simp only [World.act]; split
    · exact Scratch.actsRel (by scratch) rfl
    · exact (World.fail'_logOnly _ _).actsRel
  | planAppend o dst k p =>
    simp only [World.act]; split
    · exact World.planAppend_actsRel w _ o dst k p ha
    · exact (World.fail'_logOnly _ _).actsRel
  | planClear =>
    simp only [World.act]; split
    · exact World.planClear_actsRel w _ _ _
    · exact (World.fail'_logOnly _ _).actsRel
  | retSelect _ => simp only [World.act]; exact ActsRel.rfl' d w
  | retRank _ => simp only [World.act]; exact ActsRel.rfl' d w
  | retUtil _ => simp only [World.act]; exact ActsRel.rfl' d w

theorem World.foldl_act_actsRel {d : Decision U} (c : CtlClass) : (l : List (Action U)) → (w : World U) →
    (∀ a ∈ l, a ∈ d) → ActsRel d w (l.foldl (World.act c) w)
  | [], w, _ => ActsRel.rfl' d w
  | a :: rest, w, h => by
    simp only [List.foldl]
    exact (World.act_actsRel c w a (h a List.mem_cons_self)).trans
      (World.foldl_act_actsRel c rest _ (fun a' h' => h a' (List.mem_cons_of_mem _ h')))

/-- The callback event `invoke` appends. -/
def World.cbEvent (w : World U) (sid : Nat) (m : Method) (slot : Nat) : Event U :=
  .cb sid m slot w.obs (if m.cls = .guard then w.pending else [])
    (if m.cls = .guard || m.cls = .plan then w.current else [])

/-- Everything `invoke` does: either the decision stream is exhausted (error mark only), or one
decision `d` is consumed, its actions are performed and the callback event is appended. -/
inductive InvokeRel (w : World U) (sid : Nat) (m : Method) (slot : Nat) (w' : World U) : Prop
  | exhausted (h : w.ds = []) (hw : LogOnly w w')
  | ran (d : Decision U) (rest : List (Decision U)) (x : World U) (h : w.ds = d :: rest)
      (hx : ActsRel d { w with ds := rest } x)
      (hw : w' = x.emit (w.cbEvent sid m slot))

theorem World.invoke_rel (w : World U) (sid : Nat) (m : Method) (slot : Nat) :
    InvokeRel w sid m slot (w.invoke sid m slot).1 := by
  unfold World.invoke
  split
  · next h => exact .exhausted h (World.fail'_logOnly _ _)
  · next d rest h =>
    refine .ran d rest _ h (World.foldl_act_actsRel m.cls d _ (fun _ h => h)) ?_
    unfold World.cbEvent
    simp only [Bool.or_eq_true, decide_eq_true_eq]

/-! ### the frame every walk inherits -/

/-- An event a walk with permission `allow` started in `w` may emit: a logger record, or the callback
event of an allowed method, showing the registry snapshot and transition lists of `w`. -/
def EvOK (allow : Perm) (w : World U) : Event U → Prop
  | .log _ => True
  | .cb sid m slot obs pend curr => allow.meth sid m ∧ Event.cb sid m slot obs pend curr = w.cbEvent sid m slot

structure Frame (allow : Perm) (w w' : World U) : Prop where
  cfg : w'.cfg = w.cfg
  previous : w'.previous = w.previous
  pending : w'.pending = w.pending
  current : w'.current = w.current
  obs : w'.obs = w.obs
  activeSnap : w'.activeSnap = w.activeSnap
  cancelled : w.cancelled = true → w'.cancelled = true
  requests : ∃ add, w'.requests = w.requests ++ add
  ds : ∃ used, w.ds = used ++ w'.ds
  trace : ∃ evs, w'.trace = evs ++ w.trace ∧ ∀ e ∈ evs, EvOK allow w e
  targetsLen : w'.targets.length = w.targets.length
  targets : ∀ s, w'.targets.getD s none = w.targets.getD s none ∨
    ∃ i, allow.pin (some i) ∧ w'.targets.getD s none = some i
  err : w.err.isSome → w'.err = w.err

theorem Frame.rfl' (allow : Perm) (w : World U) : Frame allow w w :=
  ⟨rfl, rfl, rfl, rfl, rfl, rfl, id, ⟨[], (List.append_nil _).symm⟩, ⟨[], rfl⟩,
   ⟨[], rfl, fun _ h => nomatch h⟩, rfl, fun _ => .inl rfl, fun _ => rfl⟩

theorem World.cbEvent_congr {w w' : World U} (ho : w'.obs = w.obs) (hp : w'.pending = w.pending)
    (hc : w'.current = w.current) (sid : Nat) (m : Method) (slot : Nat) :
    w'.cbEvent sid m slot = w.cbEvent sid m slot := by
  unfold World.cbEvent; rw [ho, hp, hc]

theorem EvOK.congr {allow : Perm} {w w' : World U} (ho : w'.obs = w.obs) (hp : w'.pending = w.pending)
    (hc : w'.current = w.current) {e : Event U} (h : EvOK allow w' e) : EvOK allow w e := by
  cases e with
  | log r => trivial
  | cb sid m slot obs pend curr =>
    exact ⟨h.1, by rw [← World.cbEvent_congr ho hp hc]; exact h.2⟩

theorem Frame.trans {allow : Perm} {w w1 w2 : World U} (h1 : Frame allow w w1) (h2 : Frame allow w1 w2) :
    Frame allow w w2 := by
  refine ⟨h2.cfg.trans h1.cfg, h2.previous.trans h1.previous, h2.pending.trans h1.pending,
    h2.current.trans h1.current, h2.obs.trans h1.obs, h2.activeSnap.trans h1.activeSnap,
    fun h => h2.cancelled (h1.cancelled h), ?_, ?_, ?_, h2.targetsLen.trans h1.targetsLen, ?_, ?_⟩
  · obtain ⟨a1, e1⟩ := h1.requests
    obtain ⟨a2, e2⟩ := h2.requests
    exact ⟨a1 ++ a2, by rw [e2, e1, List.append_assoc]⟩
  · obtain ⟨u1, e1⟩ := h1.ds
    obtain ⟨u2, e2⟩ := h2.ds
    exact ⟨u1 ++ u2, by rw [e1, e2, List.append_assoc]⟩
  · obtain ⟨v1, e1, p1⟩ := h1.trace
    obtain ⟨v2, e2, p2⟩ := h2.trace
    refine ⟨v2 ++ v1, by rw [e2, e1, List.append_assoc], ?_⟩
    intro e he
    rcases List.mem_append.mp he with he | he
    · exact (p2 e he).congr h1.obs h1.pending h1.current
    · exact p1 e he
  · intro s
    rcases h2.targets s with h | ⟨i, hi, h⟩
    · rw [h]; exact h1.targets s
    · exact .inr ⟨i, hi, h⟩
  · intro h
    rw [h2.err (by rw [h1.err h]; exact h), h1.err h]

theorem LogOnly.frame {allow : Perm} {w w' : World U} (h : LogOnly w w') : Frame allow w w' := by
  refine ⟨h.cfg, h.previous, h.pending, h.current, h.obs, h.activeSnap, fun hc => by rw [h.cancelled]; exact hc,
   ⟨[], by rw [h.requests, List.append_nil]⟩, ⟨[], by rw [h.ds]; rfl⟩, ?_, by rw [h.targets],
   fun s => .inl (by rw [h.targets]), h.err⟩
  obtain ⟨logs, e⟩ := h.trace
  refine ⟨logs.map Event.log, e, ?_⟩
  intro ev hev
  obtain ⟨r, _, rfl⟩ := List.mem_map.mp hev
  trivial

theorem Scratch.frame {allow : Perm} {w w' : World U} (h : Scratch w w') : Frame allow w w' :=
  ⟨h.cfg, h.previous, h.pending, h.current, h.obs, h.activeSnap, fun hc => by rw [h.cancelled]; exact hc,
   ⟨[], by rw [h.requests, List.append_nil]⟩, ⟨[], by rw [h.ds]; rfl⟩, ⟨[], by rw [h.trace]; rfl, fun _ h => nomatch h⟩,
   by rw [h.targets], fun s => .inl (by rw [h.targets]), fun _ => h.err⟩

theorem ActsRel.frame {allow : Perm} {d : Decision U} {w w' : World U} (h : ActsRel d w w') : Frame allow w w' := by
  refine ⟨h.cfg, h.previous, h.pending, h.current, h.obs, h.activeSnap, h.cancelled,
   ?_, ⟨[], by rw [h.ds]; rfl⟩, ?_, by rw [h.targets], fun s => .inl (by rw [h.targets]), h.err⟩
  · obtain ⟨add, e, _⟩ := h.requests; exact ⟨add, e⟩
  · obtain ⟨logs, e⟩ := h.trace
    refine ⟨logs.map Event.log, e, ?_⟩
    intro ev hev
    obtain ⟨r, _, rfl⟩ := List.mem_map.mp hev
    trivial

theorem World.pin_frame {allow : Perm} (w : World U) (sid : Nat) (idx : Option Nat) (ha : allow.pin idx) :
    Frame allow w (w.pin sid idx) := by
  unfold World.pin
  split
  · exact Frame.rfl' allow w
  · next i =>
    split
    · refine ⟨rfl, rfl, rfl, rfl, rfl, rfl, id, ⟨[], (List.append_nil _).symm⟩, ⟨[], rfl⟩,
        ⟨[], rfl, fun _ h => nomatch h⟩, List.length_set, ?_, fun _ => rfl⟩
      intro s
      dsimp only
      by_cases hs : sid = s
      · subst hs
        by_cases hl : sid < w.targets.length
        · right; exact ⟨i, ha, by simp [List.getD_eq_getElem?_getD, hl]⟩
        · left; simp [List.getD_eq_getElem?_getD, hl]
      · left; simp [List.getD_eq_getElem?_getD, hs]
    · exact Frame.rfl' allow w

theorem Prim.frame {allow : Perm} {w w' : World U} (p : Prim allow w w') : Frame allow w w' := by
  cases p with
  | invoke sid m slot h =>
    cases World.invoke_rel w sid m slot with
    | exhausted _ hw => exact hw.frame
    | ran d rest x hds hx hw =>
      have f1 : Frame allow w { w with ds := rest } :=
        ⟨rfl, rfl, rfl, rfl, rfl, rfl, id, ⟨[], (List.append_nil _).symm⟩, ⟨[d], hds⟩,
         ⟨[], rfl, fun _ h => nomatch h⟩, rfl, fun _ => .inl rfl, fun _ => rfl⟩
      have f2 : Frame allow { w with ds := rest } x := hx.frame
      have f3 : Frame allow x (x.emit (w.cbEvent sid m slot)) := by
        refine ⟨rfl, rfl, rfl, rfl, rfl, rfl, id, ⟨[], (List.append_nil _).symm⟩, ⟨[], rfl⟩,
         ⟨[w.cbEvent sid m slot], rfl, ?_⟩, rfl, fun _ => .inl rfl, fun _ => rfl⟩
        intro e he
        rw [List.mem_singleton.mp he]
        have : x.cbEvent sid m slot = w.cbEvent sid m slot :=
          World.cbEvent_congr hx.obs hx.pending hx.current sid m slot
        unfold World.cbEvent at this ⊢
        exact ⟨h, this.symm⟩
      rw [hw]
      exact (f1.trans f2).trans f3
  | logRec r => exact (World.logRec_logOnly w r).frame
  | fail msg => exact (World.fail'_logOnly w msg).frame
  | pin sid idx h => exact World.pin_frame w sid idx h
  | scratch _ h => exact h.frame
  | planReq hd t ha ht =>
    have f1 : Frame allow w { w with origin := some hd } := Scratch.frame (by scratch)
    exact f1.trans (World.ctlRequest_actsRel (d := [.request .change t.dest t.payload]) _ _ _ _
      List.mem_cons_self).frame
  | planShrink _ ha h hs =>
    have f1 : Frame allow w { w with plans := w'.plans } :=
      ⟨rfl, rfl, rfl, rfl, rfl, rfl, id, ⟨[], (List.append_nil _).symm⟩, ⟨[], rfl⟩,
       ⟨[], rfl, fun _ h => nomatch h⟩, rfl, fun _ => .inl rfl, fun _ => rfl⟩
    exact f1.trans h.frame

theorem Steps.frame {allow : Perm} {w w' : World U} (h : Steps allow w w') : Frame allow w w' :=
  Steps.preserve (Frame allow w) (fun _ _ p f => f.trans p.frame) h (Frame.rfl' allow w)

/-! ### callbacks that are not handed a full control cannot queue requests -/

theorem World.logRec_requests (w : World U) (r : LogRec U) : (w.logRec r).requests = w.requests :=
  (World.logRec_logOnly w r).requests

theorem World.fail'_requests (w : World U) (msg : String) : (w.fail' msg).requests = w.requests :=
  (World.fail'_logOnly w msg).requests

theorem World.act_requests_of_not_full (c : CtlClass) (hc : c.isFull = false) (w : World U) (a : Action U) :
    (World.act c w a).requests = w.requests := by
  have hg : c ≠ .guard := by intro h; subst h; cases hc
  cases a with
  | request k dst p => simp only [World.act, hc, Bool.false_eq_true, if_false, World.fail'_requests]
  | succeed s => simp only [World.act, hc, Bool.false_eq_true, if_false, World.fail'_requests]
  | fail s => simp only [World.act, hc, Bool.false_eq_true, if_false, World.fail'_requests]
  | cancel => simp only [World.act, hg, if_false, World.fail'_requests]
  | consume => simp only [World.act]; split <;> simp only [World.fail'_requests]
  | planAppend o dst k p =>
    simp only [World.act]; split
    · unfold World.planAppend; split <;> rfl
    · simp only [World.fail'_requests]
  | planClear =>
    simp only [World.act]; split
    · rfl
    · simp only [World.fail'_requests]
  | retSelect _ => rfl
  | retRank _ => rfl
  | retUtil _ => rfl

theorem World.foldl_act_requests_of_not_full (c : CtlClass) (hc : c.isFull = false) :
    (l : List (Action U)) → (w : World U) → (l.foldl (World.act c) w).requests = w.requests
  | [], _ => rfl
  | a :: rest, w => by
    simp only [List.foldl]
    rw [World.foldl_act_requests_of_not_full c hc rest, World.act_requests_of_not_full c hc]

theorem World.invoke_requests_of_not_full (w : World U) (sid : Nat) (m : Method) (slot : Nat)
    (hc : m.cls.isFull = false) : (w.invoke sid m slot).1.requests = w.requests := by
  unfold World.invoke
  split
  · exact World.fail'_requests _ _
  · dsimp only [World.emit]
    rw [World.foldl_act_requests_of_not_full m.cls hc]

theorem World.pin_requests (w : World U) (sid : Nat) (idx : Option Nat) : (w.pin sid idx).requests = w.requests := by
  unfold World.pin; split
  · rfl
  · split <;> rfl

/-- Walks that invoke only callbacks without a full control and do not run the plan executor leave the
request queue alone. -/
theorem Steps.requests_of_not_full {allow : Perm} {w w' : World U} (h : Steps allow w w')
    (hm : ∀ sid m, allow.meth sid m → m.cls.isFull = false) (hp : ¬ allow.plan) : w'.requests = w.requests := by
  refine Steps.preserve (fun x => x.requests = w.requests) ?_ h rfl
  intro a b p ha
  cases p with
  | invoke sid m slot h => rw [World.invoke_requests_of_not_full a sid m slot (hm sid m h)]; exact ha
  | logRec r => rw [World.logRec_requests]; exact ha
  | fail msg => rw [World.fail'_requests]; exact ha
  | pin sid idx h => rw [World.pin_requests]; exact ha
  | scratch _ h => rw [h.requests]; exact ha
  | planReq hd t hq ht => exact absurd hq hp
  | planShrink _ hq h hs => exact absurd hq hp

/-! ### event shapes that do not mention the registry snapshot -/

/-- a logger record, or a callback of a method satisfying `ok` showing the given transition lists -/
def EvIs (ok : Method → Prop) (pend curr : List Transition) : Event U → Prop
  | .log _ => True
  | .cb _ m _ _ pend' curr' => ok m ∧ pend' = pend ∧ curr' = curr

theorem EvIs.mono {ok ok' : Method → Prop} {pend curr : List Transition} (h : ∀ m, ok m → ok' m) {e : Event U}
    (he : EvIs ok pend curr e) : EvIs ok' pend curr e := by
  cases e with
  | log r => trivial
  | cb sid m slot obs p c => exact ⟨h m he.1, he.2⟩

/-- forward-pass event: `select / rank / utility`, no transition lists -/
abbrev FwdEv : Event U → Prop := EvIs (fun m => m.cls = .const) [] []
/-- guard event of method `g` showing `pend` and `curr` -/
abbrev GuardEv (g : Method) (pend curr : List Transition) : Event U → Prop := EvIs (fun m => m = g) pend curr
/-- lifecycle event (`enter / exit / reenter`) showing `curr` -/
abbrev LifeEv (curr : List Transition) : Event U → Prop := EvIs (fun m => m.cls = .plan) [] curr

theorem EvOK.fwd {idx : Option Nat} {w : World U} {e : Event U} (h : EvOK (allowFwd idx) w e) : FwdEv e := by
  cases e with
  | log r => trivial
  | cb sid m slot obs p c =>
    obtain ⟨hm, he⟩ := h
    have hm' : m.cls = .const := hm
    unfold World.cbEvent at he
    simp only [hm', Event.cb.injEq] at he
    exact ⟨hm', by simpa using he.2.2.2.2.1, by simpa using he.2.2.2.2.2⟩

theorem EvOK.entryGuard {w : World U} {e : Event U} (h : EvOK allowEntryGuard w e) :
    GuardEv .entryGuard w.pending w.current e := by
  cases e with
  | log r => trivial
  | cb sid m slot obs p c =>
    obtain ⟨hm, he⟩ := h
    have hm' : m = .entryGuard := hm
    subst hm'
    unfold World.cbEvent at he
    simp only [Event.cb.injEq] at he
    exact ⟨rfl, by simpa [Method.cls] using he.2.2.2.2.1, by simpa [Method.cls] using he.2.2.2.2.2⟩

theorem EvOK.exitGuard {w : World U} {e : Event U} (h : EvOK allowExitGuard w e) :
    GuardEv .exitGuard w.pending w.current e := by
  cases e with
  | log r => trivial
  | cb sid m slot obs p c =>
    obtain ⟨hm, he⟩ := h
    have hm' : m = .exitGuard := hm
    subst hm'
    unfold World.cbEvent at he
    simp only [Event.cb.injEq] at he
    exact ⟨rfl, by simpa [Method.cls] using he.2.2.2.2.1, by simpa [Method.cls] using he.2.2.2.2.2⟩

theorem EvOK.life {w : World U} {e : Event U} (h : EvOK allowPlan w e) : LifeEv w.current e := by
  cases e with
  | log r => trivial
  | cb sid m slot obs p c =>
    obtain ⟨hm, he⟩ := h
    have hm' : m.cls = .plan := hm
    unfold World.cbEvent at he
    simp only [hm', Event.cb.injEq] at he
    exact ⟨hm', by simpa using he.2.2.2.2.1, by simpa using he.2.2.2.2.2⟩

/-- Walks that are not permitted to pin leave `transitionTargets` alone. -/
theorem Steps.targets_of_no_pin {allow : Perm} {w w' : World U} (h : Steps allow w w')
    (hp : ∀ i, ¬ allow.pin i) : w'.targets = w.targets := by
  refine Steps.preserve (fun x => x.targets = w.targets) ?_ h rfl
  intro a b p ha
  cases p with
  | invoke sid m slot h =>
    cases World.invoke_rel a sid m slot with
    | exhausted _ hw => rw [hw.targets]; exact ha
    | ran d rest x hds hx hw => rw [hw]; unfold World.emit; dsimp only; rw [hx.targets]; exact ha
  | logRec r => rw [(World.logRec_logOnly a r).targets]; exact ha
  | fail msg => rw [(World.fail'_logOnly a msg).targets]; exact ha
  | pin sid idx h => exact absurd h (hp idx)
  | scratch _ h => rw [h.targets]; exact ha
  | planReq hd t hq ht =>
    rw [(World.ctlRequest_actsRel (d := [.request .change t.dest t.payload]) _ _ _ _ List.mem_cons_self).targets]
    exact ha
  | planShrink _ hq h hs => rw [h.targets]; exact ha

end Hfsm
