/-
Tree-level round trip of the serializer: what `loadRequested` / `loadResumable` make of the image
written by `saveActive` / `saveResumable` of another tree of the same structure.

  sameShape a b   the two trees differ in dynamic fields only (`cleared` is the static skeleton)
  WidthOK n       every composite region has at most 256 sub-states (prongs are `Short`s)
  mergeReq d s    `d` with `resumable := s.resumable` everywhere and `requested := s.active` on the
                  regions that are active in `s`; nothing else changed
  (`d.withResumableOf s` of the model is `d` with `resumable := s.resumable` everywhere, nothing else changed)
-/
import Hfsm.Proofs.SerialBits
import Hfsm.Proofs.Wf
import Hfsm.Model.Forward

namespace Hfsm

/-- Same machine type: equal up to the dynamic fields (`active/resumable/requested/remain`, bits). -/
def Node.sameShape (a b : Node) : Prop := a.cleared = b.cleared
def Subs.sameShape (a b : Subs) : Prop := a.cleared = b.cleared

/-- Equal active and resumable configuration in every region (request marks ignored). -/
def Node.sameDynamic (a b : Node) : Prop := a.clearMarks = b.clearMarks

mutual
def Node.WidthOK : Node → Prop
  | .leaf .. => True
  | .compo _ _ _ _ _ _ _ _ _ s => s.len ≤ 256 ∧ s.WidthOKAll
  | .ortho _ _ _ _ s => s.WidthOKAll
def Subs.WidthOKAll : Subs → Prop
  | .nil => True
  | .cons _ n r => n.WidthOK ∧ r.WidthOKAll
end

mutual
def Node.mergeReq : Node → Node → Node
  | .compo id rid inj h sg a _ _ m s, .compo _ _ _ _ _ a' r' _ _ s' =>
      .compo id rid inj h sg a r' a' m (s.mergeReqAt s' (a'.getD 0))
  | .ortho id rid inj h s, .ortho _ _ _ _ s' => .ortho id rid inj h (s.mergeReqAll s')
  | n, _ => n
/-- sub-state `i` (counting down) takes the request marks, the others the resumable marks only -/
def Subs.mergeReqAt : Subs → Subs → Nat → Subs
  | .cons b n r, .cons _ n' r', 0 => .cons b (n.mergeReq n') (r.withResumableOf r')
  | .cons b n r, .cons _ n' r', i+1 => .cons b (n.withResumableOf n') (r.mergeReqAt r' i)
  | s, _, _ => s
def Subs.mergeReqAll : Subs → Subs → Subs
  | .cons b n r, .cons _ n' r' => .cons b (n.mergeReq n') (r.mergeReqAll r')
  | s, _ => s
end

/-! ### shape bookkeeping -/

theorem Subs.len_cleared : (s : Subs) → s.cleared.len = s.len
  | .nil => rfl
  | .cons _ _ r => by simp [Subs.cleared, Subs.len, Subs.len_cleared r]

theorem Subs.sameShape_len {a b : Subs} (h : a.sameShape b) : a.len = b.len := by
  have := congrArg Subs.len h
  rwa [Subs.len_cleared, Subs.len_cleared] at this

theorem Node.sameShape_refl (a : Node) : a.sameShape a := rfl
theorem Node.sameShape_symm {a b : Node} (h : a.sameShape b) : b.sameShape a := Eq.symm h
theorem Node.sameShape_trans {a b c : Node} (h : a.sameShape b) (h' : b.sameShape c) : a.sameShape c :=
  Eq.trans h h'

theorem Subs.sameShape_cons {b b' : Bool} {n n' : Node} {r r' : Subs}
    (h : (Subs.cons b n r).sameShape (.cons b' n' r')) : n.sameShape n' ∧ r.sameShape r' := by
  simp only [Subs.sameShape, Subs.cleared, Subs.cons.injEq, true_and] at h
  exact h

theorem Node.sameShape_compo {id rid inj h sg a r q m s id' rid' inj' h' sg' a' r' q' m' s'}
    (hs : (Node.compo id rid inj h sg a r q m s).sameShape (.compo id' rid' inj' h' sg' a' r' q' m' s')) :
    id = id' ∧ rid = rid' ∧ inj = inj' ∧ h = h' ∧ sg = sg' ∧ s.sameShape s' := by
  simp only [Node.sameShape, Node.cleared, Node.compo.injEq, true_and] at hs
  exact hs

theorem Node.sameShape_ortho {id rid inj h s id' rid' inj' h' s'}
    (hs : (Node.ortho id rid inj h s).sameShape (.ortho id' rid' inj' h' s')) :
    id = id' ∧ rid = rid' ∧ inj = inj' ∧ h = h' ∧ s.sameShape s' := by
  simp only [Node.sameShape, Node.cleared, Node.ortho.injEq] at hs
  exact hs

mutual
theorem Node.cleared_clearMarks : (n : Node) → n.clearMarks.cleared = n.cleared
  | .leaf .. => rfl
  | .compo _ _ _ _ _ _ _ _ _ s => by simp [Node.clearMarks, Node.cleared, Subs.cleared_clearMarks s]
  | .ortho _ _ _ _ s => by simp [Node.clearMarks, Node.cleared, Subs.cleared_clearMarks s]
theorem Subs.cleared_clearMarks : (s : Subs) → s.clearMarks.cleared = s.cleared
  | .nil => rfl
  | .cons _ n r => by simp [Subs.clearMarks, Subs.cleared, Node.cleared_clearMarks n, Subs.cleared_clearMarks r]
end

mutual
theorem Node.cleared_noResumable : (n : Node) → n.noResumable.cleared = n.cleared
  | .leaf .. => rfl
  | .compo _ _ _ _ _ _ _ _ _ s => by simp [Node.noResumable, Node.cleared, Subs.cleared_noResumable s]
  | .ortho _ _ _ _ s => by simp [Node.noResumable, Node.cleared, Subs.cleared_noResumable s]
theorem Subs.cleared_noResumable : (s : Subs) → s.noResumable.cleared = s.cleared
  | .nil => rfl
  | .cons _ n r => by simp [Subs.noResumable, Subs.cleared, Node.cleared_noResumable n, Subs.cleared_noResumable r]
end

mutual
theorem Node.cleared_cleared : (n : Node) → n.cleared.cleared = n.cleared
  | .leaf .. => rfl
  | .compo _ _ _ _ _ _ _ _ _ s => by simp [Node.cleared, Subs.cleared_cleared s]
  | .ortho _ _ _ _ s => by simp [Node.cleared, Subs.cleared_cleared s]
theorem Subs.cleared_cleared : (s : Subs) → s.cleared.cleared = s.cleared
  | .nil => rfl
  | .cons _ n r => by simp [Subs.cleared, Node.cleared_cleared n, Subs.cleared_cleared r]
end

mutual
theorem Node.withResumableOf_cleared : (d s : Node) → (d.withResumableOf s).cleared = d.cleared
  | .leaf .., _ => rfl
  | .compo _ _ _ _ _ _ _ _ _ ds, .compo _ _ _ _ _ _ _ _ _ ss => by
    simp [Node.withResumableOf, Node.cleared, Subs.withResumableOf_cleared ds ss]
  | .compo .., .leaf .. => rfl
  | .compo .., .ortho .. => rfl
  | .ortho _ _ _ _ ds, .ortho _ _ _ _ ss => by
    simp [Node.withResumableOf, Node.cleared, Subs.withResumableOf_cleared ds ss]
  | .ortho .., .leaf .. => rfl
  | .ortho .., .compo .. => rfl
theorem Subs.withResumableOf_cleared : (d s : Subs) → (d.withResumableOf s).cleared = d.cleared
  | .nil, _ => rfl
  | .cons _ _ _, .nil => rfl
  | .cons _ n r, .cons _ n' r' => by
    simp [Subs.withResumableOf, Subs.cleared, Node.withResumableOf_cleared n n', Subs.withResumableOf_cleared r r']
end

mutual
theorem Node.mergeReq_cleared : (d s : Node) → (d.mergeReq s).cleared = d.cleared
  | .leaf .., _ => rfl
  | .compo _ _ _ _ _ _ _ _ _ ds, .compo _ _ _ _ _ a' _ _ _ ss => by
    simp [Node.mergeReq, Node.cleared, Subs.mergeReqAt_cleared ds ss (a'.getD 0)]
  | .compo .., .leaf .. => rfl
  | .compo .., .ortho .. => rfl
  | .ortho _ _ _ _ ds, .ortho _ _ _ _ ss => by
    simp [Node.mergeReq, Node.cleared, Subs.mergeReqAll_cleared ds ss]
  | .ortho .., .leaf .. => rfl
  | .ortho .., .compo .. => rfl
theorem Subs.mergeReqAt_cleared : (d s : Subs) → (i : Nat) → (d.mergeReqAt s i).cleared = d.cleared
  | .nil, _, _ => rfl
  | .cons _ _ _, .nil, _ => rfl
  | .cons _ n r, .cons _ n' r', 0 => by
    simp [Subs.mergeReqAt, Subs.cleared, Node.mergeReq_cleared n n', Subs.withResumableOf_cleared r r']
  | .cons _ n r, .cons _ n' r', i+1 => by
    simp [Subs.mergeReqAt, Subs.cleared, Node.withResumableOf_cleared n n', Subs.mergeReqAt_cleared r r' i]
theorem Subs.mergeReqAll_cleared : (d s : Subs) → (d.mergeReqAll s).cleared = d.cleared
  | .nil, _ => rfl
  | .cons _ _ _, .nil => rfl
  | .cons _ n r, .cons _ n' r' => by
    simp [Subs.mergeReqAll, Subs.cleared, Node.mergeReq_cleared n n', Subs.mergeReqAll_cleared r r']
end

/-! ### the image of the inactive parts: `loadResumable ∘ saveResumable` -/

mutual
theorem Node.loadResumable_save : (d s : Node) → (rest : List Bool) →
    d.sameShape s → s.ResumableOK → s.WidthOK →
    d.loadResumable (s.saveResumable ++ rest) = some (d.withResumableOf s, rest)
  | .leaf .., .leaf .., rest, _, _, _ => by simp [Node.loadResumable, Node.saveResumable, Node.withResumableOf]
  | .leaf .., .compo .., _, h, _, _ => by simp [Node.sameShape, Node.cleared] at h
  | .leaf .., .ortho .., _, h, _, _ => by simp [Node.sameShape, Node.cleared] at h
  | .compo .., .leaf .., _, h, _, _ => by simp [Node.sameShape, Node.cleared] at h
  | .compo .., .ortho .., _, h, _, _ => by simp [Node.sameShape, Node.cleared] at h
  | .ortho .., .leaf .., _, h, _, _ => by simp [Node.sameShape, Node.cleared] at h
  | .ortho .., .compo .., _, h, _, _ => by simp [Node.sameShape, Node.cleared] at h
  | .compo id rid inj hd sg a r q m ds, .compo id' rid' inj' hd' sg' a' r' q' m' ss, rest, h, hr, hw => by
    obtain ⟨_, _, _, _, _, hss⟩ := Node.sameShape_compo h
    simp only [Node.ResumableOK] at hr
    simp only [Node.WidthOK] at hw
    have hlen := Subs.sameShape_len hss
    cases r' with
    | none =>
      simp only [Node.loadResumable, Node.saveResumable, Node.withResumableOf, List.append_assoc, hlen]
      rw [readResumable_resumableBits _ none _ trivial]
      simp only [Bool.false_eq_true, if_false]
      rw [Subs.loadResumableAll_save ds ss rest hss hr.2 hw.2]
    | some ri =>
      have hri : ri < ss.len := hr.1
      have hge : ¬ ri ≥ ss.len := by omega
      simp only [Node.loadResumable, Node.saveResumable, Node.withResumableOf, List.append_assoc, hlen]
      rw [readResumable_resumableBits _ (some ri) _ (lt_two_pow_bitContain _ _ hw.1 hri)]
      simp only [hge, decide_false, Bool.false_eq_true, if_false]
      rw [Subs.loadResumableAll_save ds ss rest hss hr.2 hw.2]
  | .ortho id rid inj hd ds, .ortho id' rid' inj' hd' ss, rest, h, hr, hw => by
    obtain ⟨_, _, _, _, hss⟩ := Node.sameShape_ortho h
    simp only [Node.ResumableOK] at hr
    simp only [Node.WidthOK] at hw
    simp only [Node.loadResumable, Node.saveResumable, Node.withResumableOf]
    rw [Subs.loadResumableAll_save ds ss rest hss hr hw]
theorem Subs.loadResumableAll_save : (d s : Subs) → (rest : List Bool) →
    d.sameShape s → s.ResumableOKAll → s.WidthOKAll →
    d.loadResumableAll (s.saveResumableAll ++ rest) = some (d.withResumableOf s, rest)
  | .nil, .nil, rest, _, _, _ => by simp [Subs.loadResumableAll, Subs.saveResumableAll, Subs.withResumableOf]
  | .nil, .cons .., _, h, _, _ => by simp [Subs.sameShape, Subs.cleared] at h
  | .cons .., .nil, _, h, _, _ => by simp [Subs.sameShape, Subs.cleared] at h
  | .cons b n r, .cons b' n' r', rest, h, hr, hw => by
    obtain ⟨hn, hrr⟩ := Subs.sameShape_cons h
    simp only [Subs.ResumableOKAll] at hr
    simp only [Subs.WidthOKAll] at hw
    simp only [Subs.loadResumableAll, Subs.saveResumableAll, Subs.withResumableOf, List.append_assoc]
    rw [Node.loadResumable_save n n' _ hn hr.1 hw.1]
    simp only
    rw [Subs.loadResumableAll_save r r' rest hrr hr.2 hw.2]
end

theorem Subs.ActAt_lt : (s : Subs) → (i : Nat) → s.ActAt i → i < s.len
  | .nil, _, h => by simp [Subs.ActAt] at h
  | .cons _ _ r, 0, _ => by simp [Subs.len]
  | .cons _ _ r, i+1, h => by
    simp only [Subs.ActAt] at h
    have := Subs.ActAt_lt r i h.2
    simp only [Subs.len]; omega

/-! ### the image of the active part: `loadRequested ∘ saveActive` -/

/-- prongs already passed (`q < i`): every remaining sibling is an inactive part -/
theorem Subs.loadRequestedAt_passed : (d s : Subs) → (q i : Nat) → (rest : List Bool) → q < i →
    d.sameShape s → s.ResumableOKAll → s.WidthOKAll →
    d.loadRequestedAt q i (s.saveActiveAt (some q) i ++ rest) = some (d.withResumableOf s, rest)
  | .nil, .nil, _, _, rest, _, _, _, _ => by simp [Subs.loadRequestedAt, Subs.saveActiveAt, Subs.withResumableOf]
  | .nil, .cons .., _, _, _, _, h, _, _ => by simp [Subs.sameShape, Subs.cleared] at h
  | .cons .., .nil, _, _, _, _, h, _, _ => by simp [Subs.sameShape, Subs.cleared] at h
  | .cons b n r, .cons b' n' r', q, i, rest, hq, h, hr, hw => by
    obtain ⟨hn, hrr⟩ := Subs.sameShape_cons h
    simp only [Subs.ResumableOKAll] at hr
    simp only [Subs.WidthOKAll] at hw
    have hne : q ≠ i := by omega
    have hne' : ¬ (some q = some i) := by simp [hne]
    simp only [Subs.loadRequestedAt, Subs.saveActiveAt, Subs.withResumableOf, List.append_assoc, hne, hne', if_false]
    rw [Node.loadResumable_save n n' _ hn hr.1 hw.1]
    simp only
    rw [Subs.loadRequestedAt_passed r r' q (i+1) rest (by omega) hrr hr.2 hw.2]

mutual
theorem Node.loadRequested_save : (d s : Node) → (rest : List Bool) →
    d.sameShape s → s.Act → s.ResumableOK → s.WidthOK →
    d.loadRequested (s.saveActive ++ rest) = some (d.mergeReq s, rest)
  | .leaf .., .leaf .., rest, _, _, _, _ => by simp [Node.loadRequested, Node.saveActive, Node.mergeReq]
  | .leaf .., .compo .., _, h, _, _, _ => by simp [Node.sameShape, Node.cleared] at h
  | .leaf .., .ortho .., _, h, _, _, _ => by simp [Node.sameShape, Node.cleared] at h
  | .compo .., .leaf .., _, h, _, _, _ => by simp [Node.sameShape, Node.cleared] at h
  | .compo .., .ortho .., _, h, _, _, _ => by simp [Node.sameShape, Node.cleared] at h
  | .ortho .., .leaf .., _, h, _, _, _ => by simp [Node.sameShape, Node.cleared] at h
  | .ortho .., .compo .., _, h, _, _, _ => by simp [Node.sameShape, Node.cleared] at h
  | .compo id rid inj hd sg a r q m ds, .compo id' rid' inj' hd' sg' a' r' q' m' ss, rest, h, ha, hr, hw => by
    obtain ⟨_, _, _, _, _, hss⟩ := Node.sameShape_compo h
    simp only [Node.ResumableOK] at hr
    simp only [Node.WidthOK] at hw
    have hlen := Subs.sameShape_len hss
    cases a' with
    | none => simp [Node.Act] at ha
    | some si =>
      simp only [Node.Act] at ha
      have hsi : si < ss.len := Subs.ActAt_lt ss si ha
      have hge : ¬ si ≥ ss.len := by omega
      have hsub := Subs.loadRequestedAt_save ds ss si 0 rest hss ha hr.2 hw.2
      rw [Nat.zero_add] at hsub
      cases r' with
      | none =>
        simp only [Node.loadRequested, Node.saveActive, Node.mergeReq, List.append_assoc, hlen, prongBits,
          Option.getD_some]
        rw [readBits_bitsOf_fit _ si _ (lt_two_pow_bitContain _ _ hw.1 hsi)]
        simp only [hge, if_false]
        rw [readResumable_resumableBits _ none _ trivial]
        simp only [Bool.false_eq_true, if_false]
        rw [hsub]
      | some ri =>
        have hri : ri < ss.len := hr.1
        have hge' : ¬ ri ≥ ss.len := by omega
        simp only [Node.loadRequested, Node.saveActive, Node.mergeReq, List.append_assoc, hlen, prongBits,
          Option.getD_some]
        rw [readBits_bitsOf_fit _ si _ (lt_two_pow_bitContain _ _ hw.1 hsi)]
        simp only [hge, if_false]
        rw [readResumable_resumableBits _ (some ri) _ (lt_two_pow_bitContain _ _ hw.1 hri)]
        simp only [hge', decide_false, Bool.false_eq_true, if_false]
        rw [hsub]
  | .ortho id rid inj hd ds, .ortho id' rid' inj' hd' ss, rest, h, ha, hr, hw => by
    obtain ⟨_, _, _, _, hss⟩ := Node.sameShape_ortho h
    simp only [Node.ResumableOK] at hr
    simp only [Node.WidthOK] at hw
    simp only [Node.Act] at ha
    simp only [Node.loadRequested, Node.saveActive, Node.mergeReq]
    rw [Subs.loadRequestedAll_save ds ss rest hss ha hr hw]
theorem Subs.loadRequestedAt_save : (d s : Subs) → (k i : Nat) → (rest : List Bool) →
    d.sameShape s → s.ActAt k → s.ResumableOKAll → s.WidthOKAll →
    d.loadRequestedAt (i + k) i (s.saveActiveAt (some (i + k)) i ++ rest) = some (d.mergeReqAt s k, rest)
  | .nil, .nil, _, _, _, _, ha, _, _ => by simp [Subs.ActAt] at ha
  | .nil, .cons .., _, _, _, h, _, _, _ => by simp [Subs.sameShape, Subs.cleared] at h
  | .cons .., .nil, _, _, _, h, _, _, _ => by simp [Subs.sameShape, Subs.cleared] at h
  | .cons b n r, .cons b' n' r', 0, i, rest, h, ha, hr, hw => by
    obtain ⟨hn, hrr⟩ := Subs.sameShape_cons h
    simp only [Subs.ResumableOKAll] at hr
    simp only [Subs.WidthOKAll] at hw
    simp only [Subs.ActAt] at ha
    simp only [Subs.loadRequestedAt, Subs.saveActiveAt, Subs.mergeReqAt, List.append_assoc, Nat.add_zero, if_true]
    rw [Node.loadRequested_save n n' _ hn ha.1 hr.1 hw.1]
    simp only
    rw [Subs.loadRequestedAt_passed r r' i (i+1) rest (by omega) hrr hr.2 hw.2]
  | .cons b n r, .cons b' n' r', k+1, i, rest, h, ha, hr, hw => by
    obtain ⟨hn, hrr⟩ := Subs.sameShape_cons h
    simp only [Subs.ResumableOKAll] at hr
    simp only [Subs.WidthOKAll] at hw
    simp only [Subs.ActAt] at ha
    have hne : i + (k + 1) ≠ i := by omega
    have hne' : ¬ (some (i + (k + 1)) = some i) := by simp
    simp only [Subs.loadRequestedAt, Subs.saveActiveAt, Subs.mergeReqAt, List.append_assoc, hne, hne', if_false]
    rw [Node.loadResumable_save n n' _ hn hr.1 hw.1]
    simp only
    have ih := Subs.loadRequestedAt_save r r' k (i+1) rest hrr ha.2 hr.2 hw.2
    have e : i + 1 + k = i + (k + 1) := by omega
    rw [e] at ih
    rw [ih]
theorem Subs.loadRequestedAll_save : (d s : Subs) → (rest : List Bool) →
    d.sameShape s → s.ActAll → s.ResumableOKAll → s.WidthOKAll →
    d.loadRequestedAll (s.saveActiveAll ++ rest) = some (d.mergeReqAll s, rest)
  | .nil, .nil, rest, _, _, _, _ => by simp [Subs.loadRequestedAll, Subs.saveActiveAll, Subs.mergeReqAll]
  | .nil, .cons .., _, h, _, _, _ => by simp [Subs.sameShape, Subs.cleared] at h
  | .cons .., .nil, _, h, _, _, _ => by simp [Subs.sameShape, Subs.cleared] at h
  | .cons b n r, .cons b' n' r', rest, h, ha, hr, hw => by
    obtain ⟨hn, hrr⟩ := Subs.sameShape_cons h
    simp only [Subs.ResumableOKAll] at hr
    simp only [Subs.WidthOKAll] at hw
    simp only [Subs.ActAll] at ha
    simp only [Subs.loadRequestedAll, Subs.saveActiveAll, Subs.mergeReqAll, List.append_assoc]
    rw [Node.loadRequested_save n n' _ hn ha.1 hr.1 hw.1]
    simp only
    rw [Subs.loadRequestedAll_save r r' rest hrr ha.2 hr.2 hw.2]
end

end Hfsm
