/-
The structure report (C16): `structure()[i].isActive` and `activityHistory()[i]` as maintained by
`R_::udpateActivity` (model: `Mach.updateActivity`).
-/
import Hfsm.Proofs.Bounds
import Hfsm.Proofs.Wf
import Hfsm.Proofs.RecfgMach

set_option linter.unusedVariables false
set_option linter.unusedSectionVars false
set_option linter.unusedSimpArgs false

namespace Hfsm
variable {U : Type} [UtilArith U]

/-- One step of an activity counter: `a` = the state is active now, `h` = the counter before. -/
def runLength (a : Bool) (h : Int) : Int :=
  if a then (if h < 0 then 1 else if h < 127 then h + 1 else h)
  else (if h > 0 then -1 else if h > -128 then h - 1 else h)

/-- What `isActive(id)` answers for every state id. -/
def Mach.activeNow (m : Mach U) : List Bool := (List.range m.w.cfg.stateCount).map m.root.isActive

/-- `structure()[i].isActive = isActive(i)` for every state. -/
def Mach.ReportFresh (m : Mach U) : Prop := m.structActive = m.activeNow

/-- `m'` is `m` after exactly one report update: flags fresh, every counter advanced once. -/
def Mach.Refreshed (m m' : Mach U) : Prop :=
  m'.structActive = m'.activeNow ∧ m'.activity = List.zipWith runLength m'.activeNow m.activity

/-- `m'` has the report of `m` untouched, and the same tree. -/
def Mach.Untouched (m m' : Mach U) : Prop :=
  m'.structActive = m.structActive ∧ m'.activity = m.activity ∧ m'.root = m.root ∧
  m'.w.cfg.stateCount = m.w.cfg.stateCount

theorem updateActivity_refreshed (m0 m : Mach U) (ha : m.activity = m0.activity) :
    Mach.Refreshed m0 m.updateActivity := by
  unfold Mach.Refreshed Mach.updateActivity Mach.activeNow
  refine ⟨rfl, ?_⟩
  simp only [ha]
  rfl

theorem Mach.Untouched.fresh {m m' : Mach U} (h : Mach.Untouched m m') (hf : m.ReportFresh) : m'.ReportFresh := by
  obtain ⟨h1, _, h3, h4⟩ := h
  unfold Mach.ReportFresh Mach.activeNow at *
  rw [h1, hf, h3, h4]

/-! ### the run-length law -/

theorem runLength_range (a : Bool) (h : Int) (hl : -128 ≤ h) (hu : h ≤ 127) :
    -128 ≤ runLength a h ∧ runLength a h ≤ 127 := by
  unfold runLength; cases a <;> simp <;> split <;> (try split) <;> omega

theorem runLength_sign (a : Bool) (h : Int) (hl : -128 ≤ h) (hu : h ≤ 127) :
    (a = true → 0 < runLength a h) ∧ (a = false → runLength a h < 0) := by
  unfold runLength; cases a <;> simp <;> split <;> (try split) <;> omega

/-- `k` consecutive report updates with the state in the same condition `a` -/
def runN (a : Bool) : Nat → Int → Int
  | 0, h => h
  | k+1, h => runLength a (runN a k h)

/-- after `k+1` consecutive updates in which the state was active: `min (k+1) 127`, whatever came before
(`h ≤ 0`: the state was inactive, or the instance is fresh) -/
theorem runLength_active_run (k : Nat) (h : Int) (hl : -128 ≤ h) (hneg : h ≤ 0) :
    runN true (k+1) h = min ((k : Int) + 1) 127 := by
  induction k with
  | zero =>
    simp only [runN]
    unfold runLength; simp; split <;> omega
  | succ k ih =>
    rw [runN, ih]
    unfold runLength; simp
    split <;> (try split) <;> omega

/-- after `k+1` consecutive updates in which the state was inactive: `-min (k+1) 128` -/
theorem runLength_inactive_run (k : Nat) (h : Int) (hu : h ≤ 127) (hpos : 0 ≤ h) :
    runN false (k+1) h = -min ((k : Int) + 1) 128 := by
  induction k with
  | zero =>
    simp only [runN]
    unfold runLength; simp; split <;> omega
  | succ k ih =>
    rw [runN, ih]
    unfold runLength; simp
    split <;> (try split) <;> omega

/-! ### a fresh instance: nothing active, report all-false -/

theorem Subs.get?_clean_of_cleanAll : (s : Subs) → (i : Nat) → (c : Node) → s.CleanAll → s.get? i = some c → c.Clean
  | .nil, _, _, _, h => by simp [Subs.get?] at h
  | .cons _ n r, 0, c, hc, h => by
      simp only [Subs.get?, Option.some.injEq] at h; subst h
      simp only [Subs.CleanAll] at hc; exact hc.1
  | .cons _ n r, i+1, c, hc, h => by
      simp only [Subs.get?] at h
      simp only [Subs.CleanAll] at hc
      exact Subs.get?_clean_of_cleanAll r i c hc.2 h

theorem Node.nearest_false_of_clean (f : Option Nat → Option Nat → Option Nat → Nat → Bool)
    (hf : ∀ r q i, f none r q i = false) : (p : List Nat) → (n : Node) → n.Clean →
    Node.nearest f n p false = false
  | [], n, _ => by simp [Node.nearest]
  | i :: rest, n, hc => by
      unfold Node.nearest
      cases hg : n.subs.get? i with
      | none => rfl
      | some c =>
        cases n with
        | leaf id inj => simp [Node.subs, Subs.get?] at hg
        | compo id rid inj h st a r q m s =>
          simp only [Node.Clean] at hc
          have hcc := Subs.get?_clean_of_cleanAll s i c hc.2 hg
          simp only [hc.1, hf]
          exact Node.nearest_false_of_clean f hf rest c hcc
        | ortho id rid inj h s =>
          simp only [Node.Clean] at hc
          have hcc := Subs.get?_clean_of_cleanAll s i c hc hg
          exact Node.nearest_false_of_clean f hf rest c hcc

mutual
theorem Node.firstCompoActive_ne_true_of_clean : (n : Node) → n.Clean → n.firstCompoActive ≠ some true
  | .leaf .., _ => by simp [Node.firstCompoActive]
  | .compo _ _ _ _ _ a _ _ _ _, h => by
      simp only [Node.Clean] at h; simp [Node.firstCompoActive, h.1]
  | .ortho _ _ _ _ s, h => by
      simp only [Node.Clean] at h; simp only [Node.firstCompoActive]
      exact Subs.firstCompoActive_ne_true_of_clean s h
theorem Subs.firstCompoActive_ne_true_of_clean : (s : Subs) → s.CleanAll → s.firstCompoActive ≠ some true
  | .nil, _ => by simp [Subs.firstCompoActive]
  | .cons _ n r, h => by
      simp only [Subs.CleanAll] at h
      simp only [Subs.firstCompoActive]
      have h1 := Node.firstCompoActive_ne_true_of_clean n h.1
      have h2 := Subs.firstCompoActive_ne_true_of_clean r h.2
      cases hn : n.firstCompoActive with
      | none => simpa using h2
      | some b => simp only; rw [hn] at h1; exact h1
end

theorem Node.isActive_false_of_clean (root : Node) (hc : root.Clean) (id : Nat) : root.isActive id = false := by
  unfold Node.isActive
  cases root.pathTo id with
  | none => rfl
  | some p =>
    have hm : root.machineActive = false := by
      unfold Node.machineActive
      have := Node.firstCompoActive_ne_true_of_clean root hc
      cases h : root.firstCompoActive with
      | none => rfl
      | some b => cases b <;> simp_all
    simp only [hm]
    exact Node.nearest_false_of_clean _ (by intro r q i; simp) p root hc

mutual
theorem Shape.toNode_clean_fresh : (s : Shape) → (id rid : Nat) → (s.toNode id rid).Clean
  | .leaf _, _, _ => by simp [Shape.toNode, Node.Clean]
  | .compo h inj st s, id, rid => by
      simp only [Shape.toNode, Node.Clean]; exact ⟨trivial, Shapes.toSubs_cleanAll_fresh s _ _⟩
  | .ortho h inj s, id, rid => by
      simp only [Shape.toNode, Node.Clean]; exact Shapes.toSubs_cleanAll_fresh s _ _
theorem Shapes.toSubs_cleanAll_fresh : (s : Shapes) → (id rid : Nat) → (s.toSubs id rid).CleanAll
  | .nil, _, _ => by simp [Shapes.toSubs, Subs.CleanAll]
  | .cons s r, id, rid => by
      simp only [Shapes.toSubs, Subs.CleanAll]
      exact ⟨Shape.toNode_clean_fresh s _ _, Shapes.toSubs_cleanAll_fresh r _ _⟩
end

theorem create_fresh (shape : Shape) (cfg : Config) : (Mach.create shape cfg : Mach U).ReportFresh := by
  have hc : ∀ w : World U, w.clearTargets.cfg = w.cfg := by
    intro w; unfold World.clearTargets; split <;> rfl
  unfold Mach.ReportFresh Mach.activeNow
  have hroot : (Mach.create shape cfg : Mach U).root = shape.toNode 0 0 := rfl
  have hsc : (Mach.create shape cfg : Mach U).w.cfg.stateCount = shape.stateCount := by
    simp only [Mach.create, World.freshControl, hc, World.clearPlanData, World.clearStatuses]
  have hsa : (Mach.create shape cfg : Mach U).structActive = List.replicate shape.stateCount false := rfl
  rw [hroot, hsc, hsa]
  apply List.ext_getElem
  · simp
  · intro i h1 h2
    simp [Node.isActive_false_of_clean _ (Shape.toNode_clean_fresh shape 0 0)]

/-! ### which operations refresh the report -/

/-- The report fields are those of `m`. -/
def Mach.SameReport (m m' : Mach U) : Prop := m'.structActive = m.structActive ∧ m'.activity = m.activity

namespace Mach

theorem SameReport.refl (m : Mach U) : SameReport m m := ⟨rfl, rfl⟩
theorem SameReport.trans {a b c : Mach U} (h1 : SameReport a b) (h2 : SameReport b c) : SameReport a c :=
  ⟨h2.1.trans h1.1, h2.2.trans h1.2⟩

theorem rep_applyRequest (m : Mach U) (t : Transition) (i : Nat) : SameReport m (m.applyRequest t i) := by
  unfold Mach.applyRequest SameReport
  cases t.kind <;> simp only [] <;> (repeat' split) <;> exact ⟨rfl, rfl⟩

theorem rep_applyAll : (ts : List Transition) → (m : Mach U) → (i : Nat) → SameReport m (m.applyAll ts i)
  | [], m, i => SameReport.refl m
  | t :: rest, m, i => by
      simp only [Mach.applyAll]
      split
      · exact (rep_applyRequest m t i).trans (rep_applyAll rest _ _)
      · exact rep_applyAll rest _ _

theorem rep_approvedByGuards (m : Mach U) (c p : List Transition) : SameReport m (m.approvedByGuards c p).1 := by
  unfold Mach.approvedByGuards SameReport
  simp only []
  exact ⟨trivial, trivial⟩

theorem rep_approvedByEntryGuards (m : Mach U) (c p : List Transition) :
    SameReport m (m.approvedByEntryGuards c p).1 := ⟨rfl, rfl⟩

theorem rep_rounds (initial : Bool) : (fuel : Nat) → (m : Mach U) → (backup : Node) → (cur : List Transition) →
    SameReport m (rounds initial fuel m backup cur).1
  | 0, m, _, _ => SameReport.refl m
  | fuel+1, m, backup, cur => by
      simp only [Mach.rounds]
      split
      · exact SameReport.refl m
      · have h1 := rep_applyAll m.w.requests m 0
        split
        · cases initial
          · simp only [Bool.false_eq_true, ↓reduceIte]
            have h2 := rep_approvedByGuards
              { m.applyAll m.w.requests 0 with w := { (m.applyAll m.w.requests 0).w with requests := [] } } cur m.w.requests
            split
            · exact (h1.trans (SameReport.trans ⟨rfl, rfl⟩ h2)).trans (rep_rounds false fuel _ _ _)
            · refine (h1.trans (SameReport.trans ⟨rfl, rfl⟩ h2)).trans ?_
              exact SameReport.trans ⟨rfl, rfl⟩ (rep_rounds false fuel _ _ _)
          · simp only [↓reduceIte]
            have h2 := rep_approvedByEntryGuards
              { m.applyAll m.w.requests 0 with w := { (m.applyAll m.w.requests 0).w with requests := [] } } cur m.w.requests
            split
            · exact (h1.trans (SameReport.trans ⟨rfl, rfl⟩ h2)).trans (rep_rounds true fuel _ _ _)
            · refine (h1.trans (SameReport.trans ⟨rfl, rfl⟩ h2)).trans ?_
              exact SameReport.trans ⟨rfl, rfl⟩ (rep_rounds true fuel _ _ _)
        · exact h1.trans (SameReport.trans ⟨rfl, rfl⟩ (rep_rounds initial fuel _ _ _))

theorem rep_applyRequestNoPin (m : Mach U) (t : Transition) : SameReport m (m.applyRequestNoPin t) := by
  unfold Mach.applyRequestNoPin SameReport
  cases t.kind <;> simp only [] <;> (repeat' split) <;> exact ⟨rfl, rfl⟩

theorem rep_applyRequests (m : Mach U) (ts : List Transition) : SameReport m (m.applyRequests ts).1 :=
  applyRequests_inv (P := fun m' => SameReport m m') (fun m' t i h => h.trans (rep_applyRequest m' t i))
    (fun m' t h => h.trans (rep_applyRequestNoPin m' t)) m ts ⟨rfl, rfl⟩

theorem finishStep_refreshed (m0 m : Mach U) (c : List Transition) (ha : m.activity = m0.activity) :
    Refreshed m0 (stepTailRc m c) := by
  unfold stepTailRc
  cases hc : c.isEmpty
  · simp only [Bool.false_eq_true, ↓reduceIte]
    exact updateActivity_refreshed m0 _ ha
  · simp only [↓reduceIte]
    exact updateActivity_refreshed m0 _ ha

theorem clearTargets_cfg_rp (w : World U) : w.clearTargets.cfg = w.cfg := by
  unfold World.clearTargets; split <;> rfl

/-- `processRequest`: an empty queue leaves the report alone (the history does not advance on an idle
step); otherwise exactly one refresh. -/
theorem processRequest_report (m : Mach U) :
    (m.w.requests = [] → Untouched m m.processRequest) ∧
    (m.w.requests ≠ [] → Refreshed m m.processRequest) := by
  have hq : m.w.clearTargets.requests = m.w.requests := by
    unfold World.clearTargets; split <;> rfl
  rw [processRequest_staged]
  unfold processTailRc
  simp only [hq]
  constructor
  · intro h
    simp only [h, List.isEmpty_nil, ↓reduceIte]
    exact ⟨rfl, rfl, rfl, by show m.w.clearTargets.cfg.stateCount = _; rw [clearTargets_cfg_rp]⟩
  · intro h
    have : m.w.requests.isEmpty = false := by cases hr : m.w.requests <;> simp_all
    simp only [this, Bool.false_eq_true, ↓reduceIte]
    exact finishStep_refreshed m _ _ (rep_rounds false _ _ _ _).2

theorem initialEnter_report (m : Mach U) : Refreshed m m.initialEnter := by
  rw [initialEnter_staged]
  unfold enterTailRc
  refine updateActivity_refreshed m _ ?_
  show (rounds true _ (enterHeadRc m) _ []).1.activity = m.activity
  rw [(rep_rounds true _ (enterHeadRc m) _ []).2]
  unfold enterHeadRc
  exact (rep_approvedByEntryGuards _ [] []).2

theorem finalExit_report (m : Mach U) : Refreshed m m.finalExit := by
  rw [finalExit_staged]; exact updateActivity_refreshed m _ rfl

theorem reset_report (m : Mach U) : Refreshed m m.reset := by
  rw [reset_staged]; exact updateActivity_refreshed m _ rfl

/-- the world `update` hands to `processRequest` -/
def updateWorldRp (m : Mach U) : World U :=
  let w := (m.w.freshControl).snapshot m.root true false
  let w := (m.root.tick .preUpdate w).1
  let w := (m.root.tick .update w).1
  let w := (m.root.tick .postUpdate w).1
  if w.cfg.plans then (m.root.updatePlans w).1.clearStatuses else w

theorem update_staged (m : Mach U) : m.update = ({ m with w := updateWorldRp m } : Mach U).processRequest := rfl

/-- the world `react` hands to `processRequest` -/
def reactWorldRp (m : Mach U) : World U :=
  let td := m.w.cfg.topDown
  let w := (m.w.freshControl).snapshot m.root true false
  let w := (m.root.react .preReact td false w).1
  let w := (m.root.react .react td false { w with consumed := false }).1
  let w := (m.root.react .postReact (!td) true { w with consumed := false }).1
  if w.cfg.plans then (m.root.updatePlans w).1.clearStatuses else w

theorem react_staged (m : Mach U) : m.react = ({ m with w := reactWorldRp m } : Mach U).processRequest := rfl

theorem updateWorld_cfg (m : Mach U) : (updateWorldRp m).cfg = m.w.cfg := by
  have h1 := (safeRel.mach_update m).1
  rw [update_staged] at h1
  have h2 := (safeRel.mach_processRequest ({ m with w := updateWorldRp m } : Mach U)).1
  exact h2.symm.trans h1

theorem reactWorld_cfg (m : Mach U) : (reactWorldRp m).cfg = m.w.cfg := by
  have h1 := (safeRel.mach_react m).1
  rw [react_staged] at h1
  have h2 := (safeRel.mach_processRequest ({ m with w := reactWorldRp m } : Mach U)).1
  exact h2.symm.trans h1

theorem update_report (m : Mach U) :
    ((updateWorldRp m).requests = [] → Untouched m m.update) ∧
    ((updateWorldRp m).requests ≠ [] → Refreshed m m.update) := by
  rw [update_staged]
  have h := processRequest_report ({ m with w := updateWorldRp m } : Mach U)
  refine ⟨fun he => ?_, fun hn => h.2 hn⟩
  obtain ⟨a, b, c, d⟩ := h.1 he
  exact ⟨a, b, c, by rw [d]; show (updateWorldRp m).cfg.stateCount = _; rw [updateWorld_cfg]⟩

theorem react_report (m : Mach U) :
    ((reactWorldRp m).requests = [] → Untouched m m.react) ∧
    ((reactWorldRp m).requests ≠ [] → Refreshed m m.react) := by
  rw [react_staged]
  have h := processRequest_report ({ m with w := reactWorldRp m } : Mach U)
  refine ⟨fun he => ?_, fun hn => h.2 hn⟩
  obtain ⟨a, b, c, d⟩ := h.1 he
  exact ⟨a, b, c, by rw [d]; show (reactWorldRp m).cfg.stateCount = _; rw [reactWorld_cfg]⟩

theorem query_report (m : Mach U) : Untouched m m.query :=
  ⟨rfl, rfl, rfl, by rw [(safeRel.mach_query m).1]⟩

theorem request_report (m : Mach U) (k : Kind) (d : Nat) (p : Option Nat) : Untouched m (m.request k d p) :=
  ⟨rfl, rfl, rfl, by rw [(safeRel.mach_request m k d p).1]⟩

theorem setTask_report (m : Mach U) (sid : Nat) (ok : Bool) : Untouched m (m.setTask sid ok) := by
  refine ⟨?_, ?_, ?_, by rw [(safeRel.mach_setTask m sid ok).1]⟩ <;> (unfold Mach.setTask; split <;> rfl)

theorem planAppend_report (m : Mach U) (rid : Nat) (t : Task) : Untouched m (m.planAppend rid t) :=
  ⟨rfl, rfl, rfl, by rw [(safeRel.mach_planAppend m rid t).1]⟩

theorem planClear_report (m : Mach U) (rid : Nat) : Untouched m (m.planClear rid) := by
  refine ⟨?_, ?_, ?_, by rw [(safeRel.mach_planClear m rid).1]⟩ <;> (unfold Mach.planClear; split <;> rfl)

/-- `immediate…`: the request just queued makes the queue non-empty (capacity ≥ 1), so the step refreshes. -/
theorem immediate_report (m : Mach U) (k : Kind) (d : Nat) (p : Option Nat) (hcap : 0 < m.w.cfg.queueCap) :
    Refreshed m (m.immediate k d p) := by
  unfold Mach.immediate
  have hne : (m.request k d p).w.requests ≠ [] := by
    unfold Mach.request World.logRec World.emit
    by_cases h : m.w.requests.length < m.w.cfg.queueCap
    · simp only [h, ↓reduceIte]; split <;> simp
    · simp only [h, ↓reduceIte]
      have : m.w.requests ≠ [] := by
        intro he; rw [he] at h; exact h hcap
      split <;> exact this
  have h := (processRequest_report (m.request k d p)).2 hne
  exact ⟨h.1, h.2⟩

theorem fail'_cfg_rp (w : World U) (msg : String) : (w.fail' msg).cfg = w.cfg := by
  unfold World.fail'; split <;> rfl

theorem loadActive_report (m : Mach U) (st : List Bool) :
    Refreshed m (m.loadActive st) ∨ Untouched m (m.loadActive st) := by
  rw [loadActive_staged]
  split
  · exact Or.inr ⟨rfl, rfl, rfl, by show (m.w.fail' _).cfg.stateCount = _; rw [fail'_cfg_rp]⟩
  · exact Or.inl (updateActivity_refreshed m _ rfl)

theorem loadEnter_report (m : Mach U) (st : List Bool) :
    Refreshed m (m.loadEnter st) ∨ Untouched m (m.loadEnter st) := by
  rw [loadEnter_staged]
  split
  · exact Or.inr ⟨rfl, rfl, rfl, by show (m.w.fail' _).cfg.stateCount = _; rw [fail'_cfg_rp]⟩
  · exact Or.inl (updateActivity_refreshed m _ rfl)

theorem load_report (m : Mach U) (st : List Bool) : Refreshed m (m.load st) ∨ Untouched m (m.load st) := by
  have hf : ∀ msg, Untouched m ({ m with w := m.w.fail' msg } : Mach U) := fun msg =>
    ⟨rfl, rfl, rfl, by show (m.w.fail' _).cfg.stateCount = _; rw [fail'_cfg_rp]⟩
  unfold Mach.load
  split
  · exact Or.inr (hf _)
  · split
    · exact loadActive_report m _
    · split
      · exact loadEnter_report m _
      · exact Or.inr (hf _)
  · split
    · split
      · exact Or.inl (finalExit_report m)
      · exact Or.inr ⟨rfl, rfl, rfl, rfl⟩
    · exact Or.inr (hf _)

theorem replayTransitions_report (m : Mach U) (ts : List Transition) :
    ((m.replayTransitions ts).2 = true → Refreshed m (m.replayTransitions ts).1) ∧
    ((m.replayTransitions ts).2 = false → SameReport m (m.replayTransitions ts).1) := by
  rw [replayTransitions_staged]
  split
  · exact ⟨fun h => by simp at h, fun _ => ⟨rfl, rfl⟩⟩
  · split
    · refine ⟨fun _ => ?_, fun h => by simp at h⟩
      unfold replayCommitRc
      exact updateActivity_refreshed m _ (rep_applyRequests _ ts).2
    · exact ⟨fun h => by simp at h, fun _ => rep_applyRequests _ ts⟩

theorem replayEnter_report (m : Mach U) (ts : List Transition) :
    ((m.replayEnter ts).2 = true → Refreshed m (m.replayEnter ts).1) ∧
    ((m.replayEnter ts).2 = false → SameReport m (m.replayEnter ts).1) := by
  rw [replayEnter_staged]
  split
  · exact ⟨fun h => by simp at h, fun _ => ⟨rfl, rfl⟩⟩
  · split
    · refine ⟨fun _ => ?_, fun h => by simp at h⟩
      unfold replayEnterCommitRc
      exact updateActivity_refreshed m _ (rep_applyRequests _ ts).2
    · exact ⟨fun h => by simp at h, fun _ => rep_applyRequests (replayEnterHeadRc m) ts⟩

end Mach

namespace Api

theorem Untouched.same {m m' : Mach U} (h : Mach.Untouched m m') : Mach.SameReport m m' := ⟨h.1, h.2.1⟩

/-- Every operation refreshes the report at most once and changes it in no other way. -/
theorem step_report (m : Mach U) (o : Op) :
    Mach.Refreshed m (step m o) ∨ Mach.SameReport m (step m o) := by
  cases o <;> simp only [step]
  · exact Or.inl (Mach.initialEnter_report m)
  · exact Or.inl (Mach.finalExit_report m)
  · by_cases h : (Mach.updateWorldRp m).requests = []
    · exact Or.inr (Untouched.same ((Mach.update_report m).1 h))
    · exact Or.inl ((Mach.update_report m).2 h)
  · by_cases h : (Mach.reactWorldRp m).requests = []
    · exact Or.inr (Untouched.same ((Mach.react_report m).1 h))
    · exact Or.inl ((Mach.react_report m).2 h)
  · exact Or.inr (Untouched.same (Mach.query_report m))
  · exact Or.inl (Mach.reset_report m)
  · exact Or.inr (Untouched.same (Mach.request_report m ..))
  · next k d p =>
    unfold Mach.immediate
    by_cases h : (m.request k d p).w.requests = []
    · have := (Mach.processRequest_report (m.request k d p)).1 h
      exact Or.inr ⟨this.1, this.2.1⟩
    · have := (Mach.processRequest_report (m.request k d p)).2 h
      exact Or.inl ⟨this.1, this.2⟩
  · exact Or.inr (Untouched.same (Mach.setTask_report m ..))
  · exact Or.inr (Untouched.same (Mach.planAppend_report m ..))
  · exact Or.inr (Untouched.same (Mach.planClear_report m ..))
  · rcases Mach.load_report m _ with h | h
    · exact Or.inl h
    · exact Or.inr (Untouched.same h)
  · next ts =>
    cases h : (m.replayTransitions ts).2
    · exact Or.inr ((Mach.replayTransitions_report m ts).2 h)
    · exact Or.inl ((Mach.replayTransitions_report m ts).1 h)
  · next ts =>
    cases h : (m.replayEnter ts).2
    · exact Or.inr ((Mach.replayEnter_report m ts).2 h)
    · exact Or.inl ((Mach.replayEnter_report m ts).1 h)

/-- `structure()[i].isActive = isActive(i)` is an invariant of every operation except a replay that
reports `false` (which leaves request marks behind without refreshing; that the marks do not alter
`isActive` is C01's business). -/
theorem step_fresh (m : Mach U) (o : Op) (ho : o.usesHistory = false) (hf : m.ReportFresh) :
    (step m o).ReportFresh := by
  cases o <;> simp only [step] <;> simp only [Op.usesHistory] at ho
  · exact (Mach.initialEnter_report m).1
  · exact (Mach.finalExit_report m).1
  · by_cases h : (Mach.updateWorldRp m).requests = []
    · exact ((Mach.update_report m).1 h).fresh hf
    · exact ((Mach.update_report m).2 h).1
  · by_cases h : (Mach.reactWorldRp m).requests = []
    · exact ((Mach.react_report m).1 h).fresh hf
    · exact ((Mach.react_report m).2 h).1
  · exact (Mach.query_report m).fresh hf
  · exact (Mach.reset_report m).1
  · exact (Mach.request_report m ..).fresh hf
  · next k d p =>
    unfold Mach.immediate
    by_cases h : (m.request k d p).w.requests = []
    · exact ((Mach.processRequest_report (m.request k d p)).1 h).fresh ((Mach.request_report m k d p).fresh hf)
    · exact ((Mach.processRequest_report (m.request k d p)).2 h).1
  · exact (Mach.setTask_report m ..).fresh hf
  · exact (Mach.planAppend_report m ..).fresh hf
  · exact (Mach.planClear_report m ..).fresh hf
  · rcases Mach.load_report m _ with h | h
    · exact h.1
    · exact h.fresh hf
  all_goals exact absurd ho (by simp)

end Api
end Hfsm
