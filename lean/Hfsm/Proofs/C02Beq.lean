/-
C02 — a Boolean equality test on trees (for closed-term witnesses: `Node` has no `DecidableEq`).
-/
import Hfsm.Model.Tree

namespace Hfsm

mutual
def Node.beq : Node → Node → Bool
  | .leaf id inj, .leaf id' inj' => id == id' && inj == inj'
  | .compo id rid inj h st a r q m s, .compo id' rid' inj' h' st' a' r' q' m' s' =>
    id == id' && rid == rid' && inj == inj' && h == h' && decide (st = st') && a == a' && r == r' &&
    q == q' && m == m' && s.beq s'
  | .ortho id rid inj h s, .ortho id' rid' inj' h' s' =>
    id == id' && rid == rid' && inj == inj' && h == h' && s.beq s'
  | _, _ => false
def Subs.beq : Subs → Subs → Bool
  | .nil, .nil => true
  | .cons b n r, .cons b' n' r' => b == b' && n.beq n' && r.beq r'
  | _, _ => false
end

mutual
theorem C02.Node.eq_of_beq : (n n' : Node) → n.beq n' = true → n = n'
  | .leaf id inj, .leaf id' inj', h => by
    simp only [Node.beq, Bool.and_eq_true, beq_iff_eq] at h
    rw [h.1, h.2]
  | .compo id rid inj hd st a r q m s, .compo id' rid' inj' hd' st' a' r' q' m' s', h => by
    simp only [Node.beq, Bool.and_eq_true, beq_iff_eq, decide_eq_true_eq] at h
    obtain ⟨⟨⟨⟨⟨⟨⟨⟨⟨h1, h2⟩, h3⟩, h4⟩, h5⟩, h6⟩, h7⟩, h8⟩, h9⟩, h10⟩ := h
    rw [h1, h2, h3, h4, h5, h6, h7, h8, h9, C02.Subs.eq_of_beq s s' h10]
  | .ortho id rid inj hd s, .ortho id' rid' inj' hd' s', h => by
    simp only [Node.beq, Bool.and_eq_true, beq_iff_eq] at h
    obtain ⟨⟨⟨⟨h1, h2⟩, h3⟩, h4⟩, h5⟩ := h
    rw [h1, h2, h3, h4, C02.Subs.eq_of_beq s s' h5]
  | .leaf .., .compo .., h => by simp only [Node.beq, Bool.false_eq_true] at h
  | .leaf .., .ortho .., h => by simp only [Node.beq, Bool.false_eq_true] at h
  | .compo .., .leaf .., h => by simp only [Node.beq, Bool.false_eq_true] at h
  | .compo .., .ortho .., h => by simp only [Node.beq, Bool.false_eq_true] at h
  | .ortho .., .leaf .., h => by simp only [Node.beq, Bool.false_eq_true] at h
  | .ortho .., .compo .., h => by simp only [Node.beq, Bool.false_eq_true] at h
theorem C02.Subs.eq_of_beq : (s s' : Subs) → s.beq s' = true → s = s'
  | .nil, .nil, _ => rfl
  | .cons b n r, .cons b' n' r', h => by
    simp only [Subs.beq, Bool.and_eq_true, beq_iff_eq] at h
    rw [h.1.1, C02.Node.eq_of_beq n n' h.1.2, C02.Subs.eq_of_beq r r' h.2]
  | .nil, .cons .., h => by simp only [Subs.beq, Bool.false_eq_true] at h
  | .cons .., .nil, h => by simp only [Subs.beq, Bool.false_eq_true] at h
end

mutual
theorem C02.Node.beq_refl : (n : Node) → n.beq n = true
  | .leaf .. => by simp only [Node.beq, beq_self_eq_true, Bool.and_self]
  | .compo id rid inj hd st a r q m s => by
    simp only [Node.beq, beq_self_eq_true, decide_true, Bool.and_self, C02.Subs.beq_refl s]
  | .ortho id rid inj hd s => by simp only [Node.beq, beq_self_eq_true, Bool.and_self, C02.Subs.beq_refl s]
theorem C02.Subs.beq_refl : (s : Subs) → s.beq s = true
  | .nil => by simp only [Subs.beq]
  | .cons b n r => by simp only [Subs.beq, beq_self_eq_true, C02.Node.beq_refl n, C02.Subs.beq_refl r, Bool.and_self]
end

/-- a tree is different from another one as soon as the Boolean test says so -/
theorem C02.Node.ne_of_beq_false {n n' : Node} (h : n.beq n' = false) : n ≠ n' := by
  intro e
  rw [e, C02.Node.beq_refl] at h
  cases h

end Hfsm
