/-
The logger grammar (C16): what an operation appends to the trace is a sequence of *items* —
callback groups headed by their `.method` record, loose records (requests, task and plan status,
resolutions), and in verbose mode the bare `.method` records of anonymous region heads.
`mirRel : WRel MirRel` makes this a theorem about every traversal and every operation.
-/
import Hfsm.Proofs.WorldRel
import Hfsm.Proofs.Bounds

set_option linter.unusedVariables false
set_option linter.unusedSectionVars false

namespace Hfsm
variable {U : Type}

/-- Logger records a callback of state `sid` can cause by its own actions: a request it issues (origin
= the state), a task status it sets, a cancellation (origin = the state). -/
def LogRec.actionOf (sid : Nat) : LogRec U → Bool
  | .transition (some o) _ _ => o == sid
  | .taskStatus (some _) _ _ => true
  | .cancelled s => s == sid
  | _ => false

/-- What one handler invocation contributes: the records of its actions, then what it could observe. -/
structure Call (U : Type) where
  logs : List (LogRec U)
  obs  : Option Obs
  pend : List Transition
  curr : List Transition

/-- One item of the trace grammar. -/
inductive Item (U : Type)
  /-- a record outside any callback: request through the API or by the plan executor, task / plan
  status, select / utility / random resolution -/
  | loose (r : LogRec U)
  /-- one state method: the handlers of state `sid` (own + `inj` injected bases) in `slotOrder` -/
  | group (sid : Nat) (m : Method) (inj : Nat) (calls : List (Call U))
  /-- verbose mode: a method of an anonymous region head, which has no handler -/
  | headless (sid : Nat) (m : Method)

def Call.events (sid : Nat) (m : Method) (slot : Nat) (c : Call U) : List (Event U) :=
  c.logs.map Event.log ++ [.cb sid m slot c.obs c.pend c.curr]

def slotsEvents (sid : Nat) (m : Method) : List Nat → List (Call U) → List (Event U)
  | s :: ss, c :: cs => c.events sid m s ++ slotsEvents sid m ss cs
  | _, _ => []

/-- The events of an item in chronological order; `lg` = a logger is attached. -/
def Item.events (lg : Bool) : Item U → List (Event U)
  | .loose r => [.log r]
  | .group sid m inj calls =>
      (if lg then [.log (.method sid m)] else []) ++ slotsEvents sid m (slotOrder inj m) calls
  | .headless sid m => [.log (.method sid m)]

/-- Well-formedness of an item under logging mode (`lg` logger attached, `vb` verbose). -/
def Item.ok (lg vb : Bool) : Item U → Prop
  | .loose r => lg = true ∧ r.loose = true
  | .group sid m inj calls =>
      calls.length = (slotOrder inj m).length ∧ ∀ c ∈ calls, ∀ r ∈ c.logs, lg = true ∧ r.actionOf sid = true
  | .headless _ _ => lg = true ∧ vb = true

def itemsEvents (lg : Bool) (items : List (Item U)) : List (Event U) := items.flatMap (Item.events lg)

/-- `w'` extends the trace of `w` (newest first) by well-formed items — provided the model met no
contract violation (an exhausted decision stream truncates a group). -/
def MirRel (w w' : World U) : Prop :=
  w'.cfg = w.cfg ∧
  (w'.err = none → w.err = none ∧
    ∃ items : List (Item U), (∀ i ∈ items, i.ok w.cfg.logging w.cfg.verbose) ∧
      w'.trace = (itemsEvents w.cfg.logging items).reverse ++ w.trace)

theorem itemsEvents_append (lg : Bool) (a b : List (Item U)) :
    itemsEvents lg (a ++ b) = itemsEvents lg a ++ itemsEvents lg b := by
  simp [itemsEvents]

theorem MirRel.refl (w : World U) : MirRel w w :=
  ⟨rfl, fun h => ⟨h, [], by simp, by simp [itemsEvents]⟩⟩

theorem MirRel.trans {a b c : World U} (h1 : MirRel a b) (h2 : MirRel b c) : MirRel a c := by
  obtain ⟨c1, e1⟩ := h1
  obtain ⟨c2, e2⟩ := h2
  refine ⟨c2.trans c1, fun h => ?_⟩
  obtain ⟨hb, i2, ok2, t2⟩ := e2 h
  obtain ⟨ha, i1, ok1, t1⟩ := e1 hb
  refine ⟨ha, i1 ++ i2, ?_, ?_⟩
  · intro i hi
    rcases List.mem_append.mp hi with hi | hi
    · exact ok1 i hi
    · have := ok2 i hi; rwa [c1] at this
  · rw [t2, t1, c1, itemsEvents_append]; simp

theorem MirRel.same {w w' : World U} (h1 : w'.cfg = w.cfg) (h2 : w'.trace = w.trace) (h5 : w'.err = w.err) :
    MirRel w w' :=
  ⟨h1, fun h => ⟨h5 ▸ h, [], by simp, by simp [itemsEvents, h2]⟩⟩

/-- one loose record -/
theorem MirRel.logLoose (w : World U) (r : LogRec U) (hr : r.loose = true) : MirRel w (w.logRec r) := by
  unfold World.logRec World.emit
  split
  · next hl =>
    refine ⟨rfl, fun h => ⟨h, [.loose r], ?_, ?_⟩⟩
    · intro i hi; simp at hi; subst hi; exact ⟨hl, hr⟩
    · simp [itemsEvents, Item.events]
  · exact MirRel.refl w

/-! ### inside one handler invocation -/

/-- `w'` results from `w` by actions of a handler of state `sid`. -/
def ActRel (sid : Nat) (w w' : World U) : Prop :=
  w'.cfg = w.cfg ∧ w'.origin = w.origin ∧
  (w'.err = none → w.err = none ∧ ∃ logs : List (LogRec U),
    (∀ r ∈ logs, w.cfg.logging = true ∧ r.actionOf sid = true) ∧
    w'.trace = (logs.map Event.log).reverse ++ w.trace)

theorem ActRel.refl (sid : Nat) (w : World U) : ActRel sid w w :=
  ⟨rfl, rfl, fun h => ⟨h, [], by simp, by simp⟩⟩

theorem ActRel.trans {sid : Nat} {a b c : World U} (h1 : ActRel sid a b) (h2 : ActRel sid b c) :
    ActRel sid a c := by
  obtain ⟨c1, o1, e1⟩ := h1
  obtain ⟨c2, o2, e2⟩ := h2
  refine ⟨c2.trans c1, o2.trans o1, fun h => ?_⟩
  obtain ⟨hb, l2, ok2, t2⟩ := e2 h
  obtain ⟨ha, l1, ok1, t1⟩ := e1 hb
  refine ⟨ha, l1 ++ l2, ?_, ?_⟩
  · intro r hr
    rcases List.mem_append.mp hr with hr | hr
    · exact ok1 r hr
    · have := ok2 r hr; rwa [c1] at this
  · rw [t2, t1]; simp

theorem ActRel.same {sid : Nat} {w w' : World U} (h1 : w'.cfg = w.cfg) (h2 : w'.trace = w.trace)
    (h3 : w'.origin = w.origin) (h5 : w'.err = w.err) : ActRel sid w w' :=
  ⟨h1, h3, fun h => ⟨h5 ▸ h, [], by simp, by simp [h2]⟩⟩

theorem ActRel.fail' (sid : Nat) (w : World U) (msg : String) : ActRel sid w (w.fail' msg) :=
  ⟨by unfold World.fail'; split <;> rfl, by unfold World.fail'; split <;> rfl,
   fun h => absurd h (fail'_err_ne_none w msg)⟩

theorem ActRel.log (sid : Nat) (w : World U) (r : LogRec U) (hr : r.actionOf sid = true) :
    ActRel sid w (w.logRec r) := by
  unfold World.logRec World.emit
  split
  · next hl =>
    refine ⟨rfl, rfl, fun h => ⟨h, [r], ?_, by simp⟩⟩
    intro r' hr'; simp at hr'; subst hr'; exact ⟨hl, hr⟩
  · exact ActRel.refl sid w

theorem ActRel.ctlRequest (sid : Nat) (w : World U) (k : Kind) (d : Nat) (p : Option Nat)
    (ho : w.origin = some sid) : ActRel sid w (w.ctlRequest k d p) := by
  simp only [World.ctlRequest]
  have hq : ∀ w1 : World U, w1.origin = w.origin → ActRel sid w1
      (if (k != Kind.schedule && (decide (d < w1.regionStateId) || decide (w1.regionStateId + w1.regionSize ≤ d))) = true
        then { w1 with taskStatus := { w1.taskStatus with outer := true } } else w1) := by
    intro w1 _; split
    · exact ActRel.same rfl rfl rfl rfl
    · exact ActRel.refl sid w1
  have h0 : ActRel sid w (if w.requests.length < w.cfg.queueCap then
      { w with requests := w.requests ++ [{ origin := w.origin, dest := d, kind := k, payload := p }] } else w) := by
    split
    · exact ActRel.same rfl rfl rfl rfl
    · exact ActRel.refl sid w
  generalize (if w.requests.length < w.cfg.queueCap then
      { w with requests := w.requests ++ [{ origin := w.origin, dest := d, kind := k, payload := p }] } else w) = w1 at h0 ⊢
  have h1 := hq w1 h0.2.1
  generalize (if (k != Kind.schedule && (decide (d < w1.regionStateId) || decide (w1.regionStateId + w1.regionSize ≤ d))) = true
        then { w1 with taskStatus := { w1.taskStatus with outer := true } } else w1) = w2 at h1 ⊢
  refine (h0.trans h1).trans (ActRel.log sid w2 _ ?_)
  rw [(h0.trans h1).2.1, ho]; simp [LogRec.actionOf]

theorem ActRel.act (sid : Nat) (c : CtlClass) (w : World U) (a : Action U)
    (ho : w.origin = some sid ∨ c = .const) : ActRel sid w (World.act c w a) := by
  cases a <;> simp only [World.act]
  case request k d p =>
    split
    · next hf =>
      rcases ho with ho | ho
      · exact ActRel.ctlRequest sid w k d p ho
      · subst ho; simp [CtlClass.isFull] at hf
    · exact ActRel.fail' ..
  case succeed s =>
    split
    · simp only [World.ctlSucceed]; split
      · refine ActRel.trans ?_ (ActRel.log sid _ _ rfl); exact ActRel.same rfl rfl rfl rfl
      · exact ActRel.refl ..
    · exact ActRel.fail' ..
  case fail s =>
    split
    · simp only [World.ctlFail]; split
      · refine ActRel.trans ?_ (ActRel.log sid _ _ rfl); exact ActRel.same rfl rfl rfl rfl
      · exact ActRel.refl ..
    · exact ActRel.fail' ..
  case cancel =>
    split
    · next hg =>
      rcases ho with ho | ho
      · refine ActRel.trans (b := { w with cancelled := true }) (ActRel.same rfl rfl rfl rfl) (ActRel.log sid _ _ ?_)
        simp [LogRec.actionOf, ho]
      · subst ho; simp at hg
    · exact ActRel.fail' ..
  case consume => split; exact ActRel.same rfl rfl rfl rfl; exact ActRel.fail' ..
  case planAppend o d k p =>
    split
    · unfold World.planAppend; split
      · exact ActRel.same rfl rfl rfl rfl
      · exact ActRel.refl ..
    · exact ActRel.fail' ..
  case planClear => split; exact ActRel.same rfl rfl rfl rfl; exact ActRel.fail' ..
  all_goals exact ActRel.refl ..

theorem ActRel.acts (sid : Nat) (c : CtlClass) : (d : Decision U) → (w : World U) →
    (w.origin = some sid ∨ c = .const) → ActRel sid w (d.foldl (World.act c) w)
  | [], w, _ => ActRel.refl sid w
  | a :: rest, w, ho => by
      have h1 := ActRel.act sid c w a ho
      refine h1.trans (ActRel.acts sid c rest _ ?_)
      rcases ho with ho | ho
      · exact Or.inl (h1.2.1.trans ho)
      · exact Or.inr ho

/-- One handler invocation contributes exactly one `Call`. -/
theorem invoke_call (w : World U) (sid : Nat) (m : Method) (slot : Nat)
    (ho : w.origin = some sid ∨ m.cls = .const) :
    (w.invoke sid m slot).1.cfg = w.cfg ∧ (w.invoke sid m slot).1.origin = w.origin ∧
    ((w.invoke sid m slot).1.err = none → w.err = none ∧ ∃ c : Call U,
      (∀ r ∈ c.logs, w.cfg.logging = true ∧ r.actionOf sid = true) ∧
      (w.invoke sid m slot).1.trace = (c.events sid m slot).reverse ++ w.trace) := by
  simp only [World.invoke]
  split
  · exact ⟨(ActRel.fail' sid w _).1, (ActRel.fail' sid w _).2.1, fun h => absurd h (fail'_err_ne_none w _)⟩
  · next d rest hd =>
    have h := ActRel.acts sid m.cls d { w with ds := rest } ho
    obtain ⟨hc, horig, he⟩ := h
    refine ⟨hc, horig, fun herr => ?_⟩
    obtain ⟨h0, logs, hok, ht⟩ := he herr
    refine ⟨h0, ⟨logs, w.obs, (if m.cls = .guard then w.pending else []),
      (if (m.cls = .guard || m.cls = .plan) = true then w.current else [])⟩, hok, ?_⟩
    simp only [World.emit, Call.events, ht]
    simp

theorem invokeSlots_calls (sid : Nat) (m : Method) : (slots : List Nat) → (w : World U) →
    (w.origin = some sid ∨ m.cls = .const) →
    (w.invokeSlots sid m slots).cfg = w.cfg ∧ (w.invokeSlots sid m slots).origin = w.origin ∧
    ((w.invokeSlots sid m slots).err = none → w.err = none ∧ ∃ calls : List (Call U),
      calls.length = slots.length ∧
      (∀ c ∈ calls, ∀ r ∈ c.logs, w.cfg.logging = true ∧ r.actionOf sid = true) ∧
      (w.invokeSlots sid m slots).trace = (slotsEvents sid m slots calls).reverse ++ w.trace)
  | [], w, _ => by
      simp only [World.invokeSlots]
      exact ⟨trivial, trivial, fun h => ⟨h, [], rfl, by simp, by simp [slotsEvents]⟩⟩
  | s :: rest, w, ho => by
      simp only [World.invokeSlots]
      obtain ⟨c1, o1, e1⟩ := invoke_call w sid m s ho
      have ho' : (w.invoke sid m s).1.origin = some sid ∨ m.cls = .const := by
        rcases ho with ho | ho
        · exact Or.inl (o1.trans ho)
        · exact Or.inr ho
      obtain ⟨c2, o2, e2⟩ := invokeSlots_calls sid m rest (w.invoke sid m s).1 ho'
      refine ⟨c2.trans c1, o2.trans o1, fun h => ?_⟩
      obtain ⟨hb, calls, hl, hok, ht⟩ := e2 h
      obtain ⟨ha, c, hcok, hct⟩ := e1 hb
      refine ⟨ha, c :: calls, by simp [hl], ?_, ?_⟩
      · intro c' hc'
        rcases List.mem_cons.mp hc' with hc' | hc'
        · subst hc'; exact hcok
        · have := hok c' hc'; rwa [c1] at this
      · rw [ht, hct]; simp [slotsEvents]

theorem MirRel.stateMethod (w : World U) (sid inj : Nat) (headed : Bool) (m : Method) :
    MirRel w (w.stateMethod sid inj headed m) := by
  cases headed
  · -- anonymous head: only verbose logging records the method
    simp only [World.stateMethod, Bool.false_or, Bool.false_eq_true, if_false]
    split
    · next hv =>
      unfold World.logRec World.emit
      split
      · next hl =>
        refine ⟨rfl, fun h => ⟨h, [.headless sid m], ?_, by simp [itemsEvents, Item.events]⟩⟩
        intro i hi; simp at hi; subst hi; exact ⟨hl, hv⟩
      · exact MirRel.refl w
    · exact MirRel.refl w
  · simp only [World.stateMethod, Bool.true_or, if_true]
    -- the world the handlers start from
    have hlog : (w.logRec (.method sid m)).cfg = w.cfg ∧ (w.logRec (.method sid m)).err = w.err ∧
        (w.logRec (.method sid m)).trace =
          (if w.cfg.logging then [Event.log (.method sid m)] else []) ++ w.trace := by
      unfold World.logRec World.emit; split <;> simp [*]
    obtain ⟨lc, le, lt⟩ := hlog
    generalize w.logRec (.method sid m) = w0 at lc le lt ⊢
    obtain ⟨c1, o1, e1⟩ := invokeSlots_calls sid m (slotOrder inj m) { w0 with origin := some sid } (Or.inl rfl)
    refine ⟨c1.trans lc, fun h => ?_⟩
    obtain ⟨h0, calls, hl, hok, ht⟩ := e1 h
    refine ⟨le ▸ h0, [.group sid m inj calls], ?_, ?_⟩
    · intro i hi; simp at hi; subst hi
      refine ⟨hl, fun c hc r hr => ?_⟩
      have := hok c hc r hr
      rwa [show ({ w0 with origin := some sid } : World U).cfg = w.cfg from lc] at this
    · show (World.invokeSlots { w0 with origin := some sid } sid m (slotOrder inj m)).trace = _
      rw [ht]
      show _ ++ w0.trace = _
      rw [lt]
      cases w.cfg.logging <;> simp [itemsEvents, Item.events]

/-- `select` / `rank` / `utility` of a user head: a one-handler group. -/
theorem MirRel.headCall (w : World U) (sid inj : Nat) (m : Method) (hm : m.cls = .const)
    (hs : slotOrder inj m = [inj]) : MirRel w ((w.logRec (.method sid m)).invoke sid m inj).1 := by
  have hlog : (w.logRec (.method sid m)).cfg = w.cfg ∧ (w.logRec (.method sid m)).err = w.err ∧
      (w.logRec (.method sid m)).trace =
        (if w.cfg.logging then [Event.log (.method sid m)] else []) ++ w.trace := by
    unfold World.logRec World.emit; split <;> simp [*]
  obtain ⟨lc, le, lt⟩ := hlog
  generalize w.logRec (.method sid m) = w0 at lc le lt ⊢
  obtain ⟨c1, _, e1⟩ := invoke_call w0 sid m inj (Or.inr hm)
  refine ⟨c1.trans lc, fun h => ?_⟩
  obtain ⟨h0, c, hok, ht⟩ := e1 h
  refine ⟨le ▸ h0, [.group sid m inj [c]], ?_, ?_⟩
  · intro i hi; simp at hi; subst hi
    refine ⟨by simp [hs], fun c' hc' r hr => ?_⟩
    simp at hc'; subst hc'
    have := hok r hr; rwa [lc] at this
  · rw [ht, lt]
    cases w.cfg.logging <;> simp [itemsEvents, Item.events, hs, slotsEvents]

theorem MirRel.fail' (w : World U) (msg : String) : MirRel w (w.fail' msg) :=
  ⟨by unfold World.fail'; split <;> rfl, fun h => absurd h (fail'_err_ne_none w msg)⟩

theorem MirRel.headlessLog (w : World U) (sid : Nat) (m : Method) :
    MirRel w (if (false || w.cfg.verbose) = true then w.logRec (.method sid m) else w) := by
  simp only [Bool.false_or]
  split
  · next hv =>
    unfold World.logRec World.emit
    split
    · next hl =>
      refine ⟨rfl, fun h => ⟨h, [.headless sid m], ?_, by simp [itemsEvents, Item.events]⟩⟩
      intro i hi; simp at hi; subst hi; exact ⟨hl, hv⟩
    · exact MirRel.refl w
  · exact MirRel.refl w

/-- a request record is loose whatever its origin (used for the plan executor's requests) -/
theorem MirRel.ctlRequestLoose (w : World U) (k : Kind) (d : Nat) (p : Option Nat) :
    MirRel w (w.ctlRequest k d p) := by
  simp only [World.ctlRequest]
  have h0 : MirRel w (if w.requests.length < w.cfg.queueCap then
      { w with requests := w.requests ++ [{ origin := w.origin, dest := d, kind := k, payload := p }] } else w) := by
    split
    · exact MirRel.same rfl rfl rfl
    · exact MirRel.refl w
  generalize (if w.requests.length < w.cfg.queueCap then
      { w with requests := w.requests ++ [{ origin := w.origin, dest := d, kind := k, payload := p }] } else w) = w1 at h0 ⊢
  have h1 : MirRel w1 (if (k != Kind.schedule && (decide (d < w1.regionStateId) || decide (w1.regionStateId + w1.regionSize ≤ d))) = true
        then { w1 with taskStatus := { w1.taskStatus with outer := true } } else w1) := by
    split
    · exact MirRel.same rfl rfl rfl
    · exact MirRel.refl w1
  generalize (if (k != Kind.schedule && (decide (d < w1.regionStateId) || decide (w1.regionStateId + w1.regionSize ≤ d))) = true
        then { w1 with taskStatus := { w1.taskStatus with outer := true } } else w1) = w2 at h1 ⊢
  exact (h0.trans h1).trans (MirRel.logLoose w2 _ rfl)

variable [UtilArith U]

theorem MirRel.headUtility (w : World U) (sid inj : Nat) (headed : Bool) :
    MirRel w (w.headUtility sid inj headed).1 := by
  cases headed
  · simp only [World.headUtility, Bool.false_eq_true, if_false]; exact MirRel.refl w
  · simp only [World.headUtility, if_true]
    split
    · exact MirRel.headCall w sid inj .utility rfl rfl
    · exact (MirRel.headCall w sid inj .utility rfl rfl).trans (MirRel.fail' _ _)

theorem MirRel.headUtilityWrap (w : World U) (sid inj : Nat) (headed : Bool) :
    MirRel w (w.headUtilityWrap sid inj headed).1 := by
  cases headed
  · simp only [World.headUtilityWrap, Bool.false_eq_true, if_false]
    have := MirRel.headlessLog w sid .utility
    simpa only [Bool.false_or] using this
  · simp only [World.headUtilityWrap, if_true]
    exact MirRel.headUtility w sid inj true

theorem MirRel.headRank (w : World U) (sid inj : Nat) (headed : Bool) :
    MirRel w (w.headRank sid inj headed).1 := by
  cases headed
  · simp only [World.headRank, Bool.false_eq_true, if_false]; exact MirRel.headlessLog w sid .rank
  · simp only [World.headRank, Bool.true_or, if_true]
    split
    · exact MirRel.headCall w sid inj .rank rfl rfl
    · exact (MirRel.headCall w sid inj .rank rfl rfl).trans (MirRel.fail' _ _)

theorem MirRel.headSelect (w : World U) (sid inj : Nat) (headed : Bool) :
    MirRel w (w.headSelect sid inj headed).1 := by
  cases headed
  · simp only [World.headSelect, Bool.false_eq_true, if_false]; exact MirRel.headlessLog w sid .select
  · simp only [World.headSelect, Bool.true_or, if_true]
    split
    · exact MirRel.headCall w sid inj .select rfl rfl
    · exact (MirRel.headCall w sid inj .select rfl rfl).trans (MirRel.fail' _ _)

/-- The logger grammar holds across every traversal and every operation. -/
theorem mirRel : WRel (MirRel (U := U)) where
  refl := MirRel.refl
  trans := MirRel.trans
  frame := fun h1 h2 _ _ h5 => MirRel.same h1 h2 h5
  fail' := MirRel.fail'
  logLoose := MirRel.logLoose
  stateMethod := MirRel.stateMethod
  headUtility := MirRel.headUtility
  headUtilityWrap := MirRel.headUtilityWrap
  headRank := MirRel.headRank
  headSelect := MirRel.headSelect
  taskRequest := fun w headId dest payload =>
    (MirRel.trans (b := { w with origin := some headId }) (MirRel.same rfl rfl rfl)
      (MirRel.ctlRequestLoose _ _ _ _)).trans (MirRel.same rfl rfl rfl)
  shrinkPlan := fun w r p _ => MirRel.same rfl rfl rfl
  clearRequests := fun w => MirRel.same rfl rfl rfl
  clearPlans := fun w n => MirRel.same rfl rfl rfl
  apiRequest := fun w t => by
    refine MirRel.trans ?_ (MirRel.logLoose _ _ rfl)
    split
    · exact MirRel.same rfl rfl rfl
    · exact MirRel.refl _
  planAppend := fun w r t => by
    unfold World.planAppend; split
    · exact MirRel.same rfl rfl rfl
    · exact MirRel.refl _

/-! ### reading the grammar: `.method` records ↔ callback groups -/

omit [UtilArith U]

def Event.methodRec? : Event U → Option (Nat × Method)
  | .log (.method s m) => some (s, m)
  | _ => none

def Event.cb? : Event U → Option (Nat × Method × Nat)
  | .cb s m slot _ _ _ => some (s, m, slot)
  | _ => none

/-- the state method an item stands for -/
def Item.head? : Item U → Option (Nat × Method)
  | .group s m _ _ => some (s, m)
  | .headless s m => some (s, m)
  | .loose _ => none

/-- the handler invocations of an item: all slots of the state, in `slotOrder` -/
def Item.cbs : Item U → List (Nat × Method × Nat)
  | .group s m inj _ => (slotOrder inj m).map (fun slot => (s, m, slot))
  | _ => []

theorem slotsEvents_methods (sid : Nat) (m : Method) : (slots : List Nat) → (calls : List (Call U)) →
    (∀ c ∈ calls, ∀ r ∈ c.logs, r.actionOf sid = true) →
    (slotsEvents sid m slots calls).filterMap Event.methodRec? = []
  | [], _, _ => by simp [slotsEvents]
  | _ :: _, [], _ => by simp [slotsEvents]
  | s :: ss, c :: cs, h => by
      have ih := slotsEvents_methods sid m ss cs (fun c' hc' => h c' (List.mem_cons_of_mem _ hc'))
      have hc : (c.logs.map Event.log).filterMap Event.methodRec? = [] := by
        rw [List.filterMap_eq_nil_iff]
        intro e he
        obtain ⟨r, hr, rfl⟩ := List.mem_map.mp he
        have := h c (List.mem_cons_self ..) r hr
        cases r <;> simp_all [LogRec.actionOf, Event.methodRec?]
      show List.filterMap _ (c.events sid m s ++ slotsEvents sid m ss cs) = []
      rw [List.filterMap_append, ih, List.append_nil]
      unfold Call.events
      rw [List.filterMap_append, hc]; rfl

theorem slotsEvents_cbs (sid : Nat) (m : Method) : (slots : List Nat) → (calls : List (Call U)) →
    calls.length = slots.length →
    (slotsEvents sid m slots calls).filterMap Event.cb? = slots.map (fun slot => (sid, m, slot))
  | [], [], _ => by simp [slotsEvents]
  | [], _ :: _, h => by simp at h
  | _ :: _, [], h => by simp at h
  | s :: ss, c :: cs, h => by
      have ih := slotsEvents_cbs sid m ss cs (by simpa using h)
      have hc : (c.logs.map Event.log).filterMap Event.cb? = [] := by
        rw [List.filterMap_eq_nil_iff]
        intro e he
        obtain ⟨r, _, rfl⟩ := List.mem_map.mp he
        rfl
      show List.filterMap _ (c.events sid m s ++ slotsEvents sid m ss cs) = _
      rw [List.filterMap_append, ih]
      unfold Call.events
      rw [List.filterMap_append, hc]; rfl

/-- With a logger attached, the `.method` records of a well-formed trace segment are exactly the heads
of its items, in order: one per callback group (plus, in verbose mode, one per anonymous-head method). -/
theorem methods_of_items (vb : Bool) : (items : List (Item U)) → (∀ i ∈ items, i.ok true vb) →
    (itemsEvents true items).filterMap Event.methodRec? = items.filterMap Item.head?
  | [], _ => by simp [itemsEvents]
  | i :: rest, h => by
      have ih := methods_of_items vb rest (fun j hj => h j (List.mem_cons_of_mem _ hj))
      have hi := h i (List.mem_cons_self ..)
      simp only [itemsEvents, List.flatMap_cons, List.filterMap_append] at ih ⊢
      rw [ih]
      cases i with
      | loose r =>
        have hl : r.loose = true := hi.2
        cases r with
        | method s m => simp [LogRec.loose] at hl
        | cancelled s => simp [LogRec.loose] at hl
        | _ => rfl
      | group sid m inj calls =>
        have := slotsEvents_methods sid m (slotOrder inj m) calls (fun c hc r hr => (hi.2 c hc r hr).2)
        simp [Item.events, Item.head?, Event.methodRec?, this]
      | headless sid m => simp [Item.events, Item.head?, Event.methodRec?]

/-- The callbacks of a well-formed trace segment are exactly the handler invocations of its groups:
every slot of the state, in `slotOrder`, group after group. -/
theorem cbs_of_items (lg vb : Bool) : (items : List (Item U)) → (∀ i ∈ items, i.ok lg vb) →
    (itemsEvents lg items).filterMap Event.cb? = items.flatMap Item.cbs
  | [], _ => by simp [itemsEvents]
  | i :: rest, h => by
      have ih := cbs_of_items lg vb rest (fun j hj => h j (List.mem_cons_of_mem _ hj))
      have hi := h i (List.mem_cons_self ..)
      simp only [itemsEvents, List.flatMap_cons, List.filterMap_append] at ih ⊢
      rw [ih]
      cases i with
      | loose r => simp [Item.events, Item.cbs, Event.cb?]
      | group sid m inj calls =>
        have := slotsEvents_cbs sid m (slotOrder inj m) calls hi.1
        cases lg
        · simp [Item.events, Item.cbs, this]
        · show List.filterMap Event.cb? (Event.log (LogRec.method sid m) :: slotsEvents sid m (slotOrder inj m) calls)
              ++ _ = _
          rw [List.filterMap_cons]
          simp [Item.cbs, this, Event.cb?]
      | headless sid m => simp [Item.events, Item.cbs, Event.cb?]

/-- Without verbose logging there are no bare method records. -/
theorem no_headless (lg : Bool) (items : List (Item U)) (h : ∀ i ∈ items, i.ok lg false) :
    ∀ i ∈ items, ∀ s m, i ≠ .headless s m := by
  intro i hi s m he
  subst he
  have := (h _ hi).2
  simp at this

/-- Without a logger the trace consists of callbacks only. -/
theorem no_logs (vb : Bool) : (items : List (Item U)) → (∀ i ∈ items, i.ok false vb) →
    ∀ e ∈ itemsEvents false items, ∃ x, e.cb? = some x := by
  intro items h e he
  simp only [itemsEvents, List.mem_flatMap] at he
  obtain ⟨i, hi, hei⟩ := he
  have hok := h i hi
  cases i with
  | loose r => exact absurd hok.1 (by simp)
  | headless s m => exact absurd hok.1 (by simp)
  | group sid m inj calls =>
    simp only [Item.events, Bool.false_eq_true, if_false, List.nil_append] at hei
    have hnl : ∀ c ∈ calls, c.logs = [] := by
      intro c hc
      cases hl : c.logs with
      | nil => rfl
      | cons r _ => exact absurd (hok.2 c hc r (by simp [hl])).1 (by simp)
    clear hok hi h
    generalize slotOrder inj m = slots at hei
    induction slots generalizing calls with
    | nil => cases calls <;> simp [slotsEvents] at hei
    | cons s ss ih =>
      cases calls with
      | nil => simp [slotsEvents] at hei
      | cons c cs =>
        simp only [slotsEvents, Call.events, hnl c (List.mem_cons_self ..), List.map_nil, List.nil_append,
          List.mem_append, List.mem_singleton] at hei
        rcases hei with hei | hei
        · subst hei; exact ⟨_, rfl⟩
        · exact ih cs (fun c' hc' => hnl c' (List.mem_cons_of_mem _ hc')) hei

end Hfsm
