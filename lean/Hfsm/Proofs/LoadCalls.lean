/-
Who is in the call lists of `load`: the commit pass over the loaded marks delivers `exit` to every
(visible) state that is active in the destination and not in the source, `enter` to every state
active in the source and not in the destination, and every call it makes is an `exit` of a state
that was active, an `enter` of a state that is active afterwards, or a `reenter` of a state active
before and after.

`activeVis v n` lists the ids of the states of the active configuration below `n` (assuming `n` itself
is active; a composite region without an active prong contributes nothing) whose methods are visible to
the logger (`v headed`); `activeIds` lists all of them.
-/
import Hfsm.Proofs.LifeLog
import Hfsm.Proofs.SerialLoad

namespace Hfsm

def idIf (b : Bool) (id : Nat) : List Nat := if b then [id] else []

mutual
def Node.activeVis (v : Bool → Bool) : Node → List Nat
  | .leaf id _ => idIf (v true) id
  | .compo id _ _ h _ a _ _ _ s =>
    match a with
    | some ai => idIf (v h) id ++ s.activeVisAt v ai
    | none => []
  | .ortho id _ _ h s => idIf (v h) id ++ s.activeVisAll v
def Subs.activeVisAt (v : Bool → Bool) : Subs → Nat → List Nat
  | .nil, _ => []
  | .cons _ n _, 0 => n.activeVis v
  | .cons _ _ r, i+1 => r.activeVisAt v i
def Subs.activeVisAll (v : Bool → Bool) : Subs → List Nat
  | .nil => []
  | .cons _ n r => n.activeVis v ++ r.activeVisAll v
end

/-- ids of all states of the active configuration below (and including) an active node -/
def Node.activeIds (n : Node) : List Nat := n.activeVis (fun _ => true)
def Subs.activeIdsAt (s : Subs) (i : Nat) : List Nat := s.activeVisAt (fun _ => true) i
def Subs.activeIdsAll (s : Subs) : List Nat := s.activeVisAll (fun _ => true)

theorem mem_idIf {b : Bool} {id x : Nat} : x ∈ idIf b id ↔ b = true ∧ x = id := by
  cases b <;> simp [idIf]

theorem mem_callIf {b : Bool} {c d : LifeCall} : c ∈ callIf b d ↔ b = true ∧ c = d := by
  cases b <;> simp [callIf]

/-! ### `exit` calls = the visible active states -/

mutual
theorem Node.mem_exitCalls (v : Bool → Bool) : (n : Node) → (c : LifeCall) →
    (c ∈ n.exitCalls v ↔ c.2 = .exit ∧ c.1 ∈ n.activeVis v)
  | .leaf id _, c => by
    simp only [Node.exitCalls, Node.activeVis, mem_callIf, mem_idIf]
    constructor
    · rintro ⟨h, rfl⟩; exact ⟨rfl, h, rfl⟩
    · rintro ⟨h1, h, h2⟩; exact ⟨h, Prod.ext h2 h1⟩
  | .compo id _ _ h _ a _ _ _ s, c => by
    cases a with
    | none => simp [Node.exitCalls, Node.activeVis]
    | some ai =>
      simp only [Node.exitCalls, Node.activeVis, List.mem_append, mem_callIf, mem_idIf,
        Subs.mem_exitCallsAt v s ai c]
      constructor
      · rintro (⟨h1, h2⟩ | ⟨h, rfl⟩)
        · exact ⟨h1, Or.inr h2⟩
        · exact ⟨rfl, Or.inl ⟨h, rfl⟩⟩
      · rintro ⟨h1, ⟨h, h2⟩ | h2⟩
        · exact Or.inr ⟨h, Prod.ext h2 h1⟩
        · exact Or.inl ⟨h1, h2⟩
  | .ortho id _ _ h s, c => by
    simp only [Node.exitCalls, Node.activeVis, List.mem_append, mem_callIf, mem_idIf,
      Subs.mem_exitCallsAll v s c]
    constructor
    · rintro (⟨h1, h2⟩ | ⟨h, rfl⟩)
      · exact ⟨h1, Or.inr h2⟩
      · exact ⟨rfl, Or.inl ⟨h, rfl⟩⟩
    · rintro ⟨h1, ⟨h, h2⟩ | h2⟩
      · exact Or.inr ⟨h, Prod.ext h2 h1⟩
      · exact Or.inl ⟨h1, h2⟩
theorem Subs.mem_exitCallsAt (v : Bool → Bool) : (s : Subs) → (i : Nat) → (c : LifeCall) →
    (c ∈ s.exitCallsAt v i ↔ c.2 = .exit ∧ c.1 ∈ s.activeVisAt v i)
  | .nil, _, c => by simp [Subs.exitCallsAt, Subs.activeVisAt]
  | .cons _ n _, 0, c => by
    simp only [Subs.exitCallsAt, Subs.activeVisAt]; exact Node.mem_exitCalls v n c
  | .cons _ _ r, i+1, c => by
    simp only [Subs.exitCallsAt, Subs.activeVisAt]; exact Subs.mem_exitCallsAt v r i c
theorem Subs.mem_exitCallsAll (v : Bool → Bool) : (s : Subs) → (c : LifeCall) →
    (c ∈ s.exitCallsAll v ↔ c.2 = .exit ∧ c.1 ∈ s.activeVisAll v)
  | .nil, c => by simp [Subs.exitCallsAll, Subs.activeVisAll]
  | .cons _ n r, c => by
    simp only [Subs.exitCallsAll, Subs.activeVisAll, List.mem_append, Node.mem_exitCalls v n c,
      Subs.mem_exitCallsAll v r c]
    constructor
    · rintro (⟨h1, h2⟩ | ⟨h1, h2⟩)
      · exact ⟨h1, Or.inl h2⟩
      · exact ⟨h1, Or.inr h2⟩
    · rintro ⟨h1, h2 | h2⟩
      · exact Or.inl ⟨h1, h2⟩
      · exact Or.inr ⟨h1, h2⟩
end

/-! ### the active configuration does not depend on request / resumable marks -/

mutual
theorem Node.activeVis_withResumableOf (v : Bool → Bool) : (d s : Node) →
    (d.withResumableOf s).activeVis v = d.activeVis v
  | .leaf .., _ => rfl
  | .compo _ _ _ _ _ a _ _ _ ds, .compo _ _ _ _ _ _ _ _ _ ss => by
    cases a with
    | none => simp only [Node.withResumableOf, Node.activeVis]
    | some ai =>
      simp only [Node.withResumableOf, Node.activeVis]
      rw [Subs.activeVisAt_withResumableOf v ds ss ai]
  | .compo .., .leaf .. => rfl
  | .compo .., .ortho .. => rfl
  | .ortho _ _ _ _ ds, .ortho _ _ _ _ ss => by
    simp only [Node.withResumableOf, Node.activeVis]
    rw [Subs.activeVisAll_withResumableOf v ds ss]
  | .ortho .., .leaf .. => rfl
  | .ortho .., .compo .. => rfl
theorem Subs.activeVisAt_withResumableOf (v : Bool → Bool) : (d s : Subs) → (i : Nat) →
    (d.withResumableOf s).activeVisAt v i = d.activeVisAt v i
  | .nil, _, _ => rfl
  | .cons _ _ _, .nil, _ => rfl
  | .cons _ n r, .cons _ n' r', 0 => by
    simp only [Subs.withResumableOf, Subs.activeVisAt]; exact Node.activeVis_withResumableOf v n n'
  | .cons _ n r, .cons _ n' r', i+1 => by
    simp only [Subs.withResumableOf, Subs.activeVisAt]; exact Subs.activeVisAt_withResumableOf v r r' i
theorem Subs.activeVisAll_withResumableOf (v : Bool → Bool) : (d s : Subs) →
    (d.withResumableOf s).activeVisAll v = d.activeVisAll v
  | .nil, _ => rfl
  | .cons _ _ _, .nil => rfl
  | .cons _ n r, .cons _ n' r' => by
    simp only [Subs.withResumableOf, Subs.activeVisAll]
    rw [Node.activeVis_withResumableOf v n n', Subs.activeVisAll_withResumableOf v r r']
end

mutual
theorem Node.activeVis_mergeReq (v : Bool → Bool) : (d s : Node) → (d.mergeReq s).activeVis v = d.activeVis v
  | .leaf .., _ => rfl
  | .compo _ _ _ _ _ a _ _ _ ds, .compo _ _ _ _ _ a' _ _ _ ss => by
    cases a with
    | none => simp only [Node.mergeReq, Node.activeVis]
    | some ai =>
      simp only [Node.mergeReq, Node.activeVis]
      rw [Subs.activeVisAt_mergeReqAt v ds ss (a'.getD 0) ai]
  | .compo .., .leaf .. => rfl
  | .compo .., .ortho .. => rfl
  | .ortho _ _ _ _ ds, .ortho _ _ _ _ ss => by
    simp only [Node.mergeReq, Node.activeVis]
    rw [Subs.activeVisAll_mergeReqAll v ds ss]
  | .ortho .., .leaf .. => rfl
  | .ortho .., .compo .. => rfl
theorem Subs.activeVisAt_mergeReqAt (v : Bool → Bool) : (d s : Subs) → (si ai : Nat) →
    (d.mergeReqAt s si).activeVisAt v ai = d.activeVisAt v ai
  | .nil, _, _, _ => rfl
  | .cons _ _ _, .nil, _, _ => rfl
  | .cons _ n r, .cons _ n' r', 0, 0 => by
    simp only [Subs.mergeReqAt, Subs.activeVisAt]; exact Node.activeVis_mergeReq v n n'
  | .cons _ n r, .cons _ n' r', 0, ai+1 => by
    simp only [Subs.mergeReqAt, Subs.activeVisAt]; exact Subs.activeVisAt_withResumableOf v r r' ai
  | .cons _ n r, .cons _ n' r', si+1, 0 => by
    simp only [Subs.mergeReqAt, Subs.activeVisAt]; exact Node.activeVis_withResumableOf v n n'
  | .cons _ n r, .cons _ n' r', si+1, ai+1 => by
    simp only [Subs.mergeReqAt, Subs.activeVisAt]; exact Subs.activeVisAt_mergeReqAt v r r' si ai
theorem Subs.activeVisAll_mergeReqAll (v : Bool → Bool) : (d s : Subs) →
    (d.mergeReqAll s).activeVisAll v = d.activeVisAll v
  | .nil, _ => rfl
  | .cons _ _ _, .nil => rfl
  | .cons _ n r, .cons _ n' r' => by
    simp only [Subs.mergeReqAll, Subs.activeVisAll]
    rw [Node.activeVis_mergeReq v n n', Subs.activeVisAll_mergeReqAll v r r']
end

mutual
theorem Node.activeVis_loadBase (v : Bool → Bool) : (n : Node) → n.loadBase.activeVis v = n.activeVis v
  | .leaf .. => rfl
  | .compo _ _ _ _ _ a _ _ _ s => by
    have ih := fun i => Subs.activeVisAt_loadBase v s i
    cases a with
    | none => simp only [Node.loadBase, Node.clearMarks, Node.noResumable, Node.activeVis]
    | some ai =>
      simp only [Node.loadBase, Node.clearMarks, Node.noResumable, Node.activeVis]
      rw [ih ai]
  | .ortho _ _ _ _ s => by
    simp only [Node.loadBase, Node.clearMarks, Node.noResumable, Node.activeVis]
    rw [Subs.activeVisAll_loadBase v s]
theorem Subs.activeVisAt_loadBase (v : Bool → Bool) : (s : Subs) → (i : Nat) →
    s.clearMarks.noResumable.activeVisAt v i = s.activeVisAt v i
  | .nil, _ => rfl
  | .cons _ n r, 0 => by
    simp only [Subs.clearMarks, Subs.noResumable, Subs.activeVisAt]; exact Node.activeVis_loadBase v n
  | .cons _ n r, i+1 => by
    simp only [Subs.clearMarks, Subs.noResumable, Subs.activeVisAt]; exact Subs.activeVisAt_loadBase v r i
theorem Subs.activeVisAll_loadBase (v : Bool → Bool) : (s : Subs) →
    s.clearMarks.noResumable.activeVisAll v = s.activeVisAll v
  | .nil => rfl
  | .cons _ n r => by
    have h1 := Node.activeVis_loadBase v n
    simp only [Node.loadBase] at h1
    simp only [Subs.clearMarks, Subs.noResumable, Subs.activeVisAll]
    rw [h1, Subs.activeVisAll_loadBase v r]
end

/-! ### `deepEnter` follows the request marks only: exits before it do not matter -/

mutual
theorem Node.enterCalls_exitT (v : Bool → Bool) : (n : Node) → n.exitT.enterCalls v = n.enterCalls v
  | .leaf .. => rfl
  | .compo _ _ _ _ _ a _ q _ s => by
    cases a with
    | none => rfl
    | some ai =>
      cases q with
      | none => rfl
      | some qi =>
        simp only [Node.exitT, Node.enterCalls]
        rw [Subs.enterCallsAt_exitAtT v s ai qi]
  | .ortho _ _ _ _ s => by
    simp only [Node.exitT, Node.enterCalls]
    rw [Subs.enterCallsAll_exitAllT v s]
theorem Subs.enterCallsAt_exitAtT (v : Bool → Bool) : (s : Subs) → (ai qi : Nat) →
    (s.exitAtT ai).enterCallsAt v qi = s.enterCallsAt v qi
  | .nil, _, _ => rfl
  | .cons _ n r, 0, 0 => by simp only [Subs.exitAtT, Subs.enterCallsAt]; exact Node.enterCalls_exitT v n
  | .cons _ n r, 0, qi+1 => rfl
  | .cons _ n r, ai+1, 0 => rfl
  | .cons _ n r, ai+1, qi+1 => by
    simp only [Subs.exitAtT, Subs.enterCallsAt]; exact Subs.enterCallsAt_exitAtT v r ai qi
theorem Subs.enterCallsAll_exitAllT (v : Bool → Bool) : (s : Subs) → s.exitAllT.enterCallsAll v = s.enterCallsAll v
  | .nil => rfl
  | .cons _ n r => by
    simp only [Subs.exitAllT, Subs.enterCallsAll]
    rw [Node.enterCalls_exitT v n, Subs.enterCallsAll_exitAllT v r]
end

/-! ### `enter` calls along the loaded marks = the visible states of the saved configuration -/

mutual
theorem Node.mem_enterCalls_mergeReq (v : Bool → Bool) : (d s : Node) → d.sameShape s → s.Act → (c : LifeCall) →
    (c ∈ (d.mergeReq s).enterCalls v ↔ c.2 = .enter ∧ c.1 ∈ s.activeVis v)
  | .leaf .., .leaf .., h, _, c => by
    simp only [Node.sameShape, Node.cleared, Node.leaf.injEq] at h
    obtain ⟨rfl, rfl⟩ := h
    simp only [Node.mergeReq, Node.enterCalls, Node.activeVis, mem_callIf, mem_idIf]
    constructor
    · rintro ⟨h, rfl⟩; exact ⟨rfl, h, rfl⟩
    · rintro ⟨h1, h, h2⟩; exact ⟨h, Prod.ext h2 h1⟩
  | .leaf .., .compo .., h, _, _ => by simp [Node.sameShape, Node.cleared] at h
  | .leaf .., .ortho .., h, _, _ => by simp [Node.sameShape, Node.cleared] at h
  | .compo .., .leaf .., h, _, _ => by simp [Node.sameShape, Node.cleared] at h
  | .compo .., .ortho .., h, _, _ => by simp [Node.sameShape, Node.cleared] at h
  | .ortho .., .leaf .., h, _, _ => by simp [Node.sameShape, Node.cleared] at h
  | .ortho .., .compo .., h, _, _ => by simp [Node.sameShape, Node.cleared] at h
  | .compo _ _ _ _ _ _ _ _ _ ds, .compo _ _ _ _ _ a' _ _ _ ss, h, ha, c => by
    obtain ⟨rfl, rfl, rfl, rfl, rfl, hss⟩ := Node.sameShape_compo h
    cases a' with
    | none => simp [Node.Act] at ha
    | some si =>
      simp only [Node.Act] at ha
      simp only [Node.mergeReq, Node.enterCalls, Node.activeVis, Option.getD_some, List.mem_append, mem_callIf,
        mem_idIf, Subs.mem_enterCallsAt_mergeReqAt v ds ss si hss ha c]
      constructor
      · rintro (⟨h, rfl⟩ | ⟨h1, h2⟩)
        · exact ⟨rfl, Or.inl ⟨h, rfl⟩⟩
        · exact ⟨h1, Or.inr h2⟩
      · rintro ⟨h1, ⟨h, h2⟩ | h2⟩
        · exact Or.inl ⟨h, Prod.ext h2 h1⟩
        · exact Or.inr ⟨h1, h2⟩
  | .ortho _ _ _ _ ds, .ortho _ _ _ _ ss, h, ha, c => by
    obtain ⟨rfl, rfl, rfl, rfl, hss⟩ := Node.sameShape_ortho h
    simp only [Node.Act] at ha
    simp only [Node.mergeReq, Node.enterCalls, Node.activeVis, List.mem_append, mem_callIf,
      mem_idIf, Subs.mem_enterCallsAll_mergeReqAll v ds ss hss ha c]
    constructor
    · rintro (⟨h, rfl⟩ | ⟨h1, h2⟩)
      · exact ⟨rfl, Or.inl ⟨h, rfl⟩⟩
      · exact ⟨h1, Or.inr h2⟩
    · rintro ⟨h1, ⟨h, h2⟩ | h2⟩
      · exact Or.inl ⟨h, Prod.ext h2 h1⟩
      · exact Or.inr ⟨h1, h2⟩
theorem Subs.mem_enterCallsAt_mergeReqAt (v : Bool → Bool) : (d s : Subs) → (i : Nat) → d.sameShape s →
    s.ActAt i → (c : LifeCall) →
    (c ∈ (d.mergeReqAt s i).enterCallsAt v i ↔ c.2 = .enter ∧ c.1 ∈ s.activeVisAt v i)
  | .nil, .nil, _, _, ha, _ => by simp [Subs.ActAt] at ha
  | .nil, .cons .., _, h, _, _ => by simp [Subs.sameShape, Subs.cleared] at h
  | .cons .., .nil, _, h, _, _ => by simp [Subs.sameShape, Subs.cleared] at h
  | .cons _ n r, .cons _ n' r', 0, h, ha, c => by
    obtain ⟨hn, _⟩ := Subs.sameShape_cons h
    simp only [Subs.ActAt] at ha
    simp only [Subs.mergeReqAt, Subs.enterCallsAt, Subs.activeVisAt]
    exact Node.mem_enterCalls_mergeReq v n n' hn ha.1 c
  | .cons _ n r, .cons _ n' r', i+1, h, ha, c => by
    obtain ⟨_, hrr⟩ := Subs.sameShape_cons h
    simp only [Subs.ActAt] at ha
    simp only [Subs.mergeReqAt, Subs.enterCallsAt, Subs.activeVisAt]
    exact Subs.mem_enterCallsAt_mergeReqAt v r r' i hrr ha.2 c
theorem Subs.mem_enterCallsAll_mergeReqAll (v : Bool → Bool) : (d s : Subs) → d.sameShape s → s.ActAll →
    (c : LifeCall) → (c ∈ (d.mergeReqAll s).enterCallsAll v ↔ c.2 = .enter ∧ c.1 ∈ s.activeVisAll v)
  | .nil, .nil, _, _, c => by simp [Subs.mergeReqAll, Subs.enterCallsAll, Subs.activeVisAll]
  | .nil, .cons .., h, _, _ => by simp [Subs.sameShape, Subs.cleared] at h
  | .cons .., .nil, h, _, _ => by simp [Subs.sameShape, Subs.cleared] at h
  | .cons _ n r, .cons _ n' r', h, ha, c => by
    obtain ⟨hn, hrr⟩ := Subs.sameShape_cons h
    simp only [Subs.ActAll] at ha
    simp only [Subs.mergeReqAll, Subs.enterCallsAll, Subs.activeVisAll, List.mem_append,
      Node.mem_enterCalls_mergeReq v n n' hn ha.1 c, Subs.mem_enterCallsAll_mergeReqAll v r r' hrr ha.2 c]
    constructor
    · rintro (⟨h1, h2⟩ | ⟨h1, h2⟩)
      · exact ⟨h1, Or.inl h2⟩
      · exact ⟨h1, Or.inr h2⟩
    · rintro ⟨h1, h2 | h2⟩
      · exact Or.inl ⟨h1, h2⟩
      · exact Or.inr ⟨h1, h2⟩
end

/-! ### the specification of a call list between two configurations

`vd / ad`: visible / all states active before (destination), `vs / az`: visible / all states active
afterwards (source). -/

structure CallsSpec (cs : List LifeCall) (vd ad vs az : List Nat) : Prop where
  /-- every call is an exit of a state active before, an enter of a state active afterwards, or a
  reenter of a state active before and afterwards -/
  sound : ∀ c ∈ cs, (c.2 = .exit ∧ c.1 ∈ vd) ∨ (c.2 = .enter ∧ c.1 ∈ vs) ∨ (c.2 = .reenter ∧ c.1 ∈ vd ∧ c.1 ∈ vs)
  /-- every (visible) state that stops being active is exited -/
  exits : ∀ x ∈ vd, x ∉ az → (x, Method.exit) ∈ cs
  /-- every (visible) state that becomes active is entered -/
  enters : ∀ x ∈ vs, x ∉ ad → (x, Method.enter) ∈ cs

theorem CallsSpec.nil : CallsSpec [] [] [] [] [] := by
  refine ⟨?_, ?_, ?_⟩
  · intro c h; cases h
  · intro x h; cases h
  · intro x h; cases h

/-- exit everything below the old prong, enter everything below the new one -/
theorem CallsSpec.switch {ex en : List LifeCall} {vd vs : List Nat} (ad az : List Nat)
    (hex : ∀ c, c ∈ ex ↔ c.2 = .exit ∧ c.1 ∈ vd) (hen : ∀ c, c ∈ en ↔ c.2 = .enter ∧ c.1 ∈ vs) :
    CallsSpec (ex ++ en) vd ad vs az := by
  refine ⟨?_, ?_, ?_⟩
  · intro c hc
    rcases List.mem_append.mp hc with h | h
    · exact Or.inl ((hex c).mp h)
    · exact Or.inr (Or.inl ((hen c).mp h))
  · intro x hx _
    exact List.mem_append.mpr (Or.inl ((hex (x, .exit)).mpr ⟨rfl, hx⟩))
  · intro x hx _
    exact List.mem_append.mpr (Or.inr ((hen (x, .enter)).mpr ⟨rfl, hx⟩))

/-- a region head (active before and afterwards) on top of the calls of its sub-states; `pre` is its
own `reenter` (or nothing, for the heads the commit pass walks through) -/
theorem CallsSpec.head {cs : List LifeCall} {vd ad vs az : List Nat} (b : Bool) (id : Nat) (pre : List LifeCall)
    (hpre : ∀ c ∈ pre, c = (id, Method.reenter) ∧ b = true) (h : CallsSpec cs vd ad vs az) :
    CallsSpec (pre ++ cs) (idIf b id ++ vd) (idIf true id ++ ad) (idIf b id ++ vs) (idIf true id ++ az) := by
  refine ⟨?_, ?_, ?_⟩
  · intro c hc
    rcases List.mem_append.mp hc with hp | hc
    · obtain ⟨rfl, hb⟩ := hpre c hp
      refine Or.inr (Or.inr ⟨rfl, ?_, ?_⟩) <;>
        exact List.mem_append.mpr (Or.inl (mem_idIf.mpr ⟨hb, rfl⟩))
    · rcases h.sound c hc with ⟨h1, h2⟩ | ⟨h1, h2⟩ | ⟨h1, h2, h3⟩
      · exact Or.inl ⟨h1, List.mem_append.mpr (Or.inr h2)⟩
      · exact Or.inr (Or.inl ⟨h1, List.mem_append.mpr (Or.inr h2)⟩)
      · exact Or.inr (Or.inr ⟨h1, List.mem_append.mpr (Or.inr h2), List.mem_append.mpr (Or.inr h3)⟩)
  · intro x hx hnx
    have hne : x ≠ id := fun e => hnx (List.mem_append.mpr (Or.inl (mem_idIf.mpr ⟨rfl, e⟩)))
    have hnz : x ∉ az := fun e => hnx (List.mem_append.mpr (Or.inr e))
    rcases List.mem_append.mp hx with h1 | h1
    · exact absurd (mem_idIf.mp h1).2 hne
    · exact List.mem_append.mpr (Or.inr (h.exits x h1 hnz))
  · intro x hx hnx
    have hne : x ≠ id := fun e => hnx (List.mem_append.mpr (Or.inl (mem_idIf.mpr ⟨rfl, e⟩)))
    have hnz : x ∉ ad := fun e => hnx (List.mem_append.mpr (Or.inr e))
    rcases List.mem_append.mp hx with h1 | h1
    · exact absurd (mem_idIf.mp h1).2 hne
    · exact List.mem_append.mpr (Or.inr (h.enters x h1 hnz))

/-- orthogonal siblings -/
theorem CallsSpec.union {c1 c2 : List LifeCall} {v1 a1 w1 z1 v2 a2 w2 z2 : List Nat}
    (h1 : CallsSpec c1 v1 a1 w1 z1) (h2 : CallsSpec c2 v2 a2 w2 z2) :
    CallsSpec (c1 ++ c2) (v1 ++ v2) (a1 ++ a2) (w1 ++ w2) (z1 ++ z2) := by
  refine ⟨?_, ?_, ?_⟩
  · intro c hc
    rcases List.mem_append.mp hc with hc | hc
    · rcases h1.sound c hc with ⟨e, h⟩ | ⟨e, h⟩ | ⟨e, h, h'⟩
      · exact Or.inl ⟨e, List.mem_append.mpr (Or.inl h)⟩
      · exact Or.inr (Or.inl ⟨e, List.mem_append.mpr (Or.inl h)⟩)
      · exact Or.inr (Or.inr ⟨e, List.mem_append.mpr (Or.inl h), List.mem_append.mpr (Or.inl h')⟩)
    · rcases h2.sound c hc with ⟨e, h⟩ | ⟨e, h⟩ | ⟨e, h, h'⟩
      · exact Or.inl ⟨e, List.mem_append.mpr (Or.inr h)⟩
      · exact Or.inr (Or.inl ⟨e, List.mem_append.mpr (Or.inr h)⟩)
      · exact Or.inr (Or.inr ⟨e, List.mem_append.mpr (Or.inr h), List.mem_append.mpr (Or.inr h')⟩)
  · intro x hx hnx
    rcases List.mem_append.mp hx with h | h
    · exact List.mem_append.mpr (Or.inl (h1.exits x h (fun e => hnx (List.mem_append.mpr (Or.inl e)))))
    · exact List.mem_append.mpr (Or.inr (h2.exits x h (fun e => hnx (List.mem_append.mpr (Or.inr e)))))
  · intro x hx hnx
    rcases List.mem_append.mp hx with h | h
    · exact List.mem_append.mpr (Or.inl (h1.enters x h (fun e => hnx (List.mem_append.mpr (Or.inl e)))))
    · exact List.mem_append.mpr (Or.inr (h2.enters x h (fun e => hnx (List.mem_append.mpr (Or.inr e)))))

theorem CallsSpec.leaf (b : Bool) (id : Nat) :
    CallsSpec (callIf b (id, Method.reenter)) (idIf b id) (idIf true id) (idIf b id) (idIf true id) := by
  have := CallsSpec.head b id (callIf b (id, Method.reenter))
    (fun c hc => by obtain ⟨hb, rfl⟩ := mem_callIf.mp hc; exact ⟨rfl, hb⟩) CallsSpec.nil
  simpa using this

/-- the switch of one composite region carrying the loaded marks -/
theorem Subs.switch_spec (v : Bool → Bool) (ds ss : Subs) (ai si : Nat) (hss : ds.sameShape ss)
    (hsa : ss.ActAt si) :
    CallsSpec ((ds.mergeReqAt ss si).exitCallsAt v ai ++ ((ds.mergeReqAt ss si).exitAtT ai).enterCallsAt v si)
      (ds.activeVisAt v ai) (ds.activeIdsAt ai) (ss.activeVisAt v si) (ss.activeIdsAt si) := by
  apply CallsSpec.switch
  · intro c
    rw [Subs.mem_exitCallsAt, Subs.activeVisAt_mergeReqAt]
  · intro c
    rw [Subs.enterCallsAt_exitAtT, Subs.mem_enterCallsAt_mergeReqAt v ds ss si hss hsa c]

/-! ### `deepReenter` over the loaded marks -/

mutual
theorem Node.reenter_spec (v : Bool → Bool) : (d s : Node) → d.sameShape s → d.Act → s.Act →
    CallsSpec ((d.mergeReq s).reenterCalls v) (d.activeVis v) d.activeIds (s.activeVis v) s.activeIds
  | .leaf .., .leaf .., h, _, _ => by
    simp only [Node.sameShape, Node.cleared, Node.leaf.injEq] at h
    obtain ⟨rfl, rfl⟩ := h
    exact CallsSpec.leaf (v true) _
  | .leaf .., .compo .., h, _, _ => by simp [Node.sameShape, Node.cleared] at h
  | .leaf .., .ortho .., h, _, _ => by simp [Node.sameShape, Node.cleared] at h
  | .compo .., .leaf .., h, _, _ => by simp [Node.sameShape, Node.cleared] at h
  | .compo .., .ortho .., h, _, _ => by simp [Node.sameShape, Node.cleared] at h
  | .ortho .., .leaf .., h, _, _ => by simp [Node.sameShape, Node.cleared] at h
  | .ortho .., .compo .., h, _, _ => by simp [Node.sameShape, Node.cleared] at h
  | .compo id _ _ hd _ a _ _ _ ds, .compo _ _ _ _ _ a' _ _ _ ss, h, hda, hsa => by
    obtain ⟨rfl, rfl, rfl, rfl, rfl, hss⟩ := Node.sameShape_compo h
    cases a' with
    | none => simp [Node.Act] at hsa
    | some si =>
      cases a with
      | none => simp [Node.Act] at hda
      | some ai =>
        simp only [Node.Act] at hsa hda
        simp only [Node.mergeReq, Node.reenterCalls, Node.activeVis, Node.activeIds, Option.getD_some]
        apply CallsSpec.head (v hd) id
        · intro c hc; obtain ⟨hb, rfl⟩ := mem_callIf.mp hc; exact ⟨rfl, hb⟩
        · by_cases e : ai = si
          · subst e
            simp only [if_true]
            exact Subs.reenterAt_spec v ds ss ai hss hda hsa
          · simp only [e, if_false]
            exact Subs.switch_spec v ds ss ai si hss hsa
  | .ortho id _ _ hd ds, .ortho _ _ _ _ ss, h, hda, hsa => by
    obtain ⟨rfl, rfl, rfl, rfl, hss⟩ := Node.sameShape_ortho h
    simp only [Node.Act] at hsa hda
    simp only [Node.mergeReq, Node.reenterCalls, Node.activeVis, Node.activeIds]
    apply CallsSpec.head (v hd) id
    · intro c hc; obtain ⟨hb, rfl⟩ := mem_callIf.mp hc; exact ⟨rfl, hb⟩
    · exact Subs.reenterAll_spec v ds ss hss hda hsa
theorem Subs.reenterAt_spec (v : Bool → Bool) : (d s : Subs) → (i : Nat) → d.sameShape s → d.ActAt i → s.ActAt i →
    CallsSpec ((d.mergeReqAt s i).reenterCallsAt v i) (d.activeVisAt v i) (d.activeIdsAt i)
      (s.activeVisAt v i) (s.activeIdsAt i)
  | .nil, .nil, _, _, ha, _ => by simp [Subs.ActAt] at ha
  | .nil, .cons .., _, h, _, _ => by simp [Subs.sameShape, Subs.cleared] at h
  | .cons .., .nil, _, h, _, _ => by simp [Subs.sameShape, Subs.cleared] at h
  | .cons _ n r, .cons _ n' r', 0, h, hda, hsa => by
    obtain ⟨hn, _⟩ := Subs.sameShape_cons h
    simp only [Subs.ActAt] at hda hsa
    simp only [Subs.mergeReqAt, Subs.reenterCallsAt, Subs.activeVisAt, Subs.activeIdsAt]
    exact Node.reenter_spec v n n' hn hda.1 hsa.1
  | .cons _ n r, .cons _ n' r', i+1, h, hda, hsa => by
    obtain ⟨_, hrr⟩ := Subs.sameShape_cons h
    simp only [Subs.ActAt] at hda hsa
    simp only [Subs.mergeReqAt, Subs.reenterCallsAt, Subs.activeVisAt, Subs.activeIdsAt]
    exact Subs.reenterAt_spec v r r' i hrr hda.2 hsa.2
theorem Subs.reenterAll_spec (v : Bool → Bool) : (d s : Subs) → d.sameShape s → d.ActAll → s.ActAll →
    CallsSpec ((d.mergeReqAll s).reenterCallsAll v) (d.activeVisAll v) d.activeIdsAll
      (s.activeVisAll v) s.activeIdsAll
  | .nil, .nil, _, _, _ => CallsSpec.nil
  | .nil, .cons .., h, _, _ => by simp [Subs.sameShape, Subs.cleared] at h
  | .cons .., .nil, h, _, _ => by simp [Subs.sameShape, Subs.cleared] at h
  | .cons _ n r, .cons _ n' r', h, hda, hsa => by
    obtain ⟨hn, hrr⟩ := Subs.sameShape_cons h
    simp only [Subs.ActAll] at hda hsa
    simp only [Subs.mergeReqAll, Subs.reenterCallsAll, Subs.activeVisAll, Subs.activeIdsAll]
    exact (Node.reenter_spec v n n' hn hda.1 hsa.1).union (Subs.reenterAll_spec v r r' hrr hda.2 hsa.2)
end

/-! ### `deepChangeToRequested` over the loaded marks -/

mutual
theorem Node.commit_spec (v : Bool → Bool) : (d s : Node) → d.sameShape s → d.Act → d.NoMarks → s.Act →
    CallsSpec ((d.mergeReq s).commitCalls v) (d.activeVis v) d.activeIds (s.activeVis v) s.activeIds
  | .leaf id _, .leaf _ _, h, _, _, _ => by
    simp only [Node.sameShape, Node.cleared, Node.leaf.injEq] at h
    obtain ⟨rfl, rfl⟩ := h
    have := CallsSpec.head (v true) id [] (fun c hc => nomatch hc) CallsSpec.nil
    simpa [Node.mergeReq, Node.commitCalls, Node.activeVis, Node.activeIds] using this
  | .leaf .., .compo .., h, _, _, _ => by simp [Node.sameShape, Node.cleared] at h
  | .leaf .., .ortho .., h, _, _, _ => by simp [Node.sameShape, Node.cleared] at h
  | .compo .., .leaf .., h, _, _, _ => by simp [Node.sameShape, Node.cleared] at h
  | .compo .., .ortho .., h, _, _, _ => by simp [Node.sameShape, Node.cleared] at h
  | .ortho .., .leaf .., h, _, _, _ => by simp [Node.sameShape, Node.cleared] at h
  | .ortho .., .compo .., h, _, _, _ => by simp [Node.sameShape, Node.cleared] at h
  | .compo id _ _ hd _ a _ _ m ds, .compo _ _ _ _ _ a' _ _ _ ss, h, hda, hdm, hsa => by
    obtain ⟨rfl, rfl, rfl, rfl, rfl, hss⟩ := Node.sameShape_compo h
    simp only [Node.NoMarks] at hdm
    obtain ⟨_, rfl, _⟩ := hdm
    cases a' with
    | none => simp [Node.Act] at hsa
    | some si =>
      cases a with
      | none => simp [Node.Act] at hda
      | some ai =>
        simp only [Node.Act] at hsa hda
        simp only [Node.mergeReq, Node.commitCalls, Node.activeVis, Node.activeIds, Option.getD_some]
        have key : CallsSpec
            (if si ≠ ai then (ds.mergeReqAt ss si).exitCallsAt v ai ++ ((ds.mergeReqAt ss si).exitAtT ai).enterCallsAt v si
             else if false = true then (ds.mergeReqAt ss si).exitCallsAt v ai ++ ((ds.mergeReqAt ss si).exitAtT ai).enterCallsAt v ai
             else (ds.mergeReqAt ss si).reenterCallsAt v ai)
            (ds.activeVisAt v ai) (ds.activeIdsAt ai) (ss.activeVisAt v si) (ss.activeIdsAt si) := by
          by_cases e : si = ai
          · subst e
            simp only [ne_eq, not_true_eq_false, if_false, Bool.false_eq_true]
            exact Subs.reenterAt_spec v ds ss si hss hda hsa
          · simp only [ne_eq, e, not_false_eq_true, if_true]
            exact Subs.switch_spec v ds ss ai si hss hsa
        exact CallsSpec.head (v hd) id [] (fun c hc => nomatch hc) key
  | .ortho id _ _ hd ds, .ortho _ _ _ _ ss, h, hda, hdm, hsa => by
    obtain ⟨rfl, rfl, rfl, rfl, hss⟩ := Node.sameShape_ortho h
    simp only [Node.Act] at hsa hda
    simp only [Node.NoMarks] at hdm
    simp only [Node.mergeReq, Node.commitCalls, Node.activeVis, Node.activeIds]
    exact CallsSpec.head (v hd) id [] (fun c hc => nomatch hc) (Subs.commitAll_spec v ds ss hss hda hdm hsa)
theorem Subs.commitAll_spec (v : Bool → Bool) : (d s : Subs) → d.sameShape s → d.ActAll → d.NoMarksAll → s.ActAll →
    CallsSpec ((d.mergeReqAll s).commitCallsAll v) (d.activeVisAll v) d.activeIdsAll
      (s.activeVisAll v) s.activeIdsAll
  | .nil, .nil, _, _, _, _ => CallsSpec.nil
  | .nil, .cons .., h, _, _, _ => by simp [Subs.sameShape, Subs.cleared] at h
  | .cons .., .nil, h, _, _, _ => by simp [Subs.sameShape, Subs.cleared] at h
  | .cons _ n r, .cons _ n' r', h, hda, hdm, hsa => by
    obtain ⟨hn, hrr⟩ := Subs.sameShape_cons h
    simp only [Subs.ActAll] at hda hsa
    simp only [Subs.NoMarksAll] at hdm
    simp only [Subs.mergeReqAll, Subs.commitCallsAll, Subs.activeVisAll, Subs.activeIdsAll]
    exact (Node.commit_spec v n n' hn hda.1 hdm.2.1 hsa.1).union
      (Subs.commitAll_spec v r r' hrr hda.2 hdm.2.2 hsa.2)
end

end Hfsm
