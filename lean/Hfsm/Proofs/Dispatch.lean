/-
The periodic passes (`Node.tick`, `Node.react`, `Node.query` of Model/Dispatch.lean) against a
specification that does not mention the traversals:

  * `Node.activeList headFirst n` — the states of the active sub-tree of `n`, head before
    (`headFirst = true`, pre-order) or after (post-order) the sub-states; a composite region
    contributes its active sub-state only, an orthogonal region all of them in declaration order;
  * `DKey.all`, `DKey.untilConsumed` — deliver a method to a list of states one after the other,
    unconditionally / checking the consume flag before every state.

Used by Props/C05.lean.
-/
import Hfsm.Proofs.Trace

namespace Hfsm
variable {U : Type}

/-! ### the active sub-tree as a list -/

mutual
def Node.activeList (hf : Bool) : Node → List St
  | .leaf id inj => [(id, inj, true)]
  | .compo id _ inj h _ a _ _ _ s =>
    match a with
    | some i => if hf then (id, inj, h) :: s.activeListAt hf i else s.activeListAt hf i ++ [(id, inj, h)]
    | none => []
  | .ortho id _ inj h s =>
    if hf then (id, inj, h) :: s.activeListAll hf else s.activeListAll hf ++ [(id, inj, h)]
def Subs.activeListAt (hf : Bool) : Subs → Nat → List St
  | .nil, _ => []
  | .cons _ n _, 0 => n.activeList hf
  | .cons _ _ r, i+1 => r.activeListAt hf i
def Subs.activeListAll (hf : Bool) : Subs → List St
  | .nil => []
  | .cons _ n r => n.activeList hf ++ r.activeListAll hf
end

/-! ### sequential delivery to a list of states -/

namespace DKey

/-- deliver `m` to every state of the list, in order -/
def all (m : Method) : List St → DKey U → DKey U
  | [], k => k
  | s :: rest, k => all m rest (k.state s m)

/-- deliver `m` to the states of the list in order; the consume flag is tested before every state
(never between the handlers of one state) and stops the delivery -/
def untilConsumed (m : Method) : List St → DKey U → DKey U
  | [], k => k
  | s :: rest, k => if k.consumed then k else untilConsumed m rest (k.state s m)

theorem all_append (m : Method) : (l1 l2 : List St) → (k : DKey U) →
    all m (l1 ++ l2) k = all m l2 (all m l1 k)
  | [], _, _ => rfl
  | s :: l1, l2, k => by simp only [List.cons_append, all]; exact all_append m l1 l2 _

theorem untilConsumed_append (m : Method) : (l1 l2 : List St) → (k : DKey U) →
    untilConsumed m (l1 ++ l2) k = untilConsumed m l2 (untilConsumed m l1 k)
  | [], _, _ => rfl
  | s :: l1, l2, k => by
    simp only [List.cons_append, untilConsumed]
    split
    · rename_i h
      cases l2 with
      | nil => rfl
      | cons s2 l2 => simp [untilConsumed, h]
    · exact untilConsumed_append m l1 l2 _

theorem untilConsumed_of_consumed (m : Method) (l : List St) (k : DKey U) (h : k.consumed = true) :
    untilConsumed m l k = k := by
  cases l with
  | nil => rfl
  | cons s l => simp [untilConsumed, h]

theorem untilConsumed_single (m : Method) (s : St) (k : DKey U) (h : k.consumed = false) :
    untilConsumed m [s] k = k.state s m := by
  simp [untilConsumed, h]

end DKey

/-! ### update passes -/

mutual
theorem Node.tick_key (ph : Method) : (n : Node) → (w : World U) → n.Act →
    (n.tick ph w).1.key = DKey.all ph (n.activeList (ph != .postUpdate)) w.key
  | .leaf id inj, w, _ => by
    simp [Node.tick, Node.activeList, DKey.all]
  | .compo id rid inj h st a r q m s, w, hA => by
    cases a with
    | none => simp [Node.Act] at hA
    | some ai =>
      simp only [Node.Act] at hA
      by_cases hp : ph = .postUpdate
      · subst hp
        simp only [Node.tick, if_true]
        simp only [World.key_popRegion, World.key_orHead, World.key_runState, World.key_orSub]
        rw [Subs.tickAt_key .postUpdate s ai _ hA]
        simp [Node.activeList, DKey.all_append, DKey.all]
      · simp only [Node.tick, hp, if_false]
        simp only [World.key_popRegion, World.key_orSub]
        rw [Subs.tickAt_key ph s ai _ hA]
        simp [Node.activeList, hp, DKey.all]
  | .ortho id rid inj h s, w, hA => by
    simp only [Node.Act] at hA
    by_cases hp : ph = .postUpdate
    · subst hp
      simp only [Node.tick, if_true]
      simp only [World.key_popRegion, World.key_orHead, World.key_runState, World.key_orSub]
      rw [Subs.tickAll_key .postUpdate s _ hA]
      simp [Node.activeList, DKey.all_append, DKey.all]
    · simp only [Node.tick, hp, if_false]
      simp only [World.key_popRegion, World.key_orSub]
      rw [Subs.tickAll_key ph s _ hA]
      simp [Node.activeList, hp, DKey.all]
theorem Subs.tickAt_key (ph : Method) : (s : Subs) → (i : Nat) → (w : World U) → s.ActAt i →
    (s.tickAt ph i w).1.key = DKey.all ph (s.activeListAt (ph != .postUpdate) i) w.key
  | .nil, _, _, hA => by simp [Subs.ActAt] at hA
  | .cons _ n _, 0, w, hA => by
    simp only [Subs.ActAt] at hA
    simp only [Subs.tickAt, Subs.activeListAt]
    exact Node.tick_key ph n w hA.1
  | .cons _ _ r, i+1, w, hA => by
    simp only [Subs.ActAt] at hA
    simp only [Subs.tickAt, Subs.activeListAt]
    exact Subs.tickAt_key ph r i w hA.2
theorem Subs.tickAll_key (ph : Method) : (s : Subs) → (w : World U) → s.ActAll →
    (s.tickAll ph w).1.key = DKey.all ph (s.activeListAll (ph != .postUpdate)) w.key
  | .nil, w, _ => by simp [Subs.tickAll, Subs.activeListAll, DKey.all]
  | .cons _ n r, w, hA => by
    simp only [Subs.ActAll] at hA
    simp only [Subs.tickAll, Subs.activeListAll, DKey.all_append]
    rw [Subs.tickAll_key ph r _ hA.2, Node.tick_key ph n w hA.1]
end

/-! ### react -/

theorem World.consumed_of_key {w : World U} {k : DKey U} (h : w.key = k) : w.consumed = k.consumed := by
  rw [← h]; rfl

mutual
theorem Node.react_key (ph : Method) (hf post : Bool) : (n : Node) → (w : World U) → n.Act → w.consumed = false →
    (n.react ph hf post w).1.key = DKey.untilConsumed ph (n.activeList hf) w.key
  | .leaf id inj, w, _, hc => by
    simp [Node.react, Node.activeList, DKey.untilConsumed, hc]
  | .compo id rid inj h st a r q m s, w, hA, hc => by
    cases a with
    | none => simp [Node.Act] at hA
    | some ai =>
      simp only [Node.Act] at hA
      simp only [Node.react]
      have h0 : (w.pushRegion rid id (1 + s.size)).1.consumed = false := hc
      simp only [h0, Bool.false_eq_true, if_false]
      cases hf with
      | true =>
        simp only [if_true]
        split
        · rename_i hc1
          have hk : (World.key _).consumed = true := hc1
          simp only [World.key_orHead, World.key_runState, World.key_pushRegion] at hk
          simp only [World.key_popRegion, World.key_orHead, World.key_runState, World.key_pushRegion]
          simp [Node.activeList, DKey.untilConsumed, hc, DKey.untilConsumed_of_consumed _ _ _ hk]
        · rename_i hc1
          simp only [Bool.not_eq_true] at hc1
          simp only [World.key_popRegion, World.key_orSub]
          rw [Subs.reactAt_key ph true post s ai _ hA hc1]
          simp [Node.activeList, DKey.untilConsumed, hc]
      | false =>
        simp only [Bool.false_eq_true, if_false]
        have hs := Subs.reactAt_key ph false post s ai (w.pushRegion rid id (1 + s.size)).1 hA h0
        split
        · rename_i hc1
          have hk : (World.key _).consumed = true := hc1
          simp only [World.key_orSub, hs, World.key_pushRegion] at hk
          simp only [World.key_popRegion, World.key_orSub, hs, World.key_pushRegion]
          simp [Node.activeList, DKey.untilConsumed_append, DKey.untilConsumed_of_consumed _ _ _ hk]
        · rename_i hc1
          have hk : ¬ (World.key _).consumed = true := hc1
          simp only [World.key_orSub, hs, World.key_pushRegion, Bool.not_eq_true] at hk
          simp only [World.key_popRegion, World.key_orHead, World.key_runState, World.key_orSub, hs, World.key_pushRegion]
          simp [Node.activeList, DKey.untilConsumed_append, DKey.untilConsumed_single _ _ _ hk]
  | .ortho id rid inj h s, w, hA, hc => by
    simp only [Node.Act] at hA
    simp only [Node.react]
    have h0 : (w.pushRegion rid id (1 + s.size)).1.consumed = false := hc
    simp only [h0, Bool.false_eq_true, if_false]
    cases hf with
    | true =>
      simp only [if_true]
      split
      · rename_i hc1
        have hk : (World.key _).consumed = true := hc1
        simp only [World.key_orHead, World.key_runState, World.key_pushRegion] at hk
        simp only [World.key_popRegion, World.key_orHead, World.key_runState, World.key_pushRegion]
        simp [Node.activeList, DKey.untilConsumed, hc, DKey.untilConsumed_of_consumed _ _ _ hk]
      · rename_i hc1
        simp only [Bool.not_eq_true] at hc1
        simp only [World.key_popRegion, World.key_orSub]
        rw [Subs.reactAll_key ph true post s _ hA hc1]
        simp [Node.activeList, DKey.untilConsumed, hc]
    | false =>
      simp only [Bool.false_eq_true, if_false]
      have hs := Subs.reactAll_key ph false post s (w.pushRegion rid id (1 + s.size)).1 hA h0
      split
      · rename_i hc1
        have hk : (World.key _).consumed = true := hc1
        simp only [World.key_orSub, hs, World.key_pushRegion] at hk
        simp only [World.key_popRegion, World.key_orSub, hs, World.key_pushRegion]
        simp [Node.activeList, DKey.untilConsumed_append, DKey.untilConsumed_of_consumed _ _ _ hk]
      · rename_i hc1
        have hk : ¬ (World.key _).consumed = true := hc1
        simp only [World.key_orSub, hs, World.key_pushRegion, Bool.not_eq_true] at hk
        simp only [World.key_popRegion, World.key_orHead, World.key_runState, World.key_orSub, hs, World.key_pushRegion]
        simp [Node.activeList, DKey.untilConsumed_append, DKey.untilConsumed_single _ _ _ hk]
theorem Subs.reactAt_key (ph : Method) (hf post : Bool) : (s : Subs) → (i : Nat) → (w : World U) → s.ActAt i → w.consumed = false →
    (s.reactAt ph hf post i w).1.key = DKey.untilConsumed ph (s.activeListAt hf i) w.key
  | .nil, _, _, hA, _ => by simp [Subs.ActAt] at hA
  | .cons _ n _, 0, w, hA, hc => by
    simp only [Subs.ActAt] at hA
    simp only [Subs.reactAt, Subs.activeListAt]
    exact Node.react_key ph hf post n w hA.1 hc
  | .cons _ _ r, i+1, w, hA, hc => by
    simp only [Subs.ActAt] at hA
    simp only [Subs.reactAt, Subs.activeListAt]
    exact Subs.reactAt_key ph hf post r i w hA.2 hc
theorem Subs.reactAll_key (ph : Method) (hf post : Bool) : (s : Subs) → (w : World U) → s.ActAll → w.consumed = false →
    (s.reactAll ph hf post w).1.key = DKey.untilConsumed ph (s.activeListAll hf) w.key
  | .nil, w, _, _ => by simp [Subs.reactAll, Subs.activeListAll, DKey.untilConsumed]
  | .cons _ n r, w, hA, hc => by
    simp only [Subs.ActAll] at hA
    simp only [Subs.reactAll, Subs.activeListAll, DKey.untilConsumed_append]
    split
    · rename_i hc1
      have hk := World.consumed_of_key (Node.react_key ph hf post n w hA.1 hc)
      rw [hc1] at hk
      rw [DKey.untilConsumed_of_consumed _ _ _ hk.symm]
      exact Node.react_key ph hf post n w hA.1 hc
    · rename_i hc1
      simp only [Bool.not_eq_true] at hc1
      rw [Subs.reactAll_key ph hf post r _ hA.2 hc1, Node.react_key ph hf post n w hA.1 hc]
end

/-! ### query -/

mutual
theorem Node.query_key (hf : Bool) : (n : Node) → (w : World U) → n.Act → w.consumed = false →
    (n.query hf w).key = DKey.untilConsumed .query (n.activeList hf) w.key
  | .leaf id inj, w, _, hc => by
    simp [Node.query, Node.activeList, DKey.untilConsumed, hc, World.key_stateMethod]
  | .compo id rid inj h st a r q m s, w, hA, hc => by
    cases a with
    | none => simp [Node.Act] at hA
    | some ai =>
      simp only [Node.Act] at hA
      simp only [Node.query]
      cases hf with
      | true =>
        simp only [if_true, hc, Bool.false_eq_true, if_false]
        split
        · rename_i hc1
          have hk : (World.key _).consumed = true := hc1
          simp only [World.key_stateMethod] at hk
          simp [Node.activeList, DKey.untilConsumed, hc, World.key_stateMethod,
            DKey.untilConsumed_of_consumed _ _ _ hk]
        · rename_i hc1
          simp only [Bool.not_eq_true] at hc1
          rw [Subs.queryAt_key true s ai _ hA hc1]
          simp [Node.activeList, DKey.untilConsumed, hc, World.key_stateMethod]
      | false =>
        simp only [hc, Bool.false_eq_true, if_false]
        have hs := Subs.queryAt_key false s ai w hA hc
        split
        · rename_i hc1
          have hk : (World.key _).consumed = true := hc1
          simp only [hs] at hk
          simp [hs, Node.activeList, DKey.untilConsumed_append, DKey.untilConsumed_of_consumed _ _ _ hk]
        · rename_i hc1
          have hk : ¬ (World.key _).consumed = true := hc1
          simp only [hs, Bool.not_eq_true] at hk
          simp [hs, World.key_stateMethod, Node.activeList, DKey.untilConsumed_append,
            DKey.untilConsumed_single _ _ _ hk]
  | .ortho id rid inj h s, w, hA, hc => by
    simp only [Node.Act] at hA
    simp only [Node.query]
    cases hf with
    | true =>
      simp only [if_true, hc, Bool.false_eq_true, if_false]
      split
      · rename_i hc1
        have hk : (World.key _).consumed = true := hc1
        simp only [World.key_stateMethod] at hk
        simp [Node.activeList, DKey.untilConsumed, hc, World.key_stateMethod,
          DKey.untilConsumed_of_consumed _ _ _ hk]
      · rename_i hc1
        simp only [Bool.not_eq_true] at hc1
        rw [Subs.queryAll_key true s _ hA hc1]
        simp [Node.activeList, DKey.untilConsumed, hc, World.key_stateMethod]
    | false =>
      simp only [hc, Bool.false_eq_true, if_false]
      have hs := Subs.queryAll_key false s w hA hc
      split
      · rename_i hc1
        have hk : (World.key _).consumed = true := hc1
        simp only [hs] at hk
        simp [hs, Node.activeList, DKey.untilConsumed_append, DKey.untilConsumed_of_consumed _ _ _ hk]
      · rename_i hc1
        have hk : ¬ (World.key _).consumed = true := hc1
        simp only [hs, Bool.not_eq_true] at hk
        simp [hs, World.key_stateMethod, Node.activeList, DKey.untilConsumed_append,
          DKey.untilConsumed_single _ _ _ hk]
theorem Subs.queryAt_key (hf : Bool) : (s : Subs) → (i : Nat) → (w : World U) → s.ActAt i → w.consumed = false →
    (s.queryAt hf i w).key = DKey.untilConsumed .query (s.activeListAt hf i) w.key
  | .nil, _, _, hA, _ => by simp [Subs.ActAt] at hA
  | .cons _ n _, 0, w, hA, hc => by
    simp only [Subs.ActAt] at hA
    simp only [Subs.queryAt, Subs.activeListAt]
    exact Node.query_key hf n w hA.1 hc
  | .cons _ _ r, i+1, w, hA, hc => by
    simp only [Subs.ActAt] at hA
    simp only [Subs.queryAt, Subs.activeListAt]
    exact Subs.queryAt_key hf r i w hA.2 hc
theorem Subs.queryAll_key (hf : Bool) : (s : Subs) → (w : World U) → s.ActAll → w.consumed = false →
    (s.queryAll hf w).key = DKey.untilConsumed .query (s.activeListAll hf) w.key
  | .nil, w, _, _ => by simp [Subs.queryAll, Subs.activeListAll, DKey.untilConsumed]
  | .cons _ n r, w, hA, hc => by
    simp only [Subs.ActAll] at hA
    simp only [Subs.queryAll, Subs.activeListAll, DKey.untilConsumed_append]
    split
    · rename_i hc1
      have hk : (World.key _).consumed = true := hc1
      rw [Node.query_key hf n w hA.1 hc] at hk
      rw [DKey.untilConsumed_of_consumed _ _ _ hk]
      exact Node.query_key hf n w hA.1 hc
    · rename_i hc1
      simp only [Bool.not_eq_true] at hc1
      rw [Subs.queryAll_key hf r _ hA.2 hc1, Node.query_key hf n w hA.1 hc]
end

/-! ### closed forms: the delivered sequence as a function of the decision stream -/

/-- the callbacks of one state for method `m`, in the order they run -/
def stateItems (m : Method) (s : St) : List CbItem :=
  if s.2.2 then (slotOrder s.2.1 m).map (fun sl => (s.1, m, sl)) else []

/-- the callbacks of a list of states -/
def expand (m : Method) (l : List St) : List CbItem := l.flatMap (stateItems m)

/-- Delivery with consumption, as a function of the decision stream only: all handlers of a state run
(as far as the stream reaches); the next state is visited iff none of their decisions consumed. -/
def reactSpec (m : Method) : List St → List (Decision U) → List CbItem
  | [], _ => []
  | s :: rest, ds =>
    (stateItems m s).take ds.length ++
      (if (ds.take (stateItems m s).length).any (consumes m) then []
       else reactSpec m rest (ds.drop (stateItems m s).length))

theorem reactSpec_nil (m : Method) : (l : List St) → reactSpec (U := U) m l [] = []
  | [] => rfl
  | s :: rest => by simp [reactSpec, reactSpec_nil m rest]

theorem List.drop_min_length {α : Type} (l : List α) (n : Nat) : l.drop (min l.length n) = l.drop n := by
  by_cases h : n ≤ l.length
  · rw [Nat.min_eq_right h]
  · have h' : l.length ≤ n := by omega
    rw [Nat.min_eq_left h', List.drop_length, List.drop_eq_nil_of_le h']

theorem List.take_min_length' {α : Type} (l : List α) (n : Nat) : l.take (min l.length n) = l.take n := by
  by_cases h : n ≤ l.length
  · rw [Nat.min_eq_right h]
  · have h' : l.length ≤ n := by omega
    rw [Nat.min_eq_left h', List.take_length, List.take_of_length_le h']

namespace DKey

theorem slots_eq (sid : Nat) (m : Method) : (l : List Nat) → (k : DKey U) →
    k.slots sid m l = ⟨k.ds.drop l.length, k.consumed || (k.ds.take l.length).any (consumes m),
                        k.seq ++ (l.map (fun sl => (sid, m, sl))).take k.ds.length⟩
  | [], k => by simp [slots]
  | s :: rest, k => by
    rw [slots, slots_eq sid m rest]
    cases hds : k.ds with
    | nil => simp [invoke, hds]
    | cons d ds => simp [invoke, hds, Bool.or_assoc]

theorem state_eq (m : Method) (s : St) (k : DKey U) :
    k.state s m = ⟨k.ds.drop (stateItems m s).length,
                   k.consumed || (k.ds.take (stateItems m s).length).any (consumes m),
                   k.seq ++ (stateItems m s).take k.ds.length⟩ := by
  unfold state stateItems
  split
  · rw [slots_eq]; simp
  · simp

theorem all_eq (m : Method) : (l : List St) → (k : DKey U) →
    all m l k = ⟨k.ds.drop (expand m l).length,
                 k.consumed || (k.ds.take (expand m l).length).any (consumes m),
                 k.seq ++ (expand m l).take k.ds.length⟩
  | [], k => by simp [all, expand]
  | s :: rest, k => by
    rw [all, all_eq m rest, state_eq]
    simp only [expand, List.flatMap_cons, List.length_append, List.drop_drop, List.append_assoc,
      List.take_append, List.length_drop, Bool.or_assoc, mk.injEq, true_and]
    refine ⟨?_, trivial⟩
    rw [List.take_add, List.any_append]

theorem untilConsumed_eq (m : Method) : (l : List St) → (k : DKey U) → k.consumed = false →
    untilConsumed m l k = ⟨k.ds.drop (reactSpec m l k.ds).length,
                           (k.ds.take (reactSpec m l k.ds).length).any (consumes m),
                           k.seq ++ reactSpec m l k.ds⟩
  | [], k, hc => by cases k; simp_all [untilConsumed, reactSpec]
  | s :: rest, k, hc => by
    rw [untilConsumed]
    simp only [hc, Bool.false_eq_true, if_false]
    by_cases hcs : (k.ds.take (stateItems m s).length).any (consumes m) = true
    · rw [untilConsumed_of_consumed _ _ _ (by rw [state_eq]; simp [hc, hcs]), state_eq]
      simp only [reactSpec, hcs, if_true, List.append_nil, hc, Bool.false_or, List.length_take]
      rw [List.drop_min_length, List.take_min_length', hcs]
    · simp only [Bool.not_eq_true] at hcs
      rw [untilConsumed_eq m rest _ (by rw [state_eq]; simp [hc, hcs]), state_eq]
      simp only [reactSpec, hcs, Bool.false_eq_true, if_false, List.length_append, List.length_take]
      by_cases hn : (stateItems m s).length ≤ k.ds.length
      · rw [Nat.min_eq_right hn, ← List.drop_drop, List.take_add, List.any_append, hcs]
        simp
      · have h' : k.ds.length ≤ (stateItems m s).length := by omega
        simp [List.drop_eq_nil_of_le h', reactSpec_nil, Nat.min_eq_left h', List.take_length, List.take_of_length_le h'] at hcs ⊢
        exact hcs

end DKey

/-! ### properties of `reactSpec` -/

theorem expand_cons (m : Method) (s : St) (l : List St) : expand m (s :: l) = stateItems m s ++ expand m l := by
  simp [expand]

theorem expand_append (m : Method) (l1 l2 : List St) : expand m (l1 ++ l2) = expand m l1 ++ expand m l2 := by
  simp [expand]

/-- whatever is delivered is an initial segment of the full enumeration -/
theorem reactSpec_prefix (m : Method) : (l : List St) → (ds : List (Decision U)) →
    reactSpec m l ds <+: expand m l
  | [], _ => by simp [reactSpec, expand]
  | s :: rest, ds => by
    rw [reactSpec, expand_cons]
    by_cases hn : (stateItems m s).length ≤ ds.length
    · rw [List.take_of_length_le hn]
      split
      · simp
      · exact (List.prefix_append_right_inj _).2 (reactSpec_prefix m rest _)
    · have h' : ds.length ≤ (stateItems m s).length := by omega
      rw [List.drop_eq_nil_of_le h', reactSpec_nil]
      simp only [ite_self, List.append_nil]
      exact List.IsPrefix.trans (List.take_prefix _ _) (List.prefix_append _ _)

/-- no consuming decision among those that are used: everything is delivered -/
theorem reactSpec_of_no_consume (m : Method) : (l : List St) → (ds : List (Decision U)) →
    (ds.take (expand m l).length).any (consumes m) = false →
    reactSpec m l ds = (expand m l).take ds.length
  | [], _, _ => by simp [reactSpec, expand]
  | s :: rest, ds, h => by
    rw [expand_cons, List.length_append, List.take_add, List.any_append, Bool.or_eq_false_iff] at h
    rw [reactSpec, expand_cons, h.1, List.take_append]
    simp only [Bool.false_eq_true, if_false]
    rw [reactSpec_of_no_consume m rest _ h.2, List.length_drop]

/-- The truncation rule, declaratively: if decision number `i` is the first that consumes and the
`i`-th callback of the full enumeration belongs to the `j`-th state of the list, then exactly the
callbacks of the states `0 … j` are delivered (cut only where the decision stream ends). -/
theorem reactSpec_first_consume (m : Method) : (l : List St) → (ds : List (Decision U)) → (i j : Nat) →
    (hi : i < ds.length) → consumes m ds[i] = true →
    (∀ i', (h : i' < i) → consumes m (ds[i']'(Nat.lt_trans h hi)) = false) →
    (expand m (l.take j)).length ≤ i → i < (expand m (l.take (j+1))).length →
    reactSpec m l ds = (expand m (l.take (j+1))).take ds.length
  | [], _, _, _, _, _, _, _, hhi => by simp [expand] at hhi
  | s :: rest, ds, i, 0, hi, hc, _, _, hhi => by
    simp only [List.take_succ_cons, List.take_zero, expand_cons] at hhi ⊢
    simp only [expand, List.flatMap_nil, List.append_nil] at hhi ⊢
    have : (ds.take (stateItems m s).length).any (consumes m) = true := by
      rw [List.any_eq_true]
      exact ⟨ds[i], List.mem_take_iff_getElem.2 ⟨i, by omega, rfl⟩, hc⟩
    simp [reactSpec, this]
  | s :: rest, ds, i, j+1, hi, hc, hf, hlo, hhi => by
    simp only [List.take_succ_cons, expand_cons, List.length_append] at hlo hhi ⊢
    have hn : (stateItems m s).length ≤ ds.length := by omega
    have : (ds.take (stateItems m s).length).any (consumes m) = false := by
      rw [List.any_eq_false]
      intro x hx
      obtain ⟨i', hi', rfl⟩ := List.mem_take_iff_getElem.1 hx
      simpa using hf i' (by omega)
    rw [reactSpec, this, List.take_of_length_le hn, List.take_append]
    simp only [Bool.false_eq_true, if_false]
    rw [List.take_of_length_le hn]
    have hi2 : i - (stateItems m s).length < (ds.drop (stateItems m s).length).length := by
      rw [List.length_drop]; omega
    rw [reactSpec_first_consume m rest (ds.drop (stateItems m s).length) (i - (stateItems m s).length) j hi2
      (by simpa [List.getElem_drop, Nat.add_sub_cancel' (by omega : (stateItems m s).length ≤ i)] using hc)
      (by
        intro i' h'
        have := hf ((stateItems m s).length + i') (by omega)
        simpa [List.getElem_drop] using this)
      (by omega) (by omega), List.length_drop]


end Hfsm
